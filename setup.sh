#!/bin/sh
# Build everything the checks need, offline, from files on disk only.
set -e
cd "$(dirname "$0")"
exec python3 ./check setup
