package harness

// Stream "cache_race" — part (C) of C08 ("concurrent use of the public API is free of
// data races, panics and deadlocks"): SUPPORTING SEARCH ONLY, it is not an oracle for any
// other property and the Lean driver does not replay its trace (driver component: null).
//
// Real goroutines, the real scheduler, the real clock: no verifPoint hooks are installed
// and no testing/synctest bubble is used (that is cache_test.go's business).  The *choice
// of configurations* (cache config, number of goroutines, key universe, per-worker rng
// seeds) is a deterministic function of VERIF_SEED; the *interleavings* — and therefore
// the number of calls, drops, evictions … — are NOT deterministic and differ from run to
// run.  What the stream can see:
//   * a panic in any public call           -> r.Fail("C08", "panic in <op>: …", cfg)
//   * a call that does not return in 10 s  -> r.Fail("C08", "call did not return", cfg+op)
//   * non-inert behaviour after Close      -> r.Fail("C15", …)
//   * a data race                          -> only under `go test -race` (TestRaceStress);
//     the race detector prints "WARNING: DATA RACE" and fails the test binary by itself.
//
// Trace records (informational, one per configuration):
//   race <cfg fields as k=v> calls=N clears=N setfalse=N slowest=<op>:<ms>

import (
	"bufio"
	"fmt"
	"io"
	"math/rand"
	"os"
	"sort"
	"strings"
	"sync"
	"sync/atomic"
	"testing"
	"time"

	ristretto "github.com/dgraph-io/ristretto/v2"
)

func init() { streams["cache_race"] = streamCacheRace }

const (
	raceHangLimit   = 10 * time.Second       // one call may not take longer than this
	racePoll        = 100 * time.Millisecond // watchdog period
	racePromptLimit = 2 * time.Second        // "returns promptly" after Close (C15)
	racePerScale    = 150 * time.Millisecond // work per config = racePerScale × min(Scale,4)
)

// raceDurOverride (>0) replaces the per-configuration duration; only TestRaceStress sets
// it (env VERIF_RACE_MS) so that the thorough tier can run long configurations.
var raceDurOverride time.Duration

// op codes published by the workers for the watchdog.
const (
	ropGet = iota
	ropSet
	ropSetTTL
	ropDel
	ropGetTTL
	ropIter
	ropWait
	ropClear
	ropUpdMax
	ropMaxCost
	ropRemaining
	ropMetrics
	ropN
)

var raceOpName = [ropN]string{"Get", "Set", "SetWithTTL", "Del", "GetTTL", "IterValues", "Wait",
	"Clear", "UpdateMaxCost", "MaxCost", "RemainingCost", "Metrics"}

// weights, summing to 2000; Clear is 20/2000 = 1 in 100.
var raceOpWeight = [ropN]int{ropGet: 560, ropSet: 520, ropSetTTL: 240, ropDel: 200, ropGetTTL: 100,
	ropIter: 60, ropWait: 90, ropClear: 20, ropUpdMax: 50, ropMaxCost: 50, ropRemaining: 50, ropMetrics: 60}

var raceTTLs = []time.Duration{-time.Second, 0, time.Millisecond, 50 * time.Millisecond, time.Hour}

type raceCfg struct {
	seed        int64
	idx         int
	bufferItems int64
	numCounters int64
	maxCost     int64
	altMaxCost  int64 // UpdateMaxCost flips between maxCost and altMaxCost
	metrics     bool
	ignoreInt   bool
	costFn      bool
	shouldUpd   bool
	onEvict     bool
	onReject    bool
	onExit      bool
	setBuf      int // 0 = library default
	g           int
	keys        int
	dur         time.Duration
}

func (c raceCfg) String() string {
	b := func(x bool) int {
		if x {
			return 1
		}
		return 0
	}
	sb := "default"
	if c.setBuf > 0 {
		sb = fmt.Sprint(c.setBuf)
	}
	return fmt.Sprintf("seed=%d cfg=%d bufferItems=%d numCounters=%d maxCost=%d altMaxCost=%d metrics=%d "+
		"ignoreInternalCost=%d costFn=%d shouldUpdate=%d onEvict=%d onReject=%d onExit=%d ttlTickerSec=1 "+
		"setBuf=%s goroutines=%d keys=%d durMs=%d",
		c.seed, c.idx, c.bufferItems, c.numCounters, c.maxCost, c.altMaxCost, b(c.metrics), b(c.ignoreInt),
		b(c.costFn), b(c.shouldUpd), b(c.onEvict), b(c.onReject), b(c.onExit), sb, c.g, c.keys,
		c.dur.Milliseconds())
}

func raceGenCfg(r *Run, idx int) raceCfg {
	rng := r.Rng
	pickCost := func() int64 {
		if rng.Intn(3) == 0 {
			return 1 << 30
		}
		return int64(1 + rng.Intn(200))
	}
	sc := r.Scale
	if sc < 1 {
		sc = 1
	}
	if sc > 4 {
		sc = 4
	}
	c := raceCfg{
		seed:        r.Seed,
		idx:         idx,
		bufferItems: int64(1 + rng.Intn(64)),
		numCounters: []int64{2, 3, 16, 1000, 100000}[rng.Intn(5)],
		maxCost:     pickCost(),
		altMaxCost:  pickCost(),
		metrics:     rng.Intn(3) != 0,
		ignoreInt:   rng.Intn(2) == 0,
		costFn:      rng.Intn(2) == 0,
		shouldUpd:   rng.Intn(2) == 0,
		onEvict:     rng.Intn(2) == 0,
		onReject:    rng.Intn(2) == 0,
		onExit:      rng.Intn(2) == 0,
		setBuf:      []int{1, 2, 8, 64, 0}[rng.Intn(5)],
		g:           2 + rng.Intn(15),
		keys:        1 + rng.Intn(32),
		dur:         time.Duration(sc) * racePerScale,
	}
	if raceDurOverride > 0 {
		c.dur = raceDurOverride
	}
	if idx%3 == 1 {
		// every Get reaches the policy goroutine: its Push runs against Clear / Add / UpdateMaxCost
		c.bufferItems = 1
		c.numCounters = 1000
	}
	return c
}

// raceFails collects failures from worker goroutines (r.Fail is not goroutine-safe); the
// main goroutine flushes them into the Run.
type raceFails struct {
	mu   sync.Mutex
	list []Failure
}

func (f *raceFails) add(prop, what, input string) {
	f.mu.Lock()
	if len(f.list) < 20 {
		f.list = append(f.list, Failure{Property: prop, What: what, Input: input})
	}
	f.mu.Unlock()
}

func (f *raceFails) flush(r *Run) {
	f.mu.Lock()
	l := f.list
	f.list = nil
	f.mu.Unlock()
	for _, x := range l {
		r.Fail(x.Property, x.What, x.Input)
	}
}

// raceWorker is the state one worker shares with the watchdog.
type raceWorker struct {
	start atomic.Int64 // UnixNano at which the current call started; 0 = not inside a call
	op    atomic.Int32
	// written by the worker just before it exits, read by main after wg.Wait:
	counts   [ropN]int
	setFalse int
	negTTL   int
	slowNs   int64 // longest single call
	slowOp   int
}

// raceCBs are the only things the callbacks touch.
type raceCBs struct{ evict, reject, exit atomic.Int64 }

// raceTimed runs f on its own goroutine and waits at most limit.  ok=false: f did not
// return (its goroutine is leaked) or panicked (reported).
func raceTimed(fails *raceFails, prop, op, input string, limit time.Duration, f func()) (ok bool) {
	done := make(chan bool, 1)
	go func() {
		defer func() {
			if p := recover(); p != nil {
				fails.add(prop, fmt.Sprintf("panic in %s: %v", op, p), input)
				done <- false
				return
			}
			done <- true
		}()
		f()
	}()
	t := time.NewTimer(limit)
	defer t.Stop()
	select {
	case ok = <-done:
		return ok
	case <-t.C:
		what := "call did not return"
		if prop == "C15" {
			what = "call on a closed cache did not return promptly"
		}
		fails.add(prop, what, fmt.Sprintf("%s op=%s (single-threaded phase after the workers stopped) limit=%s", input, op, limit))
		return false
	}
}

// raceMax keeps a maximum (not a sum) in a counter.
func raceMax(r *Run, k string, d time.Duration) {
	if ms := int(d.Milliseconds()); ms > r.Counters[k] {
		r.Counters[k] = ms
	}
}

func raceReadMetrics(m *ristretto.Metrics) uint64 {
	s := m.Hits() + m.Misses() + m.KeysAdded() + m.KeysUpdated() + m.KeysEvicted() + m.CostAdded() +
		m.CostEvicted() + m.SetsDropped() + m.SetsRejected() + m.GetsDropped() + m.GetsKept()
	s += uint64(m.Ratio()) + uint64(len(m.String()))
	if h := m.LifeExpectancySeconds(); h != nil {
		s += uint64(h.Count)
	}
	return s
}

// raceMaxCostFlip: UpdateMaxCost is a lock-free store, so the two reads of MaxCost inside one
// policy.Add (the "larger than the whole cache" test and roomLeft) can see different values.  One
// goroutine flips MaxCost between 1 and 1000 as fast as it can while another admits a 500-cost item
// into an EMPTY policy over and over: Add then meets "does not fit" with nothing to sample - it must
// reject, not fail.  (A panic of the applier goroutine cannot be recovered: it ends the process and
// the check reports the crash with this stream as the input.)
func raceMaxCostFlip(r *Run) {
	c, err := ristretto.NewCache(&ristretto.Config[uint64, uint64]{NumCounters: 100, MaxCost: 1000, BufferItems: 64, IgnoreInternalCost: true})
	if err != nil {
		r.Fail("*", "NewCache: "+err.Error(), "raceMaxCostFlip")
		return
	}
	r.Cases++
	var stop atomic.Bool
	done := make(chan struct{})
	go func() {
		defer close(done)
		for !stop.Load() {
			c.UpdateMaxCost(1)
			c.UpdateMaxCost(1000)
		}
	}()
	sc := r.Scale
	if sc < 1 {
		sc = 1
	}
	if sc > 6 {
		sc = 6
	}
	deadline := time.Now().Add(time.Duration(sc) * 600 * time.Millisecond)
	n := 0
	for time.Now().Before(deadline) {
		k := uint64(n % 8)
		c.Set(k, uint64(n+1), 500)
		c.Wait()
		c.Del(k)
		c.Wait()
		n++
		if n%256 == 0 {
			r.Tick()
		}
	}
	stop.Store(true)
	<-done
	c.Close()
	r.CountN("race_maxcost_flip_sets", n)
}

func streamCacheRace(r *Run) {
	raceMaxCostFlip(r)
	n := 2 + r.Scale
	if n < 1 {
		n = 1
	}
	for idx := 0; idx < n; idx++ {
		cfg := raceGenCfg(r, idx)
		// per-worker seeds are drawn here, before anything runs, so they depend on the seed only
		seeds := make([]int64, cfg.g)
		for i := range seeds {
			seeds[i] = r.Rng.Int63()
		}
		if !raceOneConfig(r, cfg, seeds) {
			return // something is stuck: do not pile more goroutines on top of it
		}
	}
}

// raceOneConfig returns false when a call hung (the stream stops there).
func raceOneConfig(r *Run, cfg raceCfg, seeds []int64) bool {
	input := cfg.String()
	r.Cases++
	fails := &raceFails{}
	defer fails.flush(r)

	cbs := &raceCBs{}
	conf := &ristretto.Config[uint64, uint64]{
		NumCounters:            cfg.numCounters,
		MaxCost:                cfg.maxCost,
		BufferItems:            cfg.bufferItems,
		Metrics:                cfg.metrics,
		IgnoreInternalCost:     cfg.ignoreInt,
		TtlTickerDurationInSec: 1,
	}
	// The callbacks only bump atomic counters: they never call back into the cache.
	if cfg.costFn {
		conf.Cost = func(v uint64) int64 { return int64(v%7) + 1 }
	}
	if cfg.shouldUpd {
		conf.ShouldUpdate = func(cur, prev uint64) bool { return cur%4 != 0 }
	}
	if cfg.onEvict {
		conf.OnEvict = func(*ristretto.Item[uint64]) { cbs.evict.Add(1) }
	}
	if cfg.onReject {
		conf.OnReject = func(*ristretto.Item[uint64]) { cbs.reject.Add(1) }
	}
	if cfg.onExit {
		conf.OnExit = func(uint64) { cbs.exit.Add(1) }
	}

	// setBufSize is a package global that NewCache reads once (make(chan, setBufSize)):
	// set it, create, restore — all on this goroutine, no other cache is being created.
	var cache *ristretto.Cache[uint64, uint64]
	var err error
	func() {
		defer func() {
			if p := recover(); p != nil {
				err = fmt.Errorf("panic: %v", p)
			}
		}()
		if cfg.setBuf > 0 {
			old := ristretto.VerifSetBufSize(cfg.setBuf)
			defer ristretto.VerifSetBufSize(old)
		}
		cache, err = ristretto.NewCache(conf)
	}()
	if err != nil {
		r.Fail("C08", "NewCache: "+err.Error(), input)
		return true
	}

	var (
		stop     atomic.Bool
		wg       sync.WaitGroup
		workers  = make([]*raceWorker, cfg.g)
		deadline = time.Now().Add(cfg.dur)
	)
	for w := range workers {
		workers[w] = &raceWorker{}
	}
	for w := range workers {
		wg.Add(1)
		go raceWork(cache, cfg, input, w, workers[w], rand.New(rand.NewSource(seeds[w])), deadline, &stop, fails, &wg)
	}
	allDone := make(chan struct{})
	go func() { wg.Wait(); close(allDone) }()

	// Watchdog (runs on the stream's goroutine, so it may call r.Fail directly).
	tick := time.NewTicker(racePoll)
	defer tick.Stop()
	hung := false
watch:
	for {
		select {
		case <-allDone:
			break watch
		case <-tick.C:
			now := time.Now().UnixNano()
			for w, st := range workers {
				s := st.start.Load()
				if s != 0 && now-s > int64(raceHangLimit) {
					op := raceOpName[st.op.Load()]
					r.Fail("C08", "call did not return",
						fmt.Sprintf("%s op=%s worker=%d workerSeed=%d insideForMs=%d (interleaving dependent: re-run the stream with this seed/scale)",
							input, op, w, seeds[w], (now-s)/1e6))
					hung = true
					break
				}
			}
			if hung {
				stop.Store(true)
				// give the healthy workers a moment; the stuck one is leaked
				select {
				case <-allDone:
				case <-time.After(time.Second):
				}
				break watch
			}
		}
	}
	stop.Store(true)
	if hung {
		r.Emit("race %s hung=1", input)
		return false
	}

	// All workers have exited (wg.Wait happened-before close(allDone)): their local
	// tallies may be read now.
	var total [ropN]int
	setFalse, negTTL := 0, 0
	slowNs, slowOp := int64(0), 0
	for _, st := range workers {
		for op, k := range st.counts {
			total[op] += k
		}
		setFalse += st.setFalse
		negTTL += st.negTTL
		if st.slowNs > slowNs {
			slowNs, slowOp = st.slowNs, st.slowOp
		}
	}
	raceMax(r, "max_call_ms", time.Duration(slowNs)) // how close any call came to the 10 s limit
	raceMax(r, "max_drain_ms", time.Since(deadline)) // deadline -> last worker exited
	calls := 0
	for op, k := range total {
		calls += k
		r.CountN(raceOpName[op], k)
	}
	r.CountN("set_returned_false", setFalse)
	r.CountN("setttl_negative", negTTL)
	r.CountN("cb_evict", int(cbs.evict.Load()))
	r.CountN("cb_reject", int(cbs.reject.Load()))
	r.CountN("cb_exit", int(cbs.exit.Load()))
	if total[ropClear] > 0 && setFalse > 0 {
		r.Nontriv++
	}
	line := fmt.Sprintf("race %s calls=%d clears=%d setfalse=%d slowest=%s:%dms", input, calls, total[ropClear], setFalse,
		raceOpName[slowOp], slowNs/1e6)
	r.Emit("%s", line)
	if cfg.idx < 2 {
		r.Sample(line)
	}

	// Quiescent phase, single-threaded, every call still under a watchdog.
	t0 := time.Now()
	if !raceTimed(fails, "C08", "Wait(final)", input, raceHangLimit, cache.Wait) {
		return false
	}
	raceMax(r, "max_finalwait_ms", time.Since(t0))
	// Weak sanity only (true for every interleaving): the readers do not panic.
	// (RemainingCost ≤ MaxCost is NOT an invariant: UpdateMaxCost may go below `used`.)
	if !raceTimed(fails, "C08", "Metrics(final)", input, raceHangLimit, func() {
		_ = raceReadMetrics(cache.Metrics) // nil-safe when metrics are off
		_ = cache.MaxCost()
		_ = cache.RemainingCost()
	}) {
		return false
	}
	t0 = time.Now()
	if !raceTimed(fails, "C08", "Close", input, raceHangLimit, cache.Close) {
		return false
	}
	raceMax(r, "max_close_ms", time.Since(t0))

	// C15: a closed cache is inert.
	inert := true
	inert = raceTimed(fails, "C15", "Set(after Close)", input, racePromptLimit, func() {
		if cache.Set(1, 1, 1) {
			fails.add("C15", "Set returned true on a closed cache", input)
		}
		if cache.SetWithTTL(1, 1, 1, time.Hour) {
			fails.add("C15", "SetWithTTL returned true on a closed cache", input)
		}
	}) && inert
	inert = raceTimed(fails, "C15", "Get(after Close)", input, racePromptLimit, func() {
		for k := uint64(0); k <= uint64(cfg.keys); k++ {
			if v, ok := cache.Get(k); ok {
				fails.add("C15", fmt.Sprintf("Get(%d) hit (value %d) on a closed cache", k, v), input)
				break
			}
		}
	}) && inert
	inert = raceTimed(fails, "C15", "Del(after Close)", input, racePromptLimit, func() { cache.Del(1) }) && inert
	inert = raceTimed(fails, "C15", "Wait(after Close)", input, racePromptLimit, cache.Wait) && inert
	inert = raceTimed(fails, "C15", "Clear(after Close)", input, racePromptLimit, cache.Clear) && inert
	inert = raceTimed(fails, "C15", "Close(after Close)", input, racePromptLimit, cache.Close) && inert
	if inert {
		r.Count("closed_inert_ok")
	}
	return true
}

func raceWork(c *ristretto.Cache[uint64, uint64], cfg raceCfg, input string, id int, st *raceWorker,
	rng *rand.Rand, deadline time.Time, stop *atomic.Bool, fails *raceFails, wg *sync.WaitGroup) {
	var counts [ropN]int
	setFalse, negTTL := 0, 0
	slowNs, slowOp := int64(0), 0
	cur := -1
	defer func() {
		if p := recover(); p != nil {
			op := "?"
			if cur >= 0 {
				op = raceOpName[cur]
			}
			fails.add("C08", fmt.Sprintf("panic in %s: %v", op, p),
				fmt.Sprintf("%s worker=%d (interleaving dependent: re-run the stream with this seed/scale)", input, id))
			stop.Store(true)
		}
		st.start.Store(0)
		st.counts, st.setFalse, st.negTTL = counts, setFalse, negTTL
		st.slowNs, st.slowOp = slowNs, slowOp
		wg.Done()
	}()
	nKeys := uint64(cfg.keys)
	flip := false
	for i := 0; ; i++ {
		if stop.Load() || (i&7 == 0 && time.Now().After(deadline)) {
			return
		}
		// choose the call
		x := rng.Intn(2000)
		op := 0
		for ; op < ropN-1; op++ {
			if x < raceOpWeight[op] {
				break
			}
			x -= raceOpWeight[op]
		}
		if op == ropMetrics && !cfg.metrics {
			op = ropGet
		}
		key := uint64(rng.Int63()) % nKeys
		val := uint64(rng.Intn(1 << 16))
		cost := int64(0) // 0: "use Config.Cost" (or a zero-cost item when there is none)
		if rng.Intn(4) != 0 {
			cost = int64(1 + rng.Intn(20))
		}
		cur = op
		st.op.Store(int32(op))
		t0 := time.Now().UnixNano()
		st.start.Store(t0)
		switch op {
		case ropGet:
			c.Get(key)
		case ropSet:
			if !c.Set(key, val, cost) {
				setFalse++
			}
		case ropSetTTL:
			ttl := raceTTLs[rng.Intn(len(raceTTLs))]
			ok := c.SetWithTTL(key, val, cost, ttl)
			if ttl < 0 {
				negTTL++ // documented no-op, returns false: not counted as a dropped Set
			} else if !ok {
				setFalse++
			}
		case ropDel:
			c.Del(key)
		case ropGetTTL:
			c.GetTTL(key)
		case ropIter:
			left := -1 // never stop early
			if rng.Intn(2) == 0 {
				left = rng.Intn(4)
			}
			c.IterValues(func(uint64) bool {
				if left < 0 {
					return false
				}
				left--
				return left < 0
			})
		case ropWait:
			c.Wait()
		case ropClear:
			c.Clear()
		case ropUpdMax:
			flip = !flip
			if flip {
				c.UpdateMaxCost(cfg.altMaxCost)
			} else {
				c.UpdateMaxCost(cfg.maxCost)
			}
		case ropMaxCost:
			c.MaxCost()
		case ropRemaining:
			c.RemainingCost()
		case ropMetrics:
			raceReadMetrics(c.Metrics)
		}
		st.start.Store(0)
		if d := time.Now().UnixNano() - t0; d > slowNs {
			slowNs, slowOp = d, op
		}
		counts[op]++
	}
}

// raceNewRun builds a Run outside TestStream (trace discarded).
func raceNewRun(t *testing.T, seed int64, scale int) *Run {
	return &Run{T: t, Rng: rand.New(rand.NewSource(seed)), Seed: seed, Scale: scale,
		w: bufio.NewWriter(io.Discard), Counters: map[string]int{}, Known: map[string]int{},
		Failures: []Failure{}, Samples: []string{}}
}

// TestRaceStress is what the thorough tier runs under the race detector:
//
//	go test -race -tags verif -run '^TestRaceStress$' -count=1 .
//
// env: VERIF_SEED (default 1), VERIF_SCALE (default 2; 2+scale configurations),
// VERIF_RACE_MS (optional: per-configuration duration in ms instead of 150×min(scale,4)).
// A data race makes the race detector print "WARNING: DATA RACE" and fail the binary.
func TestRaceStress(t *testing.T) {
	seed := envInt("VERIF_SEED", 1)
	scale := int(envInt("VERIF_SCALE", 2))
	if ms := envInt("VERIF_RACE_MS", 0); ms > 0 {
		raceDurOverride = time.Duration(ms) * time.Millisecond
		defer func() { raceDurOverride = 0 }()
	}
	r := raceNewRun(t, seed, scale)
	t0 := time.Now()
	func() {
		defer func() {
			if p := recover(); p != nil {
				r.Fail("*", fmt.Sprintf("harness/implementation panic: %v", p), "stream=cache_race")
			}
		}()
		streamCacheRace(r)
	}()
	r.w.Flush()
	for _, f := range r.Failures {
		t.Errorf("%s: %s\n  input: %s", f.Property, f.What, f.Input)
	}
	keys := make([]string, 0, len(r.Counters))
	for k := range r.Counters {
		keys = append(keys, k)
	}
	sort.Strings(keys)
	var sb strings.Builder
	for _, k := range keys {
		fmt.Fprintf(&sb, " %s=%d", k, r.Counters[k])
	}
	t.Logf("cache_race seed=%d scale=%d cases=%d nontrivial=%d wall=%s%s", seed, scale, r.Cases, r.Nontriv,
		time.Since(t0).Round(time.Millisecond), sb.String())
	if os.Getenv("VERIF_RACE_VERBOSE") != "" {
		for _, s := range r.Samples {
			t.Log(s)
		}
	}
}
