package harness

// Scripted scenarios for the cooperative-scheduler cache harness (stream `cache_script`).
//
// The random schedules of the other cache streams reach every yield point, but some property cores
// need a specific conjunction (a Set still in the write buffer when Del runs; a re-write of a key
// whose TTL has elapsed but which has not been swept yet; a re-write that lands in the same expiry
// bucket; a client acting between two keys of one sweep; activity before and after a Clear with
// metrics on, …).  Each scenario below drives the real cache through such a conjunction with swept
// parameters (costs incl. 0, TTLs, buffer sizes, which goroutine moves first) and otherwise random
// choices.  Nothing is special-cased downstream: the calls are recorded like all others, every
// direct oracle runs over them, and the trace is validated against the Lean model.

import (
	"fmt"
	"math/rand"
	"time"
)

type scriptCtx struct {
	rng      *rand.Rand
	cfg      cacheCfg
	nClients int
	name     string
	// primitives supplied by cacheCaseBody
	call       func(ci int, kind string, key uint64, cost int64, ttl time.Duration)
	busy       func(ci int) bool
	stepClient func(ci int) bool // release client ci once if it is parked at a yield point
	stepOther  func() bool       // release the applier (else the policy goroutine) once
	appAt      func() int        // yield point the applier is parked at (0: not parked)
	tick       func(d time.Duration)
	snapshot   func()
	count      func(string)
	checkFresh func()           // C15 oracle right after an un-overlapped Clear
	cliAt      func(ci int) int // yield point client ci is parked at (0: not parked)
	lastCall   func() *callRec
	fail       func(prop, what string)
}

// expectGet = Get(key) by client ci, whose result the scenario can predict exactly
func (sc *scriptCtx) expectGet(ci int, key, want uint64, found bool, prop, why string) {
	sc.do(ci, "get", key, 0, 0)
	c := sc.lastCall()
	if c == nil || c.kind != "get" || c.endSeq == 0 {
		return
	}
	if c.found != found || (found && c.got != want) {
		sc.fail(prop, fmt.Sprintf("Get(%d) = (%d,%v), expected (%d,%v): %s", key, c.got, c.found, want, found, why))
	}
}

// finish runs client ci until its call has returned; whenever the client cannot move (blocked on
// the channel / waiting for the applier) the applier moves instead.
func (sc *scriptCtx) finish(ci int) {
	for guard := 0; guard < 20000 && sc.busy(ci); guard++ {
		if sc.stepClient(ci) {
			continue
		}
		if !sc.stepOther() {
			return // nobody can move: the generic deadlock check reports it
		}
	}
}

// do = call + finish
func (sc *scriptCtx) do(ci int, kind string, key uint64, cost int64, ttl time.Duration) {
	sc.call(ci, kind, key, cost, ttl)
	sc.finish(ci)
}

// drain lets the applier (and the policy goroutine) run until they wait for input.
func (sc *scriptCtx) drain() {
	for guard := 0; guard < 20000 && sc.stepOther(); guard++ {
	}
}

// appUntil releases the applier until it is parked at yield point `hook` (or cannot move).
func (sc *scriptCtx) appUntil(hook int) bool {
	for guard := 0; guard < 20000; guard++ {
		if sc.appAt() == hook {
			return true
		}
		if !sc.stepOther() {
			return false
		}
	}
	return false
}

func (sc *scriptCtx) cost() int64 {
	switch sc.rng.Intn(4) {
	case 0:
		return 0
	case 1:
		return 1
	default:
		return 1 + sc.rng.Int63n(sc.cfg.maxCost/8+1)
	}
}

func (sc *scriptCtx) maybeDrain() {
	if sc.rng.Intn(2) == 0 {
		sc.drain()
	}
}

var scriptNames = []string{"del_wins", "expired_rewrite", "same_bucket", "sweep_race", "clear_metrics", "overwrite_chain", "ttl_mix", "evict_refill", "benign_fill", "stale_new", "clear_race", "shrink_del"}

// scenarios whose client calls are strictly sequential (each returns before the next starts) and
// contain no Clear: with room to spare the C06 reference-map oracle applies to them
var scriptSequential = map[string]bool{"stale_new": true, "del_wins": true, "expired_rewrite": true, "same_bucket": true, "sweep_race": true, "ttl_mix": true}

func cacheScript(sc *scriptCtx) {
	rng := sc.rng
	k := uint64(1 + rng.Intn(sc.cfg.nKeys))
	k2 := uint64(1 + rng.Intn(sc.cfg.nKeys))
	for k2 == k && sc.cfg.nKeys > 1 {
		k2 = uint64(1 + rng.Intn(sc.cfg.nKeys))
	}
	other := 0
	if sc.nClients > 1 {
		other = 1
	}
	sc.name = sc.cfg.script
	switch sc.name {
	case "del_wins":
		// C05: Sets of k (any cost, also 0) applied or still buffered, then Del(k), Wait, Get(k)
		n := 1 + rng.Intn(3)
		for i := 0; i < n; i++ {
			sc.do(0, "set", k, sc.cost(), 0)
			sc.maybeDrain()
		}
		if rng.Intn(2) == 0 {
			sc.do(other, "set", k2, sc.cost(), 0) // concurrent activity on another key
		}
		sc.do(0, "del", k, 0, 0)
		sc.maybeDrain()
		sc.do(0, "wait", 0, 0, 0)
		sc.do(0, "get", k, 0, 0)
		sc.do(0, "getttl", k, 0, 0)
		sc.do(other, "get", k2, 0, 0)
		if rng.Intn(2) == 0 { // and the key is usable again
			sc.do(0, "set", k, sc.cost(), 0)
			sc.do(0, "wait", 0, 0, 0)
			sc.do(0, "get", k, 0, 0)
		}
	case "expired_rewrite":
		// C06 / C07: a key whose TTL has elapsed but which the sweep has not removed yet is
		// written again (with a TTL, without, or deleted); then Wait, Get, GetTTL
		ttl := []time.Duration{time.Second, 2 * time.Second, 4 * time.Second}[rng.Intn(3)]
		sc.do(0, "set", k, 1+sc.cost(), ttl)
		sc.do(0, "wait", 0, 0, 0)
		sc.do(0, "get", k, 0, 0)
		sc.tick(ttl + time.Duration(rng.Intn(1500))*time.Millisecond) // expired, inside the sweep's blind window
		if rng.Intn(3) == 0 {
			sc.do(0, "get", k, 0, 0)
		}
		nt := []time.Duration{0, 0, time.Second, 7 * time.Second}[rng.Intn(4)]
		sc.do(0, "set", k, 1+sc.cost(), nt)
		sc.maybeDrain()
		sc.do(0, "wait", 0, 0, 0)
		sc.do(0, "get", k, 0, 0)
		sc.do(0, "getttl", k, 0, 0)
		sc.tick(6 * time.Second)
		sc.drain()
		sc.do(0, "get", k, 0, 0)
		sc.tick(6 * time.Second)
		sc.drain()
		sc.do(0, "get", k, 0, 0)
	case "same_bucket":
		// C14 / C13: re-writes whose new expiration falls into the same / the next / an earlier
		// expiry bucket, then enough time and sweeps for everything to be reclaimed
		ttl := []time.Duration{time.Second, 3 * time.Second, 5 * time.Second}[rng.Intn(3)]
		sc.do(0, "set", k, 1+sc.cost(), ttl)
		sc.maybeDrain()
		for i := 0; i < 1+rng.Intn(3); i++ {
			sc.tick(time.Duration(100+rng.Intn(900)) * time.Millisecond)
			d := []time.Duration{ttl, ttl, ttl + 5*time.Second, time.Second}[rng.Intn(4)]
			sc.do(0, "set", k, 1+sc.cost(), d)
			sc.maybeDrain()
		}
		sc.do(0, "wait", 0, 0, 0)
		for i := 0; i < 5; i++ {
			sc.tick(5 * time.Second)
			sc.drain()
		}
		sc.do(0, "get", k, 0, 0)
		sc.do(0, "rem", 0, 0, 0)
	case "sweep_race":
		// C14 / C06 / C02: several keys expire in one bucket; while the sweep is between two of
		// them a client re-writes / deletes / reads one of the remaining keys
		ttl := time.Second
		keys := []uint64{k, k2}
		if sc.cfg.nKeys > 2 {
			for x := uint64(1); int(x) <= sc.cfg.nKeys; x++ {
				if x != k && x != k2 {
					keys = append(keys, x)
					break
				}
			}
		}
		for _, x := range keys {
			sc.do(0, "set", x, 1, ttl)
		}
		sc.do(0, "wait", 0, 0, 0)
		sc.tick(4 * time.Second)
		sc.tick(2500 * time.Millisecond) // their bucket is due; the ticker has fired
		if sc.appUntil(51) {             // vpSweepKey: the bucket is detached, first key chosen
			sc.count("script_sweep_race_in_sweep")
			victim := keys[rng.Intn(len(keys))]
			switch rng.Intn(4) {
			case 0:
				sc.do(other, "set", victim, 1+sc.cost(), 0)
			case 1:
				sc.do(other, "set", victim, 1+sc.cost(), 9*time.Second)
			case 2:
				sc.do(other, "del", victim, 0, 0)
			default:
				sc.do(other, "get", victim, 0, 0)
			}
		}
		sc.drain()
		sc.do(0, "wait", 0, 0, 0)
		for _, x := range keys {
			sc.do(0, "get", x, 0, 0)
		}
		sc.do(0, "rem", 0, 0, 0)
		sc.tick(6 * time.Second)
		sc.drain()
		for _, x := range keys {
			sc.do(0, "get", x, 0, 0)
		}
	case "clear_metrics":
		// C15 / C17: activity on every key (all metric stripes used by the key set), Clear,
		// the same kind of activity again
		for round := 0; round < 2; round++ {
			for x := uint64(1); int(x) <= sc.cfg.nKeys; x++ {
				sc.do(0, "set", x, 1+sc.cost(), 0)
				if rng.Intn(2) == 0 {
					sc.do(0, "get", x, 0, 0)
				}
			}
			sc.do(0, "wait", 0, 0, 0)
			sc.do(0, "set", k, 2+sc.cost(), 0) // overwrite (KeysUpdated, cost delta)
			sc.do(0, "del", k2, 0, 0)          // removal
			sc.do(0, "get", k, 0, 0)
			sc.do(0, "get", k2, 0, 0)
			sc.do(0, "wait", 0, 0, 0)
			sc.snapshot()
			if round == 0 {
				sc.do(0, "clear", 0, 0, 0)
				sc.snapshot()
				sc.checkFresh()
				sc.do(0, "get", k, 0, 0)
				sc.do(0, "rem", 0, 0, 0)
			}
		}
	case "overwrite_chain":
		// C02 / C04 / C01: overwrites of a resident key racing the applier and a reader
		sc.do(0, "set", k, 1+sc.cost(), 0)
		sc.do(0, "wait", 0, 0, 0)
		for i := 0; i < 2+rng.Intn(3); i++ {
			sc.call(0, "set", k, 1+sc.cost(), 0)
			sc.call(other, "get", k, 0, 0)
			for sc.busy(0) || (other != 0 && sc.busy(other)) {
				moved := false
				if rng.Intn(2) == 0 {
					moved = sc.stepClient(0)
				} else if other != 0 {
					moved = sc.stepClient(other)
				}
				if !moved && !sc.stepClient(0) && !(other != 0 && sc.stepClient(other)) && !sc.stepOther() {
					break
				}
			}
			sc.maybeDrain()
		}
		sc.do(0, "wait", 0, 0, 0)
		sc.do(0, "get", k, 0, 0)
	case "ttl_mix":
		// C07: TTL replaced by a longer, shorter or no TTL; delete and re-insert; reads around
		// the expiration instants
		seq := []time.Duration{2 * time.Second, 6 * time.Second, time.Second, 0, 3 * time.Second}
		rng.Shuffle(len(seq), func(i, j int) { seq[i], seq[j] = seq[j], seq[i] })
		for _, d := range seq[:2+rng.Intn(3)] {
			sc.do(0, "set", k, 1+sc.cost(), d)
			sc.maybeDrain()
			if rng.Intn(3) == 0 {
				sc.do(0, "del", k, 0, 0)
			}
			sc.do(0, "getttl", k, 0, 0)
			sc.tick(time.Duration(500+rng.Intn(2500)) * time.Millisecond)
			sc.do(0, "get", k, 0, 0)
			sc.do(0, "getttl", k, 0, 0)
		}
		sc.do(0, "wait", 0, 0, 0)
		sc.tick(7 * time.Second)
		sc.do(0, "get", k, 0, 0)
		sc.do(0, "iter", 0, 0, 0)
	case "stale_new":
		// C06 / C05 / C02 / C13: two new-item Sets of an absent key are both in the write buffer; the
		// applier applies only the first; the client then overwrites / deletes / reads the key (an
		// overwrite is an in-place update, visible at once); only then is the stale second new-item
		// applied (the policy already accounts the key: it must be rejected, not stored).  With room
		// to spare the outcome is determined (Lean: c06_refines, second_new_rejected) and checked.
		sc.drain()
		ttl0 := []time.Duration{0, 0, 30 * time.Second}[rng.Intn(3)]
		sc.do(0, "set", k, 1+sc.cost(), ttl0)
		v1, ok1 := sc.lastCall().val, sc.lastCall().ok
		sc.do(0, "set", k, 1+sc.cost(), 0)
		ok2 := sc.lastCall().ok
		if rng.Intn(4) == 0 {
			sc.do(0, "set", k2, 1+sc.cost(), 0)
		}
		exact := sc.cfg.seqRoom && ok1 && ok2 && sc.appAt() != 40 && sc.appUntil(40) // vpAppItemDone: exactly the first item has been applied
		if exact {
			sc.count("script_stale_new_exact")
		}
		want, found := v1, true
		switch rng.Intn(5) {
		case 0, 1:
			sc.do(0, "set", k, 1+sc.cost(), 0)
			want = sc.lastCall().val
		case 2:
			sc.do(0, "set", k, 1+sc.cost(), 40*time.Second)
			want = sc.lastCall().val
		case 3:
			sc.do(0, "del", k, 0, 0)
			found = false
		default:
		}
		if exact {
			sc.expectGet(0, k, want, found, "C06", "the first of two buffered new-item Sets was applied, then the key was overwritten / deleted / left alone; the stale second new-item is still buffered")
		} else {
			sc.do(0, "get", k, 0, 0)
		}
		sc.drain()
		sc.do(0, "wait", 0, 0, 0)
		if exact {
			sc.expectGet(0, k, want, found, "C06", "after Wait: the stale second new-item of an accounted key must have been rejected, not stored")
		} else {
			sc.do(0, "get", k, 0, 0)
		}
		sc.do(0, "getttl", k, 0, 0)
		sc.do(0, "rem", 0, 0, 0)
		sc.do(0, "iter", 0, 0, 0)
	case "clear_race":
		// C13 / C15 / C02 / C04: Clear is between two shards of the map (policy already reset, some
		// shards wiped, others not yet) when another client writes / deletes / reads a key of a
		// shard that is still to come, or of one that is already wiped
		if sc.nClients < 2 {
			break
		}
		for x := uint64(1); int(x) <= sc.cfg.nKeys; x++ {
			sc.do(0, "set", x, 1+sc.cost(), []time.Duration{0, 0, 20 * time.Second}[rng.Intn(3)])
		}
		sc.do(0, "wait", 0, 0, 0)
		sc.call(0, "clear", 0, 0, 0)
		stops := 1 + rng.Intn(3)
		for guard := 0; guard < 20000 && sc.busy(0); guard++ {
			if sc.cliAt(0) == 28 { // vpClearShard: a non-empty shard has just been wiped
				sc.count("script_clear_race_between_shards")
				x := uint64(1 + rng.Intn(sc.cfg.nKeys))
				switch rng.Intn(5) {
				case 0, 1:
					sc.do(1, "set", x, 1+sc.cost(), 0)
				case 2:
					sc.do(1, "del", x, 0, 0)
				case 3:
					sc.do(1, "get", x, 0, 0)
				default:
					sc.do(1, "set", x, 1+sc.cost(), 5*time.Second)
				}
				if rng.Intn(3) != 0 {
					sc.drain() // the applier is stopped while Clear runs: nothing may be applied here
				}
				stops--
				if stops == 0 {
					break
				}
			}
			if !sc.stepClient(0) && !sc.stepOther() {
				break
			}
		}
		sc.finish(0)
		sc.finish(1)
		sc.drain()
		sc.do(0, "wait", 0, 0, 0)
		for x := uint64(1); int(x) <= sc.cfg.nKeys; x++ {
			sc.do(1, "get", x, 0, 0)
		}
		sc.do(0, "rem", 0, 0, 0)
		sc.do(0, "iter", 0, 0, 0)
		sc.snapshot()
	case "shrink_del":
		// C05 / C03 / C13: the capacity is lowered (UpdateMaxCost, also below the internal item size)
		// between the application of a buffered Set and the processing of the Del tombstone queued
		// behind it (or before the Del is issued); Del must still win, whatever the tombstone "costs"
		sc.drain()
		sc.do(0, "set", k, 1+sc.cost(), 0)
		sc.do(0, "set", k2, 1+sc.cost(), 0)
		early := rng.Intn(2) == 0
		if early {
			sc.do(0, "del", k, 0, 0) // tombstone queued behind the still buffered Set
		}
		if sc.appAt() != 40 {
			sc.appUntil(40) // the Set of k has been applied
		}
		sc.do(other, "updmax", 0, []int64{1, 10, 40, 55, 56, 57, 100}[rng.Intn(7)], 0)
		if !early {
			if rng.Intn(3) == 0 {
				sc.do(0, "set", k, 1+sc.cost(), 0)
			}
			sc.maybeDrain()
			sc.do(0, "del", k, 0, 0)
		}
		sc.drain()
		sc.do(0, "wait", 0, 0, 0)
		sc.expectGet(0, k, 0, false, "C05", "Del(k) returned and a later Wait returned (the capacity had been lowered by UpdateMaxCost while the tombstone was queued)")
		sc.do(0, "get", k2, 0, 0)
		sc.do(0, "rem", 0, 0, 0)
		sc.do(other, "updmax", 0, sc.cfg.maxCost, 0)
		sc.do(0, "set", k, 1+sc.cost(), 0)
		sc.do(0, "wait", 0, 0, 0)
		sc.do(0, "get", k, 0, 0)
	case "benign_fill":
		// C03 / C09: a history in which no Set can raise the accounted cost of its key (each key is
		// written once, or again with a cost that is not larger, strictly one call after the other)
		// and MaxCost is never changed, but the costs add up to more than MaxCost: every admission
		// beyond the capacity must evict first, also one that needs more victims than one sample
		// holds (a large item into a cache full of small ones); with Config.Cost deciding the cost
		// (cost 0 at the call) in half of the configurations.  The C03 oracle (accounted <= MaxCost)
		// applies to exactly such histories.
		n := sc.cfg.nKeys
		small := sc.cfg.maxCost/int64(n) + 1
		last := map[uint64]int64{}
		set := func(x uint64, c int64) {
			if sc.cfg.costFn {
				c = 0
			}
			sc.do(0, "set", x, c, 0)
			last[x] = c
		}
		order := rng.Perm(n)
		big := uint64(order[n-1] + 1)
		for _, i := range order[:n-1] {
			x := uint64(i + 1)
			set(x, small+int64(rng.Intn(2)))
			if rng.Intn(3) == 0 {
				sc.do(other, "get", x, 0, 0)
			}
			sc.maybeDrain()
		}
		sc.do(0, "wait", 0, 0, 0)
		sc.do(0, "rem", 0, 0, 0)
		for i := 0; i < 2+rng.Intn(5); i++ { // make the newcomer popular: it is admitted, after many evictions
			sc.do(other, "get", big, 0, 0)
		}
		set(big, sc.cfg.maxCost*int64(5+rng.Intn(4))/10)
		sc.do(0, "wait", 0, 0, 0)
		sc.do(0, "rem", 0, 0, 0)
		if !sc.cfg.costFn { // second round: same or smaller costs
			for _, i := range order[:1+rng.Intn(n-1)] {
				x := uint64(i + 1)
				c := last[x] - int64(rng.Intn(2))
				if c < 1 {
					c = 1
				}
				set(x, c)
			}
			sc.do(0, "wait", 0, 0, 0)
		}
		sc.do(0, "rem", 0, 0, 0)
		sc.do(0, "iter", 0, 0, 0)
	case "evict_refill":
		// C03 / C09 / C13: fill to capacity, overflow with one large and several small items
		per := sc.cfg.maxCost/int64(sc.cfg.nKeys) + 1
		for x := uint64(1); int(x) <= sc.cfg.nKeys; x++ {
			sc.do(0, "set", x, per, 0)
			sc.do(0, "get", x, 0, 0)
		}
		sc.do(0, "wait", 0, 0, 0)
		sc.do(0, "set", k, sc.cfg.maxCost/2+1, 0)
		sc.do(0, "wait", 0, 0, 0)
		sc.do(0, "rem", 0, 0, 0)
		sc.do(0, "iter", 0, 0, 0)
		for x := uint64(1); int(x) <= sc.cfg.nKeys; x++ {
			sc.do(0, "get", x, 0, 0)
		}
	}
	sc.drain()
}
