package harness

// Deterministic replays of the open known findings of the cache (public API only).

import (
	"fmt"
	"math"
	"testing"
	"testing/synctest"
	"time"

	ristretto "github.com/dgraph-io/ristretto/v2"
)

func init() {
	streams["cache_f6"] = streamCacheF6
	streams["cache_f9"] = streamCacheF9
}

// F6 (C14): an insert whose application is delayed past the sweep of its expiry bucket is
// registered in a bucket that has already been cleaned and is never reclaimed: its capacity
// stays charged forever.  Virtual time (synctest): the applier is held for 20 s inside
// Config.Cost while SetWithTTL(2, ttl=1s) waits in the buffer.
func streamCacheF6(r *Run) {
	r.Cases++
	synctest.Test(r.T, func(t *testing.T) {
		cache, err := ristretto.NewCache(&ristretto.Config[uint64, uint64]{
			NumCounters: 100, MaxCost: 100, BufferItems: 64, IgnoreInternalCost: true,
			Cost: func(v uint64) int64 {
				if v == 1 {
					time.Sleep(20 * time.Second) // the applier stalls here
				}
				return 1
			},
		})
		if err != nil {
			r.Fail("*", "NewCache: "+err.Error(), "")
			return
		}
		cache.Set(1, 1, 0) // cost 0 => Config.Cost => 20 s stall in the applier
		time.Sleep(time.Second)
		cache.SetWithTTL(2, 2, 5, time.Second) // buffered behind the stalled item; expires at t=2s
		time.Sleep(60 * time.Second)           // many sweeps later
		cache.Wait()
		_, found := cache.Get(2)
		rem := cache.RemainingCost()
		r.Emit("f6 found2=%v remaining=%d", found, rem)
		if !found && rem != 99 {
			r.FailSig("C14", "F6", fmt.Sprintf("key 2 (ttl 1s, cost 5) expired long ago but its cost is still charged 60 s later: RemainingCost()=%d, expected 99", rem),
				"Cost(v=1) sleeps 20s in the applier; Set(1,1,0); after 1s SetWithTTL(2,2,5,1s); after 60s Wait; RemainingCost")
		}
		cache.Close()
	})
}

// F9 (C03): cost + itemSize overflows int64: the accounted cost becomes negative and the
// item is admitted although it is larger than the whole cache.
func streamCacheF9(r *Run) {
	r.Cases++
	cache, err := ristretto.NewCache(&ristretto.Config[uint64, uint64]{NumCounters: 100, MaxCost: 10, BufferItems: 64})
	if err != nil {
		r.Fail("*", "NewCache: "+err.Error(), "")
		return
	}
	ok := cache.Set(1, 101, math.MaxInt64)
	cache.Wait()
	v, found := cache.Get(1)
	rem := cache.RemainingCost()
	r.Emit("f9 ok=%v found=%v v=%d remaining=%d", ok, found, v, rem)
	if found && rem > 10 {
		r.FailSig("C03", "F9", fmt.Sprintf("Set(1,101,MaxInt64) with MaxCost=10 and the internal cost enabled was admitted; RemainingCost()=%d > MaxCost", rem),
			"MaxCost=10, IgnoreInternalCost=false; Set(1,101,math.MaxInt64); Wait; Get(1); RemainingCost()")
	}
	cache.Close()
}

func init() { streams["alloc_f10"] = streamAllocF10 }
