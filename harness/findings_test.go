package harness

// Deterministic replays of the open known findings of the cache (public API only).

import (
	"fmt"
	"math"
	"sync"
	"sync/atomic"
	"testing"
	"testing/synctest"
	"time"

	ristretto "github.com/dgraph-io/ristretto/v2"
)

func init() {
	streams["cache_f6"] = streamCacheF6
	streams["cache_f9"] = streamCacheF9
	streams["cache_f12"] = streamCacheF12
	streams["cache_f13"] = streamCacheF13
}

// F12 (C04): SetWithTTL and Del call OnExit(prev) after the store update, outside every lock.
// A Clear that runs entirely inside that window returns while the replaced value has not been
// passed to OnExit yet ("no later than the return of the next Clear" is violated; the value is
// released a moment later by the overlapping call itself).  The yield point vpSetAfterUpdate
// holds the overwriting Set exactly there.
func streamCacheF12(r *Run) {
	r.Cases++
	var mu sync.Mutex
	exits := map[uint64]int{}
	armed := false
	reached := make(chan struct{})
	release := make(chan struct{})
	ristretto.VerifPointFn = func(id int) {
		mu.Lock()
		hit := id == 1 && armed
		if hit {
			armed = false
		}
		mu.Unlock()
		if hit {
			close(reached)
			<-release
		}
	}
	defer func() { ristretto.VerifPointFn = nil }()
	cache, err := ristretto.NewCache(&ristretto.Config[uint64, uint64]{
		NumCounters: 100, MaxCost: 100, BufferItems: 64, IgnoreInternalCost: true,
		OnExit: func(v uint64) {
			mu.Lock()
			exits[v]++
			mu.Unlock()
		},
	})
	if err != nil {
		r.Fail("*", "NewCache: "+err.Error(), "")
		return
	}
	ok7 := cache.Set(1, 7, 1)
	cache.Wait()
	mu.Lock()
	armed = true
	mu.Unlock()
	done := make(chan struct{})
	go func() {
		cache.Set(1, 8, 1) // overwrites 7 in the store, then parks before OnExit(7)
		close(done)
	}()
	<-reached
	cache.Clear()
	mu.Lock()
	atClearReturn := exits[7]
	mu.Unlock()
	close(release)
	<-done
	cache.Close()
	mu.Lock()
	final := exits[7]
	mu.Unlock()
	r.Emit("f12 ok7=%v exits7_at_clear_return=%d exits7_final=%d", ok7, atClearReturn, final)
	if ok7 && atClearReturn == 0 && final == 1 {
		r.FailSig("C04", "F12", "value 7 (accepted, then overwritten by a Set that is between store.Update and OnExit(prev)) had not been passed to OnExit when a concurrent Clear returned; it was released afterwards by the overwriting Set",
			"Set(1,7); Wait; goroutine: Set(1,8) held at vpSetAfterUpdate; Clear() returns; release the Set")
	}
	if final != 1 {
		r.Fail("C04", fmt.Sprintf("value 7 was passed to OnExit %d times", final), "F12 witness history")
	}
}

// F6 (C14): an insert whose application is delayed past the sweep of its expiry bucket is
// registered in a bucket that has already been cleaned and is never reclaimed: its capacity
// stays charged forever.  Virtual time (synctest): the applier is held for 20 s inside
// Config.Cost while SetWithTTL(2, ttl=1s) waits in the buffer.
func streamCacheF6(r *Run) {
	r.Cases++
	synctest.Test(r.T, func(t *testing.T) {
		cache, err := ristretto.NewCache(&ristretto.Config[uint64, uint64]{
			NumCounters: 100, MaxCost: 100, BufferItems: 64, IgnoreInternalCost: true,
			Cost: func(v uint64) int64 {
				if v == 1 {
					time.Sleep(20 * time.Second) // the applier stalls here
				}
				return 1
			},
		})
		if err != nil {
			r.Fail("*", "NewCache: "+err.Error(), "")
			return
		}
		cache.Set(1, 1, 0) // cost 0 => Config.Cost => 20 s stall in the applier
		time.Sleep(time.Second)
		cache.SetWithTTL(2, 2, 5, time.Second) // buffered behind the stalled item; expires at t=2s
		time.Sleep(60 * time.Second)           // many sweeps later
		cache.Wait()
		_, found := cache.Get(2)
		rem := cache.RemainingCost()
		r.Emit("f6 found2=%v remaining=%d", found, rem)
		if !found && rem != 99 {
			r.FailSig("C14", "F6", fmt.Sprintf("key 2 (ttl 1s, cost 5) expired long ago but its cost is still charged 60 s later: RemainingCost()=%d, expected 99", rem),
				"Cost(v=1) sleeps 20s in the applier; Set(1,1,0); after 1s SetWithTTL(2,2,5,1s); after 60s Wait; RemainingCost")
		}
		cache.Close()
	})
}

// F9 (C03): cost + itemSize overflows int64: the accounted cost becomes negative and the
// item is admitted although it is larger than the whole cache.
func streamCacheF9(r *Run) {
	r.Cases++
	cache, err := ristretto.NewCache(&ristretto.Config[uint64, uint64]{NumCounters: 100, MaxCost: 10, BufferItems: 64})
	if err != nil {
		r.Fail("*", "NewCache: "+err.Error(), "")
		return
	}
	ok := cache.Set(1, 101, math.MaxInt64)
	cache.Wait()
	v, found := cache.Get(1)
	rem := cache.RemainingCost()
	r.Emit("f9 ok=%v found=%v v=%d remaining=%d", ok, found, v, rem)
	if found && rem > 10 {
		r.FailSig("C03", "F9", fmt.Sprintf("Set(1,101,MaxInt64) with MaxCost=10 and the internal cost enabled was admitted; RemainingCost()=%d > MaxCost", rem),
			"MaxCost=10, IgnoreInternalCost=false; Set(1,101,math.MaxInt64); Wait; Get(1); RemainingCost()")
	}
	cache.Close()
}

func init() { streams["alloc_f10"] = streamAllocF10 }

// F13 (C08, "every call returns in bounded time"): Clear drains setBuf with a non-blocking loop
// that ends only when it finds the channel empty.  Writers are not held off while it drains, so
// as long as Sets keep arriving — here: one new Set per drained item, issued while Clear is inside
// the user's OnEvict callback for the previous item — Clear does not return: the number of its
// drain iterations is bounded by nothing that was true when it was called.  (Lean:
// `C08Fair.c08_clear_livelock_counterexample`, a fair infinite execution in which Clear never
// returns; every other call returns under the same fairness, `c08_non_clear_calls_return`.)
// The witness runs `rounds` such iterations, then stops writing; Clear returns at once.
func streamCacheF13(r *Run) {
	r.Cases++
	rounds := 2000 * r.Scale
	var mu sync.Mutex
	armed := true
	atDone := make(chan struct{})
	goOn := make(chan struct{})
	ristretto.VerifPointFn = func(id int) {
		mu.Lock()
		hit := id == 14 && armed // vpClearDone: the applier has stopped, the drain has not begun
		if hit {
			armed = false
		}
		mu.Unlock()
		if hit {
			close(atDone)
			<-goOn
		}
	}
	defer func() { ristretto.VerifPointFn = nil }()
	inEvict := make(chan uint64)
	resume := make(chan struct{})
	var draining atomic.Bool
	cache, err := ristretto.NewCache(&ristretto.Config[uint64, uint64]{
		NumCounters: 100, MaxCost: 1 << 30, BufferItems: 64, IgnoreInternalCost: true,
		OnEvict: func(it *ristretto.Item[uint64]) {
			if draining.Load() {
				inEvict <- it.Value
				<-resume
			}
		},
	})
	if err != nil {
		r.Fail("*", "NewCache: "+err.Error(), "")
		return
	}
	cleared := make(chan struct{})
	go func() {
		cache.Clear()
		close(cleared)
	}()
	<-atDone
	// the applier is stopped; this Set stays in setBuf for the drain to find
	accepted := 0
	if cache.Set(1, 1, 1) {
		accepted++
	}
	draining.Store(true)
	close(goOn)
	iterations := 0
	returnedEarly := false
	for k := uint64(2); int(k) <= rounds+1; k++ {
		select {
		case <-inEvict: // Clear is inside OnEvict for the item it just drained
			iterations++
			if cache.Set(k, k, 1) { // one more write arrives while Clear is busy
				accepted++
			}
			resume <- struct{}{}
		case <-cleared:
			returnedEarly = true
		}
		if returnedEarly {
			break
		}
	}
	// stop writing: the next drain iteration is the last one
	stillRunning := !returnedEarly
	if stillRunning {
		select {
		case <-inEvict:
			iterations++
			draining.Store(false)
			resume <- struct{}{}
		case <-cleared:
		}
		<-cleared
	}
	draining.Store(false)
	cache.Close()
	r.Emit("f13 rounds=%d drain_iterations=%d accepted=%d clear_still_running_after_rounds=%v", rounds, iterations, accepted, stillRunning)
	if stillRunning && iterations >= rounds {
		r.FailSig("C08", "F13", fmt.Sprintf("Clear had not returned after %d drain iterations, each of which found a Set issued after Clear had begun (it returned as soon as the writes stopped): its running time is not bounded while other goroutines keep writing", iterations),
			"goroutine: Clear() held at vpClearDone; Set(1); release; then for every item Clear drains (inside OnEvict): Set(next key); repeat")
	}
}
