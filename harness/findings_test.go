package harness

// Deterministic replays of the open known findings of the cache (public API only).

import (
	"fmt"
	"math"
	"sync"
	"testing"
	"testing/synctest"
	"time"

	ristretto "github.com/dgraph-io/ristretto/v2"
)

func init() {
	streams["cache_f6"] = streamCacheF6
	streams["cache_f9"] = streamCacheF9
	streams["cache_f12"] = streamCacheF12
}

// F12 (C04): SetWithTTL and Del call OnExit(prev) after the store update, outside every lock.
// A Clear that runs entirely inside that window returns while the replaced value has not been
// passed to OnExit yet ("no later than the return of the next Clear" is violated; the value is
// released a moment later by the overlapping call itself).  The yield point vpSetAfterUpdate
// holds the overwriting Set exactly there.
func streamCacheF12(r *Run) {
	r.Cases++
	var mu sync.Mutex
	exits := map[uint64]int{}
	armed := false
	reached := make(chan struct{})
	release := make(chan struct{})
	ristretto.VerifPointFn = func(id int) {
		mu.Lock()
		hit := id == 1 && armed
		if hit {
			armed = false
		}
		mu.Unlock()
		if hit {
			close(reached)
			<-release
		}
	}
	defer func() { ristretto.VerifPointFn = nil }()
	cache, err := ristretto.NewCache(&ristretto.Config[uint64, uint64]{
		NumCounters: 100, MaxCost: 100, BufferItems: 64, IgnoreInternalCost: true,
		OnExit: func(v uint64) {
			mu.Lock()
			exits[v]++
			mu.Unlock()
		},
	})
	if err != nil {
		r.Fail("*", "NewCache: "+err.Error(), "")
		return
	}
	ok7 := cache.Set(1, 7, 1)
	cache.Wait()
	mu.Lock()
	armed = true
	mu.Unlock()
	done := make(chan struct{})
	go func() {
		cache.Set(1, 8, 1) // overwrites 7 in the store, then parks before OnExit(7)
		close(done)
	}()
	<-reached
	cache.Clear()
	mu.Lock()
	atClearReturn := exits[7]
	mu.Unlock()
	close(release)
	<-done
	cache.Close()
	mu.Lock()
	final := exits[7]
	mu.Unlock()
	r.Emit("f12 ok7=%v exits7_at_clear_return=%d exits7_final=%d", ok7, atClearReturn, final)
	if ok7 && atClearReturn == 0 && final == 1 {
		r.FailSig("C04", "F12", "value 7 (accepted, then overwritten by a Set that is between store.Update and OnExit(prev)) had not been passed to OnExit when a concurrent Clear returned; it was released afterwards by the overwriting Set",
			"Set(1,7); Wait; goroutine: Set(1,8) held at vpSetAfterUpdate; Clear() returns; release the Set")
	}
	if final != 1 {
		r.Fail("C04", fmt.Sprintf("value 7 was passed to OnExit %d times", final), "F12 witness history")
	}
}

// F6 (C14): an insert whose application is delayed past the sweep of its expiry bucket is
// registered in a bucket that has already been cleaned and is never reclaimed: its capacity
// stays charged forever.  Virtual time (synctest): the applier is held for 20 s inside
// Config.Cost while SetWithTTL(2, ttl=1s) waits in the buffer.
func streamCacheF6(r *Run) {
	r.Cases++
	synctest.Test(r.T, func(t *testing.T) {
		cache, err := ristretto.NewCache(&ristretto.Config[uint64, uint64]{
			NumCounters: 100, MaxCost: 100, BufferItems: 64, IgnoreInternalCost: true,
			Cost: func(v uint64) int64 {
				if v == 1 {
					time.Sleep(20 * time.Second) // the applier stalls here
				}
				return 1
			},
		})
		if err != nil {
			r.Fail("*", "NewCache: "+err.Error(), "")
			return
		}
		cache.Set(1, 1, 0) // cost 0 => Config.Cost => 20 s stall in the applier
		time.Sleep(time.Second)
		cache.SetWithTTL(2, 2, 5, time.Second) // buffered behind the stalled item; expires at t=2s
		time.Sleep(60 * time.Second)           // many sweeps later
		cache.Wait()
		_, found := cache.Get(2)
		rem := cache.RemainingCost()
		r.Emit("f6 found2=%v remaining=%d", found, rem)
		if !found && rem != 99 {
			r.FailSig("C14", "F6", fmt.Sprintf("key 2 (ttl 1s, cost 5) expired long ago but its cost is still charged 60 s later: RemainingCost()=%d, expected 99", rem),
				"Cost(v=1) sleeps 20s in the applier; Set(1,1,0); after 1s SetWithTTL(2,2,5,1s); after 60s Wait; RemainingCost")
		}
		cache.Close()
	})
}

// F9 (C03): cost + itemSize overflows int64: the accounted cost becomes negative and the
// item is admitted although it is larger than the whole cache.
func streamCacheF9(r *Run) {
	r.Cases++
	cache, err := ristretto.NewCache(&ristretto.Config[uint64, uint64]{NumCounters: 100, MaxCost: 10, BufferItems: 64})
	if err != nil {
		r.Fail("*", "NewCache: "+err.Error(), "")
		return
	}
	ok := cache.Set(1, 101, math.MaxInt64)
	cache.Wait()
	v, found := cache.Get(1)
	rem := cache.RemainingCost()
	r.Emit("f9 ok=%v found=%v v=%d remaining=%d", ok, found, v, rem)
	if found && rem > 10 {
		r.FailSig("C03", "F9", fmt.Sprintf("Set(1,101,MaxInt64) with MaxCost=10 and the internal cost enabled was admitted; RemainingCost()=%d > MaxCost", rem),
			"MaxCost=10, IgnoreInternalCost=false; Set(1,101,math.MaxInt64); Wait; Get(1); RemainingCost()")
	}
	cache.Close()
}

func init() { streams["alloc_f10"] = streamAllocF10 }
