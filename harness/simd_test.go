package harness

import (
	"fmt"
	"math"
	"os"
	"runtime/debug"
	"strings"
	"syscall"
	"unsafe"

	"github.com/dgraph-io/ristretto/v2/z/simd"
)

func init() { streams["simd"] = streamSimd }

// Stream "simd" (C20): differential test of simd.Search against simd.Naive and against a
// trivially written reference loop, on key-value arrays (keys at the even positions) that are
// embedded in a larger backing array whose words right behind the slice are filled
// adversarially.
//
// Direct oracle (independent of the Lean model), on EVERY generated case:
//
//	Search(xs,k) == Naive(xs,k) == ref(xs,k)   and   Search does not fault
//
// where the last part is checked by placing the slice so that it ends exactly at a page
// boundary followed by an inaccessible page (any read beyond len(xs) faults).
//
// Trace (validated by rvdrive component "simd" against the model: the generated assembly
// program run by the x86 interpreter + the generated wrapper kernels):
//
//	arr <scheme> <len> <pat>      current array = generator simdFill(scheme,len), tail pattern pat
//	raw <len> <ntail> w0 … t0 …   current array given explicitly, followed by ntail tail words
//	q <k> <Search> <Naive>        one query on the current array
//
// Generators (mirrored in lean/Drive/Simd.lean):
//
//	key j of m  scheme 0: 3j+3   scheme 1: 2^63 - 3*(m/2) + 3j   scheme 2: 2^64-1 - 3*(m-1-j)
//	value j     0 if j%3==2, else MaxUint64      (values must never influence the result)
//	tail word i (i = offset from len): odd i: MaxUint64; even i: bit (i/2)%4 of pat ? MaxUint64 : 0
//	            so the words at len, len+2, len+4, len+6 take all 16 combinations of {0, MaxUint64}
const simdTailWords = 64

func simdKey(scheme, m, j int) uint64 {
	switch scheme {
	case 0:
		return 3*uint64(j) + 3
	case 1:
		return (1 << 63) - 3*uint64(m/2) + 3*uint64(j)
	default:
		return math.MaxUint64 - 3*uint64(m-1-j)
	}
}

func simdVal(j int) uint64 {
	if j%3 == 2 {
		return 0
	}
	return math.MaxUint64
}

func simdTail(pat, i int) uint64 {
	if i%2 == 1 || (pat>>((i/2)%4))&1 == 1 {
		return math.MaxUint64
	}
	return 0
}

func simdFill(b []uint64, scheme, n int) {
	m := n / 2
	for j := 0; j < m; j++ {
		b[2*j] = simdKey(scheme, m, j)
		b[2*j+1] = simdVal(j)
	}
}

func simdSetTail(b []uint64, n, pat int) {
	for i := 0; i < simdTailWords; i++ {
		b[n+i] = simdTail(pat, i)
	}
}

// the reference: as plain as it gets
func simdRef(xs []uint64, k uint64) int16 {
	for j := 0; 2*j < len(xs); j++ {
		if xs[2*j] >= k {
			return int16(j)
		}
	}
	return int16(len(xs) / 2)
}

type simdRun struct {
	r     *Run
	evals int
}

// one evaluation of the direct oracle; returns Search's and Naive's answers
func (c *simdRun) eval(xs []uint64, k uint64, desc func() string) (s, n int16, ok bool) {
	c.evals++
	ok = true
	func() {
		defer func() {
			if p := recover(); p != nil {
				ok = false
				c.r.Fail("C20", fmt.Sprintf("Search panicked or faulted (in the guard-page test a fault means a read beyond len(xs)): %v", p), desc())
			}
		}()
		s = simd.Search(xs, k)
	}()
	if !ok {
		return
	}
	n = simd.Naive(xs, k)
	ref := simdRef(xs, k)
	if s != n || s != ref {
		ok = false
		c.r.Fail("C20", fmt.Sprintf("Search=%d Naive=%d reference=%d", s, n, ref), desc())
	}
	return
}

func simdPosK(scheme, m, p int) (uint64, bool) {
	// a k whose first key >= k is key p; p == m: none
	if p < m {
		return simdKey(scheme, m, p), true
	}
	if m == 0 {
		return 7, true
	}
	last := simdKey(scheme, m, m-1)
	if last == math.MaxUint64 {
		return 0, false
	}
	return last + 1, true
}

func streamSimd(r *Run) {
	c := &simdRun{r: r}
	maxExh := 1024
	maxLen := maxExh
	if r.Scale > 1 {
		maxLen = 1024 * r.Scale
		if maxLen > 8192 {
			maxLen = 8192
		}
	}
	backing := make([]uint64, maxLen+simdTailWords)

	nontriv := func(n int, s int16) bool {
		// the answer is decided at the end of the slice (last block of four keys, the Go tail
		// loop, or "none"): exactly where memory behind the slice could interfere
		return int(s) >= (n&^7)/2-4 || n%8 != 0
	}
	traced := func(xs []uint64, n int, k uint64, desc func() string) {
		s, nv, ok := c.eval(xs, k, desc)
		if !ok {
			return
		}
		r.Emit("q %d %d %d", k, s, nv)
		r.Cases++
		if nontriv(n, s) {
			r.Nontriv++
		}
	}

	// ---- A. every even length 0..1024, three key schemes, all 16 tail patterns
	for n := 0; n <= maxLen; n += 2 {
		m := n / 2
		large := n > maxExh
		schemes := []int{0, 1, 2}
		if large {
			schemes = []int{m % 3}
		}
		for _, scheme := range schemes {
			simdFill(backing, scheme, n)
			xs := backing[:n]
			// positions whose answer is decided near the end of the slice
			endFrom := m - 8
			if endFrom < 0 {
				endFrom = 0
			}
			var others []int
			if large {
				for p := 0; p < 8; p++ {
					others = append(others, p)
				}
				for i := 0; i < 8; i++ {
					others = append(others, r.Rng.Intn(m))
				}
			} else {
				for p := 0; p < endFrom; p++ {
					others = append(others, p)
				}
			}
			for pat := 0; pat < 16; pat++ {
				simdSetTail(backing, n, pat)
				desc := func(p int, k uint64) func() string {
					return func() string {
						return fmt.Sprintf("len=%d scheme=%d pos=%d(of %d keys; %d=none) k=%d tailpat=%04b (words at len,len+2,len+4,len+6: bit i set = MaxUint64 else 0)", n, scheme, p, m, m, k, pat)
					}
				}
				// -- oracle, exhaustive
				for p := endFrom; p <= m; p++ {
					if k, ok := simdPosK(scheme, m, p); ok {
						c.eval(xs, k, desc(p, k))
						if k > 0 {
							c.eval(xs, k-1, desc(p, k-1))
						}
					}
				}
				if !large || pat == m%16 || pat == (m+5)%16 {
					for _, p := range others {
						k := simdKey(scheme, m, p)
						c.eval(xs, k, desc(p, k))
						c.eval(xs, k-1, desc(p, k-1))
					}
					for _, k := range []uint64{0, 1, 1 << 63, math.MaxUint64} {
						c.eval(xs, k, desc(-1, k))
					}
				}
				// -- traced subset (validated against the model)
				if scheme != m%3 {
					continue
				}
				if large && (m+int(r.Seed))%16 != 0 {
					continue
				}
				if large && pat != m%16 {
					continue
				}
				if n > 256 && pat%4 != m%4 { // long slices: 4 of the 16 patterns per length (rotating)
					continue
				}
				r.Emit("arr %d %d %d", scheme, n, pat)
				r.Count("arr")
				from := m - 4
				if from < 0 {
					from = 0
				}
				for p := from; p <= m; p++ {
					if k, ok := simdPosK(scheme, m, p); ok {
						traced(xs, n, k, desc(p, k))
					}
				}
				if pat == m%16 || pat == (m+4)%16 {
					ps := []int{0, 1, 2, 3, 4, 5, 6, 7, 8, m / 2}
					if m > 0 {
						ps = append(ps, r.Rng.Intn(m), r.Rng.Intn(m))
					}
					if large {
						ps = []int{0, m / 2}
					}
					for _, p := range ps {
						if p >= m {
							continue
						}
						k := simdKey(scheme, m, p)
						traced(xs, n, k, desc(p, k))
						traced(xs, n, k-1, desc(p, k-1))
						if k < math.MaxUint64 {
							traced(xs, n, k+1, desc(p+1, k+1))
						}
					}
					for _, k := range []uint64{0, 1, 1 << 63, math.MaxUint64} {
						traced(xs, n, k, desc(-1, k))
					}
				}
			}
		}
	}
	r.Counters["lengths"] = maxLen/2 + 1

	// ---- B. random explicit arrays: duplicates, unsorted keys, arbitrary values and tails
	nRand := 400 * r.Scale
	for i := 0; i < nRand; i++ {
		n := 2 * r.Rng.Intn(41)
		if r.Rng.Intn(8) == 0 {
			n = 2 * r.Rng.Intn(300)
		}
		ntail := 16
		b := make([]uint64, n+ntail)
		pool := []uint64{0, 1, 2, 1 << 63, 1<<63 - 1, math.MaxUint64, math.MaxUint64 - 1}
		word := func() uint64 {
			switch r.Rng.Intn(3) {
			case 0:
				return pool[r.Rng.Intn(len(pool))]
			case 1:
				return uint64(r.Rng.Intn(50))
			}
			return r.Rng.Uint64()
		}
		for j := range b {
			b[j] = word()
		}
		if r.Rng.Intn(4) != 0 { // mostly ascending keys (non-strict), as in tree nodes
			keys := make([]uint64, n/2)
			for j := range keys {
				keys[j] = b[2*j]
			}
			for a := 1; a < len(keys); a++ {
				for q := a; q > 0 && keys[q] < keys[q-1]; q-- {
					keys[q], keys[q-1] = keys[q-1], keys[q]
				}
			}
			for j := range keys {
				b[2*j] = keys[j]
			}
		}
		xs := b[:n]
		var sb strings.Builder
		for _, w := range b {
			fmt.Fprintf(&sb, " %d", w)
		}
		r.Emit("raw %d %d%s", n, ntail, sb.String())
		r.Count("raw")
		desc := func(k uint64) func() string {
			return func() string {
				return fmt.Sprintf("len=%d k=%d words(slice then %d tail words)=%s", n, k, ntail, sb.String())
			}
		}
		for q := 0; q < 6; q++ {
			var k uint64
			switch {
			case q < 3 && n > 0:
				k = b[2*r.Rng.Intn(n/2)] + uint64(r.Rng.Intn(3)) - 1
			case q == 3:
				k = pool[r.Rng.Intn(len(pool))]
			default:
				k = word()
			}
			traced(xs, n, k, desc(k))
		}
		if i < 3 {
			r.Sample(fmt.Sprintf("raw len=%d:%s", n, sb.String()))
		}
	}

	// ---- C. slice ending exactly at an inaccessible page: any read beyond len(xs) faults
	page := os.Getpagesize()
	bytes := ((maxLen*8+page-1)/page + 1) * page
	mem, err := syscall.Mmap(-1, 0, bytes, syscall.PROT_READ|syscall.PROT_WRITE, syscall.MAP_ANON|syscall.MAP_PRIVATE)
	if err != nil {
		r.Fail("*", "mmap for the guard-page test failed: "+err.Error(), "stream=simd")
	} else {
		defer syscall.Munmap(mem)
		if err := syscall.Mprotect(mem[bytes-page:], syscall.PROT_NONE); err != nil {
			r.Fail("*", "mprotect for the guard-page test failed: "+err.Error(), "stream=simd")
		} else {
			old := debug.SetPanicOnFault(true)
			defer debug.SetPanicOnFault(old)
			end := unsafe.Pointer(&mem[bytes-page-8]) // last accessible word
			for n := 0; n <= maxLen; n += 2 {
				m := n / 2
				var xs []uint64
				if n > 0 {
					first := unsafe.Add(end, -8*(n-1))
					xs = unsafe.Slice((*uint64)(first), n)
				} else {
					xs = unsafe.Slice((*uint64)(unsafe.Add(end, 8)), 0) // empty slice AT the guard page
				}
				scheme := m % 3
				simdFill(xs, scheme, n)
				from := m - 5
				if from < 0 {
					from = 0
				}
				for p := from; p <= m; p++ {
					if k, ok := simdPosK(scheme, m, p); ok {
						kk := k
						pp := p
						c.eval(xs, kk, func() string {
							return fmt.Sprintf("len=%d scheme=%d pos=%d(of %d keys; %d=none) k=%d, slice ends at an inaccessible page (guard-page test)", n, scheme, pp, m, m, kk)
						})
						r.Count("guard_page_evals")
					}
				}
				c.eval(xs, math.MaxUint64, func() string {
					return fmt.Sprintf("len=%d scheme=%d k=MaxUint64, slice ends at an inaccessible page (guard-page test)", n, scheme)
				})
			}
		}
	}
	r.CountN("oracle_evals", c.evals)
	r.Sample(fmt.Sprintf("oracle evaluations (Search==Naive==reference, no fault): %d; lengths 0..%d", c.evals, maxLen))
}
