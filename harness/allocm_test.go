package harness

import (
	"fmt"
	"strings"
	"unsafe"

	"github.com/dgraph-io/ristretto/v2/z"
)

// C12 — stream `allocseq` (driver component `allocm`, Drive/AllocM.lean): ONE goroutine uses a
// z.Allocator through its public API, no yield hooks: every call runs from entry to return.  The
// Lean driver runs the functions GENERATED WHOLE from z/allocator.go (RV/Gen/AllocM.lean) — for
// Allocate all its sections in sequence — and compares the returned slice (located by real
// addresses), Size(), Allocated(), the chunk table after TrimTo / Reset / growth.  It covers the
// generated `Size` and `Allocated`, which the cooperative `alloc` stream never calls.
//
// Direct oracle (plain Go, independent of the model): aOracle of alloc_test.go on every returned
// slice (length, inside a chunk, no overlap since the last Reset, alignment + zero, copy equality),
// Size() = lengths of the chunks before the current one + offset, Allocated() = sum of the chunk
// lengths, TrimTo empties a suffix only.
func init() { streams["allocseq"] = streamAllocSeq }

func streamAllocSeq(r *Run) {
	aHooks.Lock()
	defer aHooks.Unlock()
	aRemoveHooks()
	initial := []int{0, 1, 512, 513, 1024, 1025, 2048, 3000, 4096}
	nCases := 40 * r.Scale
	for cn := 0; cn < nCases; cn++ {
		sz := initial[r.Rng.Intn(len(initial))]
		if r.Rng.Intn(3) == 0 {
			sz = 512 + r.Rng.Intn(3585)
		}
		a := z.NewAllocator(sz, "verif")
		hist := []string{fmt.Sprintf("NewAllocator(%d)", sz)}
		or := &aOracle{r: r, a: a, hist: &hist}
		r.Emit("new %d 1 %d", sz, a.VerifChunkLens()[0])
		r.Cases++
		nops := 20 + r.Rng.Intn(60)
		grew, trimmed := false, false
		dead := false
		for i := 0; i < nops && !dead; i++ {
			switch x := r.Rng.Intn(100); {
			case x < 70:
				op := aGenOp(r, a)
				if r.Rng.Intn(60) == 0 {
					op = aOp{kind: "alloc", sz: aMaxAlloc + 1 + r.Rng.Intn(3)}
				}
				before := a.VerifChunkLens()
				var res []byte
				var pval any
				func() {
					defer func() { pval = recover() }()
					res = aDo(a, op)
				}()
				hist = append(hist, op.String())
				if pval != nil {
					msg := fmt.Sprint(pval)
					kind := "other"
					switch {
					case strings.Contains(msg, "Unable to allocate more than"):
						kind = "toobig"
					case strings.Contains(msg, "can not allocate more than"):
						kind = "slots"
					case strings.Contains(msg, "out of range"):
						kind = "bounds"
					}
					r.Emit("call %s %d panic %s", op.kind, op.sz, kind)
					r.Count("seq_panic_" + kind)
					if kind != "toobig" {
						or.fail(fmt.Sprintf("%s panicked: %s", op, msg))
						dead = true
					}
					continue
				}
				ch, off := or.got(0, op, res)
				if res == nil {
					r.Emit("call %s %d nil", op.kind, op.sz)
					r.Count("seq_nil")
					continue
				}
				if len(res) == 0 {
					// an empty slice at the end of a chunk: resolve inside the current chunk
					bs, ls := a.VerifChunkBases(), a.VerifChunkLens()
					p := uintptr(unsafe.Pointer(unsafe.SliceData(res)))
					k := int(a.VerifCompIdx() >> 32)
					if k < len(bs) && p >= bs[k] && p <= bs[k]+uintptr(ls[k]) {
						ch, off = k, int(p-bs[k])
					}
				}
				base := uint64(0)
				if bs := a.VerifChunkBases(); ch >= 0 && ch < len(bs) {
					base = uint64(bs[ch]) % 8
				}
				r.Emit("call %s %d ret %d %d %d %d", op.kind, op.sz, ch, off, len(res), base)
				r.Count("seq_" + op.kind)
				if after := a.VerifChunkLens(); aChunkStr(after) != aChunkStr(before) {
					grew = true
					r.Emit("chunks %s", aChunkStr(after))
					r.Count("seq_growth")
				}
			case x < 80:
				lens, word := a.VerifChunkLens(), a.VerifCompIdx()
				bi, pi := int(word>>32), int(word&0xFFFFFFFF)
				want := pi
				for j := 0; j < bi && j < len(lens); j++ {
					want += lens[j]
				}
				got := a.Size()
				r.Emit("size %d", got)
				r.Count("seq_size")
				if got != want {
					or.fail(fmt.Sprintf("Size() = %d, but the chunks before the current one hold %d bytes and the offset is %d", got, want-pi, pi))
				}
			case x < 88:
				lens := a.VerifChunkLens()
				want := 0
				for _, l := range lens {
					want += l
				}
				got := a.Allocated()
				r.Emit("allocated %d", got)
				r.Count("seq_allocated")
				if got != uint64(want) {
					or.fail(fmt.Sprintf("Allocated() = %d, the chunks hold %d bytes", got, want))
				}
			case x < 94:
				a.Reset()
				or.live = nil
				hist = append(hist, "Reset")
				r.Emit("reset")
				r.Count("seq_reset")
			default:
				// TrimTo that keeps at least the first chunk (max <= len(first chunk) is finding F10)
				lensNow := a.VerifChunkLens()
				total := 0
				for _, l := range lensNow {
					total += l
				}
				max := lensNow[0] + 1 + r.Rng.Intn(total-lensNow[0]+2)
				a.TrimTo(max)
				after := a.VerifChunkLens()
				hist = append(hist, fmt.Sprintf("TrimTo(%d)", max))
				r.Emit("trim %d", max)
				r.Emit("chunks %s", aChunkStr(after))
				r.Count("seq_trim")
				trimmed = true
				or.dropFreed(after)
				c := &aCase{r: r, a: a, or: or}
				c.checkTrim(lensNow, after, max)
				if after[int(a.VerifCompIdx()>>32)] == 0 {
					a.Reset()
					or.live = nil
					hist = append(hist, "Reset")
					r.Emit("reset")
					r.Count("seq_reset")
				}
			}
		}
		or.audit("end of case")
		r.Emit("chunks %s", aChunkStr(a.VerifChunkLens()))
		r.Emit("end")
		if grew && trimmed {
			r.Nontriv++
		}
		if cn < 2 {
			r.Sample(strings.Join(hist, ";"))
		}
		if dead {
			return
		}
		a.Release()
	}
}
