package harness

// Cache streams: the real ristretto.Cache driven by a cooperative scheduler inside a
// testing/synctest bubble (virtual clock).  With -tags verif every atomic section of
// the cache is followed by a yield point (verifPoint); the controller releases exactly
// one goroutine at a time and waits for quiescence (synctest.Wait), so that each run is
// a *chosen* interleaving that the Lean driver can replay on the model step by step.
//
// Trace records (one per line):
//   case N / cfg ... / spawn cK <call> / rel G / obs ID A B / cb exit V /
//   cb evict H C V COST / cb reject H C V COST / at G HOOK / blk G / ret G <result> /
//   tick NS / snap ... / end
// Within a release the records of the released goroutine come first, then the arrivals
// of goroutines it woke up (those only run from their wake-up to their next yield point).

import (
	"fmt"
	"math/rand"
	"runtime"
	"sort"
	"strconv"
	"strings"
	"sync"
	"testing"
	"testing/synctest"
	"time"

	ristretto "github.com/dgraph-io/ristretto/v2"
)

func init() {
	streams["cache"] = func(r *Run) { streamCache(r, "main") }
	streams["cache_single"] = func(r *Run) { streamCache(r, "single") }
	streams["cache_collide"] = func(r *Run) { streamCache(r, "collide") }
	streams["cache_evict"] = func(r *Run) { streamCache(r, "evict") }
	streams["cache_script"] = func(r *Run) { streamCache(r, "script") }
}

const hookStart = 100 // pseudo yield point: a client call is about to start

type gor struct {
	evSince   int      // OnEvict callbacks run by this goroutine since its last vpClearShard
	lastShard uint64   // shard index observed at vpClearShard
	rec       *callRec // client: the call in progress
	name      string
	park      chan struct{}
	at        int
	done      bool
	busy      bool // client: a call is in progress
}

type event struct {
	owner *gor
	line  string
}

type callRec struct {
	client   int
	kind     string
	key      uint64
	val      uint64
	ttl      time.Duration
	cost     int64
	startSeq int
	endSeq   int
	startT   time.Time
	endT     time.Time
	updSeq   int  // set: seq at which store.Update had certainly been executed (first yield point after it)
	updated  bool // set: took the overwrite path (store.Update succeeded)
	iterSeen []uint64
	ok       bool
	found    bool
	got      uint64
	dur      time.Duration
}

type sched struct {
	mu      sync.Mutex
	byGoid  map[uint64]*gor
	app     *gor
	pol     *gor
	clients []*gor
	events  []event
	seq     int
	r       *Run
	// oracle bookkeeping
	exitBy     map[uint64]*callRec // value -> the client call whose goroutine ran its OnExit (nil: applier)
	exitSeq    map[uint64]int      // value -> seq of first OnExit
	exitCnt    map[uint64]int
	evictCnt   map[uint64]int
	rejectCnt  map[uint64]int
	sweepEv    []sweepEvict
	sw51, sw52 int
	addVictims int                  // victims chosen by the policy.Add in progress
	addAdmit   bool                 // ... and whether it admitted
	appKey     uint64               // hash of the item the applier is processing
	applyT     map[uint64]time.Time // hash -> virtual time of the latest store.Set of a new item
	inSweep    bool
	failed     bool
}

type sweepEvict struct {
	key, val uint64
	exp      time.Time
	at       time.Time
	keySeq   int // seq of the sweep's arrival at vpSweepKey for this key (its check comes after)
	chkSeq   int // seq of its arrival at vpSweepChecked (its check came before)
}

func goid() uint64 {
	var buf [64]byte
	n := runtime.Stack(buf[:], false)
	// "goroutine 123 ["
	f := strings.Fields(string(buf[:n]))
	id, _ := strconv.ParseUint(f[1], 10, 64)
	return id
}

func (s *sched) lookup(id int) *gor {
	g := goid()
	s.mu.Lock()
	defer s.mu.Unlock()
	if x, ok := s.byGoid[g]; ok {
		return x
	}
	var x *gor
	switch {
	case id == 64 || id == 65:
		if s.pol == nil {
			s.pol = &gor{name: "pol", park: make(chan struct{})}
		}
		x = s.pol
	case id >= 30 && id <= 63:
		// a (re)started applier goroutine
		s.app = &gor{name: "app", park: make(chan struct{})}
		x = s.app
	default:
		x = &gor{name: fmt.Sprintf("g%d", g), park: make(chan struct{})}
	}
	s.byGoid[g] = x
	return x
}

func (s *sched) record(g *gor, line string) {
	s.mu.Lock()
	s.seq++
	s.events = append(s.events, event{g, line})
	s.mu.Unlock()
}

func (s *sched) point(id int) {
	g := s.lookup(id)
	s.mu.Lock()
	if id == 28 {
		// vpClearShard: Clear has wiped one shard.  Only shards that held entries are yield points
		// (the others would add 256 idle releases per Clear): the goroutine parks iff OnEvict ran
		// since the previous shard boundary.
		if g.evSince == 0 {
			s.mu.Unlock()
			return
		}
		g.evSince = 0
		s.events = append(s.events, event{g, fmt.Sprintf("obs 28 %d 0", g.lastShard)})
	}
	g.at = id
	s.seq++
	if id >= 50 && id <= 54 && g == s.app {
		s.inSweep = true
	}
	if id == 42 {
		s.inSweep = false
	}
	if id == 51 {
		s.sw51 = s.seq
	}
	if id == 52 {
		s.sw52 = s.seq
	}
	if (id == 1 || id == 2) && g.rec != nil && g.rec.updSeq == 0 {
		g.rec.updSeq = s.seq
	}
	if id == 1 && g.rec != nil {
		g.rec.updated = true
	}
	if id == 34 {
		s.applyT[s.appKey] = time.Now()
	}
	if id == 33 { // policy.Add returned
		switch {
		case s.addVictims > 0 && !s.addAdmit:
			s.r.Count("add_reject_after_partial_eviction")
		case s.addVictims > 1:
			s.r.Count("add_admit_with_2plus_victims")
		case s.addVictims == 1:
			s.r.Count("add_admit_with_1_victim")
		case !s.addAdmit:
			s.r.Count("add_reject_no_victim")
		}
		s.addVictims, s.addAdmit = 0, false
	}
	s.events = append(s.events, event{g, fmt.Sprintf("at %s %d", g.name, id)})
	if id == 44 { // the applier is about to return: never park a dying goroutine
		g.at = 0
		delete(s.byGoid, goid())
		s.mu.Unlock()
		return
	}
	s.mu.Unlock()
	<-g.park
	s.mu.Lock()
	g.at = 0
	s.mu.Unlock()
}

func (s *sched) observe(id int, a, b uint64) {
	g := s.lookup(id)
	if id == 28 {
		s.mu.Lock()
		g.lastShard = a
		s.mu.Unlock()
		return
	}
	if id == 30 {
		s.mu.Lock()
		s.appKey = b
		s.mu.Unlock()
	}
	if id == 63 {
		s.mu.Lock()
		s.addVictims++
		s.mu.Unlock()
	}
	if id == 33 && a == 1 {
		s.mu.Lock()
		s.addAdmit = true
		s.mu.Unlock()
	}
	s.record(g, fmt.Sprintf("obs %d %d %d", id, a, b))
}

// flush writes the events of one release: the released goroutine's first.
func (s *sched) flush(cur *gor) {
	s.mu.Lock()
	evs := s.events
	s.events = nil
	s.mu.Unlock()
	for _, e := range evs {
		if e.owner == cur {
			s.r.Emit("%s", e.line)
		}
	}
	// then the applier's: the only goroutine that moves without being released is a freshly
	// started applier (Clear's last step is `go c.processItems()`); if its first receive completes
	// the send of a blocked Del/Wait, that client may reach its next yield point before the applier
	// reaches its own, but the receive came first
	s.mu.Lock()
	app := s.app
	s.mu.Unlock()
	for _, e := range evs {
		if e.owner != cur && e.owner == app {
			s.r.Emit("%s", e.line)
		}
	}
	for _, e := range evs {
		if e.owner != cur && e.owner != app {
			s.r.Emit("%s", e.line)
		}
	}
}

func (s *sched) release(g *gor) {
	s.r.Emit("rel %s", g.name)
	s.r.Count("release_" + strings.TrimRight(g.name, "0123456789"))
	g.park <- struct{}{}
	synctest.Wait()
	s.flush(g)
	s.mu.Lock()
	blocked := !g.done && g.at == 0
	s.mu.Unlock()
	if blocked && g != s.app && g != s.pol {
		s.r.Emit("blk %s", g.name)
		s.r.Count("blocked")
	}
}

type cacheCfg struct {
	bufCap, maxCost                     int64
	metrics, ignoreInternal, costFn, su bool
	bufferItems                         int64
	mode                                string
	nKeys                               int
	script                              string // scripted scenario (mode "script")
	seqRoom                             bool   // sequential client calls with room to spare: the C06 reference oracle applies
}

// keyIDs: the primary hashes of the keys 1..8; 24, 49 and 74 are ≡ 24 (mod 25), the last of the
// 25 metric stripes.
var keyIDs = []uint64{0, 1, 24, 2, 49, 3, 74, 4, 5}

func keyHash(mode string, k uint64) (uint64, uint64) {
	switch mode {
	case "collide":
		return k % 3, 100 + k // several keys per primary hash, distinct non-zero conflicts
	default:
		id := k
		if int(k) < len(keyIDs) {
			id = keyIDs[k]
		}
		return id, 1000 + id
	}
}

func costOf(v uint64) int64           { return int64(v%5)*9 + 1 } // 1, 10, 19, 28, 37: comparable with MaxCost
func shouldUpd(cur, prev uint64) bool { return cur%4 != 0 }

func streamCache(r *Run, mode string) {
	n := 25 * r.Scale
	for c := 0; c < n; c++ {
		seed := r.Rng.Int63()
		r.Cases++
		r.Emit("case %d", c)
		runCacheCase(r, mode, seed, c < 2)
		r.Emit("end")
	}
}

func runCacheCase(r *Run, mode string, seed int64, sample bool) {
	rng := rand.New(rand.NewSource(seed))
	cfg := cacheCfg{
		bufCap: int64(1 + rng.Intn(6)), maxCost: int64(20 + rng.Intn(200)), metrics: rng.Intn(4) != 0,
		ignoreInternal: rng.Intn(3) != 0, costFn: rng.Intn(3) == 0, su: rng.Intn(4) == 0,
		bufferItems: int64(1 + rng.Intn(4)), mode: mode, nKeys: 1 + rng.Intn(7),
	}
	if !cfg.ignoreInternal {
		cfg.maxCost += 56 * int64(1+rng.Intn(4))
	}
	nClients := 1 + rng.Intn(4)
	if mode == "single" {
		nClients = 1
		cfg.maxCost = 100000
		cfg.su = false
	}
	if mode == "script" {
		if nClients < 2 {
			nClients = 2
		}
		cfg.metrics = rng.Intn(8) != 0
		cfg.nKeys = 2 + rng.Intn(6)
		cfg.script = scriptNames[rng.Intn(len(scriptNames))]
		if cfg.script == "shrink_del" {
			cfg.ignoreInternal = rng.Intn(3) == 0
			cfg.su = false
		}
		if cfg.script == "benign_fill" {
			cfg.nKeys = 8 + rng.Intn(9)
			cfg.maxCost = int64(30 + rng.Intn(90))
			cfg.costFn = rng.Intn(2) == 0
			cfg.su = false
			cfg.bufCap = int64(2 + rng.Intn(6))
			cfg.ignoreInternal = rng.Intn(4) != 0
			if !cfg.ignoreInternal {
				cfg.maxCost += 56 * int64(cfg.nKeys/2)
			}
		}
		if scriptSequential[cfg.script] && rng.Intn(2) == 0 {
			cfg.seqRoom = true
			cfg.maxCost = 100000
			cfg.su = false
		}
	}
	if mode == "evict" {
		// small capacity, every Get reaches the frequency sketch, hot and cold keys: admissions
		// that need several victims, rejections after a partial eviction
		cfg.maxCost = int64(8 + rng.Intn(12))
		cfg.ignoreInternal = true
		cfg.costFn = rng.Intn(4) == 0
		cfg.su = false
		cfg.bufferItems = 1
		cfg.nKeys = 4 + rng.Intn(5)
		cfg.bufCap = int64(3 + rng.Intn(6))
	}
	synctest.Test(r.T, func(t *testing.T) {
		cacheCaseBody(r, rng, cfg, nClients, sample)
	})
}

func cacheCaseBody(r *Run, rng *rand.Rand, cfg cacheCfg, nClients int, sample bool) {
	s := &sched{byGoid: map[uint64]*gor{}, r: r, applyT: map[uint64]time.Time{}, exitBy: map[uint64]*callRec{}, exitSeq: map[uint64]int{}, exitCnt: map[uint64]int{},
		evictCnt: map[uint64]int{}, rejectCnt: map[uint64]int{}}
	ristretto.VerifPointFn = s.point
	ristretto.VerifObserveFn = s.observe
	defer func() { ristretto.VerifPointFn = nil; ristretto.VerifObserveFn = nil }()
	old := ristretto.VerifSetBufSize(int(cfg.bufCap))
	defer ristretto.VerifSetBufSize(old)

	var sampleLines []string
	emit := func(f string, a ...any) {
		line := fmt.Sprintf(f, a...)
		r.Emit("%s", line)
		if len(sampleLines) < 400 {
			sampleLines = append(sampleLines, line)
		}
	}
	conf := &ristretto.Config[uint64, uint64]{
		NumCounters: 100, MaxCost: cfg.maxCost, BufferItems: cfg.bufferItems, Metrics: cfg.metrics,
		IgnoreInternalCost: cfg.ignoreInternal,
		KeyToHash:          func(k uint64) (uint64, uint64) { return keyHash(cfg.mode, k) },
		OnExit: func(v uint64) {
			g := s.lookup(0)
			s.mu.Lock()
			s.seq++
			if v != 0 {
				if _, ok := s.exitSeq[v]; !ok {
					s.exitSeq[v] = s.seq
					s.exitBy[v] = g.rec
				}
				s.exitCnt[v]++
			}
			s.events = append(s.events, event{g, fmt.Sprintf("cb exit %d", v)})
			s.mu.Unlock()
		},
		OnEvict: func(it *ristretto.Item[uint64]) {
			g := s.lookup(0)
			s.mu.Lock()
			s.seq++
			g.evSince++
			if it.Value != 0 {
				s.evictCnt[it.Value]++
			}
			if s.inSweep && g == s.app {
				s.sweepEv = append(s.sweepEv, sweepEvict{it.Key, it.Value, it.Expiration, time.Now(), s.sw51, s.sw52})
			}
			s.events = append(s.events, event{g, fmt.Sprintf("cb evict %d %d %d %d", it.Key, it.Conflict, it.Value, it.Cost)})
			s.mu.Unlock()
		},
		OnReject: func(it *ristretto.Item[uint64]) {
			g := s.lookup(0)
			s.mu.Lock()
			s.seq++
			if it.Value != 0 {
				s.rejectCnt[it.Value]++
			}
			s.events = append(s.events, event{g, fmt.Sprintf("cb reject %d %d %d %d", it.Key, it.Conflict, it.Value, it.Cost)})
			s.mu.Unlock()
		},
	}
	if cfg.costFn {
		conf.Cost = costOf
	}
	if cfg.su {
		conf.ShouldUpdate = shouldUpd
	}
	cache, err := ristretto.NewCache(conf)
	if err != nil {
		r.Fail("*", "NewCache: "+err.Error(), "")
		return
	}
	synctest.Wait()
	b2i := func(b bool) int {
		if b {
			return 1
		}
		return 0
	}
	emit("cfg bufcap=%d maxcost=%d metrics=%d ignoreinternal=%d costfn=%d su=%d bufferitems=%d now=%d", cfg.bufCap, cfg.maxCost,
		b2i(cfg.metrics), b2i(cfg.ignoreInternal), b2i(cfg.costFn), b2i(cfg.su), cfg.bufferItems, time.Now().UnixNano())

	// ---- clients and their calls
	var calls []*callRec
	nextVal := uint64(1)
	gets, dropsNew := 0, 0
	clearSeen := false
	for i := 0; i < nClients; i++ {
		s.clients = append(s.clients, &gor{name: fmt.Sprintf("c%d", i), park: make(chan struct{}), done: true})
	}
	ttls := []time.Duration{0, 0, 0, time.Second, 4 * time.Second, 5 * time.Second, 6 * time.Second, 9 * time.Second, 11 * time.Second, -time.Second}
	longStall := rng.Intn(5) == 0 // some cases: TTLs of half an hour and sweeps that come hours late
	if longStall {
		ttls = append(ttls, 2000*time.Second, 1500*time.Second, 3600*time.Second)
	}
	// forced, when non-nil, fixes key / cost / ttl of the next call (scripted scenarios)
	type forcedArgs struct {
		key  uint64
		cost int64
		ttl  time.Duration
	}
	var forced *forcedArgs
	startCall := func(ci int, kind string) {
		g := &gor{name: fmt.Sprintf("c%d", ci), park: make(chan struct{}), busy: true}
		s.clients[ci] = g
		rec := &callRec{client: ci, kind: kind}
		g.rec = rec
		k := uint64(1 + rng.Intn(cfg.nKeys))
		if cfg.mode == "evict" && kind == "get" && rng.Intn(4) != 0 {
			k = uint64(1 + rng.Intn(2)) // hot keys
		}
		if forced != nil {
			k = forced.key
		}
		h, cf := keyHash(cfg.mode, k)
		rec.key = k
		switch kind {
		case "set":
			rec.val = nextVal
			nextVal++
			rec.ttl = ttls[rng.Intn(len(ttls))]
			switch rng.Intn(6) {
			case 0:
				rec.cost = 0
			case 1:
				rec.cost = cfg.maxCost + 1
			case 2:
				rec.cost = cfg.maxCost
			default:
				rec.cost = 1 + rng.Int63n(cfg.maxCost/3+1)
			}
			if cfg.costFn && rng.Intn(2) == 0 {
				rec.cost = 0 // let Config.Cost decide
			}
			if cfg.mode == "single" {
				rec.cost = 1 + rng.Int63n(20)
			}
			if cfg.mode == "evict" {
				if rng.Intn(3) == 0 {
					rec.cost = cfg.maxCost/2 + rng.Int63n(cfg.maxCost/2+1)
				} else {
					rec.cost = 1 + rng.Int63n(cfg.maxCost/4+1)
				}
				if rng.Intn(4) != 0 {
					rec.ttl = 0
				}
			}
			if forced != nil {
				rec.cost, rec.ttl = forced.cost, forced.ttl
			}
			emit("spawn %s set %d %d %d %d %d", g.name, h, cf, rec.val, rec.cost, int64(rec.ttl))
		case "get", "getttl", "del":
			emit("spawn %s %s %d %d", g.name, kind, h, cf)
		case "iter":
			rec.cost = int64(rng.Intn(4)) // stopAt
			emit("spawn %s iter %d", g.name, rec.cost)
		case "updmax":
			rec.cost = cfg.maxCost + int64(rng.Intn(50))
			if rng.Intn(3) == 0 { // lowering MaxCost is legal too (below the internal item size included)
				rec.cost = int64(1 + rng.Intn(int(cfg.maxCost)))
				if rng.Intn(2) == 0 {
					rec.cost = int64(1 + rng.Intn(70))
				}
			}
			if forced != nil && forced.cost > 0 {
				rec.cost = forced.cost
			}
			emit("spawn %s updmax %d", g.name, rec.cost)
		default:
			emit("spawn %s %s", g.name, kind)
		}
		r.Count("call_" + kind)
		calls = append(calls, rec)
		go func() {
			s.mu.Lock()
			s.byGoid[goid()] = g
			s.mu.Unlock()
			var res string
			defer func() {
				if p := recover(); p != nil {
					r.Fail("C08", fmt.Sprintf("%s(%d) panicked: %v", kind, rec.key, p), strings.Join(sampleLines, " | "))
					res = "panic"
				}
				s.mu.Lock()
				s.seq++
				rec.endSeq = s.seq
				rec.endT = time.Now()
				g.done = true
				g.busy = false
				delete(s.byGoid, goid())
				s.events = append(s.events, event{g, fmt.Sprintf("ret %s %s", g.name, res)})
				s.mu.Unlock()
			}()
			s.point(hookStart)
			s.mu.Lock()
			s.seq++
			rec.startSeq = s.seq
			rec.startT = time.Now()
			s.mu.Unlock()
			switch kind {
			case "set":
				rec.ok = cache.SetWithTTL(rec.key, rec.val, rec.cost, rec.ttl)
				res = fmt.Sprintf("set %d", b2i(rec.ok))
			case "get":
				rec.got, rec.found = cache.Get(rec.key)
				res = fmt.Sprintf("get %d %d", b2i(rec.found), rec.got)
			case "getttl":
				rec.dur, rec.found = cache.GetTTL(rec.key)
				res = fmt.Sprintf("getttl %d %d", b2i(rec.found), int64(rec.dur))
			case "del":
				cache.Del(rec.key)
				res = "del"
			case "wait":
				cache.Wait()
				res = "wait"
			case "clear":
				cache.Clear()
				res = "clear"
			case "close":
				cache.Close()
				res = "close"
			case "iter":
				var seen []string
				cnt := 0
				cache.IterValues(func(v uint64) bool {
					rec.iterSeen = append(rec.iterSeen, v)
					seen = append(seen, fmt.Sprint(v))
					cnt++
					return rec.cost != 0 && int64(cnt) == rec.cost
				})
				res = "iter " + strings.Join(seen, ",")
				if len(seen) == 0 {
					res = "iter -"
				}
			case "updmax":
				cache.UpdateMaxCost(rec.cost)
				res = "updmax"
			case "max":
				res = fmt.Sprintf("max %d", cache.MaxCost())
			case "rem":
				res = fmt.Sprintf("rem %d", cache.RemainingCost())
			}
		}()
		synctest.Wait() // the goroutine parks at hookStart
		s.flush(nil)
	}

	snapshot := func() {
		sn := cache.VerifSnapshot()
		var sb strings.Builder
		sb.WriteString("snap store=")
		for i, e := range sn.Store {
			if i > 0 {
				sb.WriteByte(',')
			}
			exp := int64(0)
			if !e.Expiration.IsZero() {
				exp = e.Expiration.UnixNano()
			}
			fmt.Fprintf(&sb, "%d:%d:%d:%d", e.Key, e.Conflict, e.Value, exp)
		}
		sb.WriteString(" pol=")
		for i, kc := range sn.KeyCosts {
			if i > 0 {
				sb.WriteByte(',')
			}
			fmt.Fprintf(&sb, "%d:%d", kc.Key, kc.Cost)
		}
		fmt.Fprintf(&sb, " used=%d max=%d last=%d em=", sn.Used, sn.MaxCost, sn.LastCleaned)
		first := true
		for _, b := range sn.Buckets {
			for _, kc := range b.Keys {
				if !first {
					sb.WriteByte(',')
				}
				first = false
				fmt.Fprintf(&sb, "%d:%d:%d", b.Num, kc[0], kc[1])
			}
		}
		m := cache.Metrics
		if m != nil {
			fmt.Fprintf(&sb, " met=%d,%d,%d,%d,%d,%d,%d,%d,%d,%d,%d", m.Hits(), m.Misses(), m.KeysAdded(), m.KeysUpdated(),
				m.KeysEvicted(), m.CostAdded(), m.CostEvicted(), m.SetsDropped(), m.SetsRejected(), m.GetsDropped(), m.GetsKept())
		} else {
			sb.WriteString(" met=-")
		}
		emit("%s", sb.String())
		r.Count("snapshot")
	}

	parked := func() []*gor {
		s.mu.Lock()
		defer s.mu.Unlock()
		var out []*gor
		for _, g := range s.clients {
			if g.busy && g.at != 0 {
				out = append(out, g)
			}
		}
		if s.app != nil && s.app.at != 0 {
			out = append(out, s.app)
		}
		if s.pol != nil && s.pol.at != 0 {
			out = append(out, s.pol)
		}
		return out
	}
	anyBusy := func() bool {
		s.mu.Lock()
		defer s.mu.Unlock()
		for _, g := range s.clients {
			if g.busy {
				return true
			}
		}
		return false
	}
	// run everything to quiescence (no client call in progress, applier idle)
	settle := func() bool {
		for guard := 0; guard < 100000; guard++ {
			ps := parked()
			if len(ps) == 0 {
				if anyBusy() {
					r.Fail("C08", "deadlock: client calls in progress but no goroutine can move", strings.Join(sampleLines, " | "))
					s.failed = true
					return false
				}
				return true
			}
			s.release(ps[rng.Intn(len(ps))])
		}
		r.Fail("C08", "livelock: calls did not finish after 100000 releases", strings.Join(sampleLines, " | "))
		return false
	}

	kinds := []string{"set", "set", "set", "set", "get", "get", "get", "del", "wait", "getttl", "iter", "rem", "max", "updmax", "clear"}
	if cfg.mode == "single" {
		kinds = []string{"set", "set", "set", "get", "get", "getttl", "del", "wait"}
	}
	if cfg.mode == "evict" {
		kinds = []string{"set", "set", "set", "get", "get", "get", "get", "get", "wait", "rem", "del"}
	}
	appWeight := []int{1, 1, 2, 6}[rng.Intn(4)]
	nCalls := 8 + rng.Intn(40)
	if cfg.mode == "evict" {
		nCalls = 40 + rng.Intn(60)
	}
	issued := 0
	if cfg.mode == "script" {
		// ---- scripted scenarios (see cacheScript): directed call sequences and schedules around
		// the cores of the properties, with swept parameters; every oracle and the trace
		// validator apply to them exactly as to the random schedules.
		sc := &scriptCtx{rng: rng, cfg: cfg, nClients: nClients}
		sc.call = func(ci int, kind string, key uint64, cost int64, ttl time.Duration) {
			forced = &forcedArgs{key, cost, ttl}
			if kind == "clear" {
				clearSeen = true
			}
			startCall(ci, kind)
			forced = nil
			issued++
		}
		sc.busy = func(ci int) bool {
			s.mu.Lock()
			defer s.mu.Unlock()
			return s.clients[ci].busy
		}
		sc.stepClient = func(ci int) bool {
			for _, g := range parked() {
				if g == s.clients[ci] {
					s.release(g)
					return true
				}
			}
			return false
		}
		sc.stepOther = func() bool { // the applier, else the policy goroutine
			ps := parked()
			for _, g := range ps {
				if g == s.app {
					s.release(g)
					return true
				}
			}
			for _, g := range ps {
				if g == s.pol {
					s.release(g)
					return true
				}
			}
			return false
		}
		sc.appAt = func() int {
			s.mu.Lock()
			defer s.mu.Unlock()
			if s.app == nil {
				return 0
			}
			return s.app.at
		}
		sc.tick = func(d time.Duration) {
			time.Sleep(d)
			synctest.Wait()
			emit("tick %d", int64(d))
			s.flush(nil)
			r.Count("tick")
		}
		sc.snapshot = func() {
			if len(parked()) == 0 && !anyBusy() {
				snapshot()
			}
		}
		sc.count = func(n string) { r.Count(n) }
		sc.cliAt = func(ci int) int {
			s.mu.Lock()
			defer s.mu.Unlock()
			return s.clients[ci].at
		}
		sc.lastCall = func() *callRec {
			if len(calls) == 0 {
				return nil
			}
			return calls[len(calls)-1]
		}
		sc.fail = func(prop, what string) { r.Fail(prop, what, strings.Join(sampleLines, " | ")) }
		sc.checkFresh = func() {
			// C15: after an un-overlapped Clear has returned the cache is empty, its capacity and
			// its metrics are reset
			if len(parked()) != 0 || anyBusy() {
				return
			}
			sn := cache.VerifSnapshot()
			in := strings.Join(sampleLines, " | ")
			if len(sn.Store) != 0 || len(sn.KeyCosts) != 0 || sn.Used != 0 {
				r.Fail("C15", fmt.Sprintf("after Clear returned: %d stored entries, %d accounted keys, used=%d", len(sn.Store), len(sn.KeyCosts), sn.Used), in)
			}
			if cache.RemainingCost() != sn.MaxCost {
				r.Fail("C15", fmt.Sprintf("after Clear returned: RemainingCost()=%d, MaxCost=%d", cache.RemainingCost(), sn.MaxCost), in)
			}
			if m := cache.Metrics; m != nil {
				tot := m.Hits() + m.Misses() + m.KeysAdded() + m.KeysUpdated() + m.KeysEvicted() + m.CostAdded() + m.CostEvicted() +
					m.SetsDropped() + m.SetsRejected() + m.GetsDropped() + m.GetsKept()
				if tot != 0 {
					r.Fail("C15", fmt.Sprintf("after Clear returned the metrics are not reset: hits=%d misses=%d keysAdded=%d keysUpdated=%d keysEvicted=%d costAdded=%d costEvicted=%d setsDropped=%d setsRejected=%d getsDropped=%d getsKept=%d",
						m.Hits(), m.Misses(), m.KeysAdded(), m.KeysUpdated(), m.KeysEvicted(), m.CostAdded(), m.CostEvicted(), m.SetsDropped(), m.SetsRejected(), m.GetsDropped(), m.GetsKept()), in)
				}
			}
			r.Count("c15_fresh_checked")
		}
		cacheScript(sc)
		r.Count("script_" + sc.name)
	}
	for steps := 0; steps < 4000 && cfg.mode != "script"; steps++ {
		ps := parked()
		var idle []int
		for i, g := range s.clients {
			if !g.busy {
				idle = append(idle, i)
			}
		}
		canSpawn := issued < nCalls && len(idle) > 0
		if len(ps) == 0 && !canSpawn {
			if anyBusy() {
				r.Fail("C08", "deadlock: client calls in progress but no goroutine can move", strings.Join(sampleLines, " | "))
				s.failed = true
			}
			break
		}
		x := rng.Intn(100)
		switch {
		case x < 8:
			d := []time.Duration{500 * time.Millisecond, time.Second, 2500 * time.Millisecond, 3 * time.Second, 6 * time.Second}[rng.Intn(5)]
			if longStall && rng.Intn(6) == 0 {
				d = []time.Duration{1300 * time.Second, 3000 * time.Second, 2 * time.Hour}[rng.Intn(3)]
				r.Count("long_tick")
			}
			time.Sleep(d)
			synctest.Wait()
			emit("tick %d", int64(d))
			s.flush(nil)
			r.Count("tick")
		case canSpawn && (x < 40 || len(ps) == 0):
			kind := kinds[rng.Intn(len(kinds))]
			if kind == "clear" {
				if rng.Intn(3) != 0 {
					kind = "get"
				} else {
					clearSeen = true
				}
			}
			startCall(idle[rng.Intn(len(idle))], kind)
			issued++
		case len(ps) > 0:
			// weight the applier
			var pool []*gor
			for _, g := range ps {
				w := 2
				if g == s.app {
					w = appWeight
				}
				for i := 0; i < w; i++ {
					pool = append(pool, g)
				}
			}
			s.release(pool[rng.Intn(len(pool))])
		}
		if steps%25 == 24 && len(parked()) == 0 && !anyBusy() {
			snapshot()
		}
	}
	if s.failed {
		panic("cache case aborted: deadlock (see failure)")
	}
	if !settle() {
		panic("cache case aborted")
	}
	// ---- quiescent phase: Wait, observe, Close
	startCall(0, "wait")
	settle()
	snapshot()
	sn := cache.VerifSnapshot()
	oracleQuiescent(r, s, cfg, cache, sn, calls, clearSeen, sampleLines)
	startCall(0, "close")
	settle()
	oracleFinal(r, s, cfg, cache, calls, clearSeen, sampleLines)
	_ = gets
	_ = dropsNew
	if s.seq > 300 {
		r.Nontriv++
	}
	if sample {
		k := len(sampleLines)
		if k > 40 {
			k = 40
		}
		r.Sample(strings.Join(sampleLines[:k], " | "))
	}
}

// ---------------------------------------------------------------- direct monitors

func oracleQuiescent(r *Run, s *sched, cfg cacheCfg, cache *ristretto.Cache[uint64, uint64], sn ristretto.VerifSnapshot[uint64],
	calls []*callRec, clearSeen bool, hist []string) {
	in := strings.Join(hist, " | ")
	// C03 / C13: accounting
	sum := int64(0)
	for _, kc := range sn.KeyCosts {
		sum += kc.Cost
	}
	if sum != sn.Used {
		r.Fail("C03", fmt.Sprintf("used=%d but the accounted costs sum to %d", sn.Used, sum), in)
	}
	if rem := cache.RemainingCost(); rem != sn.MaxCost-sum {
		r.Fail("C03", fmt.Sprintf("RemainingCost()=%d, MaxCost-sum=%d", rem, sn.MaxCost-sum), in)
	}
	// C03 proper: along a benign history (MaxCost never changed; no Set could raise the accounted
	// cost of its key: per key the effective costs are non-increasing in call order and equal for
	// overlapping calls, so that FIFO application keeps them non-increasing) admissions never push
	// the accounted cost above MaxCost (Lean: c03_no_overshoot, every state of a benign run)
	benign := cfg.mode != "collide"
	eff := func(c *callRec) int64 {
		if c.cost == 0 && cfg.costFn {
			return costOf(c.val)
		}
		return c.cost
	}
	bySetKey := map[uint64][]*callRec{}
	for _, c := range calls {
		switch c.kind {
		case "updmax":
			benign = false
		case "set":
			if c.cost < 0 {
				benign = false
			}
			bySetKey[c.key] = append(bySetKey[c.key], c)
		}
	}
	for _, cs := range bySetKey {
		for i, a := range cs {
			for _, b := range cs[i+1:] {
				lo, hi := a, b
				if b.startSeq < a.startSeq {
					lo, hi = b, a
				}
				overlap := lo.endSeq == 0 || hi.startSeq < lo.endSeq
				if eff(hi) > eff(lo) || (overlap && eff(hi) != eff(lo)) {
					benign = false
				}
			}
		}
	}
	if benign {
		r.Count("c03_benign_histories")
		if sn.Used > sn.MaxCost {
			r.Fail("C03", fmt.Sprintf("accounted cost %d exceeds MaxCost %d (RemainingCost()=%d) although MaxCost was never changed and no Set raised the cost of its key", sn.Used, sn.MaxCost, cache.RemainingCost()), in)
		}
	}
	if cfg.mode != "collide" {
		pk := map[uint64]bool{}
		for _, kc := range sn.KeyCosts {
			pk[kc.Key] = true
		}
		sk := map[uint64]bool{}
		for _, e := range sn.Store {
			sk[e.Key] = true
			if !pk[e.Key] {
				r.Fail("C13", fmt.Sprintf("key %d is stored but not accounted (drained state)", e.Key), in)
			}
		}
		// C03: "RemainingCost() always equals MaxCost minus the sum of the costs the cache accounts for
		// its RESIDENT keys" (drained state, no colliding hashes)
		resSum := int64(0)
		for _, kc := range sn.KeyCosts {
			if sk[kc.Key] {
				resSum += kc.Cost
			}
		}
		if rem := cache.RemainingCost(); rem != sn.MaxCost-resSum {
			r.Fail("C03", fmt.Sprintf("drained state: RemainingCost()=%d but MaxCost - (costs of the resident keys) = %d - %d: capacity is charged for keys that are not resident", rem, sn.MaxCost, resSum), in)
		}
		for k := range pk {
			if !sk[k] {
				r.Fail("C13", fmt.Sprintf("key %d is accounted but not stored (drained state)", k), in)
				// C14: if the accepted writes of this key carried TTLs that have all elapsed, this is an
				// expired item whose capacity is never given back (and which expiry processing can no
				// longer see: it is in no map)
				now := time.Now()
				var lastSet *callRec
				allTTL := true
				for _, c := range calls {
					if h, _ := keyHash(cfg.mode, c.key); c.kind == "set" && h == k && c.ok && c.endSeq != 0 {
						lastSet = c
						if c.ttl <= 0 {
							allTTL = false
						}
					}
				}
				if lastSet != nil && allTTL && lastSet.endT.Add(lastSet.ttl).Add(11*time.Second).Before(now) {
					r.Fail("C14", fmt.Sprintf("key %d was written with a TTL (%v) that elapsed long ago; it is in no map but its cost is still charged (RemainingCost()=%d of %d): the expired item is never reclaimed", k, lastSet.ttl, cache.RemainingCost(), sn.MaxCost), in)
				}
			}
		}
	}
	// C14 liveness: an entry whose expiry bucket has been swept must be gone — unless it was
	// registered after that sweep (open finding F6: applied later than its expiration)
	valCall := map[uint64]*callRec{}
	for _, c := range calls {
		if c.kind == "set" {
			valCall[c.val] = c
		}
	}
	for _, e := range sn.Store {
		if e.Expiration.IsZero() {
			continue
		}
		b := e.Expiration.Unix()/5 + 1
		// registration bucket: storageBucket(exp), or — for an insert applied late — at most the
		// bucket after the one that was current when it was applied
		w := valCall[e.Value]
		at := time.Time{}
		if w != nil {
			at = w.endT
			if !w.updated {
				if t, ok := s.applyT[e.Key]; ok {
					at = t
				}
			}
		}
		if !at.IsZero() && at.Unix()/5+1 > b {
			b = at.Unix()/5 + 1
		}
		if w == nil || b > sn.LastCleaned {
			continue
		}
		r.Fail("C14", fmt.Sprintf("key %d (value %d) expired at %s, its expiry bucket (<= %d) has been swept (lastCleaned=%d) but the entry is still resident and charged",
			e.Key, e.Value, e.Expiration.UTC().Format("15:04:05.000"), b, sn.LastCleaned), in)
	}
	// C17: conservation laws, counted since creation or since the last Clear — the latter only
	// when that Clear overlapped no other call (otherwise "since the Clear" is not defined call by call)
	sinceSeq := 0
	lawsApply := !clearSeen
	if clearSeen {
		var last *callRec
		for _, c := range calls {
			if c.kind == "clear" && c.endSeq != 0 {
				last = c
			}
		}
		if last != nil {
			lawsApply = true
			for _, c := range calls {
				if c != last && c.startSeq != 0 && c.startSeq < last.endSeq && (c.endSeq == 0 || c.endSeq > last.startSeq) {
					lawsApply = false
				}
			}
			for _, c := range calls { // two Clears: only the last one counts, and it must be the last
				if c.kind == "clear" && c != last && c.endSeq > last.startSeq {
					lawsApply = false
				}
			}
			sinceSeq = last.endSeq
		}
	}
	// a law that fails after an (un-overlapped) Clear also means the cleared cache does not behave
	// like a fresh one (C15)
	law := func(what string) {
		r.Fail("C17", what, in)
		if clearSeen {
			r.Fail("C15", "after Clear the metrics no longer behave like those of a fresh cache: "+what, in)
		}
	}
	if m := cache.Metrics; m != nil && lawsApply {
		ngets := 0
		drops := 0
		for _, c := range calls {
			if c.startSeq < sinceSeq {
				continue
			}
			if c.kind == "get" && c.endSeq != 0 {
				ngets++
			}
			if c.kind == "set" && c.endSeq != 0 && !c.ok && c.ttl >= 0 {
				drops++
			}
		}
		if clearSeen {
			r.Count("c17_after_clear_checked")
		}
		if int(m.Hits()+m.Misses()) != ngets {
			law(fmt.Sprintf("Hits+Misses=%d, Get calls=%d", m.Hits()+m.Misses(), ngets))
		}
		resident := len(sn.Store) // the keys held in the map (= the accounted keys, C13, unless hashes collide)
		if cfg.mode == "collide" {
			resident = len(sn.KeyCosts)
		}
		if int64(m.KeysAdded()-m.KeysEvicted()) != int64(resident) {
			law(fmt.Sprintf("KeysAdded-KeysEvicted=%d, resident keys=%d", int64(m.KeysAdded()-m.KeysEvicted()), resident))
		}
		if int64(m.CostAdded()-m.CostEvicted()) != sn.MaxCost-cache.RemainingCost() {
			law(fmt.Sprintf("CostAdded-CostEvicted=%d, MaxCost-Remaining=%d", int64(m.CostAdded()-m.CostEvicted()), sn.MaxCost-cache.RemainingCost()))
		}
		if int(m.SetsDropped()) != drops {
			law(fmt.Sprintf("SetsDropped=%d, refused new sets=%d", m.SetsDropped(), drops))
		}
		// Clear resets the metrics but not the ring stripes: keys pushed by Gets before the Clear are
		// credited to GetsKept/GetsDropped when their stripe fills afterwards.  The clause (and the
		// theorem c17_gets_kept) therefore counts the Gets since creation.
		ngetsAll := 0
		for _, c := range calls {
			if c.kind == "get" && c.endSeq != 0 {
				ngetsAll++
			}
		}
		if int(m.GetsKept()+m.GetsDropped()) > ngetsAll {
			law(fmt.Sprintf("GetsKept+GetsDropped=%d > Gets=%d", m.GetsKept()+m.GetsDropped(), ngetsAll))
		}
	}
}

func oracleFinal(r *Run, s *sched, cfg cacheCfg, cache *ristretto.Cache[uint64, uint64], calls []*callRec, clearSeen bool, hist []string) {
	in := strings.Join(hist, " | ")
	setsByKey := map[uint64][]*callRec{}
	for _, c := range calls {
		if c.kind == "set" {
			setsByKey[c.key] = append(setsByKey[c.key], c)
		}
	}
	valCall := map[uint64]*callRec{}
	for _, c := range calls {
		if c.kind == "set" {
			valCall[c.val] = c
		}
	}
	for _, c := range calls {
		switch c.kind {
		case "get":
			if !c.found {
				continue
			}
			// C01: provenance
			w := valCall[c.got]
			if w == nil || w.key != c.key || (c.endSeq != 0 && w.startSeq > c.endSeq) {
				r.Fail("C01", fmt.Sprintf("Get(%d) returned %d which no earlier Set stored under that key", c.key, c.got), in)
				continue
			}
			// C02: no resurrection
			if es, ok := s.exitSeq[c.got]; ok && es < c.startSeq {
				r.Fail("C02", fmt.Sprintf("Get(%d) returned value %d after it had been passed to OnExit", c.key, c.got), in)
			}
			// C07: never after the TTL
			if w.ttl > 0 {
				// expiration instant = clock read inside the Set + ttl <= end of the Set call + ttl
				if setEndBefore(w, c) && c.startT.After(w.endT.Add(w.ttl)) {
					r.Fail("C07", fmt.Sprintf("Get(%d) served value %d after its TTL (%v) had elapsed", c.key, c.got, w.ttl), in)
				}
			}
		case "iter":
			seenOnce := map[uint64]bool{}
			for _, v := range c.iterSeen {
				if seenOnce[v] {
					r.Fail("C13", fmt.Sprintf("IterValues visited value %d twice", v), in)
				}
				seenOnce[v] = true
				w := valCall[v]
				if w == nil {
					r.Fail("C01", fmt.Sprintf("IterValues yielded %d which nobody stored", v), in)
					continue
				}
				if w.ttl > 0 && setEndBefore(w, c) && c.startT.After(w.endT.Add(w.ttl)) {
					r.Fail("C07", fmt.Sprintf("IterValues yielded value %d (key %d) after its TTL (%v) had elapsed", v, w.key, w.ttl), in)
				}
				if es, ok := s.exitSeq[v]; ok && es < c.startSeq {
					r.Fail("C02", fmt.Sprintf("IterValues yielded value %d after it had been passed to OnExit", v), in)
				}
			}
			if c.cost != 0 && int64(len(c.iterSeen)) > c.cost {
				r.Fail("C13", fmt.Sprintf("IterValues went on after the callback asked to stop (%d values, stop at %d)", len(c.iterSeen), c.cost), in)
			}
		case "getttl":
			if c.found && c.dur > 3600*time.Second {
				r.Fail("C07", fmt.Sprintf("GetTTL(%d) reports %v, larger than any ttl given", c.key, c.dur), in)
			}
		case "set":
			if c.ttl < 0 && c.ok {
				r.Fail("C07", fmt.Sprintf("Set(%d) with negative ttl returned true", c.key), in)
			}
		}
	}
	if cfg.mode == "single" || cfg.seqRoom {
		oracleSingle(r, calls, in)
	}
	// C04: callback discipline, checked after Close has returned
	for _, c := range calls {
		if c.kind != "set" || c.endSeq == 0 {
			continue
		}
		ex, ev, rj := s.exitCnt[c.val], s.evictCnt[c.val], s.rejectCnt[c.val]
		if ex > 1 || ev > 1 || rj > 1 {
			r.Fail("C04", fmt.Sprintf("value %d: OnExit x%d OnEvict x%d OnReject x%d", c.val, ex, ev, rj), in)
		}
		if !c.ok && (ex+ev+rj) > 0 {
			r.Fail("C04", fmt.Sprintf("value %d of a Set that returned false reached a callback", c.val), in)
		}
		if c.ok && ex == 0 {
			if cfg.mode == "collide" {
				r.FailSig("C04", "F8", fmt.Sprintf("value %d (key %d) accepted but never passed to OnExit, not even by Close (colliding primary hashes)", c.val, c.key), in)
			} else {
				r.Fail("C04", fmt.Sprintf("value %d (key %d) accepted but never passed to OnExit, not even by Close", c.val, c.key), in)
				// C15: "after Close returns ... every value still held or buffered has been released
				// through the callbacks"
				r.Fail("C15", fmt.Sprintf("Close returned but value %d (key %d), accepted earlier and still held or buffered, was never released through OnExit", c.val, c.key), in)
			}
		}
	}
	// C04: "... no later than the return of the next Clear or Close"
	for _, cl := range calls {
		if (cl.kind != "clear" && cl.kind != "close") || cl.endSeq == 0 {
			continue
		}
		for _, w := range calls {
			if w.kind != "set" || !w.ok || w.endSeq == 0 || w.endSeq > cl.startSeq {
				continue
			}
			es, exited := s.exitSeq[w.val]
			if exited && es < cl.endSeq {
				continue
			}
			what := fmt.Sprintf("value %d (key %d) was accepted before %s started but had not been passed to OnExit when it returned", w.val, w.key, cl.kind)
			by := s.exitBy[w.val]
			switch {
			case exited && by != nil && by.startSeq < cl.endSeq && (by.kind == "set" || by.kind == "del"):
				// released by a Set/Del call that overlaps the Clear: its OnExit(prev) runs outside every lock
				r.FailSig("C04", "F12", what+" (it was released slightly later by the overlapping "+by.kind+" call that had replaced it)", in)
			case !exited && cfg.mode == "collide":
				r.FailSig("C04", "F8", what+" (colliding primary hashes)", in)
			default:
				r.Fail("C04", what, in)
			}
		}
	}
	// C14 safety: the sweep removed something that was not expired
	for _, e := range s.sweepEv {
		if e.val == 0 {
			continue
		}
		w := valCall[e.val]
		if w == nil {
			continue
		}
		notExpired := w.ttl == 0 || w.startT.Add(w.ttl).After(e.at)
		if !notExpired {
			continue
		}
		what := fmt.Sprintf("expiry sweep evicted value %d of key %d which was written without TTL", e.val, w.key)
		if w.ttl != 0 {
			what = fmt.Sprintf("expiry sweep evicted value %d of key %d %v before its expiration", e.val, w.key, w.startT.Add(w.ttl).Sub(e.at))
		}
		// the sweep checks and deletes in one critical section (DelExpired)
		r.Fail("C14", what, in)
	}
	// C15: inert after Close
	if cache.Set(1, 99999, 1) {
		r.Fail("C15", "Set returned true after Close", in)
	}
	if _, ok := cache.Get(1); ok {
		r.Fail("C15", "Get found a value after Close", in)
	}
	cache.Del(1)
	cache.Wait()
	cache.Clear()
	cache.Close()
	// ... every operation of the public API, not only the common ones, must be a harmless no-op
	// (nobody releases yield points any more: the hooks are taken out first)
	ristretto.VerifPointFn = nil
	ristretto.VerifObserveFn = nil
	func() {
		defer func() {
			if p := recover(); p != nil {
				r.Fail("C15", fmt.Sprintf("an operation on the closed cache panicked: %v", p), in+" | then on the closed cache: GetTTL, SetWithTTL, IterValues, MaxCost, UpdateMaxCost, RemainingCost")
			}
		}()
		if _, ok := cache.GetTTL(1); ok {
			r.Fail("C15", "GetTTL found a key after Close", in)
		}
		if cache.SetWithTTL(2, 99998, 1, time.Second) {
			r.Fail("C15", "SetWithTTL returned true after Close", in)
		}
		n := 0
		cache.IterValues(func(uint64) bool { n++; return false })
		if n != 0 {
			r.Fail("C15", fmt.Sprintf("IterValues enumerated %d values after Close", n), in)
		}
		mc := cache.MaxCost()
		cache.UpdateMaxCost(mc)
		_ = cache.RemainingCost()
		_ = cache.Metrics
	}()
	// C05: Del; Wait; Get must miss until the next Set (sequential view by seq numbers)
	type kev struct {
		seq  int
		kind string
		c    *callRec
	}
	byKey := map[uint64][]*callRec{}
	for _, c := range calls {
		if c.kind == "set" || c.kind == "del" || c.kind == "get" {
			byKey[c.key] = append(byKey[c.key], c)
		}
	}
	var waits []*callRec
	for _, c := range calls {
		if c.kind == "wait" && c.endSeq != 0 {
			waits = append(waits, c)
		}
	}
	for k, cs := range byKey {
		sort.Slice(cs, func(i, j int) bool { return cs[i].startSeq < cs[j].startSeq })
		for _, d := range cs {
			if d.kind != "del" || d.endSeq == 0 {
				continue
			}
			// every Set of k issued so far must have returned before the Del was called
			okPre := true
			for _, x := range cs {
				if x.kind == "set" && x.startSeq < d.endSeq && (x.endSeq == 0 || x.endSeq > d.startSeq) {
					okPre = false
				}
			}
			if !okPre {
				continue
			}
			// first Wait that started after the Del returned
			for _, w := range waits {
				if w.startSeq < d.endSeq {
					continue
				}
				// next Set of k issued after the Del
				next := 1 << 60
				for _, x := range cs {
					if x.kind == "set" && x.startSeq > d.endSeq && x.startSeq < next {
						next = x.startSeq
					}
				}
				for _, g := range cs {
					// C05 quantifies over concurrent activity on OTHER keys: a Clear/Close that overlaps
					// the window acts on k itself (it may drop the tombstone and release the Wait before
					// it reaches k's shard) and is outside the property
					overl := false
					for _, cc := range calls {
						if (cc.kind == "clear" || cc.kind == "close") && cc.startSeq < g.endSeq && (cc.endSeq == 0 || cc.endSeq > d.startSeq) {
							overl = true
						}
					}
					if overl {
						continue
					}
					if g.kind == "get" && g.startSeq > w.endSeq && g.endSeq != 0 && g.endSeq < next && g.found {
						r.Fail("C05", fmt.Sprintf("Get(%d) found %d after Del;Wait with no Set in between", k, g.got), in)
					}
				}
				break
			}
		}
	}
}

// setEndBefore: the Set call had returned before the Get started (so its clock read precedes it).
func setEndBefore(w, g *callRec) bool { return w.endSeq != 0 && w.endSeq < g.startSeq }

// ---------------------------------------------------------------- known finding F8 (C04)

func init() { streams["cache_f8"] = streamCacheF8 }

// streamCacheF8 replays the witness of F8 with the public API only (free-running
// goroutines, real time): keys a and b share the primary hash (conflicts 1 and 2).
// Set(a); Del(b) removes a's accounting although a stays resident; Set(b, 202) is then
// admitted by the policy but silently refused by the store: 202 is never passed to OnExit.
func streamCacheF8(r *Run) {
	exits := map[uint64]int{}
	var mu sync.Mutex
	cache, err := ristretto.NewCache(&ristretto.Config[uint64, uint64]{
		NumCounters: 100, MaxCost: 100, BufferItems: 64, IgnoreInternalCost: true,
		KeyToHash: func(k uint64) (uint64, uint64) { return 7, k }, // every key collides on the primary hash
		OnExit: func(v uint64) {
			mu.Lock()
			exits[v]++
			mu.Unlock()
		},
	})
	if err != nil {
		r.Fail("*", "NewCache: "+err.Error(), "")
		return
	}
	r.Cases++
	okA := cache.Set(1, 101, 1)
	cache.Wait()
	cache.Del(2)
	cache.Wait()
	okB := cache.Set(2, 202, 1)
	cache.Wait()
	_, foundB := cache.Get(2)
	cache.Close()
	mu.Lock()
	defer mu.Unlock()
	r.Emit("f8 okA=%v okB=%v foundB=%v exit101=%d exit202=%d", okA, okB, foundB, exits[101], exits[202])
	if okB && exits[202] == 0 {
		r.FailSig("C04", "F8", "value 202 (key 2) accepted but never passed to OnExit, not even by Close (keys 1 and 2 collide on the primary hash)",
			"KeyToHash(k)=(7,k); Set(1,101,1); Wait; Del(2); Wait; Set(2,202,1); Wait; Close")
	}
	if exits[101] != 1 {
		r.Fail("C04", fmt.Sprintf("value 101 exited %d times", exits[101]), "F8 witness history")
	}
}

// oracleSingle (C06): single-client histories with room to spare, replayed sequentially
// against a three-valued reference (surely absent / surely present with value and expiry /
// unknown while writes are pending).  Checks: Set of a key that is neither resident nor
// pending is visible after Wait; an overwrite of a resident key is visible at once; an
// entry stays until overwritten, deleted or expired; Del wins after Wait.
func oracleSingle(r *Run, calls []*callRec, in string) {
	type st struct {
		kind         int // 0 absent, 1 present, 2 unknown, 3 pending-new (absent now, present after Wait)
		val          uint64
		ttl          bool
		expLo, expHi time.Time // the expiration instant lies in [expLo, expHi] (clock read inside the Set)
		delWait      bool      // a Del ran while writes were pending: absent after the next Wait
		expUnk       bool      // kind 2 only because the TTL may have elapsed (nothing pending): the entry is
		//                        either still in the map (unswept) or gone; a Set takes the in-place or the
		//                        new-item path and is, either way, present after the next Wait (kind 4)
	}
	state := map[uint64]*st{}
	get := func(k uint64) *st {
		if x, ok := state[k]; ok {
			return x
		}
		x := &st{}
		state[k] = x
		return x
	}
	for _, c := range calls {
		if c.endSeq == 0 {
			continue
		}
		x := get(c.key)
		surelyExpired := func(at time.Time) bool { return x.kind == 1 && x.ttl && at.After(x.expHi) }
		surelyLive := func(at time.Time) bool { return x.kind == 1 && (!x.ttl || at.Before(x.expLo)) }
		switch c.kind {
		case "set":
			if c.ttl < 0 {
				continue
			}
			if !c.ok { // dropped: nothing changed (a resident key is never dropped)
				if surelyLive(c.endT) {
					r.Fail("C06", fmt.Sprintf("Set(%d) returned false although the key was resident", c.key), in)
				}
				continue
			}
			x.delWait = false
			switch {
			case surelyLive(c.endT):
				x.val = c.val // overwrite of a resident key: immediate
			case x.kind == 0:
				x.kind, x.val = 3, c.val
			case (x.kind == 2 && x.expUnk) || (x.kind == 1 && x.ttl && !c.startT.Before(x.expLo)):
				x.kind, x.val = 4, c.val // expired, swept or not: present after the next Wait
			default:
				x.kind = 2
			}
			x.expUnk = false
			x.ttl = c.ttl > 0
			x.expLo, x.expHi = c.startT.Add(c.ttl), c.endT.Add(c.ttl)
		case "del":
			if x.kind == 0 || x.kind == 1 || (x.kind == 2 && x.expUnk) {
				x.kind = 0
				x.expUnk = false
			} else {
				x.kind = 2
				x.delWait = true
			}
		case "wait":
			for _, y := range state {
				if y.kind == 3 || y.kind == 4 {
					y.kind = 1
				}
				if y.delWait {
					y.kind, y.delWait = 0, false
				}
			}
		case "get":
			switch {
			case surelyLive(c.endT):
				if !c.found || c.got != x.val {
					r.Fail("C06", fmt.Sprintf("Get(%d) = (%d,%v), the reference map holds %d", c.key, c.got, c.found, x.val), in)
				}
			case x.kind == 0 || surelyExpired(c.startT):
				if c.found {
					r.Fail("C06", fmt.Sprintf("Get(%d) found %d, the reference map holds nothing for this key", c.key, c.got), in)
				}
			}
		case "getttl":
			if x.kind == 1 && !x.ttl && !(c.found && c.dur == 0) {
				r.Fail("C07", fmt.Sprintf("GetTTL(%d) = (%v,%v) for an entry written without TTL", c.key, c.dur, c.found), in)
			}
		}
		if x.kind == 1 && x.ttl && !c.endT.Before(x.expLo) {
			x.kind = 2 // possibly expired: still in the map until swept; a later Set may hit either path
			x.expUnk = true
		}
	}
}
