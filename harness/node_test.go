package harness

// Stream `node` (C10 / C16): the `node` methods of z/btree.go run on raw pages through the
// in-package wrappers of /repo/z/verif_node_on.go.  Every call is logged with its result (or
// "panic"), followed by every word of the page; lean/Drive/Node.lean replays the calls on the
// functions go2lean generated from the same methods (RV/Gen/Node.lean) and compares.
//
// Two kinds of cases:
//   - "wf": a page as the tree uses it (newNode: zeroed, kind bit, page id), driven only through
//     set / get / search / compact / maxKey / iterate / the read accessors.  A plain Go reference
//     (sorted slice of pairs) is the direct oracle: results, entries, numKeys, the zeroed tail
//     behind numKeys, the untouched page id and kind bits.
//   - "raw": arbitrary words and arbitrary calls (setAt anywhere, setNumKeys with any count,
//     moveRight / zeroOut with any bounds, out-of-range indices): no oracle, only the
//     word-by-word comparison with the generated functions, panics included.

import (
	"fmt"
	"os"
	"sort"
	"strings"

	"github.com/dgraph-io/ristretto/v2/z"
)

func init() { streams["node"] = streamNode }

var nodePageSizes = []int{80, 96, 112, 128, 144, 272, 528, 4096}

type nodeKV struct{ k, v uint64 }

type nodeCase struct {
	r      *Run
	id     int
	ps, mk int
	p      []uint64
	last   []uint64 // the page as last dumped
	wf     bool
	ref    []nodeKV
	pid    uint64
	leaf   bool
	hist   []string
	nops   int
	failed bool
	// branches seen (for the non-triviality rule)
	sawMidInsert, sawFullSet, sawPlaceholder, sawDrop, sawPanic bool
}

func (c *nodeCase) input() string {
	h := c.hist
	if len(h) > 60 {
		h = append([]string{"…"}, h[len(h)-60:]...)
	}
	return fmt.Sprintf("stream=node seed=%d case=%d pageSize=%d maxKeys=%d leaf=%v pid=%d ops: %s",
		c.r.Seed, c.id, c.ps, c.mk, c.leaf, c.pid, strings.Join(h, "; "))
}

func (c *nodeCase) fail(what string) {
	if c.failed {
		return
	}
	c.failed = true
	c.r.Fail("C10", what, c.input())
}

// dump logs the whole page: all words (`pg` / `raw`), or, when few words changed since the last
// dump, the changed words only (`pd i w i w …`: every other word is as in the last dump).
func (c *nodeCase) dump(tag string) {
	var b strings.Builder
	if tag == "pg" && len(c.last) == len(c.p) {
		changed := 0
		for i, w := range c.p {
			if w != c.last[i] {
				changed++
			}
		}
		if changed*4 < len(c.p) {
			b.WriteString("pd")
			for i, w := range c.p {
				if w != c.last[i] {
					fmt.Fprintf(&b, " %d %d", i, w)
				}
			}
			c.r.Emit("%s", b.String())
			copy(c.last, c.p)
			return
		}
	}
	b.WriteString(tag)
	for _, w := range c.p {
		fmt.Fprintf(&b, " %d", w)
	}
	c.r.Emit("%s", b.String())
	c.last = append(c.last[:0], c.p...)
}

// the page invariant, read directly from the words
func nodeWf(p []uint64, mk int) bool {
	if len(p) != 2*(mk+1) {
		return false
	}
	n := int(p[2*mk+1] & 0xFFFFFFFF)
	if n > mk {
		return false
	}
	for i := 0; i < n; i++ {
		if p[2*i] == 0 {
			return false
		}
		if i+1 < n && !(p[2*i] < p[2*i+2]) {
			return false
		}
	}
	for i := n; i < mk; i++ {
		if p[2*i] != 0 || p[2*i+1] != 0 {
			return false
		}
	}
	return true
}

// call runs f on the real page, logs the call and the page.
func (c *nodeCase) call(name string, args string, f func() string) (res string, panicked bool) {
	func() {
		defer func() {
			if e := recover(); e != nil {
				panicked = true
				res = "panic"
			}
		}()
		res = f()
	}()
	if args != "" {
		args = " " + args
	}
	c.hist = append(c.hist, fmt.Sprintf("%s%s -> %s", name, args, res))
	c.r.Emit("op %s%s ret %s", name, args, res)
	c.r.Count("op:" + name)
	if panicked {
		c.r.Count("panic:" + name)
		c.sawPanic = true
	}
	c.dump("pg")
	c.nops++
	return
}

func (c *nodeCase) snapshot() {
	if nodeWf(c.p, c.mk) {
		c.r.Emit("wf 1")
	} else {
		c.r.Emit("wf 0")
	}
	n := int(c.p[2*c.mk+1] & 0xFFFFFFFF)
	if n <= c.mk {
		var b strings.Builder
		b.WriteString("ents")
		for i := 0; i < n; i++ {
			fmt.Fprintf(&b, " %d %d", z.VerifPageKey(c.p, i), z.VerifPageVal(c.p, i))
		}
		c.r.Emit("%s", b.String())
	}
}

// check compares the real page with the reference (wf cases).
func (c *nodeCase) check(after string) {
	if !c.wf || c.failed {
		return
	}
	p, mk := c.p, c.mk
	if n := z.VerifPageNumKeys(p); n != len(c.ref) {
		c.fail(fmt.Sprintf("after %s: numKeys = %d, reference has %d entries", after, n, len(c.ref)))
		return
	}
	for i, e := range c.ref {
		if k, v := z.VerifPageKey(p, i), z.VerifPageVal(p, i); k != e.k || v != e.v {
			c.fail(fmt.Sprintf("after %s: entry %d is (%d,%d), reference (%d,%d)", after, i, k, v, e.k, e.v))
			return
		}
	}
	for i := len(c.ref); i < mk; i++ {
		if p[2*i] != 0 || p[2*i+1] != 0 {
			c.fail(fmt.Sprintf("after %s: slot %d behind numKeys=%d is not zero: (%d,%d)", after, i, len(c.ref), p[2*i], p[2*i+1]))
			return
		}
	}
	if z.VerifPagePageID(p) != c.pid {
		c.fail(fmt.Sprintf("after %s: page id word changed to %d", after, z.VerifPagePageID(p)))
	}
	if z.VerifPageIsLeaf(p) != c.leaf {
		c.fail(fmt.Sprintf("after %s: leaf bit changed", after))
	}
}

func (c *nodeCase) refFind(k uint64) (int, bool) {
	i := sort.Search(len(c.ref), func(i int) bool { return c.ref[i].k >= k })
	return i, i < len(c.ref) && c.ref[i].k == k
}

// z's assert is log.Fatalf: a failing assert cannot be recovered from.  The harness therefore
// evaluates the assert condition beforehand, through the real accessors, and does not make a call
// whose assert would fire; it logs `ret assert` instead and the driver checks that the generated
// function panics there too.
func (c *nodeCase) setAsserts(k uint64) (asserts bool) {
	defer func() {
		if recover() != nil {
			asserts = false // a run-time panic comes before the assert
		}
	}()
	if z.VerifPageNumKeys(c.p) != c.mk {
		return false
	}
	idx := z.VerifPageSearch(c.p, k)
	return z.VerifPageKey(c.p, idx) != k
}

func (c *nodeCase) skipped(name, args string) {
	c.hist = append(c.hist, fmt.Sprintf("%s %s -> (not called: its assert would fail)", name, args))
	c.r.Emit("op %s %s ret assert", name, args)
	c.r.Count("assert:" + name)
	c.nops++
}

func (c *nodeCase) opMoveRight(lo int) {
	if z.VerifPageNumKeys(c.p) == c.mk {
		c.skipped("moveRight", fmt.Sprint(lo))
		return
	}
	c.call("moveRight", fmt.Sprint(lo), func() string { z.VerifPageMoveRight(c.p, lo); return "ok" })
}

func (c *nodeCase) opSet(k, v uint64) {
	if c.setAsserts(k) {
		c.skipped("set", fmt.Sprintf("%d %d", k, v))
		if c.wf {
			if _, found := c.refFind(k); found || len(c.ref) != c.mk {
				c.fail(fmt.Sprintf("set(%d,%d) would assert although the key is present or the node has room", k, v))
			}
			c.sawPanic = true
		}
		return
	}
	res, pan := c.call("set", fmt.Sprintf("%d %d", k, v), func() string { return fmt.Sprint(z.VerifPageSet(c.p, k, v)) })
	if !c.wf {
		return
	}
	i, found := c.refFind(k)
	full := len(c.ref) == c.mk
	switch {
	case found:
		if full {
			c.sawFullSet = true
		}
		if pan || res != "0" {
			c.fail(fmt.Sprintf("set(%d,%d) of a present key: returned %s, want 0", k, v, res))
		}
		c.ref[i].v = v
	case full:
		// a new key does not fit: the code asserts (setAsserts should have caught it)
		c.fail(fmt.Sprintf("set(%d,%d) of a new key on a full node returned %s instead of asserting", k, v, res))
		return
	default:
		if pan || res != "1" {
			c.fail(fmt.Sprintf("set(%d,%d) of a new key: returned %s, want 1", k, v, res))
		}
		if i < len(c.ref) {
			c.sawMidInsert = true
		}
		c.ref = append(c.ref, nodeKV{})
		copy(c.ref[i+1:], c.ref[i:])
		c.ref[i] = nodeKV{k, v}
	}
	c.check(fmt.Sprintf("set(%d,%d)", k, v))
}

func (c *nodeCase) opGet(k uint64) {
	res, pan := c.call("get", fmt.Sprint(k), func() string { return fmt.Sprint(z.VerifPageGet(c.p, k)) })
	if !c.wf {
		return
	}
	want := uint64(0)
	if i, found := c.refFind(k); found {
		want = c.ref[i].v
	}
	if pan || res != fmt.Sprint(want) {
		c.fail(fmt.Sprintf("get(%d) = %s, reference %d", k, res, want))
	}
}

func (c *nodeCase) opSearch(k uint64) {
	res, pan := c.call("search", fmt.Sprint(k), func() string { return fmt.Sprint(z.VerifPageSearch(c.p, k)) })
	if !c.wf {
		return
	}
	i, _ := c.refFind(k)
	if pan || res != fmt.Sprint(i) {
		c.fail(fmt.Sprintf("search(%d) = %s, reference %d (first key >= k among %d keys)", k, res, i, len(c.ref)))
	}
}

func (c *nodeCase) opMaxKey() {
	res, pan := c.call("maxKey", "", func() string { return fmt.Sprint(z.VerifPageMaxKey(c.p)) })
	if !c.wf {
		return
	}
	want := uint64(0)
	if len(c.ref) > 0 {
		want = c.ref[len(c.ref)-1].k
	}
	if pan || res != fmt.Sprint(want) {
		c.fail(fmt.Sprintf("maxKey() = %s, reference %d", res, want))
	}
}

func (c *nodeCase) opCompact(lo uint64) {
	res, pan := c.call("compact", fmt.Sprint(lo), func() string { return fmt.Sprint(z.VerifPageCompact(c.p, lo)) })
	if !c.wf {
		return
	}
	// reference: every pair with value < lo goes, except that the largest key stays as a
	// placeholder (value 0); the result is 0 iff only that placeholder is left
	var kept []nodeKV
	want := 0
	if len(c.ref) > 0 {
		last := c.ref[len(c.ref)-1]
		for _, e := range c.ref[:len(c.ref)-1] {
			if e.v >= lo {
				kept = append(kept, e)
			}
		}
		if len(kept) < len(c.ref)-1 {
			c.sawDrop = true
		}
		if last.v < lo {
			kept = append(kept, nodeKV{last.k, 0})
			c.sawPlaceholder = true
			want = len(kept)
			if len(kept) == 1 {
				want = 0
			}
		} else {
			kept = append(kept, last)
			want = len(kept)
		}
	}
	c.ref = kept
	if pan || res != fmt.Sprint(want) {
		c.fail(fmt.Sprintf("compact(%d) = %s, reference %d", lo, res, want))
	}
	c.check(fmt.Sprintf("compact(%d)", lo))
}

func (c *nodeCase) opIterate() {
	var seen []string
	res, pan := c.call("iterate", "", func() string {
		z.VerifPageIterate(c.p, func(i int) {
			seen = append(seen, fmt.Sprint(i))
			c.p[z.VerifPageValOffset(i)] ^= 0x5555
		})
		return strings.Join(seen, " ")
	})
	_ = res
	if !c.wf {
		return
	}
	if pan || len(seen) != len(c.ref) {
		c.fail(fmt.Sprintf("iterate visited %v, reference has %d keys", seen, len(c.ref)))
	}
	for i := range c.ref {
		c.ref[i].v ^= 0x5555
	}
	c.check("iterate")
}

func (c *nodeCase) opReads() {
	r := c.r
	switch r.Rng.Intn(7) {
	case 0:
		res, pan := c.call("numKeys", "", func() string { return fmt.Sprint(z.VerifPageNumKeys(c.p)) })
		if c.wf && (pan || res != fmt.Sprint(len(c.ref))) {
			c.fail("numKeys() = " + res)
		}
	case 1:
		res, pan := c.call("isFull", "", func() string { return fmt.Sprint(z.VerifPageIsFull(c.p)) })
		if c.wf && (pan || res != fmt.Sprint(len(c.ref) == c.mk)) {
			c.fail("isFull() = " + res)
		}
	case 2:
		res, pan := c.call("isLeaf", "", func() string { return fmt.Sprint(z.VerifPageIsLeaf(c.p)) })
		if c.wf && (pan || res != fmt.Sprint(c.leaf)) {
			c.fail("isLeaf() = " + res)
		}
	case 3:
		res, pan := c.call("pageID", "", func() string { return fmt.Sprint(z.VerifPagePageID(c.p)) })
		if c.wf && (pan || res != fmt.Sprint(c.pid)) {
			c.fail("pageID() = " + res)
		}
	case 4:
		c.call("bits", "", func() string { return fmt.Sprint(z.VerifPageBits(c.p)) })
	case 5:
		i := r.Rng.Intn(c.mk + 1)
		res, pan := c.call("key", fmt.Sprint(i), func() string { return fmt.Sprint(z.VerifPageKey(c.p, i)) })
		if c.wf && i < c.mk {
			want := uint64(0)
			if i < len(c.ref) {
				want = c.ref[i].k
			}
			if pan || res != fmt.Sprint(want) {
				c.fail(fmt.Sprintf("key(%d) = %s, reference %d", i, res, want))
			}
		}
	case 6:
		i := r.Rng.Intn(c.mk + 1)
		res, pan := c.call("val", fmt.Sprint(i), func() string { return fmt.Sprint(z.VerifPageVal(c.p, i)) })
		if c.wf && i < c.mk {
			want := uint64(0)
			if i < len(c.ref) {
				want = c.ref[i].v
			}
			if pan || res != fmt.Sprint(want) {
				c.fail(fmt.Sprintf("val(%d) = %s, reference %d", i, res, want))
			}
		}
	}
}

// key generator: a small universe so that overwrites and boundary hits are frequent
type nodeKeys struct {
	c    *nodeCase
	univ []uint64
}

func newNodeKeys(c *nodeCase) *nodeKeys {
	r := c.r
	g := &nodeKeys{c: c}
	n := c.mk + 2 + r.Rng.Intn(c.mk+2)
	base := uint64(1)
	switch r.Rng.Intn(4) {
	case 1:
		base = 1 << 32
	case 2:
		base = ^uint64(0) - 2 - uint64(4*n) // top of the key space
	case 3:
		base = 1 + uint64(r.Rng.Intn(1000))
	}
	step := uint64(1 + r.Rng.Intn(3))
	for i := 0; i < n; i++ {
		g.univ = append(g.univ, base+uint64(i)*step)
	}
	return g
}

func (g *nodeKeys) key() uint64 {
	r := g.c.r
	switch r.Rng.Intn(20) {
	case 0:
		return 1
	case 1:
		return ^uint64(0) - 1 // absoluteMax
	case 2:
		if len(g.c.ref) > 0 { // a present key
			return g.c.ref[r.Rng.Intn(len(g.c.ref))].k
		}
	case 3:
		if len(g.c.ref) > 0 { // next to a present key
			k := g.c.ref[r.Rng.Intn(len(g.c.ref))].k
			if r.Rng.Intn(2) == 0 && k > 1 {
				return k - 1
			}
			if k < ^uint64(0)-1 {
				return k + 1
			}
		}
	}
	return g.univ[r.Rng.Intn(len(g.univ))]
}

func (g *nodeKeys) val() uint64 {
	r := g.c.r
	switch r.Rng.Intn(8) {
	case 0:
		return 0
	case 1:
		return ^uint64(0)
	}
	return uint64(1 + r.Rng.Intn(6))
}

func newNodeCase(r *Run, id, ps int) *nodeCase {
	z.VerifSetPageSize(ps)
	_, mk := z.VerifPageSize()
	c := &nodeCase{r: r, id: id, ps: ps, mk: mk}
	c.p = z.VerifPageNew()
	r.Emit("cfg %d %d %d", ps, mk, len(c.p))
	return c
}

// wfCase: the life of a page inside the tree, at node level.
func (c *nodeCase) wfCase(nops int) {
	r := c.r
	c.wf = true
	c.leaf = r.Rng.Intn(3) != 0
	c.pid = 1<<40 + uint64(r.Rng.Intn(1000)) // never a key of this stream
	bit := uint64(0)
	if c.leaf {
		bit = z.VerifPageBitLeaf()
	}
	// what newNode does with a zeroed page
	z.VerifPageSetBit(c.p, bit)
	z.VerifPageSetAt(c.p, z.VerifPageKeyOffset(c.mk), c.pid)
	r.Emit("new %d %d", bit, c.pid)
	c.hist = append(c.hist, fmt.Sprintf("new bit=%d pid=%d", bit, c.pid))
	c.dump("pg")
	c.snapshot()
	g := newNodeKeys(c)
	fillUntil := r.Rng.Intn(c.mk + 1) // first fill the node this far, then mix
	fills := 0
	for i := 0; i < nops && c.wf && !c.failed; i++ {
		x := r.Rng.Intn(100)
		switch {
		case len(c.ref) < fillUntil || x < 38:
			c.opSet(g.key(), g.val())
		case x < 50:
			c.opGet(g.key())
		case x < 62:
			c.opSearch(g.key())
		case x < 68:
			c.opMaxKey()
		case x < 80:
			c.opReads()
		case x < 84:
			c.opIterate()
		case x < 93:
			// thresholds around the values in use, incl. 0, 1 (what Tree.compact uses on inner nodes) and max
			lo := []uint64{0, 1, 2, 3, 4, 5, 7, 0x5555, ^uint64(0)}[r.Rng.Intn(9)]
			c.opCompact(lo)
			fillUntil = 0
		default:
			// fill up: the node becomes full, sets of present keys must still work
			if fills >= 2 {
				c.opSearch(g.key())
				break
			}
			fills++
			for tries := 0; len(c.ref) < c.mk && c.wf && !c.failed && tries < 40*c.mk; tries++ {
				c.opSet(g.key(), g.val())
			}
		}
		if c.mk <= 32 || i%8 == 0 {
			c.snapshot()
		}
	}
	c.snapshot()
}

// rawCase: arbitrary words, arbitrary calls.
func (c *nodeCase) rawCase(nops int) {
	r := c.r
	words := len(c.p)
	small := func() uint64 {
		switch r.Rng.Intn(6) {
		case 0:
			return 0
		case 1:
			return ^uint64(0) - uint64(r.Rng.Intn(3))
		case 2:
			return r.Rng.Uint64()
		}
		return uint64(r.Rng.Intn(12))
	}
	randPage := func() {
		sorted := r.Rng.Intn(2) == 0
		acc := uint64(0)
		for i := 0; i < words-2; i++ {
			c.p[i] = small()
			if sorted && i%2 == 0 {
				acc += uint64(1 + r.Rng.Intn(3))
				c.p[i] = acc
			}
		}
		c.p[words-2] = small()
		n := uint64(r.Rng.Intn(c.mk + 2))
		switch r.Rng.Intn(10) {
		case 0:
			n = uint64(r.Rng.Intn(3 * c.mk))
		case 1:
			n = 0xFFFFFFFF - uint64(r.Rng.Intn(2))
		}
		c.p[words-1] = n | uint64(r.Rng.Intn(256))<<56 | uint64(r.Rng.Intn(2))<<40
		c.dump("raw")
		c.hist = append(c.hist, "raw page "+fmt.Sprint(c.p))
	}
	idx := func() int {
		switch r.Rng.Intn(12) {
		case 0:
			return -1 - r.Rng.Intn(3)
		case 1:
			return words + r.Rng.Intn(3)
		case 2:
			return 1 << 40
		}
		return r.Rng.Intn(words)
	}
	slot := func() int {
		switch r.Rng.Intn(12) {
		case 0:
			return -1
		case 1:
			return c.mk + 1 + r.Rng.Intn(3)
		}
		return r.Rng.Intn(c.mk + 1)
	}
	randPage()
	for i := 0; i < nops; i++ {
		switch r.Rng.Intn(16) {
		case 0:
			randPage()
		case 1:
			j, v := idx(), small()
			c.call("setAt", fmt.Sprintf("%d %d", j, v), func() string { z.VerifPageSetAt(c.p, j, v); return "ok" })
		case 2:
			j := idx()
			c.call("uint64", fmt.Sprint(j), func() string { return fmt.Sprint(z.VerifPageUint64(c.p, j)) })
		case 3:
			n := r.Rng.Intn(c.mk + 2)
			switch r.Rng.Intn(8) {
			case 0:
				n = -1 - r.Rng.Intn(2)
			case 1:
				n = 1<<32 + r.Rng.Intn(4)
			case 2:
				n = 3 * c.mk
			}
			c.call("setNumKeys", fmt.Sprint(n), func() string { z.VerifPageSetNumKeys(c.p, n); return "ok" })
		case 4:
			b := uint64(r.Rng.Intn(256)) << 56
			if r.Rng.Intn(4) == 0 {
				b = small()
			}
			c.call("setBit", fmt.Sprint(b), func() string { z.VerifPageSetBit(c.p, b); return "ok" })
		case 5:
			c.opMoveRight(slot())
		case 6:
			lo, hi := idx(), idx()
			if r.Rng.Intn(3) != 0 && lo > hi {
				lo, hi = hi, lo
			}
			c.call("zeroOut", fmt.Sprintf("%d %d", lo, hi), func() string { z.VerifPageZeroOut(c.p, lo, hi); return "ok" })
		case 7:
			c.opSet(small(), small())
		case 8:
			c.opGet(small())
		case 9:
			c.opSearch(small())
		case 10:
			c.opCompact(small())
		case 11:
			c.opMaxKey()
		case 12:
			c.opIterate()
		case 13:
			j := slot()
			c.call("key", fmt.Sprint(j), func() string { return fmt.Sprint(z.VerifPageKey(c.p, j)) })
		case 14:
			j := slot()
			c.call("val", fmt.Sprint(j), func() string { return fmt.Sprint(z.VerifPageVal(c.p, j)) })
		default:
			c.opReads()
		}
		c.snapshot()
	}
}

func streamNode(r *Run) {
	defer z.VerifSetPageSize(os.Getpagesize())
	id := 0
	for round := 0; round < r.Scale; round++ {
		for _, ps := range nodePageSizes {
			reps := 6
			if ps >= 528 {
				reps = 2
			}
			for j := 0; j < reps; j++ {
				c := newNodeCase(r, id, ps)
				id++
				n := 60 + 12*c.mk
				if n > 700 {
					n = 700
				}
				if j%3 == 2 {
					n = 40 + 4*c.mk
					if n > 300 {
						n = 300
					}
					c.rawCase(n)
					r.Count("case:raw")
				} else {
					c.wfCase(n)
					r.Count("case:wf")
				}
				r.Cases++
				if c.wf && c.sawMidInsert && c.sawFullSet && c.sawPlaceholder && c.sawDrop || !c.wf && c.sawPanic {
					r.Nontriv++
				}
				if len(r.Samples) < 4 && len(c.hist) > 8 {
					r.Sample(fmt.Sprintf("pageSize=%d maxKeys=%d: %s", c.ps, c.mk, strings.Join(c.hist[:8], "; ")))
				}
			}
		}
	}
}
