package harness

import (
	"time"

	"github.com/dgraph-io/ristretto/v2/z"
)

// F10 (C12): after TrimTo has freed the first chunk the next Allocate never returns
// (addBufferAt doubles a page size of 0 forever, holding the mutex).  The hung goroutine
// cannot be stopped; the process ends when the stream returns.
func streamAllocF10(r *Run) {
	r.Cases++
	done := make(chan int, 1)
	go func() {
		a := z.NewAllocator(1024, "f10")
		a.TrimTo(1024)
		a.Reset()
		b := a.Allocate(1)
		done <- len(b)
	}()
	select {
	case n := <-done:
		r.Emit("f10 returned len=%d", n)
	case <-time.After(2 * time.Second):
		r.Emit("f10 hang")
		r.FailSig("C12", "F10", "Allocate(1) after NewAllocator(1024); TrimTo(1024); Reset() did not return within 2 s (it spins in addBufferAt holding the mutex)",
			"NewAllocator(1024); TrimTo(1024); Reset(); Allocate(1)")
	}
}
