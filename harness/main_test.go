// Package harness drives the real ristretto code (built from /repo's working
// tree with -tags verif) and writes (a) a trace for the Lean driver to validate
// against the model and (b) a report with the verdicts of the direct property
// monitors ("oracles") that are used when searching for a concrete failing input.
package harness

import (
	"bufio"
	"encoding/json"
	"fmt"
	"math/rand"
	"os"
	"runtime"
	"sort"
	"strconv"
	"strings"
	"sync"
	"sync/atomic"
	"testing"
	"time"
)

// Run is the context handed to a stream.
type Run struct {
	T        *testing.T
	Rng      *rand.Rand
	Seed     int64
	Scale    int // how much work (stream specific unit)
	w        *bufio.Writer
	Counters map[string]int
	Failures []Failure
	Samples  []string
	Lines    int
	Cases    int            // distinct generated cases (traces/histories)
	Nontriv  int            // cases that exercised a non-default branch (stream specific rule)
	Known    map[string]int // known-finding signatures observed
	progress atomic.Int64   // bumped by Emit/Count/Tick: the stall watchdog watches it
	lastMu   sync.Mutex
	last     []string // the most recent trace lines (for the report of a hang)
}

// Tick tells the stall watchdog that the stream is alive (for long phases that emit nothing).
func (r *Run) Tick() { r.progress.Add(1) }

// Failure is a property violation observed on the real implementation.
type Failure struct {
	Property string `json:"property"`
	What     string `json:"what"`
	Input    string `json:"input"`
	Sig      string `json:"sig,omitempty"` // signature for known-findings matching
}

func (r *Run) Emit(format string, args ...any) {
	line := fmt.Sprintf(format, args...)
	r.w.WriteString(line)
	r.w.WriteByte('\n')
	r.Lines++
	r.progress.Add(1)
	r.lastMu.Lock()
	if len(line) > 200 {
		line = line[:200]
	}
	r.last = append(r.last, line)
	if len(r.last) > 40 {
		r.last = r.last[len(r.last)-40:]
	}
	r.lastMu.Unlock()
}
func (r *Run) Count(k string)         { r.Counters[k]++; r.progress.Add(1) }
func (r *Run) CountN(k string, n int) { r.Counters[k] += n; r.progress.Add(1) }
func (r *Run) Fail(prop, what, input string) {
	if len(input) > 4000 {
		input = input[:4000] + "…(truncated; the trace file has the full history)"
	}
	// at most 6 per property (so that one noisy monitor cannot crowd out another property's report)
	n := 0
	for _, f := range r.Failures {
		if f.Property == prop {
			n++
		}
	}
	if n < 6 && len(r.Failures) < 60 {
		r.Failures = append(r.Failures, Failure{Property: prop, What: what, Input: input})
	}
}
func (r *Run) FailSig(prop, sig, what, input string) {
	if len(r.Failures) < 20 {
		r.Failures = append(r.Failures, Failure{Property: prop, What: what, Input: input, Sig: sig})
	}
}
func (r *Run) Sample(s string) {
	if len(r.Samples) < 6 {
		if len(s) > 600 {
			s = s[:600] + "…"
		}
		r.Samples = append(r.Samples, s)
	}
}

var streams = map[string]func(*Run){}

func envInt(k string, def int64) int64 {
	if v := os.Getenv(k); v != "" {
		if n, err := strconv.ParseInt(v, 10, 64); err == nil {
			return n
		}
	}
	return def
}

func TestStream(t *testing.T) {
	name := os.Getenv("VERIF_STREAM")
	if name == "" {
		t.Skip("VERIF_STREAM not set")
	}
	f, ok := streams[name]
	if !ok {
		names := []string{}
		for k := range streams {
			names = append(names, k)
		}
		sort.Strings(names)
		t.Fatalf("unknown stream %q (have %v)", name, names)
	}
	seed := envInt("VERIF_SEED", 1)
	out := os.Getenv("VERIF_TRACE")
	if out == "" {
		out = os.DevNull
	}
	fh, err := os.Create(out)
	if err != nil {
		t.Fatal(err)
	}
	defer fh.Close()
	r := &Run{T: t, Rng: rand.New(rand.NewSource(seed)), Seed: seed, Scale: int(envInt("VERIF_SCALE", 1)),
		w: bufio.NewWriterSize(fh, 1<<20), Counters: map[string]int{}, Known: map[string]int{}, Failures: []Failure{}, Samples: []string{}}
	// Stall watchdog: a stream that makes no progress (no trace line, no counter) for
	// VERIF_STALL_S seconds of real time is hung - the implementation deadlocked or spins (a mutex
	// cycle is not a "durably blocked" state for synctest, so nothing else would end the run).
	// The report is written with a HANG failure and the goroutine dump, and the process exits.
	stall := time.Duration(envInt("VERIF_STALL_S", 90)) * time.Second
	stopWatch := make(chan struct{})
	defer close(stopWatch)
	go func() {
		lastV, lastT := r.progress.Load(), time.Now()
		for {
			select {
			case <-stopWatch:
				return
			case <-time.After(time.Second):
			}
			if v := r.progress.Load(); v != lastV {
				lastV, lastT = v, time.Now()
				continue
			}
			if time.Since(lastT) < stall {
				continue
			}
			buf := make([]byte, 1<<20)
			buf = buf[:runtime.Stack(buf, true)]
			dump := string(buf)
			if len(dump) > 6000 {
				dump = dump[:6000] + "…"
			}
			r.lastMu.Lock()
			tail := strings.Join(r.last, " | ")
			r.lastMu.Unlock()
			fails := append([]Failure{{Property: "*", What: fmt.Sprintf("HANG: stream %s made no progress for %v of real time - the implementation is deadlocked or spinning. goroutines: %s", name, stall, dump),
				Input: fmt.Sprintf("stream=%s seed=%d scale=%d; last trace lines: %s", name, seed, r.Scale, tail)}}, r.Failures...)
			rep := map[string]any{"stream": name, "seed": seed, "scale": r.Scale, "lines": r.Lines, "cases": r.Cases,
				"nontrivial": r.Nontriv, "counters": map[string]int{}, "failures": fails, "samples": []string{}, "known": map[string]int{}}
			if p := os.Getenv("VERIF_REPORT"); p != "" {
				b, _ := json.MarshalIndent(rep, "", " ")
				os.WriteFile(p, b, 0o644)
			}
			os.Exit(3)
		}
	}()
	func() {
		defer func() {
			if p := recover(); p != nil {
				r.Fail("*", fmt.Sprintf("harness/implementation panic: %v", p), "stream="+name)
			}
		}()
		f(r)
	}()
	r.w.Flush()
	rep := map[string]any{
		"stream": name, "seed": seed, "scale": r.Scale, "lines": r.Lines, "cases": r.Cases,
		"nontrivial": r.Nontriv, "counters": r.Counters, "failures": r.Failures, "samples": r.Samples,
		"known": r.Known,
	}
	if p := os.Getenv("VERIF_REPORT"); p != "" {
		b, _ := json.MarshalIndent(rep, "", " ")
		if err := os.WriteFile(p, b, 0o644); err != nil {
			t.Fatal(err)
		}
	}
}

func hexBytes(b []byte) string {
	const digits = "0123456789abcdef"
	out := make([]byte, 2*len(b))
	for i, c := range b {
		out[2*i] = digits[c>>4]
		out[2*i+1] = digits[c&15]
	}
	if len(out) == 0 {
		return "-"
	}
	return string(out)
}
