package harness

import (
	"fmt"
	"strings"

	ristretto "github.com/dgraph-io/ristretto/v2"
)

func init() { streams["sketch"] = streamSketch }

// streamSketch: random increment/estimate/reset/clear sequences on real
// cmSketch objects of many sizes, small key universes so that row collisions
// are frequent.  Oracle (C18, sketch part): between resets the estimate of a
// key is >= min(n,15) after n increments, never decreases on increment, is
// halved (rounded down, per counter) by Reset and zero after Clear.
func streamSketch(r *Run) {
	sizes := []int64{2, 3, 4, 5, 7, 8, 16, 31, 32, 33, 64, 100, 128, 1000, 1 << 16}
	nCases := 40 * r.Scale
	for c := 0; c < nCases; c++ {
		n := sizes[r.Rng.Intn(len(sizes))]
		sk := ristretto.VerifNewSketch(n)
		seeds := sk.Seeds()
		if r.Rng.Intn(4) == 0 { // adversarial seeds: all equal / zero
			for i := range seeds {
				seeds[i] = uint64(r.Rng.Intn(2)) * 0xffffffffffffffff
			}
			sk.SetSeeds(seeds)
		}
		r.Emit("sketch new %d %d %d %d %d", n, seeds[0], seeds[1], seeds[2], seeds[3])
		r.Cases++
		universe := 1 + r.Rng.Intn(40)
		keys := make([]uint64, universe)
		for i := range keys {
			switch r.Rng.Intn(3) {
			case 0:
				keys[i] = uint64(r.Rng.Intn(64))
			default:
				keys[i] = r.Rng.Uint64()
			}
		}
		counts := map[uint64]int{}
		var hist []string
		sat := false
		ops := 50 + r.Rng.Intn(400)
		for i := 0; i < ops; i++ {
			k := keys[r.Rng.Intn(len(keys))]
			switch x := r.Rng.Intn(100); {
			case x < 70:
				before := map[uint64]int64{}
				for _, kk := range keys {
					before[kk] = sk.Estimate(kk)
				}
				sk.Increment(k)
				counts[k]++
				r.Emit("inc %d", k)
				r.Count("inc")
				hist = append(hist, fmt.Sprintf("inc %d", k))
				for _, kk := range keys {
					if a := sk.Estimate(kk); a < before[kk] {
						r.Fail("C18", fmt.Sprintf("increment of %d lowered estimate of %d from %d to %d", k, kk, before[kk], a), strings.Join(hist, ";"))
					}
				}
			case x < 94:
				e := sk.Estimate(k)
				r.Emit("est %d %d", k, e)
				r.Count("est")
				want := counts[k]
				if want > 15 {
					want = 15
					sat = true
				}
				if e < int64(want) || e > 15 {
					r.Fail("C18", fmt.Sprintf("estimate(%d)=%d after %d increments", k, e, counts[k]), fmt.Sprintf("n=%d seeds=%v %s", n, seeds, strings.Join(hist, ";")))
				}
			case x < 98:
				before := map[uint64]int64{}
				for _, kk := range keys {
					before[kk] = sk.Estimate(kk)
				}
				sk.Reset()
				r.Emit("reset")
				r.Count("reset")
				hist = append(hist, "reset")
				for kk := range counts { // lower bound carried across the halving
					if counts[kk] > 15 {
						counts[kk] = 15
					}
					counts[kk] /= 2
				}
				for _, kk := range keys {
					if a := sk.Estimate(kk); a != before[kk]/2 {
						r.Fail("C18", fmt.Sprintf("reset: estimate of %d went from %d to %d (not the half, rounded down)", kk, before[kk], a), strings.Join(hist, ";"))
					}
				}
			default:
				sk.Clear()
				r.Emit("clear")
				r.Count("clear")
				hist = append(hist, "clear")
				counts = map[uint64]int{}
				for _, kk := range keys {
					if a := sk.Estimate(kk); a != 0 {
						r.Fail("C18", fmt.Sprintf("clear: estimate of %d is %d", kk, a), strings.Join(hist, ";"))
					}
				}
			}
			if i%37 == 0 || i == ops-1 {
				rows := sk.Rows()
				parts := make([]string, len(rows))
				for j := range rows {
					parts[j] = hexBytes(rows[j])
				}
				r.Emit("rows %s", strings.Join(parts, " "))
				r.Count("rows")
			}
		}
		if sat {
			r.Nontriv++
			r.Count("case_with_saturation")
		}
		if c < 2 {
			r.Sample(fmt.Sprintf("sketch n=%d seeds=%v: %s", n, seeds, strings.Join(hist, ";")))
		}
	}
	// next2Power on a sweep of values (C18: table sizing)
	for _, x := range []int64{1, 2, 3, 4, 5, 7, 8, 9, 1023, 1024, 1025, 1 << 20, 1<<20 + 1, 1<<40 - 1, 1 << 61, 1<<61 + 1, 1 << 62} {
		y := ristretto.VerifNext2Power(x)
		r.Emit("n2p %d %d", x, y)
		if y < x || y&(y-1) != 0 || (y/2 >= x && x > 1) {
			r.Fail("C18", fmt.Sprintf("next2Power(%d)=%d is not the least power of two >= x", x, y), fmt.Sprint(x))
		}
	}
	for i := 0; i < 200*r.Scale; i++ {
		x := r.Rng.Int63n(1<<62) + 1
		if i%2 == 0 {
			x = (int64(1) << uint(r.Rng.Intn(62))) + int64(r.Rng.Intn(3)) - 1
			if x < 1 {
				x = 1
			}
		}
		y := ristretto.VerifNext2Power(x)
		r.Emit("n2p %d %d", x, y)
		r.Count("n2p")
		if y < x || y&(y-1) != 0 || (y/2 >= x && x > 1) {
			r.Fail("C18", fmt.Sprintf("next2Power(%d)=%d is not the least power of two >= x", x, y), fmt.Sprint(x))
		}
	}
}
