package harness

import (
	"bytes"
	"fmt"
	"sort"
	"strings"
	"sync"
	"syscall"
	"time"
	"unsafe"

	"github.com/dgraph-io/ristretto/v2/z"
)

// C12 — z.Allocator.  Three streams:
//
//	alloc        cooperative schedules (one goroutine runs at a time, parked at the
//	             verif yield points of Allocate); every step is logged for the Lean
//	             driver (component "alloc") and monitored by the direct oracle
//	alloc_stress free-running goroutines, no hooks, same oracle (not driver-validated)
//	alloc_f7     replays finding F7 (32-bit offset overflow) deterministically
func init() {
	streams["alloc"] = streamAlloc
	streams["alloc_stress"] = streamAllocStress
	streams["alloc_f7"] = streamAllocF7
}

const (
	aMaxAlloc   = 1 << 30
	aHookAdded  = 1
	aHookLock   = 2
	aHookRetry  = 3
	aHookDone   = 4
	aParkReturn = 0
	aParkPanic  = -1
	aParkHang   = -2
)

type aOp struct {
	kind string // alloc | aligned | copy
	sz   int
	data []byte // copy
}

func (o aOp) String() string { return fmt.Sprintf("%s(%d)", o.kind, o.sz) }

// inner is the size handed to the inner Allocate.
func (o aOp) inner() int {
	if o.kind == "aligned" {
		return o.sz + 7
	}
	return o.sz
}

type aObs struct {
	id   int
	a, b uint64
}

type aWorker struct {
	id     int
	resume chan struct{}
	parked chan int
	obs    []aObs
	op     aOp
	res    []byte
	pval   any
	at     int  // where it is parked: hook id, or aParkReturn when outside a call
	busy   bool // inside a call
	fresh  bool // call assigned but goroutine not yet released into it
	quit   bool
}

type aAbort struct{}

// the cooperative scheduler state (one stream runs at a time)
var (
	aCur   *aWorker
	aAbrt  bool
	aHooks sync.Mutex
)

func aInstallHooks() {
	z.VerifPointFn = func(id int) {
		w := aCur
		if w == nil {
			return
		}
		w.parked <- id
		<-w.resume
		if aAbrt {
			panic(aAbort{})
		}
	}
	z.VerifObserveFn = func(id int, a, b uint64) {
		if w := aCur; w != nil {
			w.obs = append(w.obs, aObs{id, a, b})
		}
	}
}

func aRemoveHooks() {
	z.VerifPointFn = nil
	z.VerifObserveFn = nil
	aCur = nil
}

func aDo(a *z.Allocator, op aOp) []byte {
	switch op.kind {
	case "aligned":
		return a.AllocateAligned(op.sz)
	case "copy":
		return a.Copy(op.data)
	}
	return a.Allocate(op.sz)
}

func newAWorker(id int, a *z.Allocator) *aWorker {
	w := &aWorker{id: id, resume: make(chan struct{}), parked: make(chan int)}
	go func() {
		for {
			<-w.resume
			if w.quit {
				return
			}
			code := aParkReturn
			func() {
				defer func() {
					if p := recover(); p != nil {
						w.pval = p
						code = aParkPanic
					}
				}()
				w.res = aDo(a, w.op)
			}()
			w.parked <- code
		}
	}()
	return w
}

// release lets w run until its next yield point / the end of its call.
func aRelease(w *aWorker) int {
	aCur = w
	w.obs = w.obs[:0]
	w.fresh = false
	w.resume <- struct{}{}
	select {
	case id := <-w.parked:
		w.at = id
		if id <= 0 {
			w.busy = false
		}
		return id
	case <-time.After(20 * time.Second):
		w.at = aParkHang
		return aParkHang
	}
}

func (w *aWorker) observed(id int) (aObs, bool) {
	for _, o := range w.obs {
		if o.id == id {
			return o, true
		}
	}
	return aObs{}, false
}

// ---------------------------------------------------------------- direct oracle

type aLive struct {
	who    int
	op     aOp
	b      []byte
	ptr    uintptr
	chunk  int
	off    int
	expect []byte // expected content (canary / copied data)
}

type aOracle struct {
	r    *Run
	a    *z.Allocator
	live []aLive
	hist *[]string
	n    int
}

func (o *aOracle) input() string {
	h := *o.hist
	return strings.Join(h, ";")
}

func (o *aOracle) fail(what string) { o.r.Fail("C12", what, o.input()) }

// got checks one returned slice against everything handed out since the last Reset.
func (o *aOracle) got(who int, op aOp, b []byte) (chunk, off int) {
	o.n++
	if len(b) != op.sz {
		o.fail(fmt.Sprintf("%s returned a slice of length %d", op, len(b)))
	}
	if b == nil {
		return -1, 0
	}
	ptr := uintptr(unsafe.Pointer(unsafe.SliceData(b)))
	c, f, ok := o.a.VerifLocate(b)
	if !ok {
		o.fail(fmt.Sprintf("%s returned a slice that is not inside any chunk of the allocator", op))
	}
	if len(b) == 0 {
		return c, f
	}
	for _, l := range o.live {
		if ptr < l.ptr+uintptr(len(l.b)) && l.ptr < ptr+uintptr(len(b)) {
			o.fail(fmt.Sprintf("%s for goroutine %d returned chunk %d [%d,%d) which overlaps chunk %d [%d,%d) handed to goroutine %d for %s since the last Reset",
				op, who, c, f, f+len(b), l.chunk, l.off, l.off+len(l.b), l.who, l.op))
			break
		}
	}
	switch op.kind {
	case "aligned":
		if ptr%8 != 0 {
			o.fail(fmt.Sprintf("%s returned address %#x (chunk %d offset %d), not 8-byte aligned", op, ptr, c, f))
		}
		for i, x := range b {
			if x != 0 {
				o.fail(fmt.Sprintf("%s returned memory that is not zeroed (byte %d = %#x)", op, i, x))
				break
			}
		}
	case "copy":
		if !bytes.Equal(b, op.data) {
			o.fail(fmt.Sprintf("%s returned a slice that differs from its argument", op))
		}
	}
	var expect []byte
	if op.kind == "copy" {
		expect = op.data
	} else {
		expect = make([]byte, len(b))
		pat := byte(o.n*37 + 11)
		for i := range expect {
			expect[i] = pat + byte(i)
		}
		copy(b, expect)
	}
	o.live = append(o.live, aLive{who, op, b, ptr, c, f, expect})
	return c, f
}

// audit re-checks every live slice: content untouched, still at the same place of the same chunk.
func (o *aOracle) audit(when string) {
	for _, l := range o.live {
		if !bytes.Equal(l.b, l.expect) {
			o.fail(fmt.Sprintf("%s: the %d bytes handed to goroutine %d for %s (chunk %d offset %d) were overwritten by a later allocation", when, len(l.b), l.who, l.op, l.chunk, l.off))
			return
		}
		c, f, ok := o.a.VerifLocate(l.b)
		if !ok || c != l.chunk || f != l.off {
			o.fail(fmt.Sprintf("%s: the slice handed to goroutine %d for %s was at chunk %d offset %d and is now at chunk %d offset %d (ok=%v): chunk moved or replaced", when, l.who, l.op, l.chunk, l.off, c, f, ok))
			return
		}
	}
}

func (o *aOracle) regions() string {
	parts := make([]string, len(o.live))
	for i, l := range o.live {
		parts[i] = fmt.Sprintf("%d:%d:%d", l.chunk, l.off, len(l.b))
	}
	return strings.Join(parts, ",")
}

// dropFreed forgets slices inside chunks that TrimTo freed.
func (o *aOracle) dropFreed(lens []int) {
	keep := o.live[:0]
	for _, l := range o.live {
		if l.chunk >= 0 && l.chunk < len(lens) && lens[l.chunk] != 0 {
			keep = append(keep, l)
		}
	}
	o.live = keep
}

// ---------------------------------------------------------------- generators

func aChunkStr(lens []int) string {
	n := len(lens)
	for n > 0 && lens[n-1] == 0 {
		n--
	}
	parts := make([]string, n)
	for i := 0; i < n; i++ {
		parts[i] = fmt.Sprint(lens[i])
	}
	if n == 0 {
		return "-"
	}
	return strings.Join(parts, " ")
}

// aSizes draws a request size around the interesting boundaries of the current chunk table.
func aSize(r *Run, a *z.Allocator) int {
	lens := a.VerifChunkLens()
	word := a.VerifCompIdx()
	bi, pi := int(word>>32), int(word&0xFFFFFFFF)
	cur := 512
	if bi < len(lens) && lens[bi] > 0 {
		cur = lens[bi]
	}
	left := cur - pi
	var s int
	switch r.Rng.Intn(12) {
	case 0, 1, 2:
		s = 1 + r.Rng.Intn(64)
	case 3:
		s = left + r.Rng.Intn(5) - 2 // straddles the end of the current chunk
	case 4:
		s = left/2 + r.Rng.Intn(9) - 4
	case 5:
		s = cur + r.Rng.Intn(5) - 2
	case 6:
		s = 2*cur + r.Rng.Intn(5) - 2 // the size of the next chunk
	case 7:
		s = 4*cur + r.Rng.Intn(17) - 8 // exceeds the next chunk
	case 8:
		s = 1 + r.Rng.Intn(cur)
	case 9:
		s = 8 * (1 + r.Rng.Intn(32))
	case 10:
		s = 3*cur + 1 + r.Rng.Intn(cur)
	default:
		s = 1 + r.Rng.Intn(2048)
	}
	if s < 1 {
		s = 1
	}
	if s > 96<<10 {
		s = 96<<10 - r.Rng.Intn(100)
	}
	return s
}

func aGenOp(r *Run, a *z.Allocator) aOp {
	s := aSize(r, a)
	switch x := r.Rng.Intn(100); {
	case x < 50:
		return aOp{kind: "alloc", sz: s}
	case x < 75:
		if r.Rng.Intn(25) == 0 {
			s = 0 // AllocateAligned(0) is legal: 7 bytes inside, empty slice out
		}
		return aOp{kind: "aligned", sz: s}
	case x < 98:
		d := make([]byte, s)
		r.Rng.Read(d)
		return aOp{kind: "copy", sz: s, data: d}
	default:
		if r.Rng.Intn(2) == 0 {
			return aOp{kind: "alloc", sz: 0} // returns nil
		}
		return aOp{kind: "copy", sz: 0, data: []byte{}}
	}
}

// ---------------------------------------------------------------- cooperative stream

type aCase struct {
	r       *Run
	a       *z.Allocator
	ws      []*aWorker
	or      *aOracle
	hist    []string
	retries int
	grows   int
	stale   int
	dead    bool // a goroutine hangs or the case was abandoned
}

func (c *aCase) note(f string, args ...any) { c.hist = append(c.hist, fmt.Sprintf(f, args...)) }

func (c *aCase) chunks() {
	c.r.Emit("chunks %s", aChunkStr(c.a.VerifChunkLens()))
}

// stepWorker releases w once and logs what it did.  Returns false when the case must be abandoned.
func (c *aCase) stepWorker(w *aWorker) bool {
	r := c.r
	from := w.at
	fresh := w.fresh
	id := aRelease(w)
	if id == aParkHang {
		c.note("g%d released at hook %d: did not come back within 20s", w.id, from)
		c.or.fail(fmt.Sprintf("goroutine %d never returned from %s nor reached a yield point (spinning or blocked inside the allocator)", w.id, w.op))
		c.dead = true
		return false
	}
	switch {
	case id == aHookAdded:
		o, _ := w.observed(aHookAdded)
		r.Emit("add %d %d", w.id, o.a)
		r.Count("step_add")
		c.note("g%d add->%d:%d", w.id, o.a>>32, o.a&0xFFFFFFFF)
	case id == aHookLock:
		r.Emit("check %d grow", w.id)
		r.Count("step_check_beyond")
		c.note("g%d check:beyond", w.id)
	case id == aHookRetry:
		o, _ := w.observed(aHookRetry)
		r.Emit("grow %d %d %d", w.id, o.a, c.a.VerifCompIdx())
		c.note("g%d lock:grew=%d", w.id, o.a)
		if o.a == 1 {
			r.Count("step_grow_grew")
			c.grows++
			c.chunks()
		} else {
			r.Count("step_grow_retry")
			c.retries++
		}
	case id == aParkReturn:
		if fresh { // the call returned without reaching a yield point: Allocate(0)
			if w.res != nil || w.op.inner() != 0 {
				c.or.fail(fmt.Sprintf("%s returned %d bytes without reaching the atomic add", w.op, len(w.res)))
			}
			c.or.got(w.id, w.op, w.res)
			r.Emit("retnil %d", w.id)
			r.Count("ret_nil")
			c.note("g%d ret nil", w.id)
			return true
		}
		o, ok := w.observed(aHookDone)
		if !ok {
			c.or.fail(fmt.Sprintf("%s returned without cutting a slice", w.op))
			return true
		}
		in := w.op.inner()
		ch, off := c.or.got(w.id, w.op, w.res)
		if w.res != nil && len(w.res) == 0 {
			// an empty slice at the very end of a chunk has the address of the first byte of an
			// adjacent chunk: resolve it inside the chunk the observation point named
			bs, ls := c.a.VerifChunkBases(), c.a.VerifChunkLens()
			p := uintptr(unsafe.Pointer(unsafe.SliceData(w.res)))
			if k := int(o.a); k < len(bs) && p >= bs[k] && p <= bs[k]+uintptr(ls[k]) {
				ch, off = k, int(p-bs[k])
			}
		}
		base := uint64(0)
		if bs := c.a.VerifChunkBases(); int(o.a) < len(bs) {
			base = uint64(bs[o.a]) % 8 // only the alignment of the chunk matters
		}
		// inner region from the observation point, returned slice from real addresses
		r.Emit("check %d done %d %d %d %d %d %d %d", w.id, o.a, int(o.b)-in, in, ch, off, len(w.res), base)
		r.Count("step_check_done")
		r.Count("op_" + w.op.kind)
		c.note("g%d ret %d:%d+%d", w.id, ch, off, len(w.res))
		if int(o.a) < c.topChunk() {
			c.stale++ // granted from a chunk that is no longer the current one
		}
	case id == aParkPanic:
		msg := fmt.Sprint(w.pval)
		kind := "other"
		switch {
		case strings.Contains(msg, "Unable to allocate more than"):
			kind = "toobig"
		case strings.Contains(msg, "can not allocate more than"):
			kind = "slots"
		case strings.Contains(msg, "out of range"):
			kind = "bounds"
		}
		r.Emit("panic %d %s", w.id, kind)
		r.Count("panic_" + kind)
		c.note("g%d panic %q", w.id, msg)
		if kind != "toobig" {
			c.or.fail(fmt.Sprintf("%s panicked: %s", w.op, msg))
			c.dead = true // the mutex may be left locked
			return false
		}
	}
	return true
}

func (c *aCase) topChunk() int { return int(c.a.VerifCompIdx() >> 32) }

// runPhase gives every worker its ops and interleaves them under schedule picks.
// picks == nil: draw from the PRNG and record; else replay.  Returns the picks used.
func (c *aCase) runPhase(ops [][]aOp, picks []int) []int {
	r := c.r
	next := make([]int, len(c.ws))
	used := []int{}
	steps := make([]int, len(c.ws)) // scheduler releases spent on the current call of each goroutine
	for pi := 0; ; pi++ {
		cand := []int{}
		for i, w := range c.ws {
			if w.quit {
				continue
			}
			if w.busy || next[i] < len(ops[i]) {
				cand = append(cand, i)
			}
		}
		if len(cand) == 0 {
			return used
		}
		var i int
		if picks != nil {
			if pi >= len(picks) {
				return used
			}
			i = picks[pi]
		} else {
			i = cand[r.Rng.Intn(len(cand))]
			// bias: sometimes keep running the same goroutine, sometimes drain all adds first
			if len(used) > 0 && r.Rng.Intn(3) == 0 {
				last := used[len(used)-1]
				for _, x := range cand {
					if x == last {
						i = x
					}
				}
			}
		}
		used = append(used, i)
		w := c.ws[i]
		if !w.busy {
			op := ops[i][next[i]]
			next[i]++
			w.op, w.busy, w.fresh, w.at = op, true, true, aHookRetry
			steps[i] = 0
			arg := fmt.Sprint(op.sz)
			if op.kind == "copy" {
				arg = hexBytes(op.data)
			}
			r.Emit("start %d %s %s", w.id, op.kind, arg)
			c.note("g%d start %s", w.id, op)
			if in := op.inner(); in != 0 && in <= aMaxAlloc {
				continue // the goroutine is now "about to add"; its first release is a later pick
			}
		}
		if !c.stepWorker(w) {
			return used
		}
		// one call needs at most 3 releases per chunk slot (add, check, critical section)
		if steps[i]++; steps[i] > 3*64+8 && w.busy {
			c.or.fail(fmt.Sprintf("%s of goroutine %d is still retrying after %d scheduler steps (livelock: the call never returns)", w.op, w.id, steps[i]))
			c.dead = true
			return used
		}
	}
}

func (c *aCase) close() {
	send := func(w *aWorker) bool {
		select {
		case w.resume <- struct{}{}:
			return true
		case <-time.After(5 * time.Second):
			return false
		}
	}
	for _, w := range c.ws {
		if w.at == aParkHang {
			continue // spinning or blocked inside the allocator: cannot be stopped
		}
		w.quit = true
		if w.busy && !w.fresh && w.at > 0 { // parked inside a hook: unwind the call
			aAbrt = true
			if send(w) {
				select {
				case <-w.parked:
				case <-time.After(5 * time.Second):
					continue
				}
			}
		}
		send(w) // waiting for its next call: sees quit
	}
	aAbrt = false
	aCur = nil
	if !c.dead {
		c.a.Release()
	}
}

func streamAlloc(r *Run) {
	aHooks.Lock()
	defer aHooks.Unlock()
	aInstallHooks()
	defer aRemoveHooks()
	initial := []int{0, 1, 511, 512, 513, 600, 1023, 1024, 1025, 1500, 2048, 2049, 3000, 4095, 4096}
	nCases := 60 * r.Scale
	for cn := 0; cn < nCases; cn++ {
		sz := initial[r.Rng.Intn(len(initial))]
		if r.Rng.Intn(3) == 0 {
			sz = 512 + r.Rng.Intn(3585)
		}
		nw := 1 + r.Rng.Intn(6)
		a := z.NewAllocator(sz, "verif")
		c := &aCase{r: r, a: a}
		c.or = &aOracle{r: r, a: a, hist: &c.hist}
		for i := 0; i < nw; i++ {
			c.ws = append(c.ws, newAWorker(i, a))
		}
		lens := a.VerifChunkLens()
		r.Emit("new %d %d %d", sz, nw, lens[0])
		c.note("NewAllocator(%d) %d goroutines", sz, nw)
		r.Cases++
		r.Count(fmt.Sprintf("workers_%d", nw))
		phases := 1 + r.Rng.Intn(4)
		// the phases run since the last Reset (for the Reset-and-replay oracle)
		type phaseRec struct {
			ops   [][]aOp
			picks []int
		}
		epoch := []phaseRec{}
		epochTrimmed := false
		for ph := 0; ph < phases && !c.dead; ph++ {
			ops := make([][]aOp, nw)
			for i := range ops {
				k := 1 + r.Rng.Intn(5)
				if lensNow := a.VerifChunkLens(); lensNow[9] != 0 {
					k = 1 // enough chunks: keep the table small
				}
				for j := 0; j < k; j++ {
					ops[i] = append(ops[i], aGenOp(r, a))
				}
				if r.Rng.Intn(40) == 0 { // documented panic, nothing is touched
					ops[i] = append(ops[i], aOp{kind: "alloc", sz: aMaxAlloc + 1 + r.Rng.Intn(3)})
				}
			}
			picks := c.runPhase(ops, nil)
			if c.dead {
				break
			}
			epoch = append(epoch, phaseRec{ops, picks})
			c.or.audit("end of phase")
			c.chunks()
			// all goroutines are outside the allocator now
			switch x := r.Rng.Intn(10); {
			case x < 3 && !epochTrimmed: // Reset and replay the same schedule: same regions, no new chunk
				before := c.or.regions()
				lensBefore := aChunkStr(a.VerifChunkLens())
				a.Reset()
				r.Emit("reset")
				r.Count("reset_replay")
				c.note("Reset")
				c.or.live = nil
				for _, pr := range epoch {
					c.runPhase(pr.ops, pr.picks)
					if c.dead {
						break
					}
				}
				if c.dead {
					break
				}
				c.or.audit("end of replay")
				c.chunks()
				if after := c.or.regions(); after != before {
					c.or.fail(fmt.Sprintf("after Reset the same schedule returned different regions: first %s, then %s", before, after))
				}
				if l2 := aChunkStr(a.VerifChunkLens()); l2 != lensBefore {
					c.or.fail(fmt.Sprintf("replaying after Reset acquired more memory: chunk table %s became %s", lensBefore, l2))
				}
			case x < 5:
				a.Reset()
				r.Emit("reset")
				r.Count("reset")
				c.note("Reset")
				c.or.live = nil
				epoch, epochTrimmed = epoch[:0], false
			case x < 7: // TrimTo that keeps at least the first chunk; Reset when the current chunk went
				lensNow := a.VerifChunkLens()
				total := 0
				for _, l := range lensNow {
					total += l
				}
				max := lensNow[0] + 1 + r.Rng.Intn(total-lensNow[0]+2)
				a.TrimTo(max)
				r.Emit("trim %d", max)
				r.Count("trim")
				c.note("TrimTo(%d)", max)
				after := a.VerifChunkLens()
				c.or.dropFreed(after)
				c.chunks()
				c.checkTrim(lensNow, after, max)
				epochTrimmed = true
				if after[c.topChunk()] == 0 || r.Rng.Intn(2) == 0 {
					a.Reset()
					r.Emit("reset")
					r.Count("reset")
					c.note("Reset")
					c.or.live = nil
					epoch, epochTrimmed = epoch[:0], false
				}
			}
		}
		r.Emit("end")
		if c.retries > 0 || c.stale > 0 {
			r.Nontriv++
			r.Count("case_with_lost_race")
		}
		if c.grows > 0 {
			r.Count("case_with_growth")
		}
		if cn < 2 {
			r.Sample(strings.Join(c.hist, ";"))
		}
		c.close()
		if c.dead {
			return
		}
	}
	// NewAllocator sizing and log2 on their own
	for _, x := range []int{-5, 0, 1, 511, 512, 513, 1023, 1024, 1025, 1026, 2047, 2048, 2049, 4096, 65535, 65536, 65537, 1<<20 - 1, 1 << 20, 1<<20 + 1} {
		a := z.NewAllocator(x, "verif")
		l := a.VerifChunkLens()[0]
		a.Release()
		r.Emit("chunk0 %d %d", x, l)
		r.Count("chunk0")
		want := 512
		for want < x {
			want *= 2
		}
		if l != want {
			r.Fail("C12", fmt.Sprintf("NewAllocator(%d) made a first chunk of %d bytes, not the next power of two %d", x, l, want), fmt.Sprint(x))
		}
	}
	for i := 0; i < 40*r.Scale; i++ {
		x := 1 + r.Rng.Intn(1<<uint(1+r.Rng.Intn(40)))
		if i%3 == 0 {
			x = 1<<uint(r.Rng.Intn(41)) + r.Rng.Intn(3) - 1
		}
		if x < 1 {
			x = 1
		}
		y := z.VerifLog2(x)
		r.Emit("log2 %d %d", x, y)
		r.Count("log2")
		if y < 0 || y > 62 || x>>uint(y) != 1 {
			r.Fail("C12", fmt.Sprintf("log2(%d) = %d is not floor(log2)", x, y), fmt.Sprint(x))
		}
	}
}

// checkTrim: TrimTo may only empty a suffix of the non-empty chunks.
func (c *aCase) checkTrim(before, after []int, max int) {
	cut := -1
	for i := range before {
		switch {
		case after[i] == before[i]:
			if cut >= 0 && before[i] != 0 {
				c.or.fail(fmt.Sprintf("TrimTo(%d) kept chunk %d after freeing chunk %d: %v -> %v", max, i, cut, before[:i+1], after[:i+1]))
				return
			}
		case after[i] == 0:
			if cut < 0 {
				cut = i
			}
		default:
			c.or.fail(fmt.Sprintf("TrimTo(%d) changed the length of chunk %d from %d to %d", max, i, before[i], after[i]))
			return
		}
	}
}

// ---------------------------------------------------------------- stress stream

func streamAllocStress(r *Run) {
	aHooks.Lock()
	defer aHooks.Unlock()
	aRemoveHooks()
	runs := 6 * r.Scale
	for rn := 0; rn < runs; rn++ {
		sz := 512 + r.Rng.Intn(3585)
		nw := 2 + r.Rng.Intn(7)
		a := z.NewAllocator(sz, "verif")
		hist := []string{fmt.Sprintf("NewAllocator(%d), %d free-running goroutines", sz, nw)}
		type got struct {
			who int
			op  aOp
			b   []byte
			pat byte
		}
		epochs := 1 + r.Rng.Intn(3)
		r.Cases++
		for ep := 0; ep < epochs; ep++ {
			plans := make([][]aOp, nw)
			for i := range plans {
				k := 20 + r.Rng.Intn(200)
				for j := 0; j < k; j++ {
					s := 1 + r.Rng.Intn(300)
					switch r.Rng.Intn(10) {
					case 0:
						s = 1 + r.Rng.Intn(5000)
					case 1:
						s = 500 + r.Rng.Intn(40)
					}
					switch x := r.Rng.Intn(3); x {
					case 0:
						plans[i] = append(plans[i], aOp{kind: "alloc", sz: s})
					case 1:
						plans[i] = append(plans[i], aOp{kind: "aligned", sz: s})
					default:
						d := make([]byte, s)
						for q := range d {
							d[q] = byte(i*16 + j + q)
						}
						plans[i] = append(plans[i], aOp{kind: "copy", sz: s, data: d})
					}
				}
				hist = append(hist, fmt.Sprintf("epoch %d g%d: %d ops", ep, i, len(plans[i])))
			}
			results := make([][]got, nw)
			fails := make([]string, nw)
			var wg sync.WaitGroup
			start := make(chan struct{})
			for i := 0; i < nw; i++ {
				wg.Add(1)
				go func(i int) {
					defer wg.Done()
					defer func() {
						if p := recover(); p != nil {
							fails[i] = fmt.Sprintf("goroutine %d panicked: %v", i, p)
						}
					}()
					<-start
					for j, op := range plans[i] {
						b := aDo(a, op)
						pat := byte(i*41 + j*7 + 3)
						if len(b) != op.sz {
							fails[i] = fmt.Sprintf("%s returned %d bytes", op, len(b))
						}
						switch op.kind {
						case "aligned":
							if uintptr(unsafe.Pointer(unsafe.SliceData(b)))%8 != 0 {
								fails[i] = fmt.Sprintf("%s not 8-byte aligned", op)
							}
							for _, x := range b {
								if x != 0 {
									fails[i] = fmt.Sprintf("%s not zeroed", op)
									break
								}
							}
						case "copy":
							if !bytes.Equal(b, op.data) {
								fails[i] = fmt.Sprintf("%s differs from its argument", op)
							}
						}
						if op.kind != "copy" {
							for q := range b {
								b[q] = pat + byte(q)
							}
						}
						results[i] = append(results[i], got{i, op, b, pat})
					}
				}(i)
			}
			close(start)
			done := make(chan struct{})
			go func() { wg.Wait(); close(done) }()
			select {
			case <-done:
			case <-time.After(60 * time.Second):
				r.Fail("C12", "free-running goroutines did not finish within 60s (hang inside the allocator)", strings.Join(hist, ";"))
				return
			}
			for _, f := range fails {
				if f != "" {
					r.Fail("C12", f, strings.Join(hist, ";"))
				}
			}
			// oracle over real addresses
			all := []got{}
			for _, rs := range results {
				all = append(all, rs...)
			}
			r.CountN("stress_allocs", len(all))
			sort.Slice(all, func(x, y int) bool {
				return uintptr(unsafe.Pointer(unsafe.SliceData(all[x].b))) < uintptr(unsafe.Pointer(unsafe.SliceData(all[y].b)))
			})
			for k := 0; k < len(all); k++ {
				g := all[k]
				p := uintptr(unsafe.Pointer(unsafe.SliceData(g.b)))
				if _, _, ok := a.VerifLocate(g.b); !ok {
					r.Fail("C12", fmt.Sprintf("%s of goroutine %d is not inside any chunk", g.op, g.who), strings.Join(hist, ";"))
					break
				}
				if k+1 < len(all) {
					q := uintptr(unsafe.Pointer(unsafe.SliceData(all[k+1].b)))
					if p+uintptr(len(g.b)) > q {
						r.Fail("C12", fmt.Sprintf("overlap: %s of goroutine %d at %#x+%d and %s of goroutine %d at %#x", g.op, g.who, p, len(g.b), all[k+1].op, all[k+1].who, q), strings.Join(hist, ";"))
						break
					}
				}
				ok := true
				if g.op.kind == "copy" {
					ok = bytes.Equal(g.b, g.op.data)
				} else {
					for q := range g.b {
						if g.b[q] != g.pat+byte(q) {
							ok = false
							break
						}
					}
				}
				if !ok {
					r.Fail("C12", fmt.Sprintf("the bytes of %s of goroutine %d were overwritten", g.op, g.who), strings.Join(hist, ";"))
					break
				}
			}
			r.Lines += len(all)
			a.Reset()
			hist = append(hist, "Reset")
		}
		if nw >= 4 {
			r.Nontriv++
		}
		a.Release()
	}
}

// ---------------------------------------------------------------- F7

// F7What is the text reported for finding F7.
const F7What = "z.Allocator packs (chunk index, offset) into one uint64 and adds request sizes to it atomically: goroutines that are simultaneously between their atomic add and their bounds check overflow the 32-bit offset into the chunk index (4 x Allocate(1<<30) on NewAllocator(512); 3 x Allocate(1<<30) when the current chunk is a full 1 GiB chunk), and the next bounds check reads the wrong (nil) chunk: panic slice bounds out of range [-1073741824:]"

func streamAllocF7(r *Run) {
	aHooks.Lock()
	defer aHooks.Unlock()
	aInstallHooks()
	defer aRemoveHooks()
	seen := []string{}
	// variant A: no big chunk needed
	if msg, sched := aF7Run(r, 512, false, 4); msg != "" {
		seen = append(seen, "A: "+sched+" => "+msg)
	}
	// variant B: the current chunk is a full 1 GiB chunk (address space only)
	if aCanMap(3 << 30) {
		if msg, sched := aF7Run(r, 1<<20, true, 3); msg != "" {
			seen = append(seen, "B: "+sched+" => "+msg)
		}
	} else {
		r.Count("f7_variant_b_skipped_no_address_space")
	}
	r.Cases++
	if len(seen) > 0 {
		r.Nontriv++
		r.FailSig("C12", "F7", F7What, strings.Join(seen, " | "))
	}
}

func aCanMap(n int) bool {
	b, err := syscall.Mmap(-1, 0, n, syscall.PROT_NONE, syscall.MAP_ANON|syscall.MAP_PRIVATE)
	if err != nil {
		return false
	}
	syscall.Munmap(b)
	return true
}

// aF7Run: NewAllocator(initial); optionally one sequential Allocate(1<<30); then k goroutines
// do their atomic add for Allocate(1<<30) before any of them checks; the last adder checks first.
func aF7Run(r *Run, initial int, fill bool, k int) (string, string) {
	a := z.NewAllocator(initial, "verif")
	c := &aCase{r: r, a: a}
	c.or = &aOracle{r: r, a: a, hist: &c.hist}
	for i := 0; i < k; i++ {
		c.ws = append(c.ws, newAWorker(i, a))
	}
	c.note("NewAllocator(%d)", initial)
	big := aOp{kind: "alloc", sz: aMaxAlloc}
	result := ""
	if fill {
		w := c.ws[0]
		w.op, w.busy, w.fresh, w.at = big, true, true, aHookRetry
		c.note("g0 Allocate(1<<30) alone")
		for w.busy {
			id := aRelease(w)
			if id == aParkHang || id == aParkPanic {
				c.dead = true
				return "", ""
			}
		}
		if len(w.res) != aMaxAlloc {
			return "", ""
		}
	}
	for _, w := range c.ws {
		w.op, w.busy, w.fresh, w.at = big, true, true, aHookRetry
		id := aRelease(w) // atomic add, parks before the bounds check
		o, _ := w.observed(aHookAdded)
		c.note("g%d Allocate(1<<30): add -> chunk %d offset %d", w.id, o.a>>32, o.a&0xFFFFFFFF)
		if id != aHookAdded {
			c.dead = true
			c.close()
			return "", ""
		}
	}
	last := c.ws[k-1]
	id := aRelease(last)
	switch id {
	case aParkPanic:
		result = fmt.Sprintf("panic: %v", last.pval)
		c.note("g%d checks: %s", last.id, result)
	case aParkReturn:
		ch, off, ok := a.VerifLocate(last.res)
		c.note("g%d checks: got chunk %d offset %d len %d (located=%v)", last.id, ch, off, len(last.res), ok)
	default:
		c.note("g%d checks: parked at hook %d", last.id, id)
	}
	r.Count("f7_schedules")
	sched := strings.Join(c.hist, ";")
	c.close()
	return result, sched
}
