package harness

// Stream "ring" (C17 GetsKept/GetsDropped, C18 access frequencies, C09): the real ringStripe /
// ringBuffer (ring.go) in front of the real defaultPolicy.Push, policy goroutine and tinyLFU
// (policy.go), validated against RV/Model/Ring.lean by Drive/Ring.lean.
//
// The policy goroutine is parked at its two verif yield points (batch received / batch applied), so
// the run is deterministic: the harness decides when a batch is applied, hence how full itemsCh is
// when a stripe drains (kept vs dropped), and can clear / close the policy in every position.
//
// Two pool disciplines per case:
//   explicit  the harness holds real ringStripes itself and plays sync.Pool: pushes onto a stripe
//             of its choice, creates fresh ones, forgets one (the GC emptied the pool slot);
//   pooled    a real ringBuffer (sync.Pool); which stripe a Push used is read off the stripes'
//             lengths (every stripe the pool's New created is recorded by the hook); runtime.GC()
//             calls make the pool lose stripes for real.
//
// Trace records (numbers in decimal):
//   ring <capa> <metrics 0|1> <numCounters> <seed0..3> <doorEntries> <doorLocs>
//   door <exp> <size> <locs> <shift>
//   push <i> <key> <0 | 1 <outcome> <batch…>>       pushnew <key> <0 | 1 <outcome> <batch…>>
//        outcome: kept | dropped | closed; batch = what the stripe handed to defaultPolicy.Push
//   lose <i>     recv <len>     apply     stop     close     polclear     metclear
//   snap <GetsKept> <GetsDropped> <len(itemsCh)> <closed 0|1> <nStripes> {<len> <key>…}
//   est <key> <value>
//   tsnap <incrs> <resetAt> <doorElemNum> <door hex> <row0> <row1> <row2> <row3>
//
// Direct oracles (plain Go bookkeeping, independent of the Lean model):
//   - every batch handed to the consumer has exactly BufferItems keys and equals the keys pushed
//     onto that stripe since its last drain, in push order; the stripe is empty afterwards; without
//     a drain the stripe holds exactly those keys                                          ("*")
//   - a batch accepted by defaultPolicy.Push is not modified afterwards (aliasing)         ("*")
//   - conservation: #pushes = keys in stripes + kept + dropped + refused-when-closed + lost with a
//     stripe; GetsKept / GetsDropped equal the kept / dropped key counts since the last
//     Metrics.Clear; GetsKept + GetsDropped <= #pushes                                      (C17)
//   - defaultPolicy.Push keeps iff itemsCh has room, refuses iff closed                     (C17)
//   - every key of an applied batch is counted exactly once by tinyLFU (incrs advances by one per
//     key, reset exactly at resetAt), and Estimate(k) >= min(n,15) for n = applied accesses of k
//     since the last reset / Clear                                                          (C18)

import (
	"fmt"
	"runtime"
	"strings"
	"sync/atomic"
	"time"

	ristretto "github.com/dgraph-io/ristretto/v2"
)

func init() { streams["ring"] = streamRing }

type ringCall struct {
	keys  []uint64 // copy taken at hand-over
	alias []uint64 // the slice the stripe handed over
	ok    bool
}

// ringRecorder is the stripes' consumer: it records every hand-over and forwards to the policy.
type ringRecorder struct {
	pol   *ristretto.VerifRingPolicy
	calls []ringCall
}

func (c *ringRecorder) Push(keys []uint64) bool {
	cp := append([]uint64{}, keys...)
	ok := c.pol.Push(keys)
	c.calls = append(c.calls, ringCall{keys: cp, alias: keys, ok: ok})
	return ok
}

func u64s(ks []uint64) string {
	parts := make([]string, len(ks))
	for i, k := range ks {
		parts[i] = fmt.Sprint(k)
	}
	return strings.Join(parts, " ")
}

func eqU64(a, b []uint64) bool {
	if len(a) != len(b) {
		return false
	}
	for i := range a {
		if a[i] != b[i] {
			return false
		}
	}
	return true
}

func streamRing(r *Run) {
	arrived := make(chan int)
	release := make(chan struct{})
	var free atomic.Bool // set while a policy is being shut down: the goroutine runs freely
	ristretto.VerifPointFn = func(id int) {
		if free.Load() {
			return
		}
		if id == ristretto.VerifPointPolPushRecv || id == ristretto.VerifPointPolPushed {
			arrived <- id
			<-release
		}
	}
	defer func() { ristretto.VerifPointFn = nil }()
	stuck := false // the policy goroutine did not show up where it had to: give up (it is leaked)

	capas := []int64{1, 1, 2, 2, 3, 3, 4, 5, 8, 16, 64}
	sizes := []int64{2, 3, 4, 5, 8, 9, 16, 33, 64, 100, 257}
	nCases := 12 * r.Scale
	for c := 0; c < nCases && !stuck; c++ {
		capa := capas[r.Rng.Intn(len(capas))]
		metrics := r.Rng.Intn(5) != 0
		n := sizes[r.Rng.Intn(len(sizes))]
		pooled := r.Rng.Intn(3) == 0
		pol := ristretto.VerifNewRingPolicy(n, metrics)
		rec := &ringRecorder{pol: pol}
		adm := pol.Admit()
		sk := adm.Sketch()
		seeds := sk.Seeds()
		ds := adm.Door().VerifState()
		r.Emit("ring %d %d %d %d %d %d %d %d %d", capa, b2i(metrics), n, seeds[0], seeds[1], seeds[2], seeds[3], ds.Size+1, ds.SetLocs)
		r.Emit("door %d %d %d %d", ds.SizeExp, ds.Size, ds.SetLocs, ds.Shift)
		r.Cases++
		desc := fmt.Sprintf("BufferItems=%d metrics=%v NumCounters=%d pooled=%v", capa, metrics, n, pooled)
		var hist []string
		histStr := func() string { return desc + ": " + strings.Join(hist, ";") }
		failed := false
		fail := func(prop, what string) {
			if !failed {
				r.Fail(prop, what, histStr())
			}
			failed = true
		}

		// ---- own bookkeeping (the oracle)
		var pool []*ristretto.VerifStripe // same order as the model's pool
		var shadow [][]uint64             // keys pushed onto each stripe since its last drain
		var rb *ristretto.VerifRingBuffer
		if pooled {
			rb = ristretto.VerifNewRingBuffer(rec, capa)
		}
		pushes, keptN, droppedN, lostClosedN, lostPoolN := 0, 0, 0, 0, 0
		keptAtClear, droppedAtClear := 0, 0
		var queue [][]uint64 // batches accepted and not yet received by the goroutine
		var held []uint64    // batch the goroutine holds
		var heldAlias []uint64
		var queueAlias [][]uint64
		gorHeld := false
		closed := false
		counts := map[uint64]int{} // applied accesses since the last reset / clear
		var myIncrs int64
		sawDrop, sawLose, sawReset := false, false, false

		universe := 1 + r.Rng.Intn(10)
		keys := make([]uint64, universe)
		for i := range keys {
			if r.Rng.Intn(2) == 0 {
				keys[i] = uint64(r.Rng.Intn(16))
			} else {
				keys[i] = r.Rng.Uint64()
			}
		}
		hot := keys[r.Rng.Intn(len(keys))]

		snap := func() {
			parts := []string{}
			for _, st := range pool {
				d := st.Data()
				parts = append(parts, fmt.Sprint(len(d)))
				if len(d) > 0 {
					parts = append(parts, u64s(d))
				}
			}
			var gk, gd uint64
			if metrics {
				gk, gd = pol.GetsKept(), pol.GetsDropped()
			}
			r.Emit("snap %d %d %d %d %d %s", gk, gd, pol.ChanLen(), b2i(pol.IsClosed()), len(pool), strings.Join(parts, " "))
			r.Count("snap")
		}
		tsnap := func() {
			d := adm.Door().VerifState()
			rows := sk.Rows()
			parts := make([]string, len(rows))
			for j := range rows {
				parts[j] = hexBytes(rows[j])
			}
			r.Emit("tsnap %d %d %d %s %s", adm.Incrs(), adm.ResetAt(), d.ElemNum, hexBytes(d.Bytes), strings.Join(parts, " "))
		}
		// the conservation / metric oracle, after every operation
		checkCounts := func(after string) {
			inStripes := 0
			for _, st := range pool {
				inStripes += st.Len()
			}
			if pushes != inStripes+keptN+droppedN+lostClosedN+lostPoolN {
				fail("C17", fmt.Sprintf("conservation broken after %s: %d pushes but %d in stripes + %d kept + %d dropped + %d refused by the closed policy + %d lost with a stripe",
					after, pushes, inStripes, keptN, droppedN, lostClosedN, lostPoolN))
			}
			if metrics {
				gk, gd := pol.GetsKept(), pol.GetsDropped()
				if gk != uint64(keptN-keptAtClear) || gd != uint64(droppedN-droppedAtClear) {
					fail("C17", fmt.Sprintf("after %s: GetsKept=%d GetsDropped=%d, but %d keys were kept and %d dropped since the last Metrics.Clear",
						after, gk, gd, keptN-keptAtClear, droppedN-droppedAtClear))
				}
				if gk+gd > uint64(pushes) {
					fail("C17", fmt.Sprintf("after %s: GetsKept+GetsDropped=%d exceeds the %d pushes", after, gk+gd, pushes))
				}
			}
			if pol.ChanLen() != len(queue) {
				fail("C17", fmt.Sprintf("after %s: itemsCh holds %d batches, %d expected", after, pol.ChanLen(), len(queue)))
			}
		}
		// wait for the goroutine to arrive at a yield point
		expect := func(id int) {
			if stuck {
				return
			}
			select {
			case got := <-arrived:
				if got != id {
					fail("*", fmt.Sprintf("policy goroutine arrived at yield point %d, expected %d", got, id))
				}
			case <-time.After(10 * time.Second):
				stuck = true
				fail("*", fmt.Sprintf("policy goroutine did not reach yield point %d (batch accepted by defaultPolicy.Push but never received / applied)", id))
			}
		}
		letGo := func() {
			if stuck {
				return
			}
			select {
			case release <- struct{}{}:
			case <-time.After(10 * time.Second):
				stuck = true
				fail("*", "policy goroutine is not waiting at its yield point")
			}
		}
		// the goroutine takes the oldest batch of the channel
		doRecv := func() {
			expect(ristretto.VerifPointPolPushRecv)
			held, heldAlias = queue[0], queueAlias[0]
			queue, queueAlias = queue[1:], queueAlias[1:]
			gorHeld = true
			r.Emit("recv %d", len(held))
			r.Count("recv")
			hist = append(hist, "recv")
		}
		// one push; idx < 0: a fresh stripe
		doPush := func(idx int, k uint64) {
			nCalls := len(rec.calls)
			chanRoom := len(queue) < pol.ChanCap()
			fresh := idx < 0
			if pooled {
				before := make([]int, len(pool))
				for i, st := range pool {
					before[i] = st.Len()
				}
				nCreated := len(rb.Created)
				rb.Push(k)
				if len(rb.Created) > nCreated { // pool.Get() called New
					if len(rb.Created) != nCreated+1 {
						fail("*", "ringBuffer.Push created more than one stripe")
					}
					pool = append(pool, rb.Created[nCreated])
					shadow = append(shadow, nil)
					idx, fresh = len(pool)-1, true
				} else {
					idx, fresh = -1, false
					for i, st := range pool {
						if st.Len() != before[i] {
							if idx >= 0 {
								fail("*", "ringBuffer.Push changed two stripes")
							}
							idx = i
						}
					}
					if idx < 0 { // BufferItems = 1: every stripe is empty before and after; they are indistinguishable
						idx = 0
					}
				}
			} else {
				if fresh {
					pool = append(pool, ristretto.VerifNewRingStripe(rec, capa))
					shadow = append(shadow, nil)
					idx = len(pool) - 1
				}
				pool[idx].Push(k)
			}
			pushes++
			shadow[idx] = append(shadow[idx], k)
			op := fmt.Sprintf("push %d %d", idx, k)
			if fresh {
				op = fmt.Sprintf("pushnew %d", k)
			}
			hist = append(hist, op)
			r.Count("push")
			if len(rec.calls) == nCalls {
				r.Emit("%s 0", op)
				if !eqU64(pool[idx].Data(), shadow[idx]) {
					fail("*", fmt.Sprintf("stripe %d holds %v after the push, the keys pushed since its last drain are %v", idx, pool[idx].Data(), shadow[idx]))
				}
				if int64(len(shadow[idx])) >= capa {
					fail("*", fmt.Sprintf("stripe %d holds %d keys >= BufferItems=%d and was not drained", idx, len(shadow[idx]), capa))
				}
			} else {
				if len(rec.calls) != nCalls+1 {
					fail("*", "one push handed over more than one batch")
				}
				call := rec.calls[len(rec.calls)-1]
				outcome := "kept"
				switch {
				case call.ok:
					keptN += len(call.keys)
					queue = append(queue, call.keys)
					queueAlias = append(queueAlias, call.alias)
					r.Count("batch_kept")
				case closed:
					outcome = "closed"
					lostClosedN += len(call.keys)
					r.Count("batch_refused_closed")
				default:
					outcome = "dropped"
					droppedN += len(call.keys)
					sawDrop = true
					r.Count("batch_dropped")
				}
				r.Emit("%s 1 %s %s", op, outcome, u64s(call.keys))
				if int64(len(call.keys)) != capa {
					fail("*", fmt.Sprintf("stripe %d handed over a batch of %d keys, BufferItems=%d", idx, len(call.keys), capa))
				}
				if !eqU64(call.keys, shadow[idx]) {
					fail("*", fmt.Sprintf("stripe %d handed over %v, the keys pushed since its last drain are %v", idx, call.keys, shadow[idx]))
				}
				if pool[idx].Len() != 0 {
					fail("*", fmt.Sprintf("stripe %d still holds %d keys after handing its batch over (consumer answered %v)", idx, pool[idx].Len(), call.ok))
				}
				shadow[idx] = nil
				if closed && call.ok {
					fail("C17", "a closed policy accepted a batch")
				}
				if !closed && call.ok != chanRoom {
					fail("C17", fmt.Sprintf("defaultPolicy.Push answered %v with %d of %d channel slots used", call.ok, len(queue), pol.ChanCap()))
				}
				if call.ok && !gorHeld && !closed { // the idle goroutine receives at once
					doRecv()
				}
			}
			checkCounts(op)
		}
		doApply := func() {
			if !eqU64(held, heldAlias) {
				fail("*", fmt.Sprintf("the batch %v accepted by defaultPolicy.Push was overwritten before the policy applied it (now %v)", held, heldAlias))
			}
			letGo()
			expect(ristretto.VerifPointPolPushed)
			r.Emit("apply")
			r.Count("apply")
			hist = append(hist, "apply")
			for _, k := range held {
				if myIncrs+1 == adm.ResetAt() {
					myIncrs = 0
					sawReset = true
					for q := range counts {
						delete(counts, q)
					}
				} else {
					myIncrs++
					counts[k]++
				}
			}
			gorHeld, held, heldAlias = false, nil, nil
			if adm.Incrs() != myIncrs {
				fail("C18", fmt.Sprintf("tinyLFU.incrs=%d after the batch, %d expected: a key of a kept batch was not counted exactly once", adm.Incrs(), myIncrs))
			}
			for _, k := range keys {
				e := pol.Estimate(k)
				want := counts[k]
				if want > 15 {
					want = 15
				}
				if e < int64(want) || e > 16 {
					fail("C18", fmt.Sprintf("Estimate(%d)=%d after %d kept-and-applied accesses since the last reset", k, e, counts[k]))
				}
			}
			letGo() // leave the yield point; back to the select
			if len(queue) > 0 {
				doRecv()
			}
			checkCounts("apply")
		}

		ops := 30 + r.Rng.Intn(40*int(capa)+60)
		if ops > 700 {
			ops = 700
		}
		for i := 0; i < ops && !failed && !stuck; i++ {
			k := keys[r.Rng.Intn(len(keys))]
			if r.Rng.Intn(3) == 0 {
				k = hot
			}
			switch x := r.Rng.Intn(1000); {
			case x < 740:
				switch {
				case pooled:
					doPush(0, k) // the pool decides
				case len(pool) == 0 || r.Rng.Intn(12) == 0:
					doPush(-1, k)
				default:
					doPush(r.Rng.Intn(len(pool)), k)
				}
			case x < 880:
				if gorHeld {
					doApply()
				}
			case x < 920:
				if pooled {
					runtime.GC()
					runtime.GC()
					r.Count("gc")
				} else if len(pool) > 0 {
					j := r.Rng.Intn(len(pool))
					lostPoolN += pool[j].Len()
					if pool[j].Len() > 0 {
						sawLose = true
					}
					pool = append(pool[:j:j], pool[j+1:]...)
					shadow = append(shadow[:j:j], shadow[j+1:]...)
					r.Emit("lose %d", j)
					r.Count("lose")
					hist = append(hist, fmt.Sprintf("lose %d", j))
					checkCounts("lose")
				}
			case x < 950:
				e := pol.Estimate(k)
				r.Emit("est %d %d", k, e)
				r.Count("est")
			case x < 965:
				pol.Clear()
				r.Emit("polclear")
				r.Count("polclear")
				hist = append(hist, "polclear")
				myIncrs = 0
				for q := range counts {
					delete(counts, q)
				}
			case x < 980:
				if metrics {
					pol.MetricsClear()
					keptAtClear, droppedAtClear = keptN, droppedN
					r.Emit("metclear")
					r.Count("metclear")
					hist = append(hist, "metclear")
					checkCounts("metclear")
				}
			default:
				if !closed && !gorHeld && len(queue) == 0 && i > ops/2 {
					closeDone := make(chan struct{})
					go func() { pol.Close(); close(closeDone) }()
					select {
					case <-closeDone:
					case <-time.After(10 * time.Second):
						stuck = true
						fail("*", "defaultPolicy.Close does not return although the policy goroutine is idle")
					}
					closed = true
					r.Emit("stop")
					r.Emit("close")
					r.Count("close")
					hist = append(hist, "close")
				}
			}
			if i%17 == 0 {
				snap()
			}
			if i%41 == 0 {
				tsnap()
			}
		}
		// drain the goroutine and shut the policy down
		for gorHeld && !failed && !stuck {
			doApply()
		}
		if !stuck {
			snap()
			tsnap()
		}
		if !closed && !stuck {
			free.Store(true)
			if gorHeld { // only after a failure: the goroutine waits for its release
				letGo()
			}
			closeDone := make(chan struct{})
			go func() { pol.Close(); close(closeDone) }()
			deadline := time.After(10 * time.Second)
		wait:
			for {
				select {
				case <-closeDone:
					break wait
				case <-arrived: // it had passed the flag test before the flag was set
					letGo()
				case <-deadline:
					stuck = true
					break wait
				}
			}
			free.Store(false)
		}
		if sawDrop {
			r.Nontriv++
			r.Count("case_with_dropped_batch")
		}
		if sawLose {
			r.Count("case_with_lost_keys")
		}
		if sawReset {
			r.Count("case_with_aging_reset")
		}
		if pooled {
			r.Count("case_pooled")
		}
		if c < 2 {
			r.Sample(histStr())
		}
	}
}
