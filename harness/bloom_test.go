package harness

import (
	"encoding/json"
	"fmt"
	"strings"

	"github.com/dgraph-io/ristretto/v2/z"
)

func init() { streams["bloom"] = streamBloom }

// bloomHash draws a 64-bit hash whose high and low halves are, independently,
// all zero, all one, a small number, or random; with a small pool so that
// re-adds and AddIfNotHas duplicates are frequent.
func bloomHash(r *Run) uint64 {
	part := func() uint64 {
		switch r.Rng.Intn(5) {
		case 0:
			return 0
		case 1:
			return 0xffffffff
		case 2:
			return uint64(r.Rng.Intn(4))
		default:
			return uint64(r.Rng.Uint32())
		}
	}
	return part()<<32 | part()
}

var bloomSpecial = []uint64{0, ^uint64(0), 0xffffffff00000000, 0x00000000ffffffff, 1, 1 << 63, 0x8000000000000001,
	0xfffffffffffffffe, 0x7fffffffffffffff, 0xaaaaaaaaaaaaaaaa, 0x5555555555555555}

func bloomStateLine(slot int, bl *z.Bloom, withBytes bool) string {
	st := bl.VerifState()
	s := fmt.Sprintf("st %d %d %d %d %d %d", slot, st.SizeExp, st.Size, st.SetLocs, st.Shift, st.ElemNum)
	if withBytes {
		s += " " + hexBytes(st.Bytes)
	}
	return s
}

type bloomJSON struct {
	FilterSet []byte
	SetLocs   uint64
}

// bloomRoundTrip marshals bl, emits the export / import records, unmarshals and
// runs the C19 serialization oracle: same parameters, same bytes, same Has for
// every probe.  Returns the re-imported filter.
func bloomRoundTrip(r *Run, bl *z.Bloom, slot, slot2 int, probes []uint64, hist func() string) *z.Bloom {
	data := bl.JSONMarshal()
	var dec bloomJSON
	if err := json.Unmarshal(data, &dec); err != nil {
		r.Fail("C19", "JSONMarshal output is not valid JSON: "+err.Error(), hist())
		return nil
	}
	r.Emit("export %d %d %s", slot, dec.SetLocs, hexBytes(dec.FilterSet))
	bl2, err := z.JSONUnmarshal(data)
	if err != nil || bl2 == nil {
		r.Fail("C19", fmt.Sprintf("JSONUnmarshal(JSONMarshal(filter)) failed: %v", err), hist())
		return nil
	}
	r.Emit("import %d %d %s", slot2, dec.SetLocs, hexBytes(dec.FilterSet))
	r.Emit("%s", bloomStateLine(slot2, bl2, true))
	r.Count("json_roundtrip")
	a, b := bl.VerifState(), bl2.VerifState()
	if a.SizeExp != b.SizeExp || a.Size != b.Size || a.SetLocs != b.SetLocs || a.Shift != b.Shift || string(a.Bytes) != string(b.Bytes) {
		r.Fail("C19", fmt.Sprintf("JSON round trip changed the filter: exp %d->%d size %d->%d locs %d->%d shift %d->%d bytesEqual=%v",
			a.SizeExp, b.SizeExp, a.Size, b.Size, a.SetLocs, b.SetLocs, a.Shift, b.Shift, string(a.Bytes) == string(b.Bytes)), hist())
	}
	for _, h := range probes {
		if x, y := bl.Has(h), bl2.Has(h); x != y {
			r.Fail("C19", fmt.Sprintf("after JSON round trip Has(%d) is %v, was %v", h, y, x), hist())
			break
		}
	}
	return bl2
}

func b2i(b bool) int {
	if b {
		return 1
	}
	return 0
}

// streamBloom: C19 on the real z.Bloom.
//
// Direct oracle (independent of the Lean model): a Go set of the hashes added
// since the last Clear; every one of them must be reported by Has after every
// later operation; AddIfNotHas must return !Has-before and make Has true; after
// Clear, Has is false for every formerly added and every probe hash and all
// bytes are zero; JSONUnmarshal(JSONMarshal(f)) has the same parameters and
// bytes and answers Has identically on added, special and random hashes.
func streamBloom(r *Run) {
	entriesPool := []uint64{1, 2, 63, 64, 100, 300, 511, 512, 513, 1000, 1023, 1024, 1025, 2047, 2048, 2049, 4095, 4096, 4097,
		8191, 8192, 8193, 10000, 16384, 32767, 32768, 32769, 65535, 65536, 65537}
	bigPool := []uint64{1<<17 - 1, 1 << 17, 1<<17 + 1, 1<<20 - 1, 1 << 20, 1<<20 + 1, 1<<22 + 1}
	locsPool := []uint64{1, 1, 2, 3, 4, 5, 7, 8, 13, 31, 32, 33, 63, 64, 65, 66, 74, 100, 129} // also more locations than a machine word has bits
	rates := []float64{0.5, 0.1, 0.03, 0.01, 0.001, 0.0001, 0.999}
	rateEntries := []float64{1, 2, 10, 50, 100, 341, 1000, 5000, 20000}
	nCases := 30 * r.Scale
	for c := 0; c < nCases; c++ {
		var bl *z.Bloom
		var desc string
		big := false
		mode := r.Rng.Intn(10)
		switch {
		case mode < 5: // (entries, locations)
			e := entriesPool[r.Rng.Intn(len(entriesPool))]
			if r.Rng.Intn(12) == 0 {
				e = bigPool[r.Rng.Intn(len(bigPool))]
				big = true
			}
			l := locsPool[r.Rng.Intn(len(locsPool))]
			bl = z.NewBloomFilter(float64(e), float64(l))
			desc = fmt.Sprintf("NewBloomFilter(%d,%d)", e, l)
			r.Emit("new 0 %d %d", e, l)
			r.Count("new_entries_locs")
		case mode < 9: // (entries, false-positive rate): the float sizing is observed, not modelled
			e := rateEntries[r.Rng.Intn(len(rateEntries))]
			p := rates[r.Rng.Intn(len(rates))]
			bl = z.NewBloomFilter(e, p)
			st := bl.VerifState()
			desc = fmt.Sprintf("NewBloomFilter(%g,%g)", e, p)
			r.Emit("new 0 %d %d", st.Size+1, st.SetLocs)
			r.Count("new_entries_rate")
			big = st.Size+1 > 1<<17
		default: // degenerate parameters (observed and reported, never failed on)
			bloomDegenerate(r, 0, locsPool[r.Rng.Intn(len(locsPool))])
			bloomDegenerate(r, entriesPool[r.Rng.Intn(len(entriesPool))], 0)
			bloomDegenerate(r, 0, 0)
			continue
		}
		r.Cases++
		r.Emit("%s", bloomStateLine(0, bl, !big))
		st0 := bl.VerifState()
		if st0.Size+1 != uint64(len(st0.Bytes))*8 || st0.Shift != 64-st0.SizeExp || st0.Size+1 != 1<<st0.SizeExp || st0.SizeExp < 9 {
			r.Fail("C19", fmt.Sprintf("%s: inconsistent parameters exp=%d size=%d shift=%d bytes=%d", desc, st0.SizeExp, st0.Size, st0.Shift, len(st0.Bytes)), desc)
		}
		pool := make([]uint64, 2+r.Rng.Intn(60))
		for i := range pool {
			if r.Rng.Intn(6) == 0 {
				pool[i] = bloomSpecial[r.Rng.Intn(len(bloomSpecial))]
			} else {
				pool[i] = bloomHash(r)
			}
		}
		added := map[uint64]bool{}
		var order []uint64 // insertion order of `added`, for deterministic iteration
		var hist []string
		histStr := func() string { return desc + ": " + strings.Join(hist, ";") }
		checkAdded := func(after string) {
			for _, h := range order {
				if added[h] && !bl.Has(h) {
					r.Fail("C19", fmt.Sprintf("false negative: %d was added but Has is false after %s", h, after), histStr())
					return
				}
			}
		}
		ops := 20 + r.Rng.Intn(150)
		sawDup, sawFP := false, false
		for i := 0; i < ops; i++ {
			h := pool[r.Rng.Intn(len(pool))]
			switch x := r.Rng.Intn(100); {
			case x < 30:
				bl.Add(h)
				r.Emit("add 0 %d", h)
				r.Count("add")
				hist = append(hist, fmt.Sprintf("add %d", h))
				if !added[h] {
					order = append(order, h)
				}
				added[h] = true
				if !bl.Has(h) {
					r.Fail("C19", fmt.Sprintf("Has(%d) false right after Add", h), histStr())
				}
				checkAdded("add")
			case x < 55:
				before := bl.Has(h)
				res := bl.AddIfNotHas(h)
				r.Emit("ainh 0 %d %d", h, b2i(res))
				r.Count("addIfNotHas")
				hist = append(hist, fmt.Sprintf("ainh %d", h))
				if res == before {
					r.Fail("C19", fmt.Sprintf("AddIfNotHas(%d) returned %v although Has was %v beforehand", h, res, before), histStr())
				}
				if !bl.Has(h) {
					r.Fail("C19", fmt.Sprintf("Has(%d) false after AddIfNotHas", h), histStr())
				}
				if !res {
					sawDup = true
					if !added[h] {
						sawFP = true
						r.Count("false_positive_seen")
					}
				}
				if !added[h] {
					order = append(order, h)
				}
				added[h] = true
				checkAdded("addIfNotHas")
			case x < 90:
				q := h
				if r.Rng.Intn(3) == 0 {
					q = bloomHash(r)
				}
				res := bl.Has(q)
				r.Emit("has 0 %d %d", q, b2i(res))
				r.Count("has")
				if added[q] && !res {
					r.Fail("C19", fmt.Sprintf("false negative: Has(%d) = false", q), histStr())
				}
			case x < 94:
				bl.Clear()
				r.Emit("clear 0")
				r.Count("clear")
				hist = append(hist, "clear")
				st := bl.VerifState()
				for _, b := range st.Bytes {
					if b != 0 {
						r.Fail("C19", "Clear left a non-zero byte in the bitset", histStr())
						break
					}
				}
				for _, q := range append(append([]uint64{}, order...), bloomSpecial...) {
					if bl.Has(q) {
						r.Fail("C19", fmt.Sprintf("Has(%d) true after Clear", q), histStr())
						break
					}
				}
				added = map[uint64]bool{}
				order = nil
			default:
				if big {
					continue
				}
				probes := append(append([]uint64{}, order...), bloomSpecial...)
				for j := 0; j < 40; j++ {
					probes = append(probes, bloomHash(r))
				}
				bl2 := bloomRoundTrip(r, bl, 0, 1, probes, histStr)
				hist = append(hist, "json-roundtrip")
				if bl2 != nil && r.Rng.Intn(2) == 0 { // continue on the re-imported filter
					bl = bl2
					r.Emit("import 0 %d %s", bl.VerifState().SetLocs, hexBytes(bl.VerifState().Bytes))
					hist = append(hist, "continue-on-imported")
					checkAdded("json round trip")
				}
			}
			if i%41 == 0 || i == ops-1 {
				r.Emit("%s", bloomStateLine(0, bl, !big))
				r.Count("state_snapshot")
			}
		}
		if sawDup {
			r.Nontriv++
			r.Count("case_with_duplicate")
		}
		if sawFP {
			r.Count("case_with_false_positive")
		}
		if c < 2 {
			r.Sample(histStr())
		}
	}
	bloomDegenerateOnce(r)
	// newWithBoolset on arbitrary (not exported) byte strings, through JSONUnmarshal
	for c := 0; c < 6*r.Scale; c++ {
		n := r.Rng.Intn(200)
		if r.Rng.Intn(3) == 0 {
			n = []int{0, 1, 63, 64, 65, 127, 128, 129, 256}[r.Rng.Intn(9)]
		}
		bs := make([]byte, n)
		r.Rng.Read(bs)
		locs := uint64(1 + r.Rng.Intn(6))
		data, _ := json.Marshal(bloomJSON{FilterSet: bs, SetLocs: locs})
		bl, err := z.JSONUnmarshal(data)
		if err != nil || bl == nil {
			r.Fail("C19", fmt.Sprintf("JSONUnmarshal of a well-formed document failed: %v", err), string(data))
			continue
		}
		r.Emit("import 2 %d %s", locs, hexBytes(bs))
		r.Emit("%s", bloomStateLine(2, bl, true))
		r.Count("import_arbitrary")
		st := bl.VerifState()
		if len(st.Bytes) < n || string(st.Bytes[:n]) != string(bs) {
			r.Fail("C19", "JSONUnmarshal lost FilterSet bytes", string(data))
		}
		for i := 0; i < 10; i++ {
			h := bloomHash(r)
			r.Emit("has 2 %d %d", h, b2i(bl.Has(h)))
		}
	}
}

// bloomDegenerate exercises entries = 0 and / or locs = 0.  Nothing here fails the
// check: the observations go to the op histogram and the samples (a second
// parameter 0 is < 1 and therefore taken as a false-positive *rate* of 0 by
// NewBloomFilter, which panics in make; entries = 0 gives a usable 512-bit filter).
func bloomDegenerate(r *Run, e, l uint64) {
	defer func() {
		if p := recover(); p != nil {
			k := fmt.Sprintf("degenerate_panic_entries%s_locs%s", zeroOr(e), zeroOr(l))
			r.Count(k)
			if r.Counters[k] == 1 {
				r.Sample(fmt.Sprintf("DEGENERATE NewBloomFilter(%d,%d): panic %v", e, l, p))
			}
		}
	}()
	bl := z.NewBloomFilter(float64(e), float64(l))
	r.Emit("new 3 %d %d", e, l)
	r.Emit("%s", bloomStateLine(3, bl, true))
	r.Count(fmt.Sprintf("degenerate_ok_entries%s_locs%s", zeroOr(e), zeroOr(l)))
	hs := []uint64{0, 5, ^uint64(0), bloomHash(r), bloomHash(r)}
	if l == 0 { // not reachable today (the constructor panics); kept in case it stops panicking
		if bl.Has(hs[1]) {
			r.Count("degenerate_locs0_empty_filter_has_true")
			r.Sample(fmt.Sprintf("DEGENERATE NewBloomFilter(%d,0): Has(x) is true on the empty filter", e))
		}
	}
	for _, h := range hs {
		r.Emit("has 3 %d %d", h, b2i(bl.Has(h)))
		res := bl.AddIfNotHas(h)
		r.Emit("ainh 3 %d %d", h, b2i(res))
		r.Emit("has 3 %d %d", h, b2i(bl.Has(h)))
		if !bl.Has(h) {
			r.Count("degenerate_false_negative")
			r.Sample(fmt.Sprintf("DEGENERATE NewBloomFilter(%d,%d): false negative for %d", e, l, h))
		}
	}
	bl.Clear()
	r.Emit("clear 3")
	if bl.Has(hs[1]) {
		r.Count("degenerate_has_true_after_clear")
		r.Sample(fmt.Sprintf("DEGENERATE NewBloomFilter(%d,%d): Has true after Clear", e, l))
	}
	r.Emit("%s", bloomStateLine(3, bl, true))
}

func zeroOr(x uint64) string {
	if x == 0 {
		return "0"
	}
	return "N"
}

// bloomDegenerateOnce: constructor-only observations that must not be driven any further
// (Add would loop setLocs = 2^63 times) plus a JSON document with SetLocs = 0.
func bloomDegenerateOnce(r *Run) {
	func() {
		defer func() {
			if p := recover(); p != nil {
				r.Count("degenerate_rate_entries0_panic")
			}
		}()
		st := z.NewBloomFilter(0, 0.01).VerifState()
		if st.SetLocs == 0 || st.SetLocs > 1<<32 {
			r.Count("degenerate_rate_entries0_unusable_setLocs")
			r.Sample(fmt.Sprintf("DEGENERATE NewBloomFilter(0,0.01): setLocs=%d (uint64 of NaN, platform dependent), size=%d; Add would run that many iterations", st.SetLocs, st.Size+1))
		}
	}()
	func() {
		defer func() {
			if p := recover(); p != nil {
				r.Count("degenerate_json_setlocs0_panic")
				r.Sample(fmt.Sprintf("DEGENERATE JSONUnmarshal({FilterSet:4 bytes, SetLocs:0}): panic %v", p))
			}
		}()
		data, _ := json.Marshal(bloomJSON{FilterSet: []byte{1, 2, 3, 4}, SetLocs: 0})
		if _, err := z.JSONUnmarshal(data); err != nil {
			r.Count("degenerate_json_setlocs0_error")
		}
	}()
}
