package harness

// Stream "keytohash" (C01, glue around the modelled core): the default key hashing
// z.KeyToHash for every supported key kind, including user-defined types.  Direct oracle
// only: integer kinds must hash to (uint64(k), 0) — distinct keys must never share the
// pair — and string / []byte kinds must be deterministic, content-defined, and equal for a
// named type and its underlying type.

import (
	"fmt"

	ristretto "github.com/dgraph-io/ristretto/v2"
	"github.com/dgraph-io/ristretto/v2/z"
)

type (
	kU64   uint64
	kInt   int
	kI64   int64
	kI32   int32
	kU32   uint32
	kUint  uint
	kByte  byte
	kStr   string
	kBytes []byte
)

func init() { streams["keytohash"] = streamKeyToHash }

// intSeen[type][(h,c)] = the key (as the canonical uint64 `want`) that produced the pair: what the
// property needs of the integer kinds is that two distinct keys of one type never share both
// hashes (the exact value — identity — is pinned by the generated kernels of RV/Props/KeyHash.lean,
// not here: `uint64(uint32(k))` for an int32 key is a harmless rewrite).
var intSeen = map[string]map[[2]uint64]uint64{}

func checkInt[K z.Key](r *Run, name string, k K, want uint64) {
	h, c := z.KeyToHash(k)
	h2, c2 := z.KeyToHash(k)
	r.Count("int_" + name)
	if h != h2 || c != c2 {
		r.Fail("C01", fmt.Sprintf("z.KeyToHash(%s(%v)) is not deterministic: (%d,%d) then (%d,%d)", name, k, h, c, h2, c2), name)
	}
	m := intSeen[name]
	if m == nil {
		m = map[[2]uint64]uint64{}
		intSeen[name] = m
	}
	if prev, ok := m[[2]uint64{h, c}]; ok && prev != want {
		r.Fail("C01", fmt.Sprintf("z.KeyToHash maps the distinct %s keys %d and %d (as uint64) to the same pair (%d,%d): a value stored under one is returned for the other", name, prev, want, h, c), name)
	}
	m[[2]uint64{h, c}] = want
}

func streamKeyToHash(r *Run) {
	vals := []uint64{0, 1, 7, 42, 1<<31 - 1, 1 << 31, 1<<32 - 1, 1 << 32, 1<<32 + 7, 1<<63 - 1, 1 << 63, ^uint64(0)}
	for i := 0; i < 200*r.Scale; i++ {
		vals = append(vals, r.Rng.Uint64())
	}
	for _, v := range vals {
		r.Cases++
		checkInt(r, "uint64", v, v)
		checkInt(r, "kU64", kU64(v), v)
		checkInt(r, "int", int(v), v)
		checkInt(r, "kInt", kInt(v), v)
		checkInt(r, "int64", int64(v), v)
		checkInt(r, "kI64", kI64(v), v)
		checkInt(r, "uint", uint(v), v)
		checkInt(r, "kUint", kUint(v), v)
		checkInt(r, "int32", int32(v), uint64(int32(v)))
		checkInt(r, "kI32", kI32(v), uint64(int64(int32(v))))
		checkInt(r, "uint32", uint32(v), uint64(uint32(v)))
		checkInt(r, "kU32", kU32(v), uint64(uint32(v)))
		checkInt(r, "byte", byte(v), uint64(byte(v)))
		checkInt(r, "kByte", kByte(v), uint64(byte(v)))
	}
	r.Nontriv = len(vals)
	seen := map[[2]uint64]string{}
	for i := 0; i < 300*r.Scale; i++ {
		n := r.Rng.Intn(12)
		b := make([]byte, n)
		for j := range b {
			b[j] = byte('a' + r.Rng.Intn(3))
		}
		s := string(b)
		h1, c1 := z.KeyToHash(s)
		h2, c2 := z.KeyToHash(kStr(s))
		h3, c3 := z.KeyToHash(append([]byte{}, b...))
		h4, c4 := z.KeyToHash(kBytes(b))
		h5, c5 := z.KeyToHash(string(append([]byte{}, b...)))
		r.Count("string")
		if h1 != h2 || c1 != c2 || h3 != h4 || c3 != c4 || h1 != h5 || c1 != c5 {
			r.Fail("C01", fmt.Sprintf("z.KeyToHash is not content-defined for %q: string (%d,%d) named (%d,%d) copy (%d,%d) / bytes (%d,%d) named (%d,%d)", s, h1, c1, h2, c2, h5, c5, h3, c3, h4, c4), s)
		}
		if prev, ok := seen[[2]uint64{h1, c1}]; ok && prev != s {
			r.Fail("C01", fmt.Sprintf("distinct strings %q and %q share both hashes", prev, s), s)
		}
		seen[[2]uint64{h1, c1}] = s
	}
	// structured near-identical keys: byte strings that differ only by trailing / leading NUL
	// bytes, the encodings of one number at different widths and endianness, prefixes of each
	// other, every single byte, short and long keys around the 8- and 16-byte marks.  Two distinct
	// keys sharing BOTH hashes would be served each other's values (for a 128-bit content hash
	// the chance of an accidental pair here is below 2^-100).
	var structured [][]byte
	for k := 0; k <= 12; k++ {
		structured = append(structured, make([]byte, k))                          // NUL^k
		structured = append(structured, append([]byte("ab"), make([]byte, k)...)) // "ab" NUL^k
		structured = append(structured, append(make([]byte, k), 'a', 'b'))        // NUL^k "ab"
		structured = append(structured, []byte("aaaaaaaaaaaaaaaaaaaaaaaa")[:2*k]) // a^(2k)
	}
	for b := 0; b < 256; b++ {
		structured = append(structured, []byte{byte(b)}, []byte{byte(b), 0}, []byte{0, byte(b)}, []byte{byte(b), byte(b)})
	}
	for _, n := range []uint64{1, 2, 255, 256, 513, 65535, 65536, 1 << 24, 1<<32 - 1, 1 << 32, 1<<56 + 5, ^uint64(0)} {
		for _, w := range []int{1, 2, 3, 4, 5, 7, 8, 9, 16} {
			le, be := make([]byte, w), make([]byte, w)
			for i := 0; i < w && i < 8; i++ {
				le[i] = byte(n >> (8 * uint(i)))
				be[w-1-i] = byte(n >> (8 * uint(i)))
			}
			structured = append(structured, le, be)
		}
	}
	// long keys: same length, differing in ONE byte at the front, in the middle, around every
	// power-of-two offset and at the very end (a hash that looks only at a prefix, a suffix, a sample
	// or the length confuses them)
	for _, L := range []int{31, 32, 33, 63, 64, 65, 127, 128, 129, 255, 256, 257, 511, 512, 513, 520, 1023, 1024, 1025, 4095, 4096, 4097, 65535, 65536, 65537, 1 << 20} {
		base := make([]byte, L)
		for i := range base {
			base[i] = byte(r.Rng.Intn(256))
		}
		structured = append(structured, base)
		pos := map[int]bool{0: true, 1: true, L / 2: true, L - 2: true, L - 1: true}
		for p := 4; p < L; p *= 2 {
			pos[p-1], pos[p], pos[p+1] = true, true, true
		}
		for p := range pos {
			if p >= 0 && p < L {
				v := append([]byte{}, base...)
				v[p] ^= 0x5a
				structured = append(structured, v)
			}
		}
		structured = append(structured, append(append([]byte{}, base...), 0), base[:L-1]) // one longer, one shorter
	}
	// a key buffer that the caller reuses: the hashes must depend on the CONTENT of the key, not on
	// which slice it sits in
	for _, L := range []int{8, 64, 255, 256, 257, 300, 1024, 5000} {
		buf := make([]byte, L)
		for i := range buf {
			buf[i] = byte(r.Rng.Intn(256))
		}
		h1, c1 := z.KeyToHash(buf)
		other := make([]byte, L)
		for i := range other {
			other[i] = byte(r.Rng.Intn(256))
		}
		copy(buf, other)
		h2, c2 := z.KeyToHash(buf)
		h3, c3 := z.KeyToHash(append([]byte{}, other...))
		r.Count("reused_buffer")
		if h2 != h3 || c2 != c3 {
			r.Fail("C01", fmt.Sprintf("z.KeyToHash of a reused %d-byte key buffer: after refilling it with another key it returns (%d,%d), a fresh slice with the same content gives (%d,%d) (the previous content hashed to (%d,%d)): a Get with the refilled buffer is served the other key's value", L, h2, c2, h3, c3, h1, c1), fmt.Sprintf("reused []byte buffer of length %d", L))
		}
	}
	seenB := map[[2]uint64]string{}
	for _, b := range structured {
		h, c := z.KeyToHash(b)
		hs, cs := z.KeyToHash(string(b))
		r.Count("structured")
		if h != hs || c != cs {
			r.Fail("C01", fmt.Sprintf("z.KeyToHash differs between []byte and string for %q: (%d,%d) vs (%d,%d)", b, h, c, hs, cs), fmt.Sprintf("%q", b))
		}
		if prev, ok := seenB[[2]uint64{h, c}]; ok && prev != string(b) {
			d := 0
			for d < len(prev) && d < len(b) && prev[d] == b[d] {
				d++
			}
			show := func(x string) string {
				if len(x) > 24 {
					return fmt.Sprintf("%q…(%d bytes)", x[:24], len(x))
				}
				return fmt.Sprintf("%q", x)
			}
			r.Fail("C01", fmt.Sprintf("distinct keys %s and %s (first difference at byte %d) share both hashes (%d,%d): a value stored under one is returned for the other", show(prev), show(string(b)), d, h, c), fmt.Sprintf("lengths %d and %d, first difference at byte %d", len(prev), len(b), d))
		}
		seenB[[2]uint64{h, c}] = string(b)
	}
	// end to end with string keys that differ only by a trailing NUL / by width
	if sc, err := ristretto.NewCache(&ristretto.Config[string, uint64]{NumCounters: 1000, MaxCost: 1000, BufferItems: 64, IgnoreInternalCost: true}); err == nil {
		sc.Set("ab", 1, 1)
		sc.Set("\x01\x02", 2, 1)
		sc.Wait()
		for _, k := range []string{"ab\x00", "\x00ab", "ab\x00\x00", "\x01\x02\x00\x00", "a", "abc"} {
			if v, ok := sc.Get(k); ok {
				r.Fail("C01", fmt.Sprintf("Get(%q) returned %d, which was stored under another key", k, v), "default KeyToHash, string keys \"ab\", \"\\x01\\x02\"")
			}
		}
		sc.Close()
	}
	// end to end: a cache with the default hashing never serves a value under another key
	cache, err := ristretto.NewCache(&ristretto.Config[kInt, uint64]{NumCounters: 1000, MaxCost: 1000, BufferItems: 64, IgnoreInternalCost: true})
	if err == nil {
		keys := []kInt{7, 1<<32 + 7, -7, 1 << 40, 1<<40 + 7}
		for i, k := range keys {
			cache.Set(k, uint64(100+i), 1)
		}
		cache.Wait()
		for i, k := range keys {
			if v, ok := cache.Get(k); ok && v != uint64(100+i) {
				r.Fail("C01", fmt.Sprintf("Get(kInt(%d)) returned %d, which was stored under another key", k, v), "default KeyToHash, keys 7, 2^32+7, -7, 2^40, 2^40+7")
			}
		}
		cache.Close()
	}
	r.Emit("keytohash done")
}
