module rvharness

go 1.24.0

require github.com/dgraph-io/ristretto/v2 v2.0.0

require (
	github.com/cespare/xxhash/v2 v2.3.0 // indirect
	github.com/dustin/go-humanize v1.0.1 // indirect
	golang.org/x/sys v0.36.0 // indirect
)

replace github.com/dgraph-io/ristretto/v2 => /repo
