package harness

// Stream "buffer_huge" (C11; direct oracle only): requests larger than the 1 GiB growth cap on
// an mmap-backed buffer (a sparse temporary file: only the touched pages cost anything).

import (
	"fmt"
	"os"

	"github.com/dgraph-io/ristretto/v2/z"
)

func init() { streams["buffer_huge"] = streamBufferHuge }

func streamBufferHuge(r *Run) {
	dir := os.Getenv("VERIF_WORK")
	if dir == "" {
		dir = os.TempDir()
	}
	sizes := []int{1<<30 + 4096, 1<<30 + 1, 1 << 30, 1<<30 - 1}
	for _, n := range sizes {
		r.Cases++
		r.Nontriv++
		func() {
			in := fmt.Sprintf("NewBufferTmp(dir,64); Write(3 bytes); Allocate(%d); touch first/last byte; Write(3 bytes); Bytes()", n)
			defer func() {
				if p := recover(); p != nil {
					r.Fail("C11", fmt.Sprintf("a single request of %d bytes panicked: %v", n, p), in)
				}
			}()
			b, err := z.NewBufferTmp(dir, 64)
			if err != nil {
				r.Fail("*", "NewBufferTmp: "+err.Error(), in)
				return
			}
			defer func() { _ = b.Release() }()
			_, _ = b.Write([]byte{1, 2, 3})
			s := b.Allocate(n)
			if len(s) != n {
				r.Fail("C11", fmt.Sprintf("Allocate(%d) returned %d bytes", n, len(s)), in)
				return
			}
			s[0], s[n-1] = 0xaa, 0xbb
			_, _ = b.Write([]byte{4, 5, 6})
			all := b.Bytes()
			if len(all) != n+6 || all[0] != 1 || all[3] != 0xaa || all[3+n-1] != 0xbb || all[len(all)-1] != 6 {
				r.Fail("C11", fmt.Sprintf("Bytes() after a %d-byte request: len=%d (want %d) or contents differ", n, len(all), n+6), in)
			}
			r.Count("huge_request")
		}()
	}
	r.Emit("buffer_huge done")
}
