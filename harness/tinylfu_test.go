package harness

import (
	"fmt"
	"strings"

	ristretto "github.com/dgraph-io/ristretto/v2"
)

func init() { streams["tinylfu"] = streamTinyLFU }

func tlfuSnap(r *Run, t *ristretto.VerifTinyLFU) {
	d := t.Door().VerifState()
	rows := t.Sketch().Rows()
	parts := make([]string, len(rows))
	for j := range rows {
		parts[j] = hexBytes(rows[j])
	}
	r.Emit("snap %d %d %d %s %s", t.Incrs(), t.ResetAt(), d.ElemNum, hexBytes(d.Bytes), strings.Join(parts, " "))
	r.Count("snap")
}

// streamTinyLFU: C18 on the real tinyLFU (sketch + doorkeeper + reset counter).
//
// Direct oracle (independent of the Lean model), per key of a small universe:
//   - n = recorded accesses since the last reset / clear: min(n,15) <= Estimate <= 16;
//   - an Increment that does not reset lowers no key's estimate;
//   - the reset fires exactly at the resetAt-th Increment since the last reset/clear
//     (own counter), leaves incrs = 0, an all-zero doorkeeper (Has false), and every
//     4-bit counter c at floor(c/2) or floor(min(c+1,15)/2) (the access itself may have
//     bumped it first); an explicit reset() halves exactly; estimates after a reset are
//     within [floor(s/2), floor((s+1)/2)] of the sketch estimate s before;
//   - clear() zeroes everything.
func streamTinyLFU(r *Run) {
	sizes := []int64{2, 3, 4, 5, 6, 7, 8, 9, 12, 16, 17, 20, 31, 32, 33, 40, 64, 100, 128, 257, 1000}
	nCases := 30 * r.Scale
	for c := 0; c < nCases; c++ {
		n := sizes[r.Rng.Intn(len(sizes))]
		t := ristretto.VerifNewTinyLFU(n)
		sk := t.Sketch()
		seeds := sk.Seeds()
		if r.Rng.Intn(4) == 0 {
			for i := range seeds {
				seeds[i] = uint64(r.Rng.Intn(2)) * 0xffffffffffffffff
			}
			sk.SetSeeds(seeds)
		}
		door := t.Door()
		ds := door.VerifState()
		// doorkeeper sizing is float math (not modelled): the model gets the observed (size, locs)
		r.Emit("new %d %d %d %d %d %d %d", n, seeds[0], seeds[1], seeds[2], seeds[3], ds.Size+1, ds.SetLocs)
		r.Emit("door %d %d %d %d", ds.SizeExp, ds.Size, ds.SetLocs, ds.Shift)
		r.Cases++
		desc := fmt.Sprintf("newTinyLFU(%d) seeds=%v", n, seeds)
		if t.ResetAt() != n || t.Incrs() != 0 {
			r.Fail("C18", fmt.Sprintf("fresh tinyLFU has incrs=%d resetAt=%d", t.Incrs(), t.ResetAt()), desc)
		}
		universe := 1 + r.Rng.Intn(12)
		keys := make([]uint64, universe)
		for i := range keys {
			switch r.Rng.Intn(3) {
			case 0:
				keys[i] = uint64(r.Rng.Intn(16))
			case 1:
				keys[i] = bloomHash(r)
			default:
				keys[i] = r.Rng.Uint64()
			}
		}
		hot := keys[r.Rng.Intn(len(keys))]
		counts := map[uint64]int{}
		var myIncrs int64
		var hist []string
		histStr := func() string { return desc + ": " + strings.Join(hist, ";") }
		sawReset, sawSat := false, false
		estAll := func() map[uint64]int64 {
			m := map[uint64]int64{}
			for _, k := range keys {
				m[k] = t.Estimate(k)
			}
			return m
		}
		checkBounds := func(after string) {
			for _, k := range keys {
				e := t.Estimate(k)
				want := counts[k]
				if want > 15 {
					want = 15
				}
				if e < int64(want) || e > 16 || e < 0 {
					r.Fail("C18", fmt.Sprintf("Estimate(%d)=%d after %d recorded accesses since the last reset (after %s)", k, e, counts[k], after), histStr())
					return
				}
				if e >= 15 {
					sawSat = true
				}
			}
		}
		// one Increment with all its oracle checks
		doInc := func(k uint64) {
			before := estAll()
			skBefore := map[uint64]int64{}
			for _, kk := range keys {
				skBefore[kk] = sk.Estimate(kk)
			}
			rowsBefore := sk.Rows()
			willFire := myIncrs+1 == t.ResetAt()
			t.Increment(k)
			hist = append(hist, fmt.Sprintf("inc %d", k))
			r.Count("inc")
			if willFire {
				myIncrs = 0
				sawReset = true
				r.Count("inc_triggering_reset")
				if t.Incrs() != 0 {
					r.Fail("C18", fmt.Sprintf("the %d-th increment since the last reset did not reset (incrs=%d, resetAt=%d)", t.ResetAt(), t.Incrs(), t.ResetAt()), histStr())
					return
				}
				for _, b := range door.VerifState().Bytes {
					if b != 0 {
						r.Fail("C18", "aging reset left doorkeeper bits set", histStr())
						return
					}
				}
				rowsAfter := sk.Rows()
				for i := range rowsAfter {
					for j := range rowsAfter[i] {
						for _, sh := range []uint{0, 4} {
							b := (rowsBefore[i][j] >> sh) & 15
							a := (rowsAfter[i][j] >> sh) & 15
							b1 := b + 1
							if b1 > 15 {
								b1 = 15
							}
							if a != b/2 && a != b1/2 {
								r.Fail("C18", fmt.Sprintf("aging reset: counter row %d index %d went from %d to %d (not halved)", i, 2*j+int(sh/4), b, a), histStr())
								return
							}
						}
					}
				}
				for _, kk := range keys {
					e := t.Estimate(kk)
					if e < skBefore[kk]/2 || e > (skBefore[kk]+1)/2 {
						r.Fail("C18", fmt.Sprintf("after the aging reset Estimate(%d)=%d, sketch estimate before was %d", kk, e, skBefore[kk]), histStr())
						return
					}
				}
				for kk := range counts {
					delete(counts, kk)
				}
			} else {
				myIncrs++
				counts[k]++
				if t.Incrs() != myIncrs {
					r.Fail("C18", fmt.Sprintf("incrs=%d after %d increments since the last reset (resetAt=%d): reset fired early or counter wrong", t.Incrs(), myIncrs, t.ResetAt()), histStr())
					return
				}
				for _, kk := range keys {
					if a := t.Estimate(kk); a < before[kk] {
						r.Fail("C18", fmt.Sprintf("Increment(%d) lowered Estimate(%d) from %d to %d without a reset", k, kk, before[kk], a), histStr())
						return
					}
				}
				if a := t.Estimate(k); a < before[k]+1 && a < 16 {
					r.Fail("C18", fmt.Sprintf("Increment(%d) did not raise its estimate (%d -> %d)", k, before[k], a), histStr())
					return
				}
			}
			checkBounds("increment")
		}
		ops := 40 + r.Rng.Intn(300)
		for i := 0; i < ops; i++ {
			k := keys[r.Rng.Intn(len(keys))]
			if r.Rng.Intn(3) == 0 {
				k = hot
			}
			switch x := r.Rng.Intn(100); {
			case x < 55:
				r.Emit("inc %d", k)
				doInc(k)
			case x < 65:
				m := 1 + r.Rng.Intn(6)
				ks := make([]uint64, m)
				strs := make([]string, m)
				for j := range ks {
					ks[j] = keys[r.Rng.Intn(len(keys))]
					if r.Rng.Intn(2) == 0 {
						ks[j] = hot
					}
					strs[j] = fmt.Sprint(ks[j])
				}
				r.Emit("push %s", strings.Join(strs, " "))
				r.Count("push")
				// Push is a loop of Increment; the oracle checks each element through a clone-free
				// route: apply them one by one via Increment on the same object (Push itself is
				// exercised separately below so that both entry points are covered).
				if r.Rng.Intn(2) == 0 {
					for _, kk := range ks {
						doInc(kk)
					}
				} else {
					for _, kk := range ks { // predict the counter, then call the real Push
						if myIncrs+1 == t.ResetAt() {
							myIncrs = 0
							sawReset = true
							for q := range counts {
								delete(counts, q)
							}
						} else {
							myIncrs++
							counts[kk]++
						}
						hist = append(hist, fmt.Sprintf("inc %d", kk))
					}
					t.Push(ks)
					if t.Incrs() != myIncrs {
						r.Fail("C18", fmt.Sprintf("after Push incrs=%d, expected %d (resetAt=%d)", t.Incrs(), myIncrs, t.ResetAt()), histStr())
					}
					checkBounds("push")
				}
			case x < 92:
				e := t.Estimate(k)
				r.Emit("est %d %d", k, e)
				r.Count("est")
			case x < 97:
				skBefore := map[uint64]int64{}
				for _, kk := range keys {
					skBefore[kk] = sk.Estimate(kk)
				}
				t.Reset()
				r.Emit("reset")
				r.Count("reset_explicit")
				hist = append(hist, "reset")
				myIncrs = 0
				for kk := range counts {
					delete(counts, kk)
				}
				if t.Incrs() != 0 {
					r.Fail("C18", "reset() left incrs != 0", histStr())
				}
				for _, kk := range keys {
					if e := t.Estimate(kk); e != skBefore[kk]/2 {
						r.Fail("C18", fmt.Sprintf("reset(): Estimate(%d)=%d, sketch estimate before was %d (doorkeeper not emptied or counters not halved)", kk, e, skBefore[kk]), histStr())
						break
					}
				}
			default:
				t.Clear()
				r.Emit("clear")
				r.Count("clear")
				hist = append(hist, "clear")
				myIncrs = 0
				for kk := range counts {
					delete(counts, kk)
				}
				if t.Incrs() != 0 {
					r.Fail("C18", "clear() left incrs != 0", histStr())
				}
				for _, kk := range keys {
					if e := t.Estimate(kk); e != 0 {
						r.Fail("C18", fmt.Sprintf("clear(): Estimate(%d)=%d", kk, e), histStr())
						break
					}
				}
			}
			if i%29 == 0 || i == ops-1 {
				tlfuSnap(r, t)
			}
		}
		if sawReset {
			r.Nontriv++
			r.Count("case_with_periodic_reset")
		}
		if sawSat {
			r.Count("case_with_saturation")
		}
		if c < 2 {
			r.Sample(histStr())
		}
	}
}
