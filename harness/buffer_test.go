package harness

import (
	"bytes"
	"encoding/binary"
	"fmt"
	"os"
	"sort"
	"strings"

	"github.com/dgraph-io/ristretto/v2/z"
)

func init() { streams["buffer"] = streamBuffer }

// streamBuffer (property C11) drives real z.Buffer objects.
//
// Part 1, histories: random sequences of Write / WriteSlice / SliceAllocate /
// Allocate / AllocateOffset / Reset on buffers in all three modes (NewBuffer =
// calloc, NewBufferTmp = mmap, NewBuffer + WithAutoMmap with a threshold just
// above the initial capacity), initial capacities below and above the default
// of 64, lengths including 0 and larger than the capacity, optionally a
// WithMaxSize limit close to what is going to be written.  After every call
// the trace has the call, its result and the size bookkeeping (LenNoPadding,
// curSz, mode); periodically a dump of Bytes() and walks with Slice /
// SliceIterate / SliceOffsets.
//
// Part 2, sorter: buffers with 0,1,2,...,1023,1024,1025,...,5000 slices sorted
// with SortSlice / SortSliceBetween under several comparison functions.
//
// Direct oracle (independent of the Lean model): a reference []byte and
// [][]byte kept by the harness; Bytes() must equal the reference after every
// call; the walkers must yield exactly the reference slices; a sort must leave
// a permutation of the slices of the range, ordered by less, and must not
// touch anything else; the written length never exceeds a positive MaxSize and
// the call that would exceed it panics and changes nothing.
func streamBuffer(r *Run) {
	base := os.Getenv("VERIF_WORK")
	if base == "" {
		base = os.TempDir()
	}
	dir, err := os.MkdirTemp(base, "verifbuffer")
	if err != nil {
		r.Fail("*", "cannot create temp dir: "+err.Error(), base)
		return
	}
	defer os.RemoveAll(dir)
	h := &bufHarness{r: r, dir: dir}
	nCases := 18 * r.Scale
	for c := 0; c < nCases; c++ {
		h.history(c)
	}
	h.sorter()
}

const bufPadding = 8

type bufHarness struct {
	r   *Run
	dir string

	// current buffer and its reference
	b       *z.Buffer
	desc    string   // how the buffer was made
	hist    []string // readable history (for failure reports)
	ref     []byte   // expected Bytes()
	slices  [][]byte // expected slices (valid while sliceOnly)
	offs    []int    // expected offset of each slice
	onlySl  bool     // only length-prefixed writes since the last Reset
	maxSz   int
	stopped bool // a failure was reported for this buffer
	quiet   int  // >0: log the bookkeeping only every quiet-th call (sorter set-up); the oracle still runs every time
	nState  int
}

func fnv64(parts ...[]byte) uint64 {
	h := uint64(14695981039346656037)
	for _, p := range parts {
		for _, c := range p {
			h ^= uint64(c)
			h *= 1099511628211
		}
	}
	return h
}

func be8(n int) []byte {
	var x [8]byte
	binary.BigEndian.PutUint64(x[:], uint64(n))
	return x[:]
}

func modeName(t z.BufferType) string {
	switch t {
	case z.UseCalloc:
		return "calloc"
	case z.UseMmap:
		return "mmap"
	}
	return "invalid"
}

func (h *bufHarness) input() string {
	s := h.desc + ": " + strings.Join(h.hist, ";")
	return s
}

func (h *bufHarness) fail(what string) {
	h.r.Fail("C11", what, h.input())
	h.stopped = true
}

// call runs f, converting a panic into a result token.
func bufCall(f func()) (res string) {
	defer func() {
		if p := recover(); p != nil {
			msg := fmt.Sprint(p)
			switch {
			case strings.Contains(msg, "max size exceeded"):
				res = "panic:maxsize"
			case strings.Contains(msg, "start can never be zero"):
				res = "panic:startzero"
			default:
				msg = strings.Map(func(c rune) rune {
					if c == ' ' || c == '\n' || c == '\t' {
						return '_'
					}
					return c
				}, msg)
				if len(msg) > 80 {
					msg = msg[:80]
				}
				res = "panic:other:" + msg
			}
		}
	}()
	f()
	return "ok"
}

func (h *bufHarness) newBuffer(kind string, capacity, thr, maxSz int) bool {
	r := h.r
	h.hist = nil
	h.ref = nil
	h.slices = nil
	h.offs = nil
	h.onlySl = true
	h.stopped = false
	h.maxSz = maxSz
	h.desc = fmt.Sprintf("new %s cap=%d autoMmapAfter=%d maxSz=%d", kind, capacity, thr, maxSz)
	switch kind {
	case "calloc":
		h.b = z.NewBuffer(capacity, "verif")
	case "auto":
		h.b = z.NewBuffer(capacity, "verif").WithAutoMmap(thr, h.dir)
	case "mmap":
		b, err := z.NewBufferTmp(h.dir, capacity)
		if err != nil {
			r.Fail("*", "NewBufferTmp: "+err.Error(), h.desc)
			return false
		}
		h.b = b
	}
	if maxSz != 0 {
		h.b = h.b.WithMaxSize(maxSz)
	}
	r.Emit("new %s %d %d %d", kind, capacity, thr, maxSz)
	r.Count("new_" + kind)
	h.state()
	return true
}

func (h *bufHarness) release() {
	if h.b != nil {
		if err := h.b.Release(); err != nil {
			h.r.Fail("*", "Release: "+err.Error(), h.desc)
		}
		h.b = nil
	}
}

// state logs the bookkeeping and checks the reference.
func (h *bufHarness) state() {
	st := h.b.VerifState()
	h.nState++
	if h.quiet <= 1 || h.nState%h.quiet == 0 {
		h.r.Emit("st %d %d %s", h.b.LenNoPadding(), st.CurSz, modeName(st.BufType))
	}
	if h.stopped {
		return
	}
	if got := h.b.Bytes(); !bytes.Equal(got, h.ref) {
		i := 0
		for i < len(got) && i < len(h.ref) && got[i] == h.ref[i] {
			i++
		}
		h.fail(fmt.Sprintf("Bytes() differs from what was written (len %d, expected %d, first difference at byte %d)", len(got), len(h.ref), i))
		return
	}
	if h.b.LenNoPadding() != len(h.ref) || h.b.LenWithPadding() != len(h.ref)+bufPadding {
		h.fail(fmt.Sprintf("LenNoPadding=%d LenWithPadding=%d, expected %d written bytes", h.b.LenNoPadding(), h.b.LenWithPadding(), len(h.ref)))
		return
	}
	if h.maxSz > 0 && h.b.LenWithPadding() > h.maxSz && h.b.LenWithPadding() > bufPadding {
		h.fail(fmt.Sprintf("written length %d exceeds MaxSize %d", h.b.LenWithPadding(), h.maxSz))
		return
	}
	if st.CurSz != st.BufLen || int(st.Offset) > st.CurSz {
		h.fail(fmt.Sprintf("bookkeeping: offset=%d curSz=%d len(buf)=%d", st.Offset, st.CurSz, st.BufLen))
	}
}

// dump logs Bytes(): in full when small, hashed otherwise.
func (h *bufHarness) dump() {
	got := h.b.Bytes()
	if len(got) <= 400 {
		h.r.Emit("bytes %s", hexBytes(got))
	} else {
		h.r.Emit("bytesh %d %d", len(got), fnv64(got))
	}
	h.r.Count("dump")
}

// op applies one write operation.  kind: write wslice salloc alloc aoff.
func (h *bufHarness) op(kind string, p []byte) {
	r := h.r
	n := len(p)
	need := n
	if kind == "wslice" || kind == "salloc" {
		need = n + 8
	}
	before := h.b.LenWithPadding()
	stBefore := h.b.VerifState()
	extra := ""
	res := bufCall(func() {
		switch kind {
		case "write":
			k, err := h.b.Write(p)
			if err != nil {
				panic("Write returned error " + err.Error())
			}
			extra = fmt.Sprintf("n=%d", k)
			if k != n {
				h.fail(fmt.Sprintf("Write of %d bytes returned %d", n, k))
			}
		case "wslice":
			h.b.WriteSlice(p)
		case "salloc":
			dst := h.b.SliceAllocate(n)
			if len(dst) != n {
				h.fail(fmt.Sprintf("SliceAllocate(%d) returned %d bytes", n, len(dst)))
			}
			copy(dst, p)
			extra = fmt.Sprintf("off=%d", h.b.LenWithPadding()-len(dst))
		case "alloc":
			dst := h.b.Allocate(n)
			if len(dst) != n {
				h.fail(fmt.Sprintf("Allocate(%d) returned %d bytes", n, len(dst)))
			}
			copy(dst, p)
			extra = fmt.Sprintf("off=%d", h.b.LenWithPadding()-len(dst))
		case "aoff":
			off := h.b.AllocateOffset(n)
			copy(h.b.Data(off)[:n], p)
			extra = fmt.Sprintf("off=%d", off)
			if off != before {
				h.fail(fmt.Sprintf("AllocateOffset(%d) returned %d, the written length was %d", n, off, before))
			}
		}
	})
	if res == "ok" && extra != "" {
		res = extra
	}
	r.Emit("%s %s %s", kind, hexBytes(p), res)
	r.Count(kind)
	if len(h.hist) < 400 {
		if n <= 24 {
			h.hist = append(h.hist, fmt.Sprintf("%s(%s)=%s", kind, hexBytes(p), res))
		} else {
			h.hist = append(h.hist, fmt.Sprintf("%s(len=%d,fnv=%d)=%s", kind, n, fnv64(p), res))
		}
	}
	mustPanic := h.maxSz > 0 && before+need > h.maxSz
	switch {
	case strings.HasPrefix(res, "panic:maxsize"):
		r.Count("panic_maxsize")
		if !mustPanic {
			h.fail(fmt.Sprintf("%s of %d bytes panicked with max size exceeded although %d+%d <= MaxSize %d", kind, n, before, need, h.maxSz))
		}
		if st := h.b.VerifState(); st != stBefore {
			h.fail(fmt.Sprintf("the refused %s changed the buffer: %+v -> %+v", kind, stBefore, st))
		}
	case strings.HasPrefix(res, "panic:"):
		h.fail(fmt.Sprintf("%s of %d bytes panicked: %s", kind, n, res))
	default:
		if mustPanic {
			h.fail(fmt.Sprintf("%s of %d bytes was accepted although %d+%d > MaxSize %d", kind, n, before, need, h.maxSz))
		}
		switch kind {
		case "wslice", "salloc":
			h.offs = append(h.offs, bufPadding+len(h.ref))
			h.slices = append(h.slices, p)
			h.ref = append(h.ref, be8(n)...)
			h.ref = append(h.ref, p...)
		default:
			h.ref = append(h.ref, p...)
			h.onlySl = false
		}
	}
	if stBefore.CurSz != h.b.VerifState().CurSz {
		r.Count("grow_" + modeName(stBefore.BufType) + "_to_" + modeName(h.b.VerifState().BufType))
	}
	h.state()
}

func (h *bufHarness) reset() {
	h.b.Reset()
	h.r.Emit("reset")
	h.r.Count("reset")
	h.hist = append(h.hist, "reset")
	h.ref = h.ref[:0]
	h.slices = nil
	h.offs = nil
	h.onlySl = true
	h.state()
}

// walks: Slice / SliceIterate / SliceOffsets against the reference slices.
func (h *bufHarness) walks(probes int) {
	if !h.onlySl || h.stopped {
		return
	}
	r := h.r
	// SliceIterate
	var got [][]byte
	res := bufCall(func() {
		err := h.b.SliceIterate(func(s []byte) error {
			got = append(got, append([]byte{}, s...))
			return nil
		})
		if err != nil {
			panic("SliceIterate returned " + err.Error())
		}
	})
	if res != "ok" {
		r.Emit("iter %s", res)
		h.fail("SliceIterate panicked: " + res)
		return
	}
	total := 0
	for _, s := range got {
		total += len(s)
	}
	if total <= 300 && len(got) <= 40 {
		parts := make([]string, len(got))
		for i, s := range got {
			parts[i] = hexBytes(s)
		}
		r.Emit("iter %d %s", len(got), strings.Join(parts, " "))
	} else {
		hh := uint64(14695981039346656037)
		for _, s := range got {
			for _, part := range [][]byte{be8(len(s)), s} {
				for _, c := range part {
					hh ^= uint64(c)
					hh *= 1099511628211
				}
			}
		}
		r.Emit("iterh %d %d", len(got), hh)
	}
	r.Count("iter")
	var want [][]byte
	for _, s := range h.slices {
		if len(s) > 0 {
			want = append(want, s)
		}
	}
	if len(got) != len(want) {
		h.fail(fmt.Sprintf("SliceIterate yielded %d slices, %d non-empty slices were written", len(got), len(want)))
		return
	}
	for i := range got {
		if !bytes.Equal(got[i], want[i]) {
			h.fail(fmt.Sprintf("SliceIterate: slice %d is %s, written %s", i, hexBytes(got[i]), hexBytes(want[i])))
			return
		}
	}
	// SliceOffsets
	var offs []int
	res = bufCall(func() { offs = h.b.SliceOffsets() })
	if res != "ok" {
		r.Emit("offs %s", res)
		h.fail("SliceOffsets panicked: " + res)
		return
	}
	if len(offs) <= 60 {
		parts := make([]string, len(offs))
		for i, o := range offs {
			parts[i] = fmt.Sprint(o)
		}
		r.Emit("offs %d %s", len(offs), strings.Join(parts, " "))
	} else {
		hh := uint64(14695981039346656037)
		for _, o := range offs {
			for _, c := range be8(o) {
				hh ^= uint64(c)
				hh *= 1099511628211
			}
		}
		r.Emit("offsh %d %d", len(offs), hh)
	}
	r.Count("offs")
	wantOffs := h.offs
	if len(h.slices) == 0 {
		// Observation (reported, not a C11 violation): on an empty buffer SliceOffsets
		// returns the start offset although no slice was written.
		wantOffs = []int{bufPadding}
		r.Count("offs_on_empty_buffer")
	}
	if len(offs) != len(wantOffs) {
		h.fail(fmt.Sprintf("SliceOffsets returned %d offsets for %d written slices", len(offs), len(h.slices)))
		return
	}
	for i := range offs {
		if offs[i] != wantOffs[i] {
			h.fail(fmt.Sprintf("SliceOffsets[%d]=%d, the slice was written at %d", i, offs[i], wantOffs[i]))
			return
		}
	}
	// Slice at a few written offsets (always the first and the last) and at / beyond the end
	idx := []int{}
	if len(h.slices) > 0 {
		idx = append(idx, 0, len(h.slices)-1)
		for i := 0; i < probes; i++ {
			idx = append(idx, r.Rng.Intn(len(h.slices)))
		}
	}
	for _, i := range idx {
		var s []byte
		var next int
		off := h.offs[i]
		res = bufCall(func() { s, next = h.b.Slice(off) })
		if res != "ok" {
			r.Emit("slice %d %s", off, res)
			h.fail(fmt.Sprintf("Slice(%d) panicked: %s", off, res))
			return
		}
		if len(s) <= 64 {
			r.Emit("slice %d %s %d", off, hexBytes(s), next)
		} else {
			r.Emit("sliceh %d %d %d %d", off, len(s), fnv64(s), next)
		}
		r.Count("slice")
		wantNext := -1
		if i+1 < len(h.slices) {
			wantNext = h.offs[i+1]
		}
		if !bytes.Equal(s, h.slices[i]) || next != wantNext {
			h.fail(fmt.Sprintf("Slice(%d) = (%s, %d), written slice %d is %s and the next offset is %d", off, hexBytes(s), next, i, hexBytes(h.slices[i]), wantNext))
			return
		}
	}
	for _, off := range []int{h.b.LenWithPadding(), h.b.LenWithPadding() + 1 + r.Rng.Intn(100)} {
		var s []byte
		var next int
		res = bufCall(func() { s, next = h.b.Slice(off) })
		if res != "ok" {
			r.Emit("slice %d %s", off, res)
			h.fail(fmt.Sprintf("Slice(%d) at/after the end panicked: %s", off, res))
			return
		}
		r.Emit("slice %d %s %d", off, hexBytes(s), next)
		if len(s) != 0 || next != -1 {
			h.fail(fmt.Sprintf("Slice(%d) at/after the written length %d returned (%s,%d)", off, h.b.LenWithPadding(), hexBytes(s), next))
			return
		}
	}
}

func (h *bufHarness) randBytes(n int) []byte {
	p := make([]byte, n)
	for i := range p {
		if h.r.Rng.Intn(4) == 0 {
			p[i] = byte(h.r.Rng.Intn(256))
		} else {
			p[i] = byte(h.r.Rng.Intn(4))
		}
	}
	return p
}

// history: one buffer, one random history.
func (h *bufHarness) history(c int) {
	r := h.r
	caps := []int{0, 1, 8, 16, 40, 63, 64, 65, 100, 128, 250, 1000, 4096}
	capacity := caps[r.Rng.Intn(len(caps))]
	eff := capacity
	if eff < 64 {
		eff = 64
	}
	kind := []string{"calloc", "mmap", "auto"}[c%3]
	thr := 0
	if kind == "auto" {
		thr = eff + []int{0, 1, 2, 10, 64, eff, 2 * eff, 2*eff + 70}[r.Rng.Intn(8)]
	}
	maxSz := 0
	switch r.Rng.Intn(10) {
	case 0, 1, 2:
		maxSz = bufPadding + 1 + r.Rng.Intn(700)
	case 3:
		maxSz = 1 + r.Rng.Intn(bufPadding+2) // at or below the padding: nothing fits
	}
	fmt.Fprintf(os.Stderr, "buffer: history %d %s cap=%d thr=%d maxSz=%d\n", c, kind, capacity, thr, maxSz)
	if !h.newBuffer(kind, capacity, thr, maxSz) {
		return
	}
	defer h.release()
	r.Cases++
	grew, switched, refused := false, false, false
	nOps := 15 + r.Rng.Intn(90)
	// regime of the current epoch: 0 slices only, 1 raw only, 2 mixed
	regime := []int{0, 0, 0, 1, 2}[r.Rng.Intn(5)]
	total := 0
	for i := 0; i < nOps && !h.stopped; i++ {
		if r.Rng.Intn(40) == 0 {
			h.reset()
			regime = []int{0, 0, 0, 1, 2}[r.Rng.Intn(5)]
			continue
		}
		st := h.b.VerifState()
		var n int
		switch x := r.Rng.Intn(100); {
		case x < 14:
			n = 0
		case x < 60:
			n = 1 + r.Rng.Intn(16)
		case x < 84:
			n = 17 + r.Rng.Intn(200)
		case x < 92: // exactly up to / just beyond the capacity
			n = st.CurSz - int(st.Offset) + r.Rng.Intn(19) - 9
		default: // larger than the whole capacity
			n = st.CurSz + r.Rng.Intn(st.CurSz+1)
		}
		var kinds []string
		switch regime {
		case 0:
			kinds = []string{"wslice", "wslice", "salloc"}
		case 1:
			kinds = []string{"write", "write", "alloc", "aoff"}
		default:
			kinds = []string{"write", "wslice", "salloc", "alloc", "aoff"}
		}
		kind := kinds[r.Rng.Intn(len(kinds))]
		pre := 0
		if kind == "wslice" || kind == "salloc" {
			pre = 8
		}
		if h.maxSz > 0 && r.Rng.Intn(3) == 0 { // aim at the limit: exactly reaching it, or one beyond
			n = h.maxSz - int(st.Offset) - pre + r.Rng.Intn(3) - 1
		}
		if n < 0 {
			n = 0
		}
		if total+n > 150000 {
			n = r.Rng.Intn(8)
		}
		total += n + pre
		before := h.b.VerifState()
		h.op(kind, h.randBytes(n))
		after := h.b.VerifState()
		if after.CurSz != before.CurSz {
			grew = true
		}
		if after.BufType != before.BufType {
			switched = true
		}
		if len(h.hist) > 0 && strings.HasSuffix(h.hist[len(h.hist)-1], "panic:maxsize") {
			refused = true
		}
		if i%11 == 10 || i == nOps-1 {
			h.dump()
			h.walks(2)
		}
	}
	h.dump() // also after an oracle failure: the validator must see the bytes too
	if !h.stopped {
		h.walks(3)
	}
	if grew {
		r.Count("case_with_growth")
	}
	if switched {
		r.Count("case_with_calloc_to_mmap_switch")
	}
	if refused {
		r.Count("case_with_maxsize_refusal")
	}
	if grew {
		r.Nontriv++
	}
	if c < 2 {
		r.Sample(h.input())
	}
}

// ---------------------------------------------------------------- sorter

type bufLess struct {
	name string
	f    func(a, b []byte) bool
}

func lastKey(a []byte) int {
	if len(a) == 0 {
		return -1
	}
	return int(a[len(a)-1])
}

var bufLesses = []bufLess{
	{"bytes", func(a, b []byte) bool { return bytes.Compare(a, b) < 0 }},
	{"len", func(a, b []byte) bool { return len(a) < len(b) }},
	{"last", func(a, b []byte) bool { return lastKey(a) < lastKey(b) }},
	{"false", func(a, b []byte) bool { return false }},
	{"rev", func(a, b []byte) bool { return bytes.Compare(a, b) > 0 }},
}

func (h *bufHarness) sorter() {
	r := h.r
	// 0 and 1 come last on purpose: a broken chunking of a single slice ends in
	// log.Fatal (assert), which kills the process; the larger counts report first.
	// Quick (scale < 4): every count once, the comparison function rotating with the seed;
	// thorough: the full cross product, 5000 and more counts around the chunk boundaries.
	counts := []int{2, 3, 17, 1023, 1024, 1025, 2047, 2048, 2049, 1, 0}
	if r.Scale >= 4 {
		counts = []int{2, 3, 17, 500, 1023, 1024, 1025, 2047, 2048, 2049, 3071, 3072, 3073, 4096, 4097, 5000, 7777, 1, 0}
	}
	for ci, n := range counts {
		for li, ls := range bufLesses {
			if r.Scale < 4 && (ci+int(r.Seed))%len(bufLesses) != li {
				continue
			}
			if n >= 4096 && (ci+int(r.Seed))%len(bufLesses) != li && (ci+int(r.Seed)+2)%len(bufLesses) != li {
				continue // the largest buffers: two comparison functions each
			}
			if h.sortCase(n, ls, (ci+li)%3, (ci*len(bufLesses)+li+int(r.Seed))%4) {
				return // a failure was reported; the remaining cases would only repeat it
			}
		}
	}
	// three or more 1024-slice chunks (a merged run is merged again) under comparison functions
	// with many ties between slices of DIFFERENT length: whatever the seed, also in the quick tier
	if r.Scale < 4 {
		// four or five chunks: the run merged from the first two is itself a LEFT run at the top
		for rep := 0; rep < 2; rep++ { // "last": ties between slices of different lengths
			if h.sortCase(3100+(int(r.Seed)*7+rep*517)%1900, bufLesses[2], (int(r.Seed)+rep)%3, 4*(rep%2)) {
				return
			}
		}
		if h.sortCase(2100+int(r.Seed)%900, bufLesses[1+int(r.Seed)%2*2], (int(r.Seed)+1)%3, 3*(int(r.Seed)%2)) { // "len" / "false"
			return
		}
	}
	// many small random cases, sub-ranges, repeated sorts
	for i := 0; i < 10*r.Scale; i++ {
		n := r.Rng.Intn(40)
		if r.Scale >= 4 && r.Rng.Intn(6) == 0 {
			n = 1000 + r.Rng.Intn(1200)
		}
		if h.sortCase(n, bufLesses[r.Rng.Intn(len(bufLesses))], r.Rng.Intn(3), r.Rng.Intn(4)) {
			return
		}
	}
}

// sortCase builds a buffer with n slices and sorts it (whole, then sub-ranges with
// other comparison functions).  gen: 4 four byte values only (all run maxima tie), 0 tie-rich small alphabet, 1 distinct
// slices (no ties under "bytes"/"rev"), 2 fixed 4-byte keys, 3 many empty slices.
// Returns true when a failure was reported.
func (h *bufHarness) sortCase(n int, ls bufLess, kindIdx, gen int) bool {
	r := h.r
	kind := []string{"calloc", "mmap", "auto"}[kindIdx]
	capacity := []int{0, 64, 1000, 1 << 16}[r.Rng.Intn(4)]
	thr := 0
	if kind == "auto" {
		thr = 64 + r.Rng.Intn(5000)
	}
	fmt.Fprintf(os.Stderr, "buffer: sort case n=%d less=%s %s cap=%d thr=%d gen=%d\n", n, ls.name, kind, capacity, thr, gen)
	if !h.newBuffer(kind, capacity, thr, 0) {
		return true
	}
	defer h.release()
	r.Cases++
	h.desc += fmt.Sprintf(" sorter n=%d gen=%d", n, gen)
	perm := r.Rng.Perm(n)
	h.quiet = 64
	defer func() { h.quiet = 0 }()
	for i := 0; i < n && !h.stopped; i++ {
		var p []byte
		switch gen {
		case 0:
			p = h.randBytes(r.Rng.Intn(7))
		case 1:
			p = []byte{byte(perm[i] >> 8), byte(perm[i])}
			p = append(p, h.randBytes(r.Rng.Intn(5))...)
			if r.Rng.Intn(2) == 0 { // same key bytes at the end too, different lengths
				p = append(p, byte(perm[i]))
			}
		case 4: // four byte values only: under "last"/"len" every run maximum ties with the next run's
			p = make([]byte, 1+r.Rng.Intn(6))
			for j := range p {
				p[j] = byte(r.Rng.Intn(4))
			}
		case 2:
			p = make([]byte, 4)
			binary.BigEndian.PutUint32(p, uint32(r.Rng.Intn(3*n+1)))
		default:
			if r.Rng.Intn(2) == 0 {
				p = h.randBytes(1 + r.Rng.Intn(3))
			}
		}
		if i%5 == 4 {
			h.op("salloc", p)
		} else {
			h.op("wslice", p)
		}
	}
	h.quiet = 0
	if h.stopped {
		return true
	}
	h.state()
	h.dump()
	if n > 1024 {
		r.Nontriv++
	}
	if h.sortRange(ls, bufPadding, h.b.LenWithPadding(), true) {
		return true
	}
	h.walks(2)
	if h.stopped {
		return true
	}
	// sub-ranges on slice boundaries with other comparison functions
	for k := 0; k < 3 && n > 0; k++ {
		i := r.Rng.Intn(n + 1)
		j := r.Rng.Intn(n + 1)
		if k == 2 { // empty or inverted range: no-op
			if i < j {
				i, j = j, i
			}
		} else if i > j {
			i, j = j, i
		}
		bound := func(x int) int {
			if x == n {
				return h.b.LenWithPadding()
			}
			return h.offs[x]
		}
		if h.sortRange(bufLesses[r.Rng.Intn(len(bufLesses))], bound(i), bound(j), false) {
			return true
		}
	}
	if n > 0 && r.Rng.Intn(4) == 0 { // start == 0 is refused
		res := bufCall(func() { h.b.SortSliceBetween(0, h.b.LenWithPadding(), ls.f) })
		r.Emit("sort %s 0 %d %s -", ls.name, h.b.LenWithPadding(), res)
		h.hist = append(h.hist, fmt.Sprintf("SortSliceBetween(0,%d,%s)=%s", h.b.LenWithPadding(), ls.name, res))
		if res != "panic:startzero" {
			h.fail("SortSliceBetween(0, end) did not panic with 'start can never be zero': " + res)
			return true
		}
		h.state()
	}
	h.walks(1)
	return h.stopped
}

// sortRange sorts [start,end) (slice boundaries) and checks the result.
func (h *bufHarness) sortRange(ls bufLess, start, end int, whole bool) bool {
	r := h.r
	// the slices inside the range
	lo, hi := len(h.slices), len(h.slices)
	for i, o := range h.offs {
		if o >= start && lo == len(h.slices) {
			lo = i
		}
		if o >= end {
			hi = i
			break
		}
	}
	if start >= end {
		lo, hi = 0, 0
	}
	// (a failed assert inside the sorter is log.Fatal: leave the call on stderr for the crash report)
	fmt.Fprintf(os.Stderr, "buffer:   SortSliceBetween(%d,%d,%s) on %d slices, %d in range\n", start, end, ls.name, len(h.slices), hi-lo)
	res := bufCall(func() {
		if whole {
			h.b.SortSlice(ls.f)
		} else {
			h.b.SortSliceBetween(start, end, ls.f)
		}
	})
	h.hist = append(h.hist, fmt.Sprintf("SortSliceBetween(%d,%d,%s)=%s", start, end, ls.name, res))
	got := h.b.Bytes()
	// the sorted range is needed in full: with ties the order is not determined by the model
	rng := []byte{}
	if start < end && start >= bufPadding && end-bufPadding <= len(got) {
		rng = got[start-bufPadding : end-bufPadding]
	}
	r.Emit("sort %s %d %d %s %s", ls.name, start, end, res, hexBytes(rng))
	r.Count("sort_" + ls.name)
	if res != "ok" {
		h.fail(fmt.Sprintf("SortSliceBetween(%d,%d,%s) panicked: %s", start, end, ls.name, res))
		return true
	}
	if len(got) != len(h.ref) {
		h.fail(fmt.Sprintf("sort changed the written length from %d to %d", len(h.ref), len(got)))
		return true
	}
	if start < end {
		if !bytes.Equal(got[:start-bufPadding], h.ref[:start-bufPadding]) || !bytes.Equal(got[end-bufPadding:], h.ref[end-bufPadding:]) {
			h.fail(fmt.Sprintf("SortSliceBetween(%d,%d,%s) changed bytes outside the range", start, end, ls.name))
			return true
		}
		// decode the range
		var out [][]byte
		pos := start - bufPadding
		for pos < end-bufPadding {
			if pos+8 > len(got) {
				h.fail(fmt.Sprintf("after sort the range [%d,%d) is not a sequence of length-prefixed slices", start, end))
				return true
			}
			sz := int(binary.BigEndian.Uint64(got[pos:]))
			if sz < 0 || pos+8+sz > end-bufPadding {
				h.fail(fmt.Sprintf("after sort the range [%d,%d) is not a sequence of length-prefixed slices (length %d at %d)", start, end, sz, pos+bufPadding))
				return true
			}
			out = append(out, append([]byte{}, got[pos+8:pos+8+sz]...))
			pos += 8 + sz
		}
		in := h.slices[lo:hi]
		if len(out) != len(in) {
			h.fail(fmt.Sprintf("sort of %d slices left %d slices", len(in), len(out)))
			return true
		}
		// ordered by less: no later element is less than an earlier one (adjacent pairs
		// suffice for a strict weak order; small ranges are checked pairwise)
		for i := 0; i+1 < len(out); i++ {
			if ls.f(out[i+1], out[i]) {
				h.fail(fmt.Sprintf("after SortSliceBetween(%d,%d,%s) slice %d (%s) is less than its predecessor (%s); input slices: %s", start, end, ls.name, i+1, hexBytes(out[i+1]), hexBytes(out[i]), hexList(in, 40)))
				return true
			}
		}
		if len(out) <= 60 {
			for i := range out {
				for j := i + 1; j < len(out); j++ {
					if ls.f(out[j], out[i]) {
						h.fail(fmt.Sprintf("after sort(%s) slice %d is less than slice %d; input slices: %s", ls.name, j, i, hexList(in, 40)))
						return true
					}
				}
			}
		}
		// same multiset
		a := make([]string, len(in))
		b := make([]string, len(out))
		for i := range in {
			a[i] = string(in[i])
			b[i] = string(out[i])
		}
		sort.Strings(a)
		sort.Strings(b)
		for i := range a {
			if a[i] != b[i] {
				h.fail(fmt.Sprintf("after SortSliceBetween(%d,%d,%s) the slices are not a permutation of the input; input slices: %s", start, end, ls.name, hexList(in, 40)))
				return true
			}
		}
		// adopt the new order as the reference
		for i := range out {
			h.slices[lo+i] = out[i]
		}
		o := start
		for i := range out {
			h.offs[lo+i] = o
			o += 8 + len(out[i])
		}
		h.ref = append(h.ref[:0], got...)
	} else if !bytes.Equal(got, h.ref) {
		h.fail(fmt.Sprintf("SortSliceBetween(%d,%d,%s) with an empty range changed the buffer", start, end, ls.name))
		return true
	}
	h.state()
	return h.stopped
}

func hexList(ss [][]byte, max int) string {
	parts := []string{}
	for i, s := range ss {
		if i >= max {
			parts = append(parts, fmt.Sprintf("…(%d more)", len(ss)-max))
			break
		}
		parts = append(parts, hexBytes(s))
	}
	return strings.Join(parts, ",")
}
