package harness

import (
	"fmt"
	"math"
	"os"
	"path/filepath"
	"runtime/debug"
	"sort"
	"strings"

	"github.com/dgraph-io/ristretto/v2/z"
)

func init() {
	streams["tree"] = streamTree
	streams["treefile"] = streamTreeFile
	streams["treestale"] = streamTreeStale
	streams["tree_grow"] = streamTreeGrow
}

// Streams for z.Tree (z/btree.go).
//
//	tree      in-memory trees (C10): Set / Get / DeleteBelow / IterateKV-with-rewrite / Reset
//	treefile  persistent trees (C16): the same operations plus Close + NewTreePersistent
//
// After every operation the operation, its outputs and Stats are logged; every few
// operations (amortised against the size of the tree) the canonical walk (VerifWalk).
// Direct oracles, independent of the Lean model:
//
//	C10  reference map[uint64]uint64: Get after every operation on sampled keys, full
//	     sweeps after DeleteBelow / IterateKV / Reset / reopen and at the end; DeleteBelow
//	     removes exactly the keys below the threshold; IterateKV hands every live pair to
//	     the callback exactly once.
//	C16  walk, free list, frontier, statistics (all but Allocated) and the mapping are the
//	     same before Close and after NewTreePersistent; afterwards no page is live twice,
//	     live and free pages are disjoint and together cover every allocated page.
var treePageSizes = []int{80, 96, 112, 144, 272, 4096}

const treeAbsMax = uint64(math.MaxUint64 - 1)

type treeCase struct {
	r         *Run
	t         *z.Tree
	ps, mk    int
	kind      string
	id        int
	ref       map[uint64]uint64
	used      map[uint64]bool
	usedList  []uint64
	hist      []string
	nops      int
	sinceW    int
	lastWalk  z.VerifTreeWalk
	haveWalk  bool
	path      string // persistent trees
	dead      bool   // the implementation panicked in a way that leaves the tree unusable
	recycled  bool   // a page was taken from the free list
	splits    bool
	reopened  int
	quiet     bool // bulk phases: log only the Set itself (Stats / read-back every 4096 operations)
	finalGets int  // > 0: read back only that many sampled keys at the end (IterateKV has compared all pairs)
}

func (c *treeCase) input() string {
	// as much of the tail of the history as fits the report (Run.Fail cuts at 4000 bytes)
	n, start := 0, len(c.hist)
	for start > 0 && n+len(c.hist[start-1])+2 < 3500 {
		start--
		n += len(c.hist[start]) + 2
	}
	pre := ""
	if start > 0 {
		pre = fmt.Sprintf("…(%d earlier ops; regenerate with the seed) ", start)
	}
	return fmt.Sprintf("stream seed=%d case=%d kind=%s pageSize=%d maxKeys=%d persistent=%v: %s%s",
		c.r.Seed, c.id, c.kind, c.ps, c.mk, c.path != "", pre, strings.Join(c.hist[start:], "; "))
}

func (c *treeCase) fail(props []string, what string) {
	for _, p := range props {
		c.r.Fail(p, what, c.input())
	}
}

var bothTreeProps = []string{"C10", "C16"}

// mapProps: a wrong mapping violates C10; on a tree that went through Close + reopen it also
// violates C16 ("the reopened tree continues to behave as a correct map").
func (c *treeCase) mapProps() []string {
	if c.reopened > 0 {
		return bothTreeProps
	}
	return []string{"C10"}
}

// guard runs f and reports a panic of the implementation.
func (c *treeCase) guard(what string, f func()) (panicked bool) {
	defer func() {
		if p := recover(); p != nil {
			panicked = true
			c.dead = true
			c.fail(bothTreeProps, fmt.Sprintf("%s panicked: %v", what, p))
		}
	}()
	f()
	return false
}

func (c *treeCase) note(k uint64) {
	if !c.used[k] {
		c.used[k] = true
		c.usedList = append(c.usedList, k)
	}
}

func (c *treeCase) emitStats() {
	s := c.t.Stats()
	c.r.Emit("stats %d %d %d %d %d", s.NumLeafKeys, s.NumPages, s.NumPagesFree, s.Allocated, s.Bytes)
}

func (c *treeCase) op(s string) {
	c.hist = append(c.hist, s)
	c.nops++
	c.sinceW++
	// package z asserts with log.Fatal, which cannot be recovered: leave a trail on stdout so that
	// a crashed run still names the operation (the check quotes the tail of the output).
	if c.nops == 1 {
		fmt.Printf("tree harness: seed=%d case=%d kind=%s pageSize=%d persistent=%v; operations:\n", c.r.Seed, c.id, c.kind, c.ps, c.path != "")
	}
	if c.quiet && c.nops%512 != 0 {
		return
	}
	fmt.Printf("%s;", s)
	if c.nops%8 == 0 {
		fmt.Println()
	}
}

// Set with the reference update and an immediate read-back.
func (c *treeCase) set(k, v uint64) {
	if c.dead {
		return
	}
	c.op(fmt.Sprintf("Set(%d,%d)", k, v))
	free0 := c.t.Stats().NumPagesFree
	pages0 := c.t.Stats().NumPages
	if c.guard("Set", func() { c.t.Set(k, v) }) {
		return
	}
	c.r.Emit("set %d %d ok", k, v)
	c.r.Count("set")
	s := c.t.Stats()
	if s.NumPagesFree < free0 {
		c.recycled = true
		c.r.Count("set_reused_free_page")
	}
	if s.NumPages > pages0 || s.NumPagesFree < free0 {
		c.splits = true
		c.r.Count("set_split")
	}
	c.note(k)
	if v == 0 {
		delete(c.ref, k)
	} else {
		c.ref[k] = v
	}
	if c.quiet && c.nops%4096 != 0 {
		return
	}
	c.emitStats()
	c.get(k)
}

// The two illegal keys: the implementation must refuse them without touching the tree.
func (c *treeCase) setIllegal(k, v uint64) {
	if c.dead {
		return
	}
	c.op(fmt.Sprintf("Set(%d,%d)", k, v))
	panicked := false
	func() {
		defer func() {
			if recover() != nil {
				panicked = true
			}
		}()
		c.t.Set(k, v)
	}()
	c.r.Count("set_illegal_key")
	if panicked {
		c.r.Emit("set %d %d panic", k, v)
	} else {
		c.r.Emit("set %d %d ok", k, v)
	}
	c.emitStats()
}

func (c *treeCase) get(k uint64) {
	if c.dead {
		return
	}
	var got uint64
	if c.guard(fmt.Sprintf("Get(%d)", k), func() { got = c.t.Get(k) }) {
		return
	}
	c.r.Emit("get %d %d", k, got)
	c.r.Count("get")
	if want := c.ref[k]; got != want {
		c.fail(c.mapProps(), fmt.Sprintf("Get(%d) = %d, the reference map says %d", k, got, want))
	}
}

func (c *treeCase) getIllegal(k uint64) {
	if c.dead {
		return
	}
	panicked := false
	var got uint64
	func() {
		defer func() {
			if recover() != nil {
				panicked = true
			}
		}()
		got = c.t.Get(k)
	}()
	c.r.Count("get_illegal_key")
	if panicked {
		c.r.Emit("get %d panic", k)
	} else {
		c.r.Emit("get %d %d", k, got)
	}
}

// sweep reads every key ever used (or a sample of them when there are very many).
func (c *treeCase) sweep(full bool) {
	if c.dead {
		return
	}
	n := len(c.usedList)
	if full || n <= 1500 {
		for _, k := range c.usedList {
			c.get(k)
		}
		c.r.Count("full_sweep")
		return
	}
	for i := 0; i < 400; i++ {
		c.get(c.usedList[c.r.Rng.Intn(n)])
	}
}

func (c *treeCase) sampleGets(n int) {
	if len(c.usedList) == 0 {
		return
	}
	for i := 0; i < n; i++ {
		c.get(c.usedList[c.r.Rng.Intn(len(c.usedList))])
	}
}

func (c *treeCase) deleteBelow(ts uint64) {
	if c.dead {
		return
	}
	c.op(fmt.Sprintf("DeleteBelow(%d)", ts))
	if c.guard("DeleteBelow", func() { c.t.DeleteBelow(ts) }) {
		return
	}
	c.r.Emit("del %d", ts)
	c.r.Count("del")
	removed := 0
	for k, v := range c.ref {
		if v < ts {
			delete(c.ref, k)
			removed++
		}
	}
	if removed > 0 {
		c.r.Count("del_removed_some")
	}
	c.emitStats()
	c.walk() // DeleteBelow rebuilds the page structure: always compare it (and look for nil children)
	if c.r.Rng.Intn(3) != 0 {
		c.sweep(false) // exactness: the removed keys read 0, all others are unchanged
	} else {
		// no reads right after the DeleteBelow: whatever the tree remembers from earlier reads (a
		// cached leaf, a cursor) survives into the next Set/Get of a key in a freed range
		c.r.Count("del_without_sweep")
		if n := len(c.usedList); n > 0 {
			for i := 0; i < 3; i++ {
				k := c.usedList[c.r.Rng.Intn(n)]
				if _, live := c.ref[k]; !live {
					c.set(k, c.value())
					c.get(k)
					break
				}
			}
		}
	}
}

func (c *treeCase) iterate(mod uint64, salt uint64) {
	if c.dead {
		return
	}
	c.op(fmt.Sprintf("IterateKV(rewrite: mod=%d salt=%d)", mod, salt))
	type tr struct{ k, v, nv uint64 }
	var seen []tr
	f := func(k, v uint64) uint64 {
		h := (k*0x9E3779B97F4A7C15 ^ v*0xC2B2AE3D27D4EB4F) + salt
		h ^= h >> 29
		var nv uint64
		if mod > 0 && h%mod == 0 {
			nv = 1 + (h>>7)%40
		}
		seen = append(seen, tr{k, v, nv})
		return nv
	}
	if c.guard("IterateKV", func() { c.t.IterateKV(f) }) {
		return
	}
	var b strings.Builder
	rest := seen
	for len(rest) > 200 { // long lists go in pieces
		b.Reset()
		b.WriteString("iterpart")
		for _, x := range rest[:200] {
			fmt.Fprintf(&b, " %d %d %d", x.k, x.v, x.nv)
		}
		c.r.Emit("%s", b.String())
		rest = rest[200:]
	}
	b.Reset()
	fmt.Fprintf(&b, "iter %d", len(seen))
	for _, x := range rest {
		fmt.Fprintf(&b, " %d %d %d", x.k, x.v, x.nv)
	}
	c.r.Emit("%s", b.String())
	c.r.Count("iter")
	// every live pair exactly once
	visited := map[uint64]int{}
	for _, x := range seen {
		visited[x.k]++
		if want, ok := c.ref[x.k]; !ok || want != x.v {
			c.fail(c.mapProps(), fmt.Sprintf("IterateKV handed (%d,%d) to the callback, the reference map says %d (0 = absent)", x.k, x.v, c.ref[x.k]))
		}
	}
	for k, n := range visited {
		if n != 1 {
			c.fail(c.mapProps(), fmt.Sprintf("IterateKV visited key %d %d times", k, n))
		}
	}
	if len(visited) != len(c.ref) {
		missing := []uint64{}
		for k := range c.ref {
			if visited[k] == 0 {
				missing = append(missing, k)
			}
		}
		sort.Slice(missing, func(i, j int) bool { return missing[i] < missing[j] })
		if len(missing) > 5 {
			missing = missing[:5]
		}
		c.fail(c.mapProps(), fmt.Sprintf("IterateKV visited %d keys, %d are live; not visited e.g. %v", len(visited), len(c.ref), missing))
	}
	rew := 0
	for _, x := range seen {
		if x.nv != 0 {
			c.ref[x.k] = x.nv
			rew++
		}
	}
	if rew > 0 {
		c.r.Count("iter_rewrote_some")
	}
	c.emitStats()
	c.sweep(false)
}

func (c *treeCase) reset() {
	if c.dead {
		return
	}
	c.op("Reset()")
	if c.guard("Reset", func() { c.t.Reset() }) {
		return
	}
	c.r.Emit("reset")
	c.r.Count("reset")
	c.ref = map[uint64]uint64{}
	c.emitStats()
	c.walk()
	c.sweep(false)
}

// walk logs the canonical walk and runs the page-accounting oracle.
func (c *treeCase) walk() z.VerifTreeWalk {
	if c.dead {
		return z.VerifTreeWalk{}
	}
	var w z.VerifTreeWalk
	if c.guard("VerifWalk", func() { w = c.t.VerifWalk() }) {
		return w
	}
	c.sinceW = 0
	c.lastWalk, c.haveWalk = w, true
	var b strings.Builder
	fmt.Fprintf(&b, "walk %d %d %d", w.NextPage, w.FreePage, len(w.Free))
	for _, p := range w.Free {
		fmt.Fprintf(&b, " %d", p)
	}
	c.r.Emit("%s", b.String())
	for _, n := range w.Nodes {
		b.Reset()
		leaf := 0
		if n.Leaf {
			leaf = 1
		}
		fmt.Fprintf(&b, "node %d %d %d %d", n.Pid, n.Stored, leaf, n.N)
		for _, x := range n.KV {
			fmt.Fprintf(&b, " %d", x)
		}
		c.r.Emit("%s", b.String())
	}
	c.r.Emit("endwalk %d", len(w.Nodes))
	c.r.Count("walk")
	c.checkPages(w)
	return w
}

// checkPages: no page is live twice, live and free pages are disjoint, every allocated
// page is live or free, and the statistics agree with the structure.
func (c *treeCase) checkPages(w z.VerifTreeWalk) {
	if w.Err != "" {
		c.fail(bothTreeProps, "the tree cannot be walked: "+w.Err)
		return
	}
	owner := map[uint64]string{}
	leafKeys := 0
	for _, n := range w.Nodes {
		if n.Stored != n.Pid {
			c.fail(bothTreeProps, fmt.Sprintf("page %d stores page id %d", n.Pid, n.Stored))
		}
		if n.Pid == 0 || n.Pid >= w.NextPage {
			c.fail(bothTreeProps, fmt.Sprintf("live page %d is not below the frontier %d", n.Pid, w.NextPage))
		}
		if o, dup := owner[n.Pid]; dup {
			c.fail(bothTreeProps, fmt.Sprintf("page %d is in use twice (%s and a node)", n.Pid, o))
		}
		owner[n.Pid] = "a node"
		if n.Leaf {
			leafKeys += n.N
		} else {
			for i := 0; i < n.N; i++ {
				if n.KV[2*i+1] == 0 {
					// Get / IterateKV of a key routed to this entry would run into assert(child != nil),
					// which is log.Fatal in package z: stop using this tree.
					c.dead = true
					c.fail(bothTreeProps, fmt.Sprintf("inner page %d keeps key %d without a child page (Get of a key routed there aborts the process in assert(child != nil))", n.Pid, n.KV[2*i]))
				}
			}
		}
	}
	for _, p := range w.Free {
		if p == 0 || p >= w.NextPage {
			c.fail(bothTreeProps, fmt.Sprintf("free page %d is not below the frontier %d", p, w.NextPage))
		}
		if o, dup := owner[p]; dup {
			c.fail(bothTreeProps, fmt.Sprintf("page %d is on the free list and also %s", p, o))
		}
		owner[p] = "the free list"
	}
	if uint64(len(owner))+1 != w.NextPage {
		c.fail([]string{"C16"}, fmt.Sprintf("%d pages allocated but only %d are live (%d) or free (%d): pages leaked", w.NextPage-1, len(owner), len(w.Nodes), len(w.Free)))
	}
	if w.Stats.NumPagesFree != len(w.Free) {
		c.fail([]string{"C16"}, fmt.Sprintf("Stats.NumPagesFree = %d, the free list has %d pages", w.Stats.NumPagesFree, len(w.Free)))
	}
	if w.Stats.NumLeafKeys != leafKeys {
		c.fail([]string{"C16"}, fmt.Sprintf("Stats.NumLeafKeys = %d, the leaves hold %d keys", w.Stats.NumLeafKeys, leafKeys))
	}
	if w.Stats.NumPages != int(w.NextPage)-1 {
		c.fail([]string{"C16"}, fmt.Sprintf("Stats.NumPages = %d, frontier %d", w.Stats.NumPages, w.NextPage))
	}
}

// maybeWalk keeps the cost of walking proportional to the work done since the last walk.
func (c *treeCase) maybeWalk() {
	if c.dead {
		return
	}
	size := c.t.Stats().NumLeafKeys
	if c.sinceW >= 6 && c.sinceW*3 >= size {
		c.walk()
	}
}

// ---- key / value / threshold generators

type keyGen struct {
	mode    int
	base    uint64
	step    uint64
	next    uint64
	univ    uint64
	cluster []uint64
}

func newKeyGen(c *treeCase) *keyGen {
	g := &keyGen{mode: c.r.Rng.Intn(6)}
	switch g.mode {
	case 0: // ascending
		g.next = 1 + uint64(c.r.Rng.Intn(50))
		g.step = 1 + uint64(c.r.Rng.Intn(3))
	case 1: // descending
		g.next = 5000 + uint64(c.r.Rng.Intn(5000))
		g.step = 1 + uint64(c.r.Rng.Intn(3))
	case 2: // small universe: many overwrites
		g.univ = 8 + uint64(c.r.Rng.Intn(120))
	case 3: // medium universe
		g.univ = 200 + uint64(c.r.Rng.Intn(3000))
	case 4: // whole uint64 range
	case 5: // near the top of the key space
		g.base = treeAbsMax - 300
	}
	return g
}

func (g *keyGen) key(c *treeCase) uint64 {
	rng := c.r.Rng
	// now and then: the extremes, and keys around node boundaries (max keys of leaves)
	switch x := rng.Intn(100); {
	case x < 3:
		return []uint64{1, 2, treeAbsMax, treeAbsMax - 1, treeAbsMax - 2}[rng.Intn(5)]
	case x < 18 && c.haveWalk:
		var leaves []z.VerifNode
		for _, n := range c.lastWalk.Nodes {
			if n.Leaf && n.N > 0 {
				leaves = append(leaves, n)
			}
		}
		if len(leaves) > 0 {
			n := leaves[rng.Intn(len(leaves))]
			k := n.KV[2*(n.N-1)] // the leaf's max key = the routing key of its parent
			if rng.Intn(2) == 0 {
				k = n.KV[0]
			}
			switch rng.Intn(3) {
			case 0:
				k--
			case 1:
				k++
			}
			if k == 0 || k == math.MaxUint64 {
				k = 1
			}
			c.r.Count("key_at_node_boundary")
			return k
		}
	}
	switch g.mode {
	case 0:
		k := g.next
		g.next += g.step
		return k
	case 1:
		if g.next <= g.step {
			g.next = 5000
		}
		g.next -= g.step
		return g.next
	case 2, 3:
		return 1 + uint64(rng.Int63n(int64(g.univ)))
	case 4:
		k := rng.Uint64()
		if k == 0 || k == math.MaxUint64 {
			k = 7
		}
		return k
	default:
		return g.base + uint64(rng.Intn(300))
	}
}

func (c *treeCase) value() uint64 {
	rng := c.r.Rng
	switch rng.Intn(10) {
	case 0:
		return math.MaxUint64
	case 1:
		return 1
	case 2:
		return 1 + uint64(rng.Intn(1000000))
	default:
		return 1 + uint64(rng.Intn(24)) // few distinct values: thresholds hit often
	}
}

// threshold: often just above / exactly at the value stored under a leaf's max key.
func (c *treeCase) threshold() uint64 {
	rng := c.r.Rng
	if c.haveWalk && rng.Intn(3) > 0 {
		var leaves []z.VerifNode
		for _, n := range c.lastWalk.Nodes {
			if n.Leaf && n.N > 0 {
				leaves = append(leaves, n)
			}
		}
		if len(leaves) > 0 {
			n := leaves[rng.Intn(len(leaves))]
			v := n.KV[2*(n.N-1)+1]
			if cur, ok := c.ref[n.KV[2*(n.N-1)]]; ok {
				v = cur
			}
			c.r.Count("threshold_at_leaf_max_value")
			switch rng.Intn(3) {
			case 0:
				return v
			case 1:
				if v < math.MaxUint64 {
					return v + 1
				}
				return v
			default:
				if v > 0 {
					return v - 1
				}
				return v
			}
		}
	}
	switch rng.Intn(8) {
	case 0:
		return 0
	case 1:
		return 1
	case 2:
		return math.MaxUint64
	case 3:
		return 1000001
	default:
		return uint64(rng.Intn(27))
	}
}

// mixedOps runs n random operations.
func (c *treeCase) mixedOps(n int, g *keyGen, allowReset bool) {
	rng := c.r.Rng
	for i := 0; i < n && !c.dead; i++ {
		switch x := rng.Intn(1000); {
		case x < 700:
			k := g.key(c)
			c.set(k, c.value())
			if rng.Intn(2) == 0 {
				c.get(k) // read-your-write first, before any other read moves a cached position
			}
			c.sampleGets(2)
		case x < 715:
			c.set(g.key(c), 0) // value 0 is outside the documented range: a placeholder, reads as absent
		case x < 725:
			if rng.Intn(2) == 0 {
				c.setIllegal([]uint64{0, math.MaxUint64}[rng.Intn(2)], c.value())
			} else {
				c.getIllegal([]uint64{0, math.MaxUint64}[rng.Intn(2)])
			}
		case x < 835:
			k := g.key(c)
			c.note(k)
			c.get(k)
		case x < 900:
			c.deleteBelow(c.threshold())
		case x < 940:
			c.iterate([]uint64{0, 1, 2, 3, 7}[rng.Intn(5)], rng.Uint64())
		case x < 946 && allowReset:
			c.reset()
		case x < 960 && c.path != "":
			c.reopen()
		default:
			c.sampleGets(3)
		}
		c.maybeWalk()
	}
}

func (c *treeCase) finish() {
	if !c.dead {
		c.walk()
		if c.finalGets > 0 && len(c.usedList) > c.finalGets {
			c.sampleGets(c.finalGets)
		} else {
			c.sweep(true)
		}
	}
	c.r.Cases++
	if c.splits && c.recycled {
		c.r.Nontriv++
	}
	if c.splits {
		c.r.Count("case_with_splits")
	}
	if c.recycled {
		c.r.Count("case_with_page_reuse")
	}
	if c.id < 2 {
		c.r.Sample(c.input())
	}
	if c.t != nil {
		func() {
			defer func() { recover() }()
			c.t.Close()
		}()
	}
	if c.path != "" {
		os.Remove(c.path)
	}
}

func newMemCase(r *Run, id int, ps int, kind string) *treeCase {
	z.VerifSetPageSize(ps)
	_, mk := z.VerifPageSize()
	c := &treeCase{r: r, ps: ps, mk: mk, kind: kind, id: id, ref: map[uint64]uint64{}, used: map[uint64]bool{}}
	r.Emit("tree cfg %d %d", ps, mk)
	c.t = z.NewTree("verif")
	r.Emit("new mem")
	c.note(treeAbsMax)
	c.emitStats()
	c.walk()
	return c
}

func streamTree(r *Run) {
	defer z.VerifSetPageSize(os.Getpagesize())
	debug.SetPanicOnFault(true)
	id := 0
	// many small cases at every page size: splits, root splits, recycling, Reset
	for i := 0; i < 14*r.Scale; i++ {
		ps := treePageSizes[r.Rng.Intn(len(treePageSizes))]
		if i < len(treePageSizes) {
			ps = treePageSizes[i]
		}
		c := newMemCase(r, id, ps, "mixed")
		id++
		g := newKeyGen(c)
		n := 150 + r.Rng.Intn(500)
		if ps == 4096 {
			n += 1500
		}
		c.mixedOps(n, g, true)
		c.finish()
	}
	// F2's shape: alternating values, one DeleteBelow, all leaf max keys below the threshold
	for _, ps := range []int{80, 4096} {
		c := newMemCase(r, id, ps, "alternating-values")
		id++
		for k := uint64(1); k <= 1000; k++ {
			v := uint64(5000)
			if k%2 == 0 {
				v = 1
			}
			c.set(k, v)
		}
		c.walk()
		c.deleteBelow(10)
		c.walk()
		c.iterate(0, 0)
		c.mixedOps(100, newKeyGen(c), false)
		c.finish()
	}
	// growth of the backing buffer: more pages than the initial 1 MiB holds, then recycling
	for _, ps := range []int{80, 4096} {
		c := newMemCase(r, id, ps, "buffer-growth")
		id++
		limit := (1 << 20) / ps
		k := uint64(10)
		for c.t.Stats().NumPages <= limit+20 && !c.dead {
			c.set(k, 1+k%7)
			k += 3
			if c.nops%5000 == 0 {
				c.walk()
			}
		}
		r.Count("buffer_grew")
		c.walk()
		c.deleteBelow(4) // releases many pages
		c.walk()
		g := newKeyGen(c)
		c.mixedOps(300, g, false)
		for j := 0; j < 2000 && !c.dead; j++ { // refill through the free list
			c.set(uint64(r.Rng.Intn(int(k))+1), 5+uint64(r.Rng.Intn(3)))
		}
		c.finish()
	}
}

// ---- persistent trees

func treeWorkDir() string {
	if d := os.Getenv("VERIF_WORK"); d != "" {
		return d
	}
	return os.TempDir()
}

func newFileCase(r *Run, id int, ps int, kind string) *treeCase {
	z.VerifSetPageSize(ps)
	_, mk := z.VerifPageSize()
	c := &treeCase{r: r, ps: ps, mk: mk, kind: kind, id: id, ref: map[uint64]uint64{}, used: map[uint64]bool{}}
	c.path = filepath.Join(treeWorkDir(), fmt.Sprintf("verif_tree_%d_%d_%d.bin", os.Getpid(), r.Seed, id))
	os.Remove(c.path)
	r.Emit("tree cfg %d %d", ps, mk)
	var err error
	c.guard("NewTreePersistent", func() { c.t, err = z.NewTreePersistent(c.path) })
	if err != nil {
		c.dead = true
		c.fail([]string{"C16"}, "NewTreePersistent: "+err.Error())
	}
	if c.dead {
		return c
	}
	r.Emit("new file")
	c.note(treeAbsMax)
	c.emitStats()
	c.walk()
	return c
}

func sameWalk(a, b z.VerifTreeWalk) string {
	if a.NextPage != b.NextPage {
		return fmt.Sprintf("frontier %d before, %d after", a.NextPage, b.NextPage)
	}
	if a.FreePage != b.FreePage || fmt.Sprint(a.Free) != fmt.Sprint(b.Free) {
		return fmt.Sprintf("free list %v (head %d) before, %v (head %d) after", a.Free, a.FreePage, b.Free, b.FreePage)
	}
	sa, sb := a.Stats, b.Stats
	if sa.NumLeafKeys != sb.NumLeafKeys || sa.NumPages != sb.NumPages || sa.NumPagesFree != sb.NumPagesFree ||
		sa.Bytes != sb.Bytes || sa.PageSize != sb.PageSize {
		return fmt.Sprintf("stats before %+v, after %+v", sa, sb)
	}
	if len(a.Nodes) != len(b.Nodes) {
		return fmt.Sprintf("%d reachable nodes before, %d after", len(a.Nodes), len(b.Nodes))
	}
	for i := range a.Nodes {
		x, y := a.Nodes[i], b.Nodes[i]
		if x.Pid != y.Pid || x.Stored != y.Stored || x.Leaf != y.Leaf || x.N != y.N || fmt.Sprint(x.KV) != fmt.Sprint(y.KV) {
			return fmt.Sprintf("node #%d: before %+v, after %+v", i, x, y)
		}
	}
	return ""
}

// reopen: Close + NewTreePersistent, compare everything but the mapped size.
func (c *treeCase) reopen() {
	if c.dead || c.path == "" {
		return
	}
	before := c.walk()
	c.op("Close(); NewTreePersistent()")
	var err error
	if c.guard("Close", func() { err = c.t.Close() }) {
		return
	}
	if err != nil {
		c.dead = true
		c.fail([]string{"C16"}, "Close: "+err.Error())
		return
	}
	c.t = nil
	fi, err := os.Stat(c.path)
	if err != nil {
		c.dead = true
		c.fail([]string{"C16"}, "stat: "+err.Error())
		return
	}
	if c.guard("NewTreePersistent (reopen)", func() { c.t, err = z.NewTreePersistent(c.path) }) {
		return
	}
	if err != nil {
		c.dead = true
		c.fail([]string{"C16"}, "NewTreePersistent (reopen): "+err.Error())
		return
	}
	c.r.Emit("reopen %d", fi.Size())
	c.r.Count("reopen")
	c.reopened++
	if len(before.Free) > 0 {
		c.r.Count("reopen_with_free_pages")
	}
	c.emitStats()
	after := c.walk()
	if d := sameWalk(before, after); d != "" {
		c.fail([]string{"C16"}, "the reopened tree differs: "+d)
	}
	c.sweep(false)
}

// fillTo inserts ascending keys until the tree has `pages` pages (true) or more (false).
func (c *treeCase) fillTo(pages int, k *uint64) bool {
	for !c.dead {
		n := c.t.Stats().NumPages
		if n == pages {
			return true
		}
		if n > pages {
			return false
		}
		c.set(*k, 1+*k%5)
		*k += 2
		if c.nops%4000 == 0 {
			c.walk()
		}
	}
	return false
}

func streamTreeFile(r *Run) {
	defer z.VerifSetPageSize(os.Getpagesize())
	debug.SetPanicOnFault(true)
	id := 0
	// random histories with close/reopen at random points
	for i := 0; i < 10*r.Scale; i++ {
		ps := treePageSizes[r.Rng.Intn(len(treePageSizes))]
		if i < len(treePageSizes) {
			ps = treePageSizes[i]
		}
		c := newFileCase(r, id, ps, "mixed+reopen")
		id++
		g := newKeyGen(c)
		n := 120 + r.Rng.Intn(400)
		if ps == 4096 {
			n += 1200
		}
		c.mixedOps(n, g, i%3 == 0)
		c.reopen()
		// sessions (open … close) that do ONE kind of thing only: whatever the tree persists lazily
		// ("dirty" marks, cached counters, headers) must be written for every kind of change
		switch i % 5 {
		case 0:
			for j := 0; j < 3; j++ { // thin the leaves (often without freeing a page), one session each
				ts := c.threshold()
				if j == 0 { // just above the few smallest values: some keys go, no leaf empties
					vals := make([]uint64, 0, len(c.ref))
					for _, v := range c.ref {
						vals = append(vals, v)
					}
					sort.Slice(vals, func(a, b int) bool { return vals[a] < vals[b] })
					if len(vals) > 3 {
						ts = vals[2] + 1
					}
				}
				c.deleteBelow(ts)
				if j < 2 {
					c.reopen()
				}
			}
		case 1:
			c.iterate([]uint64{1, 2, 3}[r.Rng.Intn(3)], r.Rng.Uint64()) // rewrite values in place
		case 2:
			if n := len(c.usedList); n > 0 { // overwrite existing keys only: no key is added
				for j := 0; j < 5; j++ {
					c.set(c.usedList[r.Rng.Intn(n)], c.value())
				}
			}
		case 3:
			c.sampleGets(5) // reads only
		default:
			c.set(g.key(c), c.value())
		}
		c.reopen()
		c.sweep(true)
		c.mixedOps(60, g, false)
		if c.reopened > 0 && c.recycled {
			c.r.Count("case_reopen_and_page_reuse")
		}
		c.finish()
	}
	// page counts at the boundary of the mapping: with 4096-byte pages the initial 1 MiB file
	// holds exactly 254 pages behind the 8 bytes of padding (finding F3)
	for _, ps := range []int{4096, 272} {
		c := newFileCase(r, id, ps, "mapping-boundary")
		id++
		if c.dead {
			c.finish()
			continue
		}
		k := uint64(3)
		for round := 0; round < 2 && !c.dead; round++ {
			dataLen := c.t.Stats().Allocated
			last := dataLen/ps - 1 // number of pages when the used pages exactly fill the mapping
			for _, target := range []int{last - 1, last, last + 1, last + 2} {
				if c.fillTo(target, &k) {
					r.Count(fmt.Sprintf("reopen_at_boundary%+d", target-last))
					if target == last {
						r.Count("reopen_exactly_full")
					}
					c.reopen()
				} else {
					r.Count("boundary_target_overshot")
				}
			}
			// recycle, reopen with a non-empty free list, then refill through the free list
			c.deleteBelow(3)
			c.reopen()
			for j := 0; j < 300 && !c.dead; j++ {
				c.set(uint64(r.Rng.Intn(int(k))+1), 3+uint64(r.Rng.Intn(3)))
			}
			c.reopen()
			if ps != 4096 {
				break
			}
		}
		if c.reopened > 0 && c.recycled {
			c.r.Count("case_reopen_and_page_reuse")
		}
		c.finish()
	}
}

// streamTreeStale: regression oracle for finding F11 (fixed): a `node` slice held across a call
// that may move an mmap-backed buffer.  Tree.Set's root split used to keep `right` (from
// t.split(1)) across `left := t.newNode(...)` and to read `root.bits()` after the split; when the
// allocation in between remaps the file (Buffer.Grow -> Truncate -> mremap) the stale slice
// points into the old mapping and the next read faults.  In-memory trees are not affected with
// the Go allocator (the old slice stays readable).
//
// Construction (page size 80 so that it takes milliseconds; with the default 4096-byte pages the
// same happens after 4,113,022 ascending Sets plus 187 resp. 188 controlled leaf splits, file
// size 268,956,672): fill until the frontier is the first page that does not fit the initial
// 1 MiB file, release most pages with DeleteBelow (a few survivors tune the length of the free
// list), rebuild through the free list so that it runs out exactly at `left` (variant A) resp.
// at `right` (variant B) of a root split.  No trace (the structural model has no notion of a
// stale slice; the static side is the lint `Gen.TreeLint`); the verdict is the oracle's.
func streamTreeStale(r *Run) {
	defer z.VerifSetPageSize(os.Getpagesize())
	debug.SetPanicOnFault(true)
	const ps = 80
	for _, variant := range []struct {
		name  string
		mod   uint64 // survivors: v=5 when (k/3)%mod == 0
		fresh int    // pages the root-splitting Set takes from the frontier
	}{{"A: the buffer moves when `left` is allocated", 4334, 1}, {"B: the buffer moves when `right` is allocated", 3251, 2}} {
		z.VerifSetPageSize(ps)
		path := filepath.Join(treeWorkDir(), fmt.Sprintf("verif_tree_stale_%d.bin", os.Getpid()))
		os.Remove(path)
		t, err := z.NewTreePersistent(path)
		if err != nil {
			r.Fail("C16", "NewTreePersistent: "+err.Error(), "stream=treestale")
			return
		}
		r.Cases++
		pstar := ((1 << 20) - 8) / ps
		input := fmt.Sprintf("variant %s; persistent tree, page size %d: Set(k,v) for k=10,13,16,… (v=5 when (k/3)%%%d==0, else 1) until NumPages=%d; DeleteBelow(3); then Set(2^40+j,7) for j=0,1,2,… until the root splits while the free list runs out", variant.name, ps, variant.mod, pstar-1)
		ref := map[uint64]uint64{}
		k := uint64(10)
		for t.Stats().NumPages < pstar-1 {
			v := uint64(1)
			if (k/3)%variant.mod == 0 {
				v = 5
				ref[k] = v
			}
			t.Set(k, v)
			k += 3
			r.Count("set")
		}
		lined := t.Stats().NumPages == pstar-1
		if lined {
			t.DeleteBelow(3)
			hit := false
			for j := uint64(0); j < 20000 && !hit; j++ {
				before := t.Stats().NumPages
				rootBefore := t.VerifRootKeys()
				var p any
				func() {
					defer func() { p = recover() }()
					t.Set(1<<40+j, 7)
				}()
				ref[1<<40+j] = 7
				r.Count("set")
				if p != nil {
					r.Fail("C16", fmt.Sprintf("Tree.Set panicked on a legal key of a persistent tree (a node slice obtained before the buffer was remapped is used after it, cf. F11): %v", p),
						fmt.Sprintf("%s; the faulting call is Set(%d,7)", input, uint64(1<<40)+j))
					hit = true
					break
				}
				if after := t.Stats().NumPages; after > before {
					if after == before+variant.fresh && t.VerifRootKeys() == 2 && rootBefore > 2 {
						r.Nontriv++
						r.Count("root_split_straddles_remap")
					} else {
						r.Count("construction_missed_the_root_split")
					}
					hit = true
				}
			}
			// the tree must still be the right map
			bad := 0
			func() {
				defer func() {
					if p := recover(); p != nil {
						r.Fail("C16", fmt.Sprintf("Get panicked after the straddling root split: %v", p), input)
					}
				}()
				for kk, vv := range ref {
					if g := t.Get(kk); g != vv {
						bad++
					}
				}
			}()
			if bad > 0 {
				r.Fail("C16", fmt.Sprintf("%d of %d keys read a wrong value after the root split that straddles the remap", bad, len(ref)), input)
			}
		} else {
			r.Count("construction_missed_the_frontier")
		}
		func() {
			defer func() { recover() }()
			t.Close()
		}()
		os.Remove(path)
	}
}

// ---- splits that straddle a reallocation of the backing buffer (in-memory trees)

// growTracker mirrors Buffer.Grow as the tree uses it, to know which page allocation makes the
// in-memory buffer reallocate (offset+n >= curSz; NewTree leaves curSz = 3 MiB, len(data) = 1 MiB).
type growTracker struct{ curSz, dataLen, next, ps int }

func newGrowTracker(ps int) *growTracker {
	return &growTracker{curSz: 3 << 20, dataLen: 1 << 20, next: 3, ps: ps}
}

// alloc accounts for the allocation of page p; true if the buffer is reallocated by it.
func (g *growTracker) alloc(p int) bool {
	moved := false
	if req := (p + 1) * g.ps; req > g.dataLen {
		n := req - g.dataLen
		if !(g.dataLen+8+n < g.curSz) {
			by := g.curSz + n
			if by > 1<<30 {
				by = 1 << 30
			}
			if n > by {
				by = n
			}
			g.curSz += by
			moved = true
		}
		g.dataLen += n
	}
	return moved
}

// advance accounts for the pages next..newNext-1; returns the page that moved the buffer or -1.
func (g *growTracker) advance(newNext int) int {
	at := -1
	for p := g.next; p < newNext; p++ {
		if g.alloc(p) {
			at = p
		}
	}
	g.next = newNext
	return at
}

func (g *growTracker) nextGrowPage() int {
	c := *g
	for p := c.next; ; p++ {
		if c.alloc(p) {
			return p
		}
	}
}

// streamTreeGrow: for a page size and the k-th split of the root (ascending keys), find by a dry
// run the Set that performs it and the m pages it allocates (leaf split, inner splits, the right
// half of the root, the new page for its left half); then rebuild the same tree and pad it with
// controlled splits of old leaves (one page each, nothing changes near the root) so that page
// number `pos` of those m is exactly the page whose allocation makes Buffer.Grow reallocate the
// buffer.  Afterwards every key is read back, IterateKV is checked and the tree keeps being used.
// A node slice that is used across such a reallocation without being re-read shows up as lost
// keys (oracle: reference map) and as a walk that differs from the model.
// treeResetRegrow: grow an in-memory tree past its initial buffer with keys in random order (leaves
// and inner nodes filled past their split points), Reset it, grow it past the initial buffer
// again with other keys, then walk, iterate, DeleteBelow, iterate: after a Reset every page the
// tree hands out must be empty again, also the pages beyond the initial size.
func treeResetRegrow(r *Run, id int, ps int) {
	c := newMemCase(r, id, ps, "reset after growth past the initial buffer, regrow past it, iterate")
	initial := (1 << 20) / ps
	c.quiet = true
	for phase := 0; phase < 2 && !c.dead; phase++ {
		for n := 0; c.t.Stats().NumPages < initial+48 && n < 400000 && !c.dead; n++ {
			k := 1 + r.Rng.Uint64()%(1<<36) + uint64(phase)<<40
			c.set(k, 1+r.Rng.Uint64()%1000)
		}
		c.quiet = false
		c.walk()
		c.iterate(0, 0)
		if phase == 0 {
			c.reset()
			c.quiet = true
		}
	}
	if c.t.Stats().NumPages >= initial+48 {
		r.Count("reset_regrow_past_initial_buffer")
		c.splits, c.recycled = true, true
	}
	c.deleteBelow(400)
	c.walk()
	c.iterate(0, 0)
	c.finalGets = 20000
	c.finish()
}

func streamTreeGrow(r *Run) {
	defer z.VerifSetPageSize(os.Getpagesize())
	debug.SetPanicOnFault(true)
	treeResetRegrow(r, 1000, 512)
	if r.Scale >= 2 {
		treeResetRegrow(r, 1001, 1024)
		treeResetRegrow(r, 1002, 144)
	}
	pageSizes := []int{512}
	if r.Scale >= 2 {
		pageSizes = append(pageSizes, 144, 1024)
	}
	id := 0
	const stride = uint64(1) << 20
	for _, ps := range pageSizes {
		// dry run: the last root split (ascending keys) that can still be lined up with the first
		// reallocation of the buffer by splitting old leaves
		z.VerifSetPageSize(ps)
		_, mk := z.VerifPageSize()
		h := mk / 2 // keys an old leaf holds after ascending insertion
		spread := 1 // split only every spread-th old leaf, so that no inner node overflows
		if mk < 31 {
			spread = 2
		}
		dry := z.NewTree("verif-dry")
		dg := newGrowTracker(ps)
		splits, wantSplit, iStar, m := 0, 0, uint64(0), 0
		for i := uint64(1); i < 600000 && iStar == 0; i++ {
			before, np := dry.VerifRootKeys(), dry.Stats().NumPages
			grow := dg.nextGrowPage()
			dry.Set(i*stride, i)
			after := dry.Stats().NumPages
			dg.advance(after + 1)
			if dry.VerifRootKeys() < before {
				splits++
				fill := grow - (after - np - 1) - (np + 1)
				if fill >= 0 && uint64(fill)*uint64(spread)+2 <= (i-1)/uint64(h) {
					wantSplit, iStar, m = splits, i, after-np
				}
			}
		}
		dry.Close()
		if iStar == 0 {
			r.Count("grow_no_root_split_found")
			continue
		}
		cf := struct{ ps, wantSplit int }{ps, wantSplit}
		positions := []int{m - 1, m - 2}
		if r.Scale >= 2 {
			positions = nil
			for p := m - 1; p >= 0; p-- {
				positions = append(positions, p)
			}
		}
		for _, pos := range positions {
			c := newMemCase(r, id, cf.ps, fmt.Sprintf("grow: root split #%d (Set #%d of ascending keys i*2^20, %d pages), page %d of them reallocates the buffer", cf.wantSplit, iStar, m, pos))
			id++
			c.quiet = true
			g := newGrowTracker(cf.ps)
			for i := uint64(1); i < iStar && !c.dead; i++ {
				c.set(i*stride, i)
				g.advance(c.t.Stats().NumPages + 1)
			}
			growPage := g.nextGrowPage()
			fillers := growPage - pos - g.next
			if fillers < 0 || uint64(fillers)*uint64(spread) > (iStar-1)/uint64(h)-2 {
				r.Count("grow_cannot_line_up")
				c.finish()
				continue
			}
			ok := true
			for j := 0; j < fillers && ok && !c.dead; j++ {
				np := c.t.Stats().NumPages
				base := (uint64(h)*uint64(j*spread) + 1) * stride
				for f := uint64(1); f <= uint64(mk-h) && !c.dead; f++ {
					c.set(base+f, base+f)
				}
				if c.dead {
					break
				}
				if c.t.Stats().NumPages != np+1 {
					ok = false
				}
				g.advance(c.t.Stats().NumPages + 1)
			}
			if !ok || c.dead || g.next+pos != growPage {
				r.Count("grow_filler_did_not_line_up")
				c.finish()
				continue
			}
			c.quiet = false
			c.walk()
			rk := c.t.VerifRootKeys()
			c.set(iStar*stride, iStar) // the Set that splits the root while the buffer moves
			moved := g.advance(c.t.Stats().NumPages + 1)
			if !c.dead && c.t.VerifRootKeys() < rk && moved == growPage {
				r.Count("grow_split_straddles_reallocation")
				c.splits, c.recycled = true, true // counts as non-trivial
			} else {
				r.Count("grow_missed")
			}
			c.walk()
			c.iterate(0, 0) // includes the visit-every-live-pair-once oracle
			c.quiet = true
			for i := iStar + 1; i < iStar+300 && !c.dead; i++ {
				c.set(i*stride, i)
			}
			if r.Scale < 2 {
				c.finalGets = 20000
			}
			c.finish() // walk + Get on (a sample of) the keys ever used
		}
	}
}
