package harness

import (
	"fmt"
	"math"
	"sort"
	"strings"

	ristretto "github.com/dgraph-io/ristretto/v2"
)

func init() {
	streams["policy"] = streamPolicy
	streams["policy_f9"] = streamPolicyF9
}

// Observation ids of /repo/verif_points_on.go (policy section).
const (
	vpPolSample     = 60
	vpPolIncHits    = 61
	vpPolSampleHits = 62
	vpPolVictim     = 63
)

// polMaxEvents bounds the observations of one Add (a terminating Add over <= 14 resident
// keys needs < 1000); beyond it the harness aborts the Add and reports non-termination.
const polMaxEvents = 4000

type polRunaway struct{}

type polEvent struct {
	id   int
	a, b uint64
}

// polRound is one round of the eviction loop of defaultPolicy.Add as observed through the hooks.
type polRound struct {
	appended []ristretto.VerifPair // fillSample appended these, in order
	scanKeys []uint64              // sample slice scanned, in slice order
	scanHits []int64
	victim   *ristretto.VerifPair // nil: the newcomer was rejected in this round
}

// parsePolEvents groups the observation events of one Add.
func parsePolEvents(evs []polEvent) (inc *int64, rounds []polRound, err string) {
	i := 0
	if i < len(evs) && evs[i].id == vpPolIncHits {
		h := int64(evs[i].b)
		inc = &h
		i++
	}
	for i < len(evs) {
		var rd polRound
		for i < len(evs) && evs[i].id == vpPolSample {
			rd.appended = append(rd.appended, ristretto.VerifPair{Key: evs[i].a, Cost: int64(evs[i].b)})
			i++
		}
		for i < len(evs) && evs[i].id == vpPolSampleHits {
			rd.scanKeys = append(rd.scanKeys, evs[i].a)
			rd.scanHits = append(rd.scanHits, int64(evs[i].b))
			i++
		}
		if i < len(evs) && evs[i].id == vpPolVictim {
			rd.victim = &ristretto.VerifPair{Key: evs[i].a, Cost: int64(evs[i].b)}
			i++
		} else if i < len(evs) && evs[i].id != vpPolSample {
			return inc, rounds, fmt.Sprintf("unexpected observation id %d at position %d", evs[i].id, i)
		}
		rounds = append(rounds, rd)
		if rd.victim == nil && i < len(evs) {
			return inc, rounds, "observations after a rejecting round"
		}
	}
	return inc, rounds, ""
}

func pairsStr(ps []ristretto.VerifPair) string {
	parts := make([]string, 0, 2*len(ps)+1)
	parts = append(parts, fmt.Sprint(len(ps)))
	for _, p := range ps {
		parts = append(parts, fmt.Sprint(p.Key), fmt.Sprint(p.Cost))
	}
	return strings.Join(parts, " ")
}

// polDriver wraps one real policy, logs to the trace and runs the direct oracles.
type polDriver struct {
	r       *Run
	p       *ristretto.VerifPolicy
	hist    []string
	events  []polEvent
	tainted string // non-empty: the C03 history hypothesis (no raising update, MaxCost never lowered, costs >= 0) is gone
	lenient bool   // overflow corner: only report, the Int oracles do not apply
	dead    bool   // an Add was aborted (non-termination): the policy object is abandoned
	phantom int
	multi   int
}

func (d *polDriver) input() string { return strings.Join(d.hist, ";") }

func (d *polDriver) guardedAdd(key uint64, cost int64) (victims []ristretto.VerifPair, added, runaway bool) {
	defer func() {
		if p := recover(); p != nil {
			if _, ok := p.(polRunaway); ok {
				runaway = true
				return
			}
			panic(p)
		}
	}()
	victims, added = d.p.Add(key, cost)
	return
}

func fmtRounds(rounds []polRound, n int) string {
	var parts []string
	for i, rd := range rounds {
		if i >= n {
			break
		}
		v := "rejected"
		if rd.victim != nil {
			v = fmt.Sprintf("victim=%v", *rd.victim)
		}
		parts = append(parts, fmt.Sprintf("[appended=%v scanned=%v hits=%v %s]", rd.appended, rd.scanKeys, rd.scanHits, v))
	}
	return strings.Join(parts, " ")
}

func (d *polDriver) snap(what string) (kcs []ristretto.VerifPair, used, maxCost int64) {
	kcs = d.p.KeyCosts()
	used = d.p.Used()
	maxCost = d.p.MaxCost()
	d.r.Emit("snap %d %d %s", used, maxCost, pairsStr(kcs))
	var sum int64
	for _, kc := range kcs {
		sum += kc.Cost // wraps like the implementation in the overflow corner
	}
	if sum != used {
		d.r.Fail("C03", fmt.Sprintf("after %s: used=%d but the accounted costs sum to %d (keyCosts=%v): RemainingCost is not MaxCost - sum", what, used, sum, kcs), d.input())
	}
	if d.tainted == "" && !d.lenient && used > maxCost {
		d.r.Fail("C03", fmt.Sprintf("after %s: used=%d > maxCost=%d although no update raised a cost, MaxCost was never lowered and all costs are >= 0", what, used, maxCost), d.input())
	}
	return
}

func asMap(kcs []ristretto.VerifPair) map[uint64]int64 {
	m := make(map[uint64]int64, len(kcs))
	for _, kc := range kcs {
		m[kc.Key] = kc.Cost
	}
	return m
}

func minOf(xs []int64) int64 {
	m := int64(math.MaxInt64)
	for _, x := range xs {
		if x < m {
			m = x
		}
	}
	return m
}

func (d *polDriver) add(key uint64, cost int64) {
	r := d.r
	before := d.p.KeyCosts()
	usedBefore, maxCost := d.p.Used(), d.p.MaxCost()
	bm := asMap(before)
	_, present := bm[key]
	d.hist = append(d.hist, fmt.Sprintf("Add(%d,%d)", key, cost))
	if cost < 0 && d.tainted == "" {
		d.tainted = "negative cost"
	}
	if present && cost <= maxCost && cost > bm[key] && d.tainted == "" {
		d.tainted = "raising Add of a resident key"
	}
	d.events = d.events[:0]
	ristretto.VerifObserveFn = func(id int, a, b uint64) {
		if id >= vpPolSample && id <= vpPolVictim {
			d.events = append(d.events, polEvent{id, a, b})
			if len(d.events) > polMaxEvents {
				panic(polRunaway{}) // unwinds Add (its deferred Unlock runs)
			}
		}
	}
	victims, added, runaway := d.guardedAdd(key, cost)
	ristretto.VerifObserveFn = nil
	if runaway {
		d.dead = true
		_, rounds, _ := parsePolEvents(d.events[:200])
		r.Fail("C09", fmt.Sprintf("Add(%d,%d) on keyCosts=%v used=%d maxCost=%d does not terminate: more than %d observations in the eviction loop; first rounds: %s",
			key, cost, before, usedBefore, maxCost, polMaxEvents, fmtRounds(rounds, 6)), d.input())
		return
	}
	inc, rounds, perr := parsePolEvents(d.events)
	if inc != nil && !added && (len(rounds) == 0 || rounds[len(rounds)-1].victim != nil) {
		// the loop was entered and the newcomer turned away without any observation in the
		// last round: an empty sample (nothing resident any more), minHits = MaxInt64
		rounds = append(rounds, polRound{})
		r.Count("add_rejected_on_empty_sample")
	}
	// ---- trace
	r.Emit("add %d %d", key, cost)
	if inc != nil {
		r.Emit("inc %d %d", key, *inc)
	}
	for _, rd := range rounds {
		r.Emit("fill %s", pairsStr(rd.appended))
		parts := []string{fmt.Sprint(len(rd.scanKeys))}
		for i := range rd.scanKeys {
			parts = append(parts, fmt.Sprint(rd.scanKeys[i]), fmt.Sprint(rd.scanHits[i]))
		}
		r.Emit("scan %s", strings.Join(parts, " "))
		if rd.victim != nil {
			r.Emit("vic %d %d", rd.victim.Key, rd.victim.Cost)
		} else {
			r.Emit("rej")
		}
	}
	ad := 0
	if added {
		ad = 1
	}
	r.Emit("ret %d %s", ad, pairsStr(victims))
	r.Count("add")
	after, usedAfter, _ := d.snap(fmt.Sprintf("Add(%d,%d)", key, cost))
	am := asMap(after)
	in := func() string { return d.input() }
	what := fmt.Sprintf("Add(%d,%d) on keyCosts=%v used=%d maxCost=%d", key, cost, before, usedBefore, maxCost)
	if perr != "" {
		r.Fail("C09", what+": "+perr, in())
		return
	}
	if d.lenient {
		r.Count(fmt.Sprintf("f9_added_%v_victims_%d", added, len(victims)))
		return
	}
	// ---- C03 oracles
	if cost > maxCost {
		r.Count("add_too_big")
		if added || len(victims) > 0 || len(rounds) > 0 || !samePairs(before, after) || usedAfter != usedBefore {
			r.Fail("C03", what+fmt.Sprintf(": cost exceeds MaxCost but added=%v victims=%v keyCosts'=%v used'=%d", added, victims, after, usedAfter), in())
		}
		return
	}
	if present {
		r.Count("add_existing")
		want := asMap(before)
		want[key] = cost
		if added || len(victims) > 0 || len(rounds) > 0 || !sameMap(want, am) {
			r.Fail("C09", what+fmt.Sprintf(": key already accounted but added=%v victims=%v keyCosts'=%v", added, victims, after), in())
		}
		return
	}
	if added && usedAfter > maxCost {
		r.Fail("C03", what+fmt.Sprintf(": admitted, but used'=%d > MaxCost=%d", usedAfter, maxCost), in())
	}
	// ---- C09 oracles
	room := maxCost - (usedBefore + cost)
	if room >= 0 {
		r.Count("add_fits")
		if !added || len(victims) > 0 || len(rounds) > 0 {
			r.Fail("C09", what+fmt.Sprintf(": the item fits (room=%d) but added=%v victims=%v rounds=%d", room, added, victims, len(rounds)), in())
		}
	} else {
		r.Count("add_needs_room")
		if len(rounds) == 0 || inc == nil {
			r.Fail("C09", what+fmt.Sprintf(": room=%d < 0 but no eviction round was observed (added=%v)", room, added), in())
			return
		}
	}
	// evolution of the sample and of the map, recomputed from the observations
	cur := asMap(before)
	var prevScan []ristretto.VerifPair
	var obsVictims []ristretto.VerifPair
	realSeen := map[uint64]bool{}
	hitsOf := map[uint64]int64{}
	if inc != nil {
		hitsOf[key] = *inc
	}
	rejectedRound := false
	for ri, rd := range rounds {
		rw := fmt.Sprintf("%s: round %d (appended=%v scanned=%v hits=%v victim=%v incHits=%d)", what, ri, rd.appended, rd.scanKeys, rd.scanHits, rd.victim, *inc)
		// appended pairs: distinct keys of the current map with their current costs
		seen := map[uint64]bool{}
		for _, ap := range rd.appended {
			c, ok := cur[ap.Key]
			if !ok || c != ap.Cost || seen[ap.Key] {
				r.Fail("C09", rw+fmt.Sprintf(": sampled pair %v is not a distinct resident key with its current cost (map=%v)", ap, cur), in())
			}
			seen[ap.Key] = true
		}
		// sample = what was kept + appended; refill stops at lfuSample or when the map is exhausted
		expect := append(append([]ristretto.VerifPair{}, prevScan...), rd.appended...)
		wantLen := len(prevScan) + len(cur)
		if len(prevScan) >= 5 {
			wantLen = len(prevScan)
		} else if wantLen > 5 {
			wantLen = 5
		}
		if len(rd.scanKeys) != wantLen {
			r.Fail("C09", rw+fmt.Sprintf(": scanned sample has %d entries, expected min(lfuSample, kept %d + resident %d)", len(rd.scanKeys), len(prevScan), len(cur)), in())
		}
		if !sameKeyMultiset(expect, rd.scanKeys) {
			r.Fail("C09", rw+fmt.Sprintf(": scanned sample is not (previous sample minus the victim's slot) + appended = %v", expect), in())
		}
		// estimator constant during one Add
		for i, k := range rd.scanKeys {
			if h, ok := hitsOf[k]; ok && h != rd.scanHits[i] {
				r.Fail("C09", rw+fmt.Sprintf(": estimate of %d changed during Add (%d then %d)", k, h, rd.scanHits[i]), in())
			}
			hitsOf[k] = rd.scanHits[i]
		}
		mn := minOf(rd.scanHits)
		if rd.victim == nil {
			rejectedRound = true
			if !(*inc < mn) {
				r.Fail("C09", rw+fmt.Sprintf(": newcomer rejected although its estimate %d is not below the sample minimum %d", *inc, mn), in())
			}
			break
		}
		if *inc < mn {
			r.Fail("C09", rw+fmt.Sprintf(": newcomer's estimate %d is below the sample minimum %d but it was not rejected", *inc, mn), in())
		}
		// the victim is a sampled pair that attains the minimum, and est(victim) <= est(incoming)
		vi := -1
		for i, k := range rd.scanKeys {
			if k == rd.victim.Key && rd.scanHits[i] == mn && vi < 0 {
				vi = i
			}
		}
		if vi < 0 {
			r.Fail("C09", rw+fmt.Sprintf(": victim %v is not a sampled key attaining the minimum estimate %d", *rd.victim, mn), in())
		} else if rd.scanHits[vi] > *inc {
			r.Fail("C09", rw+fmt.Sprintf(": victim's estimate %d exceeds the newcomer's %d", rd.scanHits[vi], *inc), in())
		}
		// the victim's reported cost is the cost of a sampled copy
		okCost := false
		for _, e := range expect {
			if e.Key == rd.victim.Key && e.Cost == rd.victim.Cost {
				okCost = true
			}
		}
		if !okCost && len(expect) == len(rd.scanKeys) {
			r.Fail("C09", rw+fmt.Sprintf(": victim %v is not one of the sampled pairs %v", *rd.victim, expect), in())
		}
		obsVictims = append(obsVictims, *rd.victim)
		if c, ok := cur[rd.victim.Key]; ok {
			if c != rd.victim.Cost {
				r.Fail("C09", rw+fmt.Sprintf(": real victim reported with cost %d but accounted with %d", rd.victim.Cost, c), in())
			}
			if realSeen[rd.victim.Key] {
				r.Fail("C09", rw+": a real victim was evicted twice", in())
			}
			realSeen[rd.victim.Key] = true
			delete(cur, rd.victim.Key)
		} else {
			d.phantom++
			r.Count("phantom_victim")
		}
		// next round's kept slice: one copy of the victim pair removed
		prevScan = removeOne(expect, *rd.victim)
	}
	if len(rounds) > 1 {
		d.multi++
		r.Count("add_multi_round")
	}
	if !samePairSeq(obsVictims, victims) {
		r.Fail("C09", what+fmt.Sprintf(": returned victims %v differ from the victims chosen in the rounds %v", victims, obsVictims), in())
	}
	if room < 0 {
		if added == rejectedRound {
			r.Fail("C09", what+fmt.Sprintf(": added=%v but a rejecting round was observed=%v", added, rejectedRound), in())
		}
		if added {
			r.Count("add_admitted_after_eviction")
		} else {
			r.Count("add_rejected_by_estimate")
		}
	}
	// evict first, then add: the final map is (before - victims) (+ newcomer)
	if added {
		cur[key] = cost
	}
	if !sameMap(cur, am) {
		r.Fail("C03", what+fmt.Sprintf(": keyCosts'=%v, expected (before - victims)%s = %v", after, map[bool]string{true: " + newcomer", false: ""}[added], cur), in())
	}
}

func samePairs(a, b []ristretto.VerifPair) bool { return samePairSeq(a, b) }

func samePairSeq(a, b []ristretto.VerifPair) bool {
	if len(a) != len(b) {
		return false
	}
	for i := range a {
		if a[i] != b[i] {
			return false
		}
	}
	return true
}

func sameMap(a, b map[uint64]int64) bool {
	if len(a) != len(b) {
		return false
	}
	for k, v := range a {
		if w, ok := b[k]; !ok || w != v {
			return false
		}
	}
	return true
}

func sameKeyMultiset(ps []ristretto.VerifPair, keys []uint64) bool {
	if len(ps) != len(keys) {
		return false
	}
	a := make([]uint64, len(ps))
	for i, p := range ps {
		a[i] = p.Key
	}
	b := append([]uint64{}, keys...)
	sort.Slice(a, func(i, j int) bool { return a[i] < a[j] })
	sort.Slice(b, func(i, j int) bool { return b[i] < b[j] })
	for i := range a {
		if a[i] != b[i] {
			return false
		}
	}
	return true
}

func removeOne(ps []ristretto.VerifPair, v ristretto.VerifPair) []ristretto.VerifPair {
	out := make([]ristretto.VerifPair, 0, len(ps))
	done := false
	for _, p := range ps {
		if !done && p == v {
			done = true
			continue
		}
		out = append(out, p)
	}
	if !done { // same key, other cost (cannot happen on the unchanged code)
		out = out[:0]
		for _, p := range ps {
			if !done && p.Key == v.Key {
				done = true
				continue
			}
			out = append(out, p)
		}
	}
	return out
}

func (d *polDriver) del(key uint64) {
	before := asMap(d.p.KeyCosts())
	d.hist = append(d.hist, fmt.Sprintf("Del(%d)", key))
	d.p.Del(key)
	d.r.Emit("del %d", key)
	d.r.Count("del")
	after, _, _ := d.snap(fmt.Sprintf("Del(%d)", key))
	delete(before, key)
	if !sameMap(before, asMap(after)) {
		d.r.Fail("C03", fmt.Sprintf("Del(%d): keyCosts'=%v, expected %v", key, after, before), d.input())
	}
}

func (d *polDriver) update(key uint64, cost int64) {
	before := asMap(d.p.KeyCosts())
	d.hist = append(d.hist, fmt.Sprintf("Update(%d,%d)", key, cost))
	if prev, ok := before[key]; ok && d.tainted == "" {
		if cost > prev {
			d.tainted = "raising update"
		}
		if cost < 0 {
			d.tainted = "negative cost"
		}
	}
	ca0 := d.p.CostAdded()
	d.p.Update(key, cost)
	ca1 := d.p.CostAdded()
	d.r.Emit("upd %d %d %d", key, cost, ca1-ca0)
	d.r.Count("update")
	after, _, _ := d.snap(fmt.Sprintf("Update(%d,%d)", key, cost))
	if _, ok := before[key]; ok {
		before[key] = cost
		d.r.Count("update_resident")
	}
	if !sameMap(before, asMap(after)) {
		d.r.Fail("C03", fmt.Sprintf("Update(%d,%d): keyCosts'=%v, expected %v", key, cost, after, before), d.input())
	}
}

func (d *polDriver) setMax(m int64) {
	if m < d.p.MaxCost() && d.tainted == "" {
		d.tainted = "MaxCost lowered"
	}
	d.hist = append(d.hist, fmt.Sprintf("UpdateMaxCost(%d)", m))
	d.p.UpdateMaxCost(m)
	d.r.Emit("setmax %d", m)
	d.r.Count("setmax")
	d.snap(fmt.Sprintf("UpdateMaxCost(%d)", m))
}

func (d *polDriver) clear() {
	d.hist = append(d.hist, "Clear()")
	d.p.Clear()
	d.r.Emit("clear")
	d.r.Count("clear")
	after, used, _ := d.snap("Clear()")
	if len(after) != 0 || used != 0 {
		d.r.Fail("C03", fmt.Sprintf("Clear(): keyCosts'=%v used'=%d", after, used), d.input())
	}
	// a cleared policy satisfies the C03 history hypothesis again if MaxCost is sane
	if d.p.MaxCost() >= 0 {
		d.tainted = ""
	}
}

func (d *polDriver) reads(key uint64) {
	kcs := d.p.KeyCosts()
	m := asMap(kcs)
	c := d.p.Cap()
	d.r.Emit("cap %d", c)
	var sum int64
	for _, kc := range kcs {
		sum += kc.Cost
	}
	if c != d.p.MaxCost()-sum {
		d.r.Fail("C03", fmt.Sprintf("Cap()=%d but MaxCost - sum of accounted costs = %d - %d", c, d.p.MaxCost(), sum), d.input())
	}
	if d.tainted == "" && !d.lenient && c < 0 {
		d.r.Fail("C03", fmt.Sprintf("Cap()=%d < 0 although no update raised a cost, MaxCost was never lowered and all costs are >= 0", c), d.input())
	}
	co := d.p.Cost(key)
	d.r.Emit("cost %d %d", key, co)
	want, ok := m[key]
	if !ok {
		want = -1
	}
	if co != want {
		d.r.Fail("C03", fmt.Sprintf("Cost(%d)=%d, accounted %d", key, co, want), d.input())
	}
	h := 0
	if d.p.Has(key) {
		h = 1
	}
	d.r.Emit("has %d %d", key, h)
	if (h == 1) != ok {
		d.r.Fail("C03", fmt.Sprintf("Has(%d)=%d, accounted=%v", key, h, ok), d.input())
	}
	d.r.Count("reads")
}

// streamPolicy: random Add/Del/Update/Clear/UpdateMaxCost/Cap/Cost/Has histories on a real
// defaultPolicy (in-package access), small key universes, costs around the capacity,
// planted access frequencies.  Trace: every op, for Add the observed estimate of the
// newcomer and, per eviction round, the pairs fillSample appended, the scanned sample with
// its estimates and the victim; a full keyCosts/used/maxCost snapshot after every op.
func streamPolicy(r *Run) {
	defer func() { ristretto.VerifObserveFn = nil }()
	caps := []int64{1, 2, 3, 5, 8, 10, 20, 50, 100, 1000, 1 << 40}
	nCases := 24 * r.Scale
	for c := 0; c < nCases; c++ {
		maxCost := caps[r.Rng.Intn(len(caps))]
		universe := 1 + r.Rng.Intn(14)
		keys := make([]uint64, universe)
		for i := range keys {
			if r.Rng.Intn(4) == 0 {
				keys[i] = r.Rng.Uint64()
			} else {
				keys[i] = uint64(r.Rng.Intn(40))
			}
		}
		numCounters := int64(16 << uint(r.Rng.Intn(5)))
		p := ristretto.VerifNewPolicy(numCounters, maxCost)
		d := &polDriver{r: r, p: p}
		negOK := r.Rng.Intn(8) == 0      // a few cases with negative costs
		smallCosts := r.Rng.Intn(3) == 0 // many cheap items: long eviction loops
		r.Emit("pol new %d", maxCost)
		d.hist = append(d.hist, fmt.Sprintf("NewPolicy(numCounters=%d,maxCost=%d)", numCounters, maxCost))
		d.snap("new")
		r.Cases++
		pickCost := func() int64 {
			mc := p.MaxCost()
			if mc < 1 {
				mc = 1
			}
			if smallCosts && r.Rng.Intn(4) != 0 {
				return int64(r.Rng.Intn(int(minI64(mc/4+2, 1<<20))))
			}
			switch x := r.Rng.Intn(20); {
			case x < 2:
				return 0
			case x < 4:
				return 1
			case x < 10:
				return r.Rng.Int63n(mc/3 + 1)
			case x < 12:
				return mc / 2
			case x < 13:
				return mc - 1
			case x < 15:
				return mc
			case x < 16:
				return mc + 1
			case x < 17:
				return mc + 1 + r.Rng.Int63n(mc+1)
			case x < 18 && negOK:
				return -r.Rng.Int63n(mc + 1)
			default:
				return r.Rng.Int63n(mc + 1)
			}
		}
		ops := 40 + r.Rng.Intn(160)
		for i := 0; i < ops && !d.dead; i++ {
			k := keys[r.Rng.Intn(len(keys))]
			switch x := r.Rng.Intn(100); {
			case x < 50:
				if r.Rng.Intn(3) == 0 { // plant a frequency for the newcomer first
					n := 1 + r.Rng.Intn(6)
					p.Plant(k, n)
					d.hist = append(d.hist, fmt.Sprintf("Plant(%d,%d)", k, n))
				}
				d.add(k, pickCost())
			case x < 62:
				kk := keys[r.Rng.Intn(len(keys))]
				n := 1 + r.Rng.Intn(8)
				p.Plant(kk, n)
				d.hist = append(d.hist, fmt.Sprintf("Plant(%d,%d)", kk, n))
				r.Count("plant")
			case x < 72:
				d.del(k)
			case x < 82:
				// all random draws happen before looking at the (enumeration-order dependent)
				// state, so that the op sequence is a function of the seed alone
				coin, raw, alt := r.Rng.Intn(2), r.Rng.Int63(), pickCost()
				co := alt
				if prev := p.Cost(k); prev > 0 && coin == 0 {
					co = raw % (prev + 1) // not raising
				}
				d.update(k, co)
			case x < 84:
				d.clear()
			case x < 89:
				mc := p.MaxCost()
				var nm int64
				switch y := r.Rng.Intn(6); {
				case y < 3:
					nm = mc + 1 + r.Rng.Int63n(mc/2+2) // raise
				case y < 4:
					nm = mc + 1
				case y < 5:
					nm = mc - 1
				default:
					nm = mc/2 + 1 // lower
				}
				if nm < 0 {
					nm = 0
				}
				d.setMax(nm)
			default:
				d.reads(k)
			}
		}
		if d.multi > 0 {
			r.Nontriv++
		}
		if c < 3 {
			r.Sample(fmt.Sprintf("policy maxCost=%d keys=%d: %s", maxCost, universe, strings.Join(d.hist, ";")))
		}
		p.Close()
	}
}

func minI64(a, b int64) int64 {
	if a < b {
		return a
	}
	return b
}

// streamPolicyF9: the corner excluded by the no-overflow hypothesis (DESIGN §6, F9), at the
// policy level: Add/Update with costs next to MaxInt64.  The Int oracles do not apply; the
// stream reports what the implementation does (histogram) and still checks used == (wrapping)
// sum of the accounted costs; the Lean model is exact on int64 words, so the driver validates
// these traces as well.
func streamPolicyF9(r *Run) {
	defer func() { ristretto.VerifObserveFn = nil }()
	big := []int64{math.MaxInt64, math.MaxInt64 - 1, math.MaxInt64 - 55, math.MaxInt64 - 56, math.MaxInt64 / 2, math.MaxInt64/2 + 1, math.MinInt64, math.MinInt64 + 1, -1}
	caps := []int64{1, 10, 55, 56, 57, 1000, math.MaxInt64 / 2, math.MaxInt64 - 1, math.MaxInt64}
	nCases := 12 * r.Scale
	for c := 0; c < nCases; c++ {
		maxCost := caps[r.Rng.Intn(len(caps))]
		p := ristretto.VerifNewPolicy(64, maxCost)
		d := &polDriver{r: r, p: p, lenient: true, tainted: "overflow corner"}
		r.Emit("pol new %d", maxCost)
		d.hist = append(d.hist, fmt.Sprintf("NewPolicy(maxCost=%d)", maxCost))
		d.snap("new")
		r.Cases++
		hit := false
		for i := 0; i < 30 && !d.dead; i++ {
			k := uint64(r.Rng.Intn(6))
			var co int64
			if r.Rng.Intn(2) == 0 {
				co = big[r.Rng.Intn(len(big))]
			} else {
				co = r.Rng.Int63n(20)
			}
			switch r.Rng.Intn(6) {
			case 0:
				d.update(k, co)
			case 1:
				d.del(k)
			case 2:
				d.reads(k)
			default:
				u0 := p.Used()
				d.add(k, co)
				if co == math.MaxInt64 {
					u1 := p.Used()
					r.Count(fmt.Sprintf("f9_add_maxint64_used_%s", signOf(u1)))
					if u1 < 0 && u0 >= 0 {
						hit = true
					}
				}
			}
			if p.Used() < 0 {
				r.Count("f9_used_negative")
				hit = true
			}
		}
		if hit {
			r.Nontriv++
		}
		if c < 2 {
			r.Sample(fmt.Sprintf("policy_f9 maxCost=%d: %s -> used=%d cap=%d", maxCost, strings.Join(d.hist, ";"), p.Used(), p.Cap()))
		}
		p.Close()
	}
}

func signOf(x int64) string {
	switch {
	case x < 0:
		return "negative"
	case x == 0:
		return "zero"
	}
	return "positive"
}
