package harness

// Stream "policy_clear" (C15, C18; direct oracle only): defaultPolicy.Clear — the policy part
// of Cache.Clear — must leave a policy that is indistinguishable from a new one: no accounted
// keys, full capacity, and every access-frequency estimate back to zero (first-access marks and
// counters), so that the cleared cache admits and rejects exactly as a fresh one would.

import (
	"fmt"

	ristretto "github.com/dgraph-io/ristretto/v2"
)

func init() { streams["policy_clear"] = streamPolicyClear }

func streamPolicyClear(r *Run) {
	for c := 0; c < 30*r.Scale; c++ {
		r.Cases++
		nc := []int64{2, 4, 16, 64, 1000}[r.Rng.Intn(5)]
		maxCost := int64(10 + r.Rng.Intn(100))
		p := ristretto.VerifNewPolicy(nc, maxCost)
		keys := make([]uint64, 1+r.Rng.Intn(12))
		hist := fmt.Sprintf("NewPolicy(%d,%d)", nc, maxCost)
		heavy := false
		for i := range keys {
			keys[i] = uint64(r.Rng.Intn(40))
			if r.Rng.Intn(2) == 0 {
				keys[i] = r.Rng.Uint64()
			}
			n := r.Rng.Intn(int(nc) + 3)
			if n > 40 {
				n = 40
			}
			p.Plant(keys[i], n)
			if n >= 2 {
				heavy = true
			}
			hist += fmt.Sprintf("; access %d x%d", keys[i], n)
			if r.Rng.Intn(2) == 0 {
				cost := 1 + r.Rng.Int63n(maxCost/2+1)
				p.Add(keys[i], cost)
				hist += fmt.Sprintf("; Add(%d,%d)", keys[i], cost)
			}
		}
		if heavy {
			r.Nontriv++
		}
		p.Clear()
		hist += "; Clear"
		r.Count("clear")
		if got := p.Cap(); got != maxCost {
			r.Fail("C15", fmt.Sprintf("after Clear the remaining capacity is %d, a fresh policy has %d", got, maxCost), hist)
		}
		if kc := p.KeyCosts(); len(kc) != 0 || p.Used() != 0 {
			r.Fail("C15", fmt.Sprintf("after Clear %d keys are still accounted (used=%d)", len(kc), p.Used()), hist)
		}
		for _, k := range keys {
			if e := p.Estimate(k); e != 0 {
				r.Fail("C15", fmt.Sprintf("after Clear the access-frequency estimate of key %d is %d, a fresh cache has 0 (Clear must zero the counters and the first-access marks)", k, e), hist)
				r.Fail("C18", fmt.Sprintf("after a clear the estimate of key %d is %d instead of 0", k, e), hist)
				break
			}
		}
		if c < 2 {
			r.Sample(hist)
		}
		p.Close()
	}
	r.Emit("policy_clear done")
}
