import RV.Proofs.SketchRow
