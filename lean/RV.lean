import RV.Props.C18
import RV.Props.C19
import RV.Props.C20
import RV.Props.C03
import RV.Props.C09
import RV.Props.C10
import RV.Props.C16
