/-!
Library root.  The modules of this library are built individually (`globs = ["RV.+"]` in
lakefile.toml): `RV.Props.Cxx` for property Cxx, with its proofs in `RV/Proofs`, the models in
`RV/Model` and the kernels regenerated from /repo in `RV/Gen`.
-/
