import RV.Props.C18
