import Drive.Util
/-! Trace validator for the `cache` stream(s).  (stub: to be filled in) -/
namespace Drive.Cache

def run (_h : IO.FS.Stream) : IO Verdict :=
  return { ok := false, lines := 0, checks := 0, msg := "component cache not implemented" }

end Drive.Cache
