import Drive.Util
import RV.Model.Cache
/-!
Trace validator for the cache streams (`cache`, `cache_single`, `cache_collide`, …).

The harness logs, per release of one goroutine by its cooperative scheduler, the yield
points reached (`at G HOOK`), observations (`obs`), callbacks (`cb`), returns (`ret`) and
blocked goroutines (`blk`).  This driver advances the corresponding model thread step by
step until it is at the program counter that the yield point stands for, feeding the
observed nondeterministic choices, and compares callbacks, return values and snapshots.
Any step the model does not allow, or any difference, rejects the trace.
-/
namespace Drive.Cache
open RV RV.Cache

def cTag : CPc → Nat
  | .idle => 0 | .setStart .. => 1 | .setUpd .. => 2 | .setExit .. => 3 | .setSend .. => 4
  | .setRetTrue .. => 5 | .setRetDrop .. => 6 | .delStart .. => 7 | .delExit .. => 8
  | .delSend .. => 9 | .delBlocked .. => 10 | .delSent .. => 11 | .waitStart => 12
  | .waitSend => 13 | .waitBlocked .. => 14 | .waitRecv .. => 15 | .waitDone => 16
  | .getStart .. => 17 | .getRead .. => 18 | .getCheck .. => 19 | .getMetric .. => 20
  | .ttlRead .. => 21 | .ttlCheck .. => 22 | .ttlExp .. => 23 | .ttlNow .. => 24
  | .ttlUntil .. => 25 | .iterStart .. => 26 | .iterShard .. => 27 | .clrStart .. => 28
  | .clrStop .. => 29 | .clrDone .. => 30 | .clrDrain .. => 31 | .clrPolicy .. => 32
  | .clrShard .. => 33 | .clrEm .. => 34 | .clrMetrics .. => 35 | .clrRestart .. => 36
  | .clsStop => 37 | .clsDone => 38 | .clsFinish => 39 | .updMax .. => 40 | .readMax => 41
  | .readRem => 42

def aTag : APc → Nat
  | .idle => 0 | .marker .. => 1 | .item .. => 2 | .costed .. => 3 | .added .. => 4
  | .victims .. => 5 | .victimEvict .. => 6 | .tombPolicy .. => 7 | .tombStore .. => 8
  | .tick => 9 | .sweep .. => 10 | .swKey .. => 11 | .swPolDel .. => 13
  | .swStoreDel .. => 14 | .stopAck => 15 | .dead => 16

structure D where
  cfg : Cfg := { bufCap := 1, ignoreInternal := true, costFn := none, shouldUpdate := none, metricsOn := false, maxCost := 1 }
  s : State := init { bufCap := 1, ignoreInternal := true, costFn := none, shouldUpdate := none, metricsOn := false, maxCost := 1 } 0
  started : Bool := false
  cur : String := ""
  obs : List (Nat × Nat × Nat) := []
  cbs : List Ev := []              -- observed callbacks of the current release (chronological)
  logLen : Nat := 0                -- model log length at the start of the current release
  iterSeen : Option (List Val) := none
  bufferItems : Nat := 0           -- Config.BufferItems: the ring stripe flushes exactly this many keys
  cover : List (String × Nat) := []

def costFnImpl (v : Val) : Int := ((v % 5 : Nat) : Int) * 9 + 1
def suImpl (cur _prev : Val) : Bool := cur % 4 != 0

def kv (ws : List String) (k : String) : Option String :=
  ws.findSome? fun w => match w.splitOn "=" with
    | [a, b] => if a == k then some b else none
    | _ => none

def clientId (g : String) : Option Nat :=
  if g.startsWith "c" then (g.drop 1).toNat? else none

def h64? (s : String) : Option Hash := (s.toNat?).map (BitVec.ofNat 64)

/-- model callbacks logged since `from` (chronological) -/
def newCallbacks (s : State) (since : Nat) : List Ev :=
  ((s.log.take (s.log.length - since)).reverse).filter fun e =>
    match e with | .exit .. => true | .evict .. => true | .reject .. => true | _ => false

def evStr : Ev → String
  | .exit v => s!"exit {v}"
  | .evict h c v cost => s!"evict {h.toNat} {c.toNat} {v} {cost}"
  | .reject h c v cost => s!"reject {h.toNat} {c.toNat} {v} {cost}"
  | _ => "?"

/-- compare the callbacks of the finished release -/
def finishRelease (d : D) : Except String D :=
  let model := newCallbacks d.s d.logLen
  if model == d.cbs then .ok { d with cbs := [], obs := [], logLen := d.s.log.length, cur := "" }
  else .error s!"callbacks of release '{d.cur}': implementation {d.cbs.map evStr}, model {model.map evStr}"

def takeObs (d : D) (id : Nat) : Option ((Nat × Nat) × D) :=
  let rec go (pre : List (Nat × Nat × Nat)) (l : List (Nat × Nat × Nat)) : Option ((Nat × Nat) × List (Nat × Nat × Nat)) :=
    match l with
    | [] => none
    | (i, a, b) :: rest => if i == id then some ((a, b), pre.reverse ++ rest) else go ((i, a, b) :: pre) rest
  match go [] d.obs with
  | some (ab, rest) => some (ab, { d with obs := rest })
  | none => none

def stepD (d : D) (a : Action) (what : String) : Except String D :=
  match step d.cfg d.s a with
  | some s' => .ok { d with s := s' }
  | none => .error s!"model does not allow: {what}"

/-- key holding value `v` in the store -/
def keyOfVal (st : Store) (v : Val) : Option Hash :=
  (st.toList.find? (fun p => p.2.value == v)).map (·.1)

/-- enumeration order of shard `k` consistent with what was observed -/
def shardOrderFrom (st : Store) (k : Nat) (observed : List Hash) : List Hash :=
  let inShard := shardKeys st k
  let first := observed.filter (fun h => inShard.contains h)
  first ++ inShard.filter (fun h => !first.contains h)

def evictedKeys (cbs : List Ev) : List Hash :=
  cbs.filterMap fun e => match e with | .evict h _ _ _ => some h | _ => none

/-- the choice the next step of client `t` needs -/
def clientChoice (d : D) (t : Tid) : Choice × D :=
  match d.s.cl t with
  | .getStart .. =>
    match takeObs d 66 with
    | some ((kept, n), d') =>
      -- ringStripe.Push hands the consumer a full stripe: exactly BufferItems keys
      if d.bufferItems != 0 && n != d.bufferItems then (.flush (kept == 1) 0, d') else (.flush (kept == 1) n, d')
    | none => (.none, d)
  | .clrShard _ k => (.order (shardOrderFrom d.s.store k (evictedKeys d.cbs)), d)
  | .iterShard k _ seen =>
    match d.iterSeen with
    | none => (.order (shardKeys d.s.store k), d)
    | some all =>
      let rest := all.drop seen.length
      (.order (shardOrderFrom d.s.store k (rest.filterMap (keyOfVal d.s.store))), d)
  | _ => (.none, d)

def blockedTag (t : Nat) : Bool := t == 10 || t == 14 || t == 15 || t == 29 || t == 30 || t == 37 || t == 38

/-- advance client `t` until its pc tag is in `allowed` -/
def advClient (d : D) (t : Tid) (allowed : Nat → Bool) (fuel : Nat) (why : String) : Except String D :=
  match fuel with
  | 0 => .error s!"client {t}: no progress towards {why}"
  | fuel + 1 =>
    if allowed (cTag (d.s.cl t)) then .ok d else
    let (ch, d1) := clientChoice d t
    match step d1.cfg d1.s (.client t ch) with
    | some s' => advClient { d1 with s := s' } t allowed fuel why
    | none => .error s!"client {t} at pc tag {cTag (d.s.cl t)}: model has no step towards {why}"

/-- advance client `t` through Clear's shard steps until it stands before shard `k`
(or, after the last shard, before the expiry-index reset) -/
def advClientShard (d : D) (t : Tid) (k : Nat) (fuel : Nat) : Except String D :=
  match fuel with
  | 0 => .error s!"client {t}: no progress towards shard {k} of Clear"
  | fuel + 1 =>
    match d.s.cl t with
    | .clrShard _ j =>
      if j == k then .ok d else
      let (ch, d1) := clientChoice d t
      match step d1.cfg d1.s (.client t ch) with
      | some s' => advClientShard { d1 with s := s' } t k fuel
      | none => .error s!"client {t}: model has no step for shard {j} of Clear"
    | pc => if cTag pc == 34 then .ok d else .error s!"client {t} at pc tag {cTag pc}: not inside Clear's shard loop (vpClearShard)"

def offering (d : D) : Option Tid :=
  (List.range 16).find? fun t => match d.s.cl t with | .clrStop _ => true | .clsStop => true | _ => false

def victimsOfObs (obs : List (Nat × Nat × Nat)) : List (Hash × Int) :=
  obs.filterMap fun (i, a, b) => if i == 63 then some (BitVec.ofNat 64 a, (BitVec.ofNat 64 b).toInt) else none

def applierChoice (d : D) (hook : Nat) : Except String (Choice × D) :=
  match d.s.app with
  | .idle =>
    if hook == 30 then .ok (.selItem, d)
    else if hook == 41 then .ok (.selTick, d)
    else if hook == 43 then
      match offering d with
      | some t => .ok (.selStop t, d)
      | none => .error "applier took `stop` but no client offers it in the model"
    else .error s!"applier idle but hook {hook} reached"
  | .costed i =>
    match i.flag with
    | .new =>
      let vs := victimsOfObs d.obs
      let added := d.obs.any fun (i, a, _) => i == 33 && a == 1
      .ok (.add vs added, { d with obs := d.obs.filter fun (i, _, _) => !(i == 63 || i == 33 || i == 60 || i == 61 || i == 62) })
    | _ => .ok (.none, d)
  | .sweep _ bs =>
    match firstNonEmpty bs with
    | [] => .ok (.none, d)
    | _ =>
      match takeObs d 51 with
      | some ((k, _), d') => .ok (.key (BitVec.ofNat 64 k), d')
      | none => .error "sweep: no observed key"
  | _ => .ok (.none, d)

def advApplier (d : D) (hook : Nat) (allowed : Nat → Bool) (force : Bool) (fuel : Nat) : Except String D :=
  match fuel with
  | 0 => .error s!"applier: no progress towards hook {hook}"
  | fuel + 1 =>
    if !force && allowed (aTag d.s.app) then .ok d else
    match applierChoice d hook with
    | .error e => .error e
    | .ok (ch, d1) =>
      match step d1.cfg d1.s (.applier ch) with
      | some s' => advApplier { d1 with s := s' } hook allowed false fuel
      | none => .error s!"applier at pc tag {aTag d.s.app}: model has no step towards hook {hook}"

def applierAllowed (hook : Nat) : Option (Nat → Bool) :=
  match hook with
  | 30 => some (fun t => t == 1 || t == 2)
  | 31 => some (· == 0)
  | 32 => some (· == 3)
  | 33 => some (· == 4)
  | 34 => some (fun t => t == 5 || t == 0)
  | 35 => some (· == 5)
  | 36 => some (· == 6)
  | 37 => some (· == 0)
  | 38 => some (· == 7)
  | 39 => some (· == 8)
  | 40 => some (· == 0)
  | 41 => some (· == 9)
  | 42 => some (· == 0)
  | 43 => some (· == 15)
  | 50 => some (· == 10)
  | 51 => some (· == 11)
  | 53 => some (· == 13)
  | 54 => some (· == 14)
  | _ => none

/-- a client reached yield point `hook` -/
def clientAt (d : D) (t : Tid) (hook : Nat) : Except String D := do
  let tag := cTag (d.s.cl t)
  let isTtl := tag ≥ 21 && tag ≤ 25
  match hook with
  | 100 => .ok d
  | 1 => advClient d t (· == 3) 8 "vpSetAfterUpdate"
  | 2 => advClient d t (· == 4) 8 "vpSetBeforeSend"
  | 3 => advClient d t (· == 5) 8 "vpSetSent"
  | 4 => advClient d t (· == 6) 8 "vpSetDropped"
  | 5 => advClient d t (· == 8) 8 "vpDelAfterStore"
  | 6 => advClient d t (· == 9) 8 "vpDelBeforeSend"
  | 7 => advClient d t (· == 11) 8 "vpDelSent"
  | 8 => advClient d t (· == 13) 8 "vpWaitBeforeSend"
  | 9 => advClient d t (· == 15) 8 "vpWaitSent"
  | 10 => advClient d t (· == 16) 8 "vpWaitDone"
  | 11 => advClient d t (· == 18) 8 "vpGetBeforeStore"
  | 12 => advClient d t (· == 20) 8 "vpGetAfterStore"
  | 24 => advClient d t (· == 23) 8 "vpTtlAfterGet"
  | 25 => advClient d t (· == 24) 8 "vpTtlAfterExp"
  | 26 => advClient d t (· == 25) 8 "vpTtlAfterNow"
  | 27 => advClient d t (· == 2) 8 "vpSetAfterClock"
  | 23 => if isTtl then advClient d t (· == 22) 8 "vpLockedGetRead" else advClient d t (· == 19) 8 "vpLockedGetRead"
  | 13 =>
    let d1 ← advClient d t (fun x => x == 29 || x == 30) 8 "vpClearStopSent"
    if cTag (d1.s.cl t) == 29 then stepD d1 (.applier (.selStop t)) "applier receives stop" else .ok d1
  | 21 =>
    let d1 ← advClient d t (fun x => x == 37 || x == 38) 8 "vpCloseStopSent"
    if cTag (d1.s.cl t) == 37 then stepD d1 (.applier (.selStop t)) "applier receives stop (close)" else .ok d1
  | 14 => if cTag (d.s.cl t) == 31 then .ok d else stepD d (.done t) "done rendezvous (clear)"
  | 22 => if cTag (d.s.cl t) == 39 then .ok d else stepD d (.done t) "done rendezvous (close)"
  | 16 => advClient d t (· == 32) 100000 "vpClearDrained"
  | 17 => advClient d t (· == 33) 8 "vpClearPolicy"
  | 28 =>
    -- one shard (observed index i) has been wiped: the client stands before shard i+1
    match takeObs d 28 with
    | some ((i, _), d') => advClientShard d' t (i + 1) 1000
    | none => .error "vpClearShard without its observation"
  | 18 => advClient d t (· == 35) 1000 "vpClearStore"
  | 19 => advClient d t (· == 36) 8 "vpClearMetrics"
  | 20 => advClient d t (· == 37) 8 "vpCloseCleared"
  | _ => .error s!"unknown client hook {hook}"

def applierAt (d : D) (hook : Nat) : Except String D :=
  if hook == 44 then
    if aTag d.s.app == 16 then .ok d else
    match (List.range 16).find? (fun t => match d.s.cl t with | .clrDone _ => true | .clsDone => true | _ => false) with
    | some t => stepD d (.done t) "done rendezvous"
    | none => .error "applier sent `done` but no client waits for it in the model"
  else if hook == 43 then
    -- which blocked sender the runtime served is only known from that client's own arrival at
    -- vpClearStopSent / vpCloseStopSent (same release); the step is taken there.
    if aTag d.s.app == 15 || (aTag d.s.app == 0 && (offering d).isSome) then .ok d
    else .error "applier took `stop` but no client offers it in the model"
  else
    match applierAllowed hook with
    | none => .error s!"unknown applier hook {hook}"
    | some allowed => advApplier d hook allowed (hook == 51 && aTag d.s.app == 11) 100000

def lastRet (s : State) (since : Nat) (t : Tid) : Option Ev :=
  (s.log.take (s.log.length - since)).find? fun e =>
    match e with
    | .setRet t' .. | .getRet t' .. | .ttlRet t' .. | .delRet t' .. | .waitRet t' | .clearRet t'
    | .closeRet t' | .iterRet t' .. | .maxRet t' .. | .remRet t' .. => t' == t
    | _ => false

def parseVals (s : String) : List Val :=
  if s == "-" then [] else (s.splitOn ",").filterMap (·.toNat?)

def clientRet (d : D) (t : Tid) (res : List String) : Except String D := do
  let before := d.s.log.length
  let d0 := match res with
    | ["iter", vs] => { d with iterSeen := some (parseVals vs) }
    | _ => d
  let d1 ← advClient d0 t (· == 0) 100000 "return"
  let d1 := { d1 with iterSeen := none }
  let ev := lastRet d1.s (min before d.logLen) t
  let bad (m : String) : Except String D := .error s!"return of client {t}: implementation {res}, model {m}"
  match res, ev with
  | ["set", b], some (.setRet _ _ ok) => if (b == "1") == ok then .ok d1 else bad s!"set {ok}"
  | ["get", f, v], some (.getRet _ _ _ r) =>
    let exp := if f == "1" then v.toNat? else none
    if exp == r && (f == "1" || v == "0") then .ok d1 else bad s!"get {r}"
  | ["getttl", f, dur], some (.ttlRet _ _ _ dd ok) =>
    if (f == "1") == ok && dur.toInt? == some dd then .ok d1 else bad s!"getttl {ok} {dd}"
  | ["del"], some (.delRet ..) => .ok d1
  | ["wait"], some (.waitRet ..) => .ok d1
  | ["clear"], some (.clearRet ..) => .ok d1
  | ["close"], some (.closeRet ..) => .ok d1
  | ["iter", vs], some (.iterRet _ seen) => if parseVals vs == seen then .ok d1 else bad s!"iter {seen}"
  | ["max", m], some (.maxRet _ mm) => if m.toInt? == some mm then .ok d1 else bad s!"max {mm}"
  | ["rem", m], some (.remRet _ mm) => if m.toInt? == some mm then .ok d1 else bad s!"rem {mm}"
  | ["updmax"], _ => .ok d1
  | ["panic"], _ => .error s!"client {t} panicked in the implementation"
  | _, _ => bad "(no matching return event)"

def parseCall (ws : List String) : Option Call :=
  match ws with
  | ["set", h, c, v, cost, ttl] =>
    match h64? h, h64? c, v.toNat?, cost.toInt?, ttl.toInt? with
    | some h, some c, some v, some cost, some ttl => some (.set h c v cost ttl)
    | _, _, _, _, _ => none
  | ["get", h, c] => match h64? h, h64? c with | some h, some c => some (.get h c) | _, _ => none
  | ["getttl", h, c] => match h64? h, h64? c with | some h, some c => some (.getTTL h c) | _, _ => none
  | ["del", h, c] => match h64? h, h64? c with | some h, some c => some (.del h c) | _, _ => none
  | ["wait"] => some .wait
  | ["clear"] => some .clear
  | ["close"] => some .close
  | ["iter", n] => n.toNat?.map .iter
  | ["updmax", m] => m.toInt?.map .updateMaxCost
  | ["max"] => some .maxCost
  | ["rem"] => some .remainingCost
  | _ => none

def sortBy {α} (lt : α → α → Bool) (l : List α) : List α := (l.toArray.qsort lt).toList

def snapStore (s : State) : String :=
  let es := sortBy (fun (a b : Hash × Entry) => a.1.toNat < b.1.toNat) s.store.toList
  ",".intercalate (es.map fun (h, e) =>
    s!"{h.toNat}:{e.conflict.toNat}:{e.value}:{if e.exp == Gen.zeroTime then 0 else e.exp}")

def snapPol (s : State) : String :=
  let es := sortBy (fun (a b : Hash × Int) => a.1.toNat < b.1.toNat) s.pol.costs.toList
  ",".intercalate (es.map fun (h, c) => s!"{h.toNat}:{c}")

def snapEm (s : State) : String :=
  let bs := sortBy (fun (a b : Int × AMap Hash Conf) => a.1 < b.1) s.em.buckets.toList
  let parts := bs.flatMap fun (b, m) =>
    (sortBy (fun (a c : Hash × Conf) => a.1.toNat < c.1.toNat) m.toList).map fun (h, c) => s!"{b}:{h.toNat}:{c.toNat}"
  ",".intercalate parts

def snapMet (d : D) : String :=
  if !d.cfg.metricsOn then "-" else
  let m := d.s.met
  ",".intercalate ([m.hit, m.miss, m.keyAdd, m.keyUpdate, m.keyEvict, m.costAdd, m.costEvict, m.dropSets,
    m.rejectSets, m.dropGets, m.keepGets].map fun x => toString x.toNat)

def checkSnap (d : D) (ws : List String) : Except String D := do
  let get (k : String) := (kv ws k).getD ""
  let cmp (k : String) (model : String) : Except String Unit :=
    if get k == model then .ok () else .error s!"snapshot {k}: implementation '{get k}', model '{model}'"
  cmp "store" (snapStore d.s)
  cmp "pol" (snapPol d.s)
  cmp "used" (toString d.s.pol.used)
  cmp "max" (toString d.s.pol.maxCost)
  cmp "last" (toString d.s.em.lastCleaned)
  cmp "em" (snapEm d.s)
  cmp "met" (snapMet d)
  .ok d

def stepLine (d : D) (_n : Nat) (ws : List String) : Except String (D × Nat) :=
  match ws with
  | ["case", _] => .ok ({ cover := d.cover }, 0)
  | "cfg" :: rest =>
    let b (k : String) := kv rest k == some "1"
    match (kv rest "bufcap").bind (·.toNat?), (kv rest "maxcost").bind (·.toInt?), (kv rest "now").bind (·.toInt?) with
    | some cap, some mc, some now =>
      let cfg : Cfg := { bufCap := cap, ignoreInternal := b "ignoreinternal", metricsOn := b "metrics", maxCost := mc,
                         costFn := if b "costfn" then some costFnImpl else none,
                         shouldUpdate := if b "su" then some suImpl else none }
      .ok ({ d with cfg := cfg, s := init cfg now, started := true, logLen := 0,
                    bufferItems := ((kv rest "bufferitems").bind (·.toNat?)).getD 0 }, 0)
    | _, _, _ => .error "bad cfg"
  | "spawn" :: g :: call =>
    match clientId g, parseCall call with
    | some t, some c => do
      let d1 ← if d.cur != "" then finishRelease d else .ok d
      let d2 ← stepD d1 (.spawn t c) s!"spawn {g} {call}"
      .ok ({ d2 with logLen := d2.s.log.length }, 0)
    | _, _ => .error s!"bad spawn {ws}"
  | ["rel", g] => do
    let d1 ← if d.cur != "" then finishRelease d else .ok d
    .ok ({ d1 with cur := g, logLen := d1.s.log.length }, 0)
  | ["obs", i, a, b] =>
    match i.toNat?, a.toNat?, b.toNat? with
    | some i, some a, some b => .ok ({ d with obs := d.obs ++ [(i, a, b)] }, 0)
    | _, _, _ => .error "bad obs"
  | ["cb", "exit", v] =>
    match v.toNat? with
    | some v => .ok ({ d with cbs := d.cbs ++ [.exit v] }, 0)
    | none => .error "bad cb"
  | ["cb", kind, h, c, v, cost] =>
    match h64? h, h64? c, v.toNat?, cost.toInt? with
    | some h, some c, some v, some cost =>
      if kind == "evict" then .ok ({ d with cbs := d.cbs ++ [.evict h c v cost] }, 0)
      else if kind == "reject" then .ok ({ d with cbs := d.cbs ++ [.reject h c v cost] }, 0)
      else .error "bad cb kind"
    | _, _, _, _ => .error "bad cb"
  | ["at", g, hook] =>
    match hook.toNat? with
    | none => .error "bad at"
    | some hook =>
      if g == "pol" then .ok (d, 0)
      else if g == "app" then (applierAt d hook).map (·, 1)
      else match clientId g with
        | some t => (clientAt d t hook).map (·, 1)
        | none => .error s!"unknown goroutine {g}"
  | ["blk", g] =>
    match clientId g with
    | some t => (advClient d t blockedTag 16 "a blocking point").map (·, 1)
    | none => .ok (d, 0)
  | "ret" :: g :: res =>
    match clientId g with
    | some t => (clientRet d t res).map (·, 1)
    | none => .error s!"bad ret {ws}"
  | ["tick", n] =>
    match n.toNat? with
    | some n => do
      let d1 ← if d.cur != "" then finishRelease d else .ok d
      let d2 ← stepD d1 (.tick n) "tick"
      .ok ({ d2 with cur := "tick", logLen := d2.s.log.length }, 0)
    | none => .error "bad tick"
  | "snap" :: rest => do
    let d1 ← if d.cur != "" then finishRelease d else .ok d
    let d2 ← checkSnap d1 rest
    .ok (d2, 1)
  | ["end"] => do
    let d1 ← if d.cur != "" then finishRelease d else .ok d
    .ok (d1, 1)
  | _ => .error s!"unknown record {ws}"

def run (h : IO.FS.Stream) : IO Verdict := runLines h ({} : D) stepLine

end Drive.Cache
