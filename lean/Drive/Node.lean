import Drive.Util
import RV.Model.NodeFlat
/-!
Trace validator for the `node` stream (C10 / C16): every call of a `node` method that the
harness made on a real page is replayed on the function go2lean generated from that method
(`Gen.Node.*`), the result (or the panic) is compared, and after every call **every word of the
page** is compared.  Also compared: the harness's own verdict on the well-formedness of the page
with the model's `PageOk`, and the entries it read through `key(i)`/`val(i)` with `ents`.

Records (one per line):
  cfg <pageSize> <maxKeys> <words>     page geometry (checked against `Cfg.ofPageSize`)
  new <bit> <pid>                      zeroed page; setBit(bit); setAt(keyOffset(maxKeys), pid)
  raw <w0> <w1> …                      the page is overwritten with these words
  op <name> <args…> ret <result…>      result `panic` = the implementation panicked; `assert` = the
                                       harness did not make the call because its assert (log.Fatalf,
                                       not recoverable) would fire: the model must panic
  pg <w0> <w1> …                       the page after the last call
  pd <i> <w> <i> <w> …                 the same, as the list of words that differ from the last dump
  wf <0|1>                             the harness's check of the page invariant
  ents <k0> <v0> <k1> <v1> …           key(i), val(i) for i < numKeys
-/
namespace Drive.Node
open RV.NodeFlat

structure St where
  maxK : Nat := 0
  words : Nat := 0
  page : Array (BitVec 64) := #[]
  /-- the implementation's page as of the last dump (`pd` records are relative to it) -/
  last : Array (BitVec 64) := #[]
  /-- the implementation panicked in the middle of the last call: its page is taken as is -/
  resync : Bool := false

def wmk (st : St) : BitVec 64 := BitVec.ofNat 64 st.maxK

def parseWords (ws : List String) : Option (Array (BitVec 64)) :=
  (ws.mapM u64?).map List.toArray

/-- the first index at which two pages differ -/
def firstDiff (a b : Array (BitVec 64)) : Option Nat :=
  if a.size != b.size then some (min a.size b.size) else
  (List.range a.size).find? fun i => a[i]! != b[i]!

/-- a call that returns a value and does not write the page -/
def rdOp (st : St) (name : String) (model : Option String) (impl : List String) : Except String (St × Nat) :=
  match model, impl with
  | none, ["panic"] => .ok ({ st with resync := true }, 1)
  | none, ["assert"] => .ok (st, 1)
  | some m, [r] =>
    if r == "panic" || r == "assert" then .error s!"{name}: implementation panics / asserts, model returns {m}"
    else if m == r then .ok (st, 1) else .error s!"{name}: implementation {r}, model {m}"
  | none, r => .error s!"{name}: model panics, implementation returned {r}"
  | some m, r => .error s!"{name}: bad result field {r} (model {m})"

/-- a call that writes the page (and may return a value) -/
def wrOp (st : St) (name : String) (model : Option (Array (BitVec 64) × String)) (impl : List String) :
    Except String (St × Nat) :=
  match model, impl with
  | none, ["panic"] => .ok ({ st with resync := true }, 1)
  | none, ["assert"] => .ok (st, 1)   -- not called by the harness: its assert (log.Fatalf) would fire
  | some (p, m), [r] =>
    if r == "panic" || r == "assert" then .error s!"{name}: implementation panics / asserts, model returns {m}"
    else if m == r then .ok ({ st with page := p }, 1) else .error s!"{name}: implementation {r}, model {m}"
  | none, r => .error s!"{name}: model panics, implementation returned {r}"
  | some (_, m), r => .error s!"{name}: bad result field {r} (model {m})"

/-- compare the model's page with the implementation's, word by word -/
def pageCheck (st : St) (q : Array (BitVec 64)) : Except String (St × Nat) :=
  if q.size != st.words then .error "page dump: wrong number of words" else
  if st.resync then .ok ({ st with page := q, last := q, resync := false }, 0) else
  match firstDiff q st.page with
  | none => .ok ({ st with last := q }, st.words)
  | some i => .error s!"page differs at word {i}: implementation {(q[i]!).toNat}, model {(st.page[i]!).toNat}"

def showU (x : BitVec 64) : String := toString x.toNat
def showI (x : BitVec 64) : String := toString x.toInt
def showB (b : Bool) : String := if b then "true" else "false"

def step (st : St) (_n : Nat) (ws : List String) : Except String (St × Nat) :=
  let mk := wmk st
  let p := st.page
  match ws with
  | ["cfg", ps, m, wd] =>
    match nat? ps, nat? m, nat? wd with
    | some ps, some m, some wd =>
      if (RV.Tree.Cfg.ofPageSize ps).maxKeys != m then .error s!"maxKeys {m} is not pageSize/16-1 for page size {ps}"
      else if wd != ps / 8 then .error s!"{wd} words for page size {ps}"
      else if wd != 2 * (m + 1) then .error s!"{wd} words, expected 2*(maxKeys+1) = {2 * (m + 1)}"
      else .ok ({ maxK := m, words := wd, page := zeroPage m }, 1)
    | _, _, _ => .error "bad cfg"
  | ["new", bit, pid] =>
    match u64? bit, u64? pid with
    | some bit, some pid =>
      match (Gen.Node.setBit (zeroPage st.maxK) mk bit).bind fun q => Gen.Node.setAt q (Gen.Tree.keyOffset mk) pid with
      | some q => .ok ({ st with page := q, resync := false }, 0)
      | none => .error "new: model panics"
    | _, _ => .error "bad new"
  | "raw" :: rest =>
    match parseWords rest with
    | some q => if q.size == st.words then .ok ({ st with page := q, last := q, resync := false }, 0) else .error "raw: wrong number of words"
    | none => .error "bad raw"
  | "pg" :: rest =>
    match parseWords rest with
    | none => .error "bad pg"
    | some q => pageCheck st q
  | "pd" :: rest =>
    -- the implementation's page = its last dump with these words replaced
    match rest.mapM nat? with
    | none => .error "bad pd"
    | some xs =>
      if st.last.size != st.words then .error "pd before any full dump" else
      let rec apply (q : Array (BitVec 64)) : List Nat → Option (Array (BitVec 64))
        | i :: v :: r => if i < q.size then apply (q.set! i (BitVec.ofNat 64 v)) r else none
        | [] => some q
        | _ => none
      match apply st.last xs with
      | none => .error "bad pd (index out of range / odd length)"
      | some q => pageCheck st q
  | ["wf", b] =>
    let m := decide (PageOk st.maxK p)
    if (b == "1") == m then .ok (st, 1) else .error s!"page invariant: harness says {b}, model PageOk = {m}"
  | "ents" :: rest =>
    match parseWords rest with
    | none => .error "bad ents"
    | some q =>
      let es := ents st.maxK p
      let flat := (es.flatMap fun e => [e.1, e.2]).toArray
      if flat == q then .ok (st, es.length + 1) else .error s!"entries differ: implementation {q.toList.map (·.toNat)}, model {flat.toList.map (·.toNat)}"
  | "op" :: name :: rest =>
    let args := rest.takeWhile (· != "ret")
    let ret := (rest.dropWhile (· != "ret")).drop 1
    match name, args.mapM i64? with
    | _, none => .error s!"bad arguments of {name}"
    | "uint64", some [i] => rdOp st name ((Gen.Node.uint64 p i).map showU) ret
    | "numKeys", some [] => rdOp st name ((Gen.Node.numKeys p mk).map showI) ret
    | "pageID", some [] => rdOp st name ((Gen.Node.pageID p mk).map showU) ret
    | "key", some [i] => rdOp st name ((Gen.Node.key p i).map showU) ret
    | "val", some [i] => rdOp st name ((Gen.Node.val p i).map showU) ret
    | "bits", some [] => rdOp st name ((Gen.Node.bits p mk).map showU) ret
    | "isLeaf", some [] => rdOp st name ((Gen.Node.isLeaf p mk).map showB) ret
    | "isFull", some [] => rdOp st name ((Gen.Node.isFull p mk).map showB) ret
    | "search", some [k] => rdOp st name ((Gen.Node.search p mk k).map showI) ret
    | "maxKey", some [] => rdOp st name ((Gen.Node.maxKey p mk).map showU) ret
    | "get", some [k] => rdOp st name ((Gen.Node.get p mk k).map showU) ret
    | "setAt", some [i, v] => wrOp st name ((Gen.Node.setAt p i v).map fun q => (q, "ok")) ret
    | "setNumKeys", some [n] => wrOp st name ((Gen.Node.setNumKeys p mk n).map fun q => (q, "ok")) ret
    | "setBit", some [b] => wrOp st name ((Gen.Node.setBit p mk b).map fun q => (q, "ok")) ret
    | "moveRight", some [lo] => wrOp st name ((Gen.Node.moveRight p mk lo).map fun q => (q, "ok")) ret
    | "zeroOut", some [lo, hi] =>
      wrOp st name ((Gen.window p lo hi (fun d => Gen.Node.zeroOut d)).map fun q => (q, "ok")) ret
    | "compact", some [lo] => wrOp st name ((Gen.Node.compact p mk lo).map fun (q, r) => (q, showI r)) ret
    | "set", some [k, v] => wrOp st name ((Gen.Node.set p mk k v).map fun (q, r) => (q, showI r)) ret
    | "iterate", some [] =>
      -- the harness's callback marks every slot it is called for (val(i) ^= 0x5555) and records i;
      -- the same callback is given to the generated function, so the page comparison checks the
      -- set of visited slots; the recorded order must be 0, 1, 2, …
      let cb := fun (q : Array (BitVec 64)) (i : BitVec 64) =>
        (Gen.rd q (Gen.Tree.valOffset i)).bind fun v => Gen.wr q (Gen.Tree.valOffset i) (v ^^^ 21845#64)
      let model := (Gen.Node.iterate p mk cb).map fun q => (q, "ok")
      match ret with
      | ["panic"] => wrOp st name model ret
      | _ =>
        match ret.mapM nat? with
        | none => .error "bad iterate result"
        | some seen =>
          if seen == List.range seen.length then wrOp st name model ["ok"]
          else .error s!"iterate: implementation visited {seen}"
    | _, some _ => .error s!"unknown operation {name} / wrong arity"
  | _ => .error s!"unknown record {ws.take 3}"

def run (h : IO.FS.Stream) : IO Verdict := runLines h ({} : St) step

end Drive.Node
