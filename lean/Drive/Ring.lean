import Drive.Util
import RV.Model.Ring
/-!
Trace validator for the `ring` stream (C17 / C18): real `ringStripe` / `ringBuffer` in front of the
real `defaultPolicy.Push`, policy goroutine and `tinyLFU`, replayed against `RV/Model/Ring.lean`.

  ring <capa> <metrics 0|1> <numCounters> <seed0..3> <doorEntries> <doorLocs>      new case
  door <exp> <size> <locs> <shift>                 observed doorkeeper parameters
  push <i> <key> <0 | 1 <outcome> <batch…>>        `ringBuffer.Push`, the pool returned stripe i
  pushnew <key> <0 | 1 <outcome> <batch…>>         …, the pool created a stripe
       outcome ∈ kept | dropped | closed; batch = what the stripe handed to `defaultPolicy.Push`
  lose <i> | recv <len> | apply | stop | close | polclear | metclear
  snap <GetsKept> <GetsDropped> <len(itemsCh)> <closed 0|1> <nStripes> {<len> <key>…}
  est <key> <value>
  tsnap <incrs> <resetAt> <doorElemNum> <door hex> <row0> <row1> <row2> <row3>
-/
namespace Drive.Ring
open RV.Ring

structure St where
  s : Option Sys := none

def outcomeName : Outcome → String
  | .closed => "closed"
  | .empty => "empty"
  | .kept => "kept"
  | .dropped => "dropped"

def showKeys (ks : List Key) : String := toString (ks.map BitVec.toNat)

/-- compare what the model's step handed over with what the implementation did -/
def checkPush (old new : Sys) (obs : List String) : Except String Nat :=
  let grew := new.handed.length > old.handed.length
  match obs with
  | ["0"] =>
    if grew then
      match new.handed.getLast? with
      | some (b, o) => .error s!"the implementation did not drain the stripe; the model hands over {showKeys b} ({outcomeName o})"
      | none => .error "internal"
    else .ok 1
  | "1" :: oc :: ks =>
    match ks.mapM u64? with
    | none => .error "bad batch"
    | some ks =>
      if !grew then .error s!"the implementation drained the stripe (batch {showKeys ks}, {oc}); the model does not drain"
      else match new.handed.getLast? with
        | some (b, o) =>
          if b != ks then .error s!"batch handed over: implementation {showKeys ks}, model {showKeys b}"
          else if outcomeName o != oc then .error s!"defaultPolicy.Push: implementation {oc}, model {outcomeName o}"
          else .ok 2
        | none => .error "internal"
  | _ => .error "bad push observation"

/-- the stripes of a `snap` record: `<len> <key>…` per stripe -/
def parseStripes : Nat → List String → Option (List (List Key))
  | 0, [] => some []
  | 0, _ => none
  | n+1, l :: rest =>
    match nat? l with
    | none => none
    | some len =>
      if rest.length < len then none else
      match (rest.take len).mapM u64?, parseStripes n (rest.drop len) with
      | some ks, some more => some (ks :: more)
      | _, _ => none
  | _+1, [] => none

def act (st : St) (a : Act) (what : String) : Except String (Sys × Sys) :=
  match st.s with
  | none => .error s!"{what} before ring"
  | some s =>
    match RV.Ring.step s a with
    | none => .error s!"{what}: not enabled in the model"
    | some s' => .ok (s, s')

def stepLine (st : St) (_n : Nat) (ws : List String) : Except String (St × Nat) :=
  match ws with
  | ["ring", capa, m, n, s0, s1, s2, s3, de, dl] =>
    match i64? capa, nat? m, i64? n, u64? s0, u64? s1, u64? s2, u64? s3, u64? de, u64? dl with
    | some capa, some m, some n, some a, some b, some c, some d, some de, some dl =>
      .ok ({ s := some (init capa (m != 0) (RV.TinyLFU.new n #[a, b, c, d] de dl)) }, 0)
    | _, _, _, _, _, _, _, _, _ => .error "bad ring"
  | ["door", e, sz, l, sh] =>
    match st.s, u64? e, u64? sz, u64? l, u64? sh with
    | some s, some e, some sz, some l, some sh =>
      let b := s.pol.lfu.door
      if b.sizeExp == e && b.size == sz && b.setLocs == l && b.shift == sh then .ok (st, 1)
      else .error s!"doorkeeper parameters: implementation exp={e.toNat} size={sz.toNat} locs={l.toNat} shift={sh.toNat}, model exp={b.sizeExp.toNat} size={b.size.toNat} locs={b.setLocs.toNat} shift={b.shift.toNat}"
    | _, _, _, _, _ => .error "bad door"
  | "push" :: i :: k :: obs =>
    match nat? i, u64? k with
    | some i, some k => do
      let (s, s') ← act st (.push i k) s!"push {i}"
      let c ← checkPush s s' obs
      pure ({ s := some s' }, c)
    | _, _ => .error "bad push"
  | "pushnew" :: k :: obs =>
    match u64? k with
    | some k => do
      let (s, s') ← act st (.pushNew k) "pushnew"
      let c ← checkPush s s' obs
      pure ({ s := some s' }, c)
    | none => .error "bad pushnew"
  | ["lose", i] =>
    match nat? i with
    | some i => do
      let (_, s') ← act st (.lose i) s!"lose {i}"
      pure ({ s := some s' }, 0)
    | none => .error "bad lose"
  | ["recv", len] =>
    match nat? len with
    | some len => do
      let (_, s') ← act st .recv "recv (the policy goroutine received a batch)"
      match s'.pol.held with
      | some b =>
        if b.length == len then pure ({ s := some s' }, 1)
        else .error s!"batch received by the policy goroutine: implementation {len} keys, model {b.length}"
      | none => .error "internal"
    | none => .error "bad recv"
  | ["apply"] => do
    let (_, s') ← act st .apply "apply"
    pure ({ s := some s' }, 0)
  | ["stop"] => do
    let (_, s') ← act st .stop "stop (Close while the policy goroutine holds a batch)"
    pure ({ s := some s' }, 0)
  | ["close"] => do
    let (_, s') ← act st .close "close"
    pure ({ s := some s' }, 0)
  | ["polclear"] => do
    let (_, s') ← act st .polClear "polclear"
    pure ({ s := some s' }, 0)
  | ["metclear"] => do
    let (_, s') ← act st .metClear "metclear"
    pure ({ s := some s' }, 0)
  | "snap" :: gk :: gd :: cl :: closed :: ns :: rest =>
    match st.s, u64? gk, u64? gd, nat? cl, nat? closed, nat? ns with
    | some s, some gk, some gd, some cl, some closed, some ns =>
      match parseStripes ns rest with
      | none => .error "bad snap stripes"
      | some stripes =>
        if s.pol.keepGets != gk then .error s!"GetsKept: implementation {gk.toNat}, model {s.pol.keepGets.toNat}"
        else if s.pol.dropGets != gd then .error s!"GetsDropped: implementation {gd.toNat}, model {s.pol.dropGets.toNat}"
        else if s.pol.chan.length != cl then .error s!"len(itemsCh): implementation {cl}, model {s.pol.chan.length}"
        else if s.pol.closed != (closed != 0) then .error s!"isClosed: implementation {closed}, model {s.pol.closed}"
        else if s.pool.map (·.data) != stripes then
          .error s!"stripes: implementation {stripes.map showKeys}, model {s.pool.map (fun x => showKeys x.data)}"
        else .ok (st, 5)
    | _, _, _, _, _, _ => .error "bad snap"
  | ["est", k, v] =>
    match st.s, u64? k, i64? v with
    | some s, some k, some v =>
      let m := RV.TinyLFU.estimate s.pol.lfu k
      if m == v then .ok (st, 1) else .error s!"Estimate({k.toNat}): implementation {v.toInt}, model {m.toInt}"
    | _, _, _ => .error "bad est"
  | "tsnap" :: inc :: ra :: en :: door :: rs =>
    match st.s, i64? inc, i64? ra, u64? en, parseHex door, rs.mapM parseHex with
    | some s, some inc, some ra, some en, some door, some rows =>
      let t := s.pol.lfu
      if t.incrs != inc then .error s!"incrs: implementation {inc.toInt}, model {t.incrs.toInt}"
      else if t.resetAt != ra then .error s!"resetAt: implementation {ra.toInt}, model {t.resetAt.toInt}"
      else if t.door.elemNum != en then .error s!"doorkeeper ElemNum: implementation {en.toNat}, model {t.door.elemNum.toNat}"
      else if t.door.bytes != door then .error "doorkeeper bits differ from the model"
      else if rows != t.freq.rows then .error "sketch rows differ from the model"
      else .ok (st, 5)
    | _, _, _, _, _, _ => .error "bad tsnap"
  | _ => .error s!"unknown record {ws}"

def run (h : IO.FS.Stream) : IO Verdict := runLines h ({} : St) stepLine

end Drive.Ring
