import Drive.Util
import Drive.Buffer
import RV.Gen.BufferM
/-!
Second trace validator for the `buffer` stream (C11), component `bufferm`: the same records
(see `Drive/Buffer.lean`) are replayed on the functions GENERATED from z/buffer.go
(`RV/Gen/BufferM.lean`, go2lean/bufm.go) instead of the hand-written model.

* state: a `Gen.BufferM.Buffer` (all bookkeeping fields and the whole backing array);
* every write call runs the generated method (`Write`, `WriteSlice`, `SliceAllocate`,
  `Allocate`, `AllocateOffset` + `Data`), the caller's `copy` into the returned region is done
  with the `copy` primitive; the result token (ok / n= / off= / panic) is compared;
* `st`: `LenNoPadding`, `curSz`, `bufType`; `bytes`/`bytesh`: the full content `Bytes()`;
  `iter`/`offs`/`slice`: `SliceIterate` (callback = collect), `SliceOffsets`, `Slice`;
* `sort`: `SortSliceBetween` with `sort.Slice` instantiated by a merge sort; as in the other
  validator, equivalent slices may come in any order (sort.Slice is not stable): the observed
  range must be a position-wise equivalent permutation and is then adopted.

Not generated, built here: `NewBufferTmp` (a zeroed mapping of the capacity computed by the
generated kernel `newFileCapSmall`), `WithAutoMmap`, `WithMaxSize` (field updates).
`none` of a generated function = the call panicked (or hit `log.Fatal`).
-/
namespace Drive.BufferM
open Gen.BufferM Gen.Buf

structure St where
  g : Option Buffer := none

def os : OS := OS.good

def w64 (n : Nat) : BitVec 64 := BitVec.ofNat 64 n

/-- `sort.Slice` for the replay: a merge sort (any correct sort will do, ties are adopted) -/
def sortFn : SortFn := fun lt xs => (xs.toList.mergeSort (fun a b => !lt b a)).toArray

def lessOfA (name : String) : Option (Array Byte → Array Byte → Bool) :=
  (Drive.Buffer.lessOf name).map fun f => fun a b => f a.toList b.toList

/-! FNV-1a on machine words (the `BitVec 64` versions of the other validator allocate a big
number per byte) -/
def fnvStep (h : UInt64) (b : Byte) : UInt64 := (h ^^^ b.toNat.toUInt64) * 1099511628211

def fnvInit : UInt64 := 14695981039346656037

def fnv1aA (a : Array Byte) : UInt64 := a.foldl fnvStep fnvInit

def be8 (n : Nat) : Array Byte := Gen.Buf.be64 (BitVec.ofNat 64 n)

def hashSlicesA (ss : Array (Array Byte)) : UInt64 :=
  ss.foldl (fun h s => s.foldl fnvStep ((be8 s.size).foldl fnvStep h)) fnvInit

def hashOffsetsA (os' : Array (BitVec 64)) : UInt64 :=
  os'.foldl (fun h o => (Gen.Buf.be64 o).foldl fnvStep h) fnvInit

def isPanic (res : String) : Bool := res.startsWith "panic:" || res.startsWith "fatal:"

def modeName (t : BitVec 64) : String :=
  if t == 0#64 then "calloc" else if t == 1#64 then "mmap" else "invalid"

def newMmap (capacity : Nat) : Buffer :=
  let c := if Gen.Buffer.newFileCapSmall (w64 capacity) then Gen.Buffer.defaultCapacity.toNat else capacity
  { padding := 8#64, offset := 8#64, buf := zeros c, buf_nonnil := true, bufType := 1#64, curSz := w64 c,
    maxSz := 0#64, mmapFile := ⟨zeros c⟩, mmapFile_nonnil := true, autoMmapAfter := 0#64 }

/-- the caller's `copy(dst, p)` into a region handed out by the buffer -/
def fill (g : Buffer) (dst : Win) (p : Array Byte) : Buffer :=
  { g with buf := (Gen.Buf.copy g.buf dst p (Win.full p.size)).1 }

def nextInt (x : BitVec 64) : Int := x.toInt

/-- a write call: `run` gives the new buffer and the result token -/
def doOp (g : Buffer) (res : String) (run : Option (Buffer × String)) : Except String (St × Nat) :=
  match run with
  | none =>
    if isPanic res then .ok ({ g := some g }, 1)
    else .error s!"result: implementation {res}, generated code panics"
  | some (g', tok) =>
    if tok == res then .ok ({ g := some g' }, 1)
    else .error s!"result: implementation {res}, generated code {tok}"

def collect (acc : Array (Array Byte)) (s : Array Byte) : Array (Array Byte) × Err := (acc.push s, .nil)

def checkSort (g : Buffer) (lname : String) (start end_ : Nat) (res : String) (obs : Array Byte) :
    Except String (St × Nat) :=
  match lessOfA lname, Drive.Buffer.lessOf lname with
  | some less, some lessL =>
    match SortSliceBetween os sortFn g (w64 start) (w64 end_) less with
    | none =>
      if isPanic res then .ok ({ g := some g }, 1)
      else .error s!"sort: implementation {res}, generated code panics"
    | some m =>
      if res != "ok" then .error s!"sort: implementation {res}, generated code ok"
      else if start ≥ end_ then
        if m.buf == g.buf then .ok ({ g := some m }, 1) else .error "sort of an empty range changed the generated buffer"
      else
        let mr := bytesOf m.buf ⟨start, end_⟩
        if mr == obs then .ok ({ g := some m }, 1)
        else if mr.size != obs.size then .error "sort: the sorted range has a different length than in the generated code"
        else
          match Drive.Buffer.decodeAll mr.toList #[], Drive.Buffer.decodeAll obs.toList #[] with
          | some ms, some os' =>
            if ms.size != os'.size then .error "sort: number of slices in the range differs from the generated code"
            else
              let equiv := (ms.toList.zip os'.toList).all (fun p => !lessL p.1 p.2 && !lessL p.2 p.1)
              let le := fun (a c : RV.Buffer.Bytes) => !Drive.Buffer.lexLt c a
              let perm := ms.toList.mergeSort le == os'.toList.mergeSort le
              if !equiv then .error "sort: observed order is not position-wise equivalent to the generated code's sorted order"
              else if !perm then .error "sort: observed slices are not a permutation of the generated code's slices"
              else .ok ({ g := some { m with buf := blit m.buf start obs } }, 1)
          | _, _ => .error "sort: observed range is not a sequence of length-prefixed slices"
  | _, _ => .error s!"unknown comparison function {lname}"

def step (st : St) (_n : Nat) (ws : List String) : Except String (St × Nat) :=
  match ws with
  | ["new", kind, cap, thr, maxSz] =>
    match nat? cap, nat? thr, nat? maxSz with
    | some cap, some thr, some maxSz =>
      let mk := fun (b : Buffer) => if maxSz != 0 then { b with maxSz := w64 maxSz } else b
      match kind with
      | "calloc" =>
        match NewBuffer os (w64 cap) with
        | some b => .ok ({ g := some (mk b) }, 0)
        | none => .error "NewBuffer: generated code panics"
      | "mmap" => .ok ({ g := some (mk (newMmap cap)) }, 0)
      | "auto" =>
        match NewBuffer os (w64 cap) with
        | some b => .ok ({ g := some (mk { b with autoMmapAfter := w64 thr }) }, 0)
        | none => .error "NewBuffer: generated code panics"
      | _ => .error "bad buffer kind"
    | _, _, _ => .error "bad new"
  | _ =>
  match st.g with
  | none => .error "record before new"
  | some g =>
  match ws with
  | ["st", len, cur, mode] =>
    match nat? len, nat? cur with
    | some len, some cur =>
      match LenNoPadding g with
      | none => .error "LenNoPadding: generated code panics"
      | some l =>
        if l != w64 len then .error s!"LenNoPadding: implementation {len}, generated code {l.toNat}"
        else if g.curSz != w64 cur then .error s!"curSz: implementation {cur}, generated code {g.curSz.toNat}"
        else if g.buf.size != cur then .error s!"len(buf): implementation {cur}, generated code {g.buf.size}"
        else if modeName g.bufType != mode then .error s!"mode: implementation {mode}, generated code {modeName g.bufType}"
        else .ok (st, 4)
    | _, _ => .error "bad st"
  | ["bytesh", len, hv] =>
    match nat? len, u64? hv with
    | some len, some hv =>
      match Bytes g with
      | none => .error "Bytes(): generated code panics"
      | some win =>
        let d := bytesOf g.buf win
        if d.size != len then .error s!"Bytes(): implementation has {len} bytes, generated code {d.size}"
        else if (fnv1aA d).toNat != hv.toNat then .error "Bytes(): hash differs from the generated code"
        else .ok (st, 1)
    | _, _ => .error "bad bytesh"
  | ["iterh", cnt, hv] =>
    match nat? cnt, u64? hv with
    | some cnt, some hv =>
      match SliceIterate g collect #[] with
      | none => .error "SliceIterate: generated code panics"
      | some (ss, _) =>
        if ss.size != cnt then .error s!"SliceIterate: implementation {cnt} slices, generated code {ss.size}"
        else if (hashSlicesA ss).toNat != hv.toNat then .error "SliceIterate: slices differ from the generated code"
        else .ok (st, 1)
    | _, _ => .error "bad iterh"
  | ["offsh", cnt, hv] =>
    match nat? cnt, u64? hv with
    | some cnt, some hv =>
      match SliceOffsets g with
      | none => .error "SliceOffsets: generated code panics"
      | some os' =>
        if os'.size != cnt then .error s!"SliceOffsets: implementation {cnt} offsets, generated code {os'.size}"
        else if (hashOffsetsA os').toNat != hv.toNat then .error "SliceOffsets: offsets differ from the generated code"
        else .ok (st, 1)
    | _, _ => .error "bad offsh"
  | ["slice", off, res] =>
    match nat? off with
    | some off =>
      match Slice g (w64 off) with
      | none => if isPanic res then .ok (st, 1) else .error s!"Slice({off}): implementation {res}, generated code panics"
      | some _ => .error s!"Slice({off}): implementation {res}, generated code ok"
    | none => .error "bad slice"
  | "iter" :: cnt :: hs =>
    match nat? cnt, hs.mapM parseHex with
    | some cnt, some ps =>
      match SliceIterate g collect #[] with
      | none => .error "SliceIterate: generated code panics"
      | some (ss, _) =>
        if cnt != ps.length then .error "bad iter count"
        else if ss.toList == ps then .ok (st, 1) else .error "SliceIterate: slices differ from the generated code"
    | _, _ => .error s!"SliceIterate: implementation {cnt}"
  | "offs" :: cnt :: os' =>
    match nat? cnt, os'.mapM nat? with
    | some cnt, some os' =>
      match SliceOffsets g with
      | none => .error "SliceOffsets: generated code panics"
      | some mo =>
        if cnt != os'.length then .error "bad offs count"
        else if mo.toList == os'.map w64 then .ok (st, 1)
        else .error s!"SliceOffsets: implementation {os'}, generated code {mo.toList.map BitVec.toNat}"
    | _, _ => .error s!"SliceOffsets: implementation {cnt}"
  | [op, hex, res] =>
    match parseHex hex with
    | none => .error s!"bad hex in {op}"
    | some p =>
      let n := w64 p.size
      match op with
      | "write" =>
        doOp g res ((Write os g p (Win.full p.size)).map fun (g', k, _) => (g', s!"n={k.toNat}"))
      | "wslice" =>
        doOp g res ((WriteSlice os g p (Win.full p.size)).map fun g' => (g', "ok"))
      | "salloc" =>
        doOp g res ((SliceAllocate os g n).map fun (g', dst) => (fill g' dst p, s!"off={dst.lo}"))
      | "alloc" =>
        doOp g res ((Allocate os g n).map fun (g', dst) => (fill g' dst p, s!"off={dst.lo}"))
      | "aoff" =>
        -- `off := b.AllocateOffset(n); copy(b.Data(off)[:n], p)`
        doOp g res ((AllocateOffset os g n).bind fun (g', off) =>
          (Data g' off).bind fun d =>
          (Gen.Buf.slice g'.buf.size d 0#64 n).map fun dst => (fill g' dst p, s!"off={off.toInt}"))
      | _ => .error s!"unknown record {ws}"
  | ["reset"] =>
    match Reset g with
    | some g' => .ok ({ g := some g' }, 0)
    | none => .error "Reset: generated code panics"
  | ["bytes", hex] =>
    match parseHex hex with
    | none => .error "bad hex in bytes"
    | some p =>
      match Bytes g with
      | none => .error "Bytes(): generated code panics"
      | some win => if bytesOf g.buf win == p then .ok (st, 1) else .error "Bytes() differs from the generated code"
  | ["slice", off, hex, next] =>
    match nat? off, parseHex hex, int? next with
    | some off, some p, some next =>
      match Slice g (w64 off) with
      | none => .error s!"Slice({off}): generated code panics"
      | some (s, nx) =>
        if bytesOf g.buf s == p && nextInt nx == next then .ok (st, 1)
        else .error s!"Slice({off}): implementation next={next}, generated code next={nextInt nx} (or the slices differ)"
    | _, _, _ => .error "bad slice"
  | ["sliceh", off, len, hv, next] =>
    match nat? off, nat? len, u64? hv, int? next with
    | some off, some len, some hv, some next =>
      match Slice g (w64 off) with
      | none => .error s!"Slice({off}): generated code panics"
      | some (s, nx) =>
        let d := bytesOf g.buf s
        if d.size == len && (fnv1aA d).toNat == hv.toNat && nextInt nx == next then .ok (st, 1)
        else .error s!"Slice({off}): differs from the generated code"
    | _, _, _, _ => .error "bad sliceh"
  | ["sort", lname, start, end_, res, hex] =>
    match nat? start, nat? end_, parseHex hex with
    | some start, some end_, some obs => checkSort g lname start end_ res obs
    | _, _, _ => .error "bad sort"
  | _ => .error s!"unknown record {ws}"

def run (h : IO.FS.Stream) : IO Verdict := runLines h ({} : St) step

end Drive.BufferM
