import Drive.Util
import RV.Model.Sketch
/-! Trace validator for the `sketch` stream (C18, sketch part). -/
namespace Drive.Sketch
open RV.Sketch

structure St where
  sk : Option Sketch := none

def step (st : St) (_n : Nat) (ws : List String) : Except String (St × Nat) :=
  match ws with
  | ["sketch", "new", n, s0, s1, s2, s3] =>
    match i64? n, u64? s0, u64? s1, u64? s2, u64? s3 with
    | some n, some a, some b, some c, some d => .ok ({ sk := some (RV.Sketch.new n #[a, b, c, d]) }, 0)
    | _, _, _, _, _ => .error "bad sketch new"
  | ["inc", k] =>
    match st.sk, u64? k with
    | some sk, some k => .ok ({ sk := some (increment sk k) }, 0)
    | _, _ => .error "bad inc"
  | ["est", k, v] =>
    match st.sk, u64? k, nat? v with
    | some sk, some k, some v =>
      let m := (estimate sk k).toNat
      if m == v then .ok (st, 1) else .error s!"estimate({k.toNat}): implementation {v}, model {m}"
    | _, _, _ => .error "bad est"
  | ["reset"] => match st.sk with
    | some sk => .ok ({ sk := some (reset sk) }, 0)
    | none => .error "reset before new"
  | ["clear"] => match st.sk with
    | some sk => .ok ({ sk := some (clear sk) }, 0)
    | none => .error "clear before new"
  | "rows" :: rs =>
    match st.sk with
    | none => .error "rows before new"
    | some sk =>
      match rs.mapM parseHex with
      | none => .error "bad rows"
      | some rows => if rows == sk.rows then .ok (st, 1) else .error "row snapshot differs from the model"
  | ["n2p", x, y] =>
    match i64? x, i64? y with
    | some x, some y =>
      let m := Gen.Sketch.next2Power x
      if m == y then .ok (st, 1) else .error s!"next2Power({x.toInt}): implementation {y.toInt}, model {m.toInt}"
    | _, _ => .error "bad n2p"
  | _ => .error s!"unknown record {ws}"

def run (h : IO.FS.Stream) : IO Verdict := runLines h ({} : St) step

end Drive.Sketch
