import Drive.Util
import Drive.Sketch
import Drive.Bloom
import Drive.TinyLFU
import Drive.Simd
import Drive.Policy
import Drive.Tree
import Drive.Buffer
import Drive.BufferM
import Drive.Alloc
import Drive.AllocM
import Drive.Cache
import Drive.Ring
import Drive.Node
import Drive.TreeM
open Drive

/-- component name -> validator.  A component may serve several streams. -/
def components : List (String × (IO.FS.Stream → IO Verdict)) :=
  [("sketch", Drive.Sketch.run),
   ("bloom", Drive.Bloom.run),
   ("tinylfu", Drive.TinyLFU.run),
   ("simd", Drive.Simd.run),
   ("policy", Drive.Policy.run),
   ("tree", Drive.Tree.run),
   ("buffer", Drive.Buffer.run),
   ("bufferm", Drive.BufferM.run),
   ("alloc", Drive.Alloc.run),
   ("allocm", Drive.AllocM.run),
   ("cache", Drive.Cache.run),
   ("ring", Drive.Ring.run),
   ("node", Drive.Node.run),
   ("treem", Drive.TreeM.run)]

def main (args : List String) : IO UInt32 := do
  match args with
  | [comp, path] =>
    match components.lookup comp with
    | none => IO.eprintln s!"rvdrive: unknown component {comp}"; return 2
    | some run =>
      let h ← IO.FS.Handle.mk path IO.FS.Mode.read
      let v ← run (IO.FS.Stream.ofHandle h)
      if v.ok then
        IO.println s!"OK lines={v.lines} checks={v.checks}"
        return 0
      else
        IO.println s!"REJECT step={v.lines} checks={v.checks} reason={v.msg}"
        return 1
  | _ => IO.eprintln "usage: rvdrive <component> <trace>"; return 2
