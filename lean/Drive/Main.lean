def main : IO Unit := IO.println "rvdrive"
