import Drive.Util
import RV.Model.Bloom
/-!
Trace validator for the `bloom` stream (C19).  Filters live in numbered slots.

  new <slot> <entries> <locs>            NewBloomFilter after uint64 conversion of the parameters
  st <slot> <exp> <size> <locs> <shift> <elemNum> [<hex bytes>]   observed private state (bytes optional)
  add <slot> <hash>
  has <slot> <hash> <0|1>                observed result
  ainh <slot> <hash> <0|1>               AddIfNotHas and its observed result
  clear <slot>
  export <slot> <locs> <hex bytes>       FilterSet / SetLocs found inside JSONMarshal's output
  import <slot> <locs> <hex bytes>       newWithBoolset on these bytes (JSONUnmarshal), into <slot>
-/
namespace Drive.Bloom
open RV.Bloom

abbrev St := List (Nat × Bloom)

def get (st : St) (s : Nat) : Option Bloom := st.lookup s
def put (st : St) (s : Nat) (b : Bloom) : St := (s, b) :: st.filter (fun p => p.1 != s)

def bool? (s : String) : Option Bool := if s == "1" then some true else if s == "0" then some false else none

def describe (b : Bloom) : String :=
  s!"exp={b.sizeExp.toNat} size={b.size.toNat} locs={b.setLocs.toNat} shift={b.shift.toNat} elem={b.elemNum.toNat} bytes={b.bytes.size}"

def step (st : St) (_n : Nat) (ws : List String) : Except String (St × Nat) :=
  match ws with
  | ["new", s, e, l] =>
    match nat? s, u64? e, u64? l with
    | some s, some e, some l => .ok (put st s (RV.Bloom.new e l), 0)
    | _, _, _ => .error "bad new"
  | "st" :: s :: e :: sz :: l :: sh :: en :: rest =>
    match nat? s, u64? e, u64? sz, u64? l, u64? sh, u64? en with
    | some s, some e, some sz, some l, some sh, some en =>
      match get st s with
      | none => .error s!"st: empty slot {s}"
      | some b =>
        if !(b.sizeExp == e && b.size == sz && b.setLocs == l && b.shift == sh && b.elemNum == en) then
          .error s!"state of slot {s}: implementation exp={e.toNat} size={sz.toNat} locs={l.toNat} shift={sh.toNat} elem={en.toNat}, model {describe b}"
        else match rest with
          | [] => .ok (st, 1)
          | [hex] =>
            match parseHex hex with
            | none => .error "bad st bytes"
            | some bs => if bs == b.bytes then .ok (st, 2) else .error s!"bitset bytes of slot {s} differ from the model"
          | _ => .error "bad st"
    | _, _, _, _, _, _ => .error "bad st"
  | ["add", s, h] =>
    match nat? s, u64? h with
    | some s, some h =>
      match get st s with
      | some b => .ok (put st s (add b h), 0)
      | none => .error "add: empty slot"
    | _, _ => .error "bad add"
  | ["has", s, h, r] =>
    match nat? s, u64? h, bool? r with
    | some s, some h, some r =>
      match get st s with
      | some b =>
        let m := has b h
        if m == r then .ok (st, 1) else .error s!"Has({h.toNat}) on slot {s}: implementation {r}, model {m}"
      | none => .error "has: empty slot"
    | _, _, _ => .error "bad has"
  | ["ainh", s, h, r] =>
    match nat? s, u64? h, bool? r with
    | some s, some h, some r =>
      match get st s with
      | some b =>
        let (b', m) := addIfNotHas b h
        if m == r then .ok (put st s b', 1) else .error s!"AddIfNotHas({h.toNat}) on slot {s}: implementation {r}, model {m}"
      | none => .error "ainh: empty slot"
    | _, _, _ => .error "bad ainh"
  | ["clear", s] =>
    match nat? s with
    | some s =>
      match get st s with
      | some b => .ok (put st s (clear b), 0)
      | none => .error "clear: empty slot"
    | none => .error "bad clear"
  | ["export", s, l, hex] =>
    match nat? s, u64? l, parseHex hex with
    | some s, some l, some bs =>
      match get st s with
      | some b =>
        if b.setLocs != l then .error s!"export of slot {s}: SetLocs implementation {l.toNat}, model {b.setLocs.toNat}"
        else if exportBytes b == bs then .ok (st, 1) else .error s!"export of slot {s}: FilterSet differs from the model"
      | none => .error "export: empty slot"
    | _, _, _ => .error "bad export"
  | ["import", s, l, hex] =>
    match nat? s, u64? l, parseHex hex with
    | some s, some l, some bs => .ok (put st s (importBytes bs l), 0)
    | _, _, _ => .error "bad import"
  | _ => .error s!"unknown record {ws}"

def run (h : IO.FS.Stream) : IO Verdict := runLines h ([] : St) step

end Drive.Bloom
