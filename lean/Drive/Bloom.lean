import Drive.Util
/-! Trace validator for the `bloom` stream(s).  (stub: to be filled in) -/
namespace Drive.Bloom

def run (_h : IO.FS.Stream) : IO Verdict :=
  return { ok := false, lines := 0, checks := 0, msg := "component bloom not implemented" }

end Drive.Bloom
