import Drive.Util
import RV.Gen.AllocM
import RV.Model.Alloc
/-!
Trace validator `allocm` for the `alloc` stream (C12): replays the trace on the functions and
sections GENERATED WHOLE from z/allocator.go (`RV/Gen/AllocM.lean`), not on the hand-written model
(that is component `alloc`, `Drive/Alloc.lean`; `RV/Props/TieAlloc.lean` proves the two equal).

State: the generated `Allocator` structure and, per goroutine, the public call in progress and the
value of `Allocate_Out` that says at which yield point of `Allocate` it is parked, with its live
locals.  One scheduler release = the generated sections from that point to the next yield point.
What is compared with the trace is what the generated code itself produced:

* `new sz n c0`        `NewAllocator`: the length of slot 0
* `start t kind arg`   the entry sections (`AllocateAligned_entry` / `Copy_entry` give the size
                       passed on; `Allocate_entry`: panic / nil / loop head)
* `add t pos`          section `top`: the word after the atomic add and the logged observation
                       `verifObserve(vpAllocAdded, pos, sz)`
* `check t grow`       section `vpAllocAdded` stops at `vpAllocBeforeLock`
* `check t done …`     … or returns: chunk index and end offset from the logged observation
                       `verifObserve(vpAllocDone, bufIdx, posIdx)`, offset and length from the returned
                       `Bytes`; then the caller's section (`AllocateAligned_after_Allocate` with the
                       chunk base address mod 8, `Copy_after_Allocate`): the slice handed to the user
* `grow t grew word`   section `vpAllocBeforeLock` (the whole critical section incl. `addBufferAt`):
                       the logged `verifObserve(vpAllocRetry, grew, 0)` and the word
* `panic t kind`       `.panic .user` at entry (toobig) / in the critical section (slots), `.panic .bounds`
* `reset`, `trim max`, `chunks …`, `chunk0 sz len`, `log2 x y`: `Reset`, `TrimTo`, the slot lengths,
                       `NewAllocator`, `log2` (table `calculatedLog2` = `RV.Alloc.log2Table`)
* stream `allocseq` (one goroutine, no hooks): `call kind arg ret|nil|panic …` runs the generated
  sections of the public call from entry to return; `size n` / `allocated n`: `Size`, `Allocated`
-/
namespace Drive.AllocM
open Gen.AM Gen.AllocM

abbrev W := BitVec 64

inductive Call where
  | alloc (sz : W)
  | aligned (sz : W)
  | copy (buf : Bytes)
deriving Repr

structure Th where
  call : Option Call := none
  /-- what the entry section said, until the first release of the call consumes it -/
  entry : Option (Res Allocator (Allocator × Allocate_Out)) := none
  pc : Option Allocate_Out := none

structure St where
  a : Option Allocator := none
  ths : Array Th := #[]

/-- enough for 64 slots, 64 doublings and log2 -/
def fuel : Nat := 200

def tbl : Array W := RV.Alloc.log2Table

def showRes {σ α : Type} [Repr α] : Res σ α → String
  | .ok x => s!"ok {(repr x).pretty 200}"
  | .panic f _ => s!"panic {(repr f).pretty}"
  | .spin _ => "spin (fuel ran out)"
  | .blocked _ => "blocked (mutex held)"

def trimZeros (l : List Nat) : List Nat :=
  (l.reverse.dropWhile (· == 0)).reverse

def lens (a : Allocator) : List Nat := a.buffers.toList.map (·.len)

/-- the size the public call passes to the inner `Allocate`, from the generated entry section -/
def innerOf (a : Allocator) : Call → Except String W
  | .alloc sz => .ok sz
  | .aligned sz =>
    match AllocateAligned_entry a sz with
    | .ok (_, .call_Allocate n _) => .ok n
    | r => .error s!"AllocateAligned entry section: {showRes r}"
  | .copy buf =>
    match Copy_entry false a buf with
    | .ok (_, .call_Allocate n _) => .ok n
    | r => .error s!"Copy entry section: {showRes r}"

/-- run the sections of `Allocate` from `o` until one stops at a yield point other than the head
of the loop / the retry points (those are passed through: the harness does not park there) -/
def toYield (a : Allocator) (o : Allocate_Out) : Nat → Res Allocator (Allocator × Allocate_Out)
  | 0 => .spin a
  | k + 1 =>
    match o with
    | .top _ | .vpAllocRetry_1 _ | .vpAllocRetry_2 _ =>
      (Allocate_step fuel a o).bind fun (a', o') => toYield a' o' k
    | _ => .ok (a, o)

/-- the slice the public call hands to its caller, given the slice `r` its inner Allocate returned -/
def finish (a : Allocator) (c : Call) (r : Bytes) (base : W) : Except String (Allocator × Bytes) :=
  match c with
  | .alloc _ => .ok (a, r)
  | .aligned sz =>
    match AllocateAligned_after_Allocate a sz r base with
    | .ok (a', .ret res) => .ok (a', res)
    | x => .error s!"AllocateAligned after Allocate: {showRes x}"
  | .copy buf =>
    match Copy_after_Allocate a buf r with
    | .ok (a', .ret res) => .ok (a', res)
    | x => .error s!"Copy after Allocate: {showRes x}"

/-- `Allocate(n)` from entry to return, as one goroutine alone runs it: the entry section, then
`Allocate_step` from yield point to yield point (at most 3 per slot) -/
def runAllocate (a : Allocator) (n : W) : Res Allocator (Allocator × Bytes) :=
  let rec go (a : Allocator) (o : Allocate_Out) : Nat → Res Allocator (Allocator × Bytes)
    | 0 => .spin a
    | k + 1 =>
      match o with
      | .ret r => .ok (a, r)
      | _ => (Allocate_step fuel a o).bind fun (a', o') => go a' o' k
  (Allocate_entry false a n).bind fun (a', o) => go a' o 400

def getTh (st : St) (t : Nat) : Except String (Allocator × Th) :=
  match st.a, st.ths[t]? with
  | some a, some th => .ok (a, th)
  | none, _ => .error "record before new"
  | _, none => .error s!"unknown goroutine {t}"

def put (st : St) (a : Allocator) (t : Nat) (th : Th) : St :=
  { a := some a, ths := st.ths.set! t th }

def step (st : St) (_n : Nat) (ws : List String) : Except String (St × Nat) :=
  match ws with
  | ["new", sz, n, c0] =>
    match i64? sz, nat? n, nat? c0 with
    | some sz, some n, some c0 =>
      match NewAllocator fuel 0#64 tbl sz with
      | .ok a =>
        let l := (a.buffers[0]!).len
        if l == c0 && a.buffers.size == 64 then .ok ({ a := some a, ths := Array.replicate n {} }, 1)
        else .error s!"NewAllocator({sz.toInt}): first chunk {c0} bytes, generated code {l} ({a.buffers.size} slots)"
      | r => .error s!"NewAllocator({sz.toInt}): generated code {showRes r}"
    | _, _, _ => .error "bad new"
  | ["start", t, kind, arg] =>
    match nat? t with
    | none => .error "bad start"
    | some t => do
      let (a, th) ← getTh st t
      if th.pc.isSome || th.entry.isSome then .error s!"goroutine {t} starts a call inside a call" else
      let call? : Option Call :=
        match kind with
        | "alloc" => (i64? arg).map Call.alloc
        | "aligned" => (i64? arg).map Call.aligned
        | "copy" =>
          -- only the length of the copied data matters here (contents: component `alloc` and the oracle)
          let n := if arg == "-" then 0 else arg.length / 2
          if arg != "-" && arg.length % 2 != 0 then none else some (Call.copy ⟨0, n, n⟩)
        | _ => none
      match call? with
      | none => .error "bad start operand"
      | some c =>
        let n ← innerOf a c
        let e := Allocate_entry false a n
        match e with
        | .ok (a', .top sz) => .ok (put st a' t { call := some c, pc := some (.top sz) }, 0)
        | _ => .ok (put st a t { call := some c, entry := some e }, 0)
  | ["retnil", t] =>
    match nat? t with
    | none => .error "bad retnil"
    | some t => do
      let (a, th) ← getTh st t
      match th.entry, th.call with
      | some (.ok (a', .ret r)), some c =>
        let (a'', res) ← finish a' c r 0#64
        if r == Bytes.nil && res.len == 0 then .ok (put st a'' t {}, 1)
        else .error s!"goroutine {t} returned nil at once; generated code returns {(repr res).pretty}"
      | some e, _ => .error s!"goroutine {t} returned nil at once; generated entry section: {showRes e}"
      | none, _ => .error s!"goroutine {t} returned nil at once; generated code is inside Allocate (pc {(repr th.pc).pretty})"
  | ["add", t, pos] =>
    match nat? t, u64? pos with
    | some t, some pos => do
      let (a, th) ← getTh st t
      match th.pc with
      | some o =>
        match o with
        | .top _ | .vpAllocRetry_1 _ | .vpAllocRetry_2 _ =>
          match toYield a o 4 with
          | .ok (a', .vpAllocAdded sz p) =>
            if p != pos || a'.compIdx != pos then
              .error s!"atomic add of goroutine {t}: implementation word {pos.toNat}, generated code {a'.compIdx.toNat} (local pos {p.toNat})"
            else
              match a'.log with
              | .obs id op osz :: _ =>
                if id == 1#64 && op == pos && osz == sz then .ok (put st a' t { th with pc := some (.vpAllocAdded sz p) }, 2)
                else .error s!"add: logged observation ({op.toNat},{osz.toNat}) differs from ({pos.toNat},{sz.toNat})"
              | _ => .error "add: the generated section logged no vpAllocAdded observation"
          | r => .error s!"goroutine {t} did its atomic add; generated code: {showRes r}"
        | _ => .error s!"goroutine {t} did its atomic add; generated code is at {(repr o).pretty}"
      | none => .error s!"goroutine {t} did its atomic add; generated code is outside Allocate"
    | _, _ => .error "bad add"
  | ["check", t, "grow"] =>
    match nat? t with
    | some t => do
      let (a, th) ← getTh st t
      match th.pc with
      | some (.vpAllocAdded sz p) =>
        match Allocate_step fuel a (.vpAllocAdded sz p) with
        | .ok (a', .vpAllocBeforeLock sz' b) => .ok (put st a' t { th with pc := some (.vpAllocBeforeLock sz' b) }, 1)
        | r => .error s!"goroutine {t} found its position beyond the chunk; generated code: {showRes r}"
      | o => .error s!"goroutine {t} did its bounds check; generated code is at {(repr o).pretty}"
    | none => .error "bad check"
  | ["check", t, "done", ic, io, il, rc, ro, rl, base] =>
    match nat? t, nat? ic, int? io, nat? il, int? rc, nat? ro, nat? rl, u64? base with
    | some t, some ic, some io, some il, some rc, some ro, some rl, some base => do
      let (a, th) ← getTh st t
      match th.pc, th.call with
      | some (.vpAllocAdded sz p), some c =>
        match Allocate_step fuel a (.vpAllocAdded sz p) with
        | .ok (a', .ret r) =>
          match a'.log with
          | .obs id b e :: _ =>
            if id != 4#64 then .error "check: the last logged observation is not vpAllocDone" else
            if io < 0 || b.toNat != ic || r.off != io.toNat || r.len != il || e.toNat != io.toNat + il then
              .error s!"goroutine {t} got chunk {ic} [{io},+{il}); generated code chunk {b.toNat} [{r.off},+{r.len}) end {e.toNat}"
            else
              let (a'', res) ← finish a' c r base
              -- an empty slice carries no usable address: only its chunk and length are compared
              let same := if rl == 0 then res.len == 0 else res.off == ro && res.len == rl
              if rc < 0 || rc.toNat != ic || !same then
                .error s!"goroutine {t} received chunk {rc} [{ro},+{rl}); generated code chunk {ic} [{res.off},+{res.len})"
              else .ok (put st a'' t {}, 2)
          | _ => .error "check: the generated section logged no vpAllocDone observation"
        | r => .error s!"goroutine {t} was handed a slice; generated code: {showRes r}"
      | o, _ => .error s!"goroutine {t} was handed a slice; generated code is at {(repr o).pretty}"
    | _, _, _, _, _, _, _, _ => .error "bad check done"
  | ["grow", t, grew, word] =>
    match nat? t, nat? grew, u64? word with
    | some t, some grew, some word => do
      let (a, th) ← getTh st t
      match th.pc with
      | some (.vpAllocBeforeLock sz b) =>
        match Allocate_step fuel a (.vpAllocBeforeLock sz b) with
        | .ok (a', o') =>
          let retry := match o' with
            | .vpAllocRetry_1 _ | .vpAllocRetry_2 _ => true
            | _ => false
          match retry, a'.log with
          | true, .obs id g _ :: _ =>
            if id != 3#64 then .error "grow: the last logged observation is not vpAllocRetry" else
            if g.toNat != grew then .error s!"critical section of goroutine {t}: implementation grew={grew}, generated code {g.toNat}"
            else if a'.compIdx != word then .error s!"word after the critical section: implementation {word.toNat}, generated code {a'.compIdx.toNat}"
            else if a'.locked then .error "the generated critical section left the mutex locked"
            else .ok (put st a' t { th with pc := some o' }, 3)
          | _, _ => .error s!"critical section of goroutine {t} finished; generated code stopped at {(repr o').pretty}"
        | r => .error s!"critical section of goroutine {t} finished; generated code: {showRes r}"
      | o => .error s!"critical section of goroutine {t} finished; generated code is at {(repr o).pretty}"
    | _, _, _ => .error "bad grow"
  | ["panic", t, kind] =>
    match nat? t with
    | none => .error "bad panic"
    | some t => do
      let (a, th) ← getTh st t
      match kind, th.entry, th.pc with
      | "toobig", some (.panic .user _), _ => .ok (put st a t {}, 1)
      | "bounds", _, some (.vpAllocAdded sz p) =>
        match Allocate_step fuel a (.vpAllocAdded sz p) with
        | .panic .bounds a' => .ok (put st a' t {}, 1)
        | r => .error s!"goroutine {t} panicked (bounds); generated code: {showRes r}"
      | "slots", _, some (.vpAllocBeforeLock sz b) =>
        match Allocate_step fuel a (.vpAllocBeforeLock sz b) with
        | .panic .user a' =>
          if a'.locked then .ok (put st a' t {}, 1) else .error "panic (slots): the generated code released the mutex"
        | r => .error s!"goroutine {t} panicked (out of slots); generated code: {showRes r}"
      | _, e, o =>
        .error s!"goroutine {t} panicked ({kind}); generated code: entry {(e.map showRes).getD "-"}, at {(repr o).pretty}"
  -- stream `allocseq`: one goroutine, public calls from entry to return
  | "call" :: kind :: arg :: rest =>
    match st.a with
    | none => .error "call before new"
    | some a =>
      let call? : Option Call :=
        match kind with
        | "alloc" => (i64? arg).map Call.alloc
        | "aligned" => (i64? arg).map Call.aligned
        | "copy" => (nat? arg).map fun n => Call.copy ⟨0, n, n⟩
        | _ => none
      match call? with
      | none => .error "bad call operand"
      | some c => do
        let n ← innerOf a c
        let res := runAllocate a n
        match rest, res with
        | ["panic", "toobig"], .panic .user _ => .ok (st, 1)
        | ["nil"], .ok (a', r) =>
          let (a'', out) ← finish a' c r 0#64
          if r == Bytes.nil && out == Bytes.nil then .ok ({ st with a := some a'' }, 1)
          else .error s!"{kind}({arg}) returned nil; generated code returns {(repr out).pretty}"
        | ["ret", rc, ro, rl, base], .ok (a', r) =>
          match nat? rc, nat? ro, nat? rl, u64? base with
          | some rc, some ro, some rl, some base =>
            match a'.log with
            | .obs id b _ :: _ =>
              if id != 4#64 then .error "call: the last logged observation is not vpAllocDone" else
              let (a'', out) ← finish a' c r base
              let same := if rl == 0 then out.len == 0 else out.off == ro && out.len == rl
              if b.toNat != rc || !same then
                .error s!"{kind}({arg}) returned chunk {rc} [{ro},+{rl}); generated code chunk {b.toNat} [{out.off},+{out.len})"
              else .ok ({ st with a := some a'' }, 2)
            | _ => .error s!"{kind}({arg}) returned a slice; the generated code logged no vpAllocDone observation"
          | _, _, _, _ => .error "bad call ret"
        | _, r => .error s!"{kind}({arg}): implementation {rest}, generated code {showRes r}"
  | ["size", n] =>
    match int? n, st.a with
    | some n, some a =>
      match Size a with
      | .ok (_, m) => if m.toInt == n then .ok (st, 1) else .error s!"Size(): implementation {n}, generated code {m.toInt}"
      | r => .error s!"Size(): implementation {n}, generated code {showRes r}"
    | _, _ => .error "bad size"
  | ["allocated", n] =>
    match nat? n, st.a with
    | some n, some a =>
      match Allocated a with
      | .ok (_, m) => if m.toNat == n then .ok (st, 1) else .error s!"Allocated(): implementation {n}, generated code {m.toNat}"
      | r => .error s!"Allocated(): implementation {n}, generated code {showRes r}"
    | _, _ => .error "bad allocated"
  | ["reset"] =>
    match st.a with
    | none => .error "reset before new"
    | some a =>
      match Reset a with
      | .ok (a', _) => .ok ({ st with a := some a' }, 0)
      | r => .error s!"Reset: generated code {showRes r}"
  | ["trim", mx] =>
    match i64? mx, st.a with
    | some mx, some a =>
      match TrimTo a mx with
      | .ok (a', _) => .ok ({ st with a := some a' }, 0)
      | r => .error s!"TrimTo: generated code {showRes r}"
    | _, _ => .error "bad trim"
  | "chunks" :: ls =>
    match st.a with
    | none => .error "chunks before new"
    | some a =>
      let ls := if ls == ["-"] then [] else ls
      match ls.mapM nat? with
      | none => .error "bad chunks"
      | some obs =>
        let m := trimZeros (lens a)
        if m == obs then .ok (st, 1) else .error s!"chunk table: implementation {obs}, generated code {m}"
  | ["end"] => .ok ({}, 0)
  | ["chunk0", x, l] =>
    match i64? x, nat? l with
    | some x, some l =>
      match NewAllocator fuel 0#64 tbl x with
      | .ok a =>
        let m := (a.buffers[0]!).len
        if m == l then .ok (st, 1) else .error s!"NewAllocator({x.toInt}): first chunk {l}, generated code {m}"
      | r => .error s!"NewAllocator({x.toInt}): generated code {showRes r}"
    | _, _ => .error "bad chunk0"
  | ["log2", x, y] =>
    match i64? x, i64? y with
    | some x, some y =>
      match Gen.AllocM.log2 fuel tbl x with
      | .ok m => if m == y then .ok (st, 1) else .error s!"log2({x.toInt}): implementation {y.toInt}, generated code {m.toInt}"
      | r => .error s!"log2({x.toInt}): generated code {showRes r}"
    | _, _ => .error "bad log2"
  | _ => .error s!"unknown record {ws.take 3}"

/-- `Drive.runLines` without its per-character list processing (the `copy` records carry up to
96 KiB of hex data each): split at blanks, trim the line end of each token. -/
partial def run (h : IO.FS.Stream) : IO Verdict := do
  let rec loop (st : St) (n checks : Nat) : IO Verdict := do
    let line ← h.getLine
    if line.isEmpty then
      return { ok := true, lines := n, checks := checks, msg := "" }
    let ws := ((line.splitOn " ").map fun w => w.trimAsciiEnd.copy).filter (· ≠ "")
    if ws.isEmpty then loop st (n + 1) checks else
    match step st (n + 1) ws with
    | .ok (st', c) => loop st' (n + 1) (checks + c)
    | .error e => return { ok := false, lines := n + 1, checks := checks, msg := e }
  loop {} 0 0

end Drive.AllocM
