import Drive.Util
import RV.Model.Simd
/-!
Trace validator for the `simd` stream (C20).

Records (see harness/simd_test.go):
* `arr <scheme> <len> <pat>` — the current array is the generator below, the memory behind
  the slice is the tail pattern `pat`;
* `raw <len> <ntail> w…`     — the current array and `ntail` words behind it, explicitly;
* `q <k> <Search> <Naive>`   — the implementation's answers; the model recomputes
  `RV.Simd.search` (the generated wrapper kernels around the generated assembly program, run
  by the x86 interpreter on the slice *followed by that tail*) and `RV.Simd.naive`.
-/
namespace Drive.Simd
open RV.Simd

def maxU : BitVec 64 := 0xffffffffffffffff#64

/-- key `j` of `m` (mirrors `simdKey`) -/
def key (scheme m j : Nat) : BitVec 64 :=
  match scheme with
  | 0 => BitVec.ofNat 64 (3 * j + 3)
  | 1 => BitVec.ofNat 64 (2 ^ 63 - 3 * (m / 2) + 3 * j)
  | _ => BitVec.ofNat 64 (2 ^ 64 - 1 - 3 * (m - 1 - j))

def val (j : Nat) : BitVec 64 := if j % 3 == 2 then 0#64 else maxU

def tailPat (pat : Nat) (i : Nat) : BitVec 64 :=
  if i % 2 == 1 || (pat >>> ((i / 2) % 4)) % 2 == 1 then maxU else 0#64

def fill (scheme n : Nat) : Words :=
  Array.ofFn (n := n) fun i => if i.val % 2 == 0 then key scheme (n / 2) (i.val / 2) else val (i.val / 2)

structure St where
  xs : Words := #[]
  env : RV.Simd.Env := { base := 0xc000100000#64, cap := 0#64, regs := fun _ => 0xdeadbeefcafef00d#64, tail := fun _ => 0#64 }
  have_ : Bool := false

def mkEnv (n : Nat) (tail : Nat → BitVec 64) : RV.Simd.Env :=
  { base := 0xc000100000#64, cap := BitVec.ofNat 64 (n + 64), regs := fun _ => 0xdeadbeefcafef00d#64, tail := tail }

def showRes (r : Option (BitVec 16)) : String :=
  match r with
  | some v => toString v.toInt
  | none => "⊥(panic/fault/out of fuel)"

def step (st : St) (_n : Nat) (ws : List String) : Except String (St × Nat) :=
  match ws with
  | ["arr", scheme, n, pat] =>
    match nat? scheme, nat? n, nat? pat with
    | some scheme, some n, some pat =>
      .ok ({ xs := fill scheme n, env := mkEnv n (tailPat pat), have_ := true }, 0)
    | _, _, _ => .error "bad arr"
  | "raw" :: n :: ntail :: rest =>
    match nat? n, nat? ntail, rest.mapM u64? with
    | some n, some ntail, some wsv =>
      if wsv.length != n + ntail then .error "raw: wrong number of words" else
      let all := wsv.toArray
      let xs := all.extract 0 n
      let tl : Nat → BitVec 64 := fun i => if i < ntail then all[n + i]! else maxU
      .ok ({ xs := xs, env := mkEnv n tl, have_ := true }, 0)
    | _, _, _ => .error "bad raw"
  | ["q", k, s, nv] =>
    if !st.have_ then .error "q before arr/raw" else
    match u64? k, int? s, int? nv with
    | some k, some s, some nv =>
      let ms := search st.env st.xs k
      let mn := naive st.xs k
      if ms != some (BitVec.ofInt 16 s) then
        .error s!"Search(len={st.xs.size}, k={k.toNat}): implementation {s}, model {showRes ms}"
      else if mn != some (BitVec.ofInt 16 nv) then
        .error s!"Naive(len={st.xs.size}, k={k.toNat}): implementation {nv}, model {showRes mn}"
      else .ok (st, 2)
    | _, _, _ => .error "bad q"
  | _ => .error s!"unknown record {ws}"

def run (h : IO.FS.Stream) : IO Verdict := runLines h ({} : St) step

end Drive.Simd
