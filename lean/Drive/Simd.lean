import Drive.Util
/-! Trace validator for the `simd` stream(s).  (stub: to be filled in) -/
namespace Drive.Simd

def run (_h : IO.FS.Stream) : IO Verdict :=
  return { ok := false, lines := 0, checks := 0, msg := "component simd not implemented" }

end Drive.Simd
