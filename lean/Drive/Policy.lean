import Drive.Util
/-! Trace validator for the `policy` stream(s).  (stub: to be filled in) -/
namespace Drive.Policy

def run (_h : IO.FS.Stream) : IO Verdict :=
  return { ok := false, lines := 0, checks := 0, msg := "component policy not implemented" }

end Drive.Policy
