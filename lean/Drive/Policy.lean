import Drive.Util
import RV.Model.Policy
/-!
Trace validator for the `policy` / `policy_f9` streams (C03, C09, policy level).

Records (harness/policy_test.go):

    pol new <maxCost>
    add <key> <cost>                 begins an Add; the following records belong to it:
      inc <key> <hits>                 estimate of the newcomer (only when the loop is reached)
      fill <n> k c k c …               pairs `fillSample` appended in this round (the enumeration)
      scan <n> k h k h …               the sample slice that was scanned, with the estimates read
      vic <key> <cost> | rej           the round's victim, or the newcomer was turned away
    ret <added> <n> k c …            return value of Add (victims in order); the model is run here
    del <key> | upd <key> <cost> <costAdd delta> | clear | setmax <m>
    cap <v> | cost <key> <v> | has <key> <0/1>
    snap <used> <maxCost> <n> k c …  full state, keys ascending

The estimator handed to the model is the finite table of the estimates observed during that
`Add` (they must be consistent: the estimator is constant while the policy lock is held).
Each observed enumeration must be admissible (`RV.Policy.Admissible`) and consumed entirely.
-/
namespace Drive.Policy
open RV.Policy

structure ObsRound where
  fill : List KC := []
  scan : List (Hash × Int) := []
  vic  : Option KC := none
  rej  : Bool := false

structure Pending where
  key  : Hash
  cost : Int
  inc  : Option Int := none
  rounds : List ObsRound := []     -- newest first
  cur  : Option ObsRound := none

structure St where
  pol  : Option Pol := none
  pend : Option Pending := none

def parsePairs : List String → Option (List KC)
  | [] => some []
  | k :: c :: rest =>
    match u64? k, int? c, parsePairs rest with
    | some k, some c, some r => some ((k, c) :: r)
    | _, _, _ => none
  | _ => none

/-- `<n> k c k c …` -/
def parseCounted (ws : List String) : Option (List KC) :=
  match ws with
  | n :: rest =>
    match nat? n, parsePairs rest with
    | some n, some ps => if ps.length == n then some ps else none
    | _, _ => none
  | [] => none

def sortKC (l : List KC) : List KC := l.mergeSort (fun a b => a.1.toNat ≤ b.1.toNat)

def fmtKC (l : List KC) : String :=
  toString (l.map fun kc => (kc.1.toNat, kc.2))

/-- estimates observed during one Add, checked for consistency -/
def buildEst (obs : List (Hash × Int)) : Except String (Hash → Int) := do
  let mut tbl : List (Hash × Int) := []
  for (k, h) in obs do
    match tbl.lookup k with
    | some h' => if h' != h then throw s!"estimate of {k.toNat} observed as {h'} and as {h} during one Add"
    | none => tbl := (k, h) :: tbl
  let t := tbl
  return fun k => (t.lookup k).getD 0

def flush (pd : Pending) : Pending :=
  match pd.cur with
  | some r => { pd with rounds := r :: pd.rounds, cur := none }
  | none => pd

def checkRounds (inc : Int) : Nat → List Round → List ObsRound → Except String Unit
  | _, [], [] => .ok ()
  | i, r :: rs, o :: os => do
    if r.enum != o.fill then throw s!"round {i}: internal (enum)"
    if !r.consumedAll then
      throw s!"round {i}: fillSample appended {fmtKC o.fill} but the model stops after {r.sample.length - r.carry.length} of them (sample kept {fmtKC r.carry})"
    if !decide (Admissible r.before.keyCosts r.carry r.enum) then
      throw s!"round {i}: enumeration {fmtKC r.enum} is not admissible for keyCosts {fmtKC r.before.keyCosts} with {r.carry.length} kept sample entries (distinct resident keys with their costs, stopping exactly at lfuSample or when the map is exhausted)"
    if r.sample.map (·.1) != o.scan.map (·.1) then
      throw s!"round {i}: scanned sample keys {o.scan.map (·.1.toNat)}, model sample {fmtKC r.sample}"
    if r.rejected != o.rej then
      throw s!"round {i}: implementation {if o.rej then "rejected the newcomer" else "chose a victim"}, model min=({r.min.key.toNat},{r.min.hits}) incHits={inc}"
    match o.vic with
    | some v =>
      if (r.min.key, r.min.cost) != v then
        throw s!"round {i}: victim ({v.1.toNat},{v.2}), model ({r.min.key.toNat},{r.min.cost}) at index {r.min.id} of {fmtKC r.sample}"
    | none => pure ()
    checkRounds inc (i + 1) rs os
  | i, rs, os => .error s!"implementation ran {i + os.length} eviction rounds, model {i + rs.length}"

def step (st : St) (_n : Nat) (ws : List String) : Except String (St × Nat) :=
  match ws with
  | ["pol", "new", m] =>
    match int? m with
    | some m => .ok ({ pol := some (Pol.empty m) }, 0)
    | none => .error "bad pol new"
  | ["add", k, c] =>
    match st.pol, u64? k, int? c with
    | some _, some k, some c =>
      if st.pend.isSome then .error "add inside add" else .ok ({ st with pend := some { key := k, cost := c } }, 0)
    | _, _, _ => .error "bad add"
  | ["inc", k, h] =>
    match st.pend, u64? k, int? h with
    | some pd, some k, some h =>
      if k != pd.key then .error "inc of another key" else .ok ({ st with pend := some { pd with inc := some h } }, 0)
    | _, _, _ => .error "bad inc"
  | "fill" :: rest =>
    match st.pend, parseCounted rest with
    | some pd, some ps =>
      let pd := flush pd
      .ok ({ st with pend := some { pd with cur := some { fill := ps } } }, 0)
    | _, _ => .error "bad fill"
  | "scan" :: rest =>
    match st.pend, parseCounted rest with
    | some pd, some ps =>
      match pd.cur with
      | some r => .ok ({ st with pend := some { pd with cur := some { r with scan := ps } } }, 0)
      | none => .error "scan without fill"
    | _, _ => .error "bad scan"
  | ["vic", k, c] =>
    match st.pend, u64? k, int? c with
    | some pd, some k, some c =>
      match pd.cur with
      | some r => .ok ({ st with pend := some { pd with cur := some { r with vic := some (k, c) } } }, 0)
      | none => .error "vic without round"
    | _, _, _ => .error "bad vic"
  | ["rej"] =>
    match st.pend with
    | some pd =>
      match pd.cur with
      | some r => .ok ({ st with pend := some { pd with cur := some { r with rej := true } } }, 0)
      | none => .error "rej without round"
    | none => .error "bad rej"
  | "ret" :: a :: rest =>
    match st.pol, st.pend, nat? a, parseCounted rest with
    | some p, some pd, some a, some victims => do
      let pd := flush pd
      let rounds := pd.rounds.reverse
      let obs := (match pd.inc with | some h => [(pd.key, h)] | none => []) ++ rounds.flatMap (·.scan)
      let est ← buildEst obs
      let o := p.addFull est (rounds.map (·.fill)) pd.key pd.cost
      match o.status with
      | .stuck => throw s!"Add({pd.key.toNat},{pd.cost}): the implementation stopped after {rounds.length} rounds, the model still needs room (used={o.pol.used}, maxCost={o.pol.maxCost})"
      | .panic => throw s!"Add({pd.key.toNat},{pd.cost}): model panics (empty sample)"
      | .ok => pure ()
      if o.admitted != (a == 1) then
        throw s!"Add({pd.key.toNat},{pd.cost}) on used={p.used} maxCost={p.maxCost}: implementation added={a}, model admitted={o.admitted}"
      if o.victims != victims then
        throw s!"Add({pd.key.toNat},{pd.cost}): implementation victims {fmtKC victims}, model {fmtKC o.victims}"
      if pd.inc.isSome && o.rounds.isEmpty && !rounds.isEmpty then
        throw s!"Add({pd.key.toNat},{pd.cost}): implementation entered the eviction loop, the model did not"
      checkRounds (est pd.key) 0 o.rounds rounds
      return ({ pol := some o.pol, pend := none }, 2 + 4 * rounds.length)
    | _, _, _, _ => .error "bad ret"
  | ["del", k] =>
    match st.pol, u64? k with
    | some p, some k => .ok ({ st with pol := some (p.del k) }, 0)
    | _, _ => .error "bad del"
  | ["upd", k, c, d] =>
    match st.pol, u64? k, int? c, u64? d with
    | some p, some k, some c, some d =>
      let want := match lookup p.keyCosts k with
        | some prev => updMetricDelta prev c
        | none => 0#64
      if want != d then .error s!"Update({k.toNat},{c}): costAdd metric moved by {d.toNat}, model {want.toNat}"
      else .ok ({ st with pol := some (p.update k c) }, 1)
    | _, _, _, _ => .error "bad upd"
  | ["clear"] =>
    match st.pol with
    | some p => .ok ({ st with pol := some p.clear }, 0)
    | none => .error "clear before new"
  | ["setmax", m] =>
    match st.pol, int? m with
    | some p, some m => .ok ({ st with pol := some (p.setMaxCost m) }, 0)
    | _, _ => .error "bad setmax"
  | ["cap", v] =>
    match st.pol, int? v with
    | some p, some v => if p.cap == v then .ok (st, 1) else .error s!"Cap(): implementation {v}, model {p.cap}"
    | _, _ => .error "bad cap"
  | ["cost", k, v] =>
    match st.pol, u64? k, int? v with
    | some p, some k, some v =>
      if p.costOf k == v then .ok (st, 1) else .error s!"Cost({k.toNat}): implementation {v}, model {p.costOf k}"
    | _, _, _ => .error "bad cost"
  | ["has", k, v] =>
    match st.pol, u64? k, nat? v with
    | some p, some k, some v =>
      if p.has k == (v == 1) then .ok (st, 1) else .error s!"Has({k.toNat}): implementation {v}, model {p.has k}"
    | _, _, _ => .error "bad has"
  | "snap" :: u :: m :: rest =>
    match st.pol, int? u, int? m, parseCounted rest with
    | some p, some u, some m, some kcs =>
      if st.pend.isSome then .error "snap inside add"
      else if p.used != u then .error s!"used: implementation {u}, model {p.used}"
      else if p.maxCost != m then .error s!"maxCost: implementation {m}, model {p.maxCost}"
      else if sortKC p.keyCosts != kcs then .error s!"keyCosts: implementation {fmtKC kcs}, model {fmtKC (sortKC p.keyCosts)}"
      else .ok (st, 3)
    | _, _, _, _ => .error "bad snap"
  | _ => .error s!"unknown record {ws}"

def run (h : IO.FS.Stream) : IO Verdict := runLines h ({} : St) step

end Drive.Policy
