import Drive.Util
/-! Trace validator for the `tree` stream(s).  (stub: to be filled in) -/
namespace Drive.Tree

def run (_h : IO.FS.Stream) : IO Verdict :=
  return { ok := false, lines := 0, checks := 0, msg := "component tree not implemented" }

end Drive.Tree
