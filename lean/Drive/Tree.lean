import Drive.Util
import Std.Data.HashMap
import RV.Model.TreeFile
/-!
Trace validator for the `tree` (in-memory, C10) and `treefile` (persistent, C16) streams.

Records (one per line):
```
tree cfg <pageSize> <maxKeys>          page size of the following trees
new mem | new file                     NewTree / NewTreePersistent on a fresh file
set <k> <v> ok|panic                   Tree.Set
get <k> <val>|panic                    Tree.Get
del <ts>                               Tree.DeleteBelow
iter <n> (<k> <v> <r>)*                Tree.IterateKV: the pairs handed to the callback, in order, and its answers
iterpart (<k> <v> <r>)*                … a long list may be sent in pieces before its `iter <n>`
reset                                  Tree.Reset
stats <leafKeys> <numPages> <pagesFree> <allocated> <bytes>
walk <nextPage> <freePage> <nfree> <free…>     canonical walk: allocator part
node <pid> <stored> <leaf> <N> (<k> <v>)*      … one reachable node, pre-order
endwalk <nnodes>
reopen <fileSize>                      Close + NewTreePersistent: the model runs reinit (encode t)
```
Every output, every statistic and every walk is compared with the model.
-/
namespace Drive.Tree
open RV.Tree

structure St where
  cfg : Cfg := Cfg.ofPageSize 4096
  t : Option Tree := none
  pending : Option (List WalkNode) := none     -- nodes of the walk being compared
  seen : Nat := 0
  iterAcc : Array (Key × Val × Val) := #[]     -- triples of `iterpart` records awaiting their `iter`

def kvs? : List String → Option (List (Key × Val))
  | [] => some []
  | k :: v :: rest =>
    match u64? k, u64? v, kvs? rest with
    | some k, some v, some r => some ((k, v) :: r)
    | _, _, _ => none
  | _ => none

def triples? : List String → Option (List (Key × Val × Val))
  | [] => some []
  | k :: v :: r :: rest =>
    match u64? k, u64? v, u64? r, triples? rest with
    | some k, some v, some r, some rs => some ((k, v, r) :: rs)
    | _, _, _, _ => none
  | _ => none

def faultOf (t : Tree) : Option String := t.a.fault

def showKV (l : List (Key × Val)) : String :=
  " ".intercalate (l.map fun e => s!"{e.1.toNat}:{e.2.toNat}")

/-- after a mutating operation: the model must not have faulted unless the code panicked -/
def settle (st : St) (t : Tree) (what : String) : Except String (St × Nat) :=
  match faultOf t with
  | some m => .error s!"{what}: the implementation went on, the model stops with: {m}"
  | none => .ok ({ st with t := some t }, 0)

def step (st : St) (_n : Nat) (ws : List String) : Except String (St × Nat) :=
  match st.pending, ws with
  | some exp, "node" :: pid :: stored :: leaf :: n :: kv =>
    match exp, nat? pid, nat? stored, nat? leaf, nat? n, kvs? kv with
    | [], _, _, _, _, _ => .error s!"walk: the implementation reaches node {pid}, the model has no more nodes"
    | e :: rest, some pid, some stored, some leaf, some n, some kv =>
      if stored != pid then .error s!"walk: page {pid} stores page id {stored}"
      else if e.pid != pid then .error s!"walk: node #{st.seen}: implementation page {pid}, model page {e.pid}"
      else if e.leaf != (leaf == 1) then .error s!"walk: page {pid}: isLeaf implementation {leaf}, model {e.leaf}"
      else if e.numKeys != n then .error s!"walk: page {pid}: numKeys implementation {n}, model {e.numKeys}"
      else if e.kv != kv then .error s!"walk: page {pid}: entries implementation [{showKV kv}], model [{showKV e.kv}]"
      else .ok ({ st with pending := some rest, seen := st.seen + 1 }, 1)
    | _, _, _, _, _, _ => .error "bad node record"
  | some exp, ["endwalk", n] =>
    match exp, nat? n with
    | [], some n => if n == st.seen then .ok ({ st with pending := none, seen := 0 }, 1)
                    else .error s!"endwalk: {n} nodes announced, {st.seen} seen"
    | e :: _, _ => .error s!"walk: the model has a further node (page {e.pid}) the implementation does not reach"
    | _, _ => .error "bad endwalk"
  | some _, _ => .error s!"record inside a walk: {ws}"
  | none, ["tree", "cfg", ps, mk] =>
    match nat? ps, nat? mk with
    | some ps, some mk =>
      let cfg := Cfg.ofPageSize ps
      if cfg.maxKeys == mk then .ok ({ st with cfg := cfg, t := none }, 1)
      else .error s!"maxKeys for page size {ps}: implementation {mk}, model {cfg.maxKeys}"
    | _, _ => .error "bad cfg"
  | none, ["new", "mem"] => settle st (newTree st.cfg) "NewTree"
  | none, ["new", "file"] => settle st (newTreeFile st.cfg) "NewTreePersistent"
  | none, ws =>
    match st.t with
    | none => .error s!"operation before new: {ws}"
    | some t =>
      match ws with
      | ["set", k, v, out] =>
        match u64? k, u64? v with
        | some k, some v =>
          let t' := set st.cfg t k v
          if out == "panic" then
            match faultOf t' with
            | some _ => .ok (st, 1)       -- the tree is unchanged by the up-front check
            | none => .error s!"Set({k.toNat},{v.toNat}): implementation panics, model does not"
          else settle st t' s!"Set({k.toNat},{v.toNat})"
        | _, _ => .error "bad set"
      | ["get", k, out] =>
        match u64? k with
        | some k =>
          match get t k, out with
          | none, "panic" => .ok (st, 1)
          | none, o => .error s!"Get({k.toNat}): implementation {o}, model panics"
          | some v, o =>
            if o == toString v.toNat then .ok (st, 1)
            else .error s!"Get({k.toNat}): implementation {o}, model {v.toNat}"
        | none => .error "bad get"
      | ["del", ts] =>
        match u64? ts with
        | some ts => settle st (deleteBelow t ts) s!"DeleteBelow({ts.toNat})"
        | none => .error "bad del"
      | "iterpart" :: rest =>
        match triples? rest with
        | some tr => .ok ({ st with iterAcc := st.iterAcc ++ tr.toArray }, 0)
        | none => .error "bad iterpart"
      | "iter" :: n :: rest =>
        match nat? n, triples? rest with
        | some n, some tr0 =>
          let tr := st.iterAcc.toList ++ tr0
          let st := { st with iterAcc := #[] }
          if tr.length != n then .error "bad iter count" else
          let vis := visits t
          let obs := tr.map fun x => (x.1, x.2.1)
          if vis != obs then
            .error s!"IterateKV: callback saw [{showKV (obs.take 12)}…] ({obs.length} pairs), model [{showKV (vis.take 12)}…] ({vis.length} pairs)"
          else
            -- the callback as a function of the key (each key is visited once, checked here)
            let m : Std.HashMap Key Val := tr.foldl (fun m x => m.insert x.1 x.2.2) {}
            if m.size != tr.length then .error "IterateKV: a key was handed to the callback twice" else
            let f : Key → Val → Val := fun k _ => m.getD k 0#64
            match settle st (iterateKV t f) "IterateKV" with
            | .ok (st', _) => .ok (st', 1)
            | .error e => .error e
        | _, _ => .error "bad iter"
      | ["reset"] => settle st (reset st.cfg t.a.curSz) "Reset"
      | ["stats", lk, np, pf, al, by'] =>
        match int? lk, int? np, int? pf, nat? al, int? by' with
        | some lk, some np, some pf, some al, some by' =>
          let obs : Stats := { numLeafKeys := lk, numPages := np, numPagesFree := pf, allocated := al, bytes := by' }
          let m := stats st.cfg t
          if obs == m then .ok (st, 1)
          else .error s!"Stats: implementation leafKeys={lk} pages={np} free={pf} allocated={al} bytes={by'}; model leafKeys={m.numLeafKeys} pages={m.numPages} free={m.numPagesFree} allocated={m.allocated} bytes={m.bytes}"
        | _, _, _, _, _ => .error "bad stats"
      | "walk" :: np :: fp :: nf :: free =>
        match nat? np, nat? fp, nat? nf, free.mapM nat? with
        | some np, some fp, some nf, some free =>
          if free.length != nf then .error "bad walk: free count" else
          if np != t.a.nextPage then .error s!"walk: nextPage implementation {np}, model {t.a.nextPage}" else
          if fp != t.a.freeHead then .error s!"walk: freePage implementation {fp}, model {t.a.freeHead}" else
          if free != t.a.free then .error s!"walk: free list implementation {free}, model {t.a.free}" else
          .ok ({ st with pending := some (walk t), seen := 0 }, 1)
        | _, _, _, _ => .error "bad walk"
      | ["reopen", sz] =>
        match nat? sz with
        | some sz =>
          if sz != t.a.curSz then .error s!"reopen: file size {sz}, model buffer capacity {t.a.curSz}" else
          -- the page table, tabulated once (encodePage searches the tree)
          let n := t.a.nextPage + 2
          let arr : Array Page := Array.ofFn (n := n) fun i => encodePage t i.val
          let file : File := { page := fun q => arr[q]?.getD Page.unused, size := sz }
          match openFile st.cfg file with
          | none => .error "reopen: the model's reinit panics / cannot represent the file"
          | some t' =>
            match settle st t' "NewTreePersistent (reopen)" with
            | .ok (st', _) => .ok (st', 1)
            | .error e => .error e
        | none => .error "bad reopen"
      | _ => .error s!"unknown record {ws}"

def run (h : IO.FS.Stream) : IO Verdict := do
  let v ← runLines h ({} : St) step
  return v

end Drive.Tree
