/-!
Shared helpers of the trace validator: tokenising, number and hex parsing, the
result type.  Core Lean only (the driver is linked as an executable).
-/
namespace Drive

/-- Outcome of validating one trace. -/
structure Verdict where
  ok : Bool
  lines : Nat
  checks : Nat            -- comparisons of an observed output / snapshot with the model
  msg : String
  cover : List (String × Nat) := []

def words (s : String) : List String :=
  (s.splitOn " ").filter (· ≠ "")

def hexVal (c : Char) : Option Nat :=
  if '0' ≤ c ∧ c ≤ '9' then some (c.toNat - '0'.toNat)
  else if 'a' ≤ c ∧ c ≤ 'f' then some (c.toNat - 'a'.toNat + 10)
  else none

/-- "-" is the empty byte string. -/
def parseHex (s : String) : Option (Array (BitVec 8)) :=
  if s == "-" then some #[] else
  let rec go (cs : List Char) (acc : Array (BitVec 8)) : Option (Array (BitVec 8)) :=
    match cs with
    | [] => some acc
    | a :: b :: rest =>
      match hexVal a, hexVal b with
      | some x, some y => go rest (acc.push (BitVec.ofNat 8 (x * 16 + y)))
      | _, _ => none
    | _ => none
  go s.toList #[]

def nat? (s : String) : Option Nat := s.toNat?
def int? (s : String) : Option Int := s.toInt?
def u64? (s : String) : Option (BitVec 64) := (s.toNat?).map (BitVec.ofNat 64)
/-- a Go int64 printed in decimal, as its two's-complement word -/
def i64? (s : String) : Option (BitVec 64) := (s.toInt?).map (BitVec.ofInt 64)

def bump (k : String) (c : List (String × Nat)) : List (String × Nat) :=
  match c with
  | [] => [(k, 1)]
  | (k', n) :: rest => if k == k' then (k', n + 1) :: rest else (k', n) :: bump k rest

/-- Generic line loop: `step` returns the new state or an error message. -/
partial def runLines {σ : Type} (h : IO.FS.Stream) (init : σ)
    (step : σ → Nat → List String → Except String (σ × Nat)) : IO Verdict := do
  let rec loop (st : σ) (n checks : Nat) : IO Verdict := do
    let line ← h.getLine
    if line.isEmpty then
      return { ok := true, lines := n, checks := checks, msg := "" }
    let ws := words (String.ofList (line.toList.filter (fun c => c != '\n' && c != '\r')))
    if ws.isEmpty then loop st (n + 1) checks else
    match step st (n + 1) ws with
    | .ok (st', c) => loop st' (n + 1) (checks + c)
    | .error e => return { ok := false, lines := n + 1, checks := checks, msg := e }
  loop init 0 0

end Drive
