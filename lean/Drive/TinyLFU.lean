import Drive.Util
import RV.Model.TinyLFU
/-!
Trace validator for the `tinylfu` stream (C18, TinyLFU part).

  new <numCounters> <seed0..3> <doorEntries> <doorLocs>
  door <exp> <size> <locs> <shift>          observed doorkeeper parameters
  inc <key>                                 Increment
  push <key>*                               Push
  est <key> <value>                         Estimate and its observed result
  reset | clear
  snap <incrs> <resetAt> <doorElemNum> <door bytes hex> <row0> <row1> <row2> <row3>
-/
namespace Drive.TinyLFU
open RV.TinyLFU

structure St where
  t : Option TinyLFU := none

def step (st : St) (_n : Nat) (ws : List String) : Except String (St × Nat) :=
  match ws with
  | ["new", n, s0, s1, s2, s3, de, dl] =>
    match i64? n, u64? s0, u64? s1, u64? s2, u64? s3, u64? de, u64? dl with
    | some n, some a, some b, some c, some d, some de, some dl =>
      .ok ({ t := some (RV.TinyLFU.new n #[a, b, c, d] de dl) }, 0)
    | _, _, _, _, _, _, _ => .error "bad new"
  | ["door", e, sz, l, sh] =>
    match st.t, u64? e, u64? sz, u64? l, u64? sh with
    | some t, some e, some sz, some l, some sh =>
      let b := t.door
      if b.sizeExp == e && b.size == sz && b.setLocs == l && b.shift == sh then .ok (st, 1)
      else .error s!"doorkeeper parameters: implementation exp={e.toNat} size={sz.toNat} locs={l.toNat} shift={sh.toNat}, model exp={b.sizeExp.toNat} size={b.size.toNat} locs={b.setLocs.toNat} shift={b.shift.toNat}"
    | _, _, _, _, _ => .error "bad door"
  | ["inc", k] =>
    match st.t, u64? k with
    | some t, some k => .ok ({ t := some (increment t k) }, 0)
    | _, _ => .error "bad inc"
  | "push" :: ks =>
    match st.t, ks.mapM u64? with
    | some t, some ks => .ok ({ t := some (push t ks) }, 0)
    | _, _ => .error "bad push"
  | ["est", k, v] =>
    match st.t, u64? k, i64? v with
    | some t, some k, some v =>
      let m := estimate t k
      if m == v then .ok (st, 1) else .error s!"Estimate({k.toNat}): implementation {v.toInt}, model {m.toInt}"
    | _, _, _ => .error "bad est"
  | ["reset"] => match st.t with
    | some t => .ok ({ t := some (reset t) }, 0)
    | none => .error "reset before new"
  | ["clear"] => match st.t with
    | some t => .ok ({ t := some (clear t) }, 0)
    | none => .error "clear before new"
  | "snap" :: inc :: ra :: en :: door :: rs =>
    match st.t, i64? inc, i64? ra, u64? en, parseHex door, rs.mapM parseHex with
    | some t, some inc, some ra, some en, some door, some rows =>
      if t.incrs != inc then .error s!"incrs: implementation {inc.toInt}, model {t.incrs.toInt}"
      else if t.resetAt != ra then .error s!"resetAt: implementation {ra.toInt}, model {t.resetAt.toInt}"
      else if t.door.elemNum != en then .error s!"doorkeeper ElemNum: implementation {en.toNat}, model {t.door.elemNum.toNat}"
      else if t.door.bytes != door then .error "doorkeeper bits differ from the model"
      else if rows != t.freq.rows then .error "sketch rows differ from the model"
      else .ok (st, 5)
    | _, _, _, _, _, _ => .error "bad snap"
  | _ => .error s!"unknown record {ws}"

def run (h : IO.FS.Stream) : IO Verdict := runLines h ({} : St) step

end Drive.TinyLFU
