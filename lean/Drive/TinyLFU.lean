import Drive.Util
/-! Trace validator for the `tinylfu` stream(s).  (stub: to be filled in) -/
namespace Drive.TinyLFU

def run (_h : IO.FS.Stream) : IO Verdict :=
  return { ok := false, lines := 0, checks := 0, msg := "component tinylfu not implemented" }

end Drive.TinyLFU
