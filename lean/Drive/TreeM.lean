import Drive.Util
import Std.Data.HashMap
import RV.Model.TreeFile
import RV.Model.TreeFlat
/-!
Trace validator `treem`: replays the EXISTING `tree` / `tree_grow` / `treefile` stream traces
(record format: see Drive/Tree.lean) on the tree-level methods of z/btree.go as go2lean generates
them WHOLE over flat memory (`RV/Gen/TreeM.lean`: `Set`, `Get`, `DeleteBelow`, `IterateKV`,
`Reset`, `Stats`, `initRootNode`, `reinit` and everything they call, on top of `Gen.Node.*`).

Compared on every record (of the `get` records on pages with maxKeys > 31: every 4th): the output
(`get`, `set … panic`), all of `Stats`, and at every `walk`
record the allocator frontier, the free-list head, the free list (decoded from word 0 of the free
pages) and the canonical page walk decoded from the flat memory (`RV.TreeFlat.walkFlat`: page id
followed, stored page id, kind bit, numKeys, entries through `RV.NodeFlat.ents`).

Cross-check with the structural model (`RV/Model/Tree.lean`, what the C10 / C16 theorems are
about), which is run on the same records: after EVERY operation the frontier, the free-list
head, both statistics, `len(t.data)` and the buffer capacity agree; at every `walk` record the
whole walk of the flat memory equals the walk of the structural tree and the free lists agree.

Hand-written here (not generated): `NewTree` / `NewTreePersistent` (building the buffer: an empty
buffer of capacity `minSize` then the generated `Reset`; for a file the zeroed mapping, the
generated `node(1).pageID()` test, then `initRootNode` or `reinit`), and the callback of
`IterateKV` (the recorded answers as a function of the key).
-/
namespace Drive.TreeM
open RV.Tree RV.TreeFlat Gen.TreeM

/-- recursion fuel for the generated functions: far above any height a trace reaches
(`fuel ≥ height + 1` suffices, RV/Props/TieTree.lean) -/
def fuel : Nat := 200

structure DSt where
  cfg : Cfg := Cfg.ofPageSize 4096
  st : Option St := none              -- flat state
  t : Option Tree := none             -- structural model, same history
  pending : Option (List WalkNode) := none
  stored : List Nat := []
  seen : Nat := 0
  iterAcc : Array (Key × Val × Val) := #[]

def ps (c : Cfg) : BitVec 64 := w c.pageSize
def mk (c : Cfg) : BitVec 64 := w c.maxKeys

def kvs? : List String → Option (List (Key × Val))
  | [] => some []
  | k :: v :: rest =>
    match u64? k, u64? v, kvs? rest with
    | some k, some v, some r => some ((k, v) :: r)
    | _, _, _ => none
  | _ => none

def triples? : List String → Option (List (Key × Val × Val))
  | [] => some []
  | k :: v :: r :: rest =>
    match u64? k, u64? v, u64? r, triples? rest with
    | some k, some v, some r, some rs => some ((k, v, r) :: rs)
    | _, _, _, _ => none
  | _ => none

def showKV (l : List (Key × Val)) : String :=
  " ".intercalate (l.map fun e => s!"{e.1.toNat}:{e.2.toNat}")

/-- `NewTree`: `&Tree{buffer: NewBuffer(minSize)}` (offset = padding = 8, capacity minSize), then `Reset` -/
def emptyMem : St :=
  { data := #[], epoch := 0, nextPage := 0#64, freePage := 0#64, numLeafKeys := 0#64, numPagesFree := 0#64,
    bufOffset := 8#64, bufCurSz := Gen.Tree.minSize }

/-- the mapping of a file of `sz` bytes, all zero beyond what `old` holds: `t.buffer.offset = len(buf)`,
`t.data = t.buffer.Bytes()` -/
def fileMem (old : Words) (epoch : Nat) (sz : Nat) : St :=
  let n := (sz - 8) / 8
  let d := if n ≤ old.size then old.extract 0 n else old ++ Array.replicate (n - old.size) 0#64
  { data := d, epoch := epoch, nextPage := 0#64, freePage := 0#64, numLeafKeys := 0#64, numPagesFree := 0#64,
    bufOffset := w sz, bufCurSz := w sz }

/-- `NewTreePersistent` after the mapping is in place -/
def openMem (c : Cfg) (s : St) : Option St :=
  (node (ps c) (mk c) s 1#64).bind fun root =>
  (rdNode s root (fun p => Gen.Node.pageID p (mk c))).bind fun rootId =>
  if Gen.Tree.isInitialized rootId then
    reinit (ps c) (mk c) fuel s
  else
    initRootNode (ps c) (mk c) fuel { s with nextPage := 1#64, freePage := 0#64 }

/-- flat state against structural state, the cheap part (after every operation) -/
def crossScalars (s : St) (t : Tree) : Option String :=
  if s.nextPage.toNat != t.a.nextPage then some s!"nextPage flat {s.nextPage.toNat}, structural {t.a.nextPage}"
  else if s.freePage.toNat != t.a.freeHead then some s!"freePage flat {s.freePage.toNat}, structural {t.a.freeHead}"
  else if s.numLeafKeys.toInt != t.a.leafKeys then some s!"NumLeafKeys flat {s.numLeafKeys.toInt}, structural {t.a.leafKeys}"
  else if s.numPagesFree.toInt != t.a.pagesFree then some s!"NumPagesFree flat {s.numPagesFree.toInt}, structural {t.a.pagesFree}"
  else if 8 * s.data.size != t.a.dataLen then some s!"len(t.data) flat {8 * s.data.size}, structural {t.a.dataLen}"
  else if s.bufCurSz.toNat != t.a.curSz then some s!"buffer capacity flat {s.bufCurSz.toNat}, structural {t.a.curSz}"
  else none

def settle (d : DSt) (s : Option St) (t : Tree) (what : String) : Except String (DSt × Nat) :=
  match s, t.a.fault with
  | none, _ => .error s!"{what}: the implementation went on, the generated flat function panics / leaves the model"
  | _, some m => .error s!"{what}: the implementation went on, the structural model stops with: {m}"
  | some s, none =>
    match crossScalars s t with
    | some e => .error s!"{what}: flat memory and structural model disagree: {e}"
    | none => .ok ({ d with st := some s, t := some t }, 1)

def firstDiff (a b : List WalkNode) (i : Nat := 0) : String :=
  match a, b with
  | [], [] => "equal"
  | x :: _, [] => s!"node #{i}: flat memory has page {x.pid}, the structural walk ends"
  | [], y :: _ => s!"node #{i}: the flat walk ends, the structural model has page {y.pid}"
  | x :: a', y :: b' =>
    if x == y then firstDiff a' b' (i + 1)
    else s!"node #{i}: flat page {x.pid} leaf={x.leaf} n={x.numKeys} [{showKV x.kv}], structural page {y.pid} leaf={y.leaf} n={y.numKeys} [{showKV y.kv}]"

def step (d : DSt) (_n : Nat) (ws : List String) : Except String (DSt × Nat) :=
  match d.pending, ws with
  | some exp, "node" :: pid :: stored :: leaf :: n :: kv =>
    match exp, d.stored, nat? pid, nat? stored, nat? leaf, nat? n, kvs? kv with
    | [], _, _, _, _, _, _ => .error s!"walk: the implementation reaches node {pid}, the flat walk has no more nodes"
    | e :: rest, sp :: srest, some pid, some stored, some leaf, some n, some kv =>
      if e.pid != pid then .error s!"walk: node #{d.seen}: implementation page {pid}, flat walk page {e.pid}"
      else if sp != stored then .error s!"walk: page {pid}: stored page id implementation {stored}, flat memory {sp}"
      else if e.leaf != (leaf == 1) then .error s!"walk: page {pid}: isLeaf implementation {leaf}, flat memory {e.leaf}"
      else if e.numKeys != n then .error s!"walk: page {pid}: numKeys implementation {n}, flat memory {e.numKeys}"
      else if e.kv != kv then .error s!"walk: page {pid}: entries implementation [{showKV kv}], flat memory [{showKV e.kv}]"
      else .ok ({ d with pending := some rest, stored := srest, seen := d.seen + 1 }, 1)
    | _, _, _, _, _, _, _ => .error "bad node record"
  | some exp, ["endwalk", n] =>
    match exp, nat? n with
    | [], some n => if n == d.seen then .ok ({ d with pending := none, stored := [], seen := 0 }, 1)
                    else .error s!"endwalk: {n} nodes announced, {d.seen} seen"
    | e :: _, _ => .error s!"walk: the flat memory has a further node (page {e.pid}) the implementation does not reach"
    | _, _ => .error "bad endwalk"
  | some _, _ => .error s!"record inside a walk: {ws}"
  | none, ["tree", "cfg", ps', mk'] =>
    match nat? ps', nat? mk' with
    | some ps', some mk' =>
      let cfg := Cfg.ofPageSize ps'
      if cfg.maxKeys != mk' then .error s!"maxKeys for page size {ps'}: implementation {mk'}, model {cfg.maxKeys}"
      else if ps' != 16 * (mk' + 1) then .error s!"page size {ps'} is not 16 * (maxKeys + 1): outside the flat model"
      else .ok ({ d with cfg := cfg, st := none, t := none }, 1)
    | _, _ => .error "bad cfg"
  | none, ["new", "mem"] =>
    settle d (Reset (ps d.cfg) (mk d.cfg) fuel emptyMem) (newTree d.cfg) "NewTree"
  | none, ["new", "file"] =>
    settle d (openMem d.cfg (fileMem #[] 0 Gen.Tree.minSize.toNat)) (newTreeFile d.cfg) "NewTreePersistent"
  | none, ws =>
    -- the flat state is taken out of the record while an operation runs, so that the generated
    -- functions own it and update the memory in place
    let so := d.st
    let d := { d with st := none }
    match so, d.t with
    | some s, some t =>
      let c := d.cfg
      match ws with
      | ["set", k, v, out] =>
        match u64? k, u64? v with
        | some k, some v =>
          let t' := set c t k v
          if out == "panic" then
            -- the up-front key check: nothing is written, the state is kept
            match Set (ps c) (mk c) fuel s k v, t'.a.fault with
            | none, some _ => .ok ({ d with st := some s }, 1)
            | some _, _ => .error s!"Set({k.toNat},{v.toNat}): implementation panics, the generated Set does not"
            | none, none => .error s!"Set({k.toNat},{v.toNat}): implementation panics, the structural model does not"
          else settle d (Set (ps c) (mk c) fuel s k v) t' s!"Set({k.toNat},{v.toNat})"
        | _, _ => .error "bad set"
      | ["get", k, out] =>
        -- cost control: the generated `Get` walks the pages with the linear `simd.Naive` model; on big
        -- pages (maxKeys > 31) only every 4th `get` record is replayed here (all of them on small pages;
        -- every one is replayed on the structural model by component `tree`, and `tie_tree_get` proves the
        -- generated `Tree.get` equal to the structural one on every represented tree)
        if c.maxKeys > 31 && _n % 4 != 0 then .ok ({ d with st := some s }, 0) else
        match u64? k with
        | some k =>
          match Get (ps c) (mk c) fuel s k, out with
          | none, "panic" => .ok ({ d with st := some s }, 1)
          | none, o => .error s!"Get({k.toNat}): implementation {o}, the generated Get panics"
          | some v, o =>
            if o == toString v.toNat then .ok ({ d with st := some s }, 1)
            else .error s!"Get({k.toNat}): implementation {o}, generated Get {v.toNat}"
        | none => .error "bad get"
      | ["del", ts] =>
        match u64? ts with
        | some ts => settle d (DeleteBelow (ps c) (mk c) fuel s ts) (deleteBelow t ts) s!"DeleteBelow({ts.toNat})"
        | none => .error "bad del"
      | "iterpart" :: rest =>
        match triples? rest with
        | some tr => .ok ({ d with iterAcc := d.iterAcc ++ tr.toArray, st := some s }, 0)
        | none => .error "bad iterpart"
      | "iter" :: n :: rest =>
        match nat? n, triples? rest with
        | some n, some tr0 =>
          let tr := d.iterAcc.toList ++ tr0
          let d := { d with iterAcc := #[] }
          if tr.length != n then .error "bad iter count" else
          -- what the callback must have seen: the live pairs of the leaves, in walk order
          let vis := visitsFlat (walkFlat c s.data fuel 1)
          let obs := tr.map fun x => (x.1, x.2.1)
          if vis != obs then
            .error s!"IterateKV: callback saw [{showKV (obs.take 12)}…] ({obs.length} pairs), flat memory holds [{showKV (vis.take 12)}…] ({vis.length} pairs)"
          else
            let m : Std.HashMap Key Val := tr.foldl (fun m x => m.insert x.1 x.2.2) {}
            if m.size != tr.length then .error "IterateKV: a key was handed to the callback twice" else
            let f : Key → Val → Val := fun k _ => m.getD k 0#64
            settle d (IterateKV (ps c) (mk c) fuel s f) (iterateKV t f) "IterateKV"
        | _, _ => .error "bad iter"
      | ["reset"] => settle d (Reset (ps c) (mk c) fuel s) (reset c t.a.curSz) "Reset"
      | ["stats", lk, np, pf, al, by'] =>
        match int? lk, int? np, int? pf, int? al, int? by' with
        | some lk, some np, some pf, some al, some by' =>
          match Stats (ps c) (mk c) s with
          | none => .error "Stats: the generated function panics"
          | some m =>
            if m.numLeafKeys.toInt == lk && m.numPages.toInt == np && m.numPagesFree.toInt == pf
                && m.allocated.toInt == al && m.bytes.toInt == by' && m.pageSize.toNat == c.pageSize then
              .ok ({ d with st := some s }, 1)
            else .error s!"Stats: implementation leafKeys={lk} pages={np} free={pf} allocated={al} bytes={by'}; generated leafKeys={m.numLeafKeys.toInt} pages={m.numPages.toInt} free={m.numPagesFree.toInt} allocated={m.allocated.toInt} bytes={m.bytes.toInt}"
        | _, _, _, _, _ => .error "bad stats"
      | "walk" :: np :: fp :: nf :: free =>
        match nat? np, nat? fp, nat? nf, free.mapM nat? with
        | some np, some fp, some nf, some free =>
          if free.length != nf then .error "bad walk: free count" else
          if np != s.nextPage.toNat then .error s!"walk: nextPage implementation {np}, flat state {s.nextPage.toNat}" else
          if fp != s.freePage.toNat then .error s!"walk: freePage implementation {fp}, flat state {s.freePage.toNat}" else
          let fl := freeFlat c s.data (nf + 1) s.freePage.toNat
          if free != fl then .error s!"walk: free list implementation {free}, flat memory {fl}" else
          if fl != t.a.free then .error s!"walk: free list flat memory {fl}, structural model {t.a.free}" else
          let wf := walkFlat c s.data fuel 1
          let wt := walk t
          if wf != wt then .error s!"walk: flat memory and structural model differ: {firstDiff wf wt}" else
          .ok ({ d with pending := some wf, stored := walkStored c s.data wf, seen := 0, st := some s }, 2 + wf.length)
        | _, _, _, _ => .error "bad walk"
      | ["reopen", sz] =>
        match nat? sz with
        | some sz =>
          if sz != s.bufCurSz.toNat then .error s!"reopen: file size {sz}, flat buffer capacity {s.bufCurSz.toNat}" else
          if sz != t.a.curSz then .error s!"reopen: file size {sz}, structural buffer capacity {t.a.curSz}" else
          let n := t.a.nextPage + 2
          let arr : Array RV.Tree.Page := Array.ofFn (n := n) fun i => encodePage t i.val
          let file : File := { page := fun q => arr[q]?.getD RV.Tree.Page.unused, size := sz }
          match openFile c file with
          | none => .error "reopen: the structural model's reinit panics / cannot represent the file"
          | some t' => settle d (openMem c (fileMem s.data (s.epoch + 1) sz)) t' "NewTreePersistent (reopen)"
        | none => .error "bad reopen"
      | _ => .error s!"unknown record {ws}"
    | _, _ => .error s!"operation before new: {ws}"

def run (h : IO.FS.Stream) : IO Verdict := do
  let v ← runLines h ({} : DSt) step
  return v

end Drive.TreeM
