import Drive.Util
import RV.Model.Alloc
/-!
Trace validator for the `alloc` stream (C12).

The harness runs the real `z.Allocator` under a cooperative scheduler: exactly one
goroutine runs at a time, from one `verif` yield point of `Allocate` to the next.
Each release is one record and must be exactly one step of `RV.Alloc.step`:

* `new sz n c0`                 NewAllocator(sz) used by n goroutines; first chunk has c0 bytes
* `start t kind arg`            goroutine t enters alloc/aligned (arg = size) or copy (arg = hex bytes)
* `retnil t`                    … and returned nil at once (size 0)
* `add t pos`                   atomic add; `pos` is the word it obtained
* `check t grow`                bounds check failed, goroutine waits for the mutex
* `check t done ic io il rc ro rl base8`
                                slice cut: inner region (ic,io,il), returned slice (rc,ro,rl) from real
                                addresses, base8 = chunk base address mod 8
* `grow t grew word`            critical section done; grew = 1 if this goroutine stored the new word
* `panic t kind`                toobig (at start) | bounds (at check) | slots (in the critical section)
* `reset`, `trim max`, `chunks l0 l1 …` (snapshot, trailing empty slots dropped), `end`
* `chunk0 sz len`, `log2 x y`   NewAllocator sizing / log2 on their own
-/
namespace Drive.Alloc
open RV.Alloc

structure St where
  s : Option State := none
  lastOp : List (Nat × Op) := []

def trimZeros (l : List Nat) : List Nat :=
  (l.reverse.dropWhile (· == 0)).reverse

def pcOf (s : State) (t : Nat) : Option Pc := (s.threads[t]?).map (·.pc)

def bytesOfHex (h : String) : Option (List (BitVec 8)) := (parseHex h).map (·.toList)

def showPc (p : Option Pc) : String := repr p |>.pretty

def doStep (st : St) (a : Action) (what : String) : Except String State :=
  match st.s with
  | none => .error s!"{what} before new"
  | some s =>
    match step s a with
    | none => .error s!"{what}: the model has no such step enabled"
    | some s' => .ok s'

def step (st : St) (_n : Nat) (ws : List String) : Except String (St × Nat) :=
  match ws with
  | ["new", sz, n, c0] =>
    match i64? sz, nat? n, nat? c0 with
    | some sz, some n, some c0 =>
      let m := chunk0Len sz
      if m == c0 then .ok ({ s := some (newAllocator sz n), lastOp := [] }, 1)
      else .error s!"NewAllocator({sz.toInt}): first chunk {c0} bytes, model {m}"
    | _, _, _ => .error "bad new"
  | ["start", t, kind, arg] =>
    match nat? t with
    | none => .error "bad start"
    | some t =>
      let op? : Option Op :=
        match kind with
        | "alloc" => (i64? arg).map Op.alloc
        | "aligned" => (i64? arg).map Op.aligned
        | "copy" => (bytesOfHex arg).map Op.copy
        | _ => none
      match op? with
      | none => .error "bad start operand"
      | some op => do
        let s' ← doStep st (.start t op) "start"
        .ok ({ s := some s', lastOp := (t, op) :: st.lastOp.filter (·.1 != t) }, 0)
  | ["retnil", t] =>
    match nat? t, st.s with
    | some t, some s =>
      match st.lastOp.lookup t with
      | some op =>
        if Gen.Alloc.allocZero op.inner && !Gen.Alloc.allocTooBig op.inner && pcOf s t == some .idle
        then .ok (st, 1)
        else .error s!"goroutine {t} returned nil at once; model: inner size {op.inner.toNat}, pc {showPc (pcOf s t)}"
      | none => .error "retnil without start"
    | _, _ => .error "bad retnil"
  | ["add", t, pos] =>
    match nat? t, u64? pos with
    | some t, some pos => do
      let s' ← doStep st (.add t) "add"
      if s'.compIdx == pos then
        match pcOf s' t with
        | some (.added _ p) => if p == pos then .ok ({ st with s := some s' }, 1) else .error "add: model thread holds another position"
        | p => .error s!"add: model pc {showPc p}"
      else .error s!"atomic add of goroutine {t}: implementation word {pos.toNat}, model {s'.compIdx.toNat}"
    | _, _ => .error "bad add"
  | ["check", t, "grow"] =>
    match nat? t with
    | some t => do
      let s' ← doStep st (.check t) "check"
      match pcOf s' t with
      | some (.needGrow _ _) => .ok ({ st with s := some s' }, 1)
      | p => .error s!"goroutine {t} found its position beyond the chunk; model: {showPc p}"
    | none => .error "bad check"
  | ["check", t, "done", ic, io, il, rc, ro, rl, base] =>
    match nat? t, nat? ic, int? io, nat? il, int? rc, nat? ro, nat? rl, u64? base with
    | some t, some ic, some io, some il, some rc, some ro, some rl, some base => do
      let s' ← doStep st (.check t) "check"
      match pcOf s' t, s'.grants with
      | some .idle, g :: _ =>
        let inner : Region := ⟨ic, io.toNat, il⟩
        if g.tid != t then .error "check: grant recorded for another goroutine"
        else if io < 0 || g.reg != inner then
          .error s!"goroutine {t} got chunk {ic} [{io},+{il}); model chunk {g.reg.chunk} [{g.reg.off},+{g.reg.len})"
        else
          let res := resultOf (fun _ => base) g
          -- an empty slice carries no usable address (Go keeps the old pointer when the new
          -- capacity is 0): only its chunk and length are compared
          let same := if rl == 0 then res.len == 0 && res.chunk == rc.toNat
                      else res == (⟨rc.toNat, ro, rl⟩ : Region)
          if rc < 0 || !same then
            .error s!"goroutine {t} received chunk {rc} [{ro},+{rl}); model chunk {res.chunk} [{res.off},+{res.len})"
          else .ok ({ st with s := some s' }, 2)
      | p, _ => .error s!"goroutine {t} was handed a slice; model: {showPc p}"
    | _, _, _, _, _, _, _, _ => .error "bad check done"
  | ["grow", t, grew, word] =>
    match nat? t, nat? grew, u64? word, st.s with
    | some t, some grew, some word, some s => do
      let s' ← doStep st (.grow t) "grow"
      match pcOf s' t with
      | some (.toAdd _) =>
        -- "grew" = this goroutine ran addBufferAt and stored the new word (the table itself
        -- stays as it is when a large enough chunk already exists)
        let mstored := if s'.compIdx != s.compIdx then 1 else 0
        if mstored != grew then .error s!"critical section of goroutine {t}: implementation grew={grew}, model {mstored}"
        else if s'.compIdx != word then .error s!"word after the critical section: implementation {word.toNat}, model {s'.compIdx.toNat}"
        else .ok ({ st with s := some s' }, 2)
      | p => .error s!"critical section of goroutine {t} finished; model: {showPc p}"
    | _, _, _, _ => .error "bad grow"
  | ["panic", t, kind] =>
    match nat? t, st.s with
    | some t, some s =>
      match kind with
      | "toobig" =>
        match st.lastOp.lookup t with
        | some op =>
          if Gen.Alloc.allocTooBig op.inner && pcOf s t == some .idle then .ok (st, 1)
          else .error s!"goroutine {t} panicked (too big); model: inner size {op.inner.toNat}, pc {showPc (pcOf s t)}"
        | none => .error "panic without start"
      | "bounds" => do
        let s' ← doStep st (.check t) "check"
        if pcOf s' t == some (.panicked .bounds) then .ok ({ st with s := some s' }, 1)
        else .error s!"goroutine {t} panicked (bounds); model: {showPc (pcOf s' t)}"
      | "slots" => do
        let s' ← doStep st (.grow t) "grow"
        if pcOf s' t == some (.panicked .outOfSlots) then .ok ({ st with s := some s' }, 1)
        else .error s!"goroutine {t} panicked (out of slots); model: {showPc (pcOf s' t)}"
      | _ => .error s!"goroutine {t} panicked in a way the model does not know ({kind})"
    | _, _ => .error "bad panic"
  | ["reset"] => do
    let s' ← doStep st .reset "reset"
    .ok ({ st with s := some s' }, 0)
  | ["trim", mx] =>
    match i64? mx with
    | some mx => do
      let s' ← doStep st (.trim mx) "trim"
      .ok ({ st with s := some s' }, 0)
    | none => .error "bad trim"
  | "chunks" :: ls =>
    match st.s with
    | none => .error "chunks before new"
    | some s =>
      let ls := if ls == ["-"] then [] else ls
      match ls.mapM nat? with
      | none => .error "bad chunks"
      | some obs =>
        let m := trimZeros s.chunks
        if m == obs then .ok (st, 1) else .error s!"chunk table: implementation {obs}, model {m}"
  | ["end"] => .ok ({}, 0)
  | ["chunk0", x, l] =>
    match i64? x, nat? l with
    | some x, some l =>
      let m := chunk0Len x
      if m == l then .ok (st, 1) else .error s!"NewAllocator({x.toInt}): first chunk {l}, model {m}"
    | _, _ => .error "bad chunk0"
  | ["log2", x, y] =>
    match i64? x, i64? y with
    | some x, some y =>
      let m := log2 x
      if m == y then .ok (st, 1) else .error s!"log2({x.toInt}): implementation {y.toInt}, model {m.toInt}"
    | _, _ => .error "bad log2"
  | _ => .error s!"unknown record {ws.take 3}"

def run (h : IO.FS.Stream) : IO Verdict := runLines h ({} : St) step

end Drive.Alloc
