import Drive.Util
/-! Trace validator for the `alloc` stream(s).  (stub: to be filled in) -/
namespace Drive.Alloc

def run (_h : IO.FS.Stream) : IO Verdict :=
  return { ok := false, lines := 0, checks := 0, msg := "component alloc not implemented" }

end Drive.Alloc
