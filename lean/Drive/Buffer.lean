import Drive.Util
import RV.Model.Buffer
import RV.Proofs.BufferFast
/-!
Trace validator for the `buffer` stream (C11).

Records (one per line, written by harness/buffer_test.go):

    new <calloc|mmap|auto> <capacity> <autoMmapAfter> <maxSz>
    st <LenNoPadding> <curSz> <calloc|mmap>           bookkeeping after every call
    write|wslice|salloc|alloc|aoff <hex> <result>     result: ok | n=<k> | off=<k> | panic:maxsize | panic:…
    reset
    bytes <hex> | bytesh <len> <fnv1a64>              Bytes()
    iter <count> <hex>… | iterh <count> <fnv>         slices handed out by SliceIterate
    offs <count> <n>… | offsh <count> <fnv>           SliceOffsets()
    slice <off> <hex> <next> | sliceh <off> <len> <fnv> <next>
    sort <less> <start> <end> <result> <hex of the sorted range>

Everything is compared for equality with the model, except the order of slices
that are *equivalent* under the comparison function after a sort (`sort.Slice`
is not stable, so the model leaves their order open): there the observed range
must be a permutation of the model's range that is position-wise equivalent to
the model's result computed with a stable sort; the observed order is then adopted.
-/
namespace Drive.Buffer
open RV.Buffer

structure St where
  b : Option Buf := none

def toBytes (a : Array (BitVec 8)) : Bytes := a.toList

def lexLt : Bytes → Bytes → Bool
  | [], [] => false
  | [], _ :: _ => true
  | _ :: _, [] => false
  | a :: as, b :: bs => if a.toNat < b.toNat then true else if b.toNat < a.toNat then false else lexLt as bs

def lastKey (a : Bytes) : Int :=
  match a.getLast? with
  | none => -1
  | some x => x.toNat

def lessOf (name : String) : Option (Bytes → Bytes → Bool) :=
  match name with
  | "bytes" => some lexLt
  | "len" => some (fun a b => a.length < b.length)
  | "last" => some (fun a b => lastKey a < lastKey b)
  | "false" => some (fun _ _ => false)
  | "rev" => some (fun a b => lexLt b a)
  | _ => none

def modeName : Mode → String
  | .calloc => "calloc"
  | .mmap => "mmap"

def faultName : Fault → String
  | .maxSize => "panic:maxsize"
  | .startZero => "panic:startzero"
  | .notCalloc => "panic:notcalloc"
  | .bounds => "panic:bounds"
  | .assertFail => "fatal:assert"
  | .fuel => "model:fuel"

def outName : Out → String
  | .unit => "ok"
  | .n k => s!"n={k}"
  | .off k => s!"off={k}"
  | .fault f => faultName f

/-- decode a sequence of length-prefixed slices (validator side, independent of `slice`) -/
partial def decodeAll (d : Bytes) (acc : Array Bytes) : Option (Array Bytes) :=
  if d.isEmpty then some acc
  else if d.length < 8 then none
  else
    let n := beNat (d.take 8)
    let rest := d.drop 8
    if rest.length < n then none else decodeAll (rest.drop n) (acc.push (rest.take n))

def hashSlices (ss : List Bytes) : BitVec 64 :=
  ss.foldl (fun h s => (be64 (w s.length) ++ s).foldl (fun h b => (h ^^^ b.setWidth 64) * 1099511628211#64) h)
    14695981039346656037#64

def hashOffsets (os : List Nat) : BitVec 64 :=
  os.foldl (fun h o => (be64 (w o)).foldl (fun h b => (h ^^^ b.setWidth 64) * 1099511628211#64) h)
    14695981039346656037#64

def nextInt : Option Nat → Int
  | none => -1
  | some n => n

def doOp (b : Buf) (op : Op) (res : String) : Except String (St × Nat) :=
  let r := step b op
  if outName r.2 == res then .ok ({ b := some r.1 }, 1)
  else .error s!"result: implementation {res}, model {outName r.2}"

def checkSort (b : Buf) (lname : String) (start end_ : Nat) (res : String) (obs : Bytes) :
    Except String (St × Nat) :=
  match lessOf lname with
  | none => .error s!"unknown comparison function {lname}"
  | some less =>
    -- `sortSliceBetweenFast = sortSliceBetween` is the theorem `RV.C11.validator_runs_the_model`
    match sortSliceBetweenFast insertionSort less b start end_ with
    | .error f =>
      if faultName f == res then .ok ({ b := some b }, 1)
      else .error s!"sort: implementation {res}, model {faultName f}"
    | .ok m =>
      if res != "ok" then .error s!"sort: implementation {res}, model ok"
      else if start ≥ end_ then
        if m.data == b.data then .ok ({ b := some m }, 1) else .error "sort of an empty range changed the model"
      else
        let mr := region m.data start end_
        if mr == obs then .ok ({ b := some m }, 1)
        else if mr.length != obs.length then .error "sort: the sorted range has a different length than in the model"
        else
          -- differs from the stable order: must differ only by the order of equivalent slices
          match decodeAll mr #[], decodeAll obs #[] with
          | some ms, some os =>
            if ms.size != os.size then .error "sort: number of slices in the range differs from the model"
            else
              let equiv := (ms.toList.zip os.toList).all (fun p => !less p.1 p.2 && !less p.2 p.1)
              let le := fun (a c : Bytes) => !lexLt c a
              let perm := ms.toList.mergeSort le == os.toList.mergeSort le
              if !equiv then .error "sort: observed order is not position-wise equivalent to the model's sorted order"
              else if !perm then .error "sort: observed slices are not a permutation of the model's slices"
              else .ok ({ b := some { m with data := overwrite m.data start obs } }, 1)
          | _, _ => .error "sort: observed range is not a sequence of length-prefixed slices"

def step (st : St) (_n : Nat) (ws : List String) : Except String (St × Nat) :=
  match ws with
  | ["new", kind, cap, thr, maxSz] =>
    match nat? cap, nat? thr, nat? maxSz with
    | some cap, some thr, some maxSz =>
      let mk := fun (b : Buf) => if maxSz != 0 then withMaxSize b maxSz else b
      match kind with
      | "calloc" => .ok ({ b := some (mk (newBuffer cap)) }, 0)
      | "mmap" => .ok ({ b := some (mk (newBufferTmp cap)) }, 0)
      | "auto" =>
        match withAutoMmap (newBuffer cap) thr with
        | .ok b => .ok ({ b := some (mk b) }, 0)
        | .error f => .error s!"WithAutoMmap: model {faultName f}"
      | _ => .error "bad buffer kind"
    | _, _, _ => .error "bad new"
  | _ =>
  match st.b with
  | none => .error "record before new"
  | some b =>
  match ws with
  | ["st", len, cur, mode] =>
    match nat? len, nat? cur with
    | some len, some cur =>
      if lenNoPadding b != len then .error s!"LenNoPadding: implementation {len}, model {lenNoPadding b}"
      else if b.curSz != cur then .error s!"curSz: implementation {cur}, model {b.curSz}"
      else if modeName b.mode != mode then .error s!"mode: implementation {mode}, model {modeName b.mode}"
      else .ok (st, 3)
    | _, _ => .error "bad st"
  | ["bytesh", len, hv] =>
    match nat? len, u64? hv with
    | some len, some hv =>
      let d := bytes b
      if b.data.length != b.offset then .error "model invariant: data.length ≠ offset"
      else if d.length != len then .error s!"Bytes(): implementation has {len} bytes, model {d.length}"
      else if fnv1a d != hv then .error "Bytes(): hash differs from the model"
      else .ok (st, 1)
    | _, _ => .error "bad bytesh"
  | ["iterh", cnt, hv] =>
    match nat? cnt, u64? hv with
    | some cnt, some hv =>
      match sliceIterate b with
      | .error f => .error s!"SliceIterate: model {faultName f}"
      | .ok ss =>
        if ss.length != cnt then .error s!"SliceIterate: implementation {cnt} slices, model {ss.length}"
        else if hashSlices ss != hv then .error "SliceIterate: slices differ from the model"
        else .ok (st, 1)
    | _, _ => .error "bad iterh"
  | ["offsh", cnt, hv] =>
    match nat? cnt, u64? hv with
    | some cnt, some hv =>
      match sliceOffsets b with
      | .error f => .error s!"SliceOffsets: model {faultName f}"
      | .ok os =>
        if os.length != cnt then .error s!"SliceOffsets: implementation {cnt} offsets, model {os.length}"
        else if hashOffsets os != hv then .error "SliceOffsets: offsets differ from the model"
        else .ok (st, 1)
    | _, _ => .error "bad offsh"
  | ["slice", off, res] =>
    match nat? off with
    | some off =>
      match slice b off with
      | .error f => .error s!"Slice({off}): implementation {res}, model {faultName f}"
      | .ok _ => .error s!"Slice({off}): implementation {res}, model ok"
    | none => .error "bad slice"
  | "iter" :: cnt :: hs =>
    match nat? cnt, hs.mapM parseHex with
    | some cnt, some ps =>
      match sliceIterate b with
      | .error f => .error s!"SliceIterate: model {faultName f}"
      | .ok ss =>
        if cnt != ps.length then .error "bad iter count"
        else if ss == ps.map toBytes then .ok (st, 1) else .error "SliceIterate: slices differ from the model"
    | _, _ => .error s!"SliceIterate: implementation {cnt}"
  | "offs" :: cnt :: os =>
    match nat? cnt, os.mapM nat? with
    | some cnt, some os =>
      match sliceOffsets b with
      | .error f => .error s!"SliceOffsets: model {faultName f}"
      | .ok mo =>
        if cnt != os.length then .error "bad offs count"
        else if mo == os then .ok (st, 1) else .error s!"SliceOffsets: implementation {os}, model {mo}"
    | _, _ => .error s!"SliceOffsets: implementation {cnt}"
  | [op, hex, res] =>
    match parseHex hex with
    | none => .error s!"bad hex in {op}"
    | some p =>
      let p := toBytes p
      match op with
      | "write" => doOp b (.write p) res
      | "wslice" => doOp b (.writeSlice p) res
      | "salloc" => doOp b (.sliceAllocate p) res
      | "alloc" => doOp b (.allocate p) res
      | "aoff" => doOp b (.allocateOffset p) res
      | _ => .error s!"unknown record {ws}"
  | ["reset"] => .ok ({ b := some (reset b) }, 0)
  | ["bytes", hex] =>
    match parseHex hex with
    | none => .error "bad hex in bytes"
    | some p => if toBytes p == bytes b then .ok (st, 1) else .error "Bytes() differs from the model"
  | ["slice", off, hex, next] =>
    match nat? off, parseHex hex, int? next with
    | some off, some p, some next =>
      match slice b off with
      | .error f => .error s!"Slice({off}): model {faultName f}"
      | .ok (s, nx) =>
        if s == toBytes p && nextInt nx == next then .ok (st, 1)
        else .error s!"Slice({off}): implementation next={next}, model next={nextInt nx} (or the slices differ)"
    | _, _, _ => .error "bad slice"
  | ["sliceh", off, len, hv, next] =>
    match nat? off, nat? len, u64? hv, int? next with
    | some off, some len, some hv, some next =>
      match slice b off with
      | .error f => .error s!"Slice({off}): model {faultName f}"
      | .ok (s, nx) =>
        if s.length == len && fnv1a s == hv && nextInt nx == next then .ok (st, 1)
        else .error s!"Slice({off}): differs from the model"
    | _, _, _, _ => .error "bad sliceh"
  | ["sort", lname, start, end_, res, hex] =>
    match nat? start, nat? end_, parseHex hex with
    | some start, some end_, some obs => checkSort b lname start end_ res (toBytes obs)
    | _, _, _ => .error "bad sort"
  | _ => .error s!"unknown record {ws}"

def run (h : IO.FS.Stream) : IO Verdict := runLines h ({} : St) step

end Drive.Buffer
