import Drive.Util
/-! Trace validator for the `buffer` stream(s).  (stub: to be filled in) -/
namespace Drive.Buffer

def run (_h : IO.FS.Stream) : IO Verdict :=
  return { ok := false, lines := 0, checks := 0, msg := "component buffer not implemented" }

end Drive.Buffer
