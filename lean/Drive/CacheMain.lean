import Drive.Cache
open Drive
def main (args : List String) : IO UInt32 := do
  match args with
  | [path] =>
    let h ← IO.FS.Handle.mk path IO.FS.Mode.read
    let v ← Drive.Cache.run (IO.FS.Stream.ofHandle h)
    if v.ok then IO.println s!"OK lines={v.lines} checks={v.checks}"; return 0
    else IO.println s!"REJECT step={v.lines} checks={v.checks} reason={v.msg}"; return 1
  | _ => IO.eprintln "usage: rvcache <trace>"; return 2
