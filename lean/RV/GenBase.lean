/-!
Hand-written preamble imported by every generated kernel file.

Times are `Int` nanoseconds since the Unix epoch.  Go's zero `time.Time` is
January 1, year 1, 00:00:00 UTC, i.e. `-62135596800` seconds before the epoch.
-/
namespace Gen

/-- Go's zero `time.Time`, in nanoseconds relative to the Unix epoch. -/
def zeroTime : Int := -62135596800 * 1000000000

/-- `time.Time.Unix()`: whole seconds since the epoch (floor). -/
def unixSecs (t : Int) : BitVec 64 := BitVec.ofInt 64 (t / 1000000000)

end Gen
