import RV.Proofs.CacheBisimDefs
/-!
# C15 `fresh_bisim`: client steps, `spawn`, `done`, `tick` preserve `BSimL`

One lemma per step function: from `BSimL d L₁ L₂ s₁ s₂` the two results of the *same* step are
related again (for partial steps: both enabled or both disabled, `OptRel`).  The pc arguments of
the left run are those of the right run shifted by `bsC d`.
-/
namespace RV.Cache
open Gen.Cache
variable {cfg : Cfg} {d : Nat} {L₁ L₂ : List Ev} {s₁ s₂ : State}

/-! ### the channel -/

theorem bs_sendBlocking (h : BSimL d L₁ L₂ s₁ s₂) (t : Tid) {e₁ e₂ : BufElem} {sent₁ sent₂ blocked₁ blocked₂ : CPc}
    (he : e₁ = bsE d e₂) (hs : sent₁ = bsC d sent₂) (hb : blocked₁ = bsC d blocked₂) :
    BSimL d L₁ L₂ (sendBlocking cfg s₁ t e₁ sent₁ blocked₁) (sendBlocking cfg s₂ t e₂ sent₂ blocked₂) := by
  subst he hs hb
  unfold sendBlocking
  have hc : (s₁.buf.length < cfg.bufCap ∧ s₁.sendq = []) ↔ (s₂.buf.length < cfg.bufCap ∧ s₂.sendq = []) := by
    rw [h.buf, h.sendq, List.length_map, List.map_eq_nil_iff]
  simp only [hc]
  split
  · exact ⟨h.store, h.em, h.pol, h.met, by simp [h.buf], h.sendq, h.cm, h.nm, h.app,
      fun t' => by simp only [setCl_cl]; split <;> first | rfl | exact h.cl t',
      h.clock, h.closed, h.ring, h.log⟩
  · exact ⟨h.store, h.em, h.pol, h.met, h.buf, by simp [h.sendq, bsQ], h.cm, h.nm, h.app,
      fun t' => by simp only [setCl_cl]; split <;> first | rfl | exact h.cl t',
      h.clock, h.closed, h.ring, h.log⟩

/-- the result of a receive: the same element up to the shift, related rest states -/
def RecvRel (d : Nat) (L₁ L₂ : List Ev) : Option (BufElem × State) → Option (BufElem × State) → Prop
  | some (x₁, r₁), some (x₂, r₂) => x₁ = bsE d x₂ ∧ BSimL d L₁ L₂ r₁ r₂
  | none, none => True
  | _, _ => False

theorem bs_recvBuf (h : BSimL d L₁ L₂ s₁ s₂) : RecvRel d L₁ L₂ (recvBuf s₁) (recvBuf s₂) := by
  unfold recvBuf
  rw [h.buf, h.sendq]
  cases hb : s₂.buf with
  | nil => exact trivial
  | cons x rest =>
    cases hq : s₂.sendq with
    | nil =>
      refine ⟨rfl, h.store, h.em, h.pol, h.met, rfl, by simp, h.cm, h.nm, h.app, h.cl,
        h.clock, h.closed, h.ring, h.log⟩
    | cons p q =>
      obtain ⟨t, e⟩ := p
      refine ⟨rfl, h.store, h.em, h.pol, h.met, by simp, rfl, h.cm, h.nm, h.app, fun t' => ?_,
        h.clock, h.closed, h.ring, h.log⟩
      simp only [setCl_cl]
      split
      · rw [h.cl, bsC_unblockedPc]
      · exact h.cl t'

/-! ### SetWithTTL -/

theorem bs_stSetStart (h : BSimL d L₁ L₂ s₁ s₂) (t : Tid) (k : Hash) (c : Conf) (v : Val) (cost ttl : Int) :
    BSimL d L₁ L₂ (stSetStart s₁ t k c v cost ttl) (stSetStart s₂ t k c v cost ttl) := by
  unfold stSetStart
  bsim_prep h
  repeat' split
  all_goals bsim_leaf h

theorem bs_stSetUpd (h : BSimL d L₁ L₂ s₁ s₂) (t : Tid) (i : Item) :
    BSimL d L₁ L₂ (stSetUpd cfg s₁ t i) (stSetUpd cfg s₂ t i) := by
  unfold stSetUpd
  bsim_prep h
  split <;> bsim_leaf h

theorem bs_stSetExit (h : BSimL d L₁ L₂ s₁ s₂) (t : Tid) (i : Item) (prev : Val) :
    BSimL d L₁ L₂ (stSetExit s₁ t i prev) (stSetExit s₂ t i prev) := by
  unfold stSetExit
  bsim_leaf h

theorem bs_stSetSend (h : BSimL d L₁ L₂ s₁ s₂) (t : Tid) (i : Item) :
    BSimL d L₁ L₂ (stSetSend cfg s₁ t i) (stSetSend cfg s₂ t i) := by
  unfold stSetSend
  bsim_prep h
  split <;> bsim_leaf h

theorem bs_stSetRetTrue (h : BSimL d L₁ L₂ s₁ s₂) (t : Tid) (i : Item) :
    BSimL d L₁ L₂ (stSetRetTrue s₁ t i) (stSetRetTrue s₂ t i) := by
  unfold stSetRetTrue
  bsim_leaf h

theorem bs_stSetRetDrop (h : BSimL d L₁ L₂ s₁ s₂) (t : Tid) (i : Item) :
    BSimL d L₁ L₂ (stSetRetDrop cfg s₁ t i) (stSetRetDrop cfg s₂ t i) := by
  unfold stSetRetDrop
  split <;> bsim_leaf h

/-! ### Del -/

theorem bs_stDelStart (h : BSimL d L₁ L₂ s₁ s₂) (t : Tid) (k : Hash) (c : Conf) :
    BSimL d L₁ L₂ (stDelStart s₁ t k c) (stDelStart s₂ t k c) := by
  unfold stDelStart
  bsim_prep h
  split <;> bsim_leaf h

theorem bs_stDelExit (h : BSimL d L₁ L₂ s₁ s₂) (t : Tid) (k : Hash) (c : Conf) (prev : Val) :
    BSimL d L₁ L₂ (stDelExit s₁ t k c prev) (stDelExit s₂ t k c prev) := by
  unfold stDelExit
  bsim_leaf h

theorem bs_stDelSend (h : BSimL d L₁ L₂ s₁ s₂) (t : Tid) (k : Hash) (c : Conf) :
    BSimL d L₁ L₂ (stDelSend cfg s₁ t k c) (stDelSend cfg s₂ t k c) :=
  bs_sendBlocking h t rfl rfl rfl

theorem bs_stDelSent (h : BSimL d L₁ L₂ s₁ s₂) (t : Tid) (k : Hash) :
    BSimL d L₁ L₂ (stDelSent s₁ t k) (stDelSent s₂ t k) := by
  unfold stDelSent
  bsim_leaf h

/-! ### Wait -/

theorem bs_stWaitStart (h : BSimL d L₁ L₂ s₁ s₂) (t : Tid) :
    BSimL d L₁ L₂ (stWaitStart s₁ t) (stWaitStart s₂ t) := by
  unfold stWaitStart
  bsim_prep h
  split <;> bsim_leaf h

/-- the new marker id is `nextMarker` on both sides: `n + d` on the left, `n` on the right -/
theorem bs_stWaitSend (h : BSimL d L₁ L₂ s₁ s₂) (t : Tid) :
    BSimL d L₁ L₂ (stWaitSend cfg s₁ t) (stWaitSend cfg s₂ t) := by
  unfold stWaitSend
  have h' : BSimL d L₁ L₂ { s₁ with nextMarker := s₁.nextMarker + 1 } { s₂ with nextMarker := s₂.nextMarker + 1 } :=
    ⟨h.store, h.em, h.pol, h.met, h.buf, h.sendq, h.cm, by show s₁.nextMarker + 1 = s₂.nextMarker + 1 + d; rw [h.nm]; omega,
      h.app, h.cl, h.clock, h.closed, h.ring, h.log⟩
  exact bs_sendBlocking h' t (by rw [h.nm]; rfl) (by rw [h.nm]; rfl) (by rw [h.nm]; rfl)

theorem bs_stWaitRecv (h : BSimL d L₁ L₂ s₁ s₂) (t : Tid) (id : Nat) :
    OptRel (BSimL d L₁ L₂) (stWaitRecv s₁ t (id + d)) (stWaitRecv s₂ t id) := by
  unfold stWaitRecv
  have hc : s₁.closedMarkers.contains (id + d) = s₂.closedMarkers.contains id := by
    rw [Bool.eq_iff_iff]; simp only [List.contains_iff_mem]; exact h.cm id
  rw [hc]
  split
  · simp only [optRel_some]; bsim_leaf h
  · exact trivial

theorem bs_stWaitDone (h : BSimL d L₁ L₂ s₁ s₂) (t : Tid) :
    BSimL d L₁ L₂ (stWaitDone s₁ t) (stWaitDone s₂ t) := by
  unfold stWaitDone
  bsim_leaf h

/-! ### Get / GetTTL -/

theorem bs_stGetStart (h : BSimL d L₁ L₂ s₁ s₂) (t : Tid) (k : Hash) (c : Conf) (ch : Choice) :
    OptRel (BSimL d L₁ L₂) (stGetStart cfg s₁ t k c ch) (stGetStart cfg s₂ t k c ch) := by
  unfold stGetStart
  bsim_prep h
  split
  · simp only [optRel_some]; bsim_leaf h
  · cases ch with
    | none => simp only [optRel_some]; bsim_leaf h
    | flush kept n =>
      dsimp only
      split
      · exact trivial
      · simp only [optRel_some]; bsim_leaf h
    | _ => exact trivial

theorem bs_stGetRead (h : BSimL d L₁ L₂ s₁ s₂) (t : Tid) (k : Hash) (c : Conf) :
    BSimL d L₁ L₂ (stGetRead s₁ t k c) (stGetRead s₂ t k c) := by
  unfold stGetRead
  bsim_prep h
  bsim_leaf h

theorem bs_stGetCheck (h : BSimL d L₁ L₂ s₁ s₂) (t : Tid) (k : Hash) (c : Conf) (e : Option Entry) :
    BSimL d L₁ L₂ (stGetCheck s₁ t k c e) (stGetCheck s₂ t k c e) := by
  unfold stGetCheck
  bsim_prep h
  bsim_leaf h

theorem bs_stGetMetric (h : BSimL d L₁ L₂ s₁ s₂) (t : Tid) (k : Hash) (c : Conf) (r : Option Val) :
    BSimL d L₁ L₂ (stGetMetric cfg s₁ t k c r) (stGetMetric cfg s₂ t k c r) := by
  unfold stGetMetric
  bsim_leaf h

theorem bs_stTtlRead (h : BSimL d L₁ L₂ s₁ s₂) (t : Tid) (k : Hash) (c : Conf) :
    BSimL d L₁ L₂ (stTtlRead s₁ t k c) (stTtlRead s₂ t k c) := by
  unfold stTtlRead
  bsim_prep h
  bsim_leaf h

theorem bs_stTtlCheck (h : BSimL d L₁ L₂ s₁ s₂) (t : Tid) (k : Hash) (c : Conf) (e : Option Entry) :
    BSimL d L₁ L₂ (stTtlCheck s₁ t k c e) (stTtlCheck s₂ t k c e) := by
  unfold stTtlCheck
  bsim_prep h
  split <;> bsim_leaf h

theorem bs_stTtlExp (h : BSimL d L₁ L₂ s₁ s₂) (t : Tid) (k : Hash) (c : Conf) :
    BSimL d L₁ L₂ (stTtlExp s₁ t k c) (stTtlExp s₂ t k c) := by
  unfold stTtlExp
  bsim_prep h
  split <;> bsim_leaf h

theorem bs_stTtlNow (h : BSimL d L₁ L₂ s₁ s₂) (t : Tid) (k : Hash) (c : Conf) (exp : Time) :
    BSimL d L₁ L₂ (stTtlNow s₁ t k c exp) (stTtlNow s₂ t k c exp) := by
  unfold stTtlNow
  bsim_prep h
  split <;> bsim_leaf h

theorem bs_stTtlUntil (h : BSimL d L₁ L₂ s₁ s₂) (t : Tid) (k : Hash) (c : Conf) (exp : Time) :
    BSimL d L₁ L₂ (stTtlUntil s₁ t k c exp) (stTtlUntil s₂ t k c exp) := by
  unfold stTtlUntil
  bsim_prep h
  bsim_leaf h

/-! ### IterValues -/

theorem bs_stIterStart (h : BSimL d L₁ L₂ s₁ s₂) (t : Tid) (n : Nat) :
    BSimL d L₁ L₂ (stIterStart s₁ t n) (stIterStart s₂ t n) := by
  unfold stIterStart
  bsim_prep h
  split <;> bsim_leaf h

theorem bs_stIterShard (h : BSimL d L₁ L₂ s₁ s₂) (t : Tid) (k n : Nat) (seen : List Val) (ch : Choice) :
    OptRel (BSimL d L₁ L₂) (stIterShard s₁ t k n seen ch) (stIterShard s₂ t k n seen ch) := by
  unfold stIterShard
  cases ch with
  | order ks =>
    bsim_prep h
    split
    · exact trivial
    · split
      · exact trivial
      · split <;> (simp only [optRel_some]; bsim_leaf h)
  | _ => exact trivial

/-! ### Clear / Close -/

theorem bs_stClrStart (h : BSimL d L₁ L₂ s₁ s₂) (t : Tid) (closing : Bool) :
    BSimL d L₁ L₂ (stClrStart s₁ t closing) (stClrStart s₂ t closing) := by
  unfold stClrStart
  bsim_prep h
  split <;> bsim_leaf h

/-- closing the received marker: `id + d` on the left, `id` on the right -/
theorem bs_closeMarker {r₁ r₂ : State} (h : BSimL d L₁ L₂ r₁ r₂) (id : Nat) :
    BSimL d L₁ L₂ { r₁ with closedMarkers := (id + d) :: r₁.closedMarkers }
      { r₂ with closedMarkers := id :: r₂.closedMarkers } :=
  ⟨h.store, h.em, h.pol, h.met, h.buf, h.sendq,
    fun j => by
      show j + d ∈ (id + d) :: r₁.closedMarkers ↔ j ∈ id :: r₂.closedMarkers
      simp only [List.mem_cons, h.cm j]
      constructor
      · rintro (e | e)
        · exact Or.inl (by omega)
        · exact Or.inr e
      · rintro (e | e)
        · exact Or.inl (by omega)
        · exact Or.inr e,
    h.nm, h.app, h.cl, h.clock, h.closed, h.ring, h.log⟩

theorem bs_stClrDrain (h : BSimL d L₁ L₂ s₁ s₂) (t : Tid) (closing : Bool) :
    BSimL d L₁ L₂ (stClrDrain s₁ t closing) (stClrDrain s₂ t closing) := by
  have hr := bs_recvBuf h
  unfold stClrDrain
  cases h1 : recvBuf s₁ with
  | none =>
    cases h2 : recvBuf s₂ with
    | none => dsimp only; bsim_leaf h
    | some p => rw [h1, h2] at hr; exact False.elim hr
  | some p₁ =>
    cases h2 : recvBuf s₂ with
    | none => rw [h1, h2] at hr; exact False.elim hr
    | some p₂ =>
      obtain ⟨x₁, r₁⟩ := p₁
      obtain ⟨x₂, r₂⟩ := p₂
      rw [h1, h2] at hr
      obtain ⟨hx, hr⟩ := hr
      subst hx
      cases x₂ with
      | marker id => exact bs_closeMarker hr id
      | item i =>
        simp only [bsE_item]
        split
        · bsim_leaf hr
        · exact hr

theorem bs_stClrPolicy (h : BSimL d L₁ L₂ s₁ s₂) (t : Tid) (closing : Bool) :
    BSimL d L₁ L₂ (stClrPolicy s₁ t closing) (stClrPolicy s₂ t closing) := by
  unfold stClrPolicy
  bsim_prep h
  bsim_leaf h

theorem bs_evictAll (st : Store) (ks : List Hash) {r₁ r₂ : State} (h : BSimL d L₁ L₂ r₁ r₂) :
    BSimL d L₁ L₂ (evictAll r₁ st ks) (evictAll r₂ st ks) := by
  induction ks generalizing r₁ r₂ with
  | nil => exact h
  | cons k rest ih =>
    unfold evictAll
    split
    · exact ih h
    · refine ih ?_
      bsim_leaf h

theorem bs_stClrShard (h : BSimL d L₁ L₂ s₁ s₂) (t : Tid) (closing : Bool) (k : Nat) (ch : Choice) :
    OptRel (BSimL d L₁ L₂) (stClrShard s₁ t closing k ch) (stClrShard s₂ t closing k ch) := by
  unfold stClrShard
  cases ch with
  | order ks =>
    dsimp only
    rw [h.store]
    split
    · exact trivial
    · split
      · exact trivial
      · simp only [optRel_some]
        have he := bs_evictAll s₂.store ks h
        split <;> bsim_leaf he
  | _ => exact trivial

theorem bs_stClrEm (h : BSimL d L₁ L₂ s₁ s₂) (t : Tid) (closing : Bool) :
    BSimL d L₁ L₂ (stClrEm s₁ t closing) (stClrEm s₂ t closing) := by
  unfold stClrEm
  bsim_prep h
  bsim_leaf h

theorem bs_stClrMetrics (h : BSimL d L₁ L₂ s₁ s₂) (t : Tid) (closing : Bool) :
    BSimL d L₁ L₂ (stClrMetrics cfg s₁ t closing) (stClrMetrics cfg s₂ t closing) := by
  unfold stClrMetrics
  split <;> bsim_leaf h

theorem bs_stClrRestart (h : BSimL d L₁ L₂ s₁ s₂) (t : Tid) (closing : Bool) :
    BSimL d L₁ L₂ (stClrRestart s₁ t closing) (stClrRestart s₂ t closing) := by
  unfold stClrRestart
  dsimp only
  split <;> bsim_leaf h

theorem bs_stClsFinish (h : BSimL d L₁ L₂ s₁ s₂) (t : Tid) :
    BSimL d L₁ L₂ (stClsFinish s₁ t) (stClsFinish s₂ t) := by
  unfold stClsFinish
  bsim_leaf h

/-! ### MaxCost / UpdateMaxCost / RemainingCost -/

theorem bs_stUpdMax (h : BSimL d L₁ L₂ s₁ s₂) (t : Tid) (m : Int) :
    BSimL d L₁ L₂ (stUpdMax s₁ t m) (stUpdMax s₂ t m) := by
  unfold stUpdMax
  bsim_prep h
  bsim_leaf h

theorem bs_stReadMax (h : BSimL d L₁ L₂ s₁ s₂) (t : Tid) :
    BSimL d L₁ L₂ (stReadMax s₁ t) (stReadMax s₂ t) := by
  unfold stReadMax
  bsim_prep h
  bsim_leaf h

theorem bs_stReadRem (h : BSimL d L₁ L₂ s₁ s₂) (t : Tid) :
    BSimL d L₁ L₂ (stReadRem s₁ t) (stReadRem s₂ t) := by
  unfold stReadRem
  bsim_prep h
  bsim_leaf h

/-! ### the dispatcher, spawn, done, tick -/

theorem bs_clientStep (h : BSimL d L₁ L₂ s₁ s₂) (t : Tid) (ch : Choice) :
    OptRel (BSimL d L₁ L₂) (clientStep cfg s₁ t ch) (clientStep cfg s₂ t ch) := by
  unfold clientStep
  rw [h.cl t]
  cases s₂.cl t with
  | idle => exact trivial
  | setStart k c v cost ttl => exact optRel_needNone ch (bs_stSetStart h t k c v cost ttl)
  | setUpd i => exact optRel_needNone ch (bs_stSetUpd h t i)
  | setExit i prev => exact optRel_needNone ch (bs_stSetExit h t i prev)
  | setSend i => exact optRel_needNone ch (bs_stSetSend h t i)
  | setRetTrue i => exact optRel_needNone ch (bs_stSetRetTrue h t i)
  | setRetDrop i => exact optRel_needNone ch (bs_stSetRetDrop h t i)
  | delStart k c => exact optRel_needNone ch (bs_stDelStart h t k c)
  | delExit k c prev => exact optRel_needNone ch (bs_stDelExit h t k c prev)
  | delSend k c => exact optRel_needNone ch (bs_stDelSend h t k c)
  | delBlocked k => exact trivial
  | delSent k => exact optRel_needNone ch (bs_stDelSent h t k)
  | waitStart => exact optRel_needNone ch (bs_stWaitStart h t)
  | waitSend => exact optRel_needNone ch (bs_stWaitSend h t)
  | waitBlocked id => exact trivial
  | waitRecv id => exact optRel_needNone ch (bs_stWaitRecv h t id)
  | waitDone => exact optRel_needNone ch (bs_stWaitDone h t)
  | getStart k c => exact bs_stGetStart h t k c ch
  | getRead k c => exact optRel_needNone ch (bs_stGetRead h t k c)
  | getCheck k c e => exact optRel_needNone ch (bs_stGetCheck h t k c e)
  | getMetric k c r => exact optRel_needNone ch (bs_stGetMetric h t k c r)
  | ttlRead k c => exact optRel_needNone ch (bs_stTtlRead h t k c)
  | ttlCheck k c e => exact optRel_needNone ch (bs_stTtlCheck h t k c e)
  | ttlExp k c => exact optRel_needNone ch (bs_stTtlExp h t k c)
  | ttlNow k c exp => exact optRel_needNone ch (bs_stTtlNow h t k c exp)
  | ttlUntil k c exp => exact optRel_needNone ch (bs_stTtlUntil h t k c exp)
  | iterStart n => exact optRel_needNone ch (bs_stIterStart h t n)
  | iterShard k n seen => exact bs_stIterShard h t k n seen ch
  | clrStart closing => exact optRel_needNone ch (bs_stClrStart h t closing)
  | clrStop closing => exact trivial
  | clrDone closing => exact trivial
  | clrDrain closing => exact optRel_needNone ch (bs_stClrDrain h t closing)
  | clrPolicy closing => exact optRel_needNone ch (bs_stClrPolicy h t closing)
  | clrShard closing k => exact bs_stClrShard h t closing k ch
  | clrEm closing => exact optRel_needNone ch (bs_stClrEm h t closing)
  | clrMetrics closing => exact optRel_needNone ch (bs_stClrMetrics h t closing)
  | clrRestart closing => exact optRel_needNone ch (bs_stClrRestart h t closing)
  | clsStop => exact trivial
  | clsDone => exact trivial
  | clsFinish => exact optRel_needNone ch (bs_stClsFinish h t)
  | updMax m => exact optRel_needNone ch (bs_stUpdMax h t m)
  | readMax => exact optRel_needNone ch (bs_stReadMax h t)
  | readRem => exact optRel_needNone ch (bs_stReadRem h t)

theorem bs_spawnStep (h : BSimL d L₁ L₂ s₁ s₂) (t : Tid) (c : Call) :
    OptRel (BSimL d L₁ L₂) (spawnStep s₁ t c) (spawnStep s₂ t c) := by
  unfold spawnStep
  rw [h.cl t]
  cases s₂.cl t with
  | idle =>
    simp only [bsC]
    bsim_prep h
    cases c <;> (simp only [optRel_some]; bsim_leaf h)
  | _ => exact trivial

theorem bs_tick (h : BSimL d L₁ L₂ s₁ s₂) (n : Nat) :
    BSimL d L₁ L₂ { s₁ with clock := s₁.clock + n } { s₂ with clock := s₂.clock + n } :=
  ⟨h.store, h.em, h.pol, h.met, h.buf, h.sendq, h.cm, h.nm, h.app, h.cl,
    by show s₁.clock + n = s₂.clock + n; rw [h.clock], h.closed, h.ring, h.log⟩

end RV.Cache
