import RV.Proofs.CacheHandshake
/-!
# The write buffer is a FIFO with a single consumer (used by C05, C06)

`pending s` = the element the applier has received and not yet applied (if any), then `buf`,
then the elements of the blocked senders.  This file defines the queue-discipline invariant
`QueueInv` (part (a)); `CacheFifoOrder.lean` proves it for all reachable states together with
`fifo_order` (part (b)).
-/
namespace RV.Cache

/-- the element the applier has received and whose effect on policy/store is not yet complete -/
def appElem : APc → Option BufElem
  | .marker id => some (.marker id)
  | .item i => some (.item i)
  | .costed i => some (.item i)
  | .added i _ _ => some (.item i)
  | .tombPolicy i => some (.item i)
  | _ => none

/-- the queue proper: channel buffer followed by the elements of the blocked senders -/
def queue (s : State) : List BufElem := s.buf ++ s.sendq.map Prod.snd

/-- The pending sequence, oldest first. -/
def pending (s : State) : List BufElem := (appElem s.app).toList ++ queue s

/-- What one step may do to the pending sequence. -/
inductive PendStep : List BufElem → List BufElem → Prop
  | same (p) : PendStep p p
  | push (p e) : PendStep p (p ++ [e])
  | pop (x p) : PendStep (x :: p) p
  /-- cost pre-processing of the element the applier holds (`Config.Cost`, internal cost) -/
  | recost (i c p) : PendStep (.item i :: p) (.item { i with cost := c } :: p)

def BufElem.markerId? : BufElem → Option Nat
  | .marker id => some id
  | .item _ => none

def markerIds (l : List BufElem) : List Nat := l.filterMap BufElem.markerId?

@[simp] theorem markerIds_nil : markerIds [] = [] := rfl
@[simp] theorem markerIds_append (a b : List BufElem) : markerIds (a ++ b) = markerIds a ++ markerIds b := by
  simp [markerIds, List.filterMap_append]
@[simp] theorem markerIds_cons_marker (id : Nat) (l : List BufElem) :
    markerIds (.marker id :: l) = id :: markerIds l := by simp [markerIds, BufElem.markerId?]
@[simp] theorem markerIds_cons_item (i : Item) (l : List BufElem) :
    markerIds (.item i :: l) = markerIds l := by
  unfold markerIds; rw [List.filterMap_cons_none]; rfl
theorem mem_markerIds {id : Nat} {l : List BufElem} : id ∈ markerIds l ↔ .marker id ∈ l := by
  simp only [markerIds, List.mem_filterMap]
  constructor
  · rintro ⟨e, he, h⟩
    cases e with
    | item i => simp [BufElem.markerId?] at h
    | marker id' => simp [BufElem.markerId?] at h; subst h; exact he
  · intro h; exact ⟨_, h, rfl⟩

/-- the tombstone `Del` sends -/
def tomb (h : Hash) (c : Conf) : BufElem := .item ⟨.del, h, c, 0, 0, Gen.zeroTime⟩

/-- `pc` is the pc of a sender blocked with element `e` -/
def BlockedOn (pc : CPc) (e : BufElem) : Prop :=
  (∃ h c, pc = .delBlocked h ∧ e = tomb h c) ∨ (∃ id, pc = .waitBlocked id ∧ e = .marker id)

def CPc.blocked : CPc → Bool
  | .delBlocked _ => true | .waitBlocked _ => true | _ => false

/-- pcs the queue invariant talks about -/
def CPc.qrel : CPc → Bool
  | .delBlocked _ => true | .waitBlocked _ => true | .waitRecv _ => true | _ => false

theorem CPc.blocked_qrel {pc : CPc} (h : pc.blocked = true) : pc.qrel = true := by
  cases pc <;> simp_all [CPc.blocked, CPc.qrel]

/-- (a) The queue discipline. -/
structure QueueInv (cfg : Cfg) (s : State) : Prop where
  cap : s.buf.length ≤ cfg.bufCap
  full : s.sendq ≠ [] → s.buf.length = cfg.bufCap
  sq_pc : ∀ t e, (t, e) ∈ s.sendq → BlockedOn (s.cl t) e
  sq_nodup : (s.sendq.map Prod.fst).Nodup
  blocked_in : ∀ t, (s.cl t).blocked = true → ∃ e, (t, e) ∈ s.sendq
  mk_nodup : (markerIds (pending s)).Nodup
  mk_lt : ∀ id ∈ markerIds (pending s), id < s.nextMarker
  mk_open : ∀ id ∈ markerIds (pending s), id ∉ s.closedMarkers
  closed_lt : ∀ id ∈ s.closedMarkers, id < s.nextMarker
  waiting : ∀ t id, (s.cl t = .waitRecv id ∨ s.cl t = .waitBlocked id) →
    id ∈ markerIds (pending s) ∨ id ∈ s.closedMarkers

theorem pending_congr {s s' : State} (happ : appElem s'.app = appElem s.app) (hbuf : s'.buf = s.buf)
    (hsq : s'.sendq = s.sendq) : pending s' = pending s := by
  simp [pending, queue, happ, hbuf, hsq]

theorem queue_congr {s s' : State} (hbuf : s'.buf = s.buf) (hsq : s'.sendq = s.sendq) : queue s' = queue s := by
  simp [queue, hbuf, hsq]

/-- `QueueInv` only looks at the length of `buf`, at `sendq`, the marker ids of `pending`,
`closedMarkers`, `nextMarker` and the queue-relevant pcs. -/
theorem QueueInv.congr' {cfg : Cfg} {s s' : State} (h : QueueInv cfg s)
    (hcap : s'.buf.length ≤ cfg.bufCap) (hfull : s'.sendq ≠ [] → s'.buf.length = cfg.bufCap)
    (hsq : s'.sendq = s.sendq)
    (hmk : markerIds (pending s') = markerIds (pending s))
    (hcm : s'.closedMarkers = s.closedMarkers) (hnm : s'.nextMarker = s.nextMarker)
    (hcl : ∀ t, s'.cl t = s.cl t ∨ ((s.cl t).qrel = false ∧ (s'.cl t).qrel = false)) : QueueInv cfg s' := by
  have hq : ∀ t, (s.cl t).qrel = true → s'.cl t = s.cl t := by
    intro t ht; rcases hcl t with e | ⟨e, _⟩
    · exact e
    · rw [e] at ht; cases ht
  have hq' : ∀ t, (s'.cl t).qrel = true → s'.cl t = s.cl t := by
    intro t ht; rcases hcl t with e | ⟨_, e⟩
    · exact e
    · rw [e] at ht; cases ht
  constructor
  · exact hcap
  · exact hfull
  · intro t e hm; rw [hsq] at hm
    have hb := h.sq_pc t e hm
    have : (s.cl t).qrel = true := by
      rcases hb with ⟨_, _, e1, _⟩ | ⟨_, e1, _⟩ <;> simp [e1, CPc.qrel]
    rw [hq t this]; exact hb
  · rw [hsq]; exact h.sq_nodup
  · intro t hb; rw [hsq]
    have := hq' t (CPc.blocked_qrel hb)
    rw [this] at hb; exact h.blocked_in t hb
  · rw [hmk]; exact h.mk_nodup
  · rw [hmk, hnm]; exact h.mk_lt
  · rw [hmk, hcm]; exact h.mk_open
  · rw [hcm, hnm]; exact h.closed_lt
  · intro t id hw; rw [hmk, hcm]
    have : (s'.cl t).qrel = true := by rcases hw with e | e <;> simp [e, CPc.qrel]
    rw [hq' t this] at hw; exact h.waiting t id hw

theorem QueueInv.congr {cfg : Cfg} {s s' : State} (h : QueueInv cfg s)
    (hbuf : s'.buf = s.buf) (hsq : s'.sendq = s.sendq)
    (hmk : markerIds (pending s') = markerIds (pending s))
    (hcm : s'.closedMarkers = s.closedMarkers) (hnm : s'.nextMarker = s.nextMarker)
    (hcl : ∀ t, s'.cl t = s.cl t ∨ ((s.cl t).qrel = false ∧ (s'.cl t).qrel = false)) : QueueInv cfg s' :=
  h.congr' (by rw [hbuf]; exact h.cap) (by rw [hbuf, hsq]; exact h.full) hsq hmk hcm hnm hcl

/-- one thread moves between pcs the invariant does not talk about; queue untouched -/
theorem QueueInv.frame {cfg : Cfg} {s s' : State} (h : QueueInv cfg s) (t : Tid)
    (hbuf : s'.buf = s.buf) (hsq : s'.sendq = s.sendq) (happ : s'.app = s.app)
    (hcm : s'.closedMarkers = s.closedMarkers) (hnm : s'.nextMarker = s.nextMarker)
    (hne : ∀ t', t' ≠ t → s'.cl t' = s.cl t') (h0 : (s.cl t).qrel = false) (h1 : (s'.cl t).qrel = false) :
    QueueInv cfg s' := by
  refine h.congr hbuf hsq (by rw [pending_congr (by rw [happ]) hbuf hsq]) hcm hnm ?_
  intro t'
  by_cases e : t' = t
  · subst e; exact Or.inr ⟨h0, h1⟩
  · exact Or.inl (hne t' e)

/-- the applier moves without touching the marker ids of `pending` -/
theorem QueueInv.app_frame {cfg : Cfg} {s s' : State} (h : QueueInv cfg s)
    (hbuf : s'.buf = s.buf) (hsq : s'.sendq = s.sendq)
    (hmk : markerIds (appElem s'.app).toList = markerIds (appElem s.app).toList)
    (hcm : s'.closedMarkers = s.closedMarkers) (hnm : s'.nextMarker = s.nextMarker)
    (hcl : s'.cl = s.cl) : QueueInv cfg s' :=
  h.congr hbuf hsq (by simp [pending, queue, hmk, hbuf, hsq]) hcm hnm (fun t => Or.inl (by rw [hcl]))

/-! ### sends -/

theorem pending_sendBlocking (cfg : Cfg) (s : State) (t : Tid) (e : BufElem) (sent blocked : CPc) :
    pending (sendBlocking cfg s t e sent blocked) = pending s ++ [e] := by
  unfold sendBlocking
  split
  · rename_i h; simp [pending, queue, h.2]
  · simp [pending, queue]

theorem QueueInv.bump {cfg : Cfg} {s : State} (h : QueueInv cfg s) :
    QueueInv cfg { s with nextMarker := s.nextMarker + 1 } := by
  constructor
  · exact h.cap
  · exact h.full
  · exact h.sq_pc
  · exact h.sq_nodup
  · exact h.blocked_in
  · exact h.mk_nodup
  · intro id hid; exact Nat.lt_succ_of_lt (h.mk_lt id hid)
  · exact h.mk_open
  · intro id hid; exact Nat.lt_succ_of_lt (h.closed_lt id hid)
  · exact h.waiting

/-- a blocking send of an element that fits the sender's pcs -/
theorem QueueInv.sendBlocking {cfg : Cfg} {s : State} (h : QueueInv cfg s) (t : Tid) (e : BufElem)
    (sent blocked : CPc) (h0 : (s.cl t).qrel = false) (hb : BlockedOn blocked e)
    (hsent : sent.blocked = false)
    (hfresh : ∀ id, e = .marker id → id ∉ markerIds (pending s) ∧ id ∉ s.closedMarkers ∧ id < s.nextMarker)
    (hsentw : ∀ id, sent = .waitRecv id → e = .marker id) :
    QueueInv cfg (sendBlocking cfg s t e sent blocked) := by
  have hnot : ∀ e', (t, e') ∉ s.sendq := by
    intro e' hm
    have := h.sq_pc t e' hm
    rcases this with ⟨_, _, e1, _⟩ | ⟨_, e1, _⟩ <;> simp [e1, CPc.qrel] at h0
  have hmkp : markerIds (pending (Cache.sendBlocking cfg s t e sent blocked)) = markerIds (pending s) ++ markerIds [e] := by
    rw [pending_sendBlocking]; simp
  have hblk : blocked.blocked = true := by
    rcases hb with ⟨_, _, e1, _⟩ | ⟨_, e1, _⟩ <;> simp [e1, CPc.blocked]
  -- facts shared by both branches
  have mk_nodup : (markerIds (pending s) ++ markerIds [e]).Nodup := by
    cases e with
    | item i => simpa using h.mk_nodup
    | marker id =>
      simp only [markerIds_cons_marker, markerIds_nil]
      rw [List.nodup_append]
      refine ⟨h.mk_nodup, by simp, ?_⟩
      intro a ha b hb'
      simp at hb'; subst hb'
      intro e1; subst e1
      exact (hfresh a rfl).1 ha
  have mk_lt : ∀ id ∈ markerIds (pending s) ++ markerIds [e], id < s.nextMarker := by
    intro id hid
    rcases List.mem_append.mp hid with h1 | h1
    · exact h.mk_lt id h1
    · cases e with
      | item i => simp at h1
      | marker id' => simp at h1; subst h1; exact (hfresh id rfl).2.2
  have mk_open : ∀ id ∈ markerIds (pending s) ++ markerIds [e], id ∉ s.closedMarkers := by
    intro id hid
    rcases List.mem_append.mp hid with h1 | h1
    · exact h.mk_open id h1
    · cases e with
      | item i => simp at h1
      | marker id' => simp at h1; subst h1; exact (hfresh id rfl).2.1
  have hwait_old : ∀ t' id, t' ≠ t → (s.cl t' = .waitRecv id ∨ s.cl t' = .waitBlocked id) →
      id ∈ markerIds (pending s) ++ markerIds [e] ∨ id ∈ s.closedMarkers := by
    intro t' id _ hw
    rcases h.waiting t' id hw with h1 | h1
    · exact Or.inl (List.mem_append.mpr (Or.inl h1))
    · exact Or.inr h1
  unfold Cache.sendBlocking at hmkp ⊢
  split
  · rename_i hc
    rw [if_pos hc] at hmkp
    constructor
    · simp; omega
    · intro hne; simp at hne; exact absurd hc.2 hne
    · intro t' e' hm
      simp only [setCl_sendq] at hm
      have hne : t' ≠ t := by intro e1; subst e1; exact hnot e' hm
      rw [setCl_cl_ne _ _ _ hne]; exact h.sq_pc t' e' hm
    · simpa using h.sq_nodup
    · intro t' hb'
      by_cases e1 : t' = t
      · subst e1; simp [hsent] at hb'
      · rw [setCl_cl_ne _ _ _ e1] at hb'; simpa using h.blocked_in t' hb'
    · rw [hmkp]; exact mk_nodup
    · rw [hmkp]; exact mk_lt
    · rw [hmkp]; exact mk_open
    · exact h.closed_lt
    · intro t' id hw
      rw [hmkp]
      by_cases e1 : t' = t
      · subst e1
        simp only [setCl_cl_self] at hw
        rcases hw with hw | hw
        · have := hsentw id hw; subst this
          exact Or.inl (by simp)
        · rw [hw] at hsent; simp [CPc.blocked] at hsent
      · rw [setCl_cl_ne _ _ _ e1] at hw; exact hwait_old t' id e1 hw
  · rename_i hc
    rw [if_neg hc] at hmkp
    have hfull : s.buf.length = cfg.bufCap := by
      by_cases hq : s.sendq = []
      · have := h.cap
        have h2 : ¬ s.buf.length < cfg.bufCap := fun hl => hc ⟨hl, hq⟩
        omega
      · exact h.full hq
    constructor
    · exact h.cap
    · intro _; exact hfull
    · intro t' e' hm
      simp only [setCl_sendq, List.mem_append, List.mem_singleton, Prod.mk.injEq] at hm
      rcases hm with hm | ⟨rfl, rfl⟩
      · have hne : t' ≠ t := by intro e1; subst e1; exact hnot e' hm
        rw [setCl_cl_ne _ _ _ hne]; exact h.sq_pc t' e' hm
      · simpa using hb
    · simp only [setCl_sendq, List.map_append, List.map_cons, List.map_nil]
      rw [List.nodup_append]
      refine ⟨h.sq_nodup, by simp, ?_⟩
      intro a ha b hb'
      simp at hb'; subst hb'
      intro e1; subst e1
      obtain ⟨⟨t1, e1⟩, hm, rfl⟩ := List.mem_map.mp ha
      exact hnot e1 hm
    · intro t' hb'
      by_cases e1 : t' = t
      · subst e1; exact ⟨e, by simp⟩
      · rw [setCl_cl_ne _ _ _ e1] at hb'
        obtain ⟨e', hm⟩ := h.blocked_in t' hb'
        exact ⟨e', by simp [hm]⟩
    · rw [hmkp]; exact mk_nodup
    · rw [hmkp]; exact mk_lt
    · rw [hmkp]; exact mk_open
    · exact h.closed_lt
    · intro t' id hw
      rw [hmkp]
      by_cases e1 : t' = t
      · subst e1
        simp only [setCl_cl_self] at hw
        rcases hw with hw | hw
        · rw [hw] at hblk; simp [CPc.blocked] at hblk
        · rcases hb with ⟨_, _, e2, _⟩ | ⟨id', e2, e3⟩
          · rw [e2] at hw; cases hw
          · rw [e2] at hw; cases hw; subst e3; exact Or.inl (by simp)
      · rw [setCl_cl_ne _ _ _ e1] at hw; exact hwait_old t' id e1 hw

end RV.Cache
