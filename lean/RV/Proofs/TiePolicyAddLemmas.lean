import RV.Gen.PolicyM
import RV.Model.Policy
import RV.Proofs.TiePolicyLemmas
import RV.Proofs.PolicySample
import RV.Proofs.TieLfuLemmas
/-!
Helper lemmas for `RV/Props/TiePolicyAdd.lean`: the pieces of `sampledLFU.fillSample` and of
`defaultPolicy.Add` (policy.go) as generated whole (`RV/Gen/PolicyM.lean`) against the pieces of the
exact policy model (`RV/Model/Policy.lean`): `fillGo`, the minimum scan, the swap-remove, and the
loop-free `sampledLFU` methods.  Core Lean only.
-/
set_option linter.unusedSimpArgs false
namespace RV.TiePolicyAdd
open GenL Gen.PolicyM Gen.TinyLFUM RV.Policy RV.Tie RV.TieL

def absPol (g : SampledLFU) : Pol :=
  { keyCosts := absKC g.keyCosts, used := g.used.toInt, maxCost := g.maxCost.toInt }
def absPP (pp : PolicyPair) : KC := (pp.key, pp.cost.toInt)
def absS (s : Array PolicyPair) : List KC := s.toList.map absPP
/-- an enumeration of `keyCosts` as the model sees it -/
def absE (e : List (BitVec 64 × BitVec 64)) : List KC := e.map fun q => (q.1, q.2.toInt)
def absV {V : Type} (v : Array (Item V)) : List KC := v.toList.map fun it => (it.Key, it.Cost.toInt)

theorem w64_toInt (x : BitVec 64) : w64 x.toInt = x := by simp [w64]

/-! ### the loop-free pieces -/
theorem tooBig_eq (g : SampledLFU) (c : BitVec 64) :
    tooBig c.toInt (absPol g).maxCost = BitVec.slt (sampledLFU_getMaxCost g) c := by
  simp [tooBig, Gen.Policy.addTooBig, absPol, w64_toInt, sampledLFU_getMaxCost]

theorem roomLeft_eq (g : SampledLFU) (c : BitVec 64) :
    RV.Policy.roomLeft (absPol g).maxCost (absPol g).used c.toInt = (sampledLFU_roomLeft g c).toInt := by
  simp [RV.Policy.roomLeft, Gen.Policy.roomLeft, absPol, w64_toInt, sampledLFU_roomLeft, sampledLFU_getMaxCost]

theorem needRoom_eq (g : SampledLFU) (c : BitVec 64) :
    needRoom (RV.Policy.roomLeft (absPol g).maxCost (absPol g).used c.toInt) = BitVec.slt (sampledLFU_roomLeft g c) 0#64 := by
  rw [roomLeft_eq]; simp [needRoom, Gen.Policy.addNeedRoom, w64_toInt]

theorem roomOk_eq (g : SampledLFU) (c : BitVec 64) :
    roomOk (RV.Policy.roomLeft (absPol g).maxCost (absPol g).used c.toInt) = BitVec.sle 0#64 (sampledLFU_roomLeft g c) := by
  rw [roomLeft_eq]; simp [roomOk, Gen.Policy.addRoomOk, w64_toInt]

theorem sampledLFU_add_eq (g : SampledLFU) (k c : BitVec 64) :
    absPol (sampledLFU_add g k c) = (absPol g).evictAdd k c.toInt := by
  simp [sampledLFU_add, RV.Policy.Pol.evictAdd, absPol, RV.Policy.plus64, RV.Policy.w64, insert_absKC]

theorem sampledLFU_del_eq (g : SampledLFU) (k : BitVec 64) :
    absPol (sampledLFU_del g k).1 = (absPol g).del k := by
  unfold sampledLFU_del RV.Policy.Pol.del
  simp only [absPol, lookup_absKC]
  cases h : g.keyCosts.lookup k <;> simp [RV.Policy.minus64, RV.Policy.w64, erase_absKC]

theorem sampledLFU_updateIfHas_eq (g : SampledLFU) (k c : BitVec 64) :
    let r := sampledLFU_updateIfHas g k c
    (absPol r.1, r.2.1) = (absPol g).updateIfHas k c.toInt := by
  unfold sampledLFU_updateIfHas RV.Policy.Pol.updateIfHas
  simp only [absPol, lookup_absKC]
  cases h : g.keyCosts.lookup k <;>
    simp [RV.Policy.plus64, RV.Policy.usedDelta, Gen.Policy.updUsedDelta, RV.Policy.w64, insert_absKC]


/-! ### fillSample -/

/-- the slice `fillSample` returns -/
def fillArr (s : Array PolicyPair) : List (BitVec 64 × BitVec 64) → Array PolicyPair
  | [] => s
  | kv :: rest =>
    if fullAfter (s.push { key := kv.1, cost := kv.2 }).size then s.push { key := kv.1, cost := kv.2 }
    else fillArr (s.push { key := kv.1, cost := kv.2 }) rest

theorem absS_push (s : Array PolicyPair) (x : PolicyPair) : absS (s.push x) = absS s ++ [absPP x] := by
  simp [absS]

theorem absS_length (s : Array PolicyPair) : (absS s).length = s.size := by simp [absS]

theorem absS_fillArr (s : Array PolicyPair) (e : List (BitVec 64 × BitVec 64)) :
    absS (fillArr s e) = fillGo (absS s) (absE e) := by
  induction e generalizing s with
  | nil => rfl
  | cons kv rest ih =>
    have hl : (absS s ++ [(kv.1, kv.2.toInt)]).length = (s.push { key := kv.1, cost := kv.2 }).size := by
      simp [absS_length]
    simp only [fillArr, absE, List.map_cons, fillGo, hl]
    split
    · rw [absS_push]; rfl
    · rw [ih, absS_push]; rfl

/-- what the function returns when the loop ended with `lr` (`return in` inside, or after the loop) -/
def lrOut (orc : Orc) : LoopRes (Array PolicyPair × Orc) (Array PolicyPair) → Array PolicyPair × Orc
  | .ret v => v
  | .done st => (st, orc)

theorem fill_loop (orc : Orc) (s : Array PolicyPair) (e : List (BitVec 64 × BitVec 64)) :
    ∃ lr, loopL e (sampledLFU_fillSample_loop1 orc) s = .ok lr ∧ lrOut orc lr = (fillArr s e, orc) := by
  induction e generalizing s with
  | nil => exact ⟨_, rfl, rfl⟩
  | cons kv rest ih =>
    have hc : BitVec.sle 5#64 (BitVec.ofNat 64 (s.push { key := kv.1, cost := kv.2 }).size)
        = fullAfter (s.push { key := kv.1, cost := kv.2 }).size := by
      simp [fullAfter, Gen.Policy.fillFullAfter]
    by_cases hf : fullAfter (s.push { key := kv.1, cost := kv.2 }).size = true
    · refine ⟨?lr, ?h1, ?h2⟩
      case h1 =>
        simp only [loopL, sampledLFU_fillSample_loop1, hc, hf, if_true, Res.bind_ok]
        rfl
      case h2 => simp only [lrOut, fillArr, hf, if_true]
    · obtain ⟨lr, h1, h2⟩ := ih (s.push { key := kv.1, cost := kv.2 })
      refine ⟨lr, ?_, ?_⟩
      · simp only [loopL, sampledLFU_fillSample_loop1, hc, hf, if_false, Bool.false_eq_true, Res.bind_ok]
        exact h1
      · simp only [fillArr, hf, if_false, Bool.false_eq_true]; exact h2

/-- `sampledLFU.fillSample(in)` with the oracle `orc`: unchanged when already full; else the next
enumeration is consumed as the model's `fillGo` does (`absS_fillArr`); no enumeration left = stuck. -/
theorem sampledLFU_fillSample_eq (p : SampledLFU) (s : Array PolicyPair) (orc : Orc) :
    sampledLFU_fillSample p s orc =
      if fullBefore s.size then .ok (s, orc)
      else match orc with
        | [] => .stuck
        | e :: rest => .ok (fillArr s e, rest) := by
  have hc : BitVec.sle 5#64 (BitVec.ofNat 64 s.size) = fullBefore s.size := by
    simp [fullBefore, Gen.Policy.fillFullBefore]
  unfold sampledLFU_fillSample
  simp only [hc]
  split
  · rfl
  · cases orc with
    | nil => rfl
    | cons e rest =>
      obtain ⟨lr, h1, h2⟩ := fill_loop rest s e
      simp only [popEnum, Res.bind_ok, h1]
      cases lr <;> simp_all [lrOut]

/-- through the abstraction: the model's `fillSample` -/
theorem absS_fillSample (s : Array PolicyPair) (e : List (BitVec 64 × BitVec 64)) :
    RV.Policy.fillSample (absS s) (absE e) = if fullBefore s.size then absS s else absS (fillArr s e) := by
  simp only [RV.Policy.fillSample, absS_length, absS_fillArr]


/-! ### the minimum scan -/

/-- `minKey, minHits, minId, minCost` as the generated code keeps them -/
abbrev MinB := BitVec 64 × BitVec 64 × BitVec 64 × BitVec 64

def scanStep (ee : BitVec 64 → BitVec 64) (st : MinB) (it : BitVec 64 × PolicyPair) : MinB :=
  if Gen.Policy.addHitsLess (ee it.2.key) st.2.1 then (it.2.key, ee it.2.key, it.1, it.2.cost) else st

def absMin (st : MinB) : MinSt :=
  { key := st.1, hits := st.2.1.toInt, id := st.2.2.1.toNat, cost := st.2.2.2.toInt }

def initB : MinB := (0#64, Gen.Policy.addMinHitsInit, 0#64, 0#64)

theorem absMin_init : absMin initB = scanInit := by
  simp [absMin, initB, scanInit, minHitsInit]

variable {Door : Type} {ops : BloomOps Door}

theorem scan_loop (p : DefaultPolicy Door) (ee : BitVec 64 → BitVec 64)
    (hE : ∀ k, tinyLFU_Estimate ops p.admit_ k = .ok (ee k)) (l : List (BitVec 64 × PolicyPair)) (st : MinB) :
    forL l (defaultPolicy_Add_loop2 ops p) st = .ok (l.foldl (scanStep ee) st) := by
  apply forL_ok_foldl l _ _ (fun _ => True) st trivial (fun _ _ _ => trivial)
  intro s x _
  unfold defaultPolicy_Add_loop2
  simp only [hE, Res.bind_ok, scanStep, Gen.Policy.addHitsLess]
  by_cases hc : (ee x.2.key).slt s.2.1 = true <;> simp [hc]

theorem scan_abs (ee : BitVec 64 → BitVec 64) (l : List PolicyPair) (i : Nat) (st : MinB)
    (hi : i + l.length ≤ 2 ^ 64) :
    absMin (((l.zipIdx i).map fun q => (BitVec.ofNat 64 q.2, q.1)).foldl (scanStep ee) st)
      = scanFrom (fun k => (ee k).toInt) i (absMin st) (l.map absPP) := by
  induction l generalizing i st with
  | nil => rfl
  | cons x xs ih =>
    simp only [List.zipIdx_cons, List.map_cons, List.foldl_cons, scanFrom]
    rw [ih (i + 1) _ (by simp at hi; omega)]
    congr 1
    have hid : (BitVec.ofNat 64 i).toNat = i := by
      simp at hi; simp [BitVec.toNat_ofNat]; omega
    simp only [scanStep, hitsLess, absMin, absPP, w64_toInt]
    split <;> simp [hid]

theorem scan_enumA (ee : BitVec 64 → BitVec 64) (s : Array PolicyPair) (hs : s.size ≤ 2 ^ 64) :
    absMin ((enumA s).foldl (scanStep ee) initB) = scan (fun k => (ee k).toInt) (absS s) := by
  unfold enumA scan
  rw [scan_abs ee s.toList 0 initB (by simpa using hs), absMin_init]
  rfl

/-! ### swap-remove -/

/-- `sample[minId] = sample[len(sample)-1]; sample = sample[:len(sample)-1]` as generated -/
def swapArr (s : Array PolicyPair) (minId : BitVec 64) : Res (Array PolicyPair) :=
  (rd s (Gen.Policy.addLastIdx (BitVec.ofNat 64 s.size))).bind fun t =>
  (wr s minId t).bind fun s1 => takeTo s1 (Gen.Policy.addNewLen (BitVec.ofNat 64 s1.size))

instance : Inhabited PolicyPair := ⟨⟨0#64, 0#64⟩⟩

theorem swapArr_spec (s : Array PolicyPair) (minId : BitVec 64) (hs : s.size < 2 ^ 63) :
    match swapRemove (absS s) minId.toNat with
    | none => swapArr s minId = .panic
    | some l => ∃ s', swapArr s minId = .ok s' ∧ absS s' = l ∧ s'.size + 1 = s.size := by
  by_cases h0 : s.size = 0
  · have : absS s = [] := by simp [absS, Array.size_eq_zero_iff.mp h0]
    rw [this, swapRemove_nil]
    simp only [swapArr]
    rw [rd_panic]
    · rfl
    · simp [h0, Gen.Policy.addLastIdx]
  · have hpos : 0 < s.size := Nat.pos_of_ne_zero h0
    have hlt : s.size - 1 < s.size := by omega
    have hlast : (Gen.Policy.addLastIdx (BitVec.ofNat 64 s.size)).toNat = s.size - 1 := lastIdx_toNat hpos hs
    have hx : (absS s)[s.size - 1]? = some (absPP s[s.size - 1]) := by
      simp [absS, hlt]
    have hrd : rd s (Gen.Policy.addLastIdx (BitVec.ofNat 64 s.size)) = .ok s[s.size - 1] :=
      rd_ok' _ _ _ (by rw [hlast]; simp [hlt])
    by_cases hi : minId.toNat < s.size
    · obtain ⟨x, hx', he⟩ := swapRemove_eq (s := absS s) (i := minId.toNat) (by rw [absS_length]; exact hi)
        (by rw [absS_length]; exact hs)
      rw [absS_length] at hx' he
      rw [hx] at hx'
      have hxv : x = absPP s[s.size - 1] := (Option.some.inj hx').symm
      subst hxv
      rw [he]
      have hsz : (s.set! minId.toNat s[s.size - 1]).size = s.size := by simp
      have hnew : (Gen.Policy.addNewLen (BitVec.ofNat 64 s.size)).toNat = s.size - 1 := newLen_toNat hpos hs
      have hnn : BitVec.slt (Gen.Policy.addNewLen (BitVec.ofNat 64 s.size)) 0#64 = false := by
        rw [BitVec.slt_eq_decide, BitVec.toInt_eq_toNat_of_lt (by rw [hnew]; omega), hnew]
        simp
      refine ⟨(s.set! minId.toNat s[s.size - 1]).extract 0 (s.size - 1), ?_, ?_, by simp; omega⟩
      · simp only [swapArr, hrd, Res.bind_ok, wr_ok _ _ _ hi, takeTo, hsz, hnn, hnew]
        simp
      · simp [absS, List.map_take, List.map_set, List.dropLast_eq_take]
    · have : swapRemove (absS s) minId.toNat = none := by
        unfold swapRemove
        rw [absS_length, hlast, hx]
        simp [Gen.Policy.addSwapDst, hi, absS_length]
      rw [this]
      simp only [swapArr, hrd, Res.bind_ok]
      rw [wr_panic _ _ _ (by omega)]
      rfl

end RV.TiePolicyAdd
