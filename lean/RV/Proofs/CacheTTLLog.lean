import RV.Proofs.CacheTTLView
/-!
# Invariants over the ghost log, the clock and the pcs of the Set path (C07, C14)

* `CallNowInv`: the `now` recorded by every `getCall/ttlCall/iterCall` is ≤ the current clock.
* `Fresh`: the `setCall` events of a log carry pairwise distinct non-zero values.
* `UniqInv` (under `Fresh`): every `setExp t v exp` belongs to the one `setCall t … v …`,
  there is at most one `setExp` per value, and `exp = (clock at that step) + ttl`
  (`exp - ttl ≤ clock` afterwards) or `exp = zeroTime` for `ttl = 0`.
All proved from `step_view` / `step_clock_le`.
-/
namespace RV.Cache
open Gen.Cache

/-! ### suffix-closed log predicates -/

/-- `Q` holds of every suffix of the log (the log is newest-first, so a suffix is "the log
as it was at some earlier moment"). -/
def AllSuffix (Q : List Ev → Prop) (l : List Ev) : Prop := ∀ l3 rest, l = l3 ++ rest → Q rest

theorem allSuffix_nil {Q : List Ev → Prop} (h : Q []) : AllSuffix Q [] := by
  intro l3 rest e
  have : rest = [] := by
    cases l3 <;> simp at e
    exact e
  subst this; exact h

theorem allSuffix_cons {Q : List Ev → Prop} {e : Ev} {l : List Ev} (h1 : Q (e :: l)) (h2 : AllSuffix Q l) :
    AllSuffix Q (e :: l) := by
  intro l3 rest heq
  cases l3 with
  | nil => simp at heq; subst heq; exact h1
  | cons x l3 =>
    simp only [List.cons_append, List.cons.injEq] at heq
    exact h2 l3 rest heq.2

theorem allSuffix_append {Q : List Ev → Prop} {evs l : List Ev}
    (h1 : ∀ l3 rest, evs = l3 ++ rest → rest ≠ [] → Q (rest ++ l)) (h2 : AllSuffix Q l) :
    AllSuffix Q (evs ++ l) := by
  induction evs with
  | nil => simpa using h2
  | cons e evs ih =>
    refine allSuffix_cons ?_ (ih fun l3 rest heq hne => h1 (e :: l3) rest (by simp [heq]) hne)
    exact h1 [] (e :: evs) rfl (by simp)

theorem AllSuffix.head {Q : List Ev → Prop} {l : List Ev} (h : AllSuffix Q l) : Q l := h [] l rfl

theorem AllSuffix.suffix {Q : List Ev → Prop} {l3 l : List Ev} (h : AllSuffix Q (l3 ++ l)) : AllSuffix Q l := by
  intro l4 rest heq
  exact h (l3 ++ l4) rest (by simp [heq])

/-! ### the open call of a thread -/

/-- `e` is the newest event of the log satisfying `P` -/
def OpenCall (P : Ev → Prop) (log : List Ev) (e : Ev) : Prop :=
  ∃ l2 l1, log = l2 ++ e :: l1 ∧ ∀ y ∈ l2, ¬ P y

theorem OpenCall.head (P : Ev → Prop) (log : List Ev) (e : Ev) : OpenCall P (e :: log) e :=
  ⟨[], log, rfl, by simp⟩

theorem OpenCall.cons {P : Ev → Prop} {log : List Ev} {e y : Ev} (hy : ¬ P y) (h : OpenCall P log e) :
    OpenCall P (y :: log) e := by
  obtain ⟨l2, l1, rfl, h2⟩ := h
  refine ⟨y :: l2, l1, rfl, ?_⟩
  intro z hz
  rcases List.mem_cons.mp hz with rfl | hz
  · exact hy
  · exact h2 z hz

theorem OpenCall.append {P : Ev → Prop} {log evs : List Ev} {e : Ev} (hy : ∀ y ∈ evs, ¬ P y)
    (h : OpenCall P log e) : OpenCall P (evs ++ log) e := by
  induction evs with
  | nil => simpa using h
  | cons y evs ih =>
    exact (ih fun z hz => hy z (List.mem_cons_of_mem _ hz)).cons (hy y (by simp))

theorem OpenCall.mem {P : Ev → Prop} {log : List Ev} {e : Ev} (h : OpenCall P log e) : e ∈ log := by
  obtain ⟨l2, l1, rfl, _⟩ := h; simp

theorem OpenCall.unique {P : Ev → Prop} {log : List Ev} {e e' : Ev} (he : P e) (he' : P e')
    (h : OpenCall P log e) (h' : OpenCall P log e') : e = e' := by
  obtain ⟨l2, l1, rfl, h2⟩ := h
  obtain ⟨l2', l1', heq, h2'⟩ := h'
  induction l2 generalizing l2' with
  | nil =>
    cases l2' with
    | nil => simp at heq; exact heq.1
    | cons y l2' =>
      simp at heq
      exact absurd he (by rw [heq.1]; exact h2' y (by simp))
  | cons x l2 ih =>
    cases l2' with
    | nil =>
      simp at heq
      exact absurd he' (by rw [← heq.1]; exact h2 x (by simp))
    | cons y l2' =>
      simp only [List.cons_append, List.cons.injEq] at heq
      exact ih (fun z hz => h2 z (List.mem_cons_of_mem _ hz)) l2' heq.2
        (fun z hz => h2' z (List.mem_cons_of_mem _ hz))

def IsGetCall (t : Tid) (e : Ev) : Prop := ∃ h c now, e = .getCall t h c now
def IsTtlCall (t : Tid) (e : Ev) : Prop := ∃ h c now, e = .ttlCall t h c now
def IsIterCall (t : Tid) (e : Ev) : Prop := ∃ now, e = .iterCall t now

/-! ### the clock recorded by calls -/

def Ev.callNow : Ev → Option Time
  | .getCall _ _ _ now => some now
  | .ttlCall _ _ _ now => some now
  | .iterCall _ now => some now
  | _ => none

/-- every call's recorded start time is ≤ the current clock -/
def CallNowInv (s : State) : Prop := ∀ e ∈ s.log, ∀ now, e.callNow = some now → now ≤ s.clock

theorem quiet_callNow {e : Ev} (h : e.quiet = true) : e.callNow = none := by
  cases e <;> simp_all [Ev.quiet, Ev.callNow]

theorem Loud.callNow {s : State} {t : Tid} {pc pc' : CPc} {e : Ev} {now : Time} (h : Loud s t pc pc' e)
    (hn : e.callNow = some now) : now = s.clock := by
  cases h <;> simp [Ev.callNow] at hn <;> exact hn.symm

theorem callNow_step {cfg : Cfg} {s s' : State} {a : Action} (h : CallNowInv s)
    (hs : step cfg s a = some s') : CallNowInv s' := by
  have hclk := step_clock_le hs
  intro e he now hnow
  cases step_view hs with
  | quiet evs hlog hq _ =>
    rw [hlog] at he
    rcases List.mem_append.mp he with he | he
    · rw [quiet_callNow (hq e he)] at hnow; cases hnow
    · exact Int.le_trans (h e he now hnow) hclk
  | loud t e' hlog _ hl =>
    rw [hlog] at he
    rcases List.mem_cons.mp he with rfl | he
    · rw [hl.callNow hnow]; exact hclk
    · exact Int.le_trans (h e he now hnow) hclk

theorem callNow_reach {cfg : Cfg} {s : State} (h : Reach cfg s) : CallNowInv s :=
  Reach.induction (fun _ => by intro e he; simp [init] at he) (fun _ _ _ _ hp hs => callNow_step hp hs) h

/-- the log only grows -/
theorem step_log_mono {cfg : Cfg} {s s' : State} {a : Action} (hs : step cfg s a = some s') :
    ∃ evs, s'.log = evs ++ s.log := by
  cases step_view hs with
  | quiet evs hlog _ _ => exact ⟨evs, hlog⟩
  | loud t e hlog _ _ => exact ⟨[e], by simp [hlog]⟩

/-! ### Fresh -/

/-- the values supplied by the `Set` calls of a log -/
def setVals : List Ev → List Val
  | [] => []
  | .setCall _ _ _ v _ _ :: l => v :: setVals l
  | _ :: l => setVals l

/-- The `Set` calls carry pairwise distinct non-zero values. -/
def Fresh (l : List Ev) : Prop := (setVals l).Nodup ∧ 0 ∉ setVals l

instance : DecidablePred Fresh := fun l => by unfold Fresh; infer_instance

theorem setVals_cons_of_quiet {e : Ev} {l : List Ev} (h : ∀ t h c v cost ttl, e ≠ .setCall t h c v cost ttl) :
    setVals (e :: l) = setVals l := by
  cases e <;> first | rfl | exact absurd rfl (h _ _ _ _ _ _)

theorem Fresh.tail {e : Ev} {l : List Ev} (h : Fresh (e :: l)) : Fresh l := by
  by_cases hc : ∃ t h c v cost ttl, e = .setCall t h c v cost ttl
  · obtain ⟨t, hh, c, v, cost, ttl, rfl⟩ := hc
    obtain ⟨h1, h2⟩ := h
    simp only [setVals, List.nodup_cons, List.mem_cons, not_or] at h1 h2
    exact ⟨h1.2, h2.2⟩
  · have : setVals (e :: l) = setVals l :=
      setVals_cons_of_quiet fun t h c v cost ttl he => hc ⟨t, h, c, v, cost, ttl, he⟩
    unfold Fresh at h; rw [this] at h; exact h

theorem Fresh.suffix {l3 l : List Ev} (h : Fresh (l3 ++ l)) : Fresh l := by
  induction l3 with
  | nil => simpa using h
  | cons e l3 ih => exact ih (Fresh.tail h)

theorem mem_setVals {l : List Ev} {t : Tid} {h : Hash} {c : Conf} {v : Val} {cost ttl : Int}
    (hm : Ev.setCall t h c v cost ttl ∈ l) : v ∈ setVals l := by
  induction l with
  | nil => simp at hm
  | cons e l ih =>
    rcases List.mem_cons.mp hm with rfl | hm
    · simp [setVals]
    · have := ih hm
      cases e <;> simp [setVals, this]

theorem Fresh.head_notin {t : Tid} {h : Hash} {c : Conf} {v : Val} {cost ttl : Int} {l : List Ev}
    (hf : Fresh (.setCall t h c v cost ttl :: l)) : v ∉ setVals l ∧ v ≠ 0 := by
  obtain ⟨h1, h2⟩ := hf
  simp only [setVals, List.nodup_cons, List.mem_cons, not_or] at h1 h2
  exact ⟨h1.1, fun e => h2.1 e.symm⟩

/-- under `Fresh` a value identifies its `Set` call -/
theorem Fresh.setCall_unique {l : List Ev} (hf : Fresh l) {t t' : Tid} {h h' : Hash} {c c' : Conf} {v : Val}
    {cost cost' ttl ttl' : Int} (h1 : Ev.setCall t h c v cost ttl ∈ l) (h2 : Ev.setCall t' h' c' v cost' ttl' ∈ l) :
    t = t' ∧ h = h' ∧ c = c' ∧ cost = cost' ∧ ttl = ttl' := by
  induction l with
  | nil => simp at h1
  | cons e l ih =>
    rcases List.mem_cons.mp h1 with e1 | m1
    · rcases List.mem_cons.mp h2 with e2 | m2
      · rw [← e1] at e2; simp at e2; obtain ⟨a, b, c, d, e⟩ := e2; exact ⟨a.symm, b.symm, c.symm, d.symm, e.symm⟩
      · subst e1; exact absurd (mem_setVals m2) (Fresh.head_notin hf).1
    · rcases List.mem_cons.mp h2 with e2 | m2
      · subst e2; exact absurd (mem_setVals m1) (Fresh.head_notin hf).1
      · exact ih hf.tail m1 m2

theorem Fresh.ne_zero {l : List Ev} (hf : Fresh l) {t : Tid} {h : Hash} {c : Conf} {v : Val}
    {cost ttl : Int} (h1 : Ev.setCall t h c v cost ttl ∈ l) : v ≠ 0 := by
  intro e; subst e; exact hf.2 (mem_setVals h1)

/-! ### every `setExp` belongs to one `Set` call -/

structure UniqInv (s : State) : Prop where
  call : ∀ t v e, Ev.setExp t v e ∈ s.log → ∃ h c cost ttl, Ev.setCall t h c v cost ttl ∈ s.log
  start : ∀ t h c v cost ttl, s.cl t = .setStart h c v cost ttl →
    Ev.setCall t h c v cost ttl ∈ s.log ∧ ∀ t' e, Ev.setExp t' v e ∉ s.log
  uniq : ∀ t t' v e e', Ev.setExp t v e ∈ s.log → Ev.setExp t' v e' ∈ s.log → e = e'
  exp : ∀ t v e h c cost ttl, Ev.setExp t v e ∈ s.log → Ev.setCall t h c v cost ttl ∈ s.log →
    (ttl = 0 ∧ e = Gen.zeroTime) ∨ (0 < ttl ∧ e - ttl ≤ s.clock)

theorem quiet_ne_setExp {e : Ev} (h : e.quiet = true) (t : Tid) (v : Val) (x : Time) : e ≠ .setExp t v x := by
  intro he; subst he; simp [Ev.quiet] at h
theorem quiet_ne_setCall {e : Ev} (hq : e.quiet = true) (t : Tid) (h : Hash) (c : Conf) (v : Val) (cost ttl : Int) :
    e ≠ .setCall t h c v cost ttl := by
  intro he; subst he; simp [Ev.quiet] at hq

theorem mem_quiet_append {evs l : List Ev} {e : Ev} (hq : ∀ x ∈ evs, x.quiet = true) (hne : e.quiet = false)
    (h : e ∈ evs ++ l) : e ∈ l := by
  rcases List.mem_append.mp h with h | h
  · have := hq e h; rw [hne] at this; cases this
  · exact h

/-- a quiet step never enters the `setStart` pc -/
theorem PcQuiet.setStart_inv {s : State} {pc : CPc} {h : Hash} {c : Conf} {v : Val} {cost ttl : Int}
    (hq : PcQuiet s pc (.setStart h c v cost ttl)) : pc = .setStart h c v cost ttl := by
  cases hq with
  | same => rfl
  | other _ _ _ h1 => simp [CPc.ttlRel] at h1

theorem fresh_of_step {cfg : Cfg} {s s' : State} {a : Action} (hs : step cfg s a = some s')
    (hf : Fresh s'.log) : Fresh s.log := by
  obtain ⟨evs, h⟩ := step_log_mono hs
  rw [h] at hf; exact hf.suffix

theorem uniq_step {cfg : Cfg} {s s' : State} {a : Action} (hi : Fresh s.log → UniqInv s)
    (hs : step cfg s a = some s') (hf' : Fresh s'.log) : UniqInv s' := by
  have hf := fresh_of_step hs hf'
  have h := hi hf
  have hclk := step_clock_le hs
  cases step_view hs with
  | quiet evs hlog hq hcl =>
    have hexp : ∀ t v e, Ev.setExp t v e ∈ s'.log → Ev.setExp t v e ∈ s.log := fun t v e hm => by
      rw [hlog] at hm; exact mem_quiet_append hq rfl hm
    have hcall : ∀ t h c v cost ttl, Ev.setCall t h c v cost ttl ∈ s'.log → Ev.setCall t h c v cost ttl ∈ s.log :=
      fun t h c v cost ttl hm => by rw [hlog] at hm; exact mem_quiet_append hq rfl hm
    have hsub : ∀ e, e ∈ s.log → e ∈ s'.log := fun e he => by rw [hlog]; exact List.mem_append_right _ he
    constructor
    · intro t v e hm
      obtain ⟨hh, c, cost, ttl, hc⟩ := h.call t v e (hexp _ _ _ hm)
      exact ⟨hh, c, cost, ttl, hsub _ hc⟩
    · intro t hh c v cost ttl hpc
      have hq' := hcl t
      rw [hpc] at hq'
      obtain ⟨h1, h2⟩ := h.start t hh c v cost ttl hq'.setStart_inv
      exact ⟨hsub _ h1, fun t' e hm => h2 t' e (hexp _ _ _ hm)⟩
    · intro t t' v e e' h1 h2
      exact h.uniq t t' v e e' (hexp _ _ _ h1) (hexp _ _ _ h2)
    · intro t v e hh c cost ttl h1 h2
      rcases h.exp t v e hh c cost ttl (hexp _ _ _ h1) (hcall _ _ _ _ _ _ h2) with h3 | h3
      · exact Or.inl h3
      · exact Or.inr ⟨h3.1, Int.le_trans h3.2 hclk⟩
  | loud t0 e0 hlog hne hl =>
    have hsub : ∀ e, e ∈ s.log → e ∈ s'.log := fun e he => by rw [hlog]; exact List.mem_cons_of_mem _ he
    -- generic treatment of the loud events that are neither `setCall` nor `setExp`
    have other : (∀ t v e, e0 ≠ .setExp t v e) → (∀ t h c v cost ttl, e0 ≠ .setCall t h c v cost ttl) →
        (∀ h c v cost ttl, s'.cl t0 ≠ .setStart h c v cost ttl) → UniqInv s' := by
      intro n1 n2 n3
      have hexp : ∀ t v e, Ev.setExp t v e ∈ s'.log → Ev.setExp t v e ∈ s.log := fun t v e hm => by
        rw [hlog] at hm
        rcases List.mem_cons.mp hm with hm | hm
        · exact absurd hm.symm (n1 _ _ _)
        · exact hm
      have hcall : ∀ t h c v cost ttl, Ev.setCall t h c v cost ttl ∈ s'.log → Ev.setCall t h c v cost ttl ∈ s.log :=
        fun t h c v cost ttl hm => by
          rw [hlog] at hm
          rcases List.mem_cons.mp hm with hm | hm
          · exact absurd hm.symm (n2 _ _ _ _ _ _)
          · exact hm
      constructor
      · intro t v e hm
        obtain ⟨hh, c, cost, ttl, hc⟩ := h.call t v e (hexp _ _ _ hm)
        exact ⟨hh, c, cost, ttl, hsub _ hc⟩
      · intro t hh c v cost ttl hpc
        by_cases ht : t = t0
        · subst ht; exact absurd hpc (n3 _ _ _ _ _)
        · rw [hne t ht] at hpc
          obtain ⟨h1, h2⟩ := h.start t hh c v cost ttl hpc
          exact ⟨hsub _ h1, fun t' e hm => h2 t' e (hexp _ _ _ hm)⟩
      · intro t t' v e e' h1 h2
        exact h.uniq t t' v e e' (hexp _ _ _ h1) (hexp _ _ _ h2)
      · intro t v e hh c cost ttl h1 h2
        rcases h.exp t v e hh c cost ttl (hexp _ _ _ h1) (hcall _ _ _ _ _ _ h2) with h3 | h3
        · exact Or.inl h3
        · exact Or.inr ⟨h3.1, Int.le_trans h3.2 hclk⟩
    generalize hpc0 : s.cl t0 = pc0 at hl
    generalize hpc1 : s'.cl t0 = pc1 at hl
    cases hl with
    | setCall hh c v cost ttl =>
      rw [hlog] at hf'
      obtain ⟨hnotin, _⟩ := hf'.head_notin
      have hexp : ∀ t v e, Ev.setExp t v e ∈ s'.log → Ev.setExp t v e ∈ s.log := fun t v e hm => by
        rw [hlog] at hm
        rcases List.mem_cons.mp hm with hm | hm
        · cases hm
        · exact hm
      have noexp : ∀ t' e, Ev.setExp t' v e ∉ s.log := fun t' e hm => by
        obtain ⟨h', c', cost', ttl', hc⟩ := h.call t' v e hm
        exact hnotin (mem_setVals hc)
      constructor
      · intro t v' e hm
        obtain ⟨h', c', cost', ttl', hc⟩ := h.call t v' e (hexp _ _ _ hm)
        exact ⟨h', c', cost', ttl', hsub _ hc⟩
      · intro t h' c' v' cost' ttl' hpc
        by_cases ht : t = t0
        · subst ht
          rw [hpc1] at hpc; cases hpc
          exact ⟨by rw [hlog]; simp, fun t' e hm => noexp t' e (hexp _ _ _ hm)⟩
        · rw [hne t ht] at hpc
          obtain ⟨h1, h2⟩ := h.start t h' c' v' cost' ttl' hpc
          exact ⟨hsub _ h1, fun t' e hm => h2 t' e (hexp _ _ _ hm)⟩
      · intro t t' v' e e' h1 h2
        exact h.uniq t t' v' e e' (hexp _ _ _ h1) (hexp _ _ _ h2)
      · intro t v' e h' c' cost' ttl' h1 h2
        have h1' := hexp _ _ _ h1
        rw [hlog] at h2
        rcases List.mem_cons.mp h2 with h2 | h2
        · cases h2; exact absurd h1' (noexp _ _)
        · rcases h.exp t v' e h' c' cost' ttl' h1' h2 with h3 | h3
          · exact Or.inl h3
          · exact Or.inr ⟨h3.1, Int.le_trans h3.2 hclk⟩
    | setExp hh c v cost ttl exp hcl hexpv =>
      obtain ⟨hcall0, hnone⟩ := h.start t0 hh c v cost ttl hpc0
      have hcall : ∀ t h c v cost ttl, Ev.setCall t h c v cost ttl ∈ s'.log → Ev.setCall t h c v cost ttl ∈ s.log :=
        fun t h c v cost ttl hm => by
          rw [hlog] at hm
          rcases List.mem_cons.mp hm with hm | hm
          · cases hm
          · exact hm
      have hexp : ∀ t v' e, Ev.setExp t v' e ∈ s'.log → (t = t0 ∧ v' = v ∧ e = exp) ∨ Ev.setExp t v' e ∈ s.log :=
        fun t v' e hm => by
          rw [hlog] at hm
          rcases List.mem_cons.mp hm with hm | hm
          · cases hm; exact Or.inl ⟨rfl, rfl, rfl⟩
          · exact Or.inr hm
      constructor
      · intro t v' e hm
        rcases hexp _ _ _ hm with ⟨rfl, rfl, rfl⟩ | hm
        · exact ⟨hh, c, cost, ttl, hsub _ hcall0⟩
        · obtain ⟨h', c', cost', ttl', hc⟩ := h.call t v' e hm
          exact ⟨h', c', cost', ttl', hsub _ hc⟩
      · intro t h' c' v' cost' ttl' hpc
        by_cases ht : t = t0
        · subst ht; rw [hpc1] at hpc; cases hpc
        · rw [hne t ht] at hpc
          obtain ⟨h1, h2⟩ := h.start t h' c' v' cost' ttl' hpc
          refine ⟨hsub _ h1, fun t' e hm => ?_⟩
          rcases hexp _ _ _ hm with ⟨rfl, rfl, rfl⟩ | hm
          · exact ht (hf.setCall_unique h1 hcall0).1
          · exact h2 t' e hm
      · intro t t' v' e e' h1 h2
        rcases hexp _ _ _ h1 with ⟨_, hv1, he1⟩ | h1 <;> rcases hexp _ _ _ h2 with ⟨_, hv2, he2⟩ | h2
        · rw [he1, he2]
        · subst hv1; exact absurd h2 (hnone _ _)
        · subst hv2; exact absurd h1 (hnone _ _)
        · exact h.uniq t t' v' e e' h1 h2
      · intro t v' e h' c' cost' ttl' h1 h2
        have h2' := hcall _ _ _ _ _ _ h2
        rcases hexp _ _ _ h1 with ⟨rfl, rfl, rfl⟩ | h1
        · obtain ⟨_, _, _, _, rfl⟩ := hf.setCall_unique h2' hcall0
          rcases hexpv with ⟨h0, he⟩ | ⟨h0, he⟩
          · exact Or.inl ⟨h0, he⟩
          · refine Or.inr ⟨h0, ?_⟩
            rw [he]
            rw [Int.add_sub_cancel]; exact hclk
        · rcases h.exp t v' e h' c' cost' ttl' h1 h2' with h3 | h3
          · exact Or.inl h3
          · exact Or.inr ⟨h3.1, Int.le_trans h3.2 hclk⟩
    | getCall => exact other (by intros; simp) (by intros; simp) (by intros; rw [hpc1]; simp)
    | getClosed => exact other (by intros; simp) (by intros; simp) (by intros; rw [hpc1]; simp)
    | getRet => exact other (by intros; simp) (by intros; simp) (by intros; rw [hpc1]; simp)
    | ttlCall => exact other (by intros; simp) (by intros; simp) (by intros; rw [hpc1]; simp)
    | ttlMiss => exact other (by intros; simp) (by intros; simp) (by intros; rw [hpc1]; simp)
    | ttlNoExp => exact other (by intros; simp) (by intros; simp) (by intros; rw [hpc1]; simp)
    | ttlGone => exact other (by intros; simp) (by intros; simp) (by intros; rw [hpc1]; simp)
    | ttlRet => exact other (by intros; simp) (by intros; simp) (by intros; rw [hpc1]; simp)
    | iterCall => exact other (by intros; simp) (by intros; simp) (by intros; rw [hpc1]; simp)
    | iterClosed => exact other (by intros; simp) (by intros; simp) (by intros; rw [hpc1]; simp)
    | iterRet => exact other (by intros; simp) (by intros; simp) (by intros; rw [hpc1]; simp)

theorem uniq_init (cfg : Cfg) (now : Time) : UniqInv (init cfg now) := by
  constructor <;> simp [init]

/-- Under `Fresh`, in every reachable state: one `setExp` per value, belonging to its `Set` call. -/
theorem uniq_reach {cfg : Cfg} {s : State} (h : Reach cfg s) (hf : Fresh s.log) : UniqInv s :=
  Reach.induction (P := fun s => Fresh s.log → UniqInv s) (fun now _ => uniq_init cfg now)
    (fun _ _ _ _ hp hs => uniq_step hp hs) h hf

end RV.Cache
