import RV.Proofs.TieTree2NewChild
/-!
# The tree on flat memory: the new-child path of `Tree.set` as a whole, `initRootNode`, `Reset`

`set_newchild_append` / `set_newchild_null`: the generated `Tree.set` on an inner node whose slot for
`k` is empty / whose routing entry has no child page; `setNode_newchild_*`: what the structural model
computes there.  `initRootNode_refines`: `newNode(0)` + `Set(absoluteMax, 0)` on an empty page table
gives the represented initial tree of the model (`initRoot`); `Reset_refines`: wipe, re-allocate
1 MiB, `initRootNode` = the model's `reset`.
-/
namespace RV.TreeFlat
open RV.Tree RV.NodeFlat Gen.TreeM

/-! ## the new-child path of `set` -/

/-- empty slot (`n.key(idx) == 0`): flat side -/
theorem set_newchild_append {cfg : Cfg} (hc : CfgFlat cfg) (hmk2 : 2 ≤ cfg.maxKeys) (t : St) (a : Alloc)
    (hinv : AllocInv cfg t a) (hb1 : (a.nextPage + 1) * pw cfg < 2 ^ 40)
    (p : Nat) (es : List (Key × Node)) (k : Key) (v : Val) (hk0 : k ≠ 0#64)
    (hpg : PageOf cfg t.data p false (entWords es)) (hlen : es.length < cfg.maxKeys)
    (hs : search es k = es.length) (hpfree : p ∉ a.free) (hplt : p < a.nextPage) (fuel : Nat) :
    ∃ t', Gen.TreeM.set (w cfg.pageSize) (w cfg.maxKeys) (fuel + 2) t (w p) k v = some (t', refOf cfg t' p) ∧
      NewChildOut cfg t a p (es ++ [(k, Node.null)]) es.length k k v t' := by
  have hmk := hc.mkLt
  have hsz := hpg.ok.1
  have hsearch : search (ents cfg.maxKeys (pageOf cfg t.data p)) k = es.length := by
    rw [hpg.ents, entWords_eq_mapV, search_mapV]; exact hs
  rw [set_succ_rest]
  rw [node_w hc t p hpg.pos hpg.fit hinv.small]
  simp only [Option.bind_some]
  rw [rdNode_refOf t p hpg.fit, isLeaf_w hsz (by omega), hpg.isLeaf]
  simp only [Option.bind_some, Bool.false_eq_true, if_false]
  rw [rdNode_refOf t p hpg.fit, search_w hsz hmk hpg.ok.2.1 k, hsearch]
  simp only [Option.bind_some]
  rw [w_sle (by omega) (by omega), if_neg (by simp; omega)]
  have hkey : Gen.Node.key (pageOf cfg t.data p) (w es.length) = some 0#64 := by
    rw [key_keyAt hpg.ok (by omega) (by omega), hpg.ents, entWords_eq_mapV, keyAt_mapV]
    simp [keyAt]
  rw [rdNode_refOf t p hpg.fit, hkey]
  simp only [Option.bind_some]
  obtain ⟨pg, hpgs, hslot, hpg13⟩ := setSlot_fill hc t hinv.small p es k hk0 hpg hlen hs
  rw [hslot]
  simp only [Option.bind_some]
  have hinv13 : AllocInv cfg { t with data := setPage cfg t.data p pg } a := hinv.setPage p pg hpfree hpg.fit hpgs
  have hget : (es ++ [(k, Node.null)])[es.length]? = some (k, Node.null) := by simp
  obtain ⟨t', hrest, out⟩ := setRest_nullchild hc hmk2 { t with data := setPage cfg t.data p pg } a hinv13 hb1 p
    (es ++ [(k, Node.null)]) es.length k k v hk0 hget hpg13 hpfree hplt fuel
  refine ⟨t', hrest, ⟨out.parent, out.child, out.inv, ?_, ?_, out.which, out.ne⟩⟩
  · have := out.grow; simp only [setPage_size] at this; exact this
  · intro r hrp hrq hfr
    rw [out.frame r hrp hrq (by simp only [setPage_size]; exact hfr)]
    exact pageOf_setPage_ne _ _ _ _ hrp hpg.fit hfr hpgs

/-- empty slot: the structural side -/
theorem setNode_newchild_append (cfg : Cfg) (hmk2 : 2 ≤ cfg.maxKeys) (hmk : cfg.maxKeys < 2 ^ 31) (p : Nat)
    (es : List (Key × Node)) (k : Key) (v : Val) (hk0 : k ≠ 0#64) (hs : search es k = es.length)
    (hlen : es.length < cfg.maxKeys) (a : Alloc) :
    setNode cfg (.inner p es) k v a =
      (.inner p (es ++ [(k, Node.leaf (RV.Tree.newNode cfg a).1 [(k, v)])]),
       { (RV.Tree.newNode cfg a).2 with leafKeys := (RV.Tree.newNode cfg a).2.leafKeys + (1 : Nat) }) := by
  have hidx : Gen.Tree.setIdxPanic (w (search es k)) (w cfg.maxKeys) = false := by
    rw [hs]; unfold Gen.Tree.setIdxPanic
    rw [w_sle (by omega) (by omega)]; simp; omega
  rw [setNode]
  simp only [hidx, Bool.false_eq_true, if_false, setEnts_append cfg hmk2 hmk k v hk0 es a hs]

/-- routing entry without a child page: flat side -/
theorem set_newchild_null {cfg : Cfg} (hc : CfgFlat cfg) (hmk2 : 2 ≤ cfg.maxKeys) (t : St) (a : Alloc)
    (hinv : AllocInv cfg t a) (hb1 : (a.nextPage + 1) * pw cfg < 2 ^ 40)
    (p : Nat) (l : List (Key × Node)) (ki : Key) (r : List (Key × Node)) (k : Key) (v : Val) (hk0 : k ≠ 0#64)
    (hpg : PageOf cfg t.data p false (entWords (l ++ (ki, Node.null) :: r)))
    (hlt : ∀ e ∈ l, e.1 < k) (hle : k ≤ ki) (hki0 : ki ≠ 0#64)
    (hpfree : p ∉ a.free) (hplt : p < a.nextPage) (fuel : Nat) :
    ∃ t', Gen.TreeM.set (w cfg.pageSize) (w cfg.maxKeys) (fuel + 2) t (w p) k v = some (t', refOf cfg t' p) ∧
      NewChildOut cfg t a p (l ++ (ki, Node.null) :: r) l.length ki k v t' := by
  have hmk := hc.mkLt
  have hsz := hpg.ok.1
  have hnk : nkeys cfg.maxKeys (pageOf cfg t.data p) = (l ++ (ki, Node.null) :: r).length := by
    rw [← ents_length, hpg.ents, entWords_length]
  have hle' : (l ++ (ki, Node.null) :: r).length ≤ cfg.maxKeys := by rw [← hnk]; exact hpg.ok.2.1
  have hllt : l.length < (l ++ (ki, Node.null) :: r).length := by simp
  have hsearch : search (ents cfg.maxKeys (pageOf cfg t.data p)) k = l.length := by
    rw [hpg.ents, entWords_eq_mapV, search_mapV]; exact search_decomp l ki _ r k hlt hle
  have hget : (l ++ (ki, Node.null) :: r)[l.length]? = some (ki, Node.null) := by simp
  rw [set_succ_rest]
  rw [node_w hc t p hpg.pos hpg.fit hinv.small]
  simp only [Option.bind_some]
  rw [rdNode_refOf t p hpg.fit, isLeaf_w hsz (by omega), hpg.isLeaf]
  simp only [Option.bind_some, Bool.false_eq_true, if_false]
  rw [rdNode_refOf t p hpg.fit, search_w hsz hmk hpg.ok.2.1 k, hsearch]
  simp only [Option.bind_some]
  rw [w_sle (by omega) (by omega), if_neg (by simp; omega)]
  have hkey : Gen.Node.key (pageOf cfg t.data p) (w l.length) = some ki := by
    rw [key_keyAt hpg.ok (by omega) (by omega), hpg.ents, entWords_eq_mapV, keyAt_mapV]
    simp [keyAt]
  rw [rdNode_refOf t p hpg.fit, hkey]
  simp only [Option.bind_some]
  rw [setSlot_nonzero _ _ _ _ _ _ hki0]
  simp only [Option.bind_some]
  exact setRest_nullchild hc hmk2 t a hinv hb1 p _ l.length ki k v hk0 hget hpg hpfree hplt fuel

/-- routing entry without a child page: the structural side -/
theorem setNode_newchild_null (cfg : Cfg) (hmk2 : 2 ≤ cfg.maxKeys) (hmk : cfg.maxKeys < 2 ^ 31) (p : Nat)
    (l : List (Key × Node)) (ki : Key) (r : List (Key × Node)) (k : Key) (v : Val) (hk0 : k ≠ 0#64)
    (hlt : ∀ e ∈ l, e.1 < k) (hle : k ≤ ki) (hki0 : ki ≠ 0#64)
    (hlen : (l ++ (ki, Node.null) :: r).length ≤ cfg.maxKeys) (a : Alloc) :
    setNode cfg (.inner p (l ++ (ki, Node.null) :: r)) k v a =
      (.inner p (l ++ (ki, Node.leaf (RV.Tree.newNode cfg a).1 [(k, v)]) :: r),
       { (RV.Tree.newNode cfg a).2 with leafKeys := (RV.Tree.newNode cfg a).2.leafKeys + (1 : Nat) }) := by
  have hidx : Gen.Tree.setIdxPanic (w (search (l ++ (ki, Node.null) :: r) k)) (w cfg.maxKeys) = false := by
    rw [search_decomp l ki _ r k hlt hle]; unfold Gen.Tree.setIdxPanic
    have : l.length < (l ++ (ki, Node.null) :: r).length := by simp
    rw [w_sle (by omega) (by omega)]; simp; omega
  rw [setNode]
  simp only [hidx, Bool.false_eq_true, if_false, setEnts_nullchild cfg hmk2 hmk k v hk0 l ki r a hlt hle hki0]

/-! ## `initRootNode` -/

/-- the structural `initRoot`, explicitly -/
theorem initRoot_eq (cfg : Cfg) (hmk2 : 2 ≤ cfg.maxKeys) (hmk : cfg.maxKeys < 2 ^ 31) (a : Alloc) :
    initRoot cfg a =
      { root := .inner (RV.Tree.newNode cfg a).1
          [(Gen.Tree.absoluteMax, Node.leaf (RV.Tree.newNode cfg (RV.Tree.newNode cfg a).2).1 [(Gen.Tree.absoluteMax, 0#64)])],
        a := { (RV.Tree.newNode cfg (RV.Tree.newNode cfg a).2).2 with
                leafKeys := (RV.Tree.newNode cfg (RV.Tree.newNode cfg a).2).2.leafKeys + (1 : Nat) } } := by
  have hkp : Gen.Tree.setKeyPanic Gen.Tree.absoluteMax = false := by decide
  have hk0 : Gen.Tree.absoluteMax ≠ 0#64 := by decide
  have hnf : ∀ (p : Nat) (c : Node), (Node.inner p [(Gen.Tree.absoluteMax, c)]).isFull cfg = false := by
    intro p c
    rw [Node.isFull_eq cfg _ (by simp [Node.len]) (by omega)]
    simp [Node.len]; omega
  unfold initRoot RV.Tree.set
  simp only [hkp, Bool.false_eq_true, if_false]
  rw [setNode_newchild_append cfg hmk2 hmk _ [] Gen.Tree.absoluteMax 0#64 hk0 rfl (by simp; omega)]
  simp only [List.nil_append, hnf, Bool.false_eq_true, if_false]

theorem kindWord_false : kindWord false = 0#64 := rfl

theorem newNode_nil (cfg : Cfg) (a : Alloc) (h2 : a.free = []) :
    (RV.Tree.newNode cfg a).1 = a.nextPage ∧ (RV.Tree.newNode cfg a).2.nextPage = a.nextPage + 1 ∧
      (RV.Tree.newNode cfg a).2.free = [] := by
  unfold RV.Tree.newNode Alloc.freeHead
  rw [h2]
  have : Gen.Tree.newNodeUseFree (w 0) = false := by decide
  simp only [this, Bool.false_eq_true, if_false]
  refine ⟨trivial, ?_, ?_⟩
  · split <;> simp [bufAllocate]
  · split <;> simp [bufAllocate]

/-- `initRootNode` on an empty page table (`nextPage = 1`, no free pages): page 1 becomes the root
with the single routing entry `absoluteMax`, page 2 the leaf holding the placeholder. -/
theorem initRootNode_refines {cfg : Cfg} (hc : CfgFlat cfg) (hmk2 : 2 ≤ cfg.maxKeys) (t : St) (a : Alloc)
    (hinv : AllocInv cfg t a) (h1 : a.nextPage = 1) (h2 : a.free = []) (fuel : Nat) :
    ∃ t', initRootNode (w cfg.pageSize) (w cfg.maxKeys) (fuel + 2) t = some t' ∧
      TreeFlat.Repr cfg t'.data (initRoot cfg a).root ∧ AllocInv cfg t' (initRoot cfg a).a ∧
      (initRoot cfg a).root.pid = 1 ∧ Live (initRoot cfg a).a (initRoot cfg a).root ∧
      t.data.size ≤ t'.data.size ∧
      (∀ r, r ≠ 1 → r ≠ 2 → (r + 1) * pw cfg ≤ t.data.size → pageOf cfg t'.data r = pageOf cfg t.data r) := by
  have hmk := hc.mkLt
  have hpw := hc.pw_lt
  obtain ⟨hp1', hn2', hf2⟩ := newNode_nil cfg a h2
  have hp1 : (RV.Tree.newNode cfg a).1 = 1 := by rw [hp1', h1]
  have hn2 : (RV.Tree.newNode cfg a).2.nextPage = 2 := by rw [hn2', h1]
  obtain ⟨hp2', hn3', hf3⟩ := newNode_nil cfg (RV.Tree.newNode cfg a).2 hf2
  have hp2 : (RV.Tree.newNode cfg (RV.Tree.newNode cfg a).2).1 = 2 := by rw [hp2', hn2]
  have hn3 : (RV.Tree.newNode cfg (RV.Tree.newNode cfg a).2).2.nextPage = 3 := by rw [hn3', hn2]
  rw [initRoot_eq cfg hmk2 (by omega) a, hp1, hp2]
  unfold initRootNode
  obtain ⟨t1, hnew, o1⟩ := newNode_refines hc t a hinv.scal hinv.chain hinv.nodup hinv.below hinv.npos
    (by rw [h1]; omega) hinv.small false
  rw [kindWord_false] at hnew
  rw [hnew]
  simp only [Option.bind_some]
  rw [hp1] at o1
  have hinv1 : AllocInv cfg t1 (RV.Tree.newNode cfg a).2 :=
    hinv.ofNewNode o1.scal o1.chain o1.nextMono o1.small
  have hpg1 : PageOf cfg t1.data 1 false (entWords []) :=
    ⟨o1.pos, o1.fit, o1.fresh.ok, o1.fresh.isLeaf, o1.fresh.kind, o1.fresh.pid, o1.fresh.ents⟩
  rw [Set_unfold]
  have hkp : ((Gen.Tree.absoluteMax == 18446744073709551615#64) || (Gen.Tree.absoluteMax == 0#64)) = false := by decide
  rw [show (18446744073709551614#64 : BitVec 64) = Gen.Tree.absoluteMax from rfl, hkp]
  simp only [Bool.false_eq_true, if_false]
  obtain ⟨t2, hset, out⟩ := set_newchild_append hc hmk2 t1 (RV.Tree.newNode cfg a).2 hinv1
    (by rw [hn2]; omega) 1 [] Gen.Tree.absoluteMax 0#64 (by decide) hpg1 (by simp; omega) rfl
    (by rw [hf2]; simp) (by rw [hn2]; omega) fuel
  rw [show (1#64 : BitVec 64) = w 1 from rfl, hset]
  simp only [Option.bind_some]
  have hpar := out.parent
  have hchild := out.child
  have hframe := out.frame
  rw [hp2] at hpar hchild hframe
  simp only [List.nil_append, List.length_nil, List.set_cons_zero] at hpar
  have hfullr : Gen.Node.isFull (pageOf cfg t2.data 1) (w cfg.maxKeys) = some false := by
    rw [isFull_w hpar.ok.1 (by have := hpar.ok.1; omega) (by omega), ← ents_length, hpar.ents]
    congr 1; simp [entWords]; omega
  rw [rdNode_refOf t2 1 hpar.fit, hfullr]
  simp only [Option.bind_some, Bool.false_eq_true, if_false]
  refine ⟨t2, rfl, ?_, out.inv, rfl, ?_, ?_, ?_⟩
  · rw [TreeFlat.Repr, ReprEnts, TreeFlat.Repr, ReprEnts]
    exact ⟨hpar, hchild, trivial⟩
  · constructor
    · simp [pids, pidsEnts]
    · intro r hr
      simp only [pids, pidsEnts, List.mem_cons, List.mem_append, List.not_mem_nil, or_false] at hr
      refine ⟨by simp only []; rw [hf3]; simp, ?_⟩
      simp only []
      rw [hn3]
      rcases hr with h | h <;> omega
  · have := o1.grow; have := out.grow; omega
  · intro r hr1 hr2 hfr
    rw [hframe r hr1 hr2 (by have := o1.grow; omega)]
    exact o1.frame r hr1 hfr

end RV.TreeFlat
