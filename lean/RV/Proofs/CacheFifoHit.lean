import RV.Proofs.CacheFifoVisible
/-!
# (g) the entry stays retrievable: every `Get k` hits while `AppliedK` persists

`get_hits`: from a state where `k` is resident with `⟨c, v, exp⟩` and nothing of `k` is pending,
in any continuation without `Set`/`Del` of `k`, `Clear`/`Close`, eviction of `k` or TTL expiry,
every `Get k` (with a conflict that matches) by a client that has not yet read the store returns
`some v`.
-/
namespace RV.Cache
open Gen.Cache

structure GetHitOK (k : Hash) (c : Conf) (v : Val) (exp : Time) (t : Tid) (s : State) : Prop where
  read : ∀ c', s.cl t = .getRead k c' → AppliedK k c v exp s
  check : ∀ c' e, s.cl t = .getCheck k c' e → e = some ⟨c, v, exp⟩
  metric : ∀ c' r, s.cl t = .getMetric k c' r → getConflictMismatch c' c = false → r = some v

theorem getHitOK_of_notGet {k : Hash} {c : Conf} {v : Val} {exp : Time} {t : Tid} {s : State}
    (h : ∀ c', s.cl t ≠ .getRead k c' ∧ (∀ e, s.cl t ≠ .getCheck k c' e) ∧ (∀ r, s.cl t ≠ .getMetric k c' r)) :
    GetHitOK k c v exp t s :=
  ⟨fun c' e => absurd e (h c').1, fun c' e' e => absurd e ((h c').2.1 e'), fun c' r e _ => absurd e ((h c').2.2 r)⟩

theorem getHitOK_step {cfg : Cfg} {k : Hash} {c : Conf} {v : Val} {exp : Time} {t : Tid} {s s' : State} {a : Action}
    (hh : RunHyp cfg k exp s) (hs : step cfg s a = some s') (happ : AppliedK k c v exp s)
    (h : GetHitOK k c v exp t s) : GetHitOK k c v exp t s' := by
  have hq := queue_inv hh.reach
  have happ' : AppliedK k c v exp s' :=
    applied_step hh.reach hh.nos hh.nod hh.noc hh.conf hh.calm hh.ttl hs happ
  by_cases hown : a.owner t
  · rcases owner_cases hs hown with ⟨ch, rfl, hn⟩ | hcore | ⟨c', rfl, hidle⟩
    · cases hpc0 : s.cl t <;> rw [hpc0] at hn <;> unfold NextPc at hn <;> dsimp only at hn
      case getStart h' c' =>
        rcases hn with ⟨e, _⟩ | ⟨e, hc⟩
        · constructor <;> intros <;> simp_all
        · constructor
          · intro c1 he; exact happ'
          · intro c1 e' he; rw [e] at he; cases he
          · intro c1 r he; rw [e] at he; cases he
      case getRead h' c' =>
        constructor
        · intro c1 he; rw [hn] at he; cases he
        · intro c1 e' he
          rw [hn] at he
          simp only [CPc.getCheck.injEq] at he
          obtain ⟨rfl, _, rfl⟩ := he
          exact (h.read c' hpc0).1
        · intro c1 r he; rw [hn] at he; cases he
      case getCheck h' c' e0 =>
        constructor
        · intro c1 he; rw [hn] at he; cases he
        · intro c1 e' he; rw [hn] at he; cases he
        · intro c1 r he hm
          rw [hn] at he
          simp only [CPc.getMetric.injEq] at he
          obtain ⟨rfl, rfl, rfl⟩ := he
          rw [h.check c' e0 hpc0]
          have hexp : getExpired exp s.clock = false := by
            rcases hh.ttl with e | e
            · simp [getExpired, e]
            · simp only [getExpired, Bool.and_eq_false_iff, decide_eq_false_iff_not]
              exact Or.inr (fun hlt => absurd (Int.lt_trans e hlt) (Int.lt_irrefl _))
          simp [getResult, hm, hexp]
      all_goals
        apply getHitOK_of_notGet
        intro c1
        refine ⟨?_, ?_, ?_⟩ <;> (intros; intro he; rw [he] at hn; first | exact (core_true_ne hn rfl).elim | (simp at hn; done))
    · constructor
      · intro c1 he; rw [he] at hcore; exact (core_true_ne hcore rfl).elim
      · intro c1 e' he; rw [he] at hcore; exact (core_true_ne hcore rfl).elim
      · intro c1 r he _; rw [he] at hcore; exact (core_true_ne hcore rfl).elim
    · obtain ⟨_, e⟩ := spawn_next (show spawnStep s t c' = some s' from hs)
      constructor
      · intro c1 he; rw [e] at he; cases c' <;> cases he
      · intro c1 e' he; rw [e] at he; cases c' <;> cases he
      · intro c1 r he _; rw [e] at he; cases c' <;> cases he
  · rcases step_cl_f hq hs t hown with e | ⟨hb, e⟩
    · constructor
      · intro c1 he; exact happ'
      · intro c1 e' he; exact h.check c1 e' (by rw [← e]; exact he)
      · intro c1 r he hm; exact h.metric c1 r (by rw [← e]; exact he) hm
    · constructor
      · intro c1 he; rw [e] at he
        cases hpc0 : s.cl t <;> simp [hpc0, CPc.blocked, unblockedPc] at hb he
      · intro c1 e' he; rw [e] at he
        cases hpc0 : s.cl t <;> simp [hpc0, CPc.blocked, unblockedPc] at hb he
      · intro c1 r he _; rw [e] at he
        cases hpc0 : s.cl t <;> simp [hpc0, CPc.blocked, unblockedPc] at hb he

/-- (g) the entry stays retrievable.  From a reachable open state in which `k` is resident with
`⟨c, v, exp⟩` and nothing of `k` is pending, with nobody inside a `Set`/`Del` of `k` or a
`Clear`/`Close` and none issued, `k` never picked as a victim, the TTL not elapsed at the end:
the entry is still there at the end, and every `Get k` whose conflict matches, by a client that
had not yet read the store, returned `some v`. -/
theorem get_hits {cfg : Cfg} {k : Hash} {c : Conf} {v : Val} {exp : Time} {t : Tid} {s s' : State}
    {acts : List Action} {new : List Ev}
    (h0 : Reach cfg s) (happ : AppliedK k c v exp s) (hopen : s.closed = false)
    (hns : NoSetK k s) (hnd : NoDelK k s) (hnc : NoClr s)
    (hfresh : ∀ c', s.cl t ≠ .getRead k c' ∧ (∀ e, s.cl t ≠ .getCheck k c' e) ∧ (∀ r, s.cl t ≠ .getMetric k c' r))
    (hacts : ∀ a ∈ acts, ¬ a.isSpawnSet k ∧ ¬ a.isSpawnDel k ∧ ¬ a.isSpawnClear)
    (hr : run cfg s acts = some s')
    (hcalm : ∀ as1 as2 s1, acts = as1 ++ as2 → run cfg s as1 = some s1 → Calm k s1)
    (httl : exp = Gen.zeroTime ∨ s'.clock < exp) (hconf : ConfAgree k s'.log)
    (hlog : s'.log = new ++ s.log) :
    AppliedK k c v exp s' ∧
    ∀ c' res, .getRet t k c' res ∈ new → getConflictMismatch c' c = false → res = some v := by
  have hok : GetHitOK k c v exp t s := getHitOK_of_notGet hfresh
  have key : ∃ new', s'.log = new' ++ s.log ∧ (NoSetK k s' ∧ NoDelK k s' ∧ NoClr s' ∧ s'.closed = false) ∧
      AppliedK k c v exp s' ∧ GetHitOK k c v exp t s' ∧
      ∀ c' res, .getRet t k c' res ∈ new' → getConflictMismatch c' c = false → res = some v := by
    refine run_induction_mid (P := fun s' => ∃ new', s'.log = new' ++ s.log ∧
      (NoSetK k s' ∧ NoDelK k s' ∧ NoClr s' ∧ s'.closed = false) ∧ AppliedK k c v exp s' ∧ GetHitOK k c v exp t s' ∧
      ∀ c' res, .getRet t k c' res ∈ new' → getConflictMismatch c' c = false → res = some v) h0
      ⟨[], rfl, ⟨hns, hnd, hnc, hopen⟩, happ, hok, by simp⟩ ?_ hr
    intro pre a rest s1 s2 hsplit hpre hrs ⟨new1, hl, ⟨a1, a2, a3, a4⟩, hap1, hok1, hres⟩ hs hrest
    obtain ⟨evs, hl2, hal⟩ := step_log hs
    obtain ⟨n2, hl3⟩ := run_log hrest
    have hconf1 : ConfAgree k s1.log := by
      rw [hl3, hl2, ← List.append_assoc] at hconf
      exact hconf.of_append
    have ha := hacts a (by rw [hsplit]; simp)
    have hq := queue_inv hrs
    have hclock : s1.clock ≤ s'.clock := Int.le_trans (step_clock hs) (run_clock hrest)
    have httl1 : exp = Gen.zeroTime ∨ s1.clock < exp := httl.imp id (fun h => Int.lt_of_le_of_lt hclock h)
    have hh : RunHyp cfg k exp s1 := ⟨hrs, a1, a2, a3, hconf1, hcalm pre (a :: rest) s1 hsplit hpre, httl1, a4⟩
    refine ⟨evs ++ new1, by rw [hl2, hl]; simp,
      ⟨noSetK_step hq a1 ha.1 hs, noDelK_step hq a2 ha.2.1 hs, noClr_step hq a3 ha.2.2 hs, open_step a3 a4 hs⟩,
      applied_step hrs a1 a2 a3 hconf1 hh.calm httl1 hs hap1, getHitOK_step hh hs hap1 hok1, ?_⟩
    intro c' res hm hmm
    rcases List.mem_append.mp hm with hm | hm
    · have := hal _ hm
      simp only [Allowed] at this
      obtain ⟨ch, _, hpc | ⟨_, hcl, _⟩⟩ := this
      · exact hok1.metric c' res hpc hmm
      · rw [a4] at hcl; cases hcl
    · exact hres c' res hm hmm
  obtain ⟨new', hl', _, h2, _, h4⟩ := key
  have : new' = new := by rw [hlog] at hl'; exact (List.append_cancel_right hl').symm
  subst this
  exact ⟨h2, h4⟩

end RV.Cache
