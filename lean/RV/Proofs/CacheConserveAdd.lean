import RV.Proofs.CacheConserveStep
import RV.Proofs.CacheAcctExpl
import RV.Proofs.CacheAcctLog
/-!
# `store.Set` of an admitted new item finds its key absent (collision-free runs)

`AddedFresh s`: while the applier is between `policy.Add` (admitted) and `store.Set`, the key of
the new item is not in the store.  It holds in every state reachable by a collision-free run
(`ReachC`): `policy.Add` admits only a key that is not accounted, and by the store/policy consistency
invariant `Expl` (C13, `CacheAcctExpl.lean`) a key that is stored but not accounted is a pending victim /
a tombstone being applied (not the case while the applier is at `costed`) or lies in a shard `Clear` has
not yet emptied (not the case while the applier runs); between the two applier steps no client adds a
key to the store.

With colliding keys this is false (finding F8: `Del(b)` removes the accounting of `a`, `Set(b)` is then
admitted although `a` is resident under the same primary hash), and `lockedMap.Set` loses a value.
-/
namespace RV.Cache
open RV Gen.Cache

def AddedFresh (s : State) : Prop := ∀ i vs, s.app = .added i vs true → s.store.lookup i.key = none

/-- a client step leaves the applier's pc alone, except for the restart / the final step of
`Clear`/`Close`, which happen while the applier is dead -/
theorem cv_clientStep_app {cfg : Cfg} {s s' : State} {t : Tid} {ch : Choice} (hh : Handshake s)
    (hs : clientStep cfg s t ch = some s') : s'.app = s.app ∨ (s.app = .dead ∧ (s'.app = .idle ∨ s'.app = .dead)) := by
  apply clientStep_cases hs (motive := fun s' => s'.app = s.app ∨ (s.app = .dead ∧ (s'.app = .idle ∨ s'.app = .dead)))
  case getStart => intro h c _ hr; exact Or.inl (stGetStart_frame hr).2.2.1
  case iterShard => intro k n seen _ hr; exact Or.inl (stIterShard_frame hr).2.2.1
  case waitRecv => intro id _ _ hr; exact Or.inl (stWaitRecv_app _ _ _ hr)
  case clrDrain =>
    intro closing _ _
    unfold stClrDrain
    split
    · exact Or.inl rfl
    · rename_i hr; exact Or.inl (by simp [recvBuf_app hr])
    · rename_i hr; split <;> exact Or.inl (by simp [recvBuf_app hr])
  case clrShard =>
    intro closing k _ hr
    obtain ⟨ks, _, _, _, rfl⟩ := stClrShard_cases hr
    exact Or.inl (by simp [evictAll_app])
  case clrRestart =>
    intro closing hpc _
    refine Or.inr ⟨hh.busy t (by rw [hpc]; rfl), Or.inl ?_⟩
    unfold stClrRestart; dsimp only; split <;> rfl
  case clsFinish =>
    intro hpc _
    exact Or.inr ⟨hh.busy t (by rw [hpc]; rfl), Or.inr rfl⟩
  all_goals (intros; exact Or.inl (by simp))

theorem cv_eraseAll_none {st : Store} {ks : List Hash} {k : Hash} (h : st.lookup k = none) :
    (eraseAll st ks).lookup k = none := by
  induction ks generalizing st with
  | nil => exact h
  | cons a rest ih =>
    unfold eraseAll
    apply ih
    rw [AMap.lookup_erase]; split
    · rfl
    · exact h

theorem cv_delRes_none {st st' : Store} {h : Hash} {c c' : Conf} {v' : Val} (hd : DelRes st h c st' c' v') {k : Hash}
    (hk : st.lookup k = none) : st'.lookup k = none := by
  cases hd with
  | none => exact hk
  | some e he hc =>
    rw [AMap.lookup_erase]; split
    · rfl
    · exact hk

/-- Only `store.Set` of the applier adds a key to the store. -/
theorem astep_lookup_none {w w' : View} (h : AStep w w')
    (hno : ∀ i vs, w.app = .added i vs true → w'.app = w.app) {k : Hash} (hk : w.store.lookup k = none) :
    w'.store.lookup k = none := by
  cases h with
  | setUpdOk t i e hpc he hc =>
    have hne : k ≠ i.key := by intro e1; subst e1; rw [hk] at he; cases he
    show (w.store.insert i.key _).lookup k = none
    rw [AMap.lookup_insert_ne w.store _ hne]; exact hk
  | delOk t h c e hpc he hc =>
    show (w.store.erase h).lookup k = none
    rw [AMap.lookup_erase]; split
    · rfl
    · exact hk
  | drainMarker t closing id w1 hpc hr => rw [(recv_hold hr).1]; exact hk
  | drainItem t closing i w1 hpc hr => show w1.store.lookup k = none; rw [(recv_hold hr).1]; exact hk
  | selItem x w1 happ hr => show w1.store.lookup k = none; rw [(recv_hold hr).1]; exact hk
  | clrShard t closing k' ks pc' hpc hord hpc' => exact cv_eraseAll_none hk
  | addedOk i vs st' happ hst =>
    exact absurd ((hno i vs happ).trans happ) (cv_afterVictims_ne_added _ _ _ _)
  | victims h cost rest st' c v' happ hd => exact cv_delRes_none hd hk
  | tombPolicy i st' c v' happ hd => exact cv_delRes_none hd hk
  | swKeyDel now k' c bs e happ he hc => exact cv_delRes_none (DelRes.some e he hc) hk
  | _ => exact hk

theorem addedFresh_applierStep {cfg : Cfg} {s s' : State} {ch : Choice} (hh : Handshake s) (he : Expl s)
    (hs : applierStep cfg s ch = some s') : AddedFresh s' := by
  intro i vs
  apply applierStep_cases hs (motive := fun s' => s'.app = .added i vs true → s'.store.lookup i.key = none)
  case idle =>
    intro _ hr happ'
    rcases apIdle_cases hr with ⟨id, s1, _, _, rfl⟩ | ⟨i0, s1, _, _, rfl⟩ | ⟨_, rfl⟩ | ⟨t, _, hr'⟩
    · simp at happ'
    · simp at happ'
    · simp at happ'
    · rcases apSelStop_cases hr' with ⟨closing, _, rfl⟩ | ⟨_, rfl⟩ <;> simp at happ'
  case marker => intro id _ _ happ'; simp [apMarker] at happ'
  case item => intro i0 _ _ happ'; simp [apItem] at happ'
  case costed =>
    intro i0 hpc hr happ'
    rcases apCosted_cases hr with ⟨victims, added, pm, hf, _, hadd, rfl⟩ | ⟨_, _, rfl⟩ | ⟨_, _, rfl⟩
    · simp only [APc.added.injEq] at happ'
      obtain ⟨rfl, rfl, rfl⟩ := happ'
      show s.store.lookup i0.key = none
      have hnacc : accounted s i0.key = false := by
        unfold accounted
        rcases polAdd_cases hadd with ⟨_, _, h1, _⟩ | ⟨_, _, _, h1, _⟩ | ⟨_, h1, _⟩ | ⟨_, h1, _⟩ | ⟨_, _, _, h1, _⟩
        · cases h1
        · cases h1
        · rw [h1]; rfl
        · rw [h1]; rfl
        · cases h1
      cases hst : s.store.lookup i0.key with
      | none => rfl
      | some e =>
        have hstored : stored s i0.key = true := by unfold stored; rw [hst]; rfl
        rcases he.eb i0.key hstored hnacc with ⟨t, k, ht, _⟩ | h1
        · rw [no_cursor hh (by rw [hpc]; intro hc; cases hc) t] at ht; cases ht
        · rw [hpc] at h1; cases h1
    · simp [apCostedUpd] at happ'
    · simp [apCostedDel] at happ'
  case added =>
    intro i0 vs0 ok _ _ happ'
    have : (apAdded cfg s i0 vs0 ok).app = afterVictims vs0 := by unfold apAdded; split <;> rfl
    rw [this] at happ'
    exact absurd happ' (cv_afterVictims_ne_added _ _ _ _)
  case victims =>
    intro vs0 _ _ hr happ'
    obtain ⟨h, cost, rest, _, rfl⟩ := apVictims_cases hr
    simp at happ'
  case victimEvict =>
    intro h cost c v rest _ _ happ'
    have : (apVictimEvict s h cost c v rest).app = afterVictims rest := rfl
    rw [this] at happ'
    exact absurd happ' (cv_afterVictims_ne_added _ _ _ _)
  case tombPolicy => intro i0 _ _ happ'; simp [apTombPolicy] at happ'
  case tombStore => intro v _ _ happ'; simp [apTombStore] at happ'
  case tick => intro _ _ happ'; simp [apTick] at happ'
  case sweep =>
    intro now bs _ hr happ'
    rcases apSweep_cases hr with ⟨_, rfl⟩ | ⟨b, rest, k, c, _, _, rfl⟩ <;> simp at happ'
  case swKey =>
    intro now k c bs _ _ happ'
    unfold apSwKey at happ'; dsimp only at happ'
    split at happ' <;> simp at happ'
  case swStoreDel => intro now k c expr v bs _ _ happ'; simp [apSwStoreDel] at happ'
  case swPolDel => intro now k c expr cost v bs _ _ happ'; simp [apSwPolDel] at happ'

theorem addedFresh_step {cfg : Cfg} {s s' : State} {a : Action} (hh : Handshake s) (he : Expl s)
    (h : AddedFresh s) (hs : step cfg s a = some s') : AddedFresh s' := by
  cases a with
  | spawn t c =>
    have hs' : spawnStep s t c = some s' := hs
    intro i vs happ'
    rw [spawnStep_app _ _ _ hs'] at happ'
    rw [spawnStep_store _ _ _ hs']
    exact h i vs happ'
  | client t ch =>
    have hs' : clientStep cfg s t ch = some s' := hs
    intro i vs happ'
    rcases cv_clientStep_app hh hs' with h1 | ⟨_, h1 | h1⟩
    · have happ : s.app = .added i vs true := h1 ▸ happ'
      exact astep_lookup_none (astep_clientStep hs') (fun _ _ _ => h1) (h i vs happ)
    · rw [h1] at happ'; cases happ'
    · rw [h1] at happ'; cases happ'
  | applier ch => exact addedFresh_applierStep hh he hs
  | done t =>
    have hs' : doneStep s t = some s' := hs
    intro i vs happ'
    obtain ⟨_, ⟨closing, _, rfl⟩ | ⟨_, rfl⟩⟩ := doneStep_cases hs' <;> simp at happ'
  | tick d =>
    simp only [step, Option.some.injEq] at hs; subst hs
    exact h

theorem addedFresh_init (cfg : Cfg) (now : Time) : AddedFresh (init cfg now) := by
  intro i vs happ; simp [init] at happ

/-- `AddedFresh` holds in every state reachable by a collision-free run. -/
theorem addedFresh_reachC {conf : Hash → Conf} {cfg : Cfg} {s : State} (h : ReachC cfg conf s) : AddedFresh s := by
  induction h with
  | init now => exact addedFresh_init cfg now
  | step hr _ hs ih => exact addedFresh_step (handshake_reach hr.reach) (expl_reachC hr) ih hs

end RV.Cache
