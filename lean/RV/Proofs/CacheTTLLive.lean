import RV.Proofs.CacheTTLBucket
/-!
# One sweep reclaims a registered expired entry (C14 liveness, sweep run in isolation)

`sweep_reclaims`: start at the applier's `apTick` step with an entry `(k, e)` in the store that is
registered in bucket `b = bucketOf e.exp` with its conflict, `lastCleaned < b ≤ cleanupOf clock`; run
applier steps only, as long as the applier has not returned to `idle`.  When it returns to `idle`,
`k` is gone from the store and from the policy's cost table, bucket `b` is gone from the index, and
`OnEvict(k, …, e.value, …)` directly followed by `OnExit(e.value)` was emitted — exactly one `evict`
event for `k` during the sweep.
-/
namespace RV.Cache
open Gen.Cache

/-- number of `OnEvict` callbacks for key `k` in a log -/
def evictCount (k : Hash) : List Ev → Nat
  | [] => 0
  | .evict k' _ _ _ :: l => (if k' = k then 1 else 0) + evictCount k l
  | _ :: l => evictCount k l

theorem evictCount_pair (k k' : Hash) (c : Conf) (v : Val) (cost : Int) (l : List Ev) :
    evictCount k (.exit v :: .evict k' c v cost :: l) = (if k' = k then 1 else 0) + evictCount k l := rfl

theorem polDel_lookup (on : Bool) (p : Pol) (m : Met) (k k' : Hash) :
    (polDel on p m k).1.costs.lookup k' = if k' = k then none else p.costs.lookup k' := by
  unfold polDel
  split
  · rename_i h
    split
    · rename_i e; subst e; exact h
    · rfl
  · exact AMap.lookup_erase ..

theorem em_del_lookup_none {em : Em} {k : Hash} {exp : Time} {b : Int} (h : em.buckets.lookup b = none) :
    (em.del k exp).buckets.lookup b = none := by
  unfold Em.del
  dsimp only
  split
  · rename_i m hm
    show AMap.lookup (AMap.insert em.buckets (bucketOf exp) (m.erase k)) b = none
    rw [AMap.lookup_insert]
    split
    · rename_i e; subst e; rw [h] at hm; cases hm
    · exact h
  · exact h

theorem firstNonEmpty_mem {bs : List (AMap Hash Conf)} {m : AMap Hash Conf} {k : Hash} {c : Conf}
    (hm : m ∈ bs) (hk : m.lookup k = some c) : m ∈ firstNonEmpty bs := by
  induction bs with
  | nil => simp at hm
  | cons b rest ih =>
    unfold firstNonEmpty
    split
    · rename_i hemp
      rcases List.mem_cons.mp hm with rfl | hm
      · have : m.toList = [] := by simpa using hemp
        have hm' := amap_mem_of_lookup hk
        rw [this] at hm'; simp at hm'
      · exact ih hm
    · exact hm

/-- pcs of a sweep (clock read `now`, todo list `bs`) that is not at key `k`'s removal -/
def PendingPc (k : Hash) (now : Time) (bs : List (AMap Hash Conf)) : APc → Prop
  | .sweep now' bs' => now' = now ∧ bs' = bs
  | .swKey now' _ _ bs' => now' = now ∧ bs' = bs
  | .swStoreDel now' k' _ _ _ bs' => now' = now ∧ bs' = bs ∧ k' ≠ k
  | .swPolDel now' k' _ _ _ _ bs' => now' = now ∧ bs' = bs ∧ k' ≠ k
  | _ => False

/-- pcs after key `k` has been reclaimed -/
def DonePc (k : Hash) : APc → Prop
  | .idle => True
  | .sweep _ _ => True
  | .swKey _ _ _ _ => True
  | .swStoreDel _ k' _ _ _ _ => k' ≠ k
  | .swPolDel _ k' _ _ _ _ _ => k' ≠ k
  | _ => False

/-- the key has been reclaimed -/
structure Reclaimed (k : Hash) (e : Entry) (E : Em → Prop) (base : List Ev) (s : State) : Prop where
  store : s.store.lookup k = none
  pol : s.pol.costs.lookup k = none
  em : E s.em
  once : evictCount k s.log = evictCount k base + 1
  cb : ∃ l1 l2 c cost, s.log = l1 ++ .exit e.value :: .evict k c e.value cost :: l2

/-- progress of the sweep that read the clock `now`, with respect to the entry `e` of key `k`.
`E` is what is claimed about the expiry index meanwhile (a property kept by `Em.del`). -/
inductive Phase (k : Hash) (e : Entry) (now : Time) (E : Em → Prop) (base : List Ev) (s : State) : Prop
  | pending (bs : List (AMap Hash Conf)) (hpc : PendingPc k now bs s.app)
      (hb : ∃ m ∈ bs, m.lookup k = some e.conflict) (hst : s.store.lookup k = some e)
      (hlog : evictCount k s.log = evictCount k base) (hem : E s.em)
  | current (bs : List (AMap Hash Conf)) (hpc : s.app = .swKey now k e.conflict bs)
      (hst : s.store.lookup k = some e)
      (hlog : evictCount k s.log = evictCount k base) (hem : E s.em)
  | storeDel (c : Conf) (bs : List (AMap Hash Conf)) (hpc : s.app = .swStoreDel now k c e.exp e.value bs)
      (hst : s.store.lookup k = none)
      (hlog : evictCount k s.log = evictCount k base) (hem : E s.em)
  | polDel (c : Conf) (cost : Int) (bs : List (AMap Hash Conf))
      (hpc : s.app = .swPolDel now k c e.exp cost e.value bs)
      (hst : s.store.lookup k = none) (hpol : s.pol.costs.lookup k = none)
      (hlog : evictCount k s.log = evictCount k base) (hem : E s.em)
  | done (hpc : DonePc k s.app) (h : Reclaimed k e E base s)

/-- the removal step applied to a key, seen from key `k` -/
theorem apSwKey_other {s : State} {now : Time} {k k' : Hash} {c : Conf} {bs : List (AMap Hash Conf)} (hne : k' ≠ k) :
    (apSwKey s now k' c bs).store.lookup k = s.store.lookup k ∧
    ((∃ expr v, (apSwKey s now k' c bs).app = .swStoreDel now k' c expr v bs) ∨
      (apSwKey s now k' c bs).app = .sweep now bs) := by
  rcases apSwKey_cases s now k' c bs with ⟨e', _, _, _, _, heq⟩ | heq <;> rw [heq]
  · exact ⟨AMap.lookup_erase_ne _ (Ne.symm hne), Or.inl ⟨_, _, rfl⟩⟩
  · exact ⟨rfl, Or.inr rfl⟩

theorem apSwKey_em_keeps {E : Em → Prop} (hE : ∀ em k' exp, E em → E (em.del k' exp))
    {s : State} {now : Time} {k' : Hash} {c : Conf} {bs : List (AMap Hash Conf)}
    (h : E s.em) : E (apSwKey s now k' c bs).em := by
  rcases apSwKey_cases s now k' c bs with ⟨e', _, _, _, _, heq⟩ | heq <;> rw [heq]
  · exact hE _ _ _ h
  · exact h

theorem phase_step {cfg : Cfg} {k : Hash} {e : Entry} {now : Time} {E : Em → Prop} {base : List Ev} {s s' : State}
    {ch : Choice} (hE : ∀ em k' exp, E em → E (em.del k' exp))
    (hz : e.exp ≠ Gen.zeroTime) (hle : e.exp ≤ now) (h : Phase k e now E base s)
    (hidle : s.app ≠ .idle) (hs : applierStep cfg s ch = some s') : Phase k e now E base s' := by
  cases h with
  | pending bs hpc hb hst hlog hem =>
    cases happ : s.app <;> rw [happ] at hpc <;> simp only [PendingPc] at hpc
    case sweep now' now'_bs =>
      obtain ⟨rfl, rfl⟩ := hpc
      simp only [applierStep, happ] at hs
      obtain ⟨m, hm, hk⟩ := hb
      have hmem := firstNonEmpty_mem hm hk
      cases hfe : firstNonEmpty now'_bs with
      | nil => rw [hfe] at hmem; simp at hmem
      | cons b1 rest =>
        rw [hfe] at hmem
        cases ch with
        | key k' =>
          simp only [apSweep, hfe] at hs
          cases hk' : b1.lookup k' with
          | none => simp [hk'] at hs
          | some c' =>
            simp only [hk', Option.some.injEq] at hs; subst hs
            by_cases hcur : m = b1 ∧ k' = k
            · obtain ⟨rfl, rfl⟩ := hcur
              rw [hk] at hk'; cases hk'
              exact .current _ rfl hst hlog hem
            · refine .pending (b1.erase k' :: rest) (by simp [PendingPc]) ?_ hst hlog hem
              rcases List.mem_cons.mp hmem with rfl | hmem
              · have hne : k ≠ k' := fun e => hcur ⟨rfl, e.symm⟩
                exact ⟨m.erase k', by simp, by rw [AMap.lookup_erase_ne _ hne]; exact hk⟩
              · exact ⟨m, List.mem_cons_of_mem _ hmem, hk⟩
        | _ => simp [apSweep, hfe] at hs
    case swKey now' k' c' bs' =>
      obtain ⟨rfl, rfl⟩ := hpc
      simp only [applierStep, happ] at hs
      obtain ⟨_, hs⟩ := needNone_some hs
      simp only [Option.some.injEq] at hs; subst hs
      by_cases hk : k' = k
      · subst hk
        rcases apSwKey_cases s now' k' c' bs' with ⟨e', hl', _, _, _, heq⟩ | heq
        · rw [hst] at hl'; cases hl'
          refine .storeDel c' bs' (by rw [heq]) (by rw [heq]; exact AMap.lookup_erase_self ..) (by rw [heq]; exact hlog) ?_
          rw [heq]; exact hE _ _ _ hem
        · exact .pending bs' (by rw [heq]; simp [PendingPc]) hb (by rw [heq]; exact hst) (by rw [heq]; exact hlog)
            (by rw [heq]; exact hem)
      · obtain ⟨h1, h2⟩ := apSwKey_other (s := s) (now := now') (c := c') (bs := bs') hk
        refine .pending bs' ?_ hb (by rw [h1]; exact hst) (by simpa using hlog) (apSwKey_em_keeps hE hem)
        rcases h2 with ⟨expr, v, h2⟩ | h2 <;> rw [h2] <;> simp [PendingPc, hk]
    case swStoreDel now' k' c' expr v bs' =>
      obtain ⟨rfl, rfl, hk⟩ := hpc
      simp only [applierStep, happ] at hs
      obtain ⟨_, hs⟩ := needNone_some hs
      simp only [Option.some.injEq] at hs; subst hs
      exact .pending bs' (by simp [apSwStoreDel, PendingPc, hk]) hb hst hlog hem
    case swPolDel now' k' c' expr cost v bs' =>
      obtain ⟨rfl, rfl, hk⟩ := hpc
      simp only [applierStep, happ] at hs
      obtain ⟨_, hs⟩ := needNone_some hs
      simp only [Option.some.injEq] at hs; subst hs
      refine .pending bs' (by simp [apSwPolDel, PendingPc]) hb hst ?_ hem
      simp only [apSwPolDel, cbEvict, logEv, evictCount_pair, hk, if_false]
      omega
  | current bs hpc hst hlog hem =>
    simp only [applierStep, hpc] at hs
    obtain ⟨_, hs⟩ := needNone_some hs
    simp only [Option.some.injEq] at hs; subst hs
    rcases apSwKey_cases s now k e.conflict bs with ⟨e', hl', _, _, _, heq⟩ | heq
    · rw [hst] at hl'; cases hl'
      refine .storeDel e.conflict bs (by rw [heq]) (by rw [heq]; exact AMap.lookup_erase_self ..) (by rw [heq]; exact hlog) ?_
      rw [heq]; exact hE _ _ _ hem
    · -- impossible: the entry is expired at `now` and the conflict matches
      exfalso
      have hrem : (storeDelExpired s.store s.em k e.conflict now).2.2.2.2 = true := by
        have h1 : sweepConflictMismatch e.conflict e.conflict = false := by simp [sweepConflictMismatch]
        have h2 : sweepSkip e.exp now = false := by
          simp only [sweepSkip, Bool.or_eq_false_iff, beq_eq_false_iff_ne, decide_eq_false_iff_not, Int.not_lt]
          exact ⟨hz, hle⟩
        simp [storeDelExpired, hst, h1, h2]
      have : (apSwKey s now k e.conflict bs).app = .swStoreDel now k e.conflict
          (storeDelExpired s.store s.em k e.conflict now).2.2.2.1 (storeDelExpired s.store s.em k e.conflict now).2.2.1 bs := by
        unfold apSwKey; simp [hrem]
      rw [heq] at this
      cases this
  | storeDel c bs hpc hst hlog hem =>
    simp only [applierStep, hpc] at hs
    obtain ⟨_, hs⟩ := needNone_some hs
    simp only [Option.some.injEq] at hs; subst hs
    exact .polDel c _ bs rfl hst (by simp [apSwStoreDel, polDel_lookup]) hlog hem
  | polDel c cost bs hpc hst hpol hlog hem =>
    simp only [applierStep, hpc] at hs
    obtain ⟨_, hs⟩ := needNone_some hs
    simp only [Option.some.injEq] at hs; subst hs
    refine .done (by simp [apSwPolDel, DonePc]) ⟨hst, hpol, hem, ?_, ⟨[], s.log, c, cost, by simp [apSwPolDel, cbEvict, logEv]⟩⟩
    simp only [apSwPolDel, cbEvict, logEv, evictCount_pair, if_true]
    omega
  | done hpc h =>
    obtain ⟨hst, hpol, hem, honce, l1, l2, c0, cost0, hcb⟩ := h
    cases happ : s.app <;> rw [happ] at hpc <;> simp only [DonePc] at hpc
    case idle => exact absurd happ hidle
    case sweep now' bs' =>
      simp only [applierStep, happ] at hs
      unfold apSweep at hs
      split at hs
      · simp only [Option.some.injEq] at hs; subst hs
        exact .done (by simp [DonePc]) ⟨hst, hpol, hem, honce, l1, l2, c0, cost0, hcb⟩
      · split at hs
        · simp at hs
        · simp only [Option.some.injEq] at hs; subst hs
          exact .done (by simp [DonePc]) ⟨hst, hpol, hem, honce, l1, l2, c0, cost0, hcb⟩
      · simp at hs
    case swKey now' k' c' bs' =>
      simp only [applierStep, happ] at hs
      obtain ⟨_, hs⟩ := needNone_some hs
      simp only [Option.some.injEq] at hs; subst hs
      rcases apSwKey_cases s now' k' c' bs' with ⟨e', hl', _, _, _, heq⟩ | heq
      · have hk : k' ≠ k := fun e => by subst e; rw [hst] at hl'; cases hl'
        refine .done (by rw [heq]; simp [DonePc, hk]) ⟨?_, by rw [heq]; exact hpol, ?_, by rw [heq]; exact honce,
          l1, l2, c0, cost0, by rw [heq]; exact hcb⟩
        · rw [heq]; show AMap.lookup (AMap.erase s.store k') k = none
          rw [AMap.lookup_erase_ne _ (Ne.symm hk)]; exact hst
        · rw [heq]; exact hE _ _ _ hem
      · exact .done (by rw [heq]; simp [DonePc]) ⟨by rw [heq]; exact hst, by rw [heq]; exact hpol,
          by rw [heq]; exact hem, by rw [heq]; exact honce, l1, l2, c0, cost0, by rw [heq]; exact hcb⟩
    case swStoreDel now' k' c' expr v bs' =>
      simp only [applierStep, happ] at hs
      obtain ⟨_, hs⟩ := needNone_some hs
      simp only [Option.some.injEq] at hs; subst hs
      refine .done (by simp [apSwStoreDel, DonePc, hpc]) ⟨hst, ?_, hem, honce, l1, l2, c0, cost0, hcb⟩
      simp only [apSwStoreDel, polDel_lookup]
      split
      · rfl
      · exact hpol
    case swPolDel now' k' c' expr cost v bs' =>
      simp only [applierStep, happ] at hs
      obtain ⟨_, hs⟩ := needNone_some hs
      simp only [Option.some.injEq] at hs; subst hs
      refine .done (by simp [apSwPolDel, DonePc]) ⟨hst, hpol, hem, ?_, .exit v :: .evict k' c' v cost :: l1, l2, c0, cost0, ?_⟩
      · simp only [apSwPolDel, cbEvict, logEv, evictCount_pair, hpc, if_false]
        omega
      · simp [apSwPolDel, cbEvict, logEv, hcb]

/-- applier-only run that stays inside the sweep: no step is taken from `idle` -/
def runSweep (cfg : Cfg) (s : State) : List Choice → Option State
  | [] => some s
  | ch :: rest =>
    match s.app with
    | .idle => none
    | _ => match applierStep cfg s ch with
      | none => none
      | some s' => runSweep cfg s' rest

theorem runSweep_run {cfg : Cfg} {s s' : State} {chs : List Choice} (h : runSweep cfg s chs = some s') :
    run cfg s (chs.map .applier) = some s' := by
  induction chs generalizing s with
  | nil => simpa [runSweep, run] using h
  | cons ch rest ih =>
    unfold runSweep at h
    split at h
    · cases h
    · split at h
      · cases h
      · rename_i s1 hs1
        simp only [List.map_cons, run, step, hs1]
        exact ih h

theorem phase_run {cfg : Cfg} {k : Hash} {e : Entry} {now : Time} {E : Em → Prop} {base : List Ev} {s s' : State}
    {chs : List Choice} (hE : ∀ em k' exp, E em → E (em.del k' exp))
    (hz : e.exp ≠ Gen.zeroTime) (hle : e.exp ≤ now) (h : Phase k e now E base s)
    (hr : runSweep cfg s chs = some s') : Phase k e now E base s' := by
  induction chs generalizing s with
  | nil => simp [runSweep] at hr; subst hr; exact h
  | cons ch rest ih =>
    unfold runSweep at hr
    split at hr
    · cases hr
    · rename_i hidle
      split at hr
      · cases hr
      · rename_i s1 hs1
        exact ih (phase_step hE hz hle h (fun e => hidle e) hs1) hr

theorem phase_idle {k : Hash} {e : Entry} {now : Time} {E : Em → Prop} {base : List Ev} {s : State}
    (h : Phase k e now E base s) (hidle : s.app = .idle) : Reclaimed k e E base s := by
  cases h with
  | pending bs hpc => rw [hidle] at hpc; simp [PendingPc] at hpc
  | current bs hpc => rw [hidle] at hpc; cases hpc
  | storeDel c bs hpc => rw [hidle] at hpc; cases hpc
  | polDel c cost bs hpc => rw [hidle] at hpc; cases hpc
  | done _ h => exact h

/-- **One sweep reclaims a registered expired entry** (sweep run in isolation).  `b` is the bucket the
entry is registered in: the bucket of its expiration or a later one it was clamped to. -/
theorem sweep_reclaims {cfg : Cfg} {s s' : State} {k : Hash} {e : Entry} {b : Int} {m : AMap Hash Conf}
    {chs : List Choice}
    (hpc : s.app = .tick) (hst : s.store.lookup k = some e) (hz : e.exp ≠ Gen.zeroTime)
    (hbok : BucketOk b) (hle : bucketOf e.exp ≤ b)
    (hreg : s.em.buckets.lookup b = some m) (hregk : m.lookup k = some e.conflict)
    (hlc : LcOk s.em.lastCleaned) (hnew : s.em.lastCleaned < b)
    (hcov : b ≤ cleanupOf s.clock) (hexp : TimeOk e.exp) (hclk : TimeOk s.clock)
    (hrun : runSweep cfg s chs = some s') (hidle : s'.app = .idle) :
    Reclaimed k e (fun em => em.buckets.lookup b = none) s.log s' := by
  have hlt := bucket_lt hexp hclk (Int.le_trans hle hcov)
  cases chs with
  | nil => simp [runSweep] at hrun; subst hrun; rw [hpc] at hidle; cases hidle
  | cons ch rest =>
    unfold runSweep at hrun
    simp only [hpc, applierStep] at hrun
    cases ch <;> simp only [needNone] at hrun <;> try (exact absurd hrun (by simp))
    case none =>
      have hin := (inRange_iff hlc hbok (cleanupOf_ok s.clock)).mpr ⟨hnew, hcov⟩
      obtain ⟨hmem, hnone⟩ := grab_hit hreg hin
      have hph : Phase k e s.clock (fun em => em.buckets.lookup b = none) s.log (apTick s) :=
        .pending (s.em.grab s.clock).2 (by simp [apTick, PendingPc]) ⟨m, hmem, hregk⟩ hst rfl hnone
      exact phase_idle (phase_run (fun _ _ _ h => em_del_lookup_none h) hz (Int.le_of_lt hlt) hph hrun) hidle

end RV.Cache
