import RV.Proofs.TieTree2ReinitE
/-!
# The tree on flat memory: `Tree.reinit` (generated whole), part F: counting and free-list facts
-/
namespace RV.TreeFlat
open RV.Tree RV.NodeFlat Gen.TreeM

/-! ## no nil children, page-id words -/

mutual
theorem ri_noNil {mk : Nat} : ∀ (b : Nat) (n : Node) (lo hi : Key), okNode mk b n lo hi → NoNil n
  | _, .null, _, _, h => by rw [okNode] at h; exact h.elim
  | _, .leaf _ _, _, _, _ => by rw [NoNil]; trivial
  | b, .inner _ es, lo, hi, h => by
    rw [okNode] at h; rw [NoNil]; exact ri_noNilEnts es lo h.1
theorem ri_noNilEnts {mk : Nat} : ∀ (es : List (Key × Node)) (lo : Key), okEnts mk es lo → NoNilEnts es
  | [], _, _ => by rw [NoNilEnts]; trivial
  | (ki, c) :: rest, lo, h => by
    rw [okEnts] at h; rw [NoNilEnts]
    exact ⟨ri_noNil _ c lo ki h.1, ri_noNilEnts rest ki h.2⟩
end

mutual
theorem ri_pidw {cfg : Cfg} {d : Words} : ∀ (n : Node), TreeFlat.Repr cfg d n →
    ∀ q ∈ pids n, pidW cfg.maxKeys (pageOf cfg d q) = w q
  | .null, _, q, hq => by simp [pids] at hq
  | .leaf p es, hr, q, hq => by
    simp only [pids, List.mem_singleton] at hq
    rw [hq]; exact (repr_leaf hr).pid
  | .inner p es, hr, q, hq => by
    obtain ⟨hp, hre⟩ := repr_inner hr
    simp only [pids, List.mem_cons] at hq
    rcases hq with h | h
    · rw [h]; exact hp.pid
    · exact ri_pidwEnts es hre q h
theorem ri_pidwEnts {cfg : Cfg} {d : Words} : ∀ (es : List (Key × Node)), ReprEnts cfg d es →
    ∀ q ∈ pidsEnts es, pidW cfg.maxKeys (pageOf cfg d q) = w q
  | [], _, q, hq => by simp [pidsEnts] at hq
  | (_, c) :: rest, hr, q, hq => by
    rw [ReprEnts] at hr
    simp only [pidsEnts, List.mem_append] at hq
    rcases hq with h | h
    · exact ri_pidw c hr.1 q h
    · exact ri_pidwEnts rest hr.2 q h
end

/-! ## counting the unmarked pages -/

theorem ri_cnt_filter (tp : Array Bool) (L : List Nat) : ∀ (n : Nat),
    (∀ i, i < n → (tp[i]! = true ↔ (i + 1) ∈ L)) →
    ri_cnt tp n = ((List.range' 1 n).filter (fun q => !decide (q ∈ L))).length
  | 0, _ => by simp [ri_cnt]
  | n + 1, h => by
    rw [ri_cnt, ri_cnt_filter tp L n (fun i hi => h i (by omega)), List.range'_1_concat,
      List.filter_append, List.length_append]
    congr 1
    have hn := h n (by omega)
    rw [Nat.add_comm 1 n]
    cases htp : tp[n]! with
    | true =>
      have : (n + 1) ∈ L := hn.mp htp
      simp [List.filter, this]
    | false =>
      have : ¬ (n + 1) ∈ L := fun hm => by rw [hn.mpr hm] at htp; cases htp
      simp [List.filter, this]

theorem ri_cnt_free (tp : Array Bool) (L F : List Nat) (M : Nat)
    (hcount : ∀ x, List.count x L + List.count x F = List.count x (List.range' 1 M))
    (hnd : (L ++ F).Nodup)
    (htp : ∀ i, i < M → (tp[i]! = true ↔ (i + 1) ∈ L)) :
    ri_cnt tp M = F.length := by
  rw [ri_cnt_filter tp L M htp]
  have hperm : (L ++ F).Perm (List.range' 1 M) := by
    rw [List.perm_iff_count]; intro x; rw [List.count_append]; exact hcount x
  have hdis := (List.nodup_append.mp hnd).2.2
  have h1 := (hperm.filter (fun q => !decide (q ∈ L))).length_eq
  rw [← h1, List.filter_append, List.length_append]
  have e1 : L.filter (fun q => !decide (q ∈ L)) = [] := by
    rw [List.filter_eq_nil_iff]; intro a ha; simp [ha]
  have e2 : F.filter (fun q => !decide (q ∈ L)) = F := by
    rw [List.filter_eq_self]; intro a ha
    have : ¬ a ∈ L := fun hl => hdis a hl a ha rfl
    simp [this]
  rw [e1, e2]; simp

/-! ## the free chain -/

/-- the non-zero link words of the free pages are exactly the (words of the) tail of the free list -/
theorem ri_links {cfg : Cfg} {d : Words} : ∀ (F : List Nat), FreeChain cfg d F → (∀ q ∈ F, q < 2 ^ 64) →
    ∀ x : BitVec 64, (x ≠ 0#64 ∧ ∃ q, q ∈ F ∧ (pageOf cfg d q)[0]! = x) ↔ ∃ r, r ∈ F.tail ∧ x = w r
  | [], _, _, x => by simp
  | [p], h, _, x => by
    obtain ⟨_, _, h3, _⟩ := h
    simp only [List.headD_nil] at h3
    simp only [List.mem_singleton, List.tail_cons, List.not_mem_nil, false_and, exists_false, iff_false]
    rintro ⟨h0, q, hq, e⟩
    rw [hq, h3] at e
    exact h0 e.symm
  | p :: r :: rest, h, hb, x => by
    obtain ⟨_, _, h3, h4⟩ := h
    simp only [List.headD_cons] at h3
    have ih := ri_links (r :: rest) h4 (fun q hq => hb q (by simp [hq])) x
    have hr0 : 0 < r := h4.1
    have hrb : r < 2 ^ 64 := hb r (by simp)
    have hwr : w r ≠ 0#64 := by
      intro e
      have := w_inj (a := r) (b := 0) hrb (by omega) e
      omega
    simp only [List.tail_cons] at ih ⊢
    constructor
    · rintro ⟨h0, q, hq, e⟩
      simp only [List.mem_cons] at hq
      rcases hq with hq | hq
      · rw [hq, h3] at e
        exact ⟨r, by simp, e.symm⟩
      · obtain ⟨r', hr', e'⟩ := ih.mp ⟨h0, q, by simpa using hq, e⟩
        exact ⟨r', by simp [hr'], e'⟩
    · rintro ⟨r', hr', e⟩
      simp only [List.mem_cons] at hr'
      rcases hr' with hr' | hr'
      · refine ⟨by rw [e, hr']; exact hwr, p, by simp, ?_⟩
        rw [h3, e, hr']
      · obtain ⟨h0, q, hq, e'⟩ := ih.mpr ⟨r', hr', e⟩
        exact ⟨h0, q, by simp only [List.mem_cons] at hq ⊢; exact Or.inr hq, e'⟩

theorem ri_chain_fit {cfg : Cfg} {d : Words} : ∀ (F : List Nat), FreeChain cfg d F →
    ∀ q ∈ F, 0 < q ∧ (q + 1) * pw cfg ≤ d.size
  | [], _, q, hq => by simp at hq
  | p :: rest, h, q, hq => by
    obtain ⟨h1, h2, _, h4⟩ := h
    simp only [List.mem_cons] at hq
    rcases hq with hq | hq
    · rw [hq]; exact ⟨h1, h2⟩
    · exact ri_chain_fit rest h4 q hq

/-- after the pointed pages are marked, the only unmarked page is the head of the free list -/
theorem ri_head (L F : List Nat) (M : Nat) (tp : Array Bool)
    (hmem : ∀ p, p ∈ L ++ F ↔ 1 ≤ p ∧ p < M + 1) (hnd : (L ++ F).Nodup)
    (htp : ∀ i, i < M → (tp[i]! = true ↔ ((i + 1) ∈ L ∨ (i + 1) ∈ F.tail))) :
    ((∀ i, i < M → tp[i]! = true) → F = []) ∧
    (∀ h, h < M → tp[h]! = false → F.headD 0 = h + 1) := by
  have hdis := (List.nodup_append.mp hnd).2.2
  have hndF := (List.nodup_append.mp hnd).2.1
  constructor
  · intro hall
    cases F with
    | nil => rfl
    | cons f rest =>
      exfalso
      have hf := (hmem f).mp (by simp)
      have h1 := (htp (f - 1) (by omega)).mp (hall (f - 1) (by omega))
      have e : f - 1 + 1 = f := by omega
      rw [e] at h1
      rcases h1 with h1 | h1
      · exact hdis f h1 f (by simp) rfl
      · simp only [List.tail_cons] at h1
        exact (List.nodup_cons.mp hndF).1 h1
  · intro h hh hf
    have hin : (h + 1) ∈ L ++ F := (hmem (h + 1)).mpr ⟨by omega, by omega⟩
    have hnot : ¬ ((h + 1) ∈ L ∨ (h + 1) ∈ F.tail) := fun hc => by
      rw [(htp h hh).mpr hc] at hf; cases hf
    rw [List.mem_append] at hin
    rcases hin with hin | hin
    · exact absurd (Or.inl hin) hnot
    · cases F with
      | nil => simp at hin
      | cons f rest =>
        simp only [List.mem_cons] at hin
        rcases hin with hin | hin
        · simp [hin]
        · exact absurd (Or.inr (by simpa using hin)) hnot

end RV.TreeFlat
