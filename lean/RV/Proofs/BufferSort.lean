import RV.Proofs.BufferMerge
/-!
`SortSliceBetween`: chunk offsets, `sortSmall`, the recursive `sort`, put together.
-/
namespace RV.Buffer
open Gen.Buffer

/-- `merge` on a buffer whose two adjacent runs are encoded slice lists: the in-place
loop leaves the slice-level merge in the region and touches nothing else. -/
theorem merge_enc (less : Bytes → Bytes → Bool) (pre post : Bytes) (L R : List Bytes)
    (hb : pre.length + (encAll L).length + (encAll R).length < 2 ^ 62) :
    merge less (pre ++ encAll L ++ encAll R ++ post) pre.length (pre.length + (encAll L).length)
      (pre.length + (encAll L).length + (encAll R).length) =
      .ok (pre ++ encAll (mergeSl less L R) ++ post) := by
  unfold merge
  have hr1 : region (pre ++ encAll L ++ encAll R ++ post) pre.length (pre.length + (encAll L).length) = encAll L := by
    rw [List.append_assoc (pre ++ _)]
    exact region_mid pre _ _
  have hr2 : region (pre ++ encAll L ++ encAll R ++ post) (pre.length + (encAll L).length)
      (pre.length + (encAll L).length + (encAll R).length) = encAll R := by
    have := region_mid (pre ++ encAll L) (encAll R) post
    rwa [List.length_append] at this
  simp only [hr1, hr2]
  by_cases hL : L = []
  · subst hL
    simp only [encAll_nil, List.length_nil, beq_self_eq_true, Bool.true_or, if_true, mergeSl, List.append_nil]
  · by_cases hR : R = []
    · subst hR
      cases L with
      | nil => exact absurd rfl hL
      | cons a l => simp [encAll_nil, mergeSl]
    · have h1 : (encAll L).length ≠ 0 := fun h => hL (encAll_eq_nil (List.length_eq_zero_iff.mp h))
      have h2 : (encAll R).length ≠ 0 := fun h => hR (encAll_eq_nil (List.length_eq_zero_iff.mp h))
      have e1 : ((encAll L).length == 0) = false := by simpa using h1
      have e2 : ((encAll R).length == 0) = false := by simpa using h2
      simp only [e1, e2, Bool.or_self, Bool.false_eq_true, if_false]
      have hgeL := encAll_length_ge L; have hgeR := encAll_length_ge R
      rw [mergeInPlace_eq less _ pre (encAll L) (encAll R) post (encAll L) rfl hb]
      rw [mergeLoop_enc less _ hb L R _ pre.length (by omega) rfl]

/-! ### the recursive sort over chunk offsets -/

/-- offsets of the chunk boundaries: `off, off + |c₀|, off + |c₀| + |c₁|, …` -/
def boundaries (off : Nat) : List (List Bytes) → List Nat
  | [] => [off]
  | c :: cs => off :: boundaries (off + (encAll c).length) cs

theorem boundaries_length (off : Nat) (cs : List (List Bytes)) : (boundaries off cs).length = cs.length + 1 := by
  induction cs generalizing off with
  | nil => rfl
  | cons c cs ih => simp [boundaries, ih]

theorem boundaries_get (cs : List (List Bytes)) : ∀ (off i : Nat), i ≤ cs.length →
    (boundaries off cs)[i]? = some (off + (encAll (cs.take i).flatten).length) := by
  induction cs with
  | nil => intro off i hi; simp at hi; subst hi; simp [boundaries, encAll_nil]
  | cons c cs ih =>
    intro off i hi
    cases i with
    | zero => simp [boundaries, encAll_nil]
    | succ j =>
      simp only [boundaries, List.getElem?_cons_succ, List.take_succ_cons, List.flatten_cons]
      rw [ih _ j (by simpa using hi), encAll_append, List.length_append]
      congr 1; omega

/-- slice-level result of `sort(lo, hi)` over the chunks `cs` -/
def mergeRange (less : Bytes → Bytes → Bool) (cs : List (List Bytes)) : Nat → Nat → Nat → List Bytes
  | 0, _, _ => []
  | fuel + 1, lo, hi =>
    let mid := lo + (hi - lo) / 2
    if lo = mid then ((cs.drop lo).take (hi - lo)).flatten
    else mergeSl less (mergeRange less cs fuel lo mid) (mergeRange less cs fuel mid hi)

theorem flatten_range_split (cs : List (List Bytes)) (lo mid hi : Nat) (h1 : lo ≤ mid) (h2 : mid ≤ hi) :
    ((cs.drop lo).take (hi - lo)).flatten =
      ((cs.drop lo).take (mid - lo)).flatten ++ ((cs.drop mid).take (hi - mid)).flatten := by
  rw [← List.flatten_append]
  congr 1
  have : hi - lo = (mid - lo) + (hi - mid) := by omega
  rw [this, List.take_add, List.drop_drop]
  congr 3; omega

theorem mergeRange_perm (less : Bytes → Bytes → Bool) (cs : List (List Bytes)) :
    ∀ (fuel lo hi : Nat), lo ≤ hi → hi - lo < fuel →
      (mergeRange less cs fuel lo hi).Perm ((cs.drop lo).take (hi - lo)).flatten := by
  intro fuel
  induction fuel with
  | zero => intro lo hi _ hf; omega
  | succ f ih =>
    intro lo hi hle hf
    unfold mergeRange
    simp only
    by_cases hm : lo = lo + (hi - lo) / 2
    · rw [if_pos hm]
    · rw [if_neg hm]
      have h1 := ih lo (lo + (hi - lo) / 2) (by omega) (by omega)
      have h2 := ih (lo + (hi - lo) / 2) hi (by omega) (by omega)
      refine (mergeSl_perm less _ _).trans ?_
      rw [flatten_range_split cs lo (lo + (hi - lo) / 2) hi (by omega) (by omega)]
      exact List.Perm.append h1 h2

theorem mergeRange_sorted (less : Bytes → Bytes → Bool) (sw : StrictWeak less) (cs : List (List Bytes))
    (hcs : ∀ c ∈ cs, Sorted less c) :
    ∀ (fuel lo hi : Nat), lo ≤ hi → hi - lo < fuel → Sorted less (mergeRange less cs fuel lo hi) := by
  intro fuel
  induction fuel with
  | zero => intro lo hi _ hf; omega
  | succ f ih =>
    intro lo hi hle hf
    unfold mergeRange
    simp only
    by_cases hm : lo = lo + (hi - lo) / 2
    · rw [if_pos hm]
      -- at most one chunk
      have hle1 : hi - lo ≤ 1 := by omega
      rcases Nat.lt_or_ge lo cs.length with hlt | hge
      · rcases Nat.eq_zero_or_pos (hi - lo) with h0 | h0
        · rw [h0]; simp [Sorted]
        · have : hi - lo = 1 := by omega
          rw [this, List.drop_eq_getElem_cons hlt]
          simp only [List.take_succ_cons, List.take_zero, List.flatten_cons, List.flatten_nil, List.append_nil]
          exact hcs _ (List.getElem_mem hlt)
      · rw [List.drop_eq_nil_of_le hge]; simp [Sorted]
    · rw [if_neg hm]
      exact mergeSl_sorted less sw _ _ (ih _ _ (by omega) (by omega)) (ih _ _ (by omega) (by omega))

theorem take_flatten_split (cs : List (List Bytes)) (lo mid : Nat) (h : lo ≤ mid) :
    (cs.take mid).flatten = (cs.take lo).flatten ++ ((cs.drop lo).take (mid - lo)).flatten := by
  rw [← List.flatten_append]
  congr 1
  have : mid = lo + (mid - lo) := by omega
  conv => lhs; rw [this, List.take_add]

/-- `sort(lo, hi)`: the region of the chunks `lo..hi` ends up holding their `mergeRange`. -/
theorem sortRec_spec (less : Bytes → Bytes → Bool) (cs : List (List Bytes)) (start : Nat)
    (hbound : start + (encAll cs.flatten).length < 2 ^ 62) (hcs : cs.length < 2 ^ 61) :
    ∀ (fuel lo hi : Nat) (pre post : Bytes),
      lo ≤ hi → hi ≤ cs.length → hi - lo < fuel →
      pre.length = start + (encAll (cs.take lo).flatten).length →
      sortRec less (boundaries start cs) fuel
        (pre ++ encAll ((cs.drop lo).take (hi - lo)).flatten ++ post) lo hi =
        .ok (pre ++ encAll (mergeRange less cs fuel lo hi) ++ post) := by
  intro fuel
  induction fuel with
  | zero => intro lo hi _ _ _ _ hf; omega
  | succ f ih =>
    intro lo hi pre post hle hhi hf hpre
    -- total length bound for any prefix of chunks
    have hpart : ∀ k, k ≤ cs.length → (encAll (cs.take k).flatten).length ≤ (encAll cs.flatten).length := by
      intro k _
      conv => rhs; rw [← List.take_append_drop k cs, List.flatten_append, encAll_append, List.length_append]
      omega
    unfold sortRec mergeRange
    rw [k_sortAssert _ _ (by omega) (by omega)]
    simp only [hle, decide_true, Bool.not_true, Bool.false_eq_true, if_false]
    rw [k_sortMid _ _ hle (by omega)]
    rw [boundaries_get cs start lo (by omega), boundaries_get cs start hi hhi]
    simp only
    rw [k_sortLeaf _ _ (by omega) (by omega)]
    by_cases hm : lo = lo + (hi - lo) / 2
    · simp only [← hm, decide_true, if_true]
    · have hm' : ¬ lo = lo + (hi - lo) / 2 := hm
      simp only [hm', decide_false, Bool.false_eq_true, if_false]
      have hmid1 : lo ≤ lo + (hi - lo) / 2 := by omega
      have hmid2 : lo + (hi - lo) / 2 ≤ hi := by omega
      generalize hmid : lo + (hi - lo) / 2 = mid at *
      -- first half
      have hsplit := flatten_range_split cs lo mid hi hmid1 hmid2
      have hd0 : pre ++ encAll ((cs.drop lo).take (hi - lo)).flatten ++ post =
          pre ++ encAll ((cs.drop lo).take (mid - lo)).flatten ++
            (encAll ((cs.drop mid).take (hi - mid)).flatten ++ post) := by
        rw [hsplit, encAll_append]; simp
      rw [hd0, ih lo mid pre _ hmid1 (by omega) (by omega) hpre]
      simp only
      -- second half
      have hp1 := mergeRange_perm less cs f lo mid hmid1 (by omega)
      have hl1 := encAll_length_perm hp1
      have hpre2 : (pre ++ encAll (mergeRange less cs f lo mid)).length =
          start + (encAll (cs.take mid).flatten).length := by
        rw [List.length_append, hpre, hl1, take_flatten_split cs lo mid hmid1, encAll_append, List.length_append]
        omega
      have hd1 : pre ++ encAll (mergeRange less cs f lo mid) ++
            (encAll ((cs.drop mid).take (hi - mid)).flatten ++ post) =
          (pre ++ encAll (mergeRange less cs f lo mid)) ++ encAll ((cs.drop mid).take (hi - mid)).flatten ++ post := by
        simp
      rw [hd1, ih mid hi _ post hmid2 hhi (by omega) hpre2]
      simp only
      rw [boundaries_get cs start mid (by omega)]
      simp only
      have hp2 := mergeRange_perm less cs f mid hi hmid2 (by omega)
      have hl2 := encAll_length_perm hp2
      -- the three offsets in terms of the current contents
      have hmoff : start + (encAll (cs.take mid).flatten).length =
          pre.length + (encAll (mergeRange less cs f lo mid)).length := by
        rw [← hpre2, List.length_append]
      have hhoff : start + (encAll (cs.take hi).flatten).length =
          pre.length + (encAll (mergeRange less cs f lo mid)).length + (encAll (mergeRange less cs f mid hi)).length := by
        rw [take_flatten_split cs mid hi hmid2, encAll_append, List.length_append, hl2]
        omega
      rw [← hpre, hmoff, hhoff]
      have htot := hpart hi hhi
      have hcond : pre.length ≤ pre.length + (encAll (mergeRange less cs f lo mid)).length ∧
          pre.length + (encAll (mergeRange less cs f lo mid)).length ≤
            pre.length + (encAll (mergeRange less cs f lo mid)).length + (encAll (mergeRange less cs f mid hi)).length ∧
          pre.length + (encAll (mergeRange less cs f lo mid)).length + (encAll (mergeRange less cs f mid hi)).length ≤
            (pre ++ encAll (mergeRange less cs f lo mid) ++ encAll (mergeRange less cs f mid hi) ++ post).length := by
        simp only [List.length_append]; omega
      rw [if_pos hcond]
      exact merge_enc less pre post _ _ (by omega)

end RV.Buffer
