import RV.Proofs.CacheFifoPhase
/-!
# C05 at the level of runs

`delPhase_run`: the phase invariant along any run from a reachable state in which no `Set` of `k`
is in flight or issued.  `del_wait_done`: after a complete `Del k` followed by a complete
`Wait`, the cache is closed, or `k` is gone, or a `Clear` that drained the tombstone has not yet
passed `k`'s shard.  `get_misses`: once `closed ∨ Gone`, every `Get k` that has not yet read the
store misses, until a `Set` of `k` is issued.
-/
namespace RV.Cache
open Gen.Cache

/-- induction along a run that also knows the rest of the run -/
theorem run_induction_fin {cfg : Cfg} {P : State → Prop} {s0 sfin : State} {acts : List Action}
    (h0 : Reach cfg s0) (hp : P s0)
    (hstep : ∀ s a s' rest, Reach cfg s → P s → a ∈ acts → step cfg s a = some s' →
      run cfg s' rest = some sfin → P s')
    (hr : run cfg s0 acts = some sfin) : P sfin := by
  induction acts generalizing s0 with
  | nil => simp [Cache.run] at hr; subst hr; exact hp
  | cons a as ih =>
    simp only [Cache.run] at hr
    cases hs : step cfg s0 a with
    | none => simp [hs] at hr
    | some s1 =>
      simp only [hs] at hr
      exact ih (h0.of_step hs) (hstep s0 a s1 as h0 hp (by simp) hs hr)
        (fun s a' s' rest hr' hp' ha hs' hrest => hstep s a' s' rest hr' hp' (by simp [ha]) hs' hrest) hr

namespace Fifo

/-- all `setCall`/`delCall`/`getCall` events with the same hash carry the same conflict
(no two keys with the same key hash and different conflict hashes are used: finding F8) -/
def KeyConf (log : List Ev) (h : Hash) (c : Conf) : Prop :=
  SetCalled log h c ∨ DelCalled log h c ∨ ∃ t now, Ev.getCall t h c now ∈ log

def CollisionFree (log : List Ev) : Prop := ∀ h c1 c2, KeyConf log h c1 → KeyConf log h c2 → c1 = c2

theorem CollisionFree.confAgree {log : List Ev} (h : CollisionFree log) (k : Hash) : ConfAgree k log := by
  intro c1 c2 h1 h2
  exact h k c1 c2 (h1.elim Or.inl (fun x => Or.inr (Or.inl x))) (h2.elim Or.inl (fun x => Or.inr (Or.inl x)))

end Fifo
open Fifo

/-- The phase invariant along a run. -/
theorem delPhase_run {cfg : Cfg} {k : Hash} {s0 s : State} {acts : List Action}
    (h0 : Reach cfg s0) (hns : NoSetK k s0) (hsp : ∀ a ∈ acts, ¬ a.isSpawnSet k)
    (hr : run cfg s0 acts = some s) (hconf : ConfAgree k s.log) :
    ∃ new, s.log = new ++ s0.log ∧ DelPhase k s new := by
  refine run_induction_fin (P := fun s => ∃ new, s.log = new ++ s0.log ∧ DelPhase k s new) h0
    ⟨[], rfl, DelPhase.init hns⟩ ?_ hr
  intro s1 a s2 rest hr1 ⟨new, hl, hph⟩ ha hs hrest
  obtain ⟨evs, hl2, hal⟩ := step_log hs
  obtain ⟨n2, hl3⟩ := run_log hrest
  have hconf1 : ConfAgree k s1.log := by
    rw [hl3, hl2, ← List.append_assoc] at hconf
    exact hconf.of_append
  exact ⟨evs ++ new, by rw [hl2, hl]; simp, hph.step hr1 hconf1 (hsp a ha) hs hl2 hal⟩

/-- After a complete `Del k` and a later complete `Wait`, in a run without `Set`s of `k`: the cache
is closed, or `k` is gone, or a `Clear` that drained the tombstone is still between its drain
loop and `k`'s shard. -/
theorem del_wait_done {cfg : Cfg} {k : Hash} {s0 s : State} {acts : List Action} {new : List Ev}
    (h0 : Reach cfg s0) (hns : NoSetK k s0) (hsp : ∀ a ∈ acts, ¬ a.isSpawnSet k)
    (hr : run cfg s0 acts = some s) (hconf : ConfAgree k s.log)
    (hlog : s.log = new ++ s0.log) (hdone : WaitDone k new) :
    NoSetK k s ∧ (s.closed = true ∨ Gone k s ∨ ClearPending k s) := by
  obtain ⟨new', hl, hph⟩ := delPhase_run h0 hns hsp hr hconf
  have : new' = new := by rw [hlog] at hl; exact (List.append_cancel_right hl).symm
  subst this
  refine ⟨hph.nos, ?_⟩
  rcases hph.p5 hdone with h | h | h | ⟨_, _, _, _, _, _, hf⟩
  · exact Or.inl h
  · exact Or.inr (Or.inl h)
  · exact Or.inr (Or.inr h)
  · exact hf.elim

/-- a `ClearPending` needs a client inside the clearing part of `Clear`/`Close` -/
theorem ClearPending.clrWit {k : Hash} {s : State} (h : ClearPending k s) : ∃ t, (s.cl t).clrWit = true := by
  obtain ⟨_, t, closing, e | e | ⟨j, e, _⟩⟩ := h <;> exact ⟨t, by rw [e]; rfl⟩

/-! ### `closed ∨ Gone` is stable and makes every later `Get k` miss -/

def CG (k : Hash) (s : State) : Prop := s.closed = true ∨ Gone k s

theorem cg_step {cfg : Cfg} {k : Hash} {s s' : State} {a : Action}
    (hr : Reach cfg s) (hns : NoSetK k s) (hconf : ConfAgree k s.log) (hs : step cfg s a = some s')
    (h : CG k s) : CG k s' := by
  rcases h with h | h
  · exact Or.inl ((step_mono hs).2.1 h)
  · exact Or.inr (gone_kstep h (kstep k hr hns hconf hs))

/-- client `t` does not hold a stale store read of `k` -/
structure GetOK (k : Hash) (t : Tid) (s : State) : Prop where
  read : ∀ c, s.cl t = .getRead k c → Gone k s
  check : ∀ c e, s.cl t = .getCheck k c e → e = none
  metric : ∀ c r, s.cl t = .getMetric k c r → r = none

theorem getResult_none (c : Conf) (now : Time) : getResult c none now = none := rfl

theorem getOK_step {cfg : Cfg} {k : Hash} {t : Tid} {s s' : State} {a : Action}
    (hr : Reach cfg s) (hns : NoSetK k s) (hconf : ConfAgree k s.log) (hs : step cfg s a = some s')
    (hcg : CG k s) (h : GetOK k t s) : GetOK k t s' := by
  have hq := queue_inv hr
  have hks := kstep k hr hns hconf hs
  by_cases hown : a.owner t
  · rcases owner_cases hs hown with ⟨ch, rfl, hn⟩ | hcore | ⟨c', rfl, hidle⟩
    · -- own client step
      cases hpc0 : s.cl t <;> rw [hpc0] at hn <;> unfold NextPc at hn <;> dsimp only at hn
      case getStart h' c' =>
        rcases hn with ⟨e, _⟩ | ⟨e, hc⟩
        · constructor <;> intros <;> simp_all
        · constructor
          · intro c he
            rcases hcg with hcl | hg
            · rw [hcl] at hc; cases hc
            · exact gone_kstep hg hks
          · intro c e' he; rw [e] at he; cases he
          · intro c r he; rw [e] at he; cases he
      case getRead h' c' =>
        constructor
        · intro c he; rw [hn] at he; cases he
        · intro c e' he
          rw [hn] at he
          simp only [CPc.getCheck.injEq] at he
          obtain ⟨rfl, _, rfl⟩ := he
          exact (h.read c' hpc0).1
        · intro c r he; rw [hn] at he; cases he
      case getCheck h' c' e0 =>
        constructor
        · intro c he; rw [hn] at he; cases he
        · intro c e' he; rw [hn] at he; cases he
        · intro c r he
          rw [hn] at he
          simp only [CPc.getMetric.injEq] at he
          obtain ⟨rfl, _, rfl⟩ := he
          rw [h.check c' e0 hpc0]; rfl
      all_goals first
        | (constructor <;> intros <;> simp_all <;> done)
        | (constructor <;> intro c <;> intros <;> rename_i he <;> rw [he] at hn <;> exact (core_true_ne hn rfl).elim)
    · constructor <;> intro c <;> intros <;> rename_i he <;> rw [he] at hcore <;> exact (core_true_ne hcore rfl).elim
    · obtain ⟨_, e⟩ := spawn_next (show spawnStep s t c' = some s' from hs)
      constructor <;> intro c <;> intros <;> rename_i he <;> rw [e] at he <;> cases c' <;> cases he
  · rcases step_cl_f hq hs t hown with e | ⟨hb, e⟩
    · constructor
      · intro c he; exact gone_kstep (h.read c (by rw [← e]; exact he)) hks
      · intro c e' he; exact h.check c e' (by rw [← e]; exact he)
      · intro c r he; exact h.metric c r (by rw [← e]; exact he)
    · constructor <;> intro c <;> intros <;> rename_i he <;> rw [e] at he <;>
        (cases hpc0 : s.cl t <;> simp [hpc0, CPc.blocked, unblockedPc] at hb he)

/-- Once `closed ∨ Gone k`, every `Get k` of a client that has not yet read the store misses — for
as long as no `Set` of `k` is issued. -/
theorem get_misses {cfg : Cfg} {k : Hash} {t : Tid} {s s' : State} {acts : List Action} {new : List Ev}
    (h0 : Reach cfg s) (hns : NoSetK k s) (hcg : CG k s) (hok : GetOK k t s)
    (hsp : ∀ a ∈ acts, ¬ a.isSpawnSet k) (hr : run cfg s acts = some s') (hconf : ConfAgree k s'.log)
    (hlog : s'.log = new ++ s.log) :
    CG k s' ∧ NoSetK k s' ∧ ∀ c res, .getRet t k c res ∈ new → res = none := by
  have key : ∃ new', s'.log = new' ++ s.log ∧ NoSetK k s' ∧ CG k s' ∧ GetOK k t s' ∧
      ∀ c res, .getRet t k c res ∈ new' → res = none := by
    refine run_induction_fin (P := fun s' => ∃ new', s'.log = new' ++ s.log ∧ NoSetK k s' ∧ CG k s' ∧ GetOK k t s' ∧
      ∀ c res, .getRet t k c res ∈ new' → res = none) h0 ⟨[], rfl, hns, hcg, hok, by simp⟩ ?_ hr
    intro s1 a s2 rest hr1 ⟨new1, hl, hns1, hcg1, hok1, hres⟩ ha hs hrest
    obtain ⟨evs, hl2, hal⟩ := step_log hs
    obtain ⟨n2, hl3⟩ := run_log hrest
    have hconf1 : ConfAgree k s1.log := by
      rw [hl3, hl2, ← List.append_assoc] at hconf
      exact hconf.of_append
    refine ⟨evs ++ new1, by rw [hl2, hl]; simp, noSetK_step (queue_inv hr1) hns1 (hsp a ha) hs,
      cg_step hr1 hns1 hconf1 hs hcg1, getOK_step hr1 hns1 hconf1 hs hcg1 hok1, ?_⟩
    intro c res hm
    rcases List.mem_append.mp hm with hm | hm
    · have := hal _ hm
      simp only [Allowed] at this
      obtain ⟨ch, _, hpc | ⟨_, _, hres'⟩⟩ := this
      · exact hok1.metric c res hpc
      · exact hres'
    · exact hres c res hm
  obtain ⟨new', hl', h1, h2, _, h4⟩ := key
  have : new' = new := by rw [hlog] at hl'; exact (List.append_cancel_right hl').symm
  subst this
  exact ⟨h2, h1, h4⟩

end RV.Cache
