import RV.Proofs.RingInv
/-!
Conservation of keys, the sketch invariant and the metric invariant of the exact ring model.

* `Conserve`: per key, the number of pushes equals the number of copies in stripes, in
  `itemsCh`, held by the goroutine, applied to the sketch, dropped on a full channel, refused by
  a closed policy, and lost with a stripe.
* `AdmitInv`: `admit` is `tinyLFU.Push` of the keys applied since creation / the last `Clear`.
* `MetInv`: `GetsKept` / `GetsDropped` are the numbers of kept / dropped keys since the last
  `Metrics.Clear`, modulo 2^64.
-/
namespace RV.Ring
open Gen.Ring

/-! ### projections of `defaultPolicy.Push` -/

section proj
variable (p : Pol) (keys : List Key)
theorem push_held : (p.push keys).1.held = p.held := by
  rcases Pol.push_cases p keys with ⟨_, e⟩ | ⟨_, _, e⟩ | ⟨_, _, _, e⟩ | ⟨_, _, _, e⟩ <;> simp [e]
theorem push_admit : (p.push keys).1.lfu = p.lfu := by
  rcases Pol.push_cases p keys with ⟨_, e⟩ | ⟨_, _, e⟩ | ⟨_, _, _, e⟩ | ⟨_, _, _, e⟩ <;> simp [e]
theorem push_metricsOn : (p.push keys).1.metricsOn = p.metricsOn := by
  rcases Pol.push_cases p keys with ⟨_, e⟩ | ⟨_, _, e⟩ | ⟨_, _, _, e⟩ | ⟨_, _, _, e⟩ <;> simp [e]
theorem push_closed : (p.push keys).1.closed = p.closed := by
  rcases Pol.push_cases p keys with ⟨_, e⟩ | ⟨_, _, e⟩ | ⟨_, _, _, e⟩ | ⟨_, _, _, e⟩ <;> simp [e]
theorem push_running : (p.push keys).1.running = p.running := by
  rcases Pol.push_cases p keys with ⟨_, e⟩ | ⟨_, _, e⟩ | ⟨_, _, _, e⟩ | ⟨_, _, _, e⟩ <;> simp [e]
end proj

/-! ### conservation -/

/-- per-key conservation of pushes -/
def Conserve (s : Sys) : Prop := ∀ k : Key,
  s.pushed.count k = (poolKeys s).count k + (chanKeys s).count k + (heldKeys s).count k + s.applied.count k
    + s.dropped.count k + s.lostClosed.count k + s.lostPool.count k

theorem conserve_init (capa : BitVec 64) (m : Bool) (t : RV.TinyLFU.TinyLFU) : Conserve (init capa m t) := by
  intro k; simp [init, poolKeys, chanKeys, heldKeys]

theorem conserve_withNew {s : Sys} (h : Conserve s) : Conserve (withNew s) := by
  intro k
  have := h k
  simpa [withNew, poolKeys, chanKeys, heldKeys, Stripe.new] using this

theorem conserve_pushAt {s s' : Sys} {i : Nat} {k : Key} (hsh : Shape s) (h : Conserve s)
    (hp : pushAt s i k = some s') : Conserve s' := by
  obtain ⟨st, hst, ⟨hf, rfl⟩ | ⟨hf, rfl⟩⟩ := pushAt_cases hp
  · intro q
    have h0 := h q
    have hset := count_flatten_set Stripe.data q s.pool i st
      { st with data := st.data ++ [k], hist := st.hist ++ [k] } hst
    simp only [poolKeys, chanKeys, heldKeys, afterQuiet, List.count_append] at h0 hset ⊢
    omega
  · have ok := hsh.pool st (mem_of_getElem? hst)
    rw [stripe_push_decision ok k] at hf
    have hlen : st.data.length + 1 = capaN (stripeCapa s.capa) := by simpa using hf
    have hblen : (st.data ++ [k]).length = capaN (stripeCapa s.capa) := by simpa using hlen
    have hlt := capaN_lt (stripeCapa s.capa)
    have hne : pushEmpty (st.data ++ [k]).toArray = false :=
      pushEmpty_false _ (by rw [hblen]; exact capaN_pos _) (by rw [hblen]; omega)
    intro q
    have h0 := h q
    have hset := count_flatten_set Stripe.data q s.pool i st
      { st with data := resetData (st.data ++ [k]) st.capa (s.pol.push (st.data ++ [k])).2.ret,
                hist := st.hist ++ [k], out := st.out ++ [st.data ++ [k]] } hst
    simp only [resetData_nil, List.count_nil] at hset
    rcases Pol.push_cases s.pol (st.data ++ [k]) with ⟨_, e⟩ | ⟨_, he, _⟩ | ⟨_, _, hl, e⟩ | ⟨_, _, _, e⟩
    · simp only [poolKeys, chanKeys, heldKeys, afterDrain, e, List.count_append, resetData_nil] at h0 hset ⊢
      simp only [reduceCtorEq, if_false, if_true, List.count_append]
      omega
    · rw [hne] at he; cases he
    · simp only [poolKeys, chanKeys, heldKeys, afterDrain, e, List.count_append, resetData_nil,
        addKeep_chan, addKeep_held, List.flatten_append, List.flatten_cons, List.flatten_nil,
        List.append_nil] at h0 hset ⊢
      simp only [reduceCtorEq, if_false]
      omega
    · simp only [poolKeys, chanKeys, heldKeys, afterDrain, e, List.count_append, resetData_nil,
        addDrop_chan, addDrop_held] at h0 hset ⊢
      simp only [reduceCtorEq, if_false, if_true, List.count_append]
      omega

theorem conserve_step {s s' : Sys} {a : Act} (hsh : Shape s) (h : Conserve s) (hs : step s a = some s') :
    Conserve s' := by
  cases a with
  | push i k => exact conserve_pushAt hsh h hs
  | pushNew k => rw [step_pushNew] at hs; exact conserve_pushAt (shape_withNew hsh) (conserve_withNew h) hs
  | lose i =>
    simp only [step] at hs
    cases hp : s.pool[i]? with
    | none => simp [hp] at hs
    | some st =>
      simp only [hp, Option.some.injEq] at hs; subst hs
      intro q
      have h0 := h q
      have he := count_flatten_eraseIdx Stripe.data q s.pool i st hp
      simp only [poolKeys, chanKeys, heldKeys, List.count_append] at h0 he ⊢
      omega
  | recv =>
    simp only [step] at hs
    split at hs
    · rename_i hc
      cases hch : s.pol.chan with
      | nil => simp [hch] at hs
      | cons b rest =>
        simp only [hch, Option.some.injEq] at hs; subst hs
        have hnone : s.pol.held = none := by
          simp only [Bool.and_eq_true, Option.isNone_iff_eq_none] at hc; exact hc.2
        intro q
        have h0 := h q
        simp only [poolKeys, chanKeys, heldKeys, hch, hnone, List.flatten_cons, List.count_append,
          Option.getD_none, Option.getD_some, List.count_nil] at h0 ⊢
        omega
    · cases hs
  | apply =>
    simp only [step] at hs
    cases hh : s.pol.held with
    | none => simp [hh] at hs
    | some b =>
      simp only [hh, Option.some.injEq] at hs; subst hs
      intro q
      have h0 := h q
      simp only [poolKeys, chanKeys, heldKeys, hh, List.count_append, Option.getD_none, Option.getD_some,
        List.count_nil] at h0 ⊢
      omega
  | stop =>
    simp only [step] at hs
    split at hs
    · simp only [Option.some.injEq] at hs; subst hs; exact h
    · cases hs
  | close =>
    simp only [step] at hs
    split at hs
    · simp only [Option.some.injEq] at hs; subst hs; exact h
    · cases hs
  | polClear => simp only [step, Option.some.injEq] at hs; subst hs; exact h
  | metClear => simp only [step, Option.some.injEq] at hs; subst hs; exact h

/-! ### the sketch is the fold of the applied keys -/

structure AdmitInv (s : Sys) : Prop where
  lfu : s.pol.lfu = RV.TinyLFU.push s.base s.since
  suffix : ∃ pre, s.applied = pre ++ s.since

theorem admit_init (capa : BitVec 64) (m : Bool) (t : RV.TinyLFU.TinyLFU) : AdmitInv (init capa m t) :=
  ⟨rfl, ⟨[], rfl⟩⟩

theorem tiny_push_append (t : RV.TinyLFU.TinyLFU) (a b : List Key) :
    RV.TinyLFU.push t (a ++ b) = RV.TinyLFU.push (RV.TinyLFU.push t a) b := by
  simp [RV.TinyLFU.push, List.foldl_append]

theorem admit_pushAt {s s' : Sys} {i : Nat} {k : Key} (h : AdmitInv s) (hp : pushAt s i k = some s') :
    AdmitInv s' := by
  obtain ⟨st, hst, ⟨hf, rfl⟩ | ⟨hf, rfl⟩⟩ := pushAt_cases hp
  · exact ⟨h.lfu, h.suffix⟩
  · exact ⟨by simpa [afterDrain, push_admit] using h.lfu, h.suffix⟩

theorem admit_step {s s' : Sys} {a : Act} (h : AdmitInv s) (hs : step s a = some s') : AdmitInv s' := by
  cases a with
  | push i k => exact admit_pushAt h hs
  | pushNew k => rw [step_pushNew] at hs; exact admit_pushAt (s := withNew s) ⟨h.lfu, h.suffix⟩ hs
  | lose i =>
    simp only [step] at hs
    cases hp : s.pool[i]? with
    | none => simp [hp] at hs
    | some st => simp only [hp, Option.some.injEq] at hs; subst hs; exact ⟨h.lfu, h.suffix⟩
  | recv =>
    simp only [step] at hs
    split at hs
    · cases hch : s.pol.chan with
      | nil => simp [hch] at hs
      | cons b rest => simp only [hch, Option.some.injEq] at hs; subst hs; exact ⟨h.lfu, h.suffix⟩
    · cases hs
  | apply =>
    simp only [step] at hs
    cases hh : s.pol.held with
    | none => simp [hh] at hs
    | some b =>
      simp only [hh, Option.some.injEq] at hs; subst hs
      obtain ⟨pre, hpre⟩ := h.suffix
      refine ⟨?_, ⟨pre, ?_⟩⟩
      · show RV.TinyLFU.push s.pol.lfu b = RV.TinyLFU.push s.base (s.since ++ b)
        rw [tiny_push_append, ← h.lfu]
      · show s.applied ++ b = pre ++ (s.since ++ b)
        rw [hpre, List.append_assoc]
  | stop =>
    simp only [step] at hs
    split at hs
    · simp only [Option.some.injEq] at hs; subst hs; exact ⟨h.lfu, h.suffix⟩
    · cases hs
  | close =>
    simp only [step] at hs
    split at hs
    · simp only [Option.some.injEq] at hs; subst hs; exact ⟨h.lfu, h.suffix⟩
    · cases hs
  | polClear =>
    simp only [step, Option.some.injEq] at hs; subst hs
    exact ⟨rfl, ⟨s.applied, by simp⟩⟩
  | metClear => simp only [step, Option.some.injEq] at hs; subst hs; exact ⟨h.lfu, h.suffix⟩

/-! ### the metric counters -/

structure MetInv (s : Sys) : Prop where
  keepLe : s.keptAtClear ≤ (keptKeys s).length
  dropLe : s.droppedAtClear ≤ s.dropped.length
  keep : s.pol.keepGets =
    if s.pol.metricsOn then BitVec.ofNat 64 ((keptKeys s).length - s.keptAtClear) else 0#64
  drop : s.pol.dropGets =
    if s.pol.metricsOn then BitVec.ofNat 64 (s.dropped.length - s.droppedAtClear) else 0#64

theorem met_init (capa : BitVec 64) (m : Bool) (t : RV.TinyLFU.TinyLFU) : MetInv (init capa m t) := by
  refine ⟨by simp [init], by simp [init], ?_, ?_⟩ <;> simp [init, keptKeys, chanKeys, heldKeys]

theorem ofNat_sub_add (a c n : Nat) (h : c ≤ a) :
    BitVec.ofNat 64 (a - c) + BitVec.ofNat 64 n = BitVec.ofNat 64 (a + n - c) := by
  rw [← BitVec.ofNat_add]; congr 1; omega

theorem metInv_of_eq {s s' : Sys} (h : MetInv s) (hk : (keptKeys s').length = (keptKeys s).length)
    (h1 : s'.keptAtClear = s.keptAtClear) (h2 : s'.dropped = s.dropped) (h3 : s'.droppedAtClear = s.droppedAtClear)
    (h4 : s'.pol.keepGets = s.pol.keepGets) (h5 : s'.pol.dropGets = s.pol.dropGets)
    (h6 : s'.pol.metricsOn = s.pol.metricsOn) : MetInv s' := by
  refine ⟨?_, ?_, ?_, ?_⟩
  · rw [hk, h1]; exact h.keepLe
  · rw [h2, h3]; exact h.dropLe
  · rw [hk, h1, h4, h6]; exact h.keep
  · rw [h2, h3, h5, h6]; exact h.drop

theorem met_pushAt {s s' : Sys} {i : Nat} {k : Key} (hsh : Shape s) (h : MetInv s)
    (hp : pushAt s i k = some s') : MetInv s' := by
  obtain ⟨st, hst, ⟨hf, rfl⟩ | ⟨hf, rfl⟩⟩ := pushAt_cases hp
  · exact ⟨h.keepLe, h.dropLe, h.keep, h.drop⟩
  · have ok := hsh.pool st (mem_of_getElem? hst)
    rw [stripe_push_decision ok k] at hf
    have hlen : st.data.length + 1 = capaN (stripeCapa s.capa) := by simpa using hf
    have hblen : (st.data ++ [k]).length = capaN (stripeCapa s.capa) := by simpa using hlen
    have hlt := capaN_lt (stripeCapa s.capa)
    have hne : pushEmpty (st.data ++ [k]).toArray = false :=
      pushEmpty_false _ (by rw [hblen]; exact capaN_pos _) (by rw [hblen]; omega)
    have h1 := h.keepLe; have h2 := h.dropLe; have h3 := h.keep; have h4 := h.drop
    rcases Pol.push_cases s.pol (st.data ++ [k]) with ⟨_, e⟩ | ⟨_, he, _⟩ | ⟨_, _, hl, e⟩ | ⟨_, _, _, e⟩
    · refine ⟨?_, ?_, ?_, ?_⟩ <;>
        simp only [keptKeys, chanKeys, heldKeys, afterDrain, e, reduceCtorEq, if_false] at h1 h2 h3 h4 ⊢ <;>
        assumption
    · rw [hne] at he; cases he
    · -- kept
      have hk : (keptKeys (afterDrain s i st k (s.pol.push (st.data ++ [k])))).length
          = (keptKeys s).length + (st.data ++ [k]).length := by
        simp only [keptKeys, chanKeys, heldKeys, afterDrain, e, addKeep_chan, addKeep_held,
          List.flatten_append, List.flatten_cons, List.flatten_nil, List.append_nil, List.length_append]
        omega
      refine ⟨by rw [hk]; show s.keptAtClear ≤ _; omega, ?_, ?_, ?_⟩
      · simpa only [afterDrain, e, reduceCtorEq, if_false] using h2
      · rw [hk]
        simp only [afterDrain, e, addKeep_metricsOn]
        unfold Pol.addKeep
        cases hm : s.pol.metricsOn
        · simp only [hm, if_false, Bool.false_eq_true] at h3 ⊢; exact h3
        · simp only [hm, if_true] at h3 ⊢
          rw [h3, keepDelta_eq, ofNat_sub_add _ _ _ h1]
      · simp only [afterDrain, e, addKeep_metricsOn, addKeep_dropGets, reduceCtorEq, if_false] at h4 ⊢
        exact h4
    · -- dropped
      refine ⟨?_, ?_, ?_, ?_⟩
      · simpa only [keptKeys, chanKeys, heldKeys, afterDrain, e, addDrop_chan, addDrop_held] using h1
      · simp only [afterDrain, e, if_true, List.length_append] at h2 ⊢; omega
      · simp only [keptKeys, chanKeys, heldKeys, afterDrain, e, addDrop_chan, addDrop_held,
          addDrop_metricsOn, addDrop_keepGets] at h3 ⊢
        exact h3
      · simp only [afterDrain, e, addDrop_metricsOn, if_true]
        unfold Pol.addDrop
        cases hm : s.pol.metricsOn
        · simp only [hm, if_false, Bool.false_eq_true] at h4 ⊢; exact h4
        · simp only [hm, if_true] at h4 ⊢
          rw [h4, dropDelta_eq, ofNat_sub_add _ _ _ h2, List.length_append (as := s.dropped)]

theorem met_step {s s' : Sys} {a : Act} (hsh : Shape s) (h : MetInv s) (hs : step s a = some s') : MetInv s' := by
  cases a with
  | push i k => exact met_pushAt hsh h hs
  | pushNew k =>
    rw [step_pushNew] at hs
    exact met_pushAt (s := withNew s) (shape_withNew hsh) ⟨h.keepLe, h.dropLe, h.keep, h.drop⟩ hs
  | lose i =>
    simp only [step] at hs
    cases hp : s.pool[i]? with
    | none => simp [hp] at hs
    | some st => simp only [hp, Option.some.injEq] at hs; subst hs; exact ⟨h.keepLe, h.dropLe, h.keep, h.drop⟩
  | recv =>
    simp only [step] at hs
    split at hs
    · rename_i hc
      cases hch : s.pol.chan with
      | nil => simp [hch] at hs
      | cons b rest =>
        simp only [hch, Option.some.injEq] at hs; subst hs
        have hnone : s.pol.held = none := by
          simp only [Bool.and_eq_true, Option.isNone_iff_eq_none] at hc; exact hc.2
        refine metInv_of_eq h ?_ rfl rfl rfl rfl rfl rfl
        simp only [keptKeys, chanKeys, heldKeys, hch, hnone, List.flatten_cons, List.length_append,
          Option.getD_none, Option.getD_some, List.length_nil]
        omega
    · cases hs
  | apply =>
    simp only [step] at hs
    cases hh : s.pol.held with
    | none => simp [hh] at hs
    | some b =>
      simp only [hh, Option.some.injEq] at hs; subst hs
      refine metInv_of_eq h ?_ rfl rfl rfl rfl rfl rfl
      simp only [keptKeys, chanKeys, heldKeys, hh, List.length_append, Option.getD_none, Option.getD_some,
        List.length_nil]
      omega
  | stop =>
    simp only [step] at hs
    split at hs
    · simp only [Option.some.injEq] at hs; subst hs; exact ⟨h.keepLe, h.dropLe, h.keep, h.drop⟩
    · cases hs
  | close =>
    simp only [step] at hs
    split at hs
    · simp only [Option.some.injEq] at hs; subst hs; exact ⟨h.keepLe, h.dropLe, h.keep, h.drop⟩
    · cases hs
  | polClear =>
    simp only [step, Option.some.injEq] at hs; subst hs; exact ⟨h.keepLe, h.dropLe, h.keep, h.drop⟩
  | metClear =>
    simp only [step, Option.some.injEq] at hs; subst hs
    refine ⟨?_, ?_, ?_, ?_⟩
    · show (s.pol.chan.flatten ++ s.pol.held.getD [] ++ s.applied).length ≤ _
      exact Nat.le_refl _
    · exact Nat.le_refl _
    · show (0#64) = if s.pol.metricsOn then BitVec.ofNat 64 ((s.pol.chan.flatten ++ s.pol.held.getD [] ++ s.applied).length
          - (s.pol.chan.flatten ++ s.pol.held.getD [] ++ s.applied).length) else 0#64
      simp
    · show (0#64) = if s.pol.metricsOn then BitVec.ofNat 64 (s.dropped.length - s.dropped.length) else 0#64
      simp

/-! ### all invariants of reachable states -/

structure Inv (s : Sys) : Prop where
  shape : Shape s
  conserve : Conserve s
  lfu : AdmitInv s
  met : MetInv s

theorem inv_reach {capa : BitVec 64} {m : Bool} {t : RV.TinyLFU.TinyLFU} {s : Sys} (h : Reach capa m t s) :
    Inv s ∧ s.capa = capa ∧ s.pol.metricsOn = m := by
  obtain ⟨acts, hr⟩ := h
  refine inv_run (P := fun s => Inv s ∧ s.capa = capa ∧ s.pol.metricsOn = m) ?_ acts _ _
    ⟨⟨shape_init _ _ _, conserve_init _ _ _, admit_init _ _ _, met_init _ _ _⟩, rfl, rfl⟩ hr
  intro s a s' ⟨hi, hc, hm⟩ hs
  refine ⟨⟨shape_step hi.shape hs, conserve_step hi.shape hi.conserve hs, admit_step hi.lfu hs,
    met_step hi.shape hi.met hs⟩, by rw [step_capa hs, hc], ?_⟩
  rw [← hm]
  -- `metricsOn` never changes
  have push : ∀ {s s' : Sys} {i k}, pushAt s i k = some s' → s'.pol.metricsOn = s.pol.metricsOn := by
    intro s s' i k hp
    obtain ⟨st, _, ⟨_, rfl⟩ | ⟨_, rfl⟩⟩ := pushAt_cases hp
    · rfl
    · exact push_metricsOn _ _
  cases a with
  | push i k => exact push hs
  | pushNew k => rw [step_pushNew] at hs; have := push hs; exact this
  | lose i =>
    simp only [step] at hs
    cases hp : s.pool[i]? with
    | none => simp [hp] at hs
    | some st => simp only [hp, Option.some.injEq] at hs; subst hs; rfl
  | recv =>
    simp only [step] at hs
    split at hs
    · cases hch : s.pol.chan with
      | nil => simp [hch] at hs
      | cons b rest => simp only [hch, Option.some.injEq] at hs; subst hs; rfl
    · cases hs
  | apply =>
    simp only [step] at hs
    cases hh : s.pol.held with
    | none => simp [hh] at hs
    | some b => simp only [hh, Option.some.injEq] at hs; subst hs; rfl
  | stop =>
    simp only [step] at hs
    split at hs
    · simp only [Option.some.injEq] at hs; subst hs; rfl
    · cases hs
  | close =>
    simp only [step] at hs
    split at hs
    · simp only [Option.some.injEq] at hs; subst hs; rfl
    · cases hs
  | polClear => simp only [step, Option.some.injEq] at hs; subst hs; rfl
  | metClear => simp only [step, Option.some.injEq] at hs; subst hs; rfl

end RV.Ring
