import RV.Proofs.TieTree2Model
/-!
# The tree on flat memory: the *split* phase of `Tree.set`

`if child.isFull() { nn := t.split(child.pageID()); n = t.node(pid); child = t.node(n.uint64(valOffset(idx)));
n.set(child.maxKey(), child.pageID()); n.set(nn.maxKey(), nn.pageID()) }` — composing `splitNode_refines`
with two `node.set` calls on the parent page (`set_some` / `set_pageOk` through `nodeSet_mapV`).
-/
namespace RV.TreeFlat
open RV.Tree RV.NodeFlat Gen.TreeM

/-! ## small structural facts -/

theorem reprEnts_append {cfg : Cfg} {d : Words} : ∀ (l r : List (Key × Node)),
    ReprEnts cfg d (l ++ r) ↔ ReprEnts cfg d l ∧ ReprEnts cfg d r
  | [], r => by simp [ReprEnts]
  | (k, c) :: rest, r => by
    rw [List.cons_append, ReprEnts, ReprEnts, reprEnts_append rest r, and_assoc]

theorem reprEnts_iff_forall {cfg : Cfg} {d : Words} : ∀ (es : List (Key × Node)),
    ReprEnts cfg d es ↔ ∀ e ∈ es, TreeFlat.Repr cfg d e.2
  | [] => by simp [ReprEnts]
  | (k, c) :: rest => by
    rw [ReprEnts, reprEnts_iff_forall rest]
    simp

/-- the page of a represented non-nil node, uniformly for leaves and inner nodes -/
theorem repr_pageOf {cfg : Cfg} {d : Words} (n : Node) (hn : n ≠ .null) (hr : TreeFlat.Repr cfg d n) :
    ∃ leaf kv, PageOf cfg d n.pid leaf kv ∧ kv.length = n.len ∧ RV.Tree.maxKey kv = n.maxKey := by
  cases n with
  | null => exact absurd rfl hn
  | leaf q es => exact ⟨true, es, repr_leaf hr, rfl, rfl⟩
  | inner q es =>
    refine ⟨false, entWords es, (repr_inner hr).1, entWords_length es, ?_⟩
    rw [entWords_eq_mapV, maxKey_mapV]; rfl

theorem newNode_which (cfg : Cfg) (a : Alloc) :
    (RV.Tree.newNode cfg a).1 ∈ a.free ∨ (RV.Tree.newNode cfg a).1 = a.nextPage := by
  unfold RV.Tree.newNode
  dsimp only
  split
  · rename_i h
    left
    cases hf : a.free with
    | nil =>
      unfold Alloc.freeHead at h
      rw [hf] at h
      exact absurd h (by decide)
    | cons f rest => simp [Alloc.freeHead, hf]
  · right; rfl

theorem splitNode_alloc (cfg : Cfg) (c : Node) (a : Alloc) (hc : c ≠ .null) :
    (splitNode cfg c a).2.2 = (RV.Tree.newNode cfg a).2 ∧ (splitNode cfg c a).2.1.pid = (RV.Tree.newNode cfg a).1 ∧
      (splitNode cfg c a).1.pid = c.pid ∧ (splitNode cfg c a).1 ≠ .null ∧ (splitNode cfg c a).2.1 ≠ .null := by
  cases c with
  | null => exact absurd rfl hc
  | leaf q es => simp [splitNode, Node.pid]
  | inner q es => simp [splitNode, Node.pid]

theorem pidsEnts_take_sub (es : List (Key × Node)) (n : Nat) : ∀ x ∈ pidsEnts (es.take n), x ∈ pidsEnts es := by
  intro x hx
  have : pidsEnts es = pidsEnts (es.take n) ++ pidsEnts (es.drop n) := by
    rw [← pidsEnts_append, List.take_append_drop]
  rw [this]; simp [hx]

theorem pidsEnts_drop_sub (es : List (Key × Node)) (n : Nat) : ∀ x ∈ pidsEnts (es.drop n), x ∈ pidsEnts es := by
  intro x hx
  have : pidsEnts es = pidsEnts (es.take n) ++ pidsEnts (es.drop n) := by
    rw [← pidsEnts_append, List.take_append_drop]
  rw [this]; simp [hx]

theorem pids_split_sub (cfg : Cfg) (c : Node) (a : Alloc) :
    (∀ x ∈ pids (splitNode cfg c a).1, x ∈ pids c) ∧
    (∀ x ∈ pids (splitNode cfg c a).2.1, x = (RV.Tree.newNode cfg a).1 ∨ x ∈ pids c) := by
  cases c with
  | null => simp [splitNode, pids]
  | leaf q es => simp [splitNode, pids]
  | inner q es =>
    simp only [splitNode, pids, List.mem_cons]
    constructor
    · intro x hx
      rcases hx with h | h
      · exact Or.inl h
      · right
        unfold splitLeft at h
        exact pidsEnts_take_sub _ _ x (pidsEnts_take_sub _ _ x h)
    · intro x hx
      rcases hx with h | h
      · exact Or.inl h
      · right; right
        unfold splitRight at h
        exact pidsEnts_drop_sub _ _ x (pidsEnts_take_sub _ _ x h)

/-- writing a page that is not free keeps the allocator correspondence -/
theorem AllocInv.setPage {cfg : Cfg} {t : St} {a : Alloc} (h : AllocInv cfg t a) (p : Nat) (pg : Words)
    (hpf : p ∉ a.free) (hfit : (p + 1) * pw cfg ≤ t.data.size) (hsz : pg.size = pw cfg) :
    AllocInv cfg { t with data := setPage cfg t.data p pg } a := by
  refine ⟨⟨h.scal.nextPage, h.scal.freePage, h.scal.leafKeys, h.scal.pagesFree, ?_, h.scal.curSz, h.scal.bufOffset,
      h.scal.fault⟩, ?_, h.nodup, h.below, h.npos, ?_⟩
  · simp only [setPage_size]; exact h.scal.dataLen
  · simp only []
    exact freeChain_frame (by rw [setPage_size]; exact Nat.le_refl _) _
      (fun q hq hfq => pageOf_setPage_ne _ _ _ _ (fun e => hpf (e ▸ hq)) hfit hfq hsz) h.chain
  · simp only [setPage_size]; exact h.small

/-- one `n.set(c.maxKey(), c.pageID())` of the parent: the page follows the structural `nodeSet` -/
theorem parent_set_page {cfg : Cfg} (hc : CfgFlat cfg) (P : Words) (es es' : List (Key × Node)) (ad : Nat)
    (x : Node) (hok : PageOk cfg.maxKeys P) (hents : ents cfg.maxKeys P = entWords es)
    (hk0 : x.maxKey ≠ 0#64) (hset : nodeSet cfg.maxKeys es x.maxKey x = some (es', ad)) :
    ∃ P', Gen.Node.set P (w cfg.maxKeys) x.maxKey (w x.pid) = some (P', w ad) ∧ P'.size = P.size ∧
      PageOk cfg.maxKeys P' ∧ ents cfg.maxKeys P' = entWords es' ∧ pidW cfg.maxKeys P' = pidW cfg.maxKeys P ∧
      kindBits cfg.maxKeys P' = kindBits cfg.maxKeys P ∧ leafBit cfg.maxKeys P' = leafBit cfg.maxKeys P := by
  have hmk := hc.mkLt
  have hset' : nodeSet cfg.maxKeys (ents cfg.maxKeys P) x.maxKey (w x.pid) = some (entWords es', ad) := by
    rw [hents, entWords_eq_mapV, show w x.pid = childWord x from rfl, nodeSet_mapV, hset, entWords_eq_mapV]
    rfl
  obtain ⟨P', h1, h2, h3, _, _, h6, h7, h8, _⟩ := set_some hok hmk x.maxKey (w x.pid) (entWords es') ad hset'
  exact ⟨P', h1, h2, set_pageOk hok hmk _ _ hk0 _ _ hset' P' _ h1, h3, h6, h7, h8⟩

/-! ## the split phase -/

theorem setSplit_false (ps mk : BitVec 64) (t : St) (n c : NodeRef) (pid idx : BitVec 64) :
    setSplit ps mk t n c pid idx false = some (t, n, c) := by
  unfold setSplit; simp

/-- The split phase on a full child: `esL` are the parent's entries with the child `L = (splitNode …).1`
(it keeps the child's page) at index `i`; `es2`, `es3` what the structural model's two `nodeSet` calls
produce.  Afterwards the parent page holds `entWords es3`, both halves are represented, the allocator
corresponds; three pages changed (parent, child, new sibling). -/
theorem setSplit_refines {cfg : Cfg} (hc : CfgFlat cfg) (hmk2 : 2 ≤ cfg.maxKeys) (t : St) (a : Alloc)
    (hinv : AllocInv cfg t a) (hb1 : (a.nextPage + 1) * pw cfg < 2 ^ 40)
    (p : Nat) (c1 : Node) (hc0 : c1 ≠ .null) (hrc : TreeFlat.Repr cfg t.data c1) (hfull : c1.len = cfg.maxKeys)
    (hlive : Live a c1) (hpc : p ∉ pids c1) (hpfree : p ∉ a.free) (hplt : p < a.nextPage)
    (esL es2 es3 : List (Key × Node)) (i : Nat) (ki : Key) (ad1 ad2 : Nat)
    (hi : esL[i]? = some (ki, (splitNode cfg c1 a).1))
    (hpg : PageOf cfg t.data p false (entWords esL))
    (hk1 : (splitNode cfg c1 a).1.maxKey ≠ 0#64) (hk2 : (splitNode cfg c1 a).2.1.maxKey ≠ 0#64)
    (q1 : nodeSet cfg.maxKeys esL (splitNode cfg c1 a).1.maxKey (splitNode cfg c1 a).1 = some (es2, ad1))
    (q2 : nodeSet cfg.maxKeys es2 (splitNode cfg c1 a).2.1.maxKey (splitNode cfg c1 a).2.1 = some (es3, ad2))
    (nref : NodeRef) :
    ∃ t' cref, setSplit (w cfg.pageSize) (w cfg.maxKeys) t nref (refOf cfg t c1.pid) (w p) (w i) true =
        some (t', refOf cfg t' p, cref) ∧
      PageOf cfg t'.data p false (entWords es3) ∧
      TreeFlat.Repr cfg t'.data (splitNode cfg c1 a).1 ∧ TreeFlat.Repr cfg t'.data (splitNode cfg c1 a).2.1 ∧
      AllocInv cfg t' (splitNode cfg c1 a).2.2 ∧ t.data.size ≤ t'.data.size ∧
      (∀ r, r ≠ p → r ≠ c1.pid → r ≠ (RV.Tree.newNode cfg a).1 → (r + 1) * pw cfg ≤ t.data.size →
        pageOf cfg t'.data r = pageOf cfg t.data r) := by
  have hmk := hc.mkLt
  have hpw := hc.pw_lt
  obtain ⟨hA, hRp, hLp, hL0, hR0⟩ := splitNode_alloc cfg c1 a hc0
  -- the child's page before the split
  obtain ⟨lf, kv, hcpg, _, _⟩ := repr_pageOf c1 hc0 hrc
  have hcs := hcpg.ok.1
  unfold setSplit
  simp only [if_true]
  rw [rdNode_refOf t c1.pid hcpg.fit, pageID_w hcs (by omega), hcpg.pid]
  simp only [Option.bind_some]
  -- split
  obtain ⟨t5, hsp, hrL, hrR, hs5, hch5, hgrow5, hsm5, hfr5⟩ :=
    splitNode_refines hc hmk2 t a hinv.scal hinv.chain hinv.nodup hinv.below hinv.npos hb1 hinv.small c1 hc0 hrc hfull
      hlive.nodup hlive.live
  rw [hsp]
  simp only [Option.bind_some]
  generalize hLdef : (splitNode cfg c1 a).1 = L at *
  generalize hRdef : (splitNode cfg c1 a).2.1 = R at *
  generalize hadef : (splitNode cfg c1 a).2.2 = a2 at *
  have hmono : a.nextPage ≤ (RV.Tree.newNode cfg a).2.nextPage := (newNode_cons cfg a).np
  have hinv5 : AllocInv cfg t5 a2 := by
    rw [hA] at hs5 hch5 ⊢
    exact hinv.ofNewNode hs5 hch5 hmono hsm5
  -- the new page is neither the parent nor of the child
  have hnew : R.pid ≠ p ∧ R.pid ∉ pids c1 := by
    rw [hRp]
    rcases newNode_which cfg a with h | h
    · exact ⟨fun e => hpfree (e ▸ h), fun hm => (hlive.live _ hm).1 h⟩
    · rw [h]; exact ⟨by omega, fun hm => by have := (hlive.live _ hm).2; omega⟩
  have hcpid : c1.pid ∈ pids c1 := by
    cases c1 with
    | null => exact absurd rfl hc0
    | leaf q es => simp [pids, Node.pid]
    | inner q es => simp [pids, Node.pid]
  have hpne : p ≠ c1.pid := fun e => hpc (e ▸ hcpid)
  -- the parent page is untouched by the split
  have hP5 : pageOf cfg t5.data p = pageOf cfg t.data p := hfr5 p (Ne.symm hnew.1) hpne hpg.fit
  have hpg5 : PageOf cfg t5.data p false (entWords esL) := pageOf_frame hgrow5 hP5 hpg
  rw [node_w hc t5 p hpg5.pos hpg5.fit hsm5]
  simp only [Option.bind_some]
  -- the child pointer
  have hnk : nkeys cfg.maxKeys (pageOf cfg t5.data p) = esL.length := by
    rw [← ents_length, hpg5.ents, entWords_length]
  have hilt : i < esL.length := by
    rcases Nat.lt_or_ge i esL.length with h | h
    · exact h
    · rw [List.getElem?_eq_none h] at hi; cases hi
  have hle : esL.length ≤ cfg.maxKeys := by rw [← hnk]; exact hpg5.ok.2.1
  have hPs := hpg5.ok.1
  have hval : Gen.Node.uint64 (pageOf cfg t5.data p) (Gen.Tree.valOffset (w i)) = some (w L.pid) := by
    rw [valOffset_w, uint64_w (by omega) (by omega)]
    have h2 := ents_get? (mk := cfg.maxKeys) (p := pageOf cfg t5.data p) i
    rw [hpg5.ents, entWords_get?, hi, hnk, if_pos hilt] at h2
    simp only [Option.map_some, Option.some.injEq, Prod.mk.injEq] at h2
    exact congrArg some h2.2.symm
  rw [rdNode_refOf t5 p hpg5.fit, hval]
  simp only [Option.bind_some]
  -- the left half
  obtain ⟨lfL, kvL, hLpg, _, hLmax⟩ := repr_pageOf L hL0 hrL
  have hLs := hLpg.ok.1
  rw [node_w hc t5 L.pid hLpg.pos hLpg.fit hsm5]
  simp only [Option.bind_some]
  have hLz : nkeys cfg.maxKeys (pageOf cfg t5.data L.pid) = 0 → 1 ≤ cfg.maxKeys ∧ keyW (pageOf cfg t5.data L.pid) 0 = 0#64 :=
    fun h0 => ⟨by omega, (hLpg.ok.2.2.2.2 0 (by omega) (by omega)).1⟩
  rw [rdNode_refOf t5 L.pid hLpg.fit, maxKey_w hLpg.ok.1 (by omega) hLpg.ok.2.1 hLz, hLpg.ents, hLmax]
  simp only [Option.bind_some]
  rw [rdNode_refOf t5 L.pid hLpg.fit, pageID_w hLpg.ok.1 (by omega), hLpg.pid]
  simp only [Option.bind_some]
  -- first n.set
  obtain ⟨P1, hP1, hP1s, hP1ok, hP1e, hP1p, hP1k, hP1l⟩ :=
    parent_set_page hc (pageOf cfg t5.data p) esL es2 ad1 L hpg5.ok hpg5.ents hk1 q1
  have hP1sz : P1.size = pw cfg := by rw [hP1s, pageOf_size _ _ hpg5.fit]
  simp only [refOf]
  rw [wrNodeR_win (cfg := cfg) t5 p t5.epoch rfl hpg5.fit _ P1 (w ad1) hP1 hP1sz]
  simp only [Option.bind_some]
  -- the right half, read in the new state
  obtain ⟨lfR, kvR, hRpg, _, hRmax⟩ := repr_pageOf R hR0 hrR
  have hRs := hRpg.ok.1
  have hfitp6 : (p + 1) * pw cfg ≤ (setPage cfg t5.data p P1).size := by rw [setPage_size]; exact hpg5.fit
  have hfitR6 : (R.pid + 1) * pw cfg ≤ (setPage cfg t5.data p P1).size := by rw [setPage_size]; exact hRpg.fit
  have hR6 : pageOf cfg (setPage cfg t5.data p P1) R.pid = pageOf cfg t5.data R.pid :=
    pageOf_setPage_ne _ _ _ _ hnew.1 hpg5.fit hRpg.fit hP1sz
  have hRz : nkeys cfg.maxKeys (pageOf cfg t5.data R.pid) = 0 → 1 ≤ cfg.maxKeys ∧ keyW (pageOf cfg t5.data R.pid) 0 = 0#64 :=
    fun h0 => ⟨by omega, (hRpg.ok.2.2.2.2 0 (by omega) (by omega)).1⟩
  rw [rdNode_win (cfg := cfg) { t5 with data := setPage cfg t5.data p P1 } R.pid t5.epoch rfl hfitR6]
  simp only []
  rw [hR6, maxKey_w hRpg.ok.1 (by omega) hRpg.ok.2.1 hRz, hRpg.ents, hRmax]
  simp only [Option.bind_some]
  rw [rdNode_win (cfg := cfg) { t5 with data := setPage cfg t5.data p P1 } R.pid t5.epoch rfl hfitR6]
  simp only []
  rw [hR6, pageID_w hRpg.ok.1 (by omega), hRpg.pid]
  simp only [Option.bind_some]
  -- second n.set
  have hP6 : pageOf cfg (setPage cfg t5.data p P1) p = P1 := pageOf_setPage_self _ _ _ hpg5.fit hP1sz
  obtain ⟨P2, hP2, hP2s, hP2ok, hP2e, hP2p, hP2k, hP2l⟩ :=
    parent_set_page hc P1 es2 es3 ad2 R hP1ok hP1e hk2 q2
  have hP2sz : P2.size = pw cfg := by rw [hP2s]; exact hP1sz
  rw [wrNodeR_win (cfg := cfg) { t5 with data := setPage cfg t5.data p P1 } p t5.epoch rfl hfitp6 _ P2 (w ad2)
    (by simp only []; rw [hP6]; exact hP2) hP2sz]
  simp only [Option.bind_some, setPage_setPage _ _ _ _ hpg5.fit hP1sz hP2sz]
  -- the result
  have hpL : p ∉ pids L := fun h => hpc ((pids_split_sub cfg c1 a).1 p (by rw [hLdef]; exact h))
  have hpR : p ∉ pids R := fun h => by
    rcases (pids_split_sub cfg c1 a).2 p (by rw [hRdef]; exact h) with e | e
    · exact hnew.1 (by rw [hRp]; exact e.symm)
    · exact hpc e
  have hpf2 : p ∉ a2.free := by
    rw [hA]
    rcases newNode_free cfg a with e | e
    · rw [e]; exact hpfree
    · rw [e]; exact fun h => hpfree (List.mem_of_mem_tail h)
  refine ⟨{ t5 with data := setPage cfg t5.data p P2 }, _, rfl, ?_, ?_, ?_, ?_, ?_, ?_⟩
  · simp only []
    refine ⟨hpg5.pos, by rw [setPage_size]; exact hpg5.fit, ?_, ?_, ?_, ?_, ?_⟩
    · rw [pageOf_setPage_self _ _ _ hpg5.fit hP2sz]; exact hP2ok
    · rw [pageOf_setPage_self _ _ _ hpg5.fit hP2sz, hP2l, hP1l]; exact hpg5.isLeaf
    · rw [pageOf_setPage_self _ _ _ hpg5.fit hP2sz, hP2k, hP1k]; exact hpg5.kind
    · rw [pageOf_setPage_self _ _ _ hpg5.fit hP2sz, hP2p, hP1p]; exact hpg5.pid
    · rw [pageOf_setPage_self _ _ _ hpg5.fit hP2sz]; exact hP2e
  · exact repr_setPage p P2 hpg5.fit hP2sz L hpL hrL
  · exact repr_setPage p P2 hpg5.fit hP2sz R hpR hrR
  · exact hinv5.setPage p P2 hpf2 hpg5.fit hP2sz
  · simp only [setPage_size]; exact hgrow5
  · intro r hrp hrc' hrn hfr
    simp only []
    rw [pageOf_setPage_ne _ _ _ _ hrp hpg5.fit (by omega) hP2sz]
    exact hfr5 r (by rw [hRp]; exact hrn) hrc' hfr

end RV.TreeFlat
