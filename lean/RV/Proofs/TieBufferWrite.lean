import RV.Proofs.TieBufferGrow
/-!
The writing methods: `Allocate`, `AllocateOffset`, `Write`, `writeLen`, `SliceAllocate`,
`WriteSlice`, `Reset` — generated function vs model function.

`Allocate`, `AllocateOffset` and `SliceAllocate` hand out a region that the caller fills; the
model's operation carries the bytes.  `fill g dst p` is the caller's `copy(dst, p)`.
-/
namespace RV.TieBuffer
open Gen.Buf Gen.BufferM RV.Buffer Gen.Buffer

/-- the caller's `copy(dst, p)` into a region handed out by the buffer -/
def fill (g : Buffer) (dst : Win) (p : Array (BitVec 8)) : Buffer :=
  { g with buf := (copy g.buf dst p (Win.full p.size)).1 }

theorem copy_exact (buf : Array (BitVec 8)) (off : Nat) (p : Array (BitVec 8)) :
    copy buf ⟨off, off + p.size⟩ p (Win.full p.size) = (blit buf off p, BitVec.ofNat 64 p.size) := by
  unfold copy Win.full
  simp only [Nat.add_sub_cancel_left, Nat.sub_zero, Nat.min_self, Nat.zero_add]
  congr 2
  exact Array.extract_size

theorem take_blit_append (buf : Array (BitVec 8)) (off : Nat) (p : Array (BitVec 8)) (h : off + p.size ≤ buf.size) :
    (blit buf off p).toList.take (off + p.size) = buf.toList.take off ++ p.toList := by
  rw [blit_toList _ _ _ h]
  rw [List.take_append_of_le_length (by simp; omega)]
  rw [List.take_of_length_le (by simp; omega)]

/-- a word sum that does not overflow -/
theorem add_w_toNat (x : BitVec 64) (n : Nat) (h : x.toNat + n < 2 ^ 64) : (x + w n).toNat = x.toNat + n := by
  rw [BitVec.toNat_add, toNat_w n (by omega)]; omega

/-- The state after `b.offset += n` on a buffer with room, once the caller has stored `p` in
`b.buf[off : off+n]`: the model's `{ b with offset := off + n, data := data ++ p }`. -/
theorem appended (g : Buffer) (h : GWF g) (p : Array (BitVec 8)) (hfit : g.offset.toNat + p.size ≤ g.curSz.toNat) :
    abs { g with offset := g.offset + w p.size, buf := blit g.buf g.offset.toNat p } =
      { abs g with offset := (abs g).offset + p.size, data := (abs g).data ++ p.toList } ∧
    GWF { g with offset := g.offset + w p.size, buf := blit g.buf g.offset.toNat p } := by
  have hw := h.wf
  have hc := hw.curSmall; rw [abs_curSz] at hc
  have hs := h.size
  have hoff : (g.offset + w p.size).toNat = g.offset.toNat + p.size := add_w_toNat _ _ (by omega)
  have hd : (blit g.buf g.offset.toNat p).toList.take (g.offset.toNat + p.size) = (abs g).data ++ p.toList := by
    rw [abs_data]; exact take_blit_append _ _ _ (by omega)
  have e : abs { g with offset := g.offset + w p.size, buf := blit g.buf g.offset.toNat p } =
      { abs g with offset := (abs g).offset + p.size, data := (abs g).data ++ p.toList } := by
    simp only [abs, hoff, hd]
  refine ⟨e, ⟨h.nonnil, by simp only [blit_size]; exact hs, h.ty, ?_⟩⟩
  rw [e]
  refine ⟨?_, ?_, ?_, hw.curSmall, hw.maxSmall, hw.autoSmall⟩
  · simp only [List.length_append, hw.len, Array.length_toList]
  · simp only; have := hw.pad; omega
  · simp only [abs_offset, abs_curSz]; omega

/-! ## Allocate -/

theorem slice_region (g : Buffer) (h : GWF g) (n : Nat) (hfit : g.offset.toNat + n ≤ g.curSz.toNat) :
    Gen.Buf.slice g.buf.size (Win.full g.buf.size) g.offset (g.offset + w n) =
      some ⟨g.offset.toNat, g.offset.toNat + n⟩ := by
  have hc := h.wf.curSmall; rw [abs_curSz] at hc
  have hoff : (g.offset + w n).toNat = g.offset.toNat + n := add_w_toNat _ _ (by omega)
  have := slice_full g.buf.size g.offset (g.offset + w n) (by omega) (by rw [h.size]; omega) (by omega)
  rw [this, hoff]

theorem allocate_agree (os : OS) (hos : os.Ok) (g : Buffer) (h : GWF g) (p : Array (BitVec 8))
    (hr : (abs g).curSz + (abs g).curSz + p.size + p.size < 2 ^ 62) :
    Agree (fun (r : Buffer × Win) (m : Buf × Nat) =>
        r.2 = ⟨m.2, m.2 + p.size⟩ ∧ m.2 + p.size ≤ r.1.buf.size ∧ abs (fill r.1 r.2 p) = m.1 ∧ GWF (fill r.1 r.2 p))
      (Allocate os g (w p.size)) (allocate (abs g) p.toList) := by
  unfold Allocate allocate
  rcases grow_elim os hos g h p.size hr with ⟨hg, hm, _⟩ | ⟨g', hg, hm, hg', gk⟩
  · simp only [Array.length_toList, hg, hm, Option.bind_none]; exact agree_err _
  · have hfit := gk.fits
    rw [abs_offset, abs_curSz] at hfit
    have ho : g'.offset = g.offset := by
      have := gk.offset; rw [abs_offset, abs_offset] at this; exact BitVec.eq_of_toNat_eq this
    rw [← ho] at hfit
    have hsl := slice_region g' hg' p.size hfit
    simp only [Array.length_toList, hg, hm, Option.bind_some, hsl]
    have hfit' : (abs g').offset + p.size ≤ (abs g').curSz := hfit
    rw [if_pos hfit']
    obtain ⟨e, wf⟩ := appended g' hg' p hfit
    refine agree_ok ⟨rfl, ?_, ?_, ?_⟩
    · simp only [abs_offset]; rw [hg'.size]; exact hfit
    · simp only [fill, copy_exact]; exact e
    · simp only [fill, copy_exact]; exact wf

/-! ## AllocateOffset -/

theorem allocateOffset_agree (os : OS) (hos : os.Ok) (g : Buffer) (h : GWF g) (p : Array (BitVec 8))
    (hr : (abs g).curSz + (abs g).curSz + p.size + p.size < 2 ^ 62) :
    Agree (fun (r : Buffer × BitVec 64) (m : Buf × Nat) =>
        r.2 = w m.2 ∧ abs (fill r.1 ⟨m.2, m.2 + p.size⟩ p) = m.1 ∧ GWF (fill r.1 ⟨m.2, m.2 + p.size⟩ p))
      (AllocateOffset os g (w p.size)) (allocateOffset (abs g) p.toList) := by
  unfold AllocateOffset allocateOffset
  rcases grow_elim os hos g h p.size hr with ⟨hg, hm, _⟩ | ⟨g', hg, hm, hg', gk⟩
  · simp only [Array.length_toList, hg, hm, Option.bind_none]; exact agree_err _
  · have hfit := gk.fits
    rw [abs_offset, abs_curSz] at hfit
    have ho : g'.offset = g.offset := by
      have := gk.offset; rw [abs_offset, abs_offset] at this; exact BitVec.eq_of_toNat_eq this
    rw [← ho] at hfit
    have hc := hg'.wf.curSmall; rw [abs_curSz] at hc
    simp only [Array.length_toList, hg, hm, Option.bind_some]
    have hfit' : (abs g').offset + p.size ≤ (abs g').curSz := hfit
    rw [if_pos hfit']
    obtain ⟨e, wf⟩ := appended g' hg' p hfit
    have hres : (allocOffsetResult (w ((abs g').offset + p.size)) (w p.size)).toNat = g'.offset.toNat := by
      rw [k_allocOffsetResult _ _ (by omega) (by rw [abs_offset]; omega), abs_offset]; omega
    have hres2 : g'.offset + w p.size - w p.size = w g'.offset.toNat := by
      rw [BitVec.add_sub_cancel, w_toNat_self]
    refine agree_ok ⟨?_, ?_, ?_⟩
    · simp only [hres, hres2]
    · simp only [hres, fill, copy_exact]; exact e
    · simp only [hres, fill, copy_exact]; exact wf

/-! ## Write -/

theorem guard_self (x : BitVec 64) : Gen.Buf.guard (x == x) = some () := by
  unfold Gen.Buf.guard; simp

theorem copy_tail (buf : Array (BitVec 8)) (off : Nat) (p : Array (BitVec 8)) (h : off + p.size ≤ buf.size) :
    copy buf ⟨off, buf.size⟩ p (Win.full p.size) = (blit buf off p, BitVec.ofNat 64 p.size) := by
  unfold copy Win.full
  simp only [Nat.sub_zero, Nat.zero_add]
  rw [Nat.min_eq_right (by omega)]
  congr 2
  exact Array.extract_size

theorem len_full (n : Nat) : Win.len (Win.full n) = w n := by
  unfold Win.len Win.full w; simp

theorem write_agree (os : OS) (hos : os.Ok) (g : Buffer) (h : GWF g) (p : Array (BitVec 8))
    (hr : (abs g).curSz + (abs g).curSz + p.size + p.size < 2 ^ 62) :
    Agree (fun (r : Buffer × BitVec 64 × Err) (m : Buf × Nat) =>
        abs r.1 = m.1 ∧ GWF r.1 ∧ r.2.1 = w m.2 ∧ r.2.2 = Err.nil)
      (Write os g p (Win.full p.size)) (write (abs g) p.toList) := by
  unfold Write write
  simp only [len_full]
  rcases grow_elim os hos g h p.size hr with ⟨hg, hm, _⟩ | ⟨g', hg, hm, hg', gk⟩
  · simp only [Array.length_toList, hg, hm, Option.bind_none]; exact agree_err _
  · have hfit := gk.fits
    rw [abs_offset, abs_curSz] at hfit
    have ho : g'.offset = g.offset := by
      have := gk.offset; rw [abs_offset, abs_offset] at this; exact BitVec.eq_of_toNat_eq this
    rw [← ho] at hfit
    have hc := hg'.wf.curSmall; rw [abs_curSz] at hc
    have hsz : (BitVec.ofNat 64 g'.buf.size).toNat = g'.buf.size := by
      rw [BitVec.toNat_ofNat]; rw [hg'.size]; omega
    have hsl : Gen.Buf.slice g'.buf.size (Win.full g'.buf.size) g'.offset (BitVec.ofNat 64 g'.buf.size) =
        some ⟨g'.offset.toNat, g'.buf.size⟩ := by
      have := slice_full g'.buf.size g'.offset (BitVec.ofNat 64 g'.buf.size) (by rw [hsz, hg'.size]; omega)
        (by rw [hsz]; omega) (by rw [hsz, hg'.size]; omega)
      rw [this, hsz]
    simp only [Array.length_toList, hg, hm, Option.bind_some, hsl,
      copy_tail g'.buf g'.offset.toNat p (by rw [hg'.size]; exact hfit)]
    have hfit' : (abs g').offset + p.size ≤ (abs g').curSz := hfit
    rw [if_pos hfit']
    simp only [lit_w, guard_self, Option.bind_some]
    obtain ⟨e, wf⟩ := appended g' hg' p hfit
    exact agree_ok ⟨e, wf, rfl, rfl⟩

/-! ## writeLen -/

theorem be64_toList (v : BitVec 64) : (Gen.Buf.be64 v).toList = RV.Buffer.be64 v := rfl

theorem be64_size (v : BitVec 64) : (Gen.Buf.be64 v).size = 8 := rfl

theorem writeLen_agree (os : OS) (hos : os.Ok) (g : Buffer) (h : GWF g) (sz : Nat)
    (hr : (abs g).curSz + (abs g).curSz + 8 + 8 < 2 ^ 62) :
    Agree (fun g' m => abs g' = m ∧ GWF g') (writeLen os g (w sz)) (RV.Buffer.writeLen (abs g) sz) := by
  unfold Gen.BufferM.writeLen RV.Buffer.writeLen
  simp only [lenPrefix_eq]
  have ha := allocate_agree os hos g h (Gen.Buf.be64 (w sz)) (by rw [be64_size]; exact hr)
  rw [be64_toList, be64_size] at ha
  have e8 : w 8 = 8#64 := rfl
  rw [e8] at ha
  cases hg : Allocate os g 8#64 with
  | none =>
    rw [hg] at ha
    cases hm : allocate (abs g) (RV.Buffer.be64 (w sz)) with
    | error f => simp only [Option.bind_none]; exact agree_err _
    | ok r => rw [hm] at ha; exact absurd ha id
  | some r =>
    rw [hg] at ha
    cases hm : allocate (abs g) (RV.Buffer.be64 (w sz)) with
    | error f => rw [hm] at ha; exact absurd ha id
    | ok m =>
      rw [hm] at ha
      obtain ⟨e1, e2, e3, e4⟩ := ha
      obtain ⟨g1, win⟩ := r
      obtain ⟨m1, off⟩ := m
      simp only at e1 e2 e3 e4
      subst e1
      have hput : putU64be g1.buf ⟨off, off + 8⟩ (w sz) = some (blit g1.buf off (Gen.Buf.be64 (w sz))) := by
        unfold putU64be
        rw [if_pos (show (⟨off, off + 8⟩ : Win).lo + 8 ≤ (⟨off, off + 8⟩ : Win).hi ∧
          (⟨off, off + 8⟩ : Win).hi ≤ g1.buf.size from ⟨Nat.le_refl _, e2⟩)]
      simp only [Option.bind_some, hput]
      have hf : fill g1 ⟨off, off + 8⟩ (Gen.Buf.be64 (w sz)) = { g1 with buf := blit g1.buf off (Gen.Buf.be64 (w sz)) } := by
        unfold fill
        have : copy g1.buf ⟨off, off + 8⟩ (Gen.Buf.be64 (w sz)) (Win.full (Gen.Buf.be64 (w sz)).size) =
            (blit g1.buf off (Gen.Buf.be64 (w sz)), BitVec.ofNat 64 (Gen.Buf.be64 (w sz)).size) :=
          copy_exact g1.buf off (Gen.Buf.be64 (w sz))
        rw [this]
      rw [hf] at e3 e4
      exact agree_ok ⟨e3, e4⟩

/-! ## SliceAllocate, WriteSlice -/

theorem sliceAllocate_agree (os : OS) (hos : os.Ok) (g : Buffer) (h : GWF g) (p : Array (BitVec 8))
    (hr : Room (abs g) (8 + p.size)) :
    Agree (fun (r : Buffer × Win) (m : Buf × Nat) =>
        r.2 = ⟨m.2, m.2 + p.size⟩ ∧ m.2 + p.size ≤ r.1.buf.size ∧ abs (fill r.1 r.2 p) = m.1 ∧ GWF (fill r.1 r.2 p))
      (SliceAllocate os g (w p.size)) (sliceAllocate (abs g) p.toList) := by
  unfold Room at hr
  unfold SliceAllocate sliceAllocate
  have e8 : 8#64 + w p.size = w (8 + p.size) := by rw [lit_w, w_add]
  rw [Array.length_toList, k_sliceAllocGrow _ (by omega), e8]
  rcases grow_elim os hos g h (8 + p.size) (by omega) with ⟨hg, hm, _⟩ | ⟨g1, hg, hm, hg1, gk⟩
  · simp only [hg, hm, Option.bind_none]; exact agree_err _
  · simp only [hg, hm, Option.bind_some]
    have hb1 := gk.bound
    have ha2 := writeLen_agree os hos g1 hg1 p.size (by omega)
    cases hg2 : Gen.BufferM.writeLen os g1 (w p.size) with
    | none =>
      rw [hg2] at ha2
      cases hm2 : RV.Buffer.writeLen (abs g1) p.size with
      | error f => simp only [Option.bind_none]; exact agree_err _
      | ok r => rw [hm2] at ha2; exact absurd ha2 id
    | some g2 =>
      rw [hg2] at ha2
      cases hm2 : RV.Buffer.writeLen (abs g1) p.size with
      | error f => rw [hm2] at ha2; exact absurd ha2 id
      | ok m2 =>
        rw [hm2] at ha2
        obtain ⟨e2, hg2'⟩ := ha2
        subst e2
        -- the capacity after the prefix (from the model's specification of `allocate`)
        have hb2 : (abs g2).curSz ≤ (abs g1).curSz + (abs g1).curSz + 8 := by
          unfold RV.Buffer.writeLen at hm2
          simp only [lenPrefix_eq] at hm2
          rcases allocate_spec (abs g1) (RV.Buffer.be64 (w p.size)) hg1.wf (by rw [be64_length]; omega) with
            ⟨he, _⟩ | ⟨b', he, _, hb⟩
          · rw [he] at hm2; exact absurd hm2 (by simp)
          · rw [he] at hm2
            simp only [Except.ok.injEq] at hm2
            rw [← hm2]; rw [be64_length] at hb; exact hb
        simp only [Option.bind_some]
        have ha3 := allocate_agree os hos g2 hg2' p (by omega)
        cases hg3 : Allocate os g2 (w p.size) with
        | none =>
          rw [hg3] at ha3
          cases hm3 : allocate (abs g2) p.toList with
          | error f => simp only [Option.bind_none]; exact agree_err _
          | ok r => rw [hm3] at ha3; exact absurd ha3 id
        | some r =>
          rw [hg3] at ha3
          cases hm3 : allocate (abs g2) p.toList with
          | error f => rw [hm3] at ha3; exact absurd ha3 id
          | ok m =>
            rw [hm3] at ha3
            obtain ⟨g3, win⟩ := r
            simp only [Option.bind_some]
            exact agree_ok ha3

theorem writeSlice_agree (os : OS) (hos : os.Ok) (g : Buffer) (h : GWF g) (p : Array (BitVec 8))
    (hr : Room (abs g) (8 + p.size)) :
    Agree (fun g' m => abs g' = m ∧ GWF g') (WriteSlice os g p (Win.full p.size)) (writeSlice (abs g) p.toList) := by
  unfold WriteSlice writeSlice
  simp only [len_full]
  have ha := sliceAllocate_agree os hos g h p hr
  cases hg : SliceAllocate os g (w p.size) with
  | none =>
    rw [hg] at ha
    cases hm : sliceAllocate (abs g) p.toList with
    | error f => simp only [Option.bind_none]; exact agree_err _
    | ok r => rw [hm] at ha; exact absurd ha id
  | some r =>
    rw [hg] at ha
    cases hm : sliceAllocate (abs g) p.toList with
    | error f => rw [hm] at ha; exact absurd ha id
    | ok m =>
      rw [hm] at ha
      obtain ⟨e1, e2, e3, e4⟩ := ha
      obtain ⟨g1, win⟩ := r
      obtain ⟨m1, off⟩ := m
      simp only at e1 e2 e3 e4
      subst e1
      simp only [Option.bind_some, copy_exact, lit_w, guard_self]
      unfold fill at e3 e4
      rw [copy_exact] at e3 e4
      exact agree_ok ⟨e3, e4⟩

/-! ## Reset -/

theorem reset_agree (g : Buffer) (h : GWF g) :
    ∃ g', Reset g = some g' ∧ abs g' = reset (abs g) ∧ GWF g' := by
  have hw := h.wf
  have hp := hw.pad; rw [abs_padding, abs_offset] at hp
  refine ⟨{ g with offset := g.padding }, rfl, ?_, ⟨h.nonnil, h.size, h.ty, ?_⟩⟩
  · simp only [abs, reset, List.take_take, Nat.min_eq_left hp]
  · have e : abs { g with offset := g.padding } = reset (abs g) := by
      simp only [abs, reset, List.take_take, Nat.min_eq_left hp]
    rw [e]
    refine ⟨?_, Nat.le_refl _, ?_, hw.curSmall, hw.maxSmall, hw.autoSmall⟩
    · simp only [reset, List.length_take, hw.len]; exact Nat.min_eq_left hw.pad
    · simp only [reset]; have := hw.cap; have := hw.pad; omega

end RV.TieBuffer
