import RV.Model.Buffer
/-!
Normal forms of the generated `Gen.Buffer` kernels on words that come from
naturals below `2^62` (Go `int`s that do not overflow): every kernel is the
expected comparison / arithmetic on `Nat`.  If buffer.go changes an operator or a
constant, these lemmas (and everything built on them) stop checking.
-/
namespace RV.Buffer
open Gen.Buffer

theorem toNat_w (a : Nat) (h : a < 2 ^ 64) : (w a).toNat = a := by
  unfold w; simp only [BitVec.toNat_ofNat]; omega

theorem toInt_w (a : Nat) (h : a < 2 ^ 63) : (w a).toInt = a := by
  rw [BitVec.toInt_eq_toNat_of_lt, toNat_w a (by omega)]
  rw [toNat_w a (by omega)]; omega

theorem slt_w (a b : Nat) (ha : a < 2 ^ 63) (hb : b < 2 ^ 63) :
    BitVec.slt (w a) (w b) = decide (a < b) := by
  rw [BitVec.slt_eq_decide, toInt_w a ha, toInt_w b hb]; simp

theorem sle_w (a b : Nat) (ha : a < 2 ^ 63) (hb : b < 2 ^ 63) :
    BitVec.sle (w a) (w b) = decide (a ≤ b) := by
  rw [BitVec.sle_eq_decide, toInt_w a ha, toInt_w b hb]; simp

theorem w_add (a b : Nat) : w a + w b = w (a + b) := by
  unfold w; rw [BitVec.ofNat_add]

theorem w_sub (a b : Nat) (h : b ≤ a) : w a - w b = w (a - b) := by
  unfold w
  apply BitVec.eq_of_toNat_eq
  simp only [BitVec.toNat_sub, BitVec.toNat_ofNat]
  omega

theorem w_inj (a b : Nat) (ha : a < 2 ^ 64) (hb : b < 2 ^ 64) : (w a = w b) ↔ a = b := by
  constructor
  · intro h
    have := congrArg BitVec.toNat h
    rwa [toNat_w a ha, toNat_w b hb] at this
  · intro h; rw [h]

theorem w_beq (a b : Nat) (ha : a < 2 ^ 64) (hb : b < 2 ^ 64) : (w a == w b) = decide (a = b) := by
  by_cases h : a = b
  · simp [h]
  · simp [h, w_inj a b ha hb]

theorem lit_w (n : Nat) : BitVec.ofNat 64 n = w n := rfl

theorem srem_w (a : Nat) (ha : a < 2 ^ 63) : BitVec.srem (w a) 1024#64 = w (a % 1024) := by
  apply BitVec.eq_of_toInt_eq
  rw [BitVec.toInt_srem, toInt_w a ha, toInt_w _ (by omega)]
  have : (1024#64).toInt = 1024 := by decide
  rw [this, Int.tmod_eq_emod_of_nonneg (by omega)]
  omega

theorem sdiv2_w (a : Nat) (ha : a < 2 ^ 63) : BitVec.sdiv (w a) 2#64 = w (a / 2) := by
  apply BitVec.eq_of_toInt_eq
  rw [BitVec.toInt_sdiv, toInt_w a ha, toInt_w _ (by omega)]
  have : (2#64).toInt = 2 := by decide
  rw [this]
  have h2 : (a : Int).tdiv 2 = ((a / 2 : Nat) : Int) := by
    rw [Int.tdiv_eq_ediv_of_nonneg (by omega)]; omega
  rw [h2]
  apply Int.bmod_eq_of_le <;> omega

/-- `-1` as a word is negative. -/
theorem toInt_minusOne : (BitVec.ofInt 64 (-1)).toInt = -1 := by decide

/-! ### kernels -/

theorem k_newCapSmall (c : Nat) (h : c < 2 ^ 63) : newCapSmall (w c) = decide (c < 64) := by
  unfold newCapSmall; rw [lit_w, slt_w c 64 h (by omega)]

theorem k_newFileCapSmall (c : Nat) (h : c < 2 ^ 63) : newFileCapSmall (w c) = decide (c < 64) := by
  unfold newFileCapSmall; rw [lit_w, slt_w c 64 h (by omega)]

theorem k_defaultCapacity : defaultCapacity.toNat = 64 := by decide

theorem k_isEmpty (o p : Nat) (ho : o < 2 ^ 64) (hp : p < 2 ^ 64) : isEmpty (w o) (w p) = decide (o = p) := by
  unfold isEmpty; exact w_beq o p ho hp

theorem k_growExceedsMax (m o n : Nat) (hm : m < 2 ^ 63) (hon : o + n < 2 ^ 63) :
    growExceedsMax (w m) (w o) (w n) = decide (0 < m ∧ m < o + n) := by
  unfold growExceedsMax
  rw [lit_w, w_add, slt_w 0 m (by omega) hm, slt_w m (o + n) hm hon]
  simp

theorem k_growFits (o n c : Nat) (hc : c < 2 ^ 63) (hon : o + n < 2 ^ 63) :
    growFits (w o) (w n) (w c) = decide (o + n < c) := by
  unfold growFits; rw [w_add, slt_w (o + n) c hon hc]

/-- the new capacity as a natural number -/
def growSizeNat (c n : Nat) : Nat :=
  let g1 := if 2 ^ 30 < c + n then 2 ^ 30 else c + n
  c + (if g1 < n then n else g1)

theorem k_growSize (c n : Nat) (h : c + c + n + n < 2 ^ 63) : growSize c n = growSizeNat c n := by
  unfold growSize growSizeNat growByInit growByTooBig growByCap growByTooSmall
  simp only [lit_w, w_add]
  rw [slt_w 1073741824 (c + n) (by omega) (by omega)]
  have e30 : (2 : Nat) ^ 30 = 1073741824 := by decide
  rw [e30]
  by_cases h1 : 1073741824 < c + n
  · simp only [h1, decide_true, if_true]
    rw [slt_w 1073741824 n (by omega) (by omega)]
    by_cases h2 : 1073741824 < n
    · simp only [h2, decide_true, if_true, w_add]
      rw [toNat_w _ (by omega)]
    · simp only [h2, decide_false, w_add, Bool.false_eq_true, if_false]
      rw [toNat_w _ (by omega)]
  · simp only [h1, decide_false, Bool.false_eq_true, if_false]
    rw [slt_w (c + n) n (by omega) (by omega)]
    have h2 : ¬ c + n < n := by omega
    simp only [h2, decide_false, w_add, Bool.false_eq_true, if_false]
    rw [toNat_w _ (by omega)]

theorem growSizeNat_ge (c n : Nat) : c + n ≤ growSizeNat c n := by
  unfold growSizeNat; simp only; split <;> split <;> omega

theorem growSizeNat_le (c n : Nat) : growSizeNat c n ≤ c + c + n := by
  unfold growSizeNat; simp only; split <;> split <;> omega

theorem k_growAutoMmap (a c : Nat) (ha : a < 2 ^ 63) (hc : c < 2 ^ 63) :
    growAutoMmap (w a) (w c) = decide (0 < a ∧ a < c) := by
  unfold growAutoMmap
  rw [lit_w, slt_w 0 a (by omega) ha, slt_w a c ha hc]; simp

theorem k_allocOffsetResult (o n : Nat) (h : n ≤ o) (ho : o < 2 ^ 64) :
    (allocOffsetResult (w o) (w n)).toNat = o - n := by
  unfold allocOffsetResult; rw [w_sub o n h, toNat_w _ (by omega)]

theorem k_sliceAllocGrow (n : Nat) (h : n + 8 < 2 ^ 64) : (sliceAllocGrow (w n)).toNat = 8 + n := by
  unfold sliceAllocGrow; rw [lit_w, w_add, toNat_w _ (by omega)]

theorem k_sliceAtEnd (off o : Nat) (h1 : off < 2 ^ 63) (h2 : o < 2 ^ 63) :
    sliceAtEnd (w off) (w o) = decide (o ≤ off) := by
  unfold sliceAtEnd; rw [sle_w o off h2 h1]

theorem k_sliceStart (off : Nat) : sliceStart (w off) = w (off + 8) := by
  unfold sliceStart; rw [lit_w, w_add]

theorem k_sliceNext (s sz : Nat) : sliceNext (w s) (w sz) = w (s + sz) := by
  unfold sliceNext; rw [w_add]

theorem k_sliceIsLast (nx o : Nat) (h1 : nx < 2 ^ 63) (h2 : o < 2 ^ 63) :
    sliceIsLast (w nx) (w o) = decide (o ≤ nx) := by
  unfold sliceIsLast; rw [sle_w o nx h2 h1]

theorem k_rawSliceLen (sz : Nat) (h : sz + 8 < 2 ^ 64) : (rawSliceLen (w sz)).toNat = 8 + sz := by
  unfold rawSliceLen; rw [lit_w, w_add, toNat_w _ (by omega)]

theorem k_iterCond_none : iterCond (nextWord none) = false := by decide
theorem k_offsetsCond_none : offsetsCond (nextWord none) = false := by decide

theorem k_iterCond_some (n : Nat) (h : n < 2 ^ 63) : iterCond (nextWord (some n)) = true := by
  unfold iterCond nextWord; rw [lit_w, sle_w 0 n (by omega) h]; simp

theorem k_offsetsCond_some (n : Nat) (h : n < 2 ^ 63) : offsetsCond (nextWord (some n)) = true := by
  unfold offsetsCond nextWord; rw [lit_w, sle_w 0 n (by omega) h]; simp

theorem k_sortWalkCond_none (e : BitVec 64) : sortWalkCond (nextWord none) e = false := by
  unfold sortWalkCond nextWord
  rw [BitVec.sle_eq_decide, toInt_minusOne]; simp

theorem k_sortSmallWalkCond_none (e : BitVec 64) : sortSmallWalkCond (nextWord none) e = false := by
  unfold sortSmallWalkCond nextWord
  rw [BitVec.sle_eq_decide, toInt_minusOne]; simp

theorem k_sortWalkCond_some (n e : Nat) (hn : n < 2 ^ 63) (he : e < 2 ^ 63) :
    sortWalkCond (nextWord (some n)) (w e) = decide (n < e) := by
  unfold sortWalkCond nextWord
  rw [lit_w, sle_w 0 n (by omega) hn, slt_w n e hn he]; simp

theorem k_sortSmallWalkCond_some (n e : Nat) (hn : n < 2 ^ 63) (he : e < 2 ^ 63) :
    sortSmallWalkCond (nextWord (some n)) (w e) = decide (n < e) := by
  unfold sortSmallWalkCond nextWord
  rw [lit_w, sle_w 0 n (by omega) hn, slt_w n e hn he]; simp

theorem k_sortChunkStart (c : Nat) (h : c < 2 ^ 63) : sortChunkStart (w c) = decide (c % 1024 = 0) := by
  unfold sortChunkStart
  rw [srem_w c h, lit_w, w_beq _ _ (by omega) (by omega)]

theorem k_sortEmptyRange (s e : Nat) (hs : s < 2 ^ 63) (he : e < 2 ^ 63) :
    sortEmptyRange (w s) (w e) = decide (e ≤ s) := by
  unfold sortEmptyRange; rw [sle_w e s he hs]

theorem k_sortStartZero (s : Nat) (hs : s < 2 ^ 64) : sortStartZero (w s) = decide (s = 0) := by
  unfold sortStartZero; rw [lit_w, w_beq _ _ hs (by omega)]

theorem k_sortSmallLen (e s n : Nat) (h : s ≤ e) (he : e < 2 ^ 64) (hn : n < 2 ^ 64) :
    (sortSmallLen (w e) (w s) == w n) = decide (e - s = n) := by
  unfold sortSmallLen; rw [w_sub e s h, w_beq _ _ (by omega) hn]

theorem k_sortMid (lo hi : Nat) (h : lo ≤ hi) (hh : hi < 2 ^ 62) :
    (sortMid (w lo) (w hi)).toNat = lo + (hi - lo) / 2 := by
  unfold sortMid
  rw [w_sub hi lo h, sdiv2_w _ (by omega), w_add, toNat_w _ (by omega)]

theorem k_sortLeaf (a b : Nat) (ha : a < 2 ^ 64) (hb : b < 2 ^ 64) : sortLeaf (w a) (w b) = decide (a = b) := by
  unfold sortLeaf; exact w_beq a b ha hb

theorem k_sortAssert (lo hi : Nat) (h1 : lo < 2 ^ 63) (h2 : hi < 2 ^ 63) :
    sortAssert (w lo) (w hi) = decide (lo ≤ hi) := by
  unfold sortAssert; rw [sle_w lo hi h1 h2]

theorem k_mergeLoopCond (s e : Nat) (h1 : s < 2 ^ 63) (h2 : e < 2 ^ 63) :
    mergeLoopCond (w s) (w e) = decide (s < e) := by
  unfold mergeLoopCond; rw [slt_w s e h1 h2]

theorem k_writeLenValue (v : BitVec 64) : writeLenValue v = v := rfl
theorem k_writeLenWidth : writeLenWidth.toNat = 8 := by decide
theorem k_writeLenBigEndian : writeLenBigEndian = true := rfl
theorem k_sliceBigEndian : sliceBigEndian = true := rfl
theorem k_rawSliceBigEndian : rawSliceBigEndian = true := rfl

end RV.Buffer
