import RV.Proofs.CacheConserveAdd
import RV.Proofs.CacheConserveRet
/-!
# Conservation of values in every reachable state of a collision-free run (C04, "at least once")

`conserved_reach`: for every state reachable by a run whose log is `CollisionFree` and every `v ≠ 0`
that some logged `Set` call supplied: `v` was passed to `OnExit`, or its `Set` returned false, or `v`
is `Held` (store entry / buffered new item / applier-local / client-local).  No freshness needed.
`accepted_exited_or_held`: under `Fresh`, a value whose `Set` returned true was passed to `OnExit`
or is `Held`.  `quiescent_not_held`: in a state with empty store and buffer, an applier holding
nothing and every client idle nothing is held — so every accepted value has been passed to `OnExit`.
-/
namespace RV.Cache
open RV Gen.Cache

theorem cv_storeSet_absent (cfg : Cfg) (st : Store) (em : Em) (i : Item) (h : st.lookup i.key = none) :
    (storeSet cfg st em i).1 = st.insert i.key ⟨i.conflict, i.value, i.exp⟩ := by
  unfold storeSet; rw [h]

/-- the side condition of `conserved_step` about `store.Set`, for a concrete step -/
theorem step_added {cfg : Cfg} {s s' : State} {a : Action} (hh : Handshake s) (hs : step cfg s a = some s')
    {i : Item} {vs : List (Hash × Int)} (happ : s.app = .added i vs true) (hnone : s.store.lookup i.key = none) :
    s'.app = s.app ∨ s'.store = s.store.insert i.key ⟨i.conflict, i.value, i.exp⟩ := by
  cases a with
  | spawn t c =>
    have hs' : spawnStep s t c = some s' := hs
    exact Or.inl (spawnStep_app _ _ _ hs')
  | client t ch =>
    have hs' : clientStep cfg s t ch = some s' := hs
    rcases cv_clientStep_app hh hs' with h1 | ⟨h1, _⟩
    · exact Or.inl h1
    · rw [happ] at h1; cases h1
  | applier ch =>
    have hs' : applierStep cfg s ch = some s' := hs
    unfold applierStep at hs'
    rw [happ] at hs'
    obtain ⟨_, hr⟩ := needNone_some hs'
    simp only [Option.some.injEq] at hr; subst hr
    right
    unfold apAdded
    simp only [if_true, metAdd_store]
    exact cv_storeSet_absent cfg s.store s.em i hnone
  | done t =>
    have hs' : doneStep s t = some s' := hs
    obtain ⟨h1, _⟩ := doneStep_cases hs'
    rw [happ] at h1; cases h1
  | tick d =>
    simp only [step, Option.some.injEq] at hs; subst hs
    exact Or.inl rfl

theorem conserved_init (cfg : Cfg) (now : Time) (v : Val) : Conserved v (init cfg now).view := by
  intro ⟨t, h, c, cost, ttl, hm⟩; cases hm

theorem conserved_reachC {conf : Hash → Conf} {cfg : Cfg} {s : State} (h : ReachC cfg conf s) {v : Val}
    (hv : v ≠ 0) : Conserved v s.view := by
  induction h with
  | init now => exact conserved_init cfg now v
  | @step s0 s1 a hr _ hs ih =>
    have hh := handshake_reach hr.reach
    have haf := addedFresh_reachC hr
    refine conserved_step (astep_of_step hs) hv ?_ ?_ ?_ ih
    · intro t closing hpc
      have hpc' : s0.cl t = .clrRestart closing := hpc
      have : s0.app = .dead := hh.busy t (by rw [hpc']; rfl)
      show holdA s0.app = 0
      rw [this]; rfl
    · intro t hpc
      have hpc' : s0.cl t = .clsFinish := hpc
      have : s0.app = .dead := hh.busy t (by rw [hpc']; rfl)
      show holdA s0.app = 0
      rw [this]; rfl
    · intro i vs happ
      exact ⟨haf i vs happ, step_added hh hs happ (haf i vs happ)⟩

/-- **Conservation.**  In every state reachable by a collision-free run, a non-zero value that a logged
`Set` call supplied was passed to `OnExit`, or its `Set` returned false, or it is held somewhere. -/
theorem conserved_reach {cfg : Cfg} {s : State} (h : Reach cfg s) (hcf : CollisionFree s.log) {v : Val}
    (hv : v ≠ 0) (htr : Tracked s.log v) : Exited s.log v ∨ Refused s.log v ∨ Held s v := by
  obtain ⟨now, acts, hr⟩ := h
  exact conserved_reachC (reachC_of_collisionFree hr hcf) hv htr

theorem accepted_tracked {cfg : Cfg} {s : State} (h : Reach cfg s) {v : Val} (hv : v ≠ 0)
    (ha : Accepted s.log v) : Tracked s.log v := by
  obtain ⟨t, hm⟩ := ha
  obtain ⟨t', h', c, cost, ttl, hm'⟩ := mem_setVals.mp (setRet_src (prov_reach h).log hv hm)
  exact ⟨t', h', c, cost, ttl, hm'⟩

/-- under `Fresh`, a value whose `Set` returned true was passed to `OnExit` or is held -/
theorem accepted_exited_or_held {cfg : Cfg} {s : State} (h : Reach cfg s) (hf : Fresh s.log)
    (hcf : CollisionFree s.log) {v : Val} (hv : v ≠ 0) (ha : Accepted s.log v) : Exited s.log v ∨ Held s v := by
  rcases conserved_reach h hcf hv (accepted_tracked h hv ha) with h1 | ⟨t', h1⟩ | h1
  · exact Or.inl h1
  · obtain ⟨t, ha⟩ := ha
    exact (accepted_not_refused h hv hf ha h1).elim
  · exact Or.inr h1

/-- nothing is held when the store, the buffer and the queue of blocked senders are empty, the applier
holds nothing and every client is idle -/
theorem quiescent_not_held {s : State} (hst : s.store = AMap.empty) (hbuf : s.buf = []) (hsq : s.sendq = [])
    (happ : holdA s.app = 0) (hidle : ∀ t, s.cl t = .idle) {v : Val} (hv : v ≠ 0) : ¬ Held s v := by
  intro hh
  rcases hh with ⟨h, e, hl, _⟩ | ⟨x, hx, _⟩ | ⟨p, hp, _⟩ | ha | ⟨t, ht⟩
  · have hl' : s.store.lookup h = some e := hl
    rw [hst] at hl'; simp at hl'
  · have hx' : x ∈ s.buf := hx
    rw [hbuf] at hx'; cases hx'
  · have hp' : p ∈ s.sendq := hp
    rw [hsq] at hp'; cases hp'
  · have ha' : holdA s.app = v := ha
    rw [happ] at ha'; exact hv ha'.symm
  · have ht' : holdC (s.cl t) = v := ht
    rw [hidle t] at ht'; exact hv ht'.symm

end RV.Cache
