import RV.Proofs.TieTreeGet
import RV.Proofs.TreeInv
/-!
# The tree on flat memory: writing one page, framing

`setPage`: the data with one page replaced; `wrNode` / `wrNodeR` on the window of a page are
`setPage`; every other page reads as before (`pageOf_setPage_ne`); a structural node none of whose
pages is touched stays represented (`repr_frame`).
-/
namespace RV.TreeFlat
open RV.Tree RV.NodeFlat Gen.TreeM

/-- the data with page `p` replaced by `pg` -/
def setPage (cfg : Cfg) (d : Words) (p : Nat) (pg : Words) : Words := blitAt d (p * pw cfg) pg

theorem setPage_size (cfg : Cfg) (d : Words) (p : Nat) (pg : Words) : (setPage cfg d p pg).size = d.size :=
  blitAt_size _ _ _

theorem succ_mul_pw (cfg : Cfg) (p : Nat) : (p + 1) * pw cfg = p * pw cfg + pw cfg := by
  rw [Nat.add_mul]; omega

theorem pageOf_setPage_self {cfg : Cfg} (d : Words) (p : Nat) (pg : Words) (hfit : (p + 1) * pw cfg ≤ d.size)
    (hsz : pg.size = pw cfg) : pageOf cfg (setPage cfg d p pg) p = pg := by
  have e := succ_mul_pw cfg p
  apply words_ext
  · rw [pageOf_size _ _ (by rw [setPage_size]; exact hfit), hsz]
  · intro i hi
    rw [pageOf_size _ _ (by rw [setPage_size]; exact hfit)] at hi
    rw [pageOf_get _ _ _ (by rw [setPage_size]; exact hfit) hi]
    unfold setPage
    rw [blitAt_get _ _ _ _ (by omega), if_pos (by omega)]
    congr 1; omega

theorem pageOf_setPage_ne {cfg : Cfg} (d : Words) (p q : Nat) (pg : Words) (hq : q ≠ p)
    (hfitp : (p + 1) * pw cfg ≤ d.size) (hfitq : (q + 1) * pw cfg ≤ d.size) (hsz : pg.size = pw cfg) :
    pageOf cfg (setPage cfg d p pg) q = pageOf cfg d q := by
  have ep := succ_mul_pw cfg p
  have eq := succ_mul_pw cfg q
  apply words_ext
  · rw [pageOf_size _ _ (by rw [setPage_size]; exact hfitq), pageOf_size _ _ hfitq]
  · intro i hi
    rw [pageOf_size _ _ (by rw [setPage_size]; exact hfitq)] at hi
    rw [pageOf_get _ _ _ (by rw [setPage_size]; exact hfitq) hi, pageOf_get _ _ _ hfitq hi]
    unfold setPage
    rw [blitAt_get _ _ _ _ (by omega), if_neg]
    rcases Nat.lt_or_gt_of_ne hq with h | h
    · have : (q + 1) * pw cfg ≤ p * pw cfg := Nat.mul_le_mul_right _ h
      omega
    · have : (p + 1) * pw cfg ≤ q * pw cfg := Nat.mul_le_mul_right _ h
      omega

theorem setPage_setPage {cfg : Cfg} (d : Words) (p : Nat) (a b : Words) (hfit : (p + 1) * pw cfg ≤ d.size)
    (ha : a.size = pw cfg) (hb : b.size = pw cfg) : setPage cfg (setPage cfg d p a) p b = setPage cfg d p b := by
  have e := succ_mul_pw cfg p
  apply words_ext
  · simp only [setPage_size]
  · intro i _
    unfold setPage
    have hL : (blitAt (blitAt d (p * pw cfg) a) (p * pw cfg) b)[i]! =
        if p * pw cfg ≤ i ∧ i < p * pw cfg + b.size then b[i - p * pw cfg]! else (blitAt d (p * pw cfg) a)[i]! :=
      blitAt_get _ _ _ _ (by rw [blitAt_size]; omega)
    have hR := blitAt_get d (p * pw cfg) b i (by omega)
    have hA := blitAt_get d (p * pw cfg) a i (by omega)
    rw [hL, hR, hA]
    by_cases h : p * pw cfg ≤ i ∧ i < p * pw cfg + b.size
    · rw [if_pos h, if_pos h]
    · rw [if_neg h, if_neg h, if_neg (by omega)]

theorem putBack_win {cfg : Cfg} (t : St) (p ep : Nat) (pg : Words) (hsz : pg.size = pw cfg) :
    putBack t (.win (p * pw cfg) (pw cfg) ep) pg = some { t with data := setPage cfg t.data p pg } := by
  unfold putBack
  simp only [hsz, if_true]; rfl

/-- a writing kernel on the window of page `p`: the page is replaced -/
theorem wrNode_win {cfg : Cfg} (t : St) (p ep : Nat) (he : ep = t.epoch) (hfit : (p + 1) * pw cfg ≤ t.data.size)
    (f : Words → Option Words) (pg : Words) (hf : f (pageOf cfg t.data p) = some pg) (hsz : pg.size = pw cfg) :
    wrNode t (.win (p * pw cfg) (pw cfg) ep) f = some { t with data := setPage cfg t.data p pg } := by
  unfold wrNode
  rw [view_win t p ep he hfit]
  simp only [Option.bind_some, hf]
  exact putBack_win t p ep pg hsz

theorem wrNode_refOf {cfg : Cfg} (t : St) (p : Nat) (hfit : (p + 1) * pw cfg ≤ t.data.size)
    (f : Words → Option Words) (pg : Words) (hf : f (pageOf cfg t.data p) = some pg) (hsz : pg.size = pw cfg) :
    wrNode t (refOf cfg t p) f = some { t with data := setPage cfg t.data p pg } :=
  wrNode_win t p _ rfl hfit f pg hf hsz

theorem wrNodeR_win {cfg : Cfg} {α : Type} (t : St) (p ep : Nat) (he : ep = t.epoch)
    (hfit : (p + 1) * pw cfg ≤ t.data.size)
    (f : Words → Option (Words × α)) (pg : Words) (r : α) (hf : f (pageOf cfg t.data p) = some (pg, r))
    (hsz : pg.size = pw cfg) :
    wrNodeR t (.win (p * pw cfg) (pw cfg) ep) f = some ({ t with data := setPage cfg t.data p pg }, r) := by
  unfold wrNodeR
  rw [view_win t p ep he hfit]
  simp only [Option.bind_some, hf]
  rw [putBack_win t p ep pg hsz]; rfl

/-! ## framing -/

theorem pageOf_frame {cfg : Cfg} {d d' : Words} (hsz : d.size ≤ d'.size) {p : Nat} {leaf : Bool}
    {kv : List (Key × Val)} (e : pageOf cfg d' p = pageOf cfg d p) (hp : PageOf cfg d p leaf kv) :
    PageOf cfg d' p leaf kv := by
  have := hp.fit
  exact ⟨hp.pos, by omega, e ▸ hp.ok, e ▸ hp.isLeaf, e ▸ hp.kind, e ▸ hp.pid, e ▸ hp.ents⟩

mutual
/-- A node stays represented when none of its pages changes (and the data does not shrink). -/
theorem repr_frame {cfg : Cfg} {d d' : Words} (hsz : d.size ≤ d'.size) : ∀ (n : Node),
    (∀ q ∈ pids n, (q + 1) * pw cfg ≤ d.size → pageOf cfg d' q = pageOf cfg d q) →
    TreeFlat.Repr cfg d n → TreeFlat.Repr cfg d' n
  | .null, _, _ => by rw [TreeFlat.Repr]; trivial
  | .leaf p es, hf, hr => by
    have hp := repr_leaf hr
    have e := hf p (by simp [pids]) hp.fit
    rw [TreeFlat.Repr]
    exact pageOf_frame hsz e hp
  | .inner p es, hf, hr => by
    obtain ⟨hp, hre⟩ := repr_inner hr
    have e := hf p (by simp [pids]) hp.fit
    rw [TreeFlat.Repr]
    exact ⟨pageOf_frame hsz e hp, reprEnts_frame hsz es (fun q hq => hf q (by simp [pids, hq])) hre⟩
theorem reprEnts_frame {cfg : Cfg} {d d' : Words} (hsz : d.size ≤ d'.size) : ∀ (es : List (Key × Node)),
    (∀ q ∈ pidsEnts es, (q + 1) * pw cfg ≤ d.size → pageOf cfg d' q = pageOf cfg d q) →
    ReprEnts cfg d es → ReprEnts cfg d' es
  | [], _, _ => by rw [ReprEnts]; trivial
  | (_, c) :: rest, hf, hr => by
    rw [ReprEnts] at hr ⊢
    exact ⟨repr_frame hsz c (fun q hq => hf q (by simp [pidsEnts, hq])) hr.1,
      reprEnts_frame hsz rest (fun q hq => hf q (by simp [pidsEnts, hq])) hr.2⟩
end

mutual
/-- every page of a represented node lies inside the data -/
theorem repr_fits {cfg : Cfg} {d : Words} : ∀ (n : Node), TreeFlat.Repr cfg d n →
    ∀ q ∈ pids n, 0 < q ∧ (q + 1) * pw cfg ≤ d.size
  | .null, _, q, hq => by simp [pids] at hq
  | .leaf p es, hr, q, hq => by
    have hp := repr_leaf hr
    simp only [pids, List.mem_singleton] at hq; subst hq; exact ⟨hp.pos, hp.fit⟩
  | .inner p es, hr, q, hq => by
    obtain ⟨hp, hre⟩ := repr_inner hr
    simp only [pids, List.mem_cons] at hq
    rcases hq with h | h
    · subst h; exact ⟨hp.pos, hp.fit⟩
    · exact reprEnts_fits es hre q h
theorem reprEnts_fits {cfg : Cfg} {d : Words} : ∀ (es : List (Key × Node)), ReprEnts cfg d es →
    ∀ q ∈ pidsEnts es, 0 < q ∧ (q + 1) * pw cfg ≤ d.size
  | [], _, q, hq => by simp [pidsEnts] at hq
  | (_, c) :: rest, hr, q, hq => by
    rw [ReprEnts] at hr
    simp only [pidsEnts, List.mem_append] at hq
    rcases hq with h | h
    · exact repr_fits c hr.1 q h
    · exact reprEnts_fits rest hr.2 q h
end

/-- writing page `p` keeps every node represented that does not own `p` -/
theorem repr_setPage {cfg : Cfg} {d : Words} (p : Nat) (pg : Words) (hfit : (p + 1) * pw cfg ≤ d.size)
    (hsz : pg.size = pw cfg) (n : Node) (hn : p ∉ pids n) (hr : TreeFlat.Repr cfg d n) :
    TreeFlat.Repr cfg (setPage cfg d p pg) n :=
  repr_frame (by rw [setPage_size]; exact Nat.le_refl _) n
    (fun q hq hfq => pageOf_setPage_ne d p q pg (fun e => hn (e ▸ hq)) hfit hfq hsz) hr

end RV.TreeFlat
