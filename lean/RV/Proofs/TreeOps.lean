import RV.Proofs.TreeSet
/-!
# Tree-level corollaries: Get, NewTree / Reset
-/
namespace RV.Tree
open Gen.Tree

/-- `Tree.Get` on a legal key returns the value the abstraction assigns. -/
theorem get_spec {cfg : Cfg} (hc : CfgOk cfg) (t : Tree) (hinv : TreeInv cfg t) (k : Key)
    (hk : getKeyPanic k = false) : get t k = some (abs t k) := by
  have hmk := hc.lt
  unfold get abs
  simp only [hk, Bool.false_eq_true, if_false]
  exact getNode_spec cfg.maxKeys (by omega) t.root (cfg.maxKeys - 1) 0#64 absoluteMax k hinv.ok (by omega)

/-- `initRootNode`: the tree holds only the sentinel `absoluteMax ↦ 0`. -/
theorem initRoot_spec {cfg : Cfg} (hc : CfgOk cfg) (a : Alloc) (ha : a.fault = none) :
    TreeInv cfg (initRoot cfg a) ∧ toList (initRoot cfg a).root = [(absoluteMax, 0#64)] ∧
      Cons a (initRoot cfg a).a [] (pids (initRoot cfg a).root) ∧
      (initRoot cfg a).a.leafKeys = a.leafKeys + 1 ∧ countLeafKeys (initRoot cfg a).root = 1 ∧
      (initRoot cfg a).root.pid = (newNode cfg a).1 ∧ Geo cfg a (initRoot cfg a).a := by
  have hmk := hc.lt
  have hge := hc.ge4
  have hkp : setKeyPanic absoluteMax = false := by decide
  have hidx : setIdxPanic (w 0) (w cfg.maxKeys) = false := by
    unfold setIdxPanic; rw [w_sle (by omega) (by omega)]; simp; omega
  have hslot : setSlotEmpty 0#64 = true := by decide
  have hleaf : ∀ p a', leafSet cfg p [] absoluteMax 0#64 a' =
      (.leaf p [(absoluteMax, 0#64)], { a' with leafKeys := a'.leafKeys + (1 : Nat) }) := by
    intro p a'
    unfold leafSet
    rw [nodeSet_eq_ins cfg.maxKeys [] absoluteMax 0#64 0#64 trivial (by decide) (by omega) (Or.inl (by simp; omega))]
    simp [ins, hasKey]
  have hnf : ∀ (p : Nat), (Node.leaf p [(absoluteMax, 0#64)]).isFull cfg = false := by
    intro p
    rw [Node.isFull_eq cfg _ (by simp [Node.len]) (by omega)]
    simp [Node.len]; omega
  have hnf2 : ∀ (p : Nat) (c : Node), (Node.inner p [(absoluteMax, c)]).isFull cfg = false := by
    intro p c
    rw [Node.isFull_eq cfg _ (by simp [Node.len]) (by omega)]
    simp [Node.len]; omega
  unfold initRoot set
  simp only [hkp, Bool.false_eq_true, if_false]
  rw [setNode]
  simp only [search, hidx, Bool.false_eq_true, if_false]
  rw [setEnts]
  simp only [hslot, if_true, hleaf, afterChild, hnf, Bool.false_eq_true, if_false, hnf2]
  refine ⟨⟨rfl, ⟨⟨⟨⟨by decide, trivial⟩, ⟨by simp, rfl⟩, by simp; omega⟩, trivial⟩, ⟨by simp, rfl⟩, by simp; omega⟩, ?_⟩, ?_, ?_, ?_, ?_, rfl, ?_⟩
  · simp only [newNode_fault]; exact ha
  · simp [toList, toListEnts]
  · have h0 : Cons a a [] [] := Cons.same rfl rfl rfl _
    have h2 := (h0.alloc cfg).alloc cfg
    refine ⟨h2.1, fun x => ?_, h2.3⟩
    have := h2.2 x
    simp only [pids, pidsEnts, List.count_append, List.count_cons, List.count_nil] at this ⊢
    omega
  · simp only [newNode_leafKeys]; rfl
  · simp only [countLeafKeys, countLeafKeysEnts]
    rw [Node.numKeys_eq _ (by simp [Node.len])]; simp [Node.len]
  · exact ((newNode_geo cfg a).trans (newNode_geo cfg _)).trans (Geo.same rfl rfl rfl)

theorem bufAllocate_fault' (a : Alloc) (n : Nat) (h : a.fault = none) : (bufAllocate a n).fault = none := h

/-- `NewTree` / `Reset` give a well-formed empty tree. -/
theorem reset_spec {cfg : Cfg} (hc : CfgOk cfg) (curSz : Nat) :
    TreeInv cfg (reset cfg curSz) ∧ toList (reset cfg curSz).root = [(absoluteMax, 0#64)] :=
  ⟨(initRoot_spec hc _ rfl).1, (initRoot_spec hc _ rfl).2.1⟩

theorem abs_of_toList_sentinel {t : Tree} (h : toList t.root = [(absoluteMax, 0#64)]) (k : Key) : abs t k = 0#64 := by
  unfold abs; rw [h]; simp [lookupD]

end RV.Tree
