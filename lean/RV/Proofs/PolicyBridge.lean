import RV.Model.Policy
/-!
Conversion lemmas between the generated `BitVec 64` kernels of `Gen.Policy` (as wrapped in
`RV/Model/Policy.lean`) and plain `Int` arithmetic, each under the explicit hypothesis that
the operands and the mathematical result are representable as `int64` (`I64`).

A mutated operator or constant in policy.go changes the generated kernel and breaks the
corresponding lemma here.
-/
namespace RV.Policy
open Gen.Policy

theorem bmod64 {x : Int} (h : I64 x) : x.bmod (2 ^ 64) = x := by
  unfold I64 at h
  rw [Int.bmod_eq_emod]
  have : ((2 : Nat) ^ 64 : Nat) = 18446744073709551616 := by decide
  rw [this]
  split <;> omega

theorem toInt_w64 {x : Int} (h : I64 x) : (w64 x).toInt = x := by
  unfold w64
  rw [BitVec.toInt_ofInt]
  exact bmod64 h

theorem I64_zero : I64 0 := by unfold I64; omega

theorem plus64_eq {a b : Int} (ha : I64 a) (hb : I64 b) (h : I64 (a + b)) : plus64 a b = a + b := by
  unfold plus64
  rw [BitVec.toInt_add, toInt_w64 ha, toInt_w64 hb, bmod64 h]

theorem minus64_eq {a b : Int} (ha : I64 a) (hb : I64 b) (h : I64 (a - b)) : minus64 a b = a - b := by
  unfold minus64
  rw [BitVec.toInt_sub, toInt_w64 ha, toInt_w64 hb, bmod64 h]

/-- `cost > p.evict.getMaxCost()` -/
theorem tooBig_eq {cost m : Int} (hc : I64 cost) (hm : I64 m) : tooBig cost m = decide (m < cost) := by
  unfold tooBig addTooBig
  rw [BitVec.slt_eq_decide, toInt_w64 hc, toInt_w64 hm]

/-- `p.getMaxCost() - (p.used + cost)` -/
theorem roomLeft_eq {m u c : Int} (hm : I64 m) (hu : I64 u) (hc : I64 c)
    (h1 : I64 (u + c)) (h2 : I64 (m - (u + c))) : roomLeft m u c = m - (u + c) := by
  unfold roomLeft Gen.Policy.roomLeft
  rw [BitVec.toInt_sub, BitVec.toInt_add, toInt_w64 hm, toInt_w64 hu, toInt_w64 hc, bmod64 h1, bmod64 h2]

theorem w64_zero_toInt : (0#64 : BitVec 64).toInt = 0 := by decide

/-- `room >= 0` -/
theorem roomOk_eq {r : Int} (hr : I64 r) : roomOk r = decide (0 ≤ r) := by
  unfold roomOk addRoomOk
  rw [BitVec.sle_eq_decide, toInt_w64 hr, w64_zero_toInt]

/-- `room < 0` -/
theorem needRoom_eq {r : Int} (hr : I64 r) : needRoom r = decide (r < 0) := by
  unfold needRoom addNeedRoom
  rw [BitVec.slt_eq_decide, toInt_w64 hr, w64_zero_toInt]

/-- `int64(math.MaxInt64)` -/
theorem minHitsInit_eq : minHitsInit = 2 ^ 63 - 1 := by
  unfold minHitsInit addMinHitsInit; decide

/-- `hits < minHits` -/
theorem hitsLess_eq {a b : Int} (ha : I64 a) (hb : I64 b) : hitsLess a b = decide (a < b) := by
  unfold hitsLess addHitsLess
  rw [BitVec.slt_eq_decide, toInt_w64 ha, toInt_w64 hb]

/-- `incHits < minHits` -/
theorem incLess_eq {a b : Int} (ha : I64 a) (hb : I64 b) : incLess a b = decide (a < b) := by
  unfold incLess addIncLess
  rw [BitVec.slt_eq_decide, toInt_w64 ha, toInt_w64 hb]

theorem lfuSample_eq : lfuSample.toNat = 5 := by decide

theorem toInt_ofNat_small {n : Nat} (h : n < 2 ^ 63) : (BitVec.ofNat 64 n).toInt = n := by
  rw [BitVec.toInt_ofNat']
  exact bmod64 (by unfold I64; omega)

/-- `len(in) >= lfuSample` (entry test of `fillSample`) -/
theorem fullBefore_eq {n : Nat} (h : n < 2 ^ 63) : fullBefore n = decide (lfuSample.toNat ≤ n) := by
  unfold fullBefore fillFullBefore
  rw [BitVec.sle_eq_decide, toInt_ofNat_small h, lfuSample_eq]
  have : (5#64 : BitVec 64).toInt = 5 := by decide
  rw [this]
  simp only [decide_eq_decide]; omega

/-- `len(in) >= lfuSample` (test after an append in `fillSample`) -/
theorem fullAfter_eq {n : Nat} (h : n < 2 ^ 63) : fullAfter n = decide (lfuSample.toNat ≤ n) := by
  unfold fullAfter fillFullAfter
  rw [BitVec.sle_eq_decide, toInt_ofNat_small h, lfuSample_eq]
  have : (5#64 : BitVec 64).toInt = 5 := by decide
  rw [this]
  simp only [decide_eq_decide]; omega

/-- `p.evict.getMaxCost() - p.evict.used` -/
theorem capOf_eq {m u : Int} (hm : I64 m) (hu : I64 u) (h : I64 (m - u)) : capOf m u = m - u := by
  unfold capOf capExpr
  rw [BitVec.toInt_sub, toInt_w64 hm, toInt_w64 hu, bmod64 h]

/-- the `cost - prev` of `p.used += cost - prev` -/
theorem usedDelta_eq {c p : Int} (hc : I64 c) (hp : I64 p) (h : I64 (c - p)) : usedDelta c p = c - p := by
  unfold usedDelta updUsedDelta
  rw [BitVec.toInt_sub, toInt_w64 hc, toInt_w64 hp, bmod64 h]

/-- The `costAdd` metric moves by the two's-complement word of `cost - prev`
(`^(uint64(diff) - 1)` is `-diff`): adding it to a `uint64` counter is adding `cost - prev` modulo 2^64. -/
theorem updMetricDelta_eq {prev cost : Int} (hp : I64 prev) (hc : I64 cost) :
    updMetricDelta prev cost = w64 cost - w64 prev := by
  unfold updMetricDelta updLower updRaise updMetricDown updMetricUp updDiffDown updDiffUp
  rw [BitVec.slt_eq_decide, BitVec.slt_eq_decide, toInt_w64 hp, toInt_w64 hc]
  by_cases h1 : cost < prev
  · simp only [h1, decide_true, if_true]
    generalize w64 prev = a; generalize w64 cost = b
    bv_omega
  · by_cases h2 : prev < cost
    · simp only [h1, h2, decide_true, decide_false, if_true, Bool.false_eq_true, if_false]
    · have : cost = prev := by omega
      subst this
      simp only [h1, decide_false, Bool.false_eq_true, if_false]
      generalize w64 cost = b
      bv_omega

end RV.Policy
