import RV.Proofs.CacheAcctPol
/-!
# Counting invariants for C17: hits+misses, dropped Sets, kept/dropped Gets

All clauses relate metric counters to numbers of events in the ghost log.  `ClearFree log`:
no `Clear`/`Close` call was ever issued (then the cache is open, nobody runs `Clear`, and
the counters were never reset).
-/
namespace RV.Cache
open RV Gen.Cache

def Ev.isGetRet : Ev → Bool | .getRet .. => true | _ => false
def Ev.isGetCall : Ev → Bool | .getCall .. => true | _ => false
def Ev.isDrop : Ev → Bool | .drop .. => true | _ => false
def Ev.isClr : Ev → Bool | .clearCall _ => true | .closeCall _ => true | _ => false
/-- events that one of the counting clauses looks at -/
def Ev.counted (e : Ev) : Bool := e.isGetRet || e.isGetCall || e.isDrop || e.isClr

/-- no `Clear` and no `Close` was ever called -/
def ClearFree (l : List Ev) : Prop := ∀ e ∈ l, e.isClr = false

/-- every `drop t v` event is immediately followed (next newer event) by `setRet t v false` -/
def DropsOk (l : List Ev) : Prop :=
  ∀ i t v, l[i]? = some (.drop t v) → ∃ j, i = j + 1 ∧ l[j]? = some (.setRet t v false)

/-- the client runs `Clear`/`Close` -/
def CPc.isClr : CPc → Bool
  | .clrStart _ => true | .clrStop _ => true | .clrDone _ => true | .clrDrain _ => true
  | .clrPolicy _ => true | .clrShard .. => true | .clrEm _ => true | .clrMetrics _ => true
  | .clrRestart _ => true | .clsStop => true | .clsDone => true | .clsFinish => true | _ => false

/-- the client has called `Get` and not yet pushed the key into the ring buffer -/
def CPc.isGetStart : CPc → Bool | .getStart .. => true | _ => false

def CPc.cls2 (pc : CPc) : Bool × Bool := (pc.isClr, pc.isGetStart)

@[simp] theorem unblockedPc_cls2 (pc : CPc) : (unblockedPc pc).cls2 = pc.cls2 := by cases pc <;> rfl

def Met.cnt5 (m : Met) : BitVec 64 × BitVec 64 × BitVec 64 × BitVec 64 × BitVec 64 :=
  (m.hit, m.miss, m.dropSets, m.keepGets, m.dropGets)

theorem cnt5_of_cnt {m m' : Met} (h : m'.cnt = m.cnt) : m'.cnt5 = m.cnt5 := by
  simp only [Met.cnt, Prod.mk.injEq] at h
  simp only [Met.cnt5, Prod.mk.injEq]
  exact ⟨h.1, h.2.1, h.2.2.1, h.2.2.2.1, h.2.2.2.2.1⟩

structure Cnt (cfg : Cfg) (s : State) : Prop where
  noclr : ClearFree s.log → s.closed = false ∧ ∀ t, (s.cl t).isClr = false
  hm : cfg.metricsOn = true → ClearFree s.log →
    s.met.hit + s.met.miss = BitVec.ofNat 64 (s.log.countP Ev.isGetRet)
  drops : cfg.metricsOn = true → ClearFree s.log → s.met.dropSets = BitVec.ofNat 64 (s.log.countP Ev.isDrop)
  dok : DropsOk s.log
  gk : ∃ P : List Tid, P.Nodup ∧ (∀ t, t ∈ P ↔ (s.cl t).isGetStart = true) ∧
        (s.met.keepGets + s.met.dropGets).toNat + s.ringPending + P.length ≤ s.log.countP Ev.isGetCall

/-! ### the log -/

/-- the step appended only events no counting clause looks at -/
def LogQuiet (s s' : State) : Prop := ∃ evs, s'.log = evs ++ s.log ∧ ∀ e ∈ evs, e.counted = false

theorem countP_quiet {s s' : State} (h : LogQuiet s s') (f : Ev → Bool) (hf : ∀ e, f e = true → e.counted = true) :
    s'.log.countP f = s.log.countP f := by
  obtain ⟨evs, he, hq⟩ := h
  rw [he, List.countP_append]
  have : evs.countP f = 0 := by
    rw [List.countP_eq_zero]
    intro e hm hfe
    have := hq e hm
    rw [hf e hfe] at this; cases this
  omega

theorem isGetRet_counted (e : Ev) (h : e.isGetRet = true) : e.counted = true := by simp [Ev.counted, h]
theorem isGetCall_counted (e : Ev) (h : e.isGetCall = true) : e.counted = true := by simp [Ev.counted, h]
theorem isDrop_counted (e : Ev) (h : e.isDrop = true) : e.counted = true := by simp [Ev.counted, h]
theorem isClr_counted (e : Ev) (h : e.isClr = true) : e.counted = true := by simp [Ev.counted, h]

theorem clearFree_of_append {evs l : List Ev} (h : ClearFree (evs ++ l)) : ClearFree l :=
  fun e he => h e (List.mem_append_right _ he)

theorem clearFree_quiet {s s' : State} (h : LogQuiet s s') : ClearFree s'.log ↔ ClearFree s.log := by
  obtain ⟨evs, he, hq⟩ := h
  rw [he]
  refine ⟨clearFree_of_append, fun hc e hm => ?_⟩
  rcases List.mem_append.mp hm with hm | hm
  · have := hq e hm
    cases hx : e.isClr
    · rfl
    · rw [isClr_counted e hx] at this; cases this
  · exact hc e hm

theorem dropsOk_cons {l : List Ev} {e : Ev} (h : DropsOk l) (he : e.isDrop = false) : DropsOk (e :: l) := by
  intro i t v hi
  cases i with
  | zero => simp at hi; subst hi; simp [Ev.isDrop] at he
  | succ i =>
    simp only [List.getElem?_cons_succ] at hi
    obtain ⟨j, rfl, hj⟩ := h i t v hi
    exact ⟨j + 1, rfl, by simpa using hj⟩

theorem dropsOk_append {l evs : List Ev} (h : DropsOk l) (he : ∀ e ∈ evs, e.isDrop = false) : DropsOk (evs ++ l) := by
  induction evs with
  | nil => exact h
  | cons e rest ih =>
    exact dropsOk_cons (ih (fun x hx => he x (List.mem_cons_of_mem _ hx))) (he e List.mem_cons_self)

theorem dropsOk_drop {l : List Ev} (h : DropsOk l) (t : Tid) (v : Val) :
    DropsOk (.setRet t v false :: .drop t v :: l) := by
  intro i t' v' hi
  match i with
  | 0 => simp at hi
  | 1 =>
    simp at hi
    obtain ⟨rfl, rfl⟩ := hi
    exact ⟨0, rfl, rfl⟩
  | i + 2 =>
    simp only [List.getElem?_cons_succ] at hi
    obtain ⟨j, rfl, hj⟩ := h i t' v' hi
    exact ⟨j + 2, rfl, by simpa using hj⟩

theorem dropsOk_quiet {s s' : State} (h : LogQuiet s s') (hd : DropsOk s.log) : DropsOk s'.log := by
  obtain ⟨evs, he, hq⟩ := h
  rw [he]
  refine dropsOk_append hd (fun e hm => ?_)
  have := hq e hm
  cases hx : e.isDrop
  · rfl
  · rw [isDrop_counted e hx] at this; cases this

/-- close a goal `LogQuiet s s'` when `s'.log` is syntactically `s.log` with 0–2 uncounted events in front -/
macro "log_quiet" : tactic => `(tactic| first
  | exact ⟨[], rfl, fun _ h => by cases h⟩
  | exact ⟨[_], rfl, by simp [Ev.counted, Ev.isGetRet, Ev.isGetCall, Ev.isDrop, Ev.isClr]⟩
  | exact ⟨[_, _], rfl, by simp [Ev.counted, Ev.isGetRet, Ev.isGetCall, Ev.isDrop, Ev.isClr]⟩)

theorem logQuiet_of_eq {s s' : State} (h : s'.log = s.log) : LogQuiet s s' := ⟨[], by simp [h], fun _ h => by cases h⟩

theorem evictAll_quiet (s : State) (st : Store) (ks : List Hash) : LogQuiet s (evictAll s st ks) := by
  obtain ⟨evs, h1, h2⟩ := evictAll_log s st ks
  refine ⟨evs, h1, fun e he => ?_⟩
  rcases h2 e he with ⟨v, rfl⟩ | ⟨h, c, v, k, rfl⟩ <;> rfl

/-! ### frames -/

/-- frame for steps of threads that are not running `Clear`/`Close` and of the applier -/
theorem cnt_frame {cfg : Cfg} {s s' : State} (h : Cnt cfg s) (hq : LogQuiet s s') (hm : s'.met.cnt5 = s.met.cnt5)
    (hrp : s'.ringPending = s.ringPending) (hclosed : s'.closed = s.closed)
    (hcl : ∀ t, (s'.cl t).cls2 = (s.cl t).cls2) : Cnt cfg s' := by
  simp only [Met.cnt5, Prod.mk.injEq] at hm
  obtain ⟨m1, m2, m3, m4, m5⟩ := hm
  have hclr : ∀ t, (s'.cl t).isClr = (s.cl t).isClr := fun t => congrArg Prod.fst (hcl t)
  have hgs : ∀ t, (s'.cl t).isGetStart = (s.cl t).isGetStart := fun t => congrArg Prod.snd (hcl t)
  have hcf := clearFree_quiet hq
  refine ⟨?_, ?_, ?_, dropsOk_quiet hq h.dok, ?_⟩
  · intro hc
    have := h.noclr (hcf.mp hc)
    exact ⟨by rw [hclosed]; exact this.1, fun t => by rw [hclr]; exact this.2 t⟩
  · intro hon hc
    rw [m1, m2, countP_quiet hq _ isGetRet_counted]; exact h.hm hon (hcf.mp hc)
  · intro hon hc
    rw [m3, countP_quiet hq _ isDrop_counted]; exact h.drops hon (hcf.mp hc)
  · obtain ⟨P, h1, h2, h3⟩ := h.gk
    refine ⟨P, h1, fun t => by rw [hgs]; exact h2 t, ?_⟩
    rw [m4, m5, hrp, countP_quiet hq _ isGetCall_counted]; exact h3

/-- frame for steps of a thread that runs `Clear`/`Close` (the `ClearFree` clauses are void) -/
theorem cnt_frame_clr {cfg : Cfg} {s s' : State} (h : Cnt cfg s) (t : Tid) (hpc : (s.cl t).isClr = true)
    (hq : LogQuiet s s')
    (hkd : (s'.met.keepGets + s'.met.dropGets).toNat ≤ (s.met.keepGets + s.met.dropGets).toNat)
    (hrp : s'.ringPending = s.ringPending)
    (hgs : ∀ t, (s'.cl t).isGetStart = (s.cl t).isGetStart) : Cnt cfg s' := by
  have hcf := clearFree_quiet hq
  have hno : ¬ ClearFree s'.log := fun hc => by
    have := (h.noclr (hcf.mp hc)).2 t
    rw [hpc] at this; cases this
  refine ⟨fun hc => absurd hc hno, fun _ hc => absurd hc hno, fun _ hc => absurd hc hno, dropsOk_quiet hq h.dok, ?_⟩
  obtain ⟨P, h1, h2, h3⟩ := h.gk
  refine ⟨P, h1, fun t => by rw [hgs]; exact h2 t, ?_⟩
  rw [hrp, countP_quiet hq _ isGetCall_counted]; omega

theorem metAdd_eq (cfg : Cfg) (s : State) (f : Met → Met) :
    metAdd cfg s f = { s with met := if cfg.metricsOn then f s.met else s.met } := by
  unfold metAdd; split <;> simp_all

theorem toNat_add_ofNat_le (x : BitVec 64) (n : Nat) : (x + BitVec.ofNat 64 n).toNat ≤ x.toNat + n := by
  rw [BitVec.toNat_add, BitVec.toNat_ofNat]
  have h1 : (x.toNat + n % 2 ^ 64) % 2 ^ 64 ≤ x.toNat + n % 2 ^ 64 := Nat.mod_le _ _
  have h2 : n % 2 ^ 64 ≤ n := Nat.mod_le _ _
  omega

/-- the `gk` clause across the ring push of thread `t` -/
theorem gk_push {s s' : State} {t : Tid} (hpc : (s.cl t).isGetStart = true) (hpc' : (s'.cl t).isGetStart = false)
    (hne : ∀ t', t' ≠ t → s'.cl t' = s.cl t')
    (hle : (s'.met.keepGets + s'.met.dropGets).toNat + s'.ringPending ≤
      (s.met.keepGets + s.met.dropGets).toNat + s.ringPending + 1)
    (hcount : s'.log.countP Ev.isGetCall = s.log.countP Ev.isGetCall)
    (h : ∃ P : List Tid, P.Nodup ∧ (∀ t, t ∈ P ↔ (s.cl t).isGetStart = true) ∧
        (s.met.keepGets + s.met.dropGets).toNat + s.ringPending + P.length ≤ s.log.countP Ev.isGetCall) :
    ∃ P : List Tid, P.Nodup ∧ (∀ t, t ∈ P ↔ (s'.cl t).isGetStart = true) ∧
        (s'.met.keepGets + s'.met.dropGets).toNat + s'.ringPending + P.length ≤ s'.log.countP Ev.isGetCall := by
  obtain ⟨P, h1, h2, h3⟩ := h
  have hmem : t ∈ P := (h2 t).mpr hpc
  refine ⟨P.erase t, h1.erase t, ?_, ?_⟩
  · intro t'
    rw [h1.mem_erase_iff]
    by_cases e : t' = t
    · subst e; simp [hpc']
    · rw [hne t' e, ← h2 t']; simp [e]
  · have hl := List.length_erase_of_mem hmem
    have : 0 < P.length := List.length_pos_of_mem hmem
    rw [hcount, hl]; omega

open Lean in
/-- `cnt_cl stX`: a client step of a thread that is not in `Clear`/`Close`, logging only uncounted events -/
macro "cnt_cl " f:ident : tactic => do
  let n := f.getId
  let clne := mkIdent (n.appendAfter "_cl_ne")
  let met := mkIdent (n.appendAfter "_met")
  let rp := mkIdent (n.appendAfter "_ringPending")
  let closed := mkIdent (n.appendAfter "_closed")
  `(tactic| (refine cnt_frame ‹Cnt _ _› ?_ (by rw [$met:ident]) (by rw [$rp:ident]) (by rw [$closed:ident]) (cls_congr _ (fun _ hne => $clne (hne := hne) ..) ?_); all_goals (unfold $f; try unfold sendBlocking); all_goals (try dsimp only); all_goals (repeat' split); all_goals first | log_quiet | simp [*, CPc.cls2, CPc.isClr, CPc.isGetStart]))

theorem cnt_clientStep {cfg : Cfg} {s s' : State} {t : Tid} {ch : Choice}
    (h : Cnt cfg s) (hs : clientStep cfg s t ch = some s') : Cnt cfg s' := by
  apply clientStep_cases hs (motive := Cnt cfg)
  case setStart => intros; cnt_cl stSetStart
  case setUpd => intros; cnt_cl stSetUpd
  case setExit => intros; cnt_cl stSetExit
  case setSend => intros; cnt_cl stSetSend
  case setRetTrue => intros; cnt_cl stSetRetTrue
  case delStart => intros; cnt_cl stDelStart
  case delExit => intros; cnt_cl stDelExit
  case delSend => intros; cnt_cl stDelSend
  case delSent => intros; cnt_cl stDelSent
  case waitStart => intros; cnt_cl stWaitStart
  case waitSend => intros; cnt_cl stWaitSend
  case waitDone => intros; cnt_cl stWaitDone
  case getRead => intros; cnt_cl stGetRead
  case getCheck => intros; cnt_cl stGetCheck
  case ttlRead => intros; cnt_cl stTtlRead
  case ttlCheck => intros; cnt_cl stTtlCheck
  case ttlExp => intros; cnt_cl stTtlExp
  case ttlNow => intros; cnt_cl stTtlNow
  case ttlUntil => intros; cnt_cl stTtlUntil
  case iterStart => intros; cnt_cl stIterStart
  case updMax => intros; cnt_cl stUpdMax
  case readMax => intros; cnt_cl stReadMax
  case readRem => intros; cnt_cl stReadRem
  case waitRecv =>
    intro id hpc _ hr
    refine cnt_frame h (logQuiet_of_eq (stWaitRecv_log _ _ _ hr)) (by rw [stWaitRecv_met _ _ _ hr])
      (stWaitRecv_ringPending _ _ _ hr) (stWaitRecv_closed _ _ _ hr)
      (cls_congr _ (fun _ hne => stWaitRecv_cl_ne _ _ _ hr hne) ?_)
    unfold stWaitRecv at hr; split at hr
    · simp only [Option.some.injEq] at hr; subst hr; simp [hpc, CPc.cls2, CPc.isClr, CPc.isGetStart]
    · simp at hr
  case iterShard =>
    intro k n seen hpc hr
    have hne := (stIterShard_frame hr).1
    obtain ⟨ks, _, _, _, hcase⟩ := stIterShard_cases hr
    rcases hcase with ⟨_, rfl⟩ | ⟨_, rfl⟩
    · exact cnt_frame h (by log_quiet) rfl rfl rfl (cls_congr _ hne (by simp [hpc, CPc.cls2, CPc.isClr, CPc.isGetStart]))
    · exact cnt_frame h (by log_quiet) rfl rfl rfl (cls_congr _ hne (by simp [hpc, CPc.cls2, CPc.isClr, CPc.isGetStart]))
  case setRetDrop =>
    intro i hpc _
    unfold stSetRetDrop
    split
    · exact cnt_frame h (by log_quiet) rfl rfl rfl
        (cls_congr (t := t) _ (fun _ hne => setCl_cl_ne _ _ _ hne) (by simp [hpc, CPc.cls2, CPc.isClr, CPc.isGetStart]))
    · rw [metAdd_eq]
      have hcl : ∀ t', ((setCl s t .idle).cl t').cls2 = (s.cl t').cls2 :=
        cls_congr (t := t) _ (fun _ hne => setCl_cl_ne _ _ _ hne) (by simp [hpc, CPc.cls2, CPc.isClr, CPc.isGetStart])
      have hclr : ∀ t', ((setCl s t .idle).cl t').isClr = (s.cl t').isClr := fun t' => congrArg Prod.fst (hcl t')
      have hgs : ∀ t', ((setCl s t .idle).cl t').isGetStart = (s.cl t').isGetStart := fun t' => congrArg Prod.snd (hcl t')
      have hcf : ∀ {l : List Ev}, ClearFree (.setRet t i.value false :: .drop t i.value :: l) → ClearFree l :=
        fun hc => clearFree_of_append (evs := [_, _]) hc
      refine ⟨?_, ?_, ?_, dropsOk_drop h.dok t i.value, ?_⟩
      · intro hc
        have := h.noclr (hcf hc)
        exact ⟨this.1, fun t' => (hclr t').trans (this.2 t')⟩
      · intro hon hc
        have := h.hm hon (hcf hc)
        show (if cfg.metricsOn then _ else _ : Met).hit + (if cfg.metricsOn then _ else _ : Met).miss = _
        simpa [hon, Ev.isGetRet] using this
      · intro hon hc
        have := h.drops hon (hcf hc)
        show (if cfg.metricsOn then _ else _ : Met).dropSets = _
        simp only [hon, if_true]
        have hc2 : List.countP Ev.isDrop (.setRet t i.value false :: .drop t i.value :: s.log) =
            List.countP Ev.isDrop s.log + 1 := by simp [List.countP_cons, Ev.isDrop]
        show s.met.dropSets + 1 = BitVec.ofNat 64 (List.countP Ev.isDrop (.setRet t i.value false :: .drop t i.value :: s.log))
        rw [hc2, ofNat_succ64, this]
      · obtain ⟨P, h1, h2, h3⟩ := h.gk
        refine ⟨P, h1, fun t' => ?_, ?_⟩
        · show t' ∈ P ↔ ((setCl s t .idle).cl t').isGetStart = true
          rw [hgs t']; exact h2 t'
        · have hk : ∀ m' : Met, m' = (if cfg.metricsOn then { s.met with dropSets := s.met.dropSets + 1 } else s.met) →
              m'.keepGets + m'.dropGets = s.met.keepGets + s.met.dropGets := by
            intro m' e; subst e; split <;> rfl
          have e := hk _ rfl
          refine Nat.le_trans (Nat.le_of_eq ?_) (Nat.le_trans h3 ?_)
          · exact congrArg (fun x : BitVec 64 => x.toNat + s.ringPending + P.length) e
          · show List.countP Ev.isGetCall s.log ≤ List.countP Ev.isGetCall (.setRet t i.value false :: .drop t i.value :: s.log)
            simp [Ev.isGetCall]
  case getMetric =>
    intro h' c r hpc _
    have hne : ∀ t', t' ≠ t → (stGetMetric cfg s t h' c r).cl t' = s.cl t' := fun _ hne => stGetMetric_cl_ne (hne := hne) ..
    have hcl : ∀ t', ((stGetMetric cfg s t h' c r).cl t').cls2 = (s.cl t').cls2 :=
      cls_congr _ hne (by simp [stGetMetric, hpc, CPc.cls2, CPc.isClr, CPc.isGetStart])
    have hclr : ∀ t', ((stGetMetric cfg s t h' c r).cl t').isClr = (s.cl t').isClr := fun t' => congrArg Prod.fst (hcl t')
    have hgs : ∀ t', ((stGetMetric cfg s t h' c r).cl t').isGetStart = (s.cl t').isGetStart :=
      fun t' => congrArg Prod.snd (hcl t')
    have hlog : (stGetMetric cfg s t h' c r).log = .getRet t h' c r :: s.log := by simp [stGetMetric]
    have hcf : ClearFree (stGetMetric cfg s t h' c r).log → ClearFree s.log := by
      rw [hlog]; exact fun hc => clearFree_of_append (evs := [_]) hc
    have hmet : (stGetMetric cfg s t h' c r).met = if cfg.metricsOn then
        (if r.isSome then { s.met with hit := s.met.hit + 1 } else { s.met with miss := s.met.miss + 1 }) else s.met := by
      simp [stGetMetric, metAdd_met]
    have hd : (stGetMetric cfg s t h' c r).met.dropSets = s.met.dropSets := by
      rw [hmet]; split
      · split <;> rfl
      · rfl
    have hk : (stGetMetric cfg s t h' c r).met.keepGets + (stGetMetric cfg s t h' c r).met.dropGets =
        s.met.keepGets + s.met.dropGets := by
      rw [hmet]; split
      · split <;> rfl
      · rfl
    have hhm : cfg.metricsOn = true → (stGetMetric cfg s t h' c r).met.hit + (stGetMetric cfg s t h' c r).met.miss =
        s.met.hit + s.met.miss + 1 := by
      intro hon; rw [hmet]; simp only [hon, if_true]
      split
      · show s.met.hit + 1 + s.met.miss = _; grind
      · show s.met.hit + (s.met.miss + 1) = _; grind
    refine ⟨?_, ?_, ?_, ?_, ?_⟩
    · intro hc
      have := h.noclr (hcf hc)
      exact ⟨by rw [stGetMetric_closed]; exact this.1, fun t' => by rw [hclr]; exact this.2 t'⟩
    · intro hon hc
      have := h.hm hon (hcf hc)
      have hc2 : List.countP Ev.isGetRet (.getRet t h' c r :: s.log) = List.countP Ev.isGetRet s.log + 1 := by
        simp [List.countP_cons, Ev.isGetRet]
      rw [hlog, hhm hon, hc2, ofNat_succ64, this]
    · intro hon hc
      have := h.drops hon (hcf hc)
      have hc2 : List.countP Ev.isDrop (.getRet t h' c r :: s.log) = List.countP Ev.isDrop s.log := by
        simp [Ev.isDrop]
      rw [hlog, hd, hc2, this]
    · rw [hlog]; exact dropsOk_cons h.dok rfl
    · obtain ⟨P, h1, h2, h3⟩ := h.gk
      refine ⟨P, h1, fun t' => by rw [hgs]; exact h2 t', ?_⟩
      have hc2 : List.countP Ev.isGetCall (.getRet t h' c r :: s.log) = List.countP Ev.isGetCall s.log := by
        simp [Ev.isGetCall]
      rw [hlog, stGetMetric_ringPending, hk, hc2]; exact h3
  case getStart =>
    intro h' c hpc hr
    have hne := (stGetStart_frame hr).1
    have hgs0 : (s.cl t).isGetStart = true := by simp [hpc, CPc.isGetStart]
    have hclr0 : (s.cl t).isClr = false := by simp [hpc, CPc.isClr]
    rcases stGetStart_cases hr with ⟨hclosed, rfl⟩ | ⟨_, rfl⟩ | ⟨_, kept, n, hn0, hn1, rfl⟩
    · have hno : ¬ ClearFree s.log := fun hc => by have := (h.noclr hc).1; rw [hclosed] at this; cases this
      have hno' : ¬ ClearFree (logEv (setCl s t .idle) (.getRet t h' c none)).log :=
        fun hc => hno (clearFree_of_append (evs := [_]) hc)
      refine ⟨fun hc => absurd hc hno', fun _ hc => absurd hc hno', fun _ hc => absurd hc hno',
        dropsOk_cons h.dok rfl, ?_⟩
      exact gk_push hgs0 (by simp [CPc.isGetStart]) hne (by simp) (by simp [Ev.isGetCall]) h.gk
    · refine ⟨?_, h.hm, h.drops, h.dok, ?_⟩
      · intro hc
        have := h.noclr hc
        refine ⟨this.1, fun t' => ?_⟩
        by_cases e : t' = t
        · subst e; simp [CPc.isClr]
        · rw [hne t' e]; exact this.2 t'
      · exact gk_push hgs0 (by simp [CPc.isGetStart]) hne (by simp; omega) rfl h.gk
    · rw [metAdd_eq]
      let m' : Met := if cfg.metricsOn then
          (if kept then { s.met with keepGets := s.met.keepGets + BitVec.ofNat 64 n }
           else { s.met with dropGets := s.met.dropGets + BitVec.ofNat 64 n }) else s.met
      have e1 : m'.hit = s.met.hit := by
        show (if _ then _ else _ : Met).hit = _
        cases cfg.metricsOn <;> cases kept <;> rfl
      have e2 : m'.miss = s.met.miss := by
        show (if _ then _ else _ : Met).miss = _
        cases cfg.metricsOn <;> cases kept <;> rfl
      have e3 : m'.dropSets = s.met.dropSets := by
        show (if _ then _ else _ : Met).dropSets = _
        cases cfg.metricsOn <;> cases kept <;> rfl
      have hkd : (m'.keepGets + m'.dropGets).toNat ≤ (s.met.keepGets + s.met.dropGets).toNat + n := by
        show ((if _ then _ else _ : Met).keepGets + (if _ then _ else _ : Met).dropGets).toNat ≤ _
        cases cfg.metricsOn
        · simp
        · cases kept
          · simp only [if_true, Bool.false_eq_true, if_false]
            rw [← BitVec.add_assoc]; exact toNat_add_ofNat_le _ n
          · simp only [if_true]
            have : s.met.keepGets + BitVec.ofNat 64 n + s.met.dropGets = s.met.keepGets + s.met.dropGets + BitVec.ofNat 64 n := by
              grind
            rw [this]; exact toNat_add_ofNat_le _ n
      refine ⟨?_, ?_, ?_, h.dok, ?_⟩
      · intro hc
        have := h.noclr hc
        refine ⟨this.1, fun t' => ?_⟩
        by_cases e : t' = t
        · subst e; simp [CPc.isClr]
        · rw [setCl_cl_ne _ _ _ e]; exact this.2 t'
      · intro hon hc
        show m'.hit + m'.miss = BitVec.ofNat 64 (s.log.countP Ev.isGetRet)
        rw [e1, e2]; exact h.hm hon hc
      · intro hon hc
        show m'.dropSets = BitVec.ofNat 64 (s.log.countP Ev.isDrop)
        rw [e3]; exact h.drops hon hc
      · refine gk_push hgs0 (by simp [CPc.isGetStart]) (fun t' e => setCl_cl_ne _ _ _ e) ?_ rfl h.gk
        show (m'.keepGets + m'.dropGets).toNat + (s.ringPending + 1 - n) ≤ _
        omega
  case clrStart =>
    intro closing hpc _
    refine cnt_frame_clr h t (by simp [hpc, CPc.isClr]) ?_ (by rw [stClrStart_met]; exact Nat.le_refl _) (by rw [stClrStart_ringPending])
      (cls_congr _ (fun _ hne => stClrStart_cl_ne (hne := hne) ..) ?_)
    · unfold stClrStart; split
      · split <;> log_quiet
      · log_quiet
    · unfold stClrStart; split <;> simp [hpc, CPc.isGetStart]
  case clrDrain =>
    intro closing hpc _
    have hclr : (s.cl t).isClr = true := by simp [hpc, CPc.isClr]
    have hgsf : ∀ pc : CPc, (unblockedPc pc).isGetStart = pc.isGetStart := fun pc => by cases pc <;> rfl
    rcases stClrDrain_cases s t closing with ⟨_, e⟩ | ⟨id, s1, hr, e⟩ | ⟨i, s1, hr, _, e⟩ | ⟨i, s1, hr, _, e⟩ <;> rw [e]
    · exact cnt_frame_clr h t hclr (by log_quiet) (Nat.le_refl _) rfl
        (cls_congr _ (fun _ hne => setCl_cl_ne _ _ _ hne) (by simp [hpc, CPc.isGetStart]))
    · exact cnt_frame_clr h t hclr (logQuiet_of_eq (by simp [recvBuf_log hr])) (by simp [recvBuf_met hr])
        (by simp [recvBuf_ringPending hr]) (cls_recv (s1 := s1) _ hgsf hr)
    · refine cnt_frame_clr h t hclr ⟨[_, _], by simp [recvBuf_log hr]; exact ⟨rfl, rfl⟩, by simp [Ev.counted, Ev.isGetRet, Ev.isGetCall, Ev.isDrop, Ev.isClr]⟩
        (by simp [recvBuf_met hr]) (by simp [recvBuf_ringPending hr]) (by simpa using cls_recv (s1 := s1) _ hgsf hr)
    · exact cnt_frame_clr h t hclr (logQuiet_of_eq (recvBuf_log hr)) (by rw [recvBuf_met hr]; exact Nat.le_refl _)
        (recvBuf_ringPending hr) (cls_recv (s1 := s1) _ hgsf hr)
  case clrPolicy =>
    intro closing hpc _
    exact cnt_frame_clr h t (by simp [hpc, CPc.isClr]) (logQuiet_of_eq (stClrPolicy_log ..)) (by rw [stClrPolicy_met]; exact Nat.le_refl _)
      (stClrPolicy_ringPending ..) (cls_congr _ (fun _ hne => stClrPolicy_cl_ne (hne := hne) ..) (by simp [stClrPolicy, hpc, CPc.isGetStart]))
  case clrShard =>
    intro closing k hpc hr
    obtain ⟨ks, _, _, _, rfl⟩ := stClrShard_cases hr
    refine cnt_frame_clr h t (by simp [hpc, CPc.isClr]) ?_ (by simp [evictAll_met]) (by simp [evictAll_ringPending])
      (cls_congr (t := t) _ (fun _ hne => by simp [setCl_cl_ne _ _ _ hne, evictAll_cl]) ?_)
    · obtain ⟨evs, h1, h2⟩ := evictAll_quiet s s.store ks
      exact ⟨evs, by simpa using h1, h2⟩
    · simp only [setCl_cl_self, hpc]; split <;> rfl
  case clrEm =>
    intro closing hpc _
    exact cnt_frame_clr h t (by simp [hpc, CPc.isClr]) (logQuiet_of_eq (stClrEm_log ..)) (by rw [stClrEm_met]; exact Nat.le_refl _)
      (stClrEm_ringPending ..) (cls_congr _ (fun _ hne => stClrEm_cl_ne (hne := hne) ..) (by simp [stClrEm, hpc, CPc.isGetStart]))
  case clrMetrics =>
    intro closing hpc _
    refine cnt_frame_clr h t (by simp [hpc, CPc.isClr]) (logQuiet_of_eq (stClrMetrics_log ..)) ?_
      (stClrMetrics_ringPending ..) (cls_congr _ (fun _ hne => stClrMetrics_cl_ne (hne := hne) ..) ?_)
    · unfold stClrMetrics; split
      · simp
      · exact Nat.le_refl _
    · unfold stClrMetrics; split <;> simp [hpc, CPc.isGetStart]
  case clrRestart =>
    intro closing hpc _
    refine cnt_frame_clr h t (by simp [hpc, CPc.isClr]) ?_ (by rw [stClrRestart_met]; exact Nat.le_refl _)
      (stClrRestart_ringPending ..) (cls_congr _ (fun _ hne => stClrRestart_cl_ne (hne := hne) ..) ?_)
    · unfold stClrRestart; dsimp only; split <;> log_quiet
    · unfold stClrRestart; dsimp only; split <;> simp [hpc, CPc.isGetStart]
  case clsFinish =>
    intro hpc _
    exact cnt_frame_clr h t (by simp [hpc, CPc.isClr]) (by unfold stClsFinish; log_quiet) (by rw [stClsFinish_met]; exact Nat.le_refl _)
      (stClsFinish_ringPending ..) (cls_congr _ (fun _ hne => stClsFinish_cl_ne (hne := hne) ..) (by simp [stClsFinish, hpc, CPc.isGetStart]))

theorem cnt_applierStep {cfg : Cfg} {s s' : State} {ch : Choice}
    (h : Cnt cfg s) (hs : applierStep cfg s ch = some s') : Cnt cfg s' := by
  apply applierStep_cases hs (motive := Cnt cfg)
  case idle =>
    intro hpc hr
    rcases apIdle_cases hr with ⟨id, s1, _, hrecv, rfl⟩ | ⟨i, s1, _, hrecv, rfl⟩ | ⟨_, rfl⟩ | ⟨t, _, hstop⟩
    · exact cnt_frame h (logQuiet_of_eq (recvBuf_log (s1 := s1) hrecv)) (by simp [recvBuf_met hrecv]) (recvBuf_ringPending (s1 := s1) hrecv)
        (recvBuf_closed (s1 := s1) hrecv) (cls_recv (s1 := s1) _ unblockedPc_cls2 hrecv)
    · exact cnt_frame h (logQuiet_of_eq (recvBuf_log (s1 := s1) hrecv)) (by simp [recvBuf_met hrecv]) (recvBuf_ringPending (s1 := s1) hrecv)
        (recvBuf_closed (s1 := s1) hrecv) (cls_recv (s1 := s1) _ unblockedPc_cls2 hrecv)
    · exact cnt_frame h (by log_quiet) rfl rfl rfl (fun _ => rfl)
    · rcases apSelStop_cases hstop with ⟨closing, hpc', rfl⟩ | ⟨hpc', rfl⟩
      · exact cnt_frame h (by log_quiet) rfl rfl rfl
          (cls_congr (t := t) _ (fun _ hne => setCl_cl_ne _ _ _ hne) (by simp [hpc', CPc.cls2, CPc.isClr, CPc.isGetStart]))
      · exact cnt_frame h (by log_quiet) rfl rfl rfl
          (cls_congr (t := t) _ (fun _ hne => setCl_cl_ne _ _ _ hne) (by simp [hpc', CPc.cls2, CPc.isClr, CPc.isGetStart]))
  case marker => intro id hpc _; exact cnt_frame h (by log_quiet) rfl rfl rfl (fun _ => rfl)
  case item => intro i hpc _; exact cnt_frame h (by log_quiet) rfl rfl rfl (fun _ => rfl)
  case costed =>
    intro i hpc hr
    rcases apCosted_cases hr with ⟨victims, added, pm, _, _, hp, rfl⟩ | ⟨_, _, rfl⟩ | ⟨_, _, rfl⟩
    · exact cnt_frame h (by log_quiet) (cnt5_of_cnt (polAdd_cnt hp)) rfl rfl (fun _ => rfl)
    · exact cnt_frame h (by log_quiet) (cnt5_of_cnt (polUpdate_cnt ..)) rfl rfl (fun _ => rfl)
    · exact cnt_frame h (by log_quiet) (cnt5_of_cnt (polDel_cnt ..)) rfl rfl (fun _ => rfl)
  case added =>
    intro i victims ok hpc _
    refine cnt_frame h ?_ ?_ (apAdded_ringPending ..) (apAdded_closed ..) (fun _ => by rw [apAdded_cl])
    · unfold apAdded; split
      · exact logQuiet_of_eq (by simp)
      · log_quiet
    · unfold apAdded; split
      · simp only [metAdd_met]; split <;> rfl
      · rfl
  case victims =>
    intro vs hpc _ hr
    obtain ⟨h', cost, rest, _, rfl⟩ := apVictims_cases hr
    exact cnt_frame h (by log_quiet) rfl rfl rfl (fun _ => rfl)
  case victimEvict =>
    intro h' cost c v rest hpc _
    exact cnt_frame h (by unfold apVictimEvict; log_quiet) rfl rfl rfl (fun _ => rfl)
  case tombPolicy => intro i hpc _; exact cnt_frame h (by log_quiet) rfl rfl rfl (fun _ => rfl)
  case tombStore => intro v hpc _; exact cnt_frame h (by unfold apTombStore; log_quiet) rfl rfl rfl (fun _ => rfl)
  case tick => intro hpc _; exact cnt_frame h (by log_quiet) rfl rfl rfl (fun _ => rfl)
  case sweep =>
    intro now bs hpc hr
    rcases apSweep_cases hr with ⟨_, rfl⟩ | ⟨b, rest, k, c, _, _, rfl⟩
    · exact cnt_frame h (by log_quiet) rfl rfl rfl (fun _ => rfl)
    · exact cnt_frame h (by log_quiet) rfl rfl rfl (fun _ => rfl)
  case swKey =>
    intro now k c bs hpc _
    exact cnt_frame h (logQuiet_of_eq (apSwKey_log ..)) (by rw [apSwKey_met]) (apSwKey_ringPending ..) (apSwKey_closed ..)
      (fun _ => by rw [apSwKey_cl])
  case swStoreDel =>
    intro now k c expr v bs hpc _
    exact cnt_frame h (by log_quiet) (cnt5_of_cnt (polDel_cnt ..)) rfl rfl (fun _ => rfl)
  case swPolDel =>
    intro now k c expr cost v bs hpc _
    exact cnt_frame h (by unfold apSwPolDel; log_quiet) rfl rfl rfl (fun _ => rfl)

theorem cnt_spawnStep {cfg : Cfg} {s s' : State} {t : Tid} {c : Call}
    (h : Cnt cfg s) (hs : spawnStep s t c = some s') : Cnt cfg s' := by
  have hidle := spawnStep_idle hs
  have hne : ∀ t', t' ≠ t → s'.cl t' = s.cl t' := fun _ hne => spawnStep_cl_ne _ _ _ hs hne
  have hmet := spawnStep_met _ _ _ hs
  have hrp := spawnStep_ringPending _ _ _ hs
  have hclosed := spawnStep_closed _ _ _ hs
  unfold spawnStep at hs; rw [hidle] at hs; dsimp only at hs
  -- calls that log nothing counted and start neither Clear nor Get
  have quiet : ∀ pc e, pc.cls2 = (false, false) → e.counted = false → s' = logEv (setCl s t pc) e → Cnt cfg s' := by
    intro pc e hpc he hs'
    refine cnt_frame h ⟨[e], by rw [hs']; rfl, by simpa using he⟩ (by rw [hmet]) hrp hclosed
      (cls_congr _ hne (by rw [hs', hidle]; simp only [logEv_cl, setCl_cl_self]; exact hpc))
  have quiet0 : ∀ pc, pc.cls2 = (false, false) → s' = setCl s t pc → Cnt cfg s' := by
    intro pc hpc hs'
    refine cnt_frame h (logQuiet_of_eq (by rw [hs']; rfl)) (by rw [hmet]) hrp hclosed
      (cls_congr _ hne (by rw [hs', hidle]; simp only [logEv_cl, setCl_cl_self]; exact hpc))
  -- calls that start Clear / Close
  have clr : ∀ pc e, pc.isGetStart = false → e.isClr = true → e.isDrop = false → e.isGetCall = false →
      s' = logEv (setCl s t pc) e → Cnt cfg s' := by
    intro pc e hpc he hd hg hs'
    have hlog : s'.log = e :: s.log := by rw [hs']; rfl
    have hno : ¬ ClearFree s'.log := fun hc => by
      have := hc e (by rw [hlog]; exact List.mem_cons_self)
      rw [he] at this; cases this
    refine ⟨fun hc => absurd hc hno, fun _ hc => absurd hc hno, fun _ hc => absurd hc hno,
      by rw [hlog]; exact dropsOk_cons h.dok hd, ?_⟩
    obtain ⟨P, h1, h2, h3⟩ := h.gk
    refine ⟨P, h1, fun t' => ?_, ?_⟩
    · by_cases e' : t' = t
      · have hnot : t ∉ P := fun hm => by have := (h2 t).mp hm; rw [hidle] at this; cases this
        have hf : (s'.cl t).isGetStart = false := by rw [hs']; simpa using hpc
        rw [e']; simp [hnot, hf]
      · rw [hne t' e']; exact h2 t'
    · rw [hmet, hrp, hlog, List.countP_cons, hg]; simpa using h3
  split at hs <;> simp only [Option.some.injEq] at hs
  · exact quiet _ _ rfl rfl hs.symm
  · -- Get
    subst hs
    have hcf : ∀ {l : List Ev} {e : Ev}, ClearFree (e :: l) → ClearFree l := fun hc => clearFree_of_append (evs := [_]) hc
    refine ⟨?_, ?_, ?_, dropsOk_cons h.dok rfl, ?_⟩
    · intro hc
      have := h.noclr (hcf hc)
      refine ⟨this.1, fun t' => ?_⟩
      by_cases e' : t' = t
      · subst e'; simp [CPc.isClr]
      · simp only [logEv_cl, setCl_cl_ne _ _ _ e']; exact this.2 t'
    · intro hon hc
      simpa [Ev.isGetRet] using h.hm hon (hcf hc)
    · intro hon hc
      simpa [Ev.isDrop] using h.drops hon (hcf hc)
    · obtain ⟨P, h1, h2, h3⟩ := h.gk
      have hnot : t ∉ P := fun hm => by have := (h2 t).mp hm; rw [hidle] at this; cases this
      refine ⟨t :: P, List.nodup_cons.mpr ⟨hnot, h1⟩, fun t' => ?_, ?_⟩
      · by_cases e' : t' = t
        · subst e'; simp [CPc.isGetStart]
        · simp only [logEv_cl, setCl_cl_ne _ _ _ e', List.mem_cons, e', false_or]; exact h2 t'
      · simp only [logEv_met, setCl_met, logEv_ringPending, setCl_ringPending, logEv_log, setCl_log, List.length_cons,
          List.countP_cons, Ev.isGetCall, if_true]
        omega
  · exact quiet _ _ rfl rfl hs.symm
  · exact quiet _ _ rfl rfl hs.symm
  · exact quiet _ _ rfl rfl hs.symm
  · exact clr _ _ rfl rfl rfl rfl hs.symm
  · exact clr _ _ rfl rfl rfl rfl hs.symm
  · exact quiet _ _ rfl rfl hs.symm
  · exact quiet0 _ rfl hs.symm
  · exact quiet0 _ rfl hs.symm
  · exact quiet0 _ rfl hs.symm

theorem cnt_init (cfg : Cfg) (now : Time) : Cnt cfg (init cfg now) := by
  refine ⟨fun _ => ⟨rfl, fun _ => rfl⟩, fun _ _ => rfl, fun _ _ => rfl, ?_, ⟨[], List.nodup_nil, fun t => by simp [init, CPc.isGetStart], ?_⟩⟩
  · intro i t v hi; simp [init] at hi
  · simp [init]

theorem cnt_step {cfg : Cfg} {s s' : State} {a : Action} (h : Cnt cfg s) (hs : step cfg s a = some s') : Cnt cfg s' := by
  cases a with
  | spawn t c => exact cnt_spawnStep h hs
  | client t ch => exact cnt_clientStep h hs
  | applier ch => exact cnt_applierStep h hs
  | done t =>
    have hs' : doneStep s t = some s' := hs
    obtain ⟨_, hcase⟩ := doneStep_cases hs'
    rcases hcase with ⟨closing, hpc, rfl⟩ | ⟨hpc, rfl⟩
    · exact cnt_frame h (by log_quiet) rfl rfl rfl
        (cls_congr (t := t) _ (fun _ hne => setCl_cl_ne _ _ _ hne) (by simp [hpc, CPc.cls2, CPc.isClr, CPc.isGetStart]))
    · exact cnt_frame h (by log_quiet) rfl rfl rfl
        (cls_congr (t := t) _ (fun _ hne => setCl_cl_ne _ _ _ hne) (by simp [hpc, CPc.cls2, CPc.isClr, CPc.isGetStart]))
  | tick d =>
    simp only [step, Option.some.injEq] at hs; subst hs
    exact cnt_frame h (by log_quiet) rfl rfl rfl (fun _ => rfl)

/-- The counting invariant holds in every reachable state. -/
theorem cnt_reach {cfg : Cfg} {s : State} (h : Reach cfg s) : Cnt cfg s :=
  Reach.induction (cnt_init cfg) (fun _ _ _ _ hp hs => cnt_step hp hs) h

end RV.Cache
