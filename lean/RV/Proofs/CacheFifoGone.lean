import RV.Proofs.CacheFifoKStep
/-!
# "k is gone" and "a tombstone of k covers everything of k that is pending"

* `Gone k s`: `k` is neither resident nor accounted and no `Set`-item of `k` is pending.
* `Covers k Q s`: some pending tombstone of `k` has no `Set`-item of `k` behind it (and the part
  behind it satisfies `Q`, e.g. "contains marker `id`").
* `ClearPending k s`: a `Clear` has drained the queue and has not yet emptied `k`'s shard.
* `SafeQ k Q s` = one of the three; it is stable under every step of a run in which no `Set`
  of `k` is in flight (`safeQ_step`).  When the covering tombstone is applied, `Gone` results;
  when a `Clear` drains it, `ClearPending` results, and `Gone` once the `Clear` has passed `k`'s
  shard.
-/
namespace RV.Cache
open Gen.Cache

def Gone (k : Hash) (s : State) : Prop :=
  s.store.lookup k = none ∧ s.pol.costs.lookup k = none ∧ NoSetItemK k (pending s)

def CoversL (k : Hash) (Q : List BufElem → Prop) (p : List BufElem) : Prop :=
  ∃ f T back, p = f ++ T :: back ∧ T.isTombK k ∧ NoSetItemK k back ∧ Q back

def Covers (k : Hash) (Q : List BufElem → Prop) (s : State) : Prop := CoversL k Q (pending s)

def ClearPending (k : Hash) (s : State) : Prop :=
  NoSetItemK k (pending s) ∧ ∃ t closing, s.cl t = .clrDrain closing ∨ s.cl t = .clrPolicy closing ∨
    ∃ j, s.cl t = .clrShard closing j ∧ j ≤ shardIdx k ∧ s.pol.costs.lookup k = none

def SafeQ (k : Hash) (Q : List BufElem → Prop) (s : State) : Prop :=
  Gone k s ∨ ClearPending k s ∨ Covers k Q s

/-- `Q` survives appending at the end -/
def PushStable (Q : List BufElem → Prop) : Prop := ∀ b e, Q b → Q (b ++ [e])

theorem SafeQ.mono {k : Hash} {Q Q' : List BufElem → Prop} {s : State} (h : SafeQ k Q s) (hq : ∀ b, Q b → Q' b) :
    SafeQ k Q' s := by
  rcases h with h | h | ⟨f, T, back, h1, h2, h3, h4⟩
  · exact Or.inl h
  · exact Or.inr (Or.inl h)
  · exact Or.inr (Or.inr ⟨f, T, back, h1, h2, h3, hq _ h4⟩)

theorem shardIdx_lt_f (k : Hash) : shardIdx k < numShards.toNat := by
  show (k % 256#64).toNat < (256#64).toNat
  rw [BitVec.toNat_umod]
  exact Nat.mod_lt _ (by decide)

/-! ### list level -/

theorem CoversL.push {k : Hash} {Q : List BufElem → Prop} {p : List BufElem} {e : BufElem} (hQ : PushStable Q)
    (h : CoversL k Q p) (he : ¬ e.isSetK k) : CoversL k Q (p ++ [e]) := by
  obtain ⟨f, T, back, h1, h2, h3, h4⟩ := h
  exact ⟨f, T, back ++ [e], by rw [h1]; simp, h2, h3.append he, hQ _ _ h4⟩

theorem CoversL.pop {k : Hash} {Q : List BufElem → Prop} {p : List BufElem} {x : BufElem}
    (h : CoversL k Q (x :: p)) : (x.isTombK k ∧ NoSetItemK k p) ∨ CoversL k Q p := by
  obtain ⟨f, T, back, h1, h2, h3, h4⟩ := h
  cases f with
  | nil => simp at h1; obtain ⟨rfl, rfl⟩ := h1; exact Or.inl ⟨h2, h3⟩
  | cons y f' => simp at h1; obtain ⟨rfl, rfl⟩ := h1; exact Or.inr ⟨f', T, back, rfl, h2, h3, h4⟩

theorem CoversL.recost {k : Hash} {Q : List BufElem → Prop} {r : List BufElem} {i : Item} {c : Int}
    (h : CoversL k Q (.item i :: r)) : CoversL k Q (.item { i with cost := c } :: r) := by
  obtain ⟨f, T, back, h1, h2, h3, h4⟩ := h
  cases f with
  | nil =>
    simp at h1; obtain ⟨rfl, rfl⟩ := h1
    exact ⟨[], _, _, rfl, h2, h3, h4⟩
  | cons y f' =>
    simp at h1; obtain ⟨rfl, rfl⟩ := h1
    exact ⟨_ :: f', T, back, rfl, h2, h3, h4⟩

theorem NoSetItemK.recost {k : Hash} {r : List BufElem} {i : Item} {c : Int}
    (h : NoSetItemK k (.item i :: r)) : NoSetItemK k (.item { i with cost := c } :: r) := by
  intro e he
  rcases List.mem_cons.mp he with rfl | h1
  · exact h (.item i) (by simp)
  · exact h e (List.mem_cons_of_mem _ h1)

theorem NoSetItemK.tail {k : Hash} {x : BufElem} {p : List BufElem} (h : NoSetItemK k (x :: p)) : NoSetItemK k p :=
  h.sub (fun _ he => List.mem_cons_of_mem _ he)

/-! ### one step -/

theorem gone_kstep {k : Hash} {s s' : State} (h : Gone k s) (hk : KStep k s s') : Gone k s' := by
  obtain ⟨h1, h2, h3⟩ := h
  cases hk with
  | quiet hp hk hcl => exact ⟨(hk h3.held).1 h1, (hk h3.held).2 h2, by rw [hp]; exact h3⟩
  | push e he hsrc hp hk hcl => exact ⟨(hk h3.held).1 h1, (hk h3.held).2 h2, by rw [hp]; exact h3.append he⟩
  | recost i c r hp hp' hk hcl =>
    exact ⟨(hk h3.held).1 h1, (hk h3.held).2 h2, by rw [hp'];  rw [hp] at h3; exact h3.recost⟩
  | popNonTomb x hp hx hk hcl => exact ⟨(hk h3.held).1 h1, (hk h3.held).2 h2, by rw [hp] at h3; exact h3.tail⟩
  | popTomb x hp hx hst hco hcl => exact ⟨hst, hco, by rw [hp] at h3; exact h3.tail⟩
  | drained x t closing hp hk hpc hcl => exact ⟨(hk h3.held).1 h1, (hk h3.held).2 h2, by rw [hp] at h3; exact h3.tail⟩
  | drainEnd t closing hp hk hpc hpc' hne => exact ⟨(hk h3.held).1 h1, (hk h3.held).2 h2, by rw [hp]; exact h3⟩
  | clrPolicy t closing hp hst hco hpc hpc' hne => exact ⟨by rw [hst]; exact h1, hco, by rw [hp]; exact h3⟩
  | clrShard t closing j hp hst1 hst2 hco hpc hpc' hne => exact ⟨hst1 h1, by rw [hco]; exact h2, by rw [hp]; exact h3⟩

theorem clearPending_kstep {k : Hash} {s s' : State} (h : ClearPending k s) (hk : KStep k s s') :
    ClearPending k s' ∨ Gone k s' := by
  obtain ⟨h3, t, closing, hw⟩ := h
  -- the witness keeps its pc under steps that keep all `clrWit` pcs
  have keep : ∀ (hcl : ClrKeep s s') (hco : s.pol.costs.lookup k = none → s'.pol.costs.lookup k = none),
      ∃ t closing, s'.cl t = .clrDrain closing ∨ s'.cl t = .clrPolicy closing ∨
        ∃ j, s'.cl t = .clrShard closing j ∧ j ≤ shardIdx k ∧ s'.pol.costs.lookup k = none := by
    intro hcl hco
    refine ⟨t, closing, ?_⟩
    rcases hw with e | e | ⟨j, e, hj, hc⟩
    · left; rw [hcl t (by simp [e, CPc.clrWit]), e]
    · right; left; rw [hcl t (by simp [e, CPc.clrWit]), e]
    · right; right; exact ⟨j, by rw [hcl t (by simp [e, CPc.clrWit]), e], hj, hco hc⟩
  have keep_ne : ∀ t0, t0 ≠ t → (∀ t', t' ≠ t0 → s'.cl t' = s.cl t') →
      (s.pol.costs.lookup k = none → s'.pol.costs.lookup k = none) →
      ∃ t closing, s'.cl t = .clrDrain closing ∨ s'.cl t = .clrPolicy closing ∨
        ∃ j, s'.cl t = .clrShard closing j ∧ j ≤ shardIdx k ∧ s'.pol.costs.lookup k = none := by
    intro t0 hne hcl hco
    have e0 : s'.cl t = s.cl t := hcl t (fun e => hne e.symm)
    refine ⟨t, closing, ?_⟩
    rcases hw with e | e | ⟨j, e, hj, hc⟩
    · left; rw [e0, e]
    · right; left; rw [e0, e]
    · right; right; exact ⟨j, by rw [e0, e], hj, hco hc⟩
  cases hk with
  | quiet hp hk hcl => exact Or.inl ⟨by rw [hp]; exact h3, keep hcl (hk h3.held).2⟩
  | push e he hsrc hp hk hcl => exact Or.inl ⟨by rw [hp]; exact h3.append he, keep hcl (hk h3.held).2⟩
  | recost i c r hp hp' hk hcl =>
    exact Or.inl ⟨by rw [hp']; rw [hp] at h3; exact h3.recost, keep hcl (hk h3.held).2⟩
  | popNonTomb x hp hx hk hcl => exact Or.inl ⟨by rw [hp] at h3; exact h3.tail, keep hcl (hk h3.held).2⟩
  | popTomb x hp hx hst hco hcl => exact Or.inl ⟨by rw [hp] at h3; exact h3.tail, keep hcl (fun _ => hco)⟩
  | drained x t0 closing0 hp hk hpc hcl => exact Or.inl ⟨by rw [hp] at h3; exact h3.tail, keep hcl (hk h3.held).2⟩
  | drainEnd t0 closing0 hp hk hpc hpc' hne =>
    refine Or.inl ⟨by rw [hp]; exact h3, ?_⟩
    by_cases e : t0 = t
    · subst e; exact ⟨t0, closing0, Or.inr (Or.inl hpc')⟩
    · exact keep_ne t0 e hne (hk h3.held).2
  | clrPolicy t0 closing0 hp hst hco hpc hpc' hne =>
    refine Or.inl ⟨by rw [hp]; exact h3, ?_⟩
    by_cases e : t0 = t
    · subst e; exact ⟨t0, closing0, Or.inr (Or.inr ⟨0, hpc', Nat.zero_le _, hco⟩)⟩
    · exact keep_ne t0 e hne (fun _ => hco)
  | clrShard t0 closing0 j hp hst1 hst2 hco hpc hpc' hne =>
    by_cases e : t0 = t
    · subst e
      rcases hw with e1 | e1 | ⟨j', e1, hj, hc⟩
      · rw [e1] at hpc; cases hpc
      · rw [e1] at hpc; cases hpc
      · rw [e1] at hpc
        simp only [CPc.clrShard.injEq] at hpc
        obtain ⟨_, hjj⟩ := hpc
        subst hjj
        by_cases hjk : j' = shardIdx k
        · exact Or.inr ⟨hst2 hjk, by rw [hco]; exact hc, by rw [hp]; exact h3⟩
        · have hlt := shardIdx_lt_f k
          have hpc2 : s'.cl t0 = .clrShard closing0 (j' + 1) := by rw [hpc', if_neg (by omega)]
          exact Or.inl ⟨by rw [hp]; exact h3, t0, closing0,
            Or.inr (Or.inr ⟨j' + 1, hpc2, by omega, by rw [hco]; exact hc⟩)⟩
    · exact Or.inl ⟨by rw [hp]; exact h3, keep_ne t0 e hne (fun h => by rw [hco]; exact h)⟩

theorem covers_kstep {k : Hash} {Q : List BufElem → Prop} {s s' : State} (hQ : PushStable Q)
    (h : Covers k Q s) (hk : KStep k s s') : SafeQ k Q s' := by
  unfold Covers at h
  cases hk with
  | quiet hp hk hcl => exact Or.inr (Or.inr (by unfold Covers; rw [hp]; exact h))
  | push e he hsrc hp hk hcl => exact Or.inr (Or.inr (by unfold Covers; rw [hp]; exact h.push hQ he))
  | recost i c r hp hp' hk hcl =>
    exact Or.inr (Or.inr (by unfold Covers; rw [hp']; rw [hp] at h; exact h.recost))
  | popNonTomb x hp hx hk hcl =>
    rw [hp] at h
    rcases h.pop with ⟨h1, _⟩ | h1
    · exact absurd h1 hx
    · exact Or.inr (Or.inr h1)
  | popTomb x hp hx hst hco hcl =>
    rw [hp] at h
    rcases h.pop with ⟨_, h1⟩ | h1
    · exact Or.inl ⟨hst, hco, h1⟩
    · exact Or.inr (Or.inr h1)
  | drained x t closing hp hk hpc hcl =>
    rw [hp] at h
    rcases h.pop with ⟨_, h1⟩ | h1
    · exact Or.inr (Or.inl ⟨h1, t, closing, Or.inl hpc⟩)
    · exact Or.inr (Or.inr h1)
  | drainEnd t closing hp hk hpc hpc' hne => exact Or.inr (Or.inr (by unfold Covers; rw [hp]; exact h))
  | clrPolicy t closing hp hst hco hpc hpc' hne => exact Or.inr (Or.inr (by unfold Covers; rw [hp]; exact h))
  | clrShard t closing j hp hst1 hst2 hco hpc hpc' hne => exact Or.inr (Or.inr (by unfold Covers; rw [hp]; exact h))

theorem safeQ_kstep {k : Hash} {Q : List BufElem → Prop} {s s' : State} (hQ : PushStable Q)
    (h : SafeQ k Q s) (hk : KStep k s s') : SafeQ k Q s' := by
  rcases h with h | h | h
  · exact Or.inl (gone_kstep h hk)
  · rcases clearPending_kstep h hk with h1 | h1
    · exact Or.inr (Or.inl h1)
    · exact Or.inl h1
  · exact covers_kstep hQ h hk

/-- `SafeQ` is stable under every step from a reachable state in which no client is inside a
`Set` of `k` (and the logged calls of `k` agree on the conflict). -/
theorem safeQ_step {cfg : Cfg} {k : Hash} {Q : List BufElem → Prop} {s s' : State} {a : Action} (hQ : PushStable Q)
    (hr : Reach cfg s) (hns : NoSetK k s) (hconf : ConfAgree k s.log) (hs : step cfg s a = some s')
    (h : SafeQ k Q s) : SafeQ k Q s' :=
  safeQ_kstep hQ h (kstep k hr hns hconf hs)

/-! ### no `Set` of `k` starts unless it is spawned -/

def CPc.setKey? : CPc → Option Hash
  | .setStart h _ _ _ _ => some h
  | .setUpd i => some i.key
  | .setExit i _ => some i.key
  | .setSend i => some i.key
  | _ => none

theorem CPc.inSetK_iff (k : Hash) (pc : CPc) : pc.inSetK k ↔ pc.setKey? = some k := by
  cases pc <;> simp [CPc.inSetK, CPc.setKey?]

open Lean in
/-- the pc after step `stX` is outside `Set` -/
macro "sk_none " f:ident : tactic =>
  `(tactic| (left; first | (simp [$f:term, CPc.setKey?]; done) | (unfold $f:ident; (repeat' split) <;> simp [CPc.setKey?]; done) | (unfold $f:ident; dsimp only; (repeat' split) <;> simp [CPc.setKey?]; done)))

theorem setKey_clientStep {cfg : Cfg} {s s' : State} {t : Tid} {ch : Choice}
    (hs : clientStep cfg s t ch = some s') :
    (s'.cl t).setKey? = none ∨ (s'.cl t).setKey? = (s.cl t).setKey? := by
  apply clientStep_cases hs (motive := fun s' => (s'.cl t).setKey? = none ∨ (s'.cl t).setKey? = (s.cl t).setKey?)
  case setStart =>
    intro h c v cost ttl hpc _
    rw [hpc]; unfold stSetStart
    (repeat' split) <;> simp [CPc.setKey?]
  case setUpd =>
    intro i hpc _
    right; rw [hpc]
    rcases stSetUpd_pc cfg s t i with e | e <;> rw [e] <;> rfl
  case setExit => intro i prev hpc _; right; rw [hpc]; simp [stSetExit, CPc.setKey?]
  case setSend =>
    intro i hpc _; left
    unfold stSetSend; split <;> simp [CPc.setKey?]
  case setRetTrue => intros; sk_none stSetRetTrue
  case setRetDrop => intros; sk_none stSetRetDrop
  case delStart => intros; sk_none stDelStart
  case delExit => intros; sk_none stDelExit
  case delSend => intros; left; unfold stDelSend sendBlocking; split <;> simp [CPc.setKey?]
  case delSent => intros; sk_none stDelSent
  case waitStart => intros; sk_none stWaitStart
  case waitSend => intros; left; unfold stWaitSend sendBlocking; split <;> simp [CPc.setKey?]
  case waitRecv =>
    intro id _ _ hr
    unfold stWaitRecv at hr
    split at hr
    · simp only [Option.some.injEq] at hr; subst hr; left; simp [CPc.setKey?]
    · simp at hr
  case waitDone => intros; sk_none stWaitDone
  case getStart =>
    intro h c _ hr
    rcases (stGetStart_q hr).2.2.2.2.2.2.2.2.2 with ⟨e, _⟩ | ⟨e, _⟩ <;> (left; rw [e]; rfl)
  case getRead => intros; sk_none stGetRead
  case getCheck => intros; sk_none stGetCheck
  case getMetric => intros; sk_none stGetMetric
  case ttlRead => intros; sk_none stTtlRead
  case ttlCheck => intros; sk_none stTtlCheck
  case ttlExp => intros; sk_none stTtlExp
  case ttlNow => intros; sk_none stTtlNow
  case ttlUntil => intros; sk_none stTtlUntil
  case iterStart => intros; sk_none stIterStart
  case iterShard =>
    intro k n seen _ hr
    rcases (stIterShard_q hr).2.2.2.2.2.2.2.2.2 with ⟨e, _⟩ | ⟨_, _, e, _⟩ <;> (left; rw [e]; rfl)
  case clrStart => intros; sk_none stClrStart
  case clrDrain =>
    intro closing hpc _
    unfold stClrDrain
    split
    · left; simp [CPc.setKey?]
    · rename_i hr; right; exact congrArg CPc.setKey? (ClrKeep.recv hr t (by simp [hpc, CPc.clrWit]))
    · rename_i hr; right
      split <;> exact congrArg CPc.setKey? (ClrKeep.recv hr t (by simp [hpc, CPc.clrWit]))
  case clrPolicy => intros; sk_none stClrPolicy
  case clrShard =>
    intro closing k _ hr
    obtain ⟨_, _, _, _, _, _, _, _, _, _, _, _, h10⟩ := stClrShard_q hr
    left; rw [h10]; split <;> rfl
  case clrEm => intros; sk_none stClrEm
  case clrMetrics => intros; sk_none stClrMetrics
  case clrRestart => intros; sk_none stClrRestart
  case clsFinish => intros; sk_none stClsFinish
  case updMax => intros; sk_none stUpdMax
  case readMax => intros; sk_none stReadMax
  case readRem => intros; sk_none stReadRem

end RV.Cache
