import RV.Proofs.CacheAcctMap
import RV.Model.Cache
/-!
# C06 (static room bound): the effective cost of a `Set`, the largest effective cost ever given
to a key, and the sum of these maxima over the distinct keys of a log

* `effCost cfg v cost` — the cost the applier accounts for a `Set(_, v, cost)`: the model's own
  cost pre-processing `itemCost` (generated kernels `useCostFn`, `addInternalCost`, `itemSize`)
  applied to the item that `Set` builds.  `itemCost_eff`: new-items and update-items are
  pre-processed alike.
* `keyMax cfg log k` — the maximum of 0 and the effective costs of all `setCall`s of key `k` in `log`.
* `staticSum cfg log` — Σ over the *distinct* keys of the `setCall`s of `log` of `keyMax`.
* `sum_le_staticSum` — for a duplicate-free list of keys that all occur in `setCall`s, the sum of
  their `keyMax` is at most `staticSum`; `amap_sum_le` — a cost map whose entries are bounded by `f`
  sums to at most Σ `f` over its keys.
-/
namespace RV.Cache
open Gen.Cache

/-- the cost accounted for `Set(_, v, cost)` after the applier's pre-processing
(`Config.Cost` when the cost is 0, then the internal per-item cost) -/
def effCost (cfg : Cfg) (v : Val) (cost : Int) : Int :=
  itemCost cfg ⟨.new, 0#64, 0#64, v, cost, Gen.zeroTime⟩

/-- new-items and update-items get the same pre-processing; it looks only at value and cost -/
theorem itemCost_eff (cfg : Cfg) (i : Item) (h : i.flag ≠ .del) : itemCost cfg i = effCost cfg i.value i.cost := by
  have hflag : ∀ w : BitVec 64, useCostFn w true i.flag.code = useCostFn w true Flag.new.code := by
    intro w
    cases hf : i.flag with
    | new => rfl
    | del => exact absurd hf h
    | upd => simp [useCostFn, Flag.code, itemUpdate, itemNew]
  unfold effCost itemCost
  simp only [hflag]

/-! ### maxima and sums over lists -/

/-- maximum of 0 and the elements -/
def maxL : List Int → Int
  | [] => 0
  | x :: xs => max x (maxL xs)

theorem maxL_nonneg (l : List Int) : 0 ≤ maxL l := by
  induction l with
  | nil => exact Int.le_refl _
  | cons x xs ih => simp only [maxL]; omega

theorem le_maxL {l : List Int} {x : Int} (h : x ∈ l) : x ≤ maxL l := by
  induction l with
  | nil => cases h
  | cons y ys ih =>
    simp only [maxL]
    rcases List.mem_cons.mp h with e | e
    · subst e; omega
    · have := ih e; omega

theorem maxL_append_right (a b : List Int) : maxL b ≤ maxL (a ++ b) := by
  induction a with
  | nil => exact Int.le_refl _
  | cons x xs ih => simp only [List.cons_append, maxL]; omega

/-- `(L.map f).sum` with one occurrence of `k` taken out -/
theorem sum_map_erase (f : Hash → Int) {k : Hash} {L : List Hash} (h : k ∈ L) :
    (L.map f).sum = f k + ((L.erase k).map f).sum := by
  induction L with
  | nil => cases h
  | cons x xs ih =>
    by_cases e : x = k
    · subst e; simp
    · have hm : k ∈ xs := by
        rcases List.mem_cons.mp h with e' | e'
        · exact absurd e'.symm e
        · exact e'
      rw [List.erase_cons_tail (by simpa using e)]
      simp only [List.map_cons, List.sum_cons, ih hm]
      omega

theorem sum_map_nonneg (f : Hash → Int) (L : List Hash) (hpos : ∀ k ∈ L, 0 ≤ f k) : 0 ≤ (L.map f).sum := by
  induction L with
  | nil => exact Int.le_refl _
  | cons x xs ih =>
    have h1 := hpos x List.mem_cons_self
    have h2 := ih (fun k hk => hpos k (List.mem_cons_of_mem _ hk))
    simp only [List.map_cons, List.sum_cons]; omega

/-- a duplicate-free list inside `L` sums to at most the sum over `L` (for `f ≥ 0` on `L`) -/
theorem sum_le_of_nodup_subset (f : Hash → Int) (ks : List Hash) :
    ∀ (L : List Hash), ks.Nodup → (∀ k ∈ ks, k ∈ L) → (∀ k ∈ L, 0 ≤ f k) → (ks.map f).sum ≤ (L.map f).sum := by
  induction ks with
  | nil =>
    intro L _ _ hpos
    simpa using sum_map_nonneg f L hpos
  | cons k ks ih =>
    intro L hnd hsub hpos
    have hk : k ∈ L := hsub k List.mem_cons_self
    obtain ⟨hnk, hnd'⟩ := List.nodup_cons.mp hnd
    have hsub' : ∀ k' ∈ ks, k' ∈ L.erase k := by
      intro k' hk'
      have hne : k' ≠ k := fun e => hnk (e ▸ hk')
      exact (List.mem_erase_of_ne hne).mpr (hsub k' (List.mem_cons_of_mem _ hk'))
    have hpos' : ∀ k' ∈ L.erase k, 0 ≤ f k' := fun k' hk' => hpos k' (List.mem_of_mem_erase hk')
    have := ih (L.erase k) hnd' hsub' hpos'
    rw [sum_map_erase f hk]
    simp only [List.map_cons, List.sum_cons]; omega

/-- remove duplicates (keeps the last occurrence of each key) -/
def dedupKeys : List Hash → List Hash
  | [] => []
  | k :: ks => if k ∈ ks then dedupKeys ks else k :: dedupKeys ks

theorem mem_dedupKeys {l : List Hash} {k : Hash} : k ∈ dedupKeys l ↔ k ∈ l := by
  induction l with
  | nil => simp [dedupKeys]
  | cons x xs ih =>
    simp only [dedupKeys]
    split
    · rename_i hx
      rw [ih, List.mem_cons]
      constructor
      · exact Or.inr
      · rintro (e | e)
        · subst e; exact hx
        · exact e
    · rw [List.mem_cons, List.mem_cons, ih]

theorem nodup_dedupKeys (l : List Hash) : (dedupKeys l).Nodup := by
  induction l with
  | nil => simp [dedupKeys]
  | cons x xs ih =>
    simp only [dedupKeys]
    split
    · exact ih
    · rename_i hx
      exact List.nodup_cons.mpr ⟨fun h => hx (mem_dedupKeys.mp h), ih⟩

/-! ### the static bound over a log -/

/-- the key of a `setCall` event -/
def Ev.setKey? : Ev → Option Hash
  | .setCall _ h _ _ _ _ => some h
  | _ => none

/-- the effective cost of a `setCall` of key `k` -/
def Ev.effFor (cfg : Cfg) (k : Hash) : Ev → Option Int
  | .setCall _ h _ v cost _ => if h = k then some (effCost cfg v cost) else none
  | _ => none

/-- the keys of all `setCall`s of the log (with repetitions) -/
def setKeysRaw (log : List Ev) : List Hash := log.filterMap Ev.setKey?
/-- the distinct keys given to `Set` so far -/
def setKeys (log : List Ev) : List Hash := dedupKeys (setKeysRaw log)

/-- the largest effective cost ever given to key `k` (0 if there is none, or if all are negative) -/
def keyMax (cfg : Cfg) (log : List Ev) (k : Hash) : Int := maxL (log.filterMap (Ev.effFor cfg k))

/-- Σ over the distinct keys of the largest effective cost ever given to the key -/
def staticSum (cfg : Cfg) (log : List Ev) : Int := ((setKeys log).map (keyMax cfg log)).sum

theorem keyMax_nonneg (cfg : Cfg) (log : List Ev) (k : Hash) : 0 ≤ keyMax cfg log k := maxL_nonneg _

theorem keyMax_mono (cfg : Cfg) (evs log : List Ev) (k : Hash) : keyMax cfg log k ≤ keyMax cfg (evs ++ log) k := by
  unfold keyMax; rw [List.filterMap_append]; exact maxL_append_right _ _

theorem le_keyMax {cfg : Cfg} {log : List Ev} {t : Tid} {k : Hash} {c : Conf} {v : Val} {cost ttl : Int}
    (h : Ev.setCall t k c v cost ttl ∈ log) : effCost cfg v cost ≤ keyMax cfg log k := by
  apply le_maxL
  rw [List.mem_filterMap]
  exact ⟨_, h, by simp [Ev.effFor]⟩

theorem mem_setKeys {log : List Ev} {t : Tid} {k : Hash} {c : Conf} {v : Val} {cost ttl : Int}
    (h : Ev.setCall t k c v cost ttl ∈ log) : k ∈ setKeys log := by
  rw [setKeys, mem_dedupKeys, setKeysRaw, List.mem_filterMap]
  exact ⟨_, h, rfl⟩

theorem nodup_setKeys (log : List Ev) : (setKeys log).Nodup := nodup_dedupKeys _

/-- a duplicate-free list of keys that were all given to `Set` weighs at most `staticSum` -/
theorem sum_le_staticSum (cfg : Cfg) (log : List Ev) (ks : List Hash) (hnd : ks.Nodup)
    (hsub : ∀ k ∈ ks, k ∈ setKeys log) : (ks.map (keyMax cfg log)).sum ≤ staticSum cfg log :=
  sum_le_of_nodup_subset _ ks _ hnd hsub (fun k _ => keyMax_nonneg cfg log k)

theorem sum_map_le_pointwise (f g : Hash → Int) (L : List Hash) (h : ∀ k ∈ L, f k ≤ g k) :
    (L.map f).sum ≤ (L.map g).sum := by
  induction L with
  | nil => exact Int.le_refl _
  | cons x xs ih =>
    have h1 := h x List.mem_cons_self
    have h2 := ih (fun k hk => h k (List.mem_cons_of_mem _ hk))
    simp only [List.map_cons, List.sum_cons]; omega

/-- the static sum only grows with the log -/
theorem staticSum_mono (cfg : Cfg) (evs log : List Ev) : staticSum cfg log ≤ staticSum cfg (evs ++ log) := by
  have h1 : staticSum cfg log ≤ ((setKeys log).map (keyMax cfg (evs ++ log))).sum :=
    sum_map_le_pointwise _ _ _ (fun k _ => keyMax_mono cfg evs log k)
  have h2 := sum_le_staticSum cfg (evs ++ log) (setKeys log) (nodup_setKeys log) (by
    intro k hk
    rw [setKeys, mem_dedupKeys, setKeysRaw] at hk ⊢
    rw [List.filterMap_append]
    exact List.mem_append.mpr (Or.inr hk))
  omega

/-- a cost map whose entries are bounded pointwise by `f` sums to at most Σ `f` over its keys -/
theorem amap_sum_le (f : Hash → Int) : ∀ (m : AMap Hash Int), AMap.NodupKeys m →
    (∀ k c, m.lookup k = some c → c ≤ f k) → m.sum ≤ (m.keys.map f).sum := by
  intro m
  induction m with
  | nil => intro _ _; exact Int.le_refl _
  | cons p rest ih =>
    obtain ⟨k, v⟩ := p
    intro hnd hb
    have hc : k ∉ AMap.keys rest ∧ (AMap.keys rest).Nodup := by simpa [AMap.NodupKeys, AMap.keys] using hnd
    have h1 : v ≤ f k := hb k v (by simp [AMap.lookup])
    have h2 : AMap.sum rest ≤ ((AMap.keys rest).map f).sum := by
      refine ih hc.2 (fun k' c hl => hb k' c ?_)
      have hne : ¬ k = k' := fun e => hc.1 (e ▸ AMap.mem_keys_of_lookup hl)
      simp [AMap.lookup, hne]; exact hl
    show v + AMap.sum rest ≤ (((k :: AMap.keys rest)).map f).sum
    simp only [List.map_cons, List.sum_cons]; omega

end RV.Cache
