import RV.Model.Tree
/-!
# Node-level lemmas for the B+ tree model (C10 / C16)

* the meta word (`numKeys`, `isLeaf` read back what `setBit` / `setNumKeys` stored),
* Go `int` comparisons on small naturals,
* `search` / `nodeSet` / `splitLeft`/`splitRight` / `nodeCompact` on entry lists whose
  keys are strictly increasing, against the association-list semantics (`ins`, `lookupD`).

Everything is generic in the value type of the entries (`Val` for leaves, `Node` for
inner nodes).
-/
namespace RV.Tree
open Gen.Tree

/-! ## words -/

theorem w_toNat {n : Nat} (h : n < 2 ^ 64) : (w n).toNat = n := by
  simp [w, BitVec.toNat_ofNat]; omega

theorem w_toInt {n : Nat} (h : n < 2 ^ 63) : (w n).toInt = (n : Int) := by
  rw [BitVec.toInt_eq_toNat_of_lt (by rw [w_toNat (by omega)]; omega), w_toNat (by omega)]

theorem w_beq {a b : Nat} (ha : a < 2 ^ 64) (hb : b < 2 ^ 64) : (w a == w b) = decide (a = b) := by
  by_cases h : a = b
  · subst h; simp
  · have : w a ≠ w b := by
      intro e
      have := congrArg BitVec.toNat e
      rw [w_toNat ha, w_toNat hb] at this
      exact h this
    simp [this, h]

theorem w_slt {a b : Nat} (ha : a < 2 ^ 63) (hb : b < 2 ^ 63) : BitVec.slt (w a) (w b) = decide (a < b) := by
  rw [BitVec.slt_eq_decide, w_toInt ha, w_toInt hb]; simp

theorem w_sle {a b : Nat} (ha : a < 2 ^ 63) (hb : b < 2 ^ 63) : BitVec.sle (w a) (w b) = decide (a ≤ b) := by
  rw [BitVec.sle_eq_decide, w_toInt ha, w_toInt hb]; simp

/-! ## the meta word -/

theorem and_mask32 (x : Nat) : x &&& 4294967295 = x % 2 ^ 32 := by
  have := Nat.and_two_pow_sub_one_eq_mod x 32
  simpa using this

theorem or_bit63 (n : Nat) (h : n < 2 ^ 32) : 9223372036854775808 ||| n = 9223372036854775808 + n := by
  have := Nat.shiftLeft_add_eq_or_of_lt (i := 32) h (2 ^ 31)
  simpa using this.symm

theorem and_bit63_lt (x : Nat) (h : x < 2 ^ 63) : x &&& 9223372036854775808 = 0 := by
  apply Nat.eq_of_testBit_eq
  intro i
  have e : (9223372036854775808 : Nat) = 2 ^ 63 := by decide
  rw [Nat.testBit_and, e, Nat.testBit_two_pow]
  by_cases hi : 63 = i
  · subst hi; simp [Nat.testBit_lt_two_pow h]
  · simp [hi]

theorem and_bit63_ge (x : Nat) (h1 : 2 ^ 63 ≤ x) (h2 : x < 2 ^ 64) : 0 < x &&& 9223372036854775808 := by
  have e : (9223372036854775808 : Nat) = 2 ^ 63 := by decide
  have hb : (x &&& 9223372036854775808).testBit 63 = true := by
    rw [Nat.testBit_and, e, Nat.testBit_two_pow_self]
    simp [Nat.testBit_of_two_pow_le_and_two_pow_add_one_gt h1 h2]
  rcases Nat.eq_zero_or_pos (x &&& 9223372036854775808) with h | h
  · rw [h] at hb; simp at hb
  · exact h

/-- `numKeys()` reads back what `setNumKeys(n)` stored, whatever the kind bit. -/
theorem metaWord_numKeys (leaf : Bool) (n : Nat) (h : n < 2 ^ 32) :
    (numKeysOfMeta (metaWord leaf n)).toNat = n := by
  unfold numKeysOfMeta metaWord setBitKeep bitLeaf setNumKeysKeep setNumKeysNum
  have hn : n % 18446744073709551616 = n := by omega
  cases leaf <;> simp [BitVec.toNat_and, BitVec.toNat_or, BitVec.toNat_ofNat, and_mask32, hn, or_bit63 n h]
  all_goals omega

/-- `isLeaf()` reads back the bit `newNode` stored, whatever `setNumKeys` did afterwards. -/
theorem metaWord_isLeaf (leaf : Bool) (n : Nat) (h : n < 2 ^ 32) :
    isLeaf (bitsOfMeta (metaWord leaf n)) = leaf := by
  unfold isLeaf bitsOfMeta metaWord setBitKeep bitLeaf setNumKeysKeep setNumKeysNum
  have hn : n % 18446744073709551616 = n := by omega
  have hc : (18374686479671623680 &&& 9223372036854775808 : Nat) = 9223372036854775808 := by decide
  cases leaf
  · simp [BitVec.ult, BitVec.toNat_and, BitVec.toNat_ofNat, hn]
    rw [Nat.and_assoc, hc, and_bit63_lt n (by omega)]
  · simp [BitVec.ult, BitVec.toNat_and, BitVec.toNat_or, BitVec.toNat_ofNat, hn, or_bit63 n h]
    rw [Nat.and_assoc, hc]
    exact and_bit63_ge _ (by omega) (by omega)

theorem Node.numKeys_eq (n : Node) (h : n.len < 2 ^ 32) : n.numKeys = n.len := by
  unfold Node.numKeys Node.metaW; exact metaWord_numKeys _ _ h

theorem Node.isLeafK_eq (n : Node) (h : n.len < 2 ^ 32) : n.isLeafK = n.isLeafC := by
  unfold Node.isLeafK Node.metaW; exact metaWord_isLeaf _ _ h

theorem Node.isFull_eq (cfg : Cfg) (n : Node) (h : n.len < 2 ^ 32) (hm : cfg.maxKeys < 2 ^ 32) :
    n.isFull cfg = decide (n.len = cfg.maxKeys) := by
  unfold Node.isFull Gen.Tree.isFull
  rw [Node.numKeys_eq n h, w_beq (by omega) (by omega)]

/-! ## page layout -/

/-- Page layout: with `maxKeys = pageSize/16 - 1`, the key and value words of the entries
`0 … maxKeys-1`, the page-id word `keyOffset(maxKeys)` and the meta word `valOffset(maxKeys)` are
pairwise distinct words inside the page (`pageSize/8` words): entries never overlap the header. -/
theorem layout_words (ps : Nat) (hps : 32 ≤ ps) (hlt : ps < 2 ^ 40) (i j : Nat)
    (hi : i < (Cfg.ofPageSize ps).maxKeys) (hj : j < (Cfg.ofPageSize ps).maxKeys) :
    (keyOffset (w i)).toNat = 2 * i ∧ (valOffset (w i)).toNat = 2 * i + 1 ∧
    (keyOffset (w (Cfg.ofPageSize ps).maxKeys)).toNat = 2 * (Cfg.ofPageSize ps).maxKeys ∧
    (valOffset (w (Cfg.ofPageSize ps).maxKeys)).toNat = 2 * (Cfg.ofPageSize ps).maxKeys + 1 ∧
    (valOffset (w (Cfg.ofPageSize ps).maxKeys)).toNat < ps / 8 ∧
    (i ≠ j → (keyOffset (w i)).toNat ≠ (keyOffset (w j)).toNat) := by
  unfold Cfg.ofPageSize at *
  simp only at hi hj ⊢
  have e : ∀ n : Nat, n < 2 ^ 40 → (keyOffset (w n)).toNat = 2 * n ∧ (valOffset (w n)).toNat = 2 * n + 1 := by
    intro n hn
    unfold keyOffset valOffset
    have h2 : (2#64 : BitVec 64) = w 2 := rfl
    have h1 : (1#64 : BitVec 64) = w 1 := rfl
    constructor
    · rw [h2, BitVec.toNat_mul, w_toNat (by omega), w_toNat (by omega)]; omega
    · rw [h2, h1, BitVec.toNat_add, BitVec.toNat_mul, w_toNat (by omega), w_toNat (by omega), w_toNat (by omega)]; omega
  have hi' := e i (by omega)
  have hj' := e j (by omega)
  have hm := e (ps / 16 - 1) (by omega)
  refine ⟨hi'.1, hi'.2, hm.1, hm.2, by rw [hm.2]; omega, fun hne => by rw [hi'.1, hj'.1]; omega⟩

/-! ## entry lists -/

section entries
variable {β : Type}

/-- keys strictly increasing and all above `lo` -/
def SortedFrom (lo : Key) : List (Key × β) → Prop
  | [] => True
  | e :: rest => lo < e.1 ∧ SortedFrom e.1 rest

/-- the key of the last entry, `lo` for the empty list -/
def lastKeyD (lo : Key) : List (Key × β) → Key
  | [] => lo
  | e :: rest => lastKeyD e.1 rest

/-- the key of the last entry is `hi` (in particular the list is not empty) -/
def LastKeyIs (es : List (Key × β)) (hi : Key) : Prop := es ≠ [] ∧ lastKeyD 0#64 es = hi

/-- sorted insertion / overwrite: the association-list meaning of `node.set` -/
def ins : List (Key × β) → Key → β → List (Key × β)
  | [], k, v => [(k, v)]
  | e :: rest, k, v =>
    if k < e.1 then (k, v) :: e :: rest
    else if k = e.1 then (k, v) :: rest
    else e :: ins rest k v

def hasKey (es : List (Key × β)) (k : Key) : Bool := es.any (·.1 == k)

@[simp] theorem lastKeyD_nil (lo : Key) : lastKeyD lo ([] : List (Key × β)) = lo := rfl
@[simp] theorem lastKeyD_cons (lo : Key) (e : Key × β) (r : List (Key × β)) :
    lastKeyD lo (e :: r) = lastKeyD e.1 r := rfl

theorem lastKeyD_of_ne_nil {es : List (Key × β)} (h : es ≠ []) (a b : Key) :
    lastKeyD a es = lastKeyD b es := by
  cases es with
  | nil => exact absurd rfl h
  | cons e r => rfl

theorem lastKeyD_append (lo : Key) (l r : List (Key × β)) :
    lastKeyD lo (l ++ r) = lastKeyD (lastKeyD lo l) r := by
  induction l generalizing lo with
  | nil => rfl
  | cons x rest ih => simp [ih]

theorem SortedFrom.mono {lo lo' : Key} {es : List (Key × β)} (h : SortedFrom lo es) (hl : lo' ≤ lo) :
    SortedFrom lo' es := by
  cases es with
  | nil => trivial
  | cons e rest => exact ⟨by have := h.1; bv_omega, h.2⟩

theorem SortedFrom.all_gt {lo : Key} {es : List (Key × β)} (h : SortedFrom lo es) :
    ∀ e ∈ es, lo < e.1 := by
  induction es generalizing lo with
  | nil => intro e he; cases he
  | cons x rest ih =>
    intro e he
    rcases List.mem_cons.mp he with rfl | he
    · exact h.1
    · have := ih h.2 e he; have := h.1; bv_omega

theorem sortedFrom_append {lo : Key} {l r : List (Key × β)} :
    SortedFrom lo (l ++ r) ↔ SortedFrom lo l ∧ SortedFrom (lastKeyD lo l) r := by
  induction l generalizing lo with
  | nil => simp [SortedFrom]
  | cons x rest ih =>
    simp only [List.cons_append, SortedFrom, lastKeyD_cons]
    rw [ih, and_assoc]

/-- in a sorted list every key is at most the last one -/
theorem SortedFrom.le_lastKeyD {lo : Key} {es : List (Key × β)} (h : SortedFrom lo es) :
    lo ≤ lastKeyD lo es ∧ ∀ e ∈ es, e.1 ≤ lastKeyD lo es := by
  induction es generalizing lo with
  | nil => exact ⟨BitVec.le_refl _, by intro e he; cases he⟩
  | cons x rest ih =>
    have ⟨h1, h2⟩ := ih h.2
    have := h.1
    refine ⟨by simp only [lastKeyD_cons]; bv_omega, ?_⟩
    intro e he
    rcases List.mem_cons.mp he with rfl | he
    · exact h1
    · exact h2 e he

theorem SortedFrom.le_last {lo hi : Key} {es : List (Key × β)} (h : SortedFrom lo es)
    (hl : LastKeyIs es hi) : ∀ e ∈ es, e.1 ≤ hi := by
  have := h.le_lastKeyD.2
  rw [lastKeyD_of_ne_nil hl.1 lo 0#64, hl.2] at this
  exact this

theorem SortedFrom.lo_lt_last {lo hi : Key} {es : List (Key × β)} (h : SortedFrom lo es)
    (hl : LastKeyIs es hi) : lo < hi := by
  cases es with
  | nil => exact absurd rfl hl.1
  | cons x rest =>
    have := h.le_last hl x (List.mem_cons_self ..)
    have := h.1
    bv_omega

/-! ### search -/

theorem search_le_length (es : List (Key × β)) (k : Key) : search es k ≤ es.length := by
  induction es with
  | nil => simp [search]
  | cons e rest ih =>
    obtain ⟨ki, x⟩ := e
    simp only [search]; split <;> simp <;> omega

/-- The specification of `n.search(k)`: the entries split into those with a key `< k` and
a rest that is empty or starts with a key `>= k`; the result is the length of the first part. -/
theorem search_spec (es : List (Key × β)) (k : Key) :
    ∃ l r, es = l ++ r ∧ l.length = search es k ∧ (∀ e ∈ l, e.1 < k) ∧
      (∀ e r', r = e :: r' → k ≤ e.1) := by
  induction es with
  | nil => exact ⟨[], [], rfl, rfl, by simp, by simp⟩
  | cons e rest ih =>
    obtain ⟨ki, x⟩ := e
    by_cases h : searchHit ki k = true
    · refine ⟨[], (ki, x) :: rest, rfl, by simp [search, h], by simp, ?_⟩
      intro e r' he
      injection he with he _
      subst he
      simpa [searchHit, BitVec.ule_iff_le] using h
    · obtain ⟨l, r, he, hl, h1, h2⟩ := ih
      refine ⟨(ki, x) :: l, r, by simp [he], by simp [search, h, hl], ?_, h2⟩
      intro e he'
      rcases List.mem_cons.mp he' with rfl | he'
      · simp only [searchHit, Bool.not_eq_true] at h
        have : ¬ (k ≤ ki) := by
          intro hle
          have := BitVec.ule_iff_le.mpr hle
          simp [this] at h
        bv_omega
      · exact h1 e he'

theorem keyAt_append_right (l r : List (Key × β)) : keyAt (l ++ r) l.length = keyAt r 0 := by
  unfold keyAt
  simp [List.getElem?_append_right]

theorem keyAt_cons_zero (e : Key × β) (r : List (Key × β)) : keyAt (e :: r) 0 = e.1 := by
  simp [keyAt]

theorem keyAt_nil (i : Nat) : keyAt ([] : List (Key × β)) i = 0#64 := by simp [keyAt]

/-! ### ins -/

theorem ins_append_of_lt {l : List (Key × β)} {k : Key} (h : ∀ e ∈ l, e.1 < k) (r : List (Key × β)) (v : β) :
    ins (l ++ r) k v = l ++ ins r k v := by
  induction l with
  | nil => rfl
  | cons x rest ih =>
    have hx : x.1 < k := h x (List.mem_cons_self ..)
    have h1 : ¬ k < x.1 := by bv_omega
    have h2 : ¬ k = x.1 := by bv_omega
    simp only [List.cons_append, ins, h1, h2, if_false]
    rw [ih (fun e he => h e (List.mem_cons_of_mem _ he))]

theorem hasKey_iff {es : List (Key × β)} {k : Key} : hasKey es k = true ↔ ∃ e ∈ es, e.1 = k := by
  simp [hasKey, List.any_eq_true]

theorem hasKey_false_iff {es : List (Key × β)} {k : Key} : hasKey es k = false ↔ ∀ e ∈ es, e.1 ≠ k := by
  rw [← Bool.not_eq_true, hasKey_iff]
  constructor
  · intro h e he hk; exact h ⟨e, he, hk⟩
  · intro h ⟨e, he, hk⟩; exact h e he hk

theorem ins_length (es : List (Key × β)) (k : Key) (v : β) (lo : Key) (hs : SortedFrom lo es) :
    (ins es k v).length = es.length + (if hasKey es k then 0 else 1) := by
  induction es generalizing lo with
  | nil => simp [ins, hasKey]
  | cons e rest ih =>
    simp only [ins]
    by_cases h1 : k < e.1
    · have : hasKey (e :: rest) k = false := by
        rw [hasKey_false_iff]
        intro x hx
        rcases List.mem_cons.mp hx with rfl | hx
        · bv_omega
        · have := hs.2.all_gt x hx; bv_omega
      simp [h1, this]
    · by_cases h2 : k = e.1
      · have : hasKey (e :: rest) k = true := hasKey_iff.mpr ⟨e, List.mem_cons_self .., h2.symm⟩
        simp [h1, h2, this]
        simp [← h2, this]
      · have hk : hasKey (e :: rest) k = hasKey rest k := by
          simp only [hasKey, List.any_cons]
          have : (e.1 == k) = false := by simp; exact fun h => h2 h.symm
          simp [this]
        simp only [h1, h2, if_false, List.length_cons, ih _ hs.2, hk]
        omega

theorem ins_sorted {lo : Key} {es : List (Key × β)} (hs : SortedFrom lo es) {k : Key} (hk : lo < k) (v : β) :
    SortedFrom lo (ins es k v) := by
  induction es generalizing lo with
  | nil => exact ⟨hk, trivial⟩
  | cons e rest ih =>
    simp only [ins]
    by_cases h1 : k < e.1
    · simp only [h1, if_true]; exact ⟨hk, h1, hs.2⟩
    · by_cases h2 : k = e.1
      · subst h2
        simp only [BitVec.lt_irrefl, if_false, if_true]; exact ⟨hs.1, hs.2⟩
      · simp only [h1, h2, if_false]
        exact ⟨hs.1, ih hs.2 (by bv_omega)⟩

/-- inserting a key not above the last key keeps the last key -/
theorem ins_lastKeyD {es : List (Key × β)} (hne : es ≠ []) {k : Key} (v : β) (lo : Key)
    (hs : SortedFrom lo es) (hk : k ≤ lastKeyD lo es) (a : Key) :
    lastKeyD a (ins es k v) = lastKeyD lo es := by
  induction es generalizing lo a with
  | nil => exact absurd rfl hne
  | cons e rest ih =>
    simp only [ins]
    by_cases h1 : k < e.1
    · simp [h1]
    · by_cases h2 : k = e.1
      · simp [h1, h2]
      · simp only [h1, h2, if_false, lastKeyD_cons]
        cases rest with
        | nil => simp at hk; bv_omega
        | cons y r' => exact ih (by simp) e.1 hs.2 (by simpa using hk) e.1

theorem ins_ne_nil (es : List (Key × β)) (k : Key) (v : β) : ins es k v ≠ [] := by
  cases es with
  | nil => simp [ins]
  | cons e rest =>
    simp only [ins]
    split
    · simp
    · split <;> simp

theorem ins_lastKeyIs {es : List (Key × β)} {hi lo : Key} (hl : LastKeyIs es hi) (hs : SortedFrom lo es)
    {k : Key} (hk : k ≤ hi) (v : β) : LastKeyIs (ins es k v) hi := by
  refine ⟨ins_ne_nil _ _ _, ?_⟩
  rw [ins_lastKeyD hl.1 v lo hs (by rw [lastKeyD_of_ne_nil hl.1 lo 0#64, hl.2]; exact hk),
    lastKeyD_of_ne_nil hl.1 lo 0#64, hl.2]

/-! ### maxKey -/

theorem maxKey_eq (es : List (Key × β)) (h : es.length < 2 ^ 63) : maxKey es = lastKeyD 0#64 es := by
  unfold maxKey maxKeyDec
  have h0 : (0#64 : BitVec 64) = w 0 := rfl
  rw [h0, w_slt (by omega) h]
  cases es with
  | nil => simp [keyAt]
  | cons e rest =>
    have : (0 < (e :: rest).length) := by simp
    simp only [this, decide_true, if_true]
    -- the last element
    have key : ∀ (a : Key) (l : List (Key × β)) (x : Key × β),
        keyAt (x :: l) l.length = lastKeyD a (x :: l) := by
      intro a l
      induction l generalizing a with
      | nil => intro x; simp [keyAt]
      | cons y l' ih =>
        intro x
        have := ih x.1 y
        simp only [lastKeyD_cons] at this ⊢
        rw [← this]
        simp [keyAt]
    simpa using key 0#64 rest e

/-! ### node.set -/

/-- `node.set` on a sorted node with room (or with the key already present) is sorted
insertion / overwrite; `numAdded` says whether the key was new. -/
theorem nodeSet_eq_ins (mk : Nat) (es : List (Key × β)) (k : Key) (v : β) (lo : Key)
    (hs : SortedFrom lo es) (hk : lo < k) (hmk : mk < 2 ^ 63)
    (hlen : es.length < mk ∨ (hasKey es k = true ∧ es.length ≤ mk)) :
    nodeSet mk es k v = some (ins es k v, if hasKey es k then 0 else 1) := by
  obtain ⟨l, r, he, hl, h1, h2⟩ := search_spec es k
  have hlenle : es.length ≤ mk := by rcases hlen with h | h <;> omega
  have hk0 : k ≠ 0#64 := by bv_omega
  subst he
  cases r with
  | nil =>
    simp only [List.append_nil] at *
    have hno : hasKey l k = false := hasKey_false_iff.mpr (fun e he => by have := h1 e he; bv_omega)
    have hlt : l.length < mk := by
      rcases hlen with h | h
      · exact h
      · rw [hno] at h; exact absurd h.1 (by simp)
    have hka : keyAt l l.length = 0#64 := by simp [keyAt]
    have hins : ins l k v = l ++ [(k, v)] := by
      have := ins_append_of_lt h1 [] v
      simpa [ins] using this
    unfold nodeSet
    simp only [← hl, hka]
    have e1 : ¬ (l.length ≥ mk) := by omega
    have e2 : setFull (w l.length) (w mk) = false := by
      unfold setFull; rw [w_beq (by omega) (by omega)]; simp; omega
    have e3 : setMove 0#64 k = false := by unfold setMove; simp [BitVec.ult]
    have e4 : setIsNew 0#64 k = true := by unfold setIsNew; simp; exact fun h => hk0 h.symm
    have e5 : setWrite 0#64 k = true := by unfold setWrite; simp
    simp [e1, e2, e3, e4, e5, hno, hins]
  | cons e r' =>
    have hke : k ≤ e.1 := h2 e r' rfl
    have hL : (l ++ e :: r').length = l.length + (r'.length + 1) := by simp
    have hidx : l.length < (l ++ e :: r').length := by omega
    have hka : keyAt (l ++ e :: r') l.length = e.1 := by
      rw [keyAt_append_right, keyAt_cons_zero]
    have hsr := (sortedFrom_append.mp hs).2
    unfold nodeSet
    simp only [← hl, hka]
    have e1 : ¬ (l.length ≥ mk) := by omega
    by_cases hlt : k < e.1
    · have hno : hasKey (l ++ e :: r') k = false := by
        rw [hasKey_false_iff]
        intro x hx
        rcases List.mem_append.mp hx with hx | hx
        · have := h1 x hx; bv_omega
        · rcases List.mem_cons.mp hx with rfl | hx
          · bv_omega
          · have := hsr.2.all_gt x hx; bv_omega
      have hlt' : (l ++ e :: r').length < mk := by
        rcases hlen with h | h
        · exact h
        · rw [hno] at h; exact absurd h.1 (by simp)
      have e2 : setFull (w (l ++ e :: r').length) (w mk) = false := by
        unfold setFull; rw [w_beq (by omega) (by omega)]; simp; omega
      have e3 : setMove e.1 k = true := by unfold setMove; exact BitVec.ult_iff_lt.mpr hlt
      have e3' : moveRightAssert (w (l ++ e :: r').length) (w mk) = true := by
        unfold moveRightAssert
        rw [bne, w_beq (by omega) (by omega)]; simp; omega
      have e4 : setIsNew e.1 k = true := by unfold setIsNew; simp; bv_omega
      have e5 : setWrite e.1 k = true := by
        unfold setWrite; simp; right; exact BitVec.ule_iff_le.mpr hke
      simp only [e1, e2, e3, e3', e4, e5, hno, hidx]
      simp [ins_append_of_lt h1 (e :: r') v, ins, hlt]
    · have heq : k = e.1 := by bv_omega
      have hyes : hasKey (l ++ e :: r') k = true :=
        hasKey_iff.mpr ⟨e, by simp, heq.symm⟩
      have e2 : (setFull (w (l ++ e :: r').length) (w mk) && !setFullAssert e.1 k) = false := by
        unfold setFullAssert; simp [heq]
      have e3 : setMove e.1 k = false := by unfold setMove; simp [heq, BitVec.ult]
      have e4 : setIsNew e.1 k = false := by unfold setIsNew; simp [heq]
      have e5 : setWrite e.1 k = true := by
        unfold setWrite; simp; right; exact BitVec.ule_iff_le.mpr hke
      have hins : ins (l ++ e :: r') k v = l ++ (k, v) :: r' := by
        rw [ins_append_of_lt h1 (e :: r') v]; simp [ins, hlt, heq]
      simp only [e1, e2, e3, e4, e5, hyes, hidx, hins]
      simp

end entries

/-! ## leaves: the association-list semantics -/

/-- value stored under `k`, 0 if there is none (a stored 0 is a placeholder: also "absent") -/
def lookupD : List (Key × Val) → Key → Val
  | [], _ => 0#64
  | e :: rest, k => if e.1 = k then e.2 else lookupD rest k

theorem lookupD_append_of_not_mem {l : List (Key × Val)} {k : Key} (h : ∀ e ∈ l, e.1 ≠ k) (r : List (Key × Val)) :
    lookupD (l ++ r) k = lookupD r k := by
  induction l with
  | nil => rfl
  | cons x rest ih =>
    simp only [List.cons_append, lookupD, h x (List.mem_cons_self ..), if_false]
    exact ih (fun e he => h e (List.mem_cons_of_mem _ he))

theorem lookupD_of_not_mem {l : List (Key × Val)} {k : Key} (h : ∀ e ∈ l, e.1 ≠ k) : lookupD l k = 0#64 := by
  have := lookupD_append_of_not_mem h []
  simpa [lookupD] using this

theorem lookupD_append_of_mem {l : List (Key × Val)} {k : Key} (h : ∃ e ∈ l, e.1 = k) (r : List (Key × Val)) :
    lookupD (l ++ r) k = lookupD l k := by
  induction l with
  | nil => obtain ⟨e, he, _⟩ := h; cases he
  | cons x rest ih =>
    simp only [List.cons_append, lookupD]
    by_cases hx : x.1 = k
    · simp [hx]
    · simp only [hx, if_false]
      apply ih
      obtain ⟨e, he, hk⟩ := h
      rcases List.mem_cons.mp he with rfl | he
      · exact absurd hk hx
      · exact ⟨e, he, hk⟩

/-- the map after `ins`: `k ↦ v`, everything else unchanged -/
theorem lookupD_ins (es : List (Key × Val)) (k : Key) (v : Val) (k' : Key) :
    lookupD (ins es k v) k' = if k' = k then v else lookupD es k' := by
  induction es with
  | nil =>
    by_cases h : k' = k
    · subst h; simp [ins, lookupD]
    · have : ¬ k = k' := fun e => h e.symm
      simp [ins, lookupD, h, this]
  | cons e rest ih =>
    simp only [ins]
    by_cases h1 : k < e.1
    · simp only [h1, if_true, lookupD]
      by_cases h : k' = k
      · subst h; simp
      · have : ¬ k = k' := fun e => h e.symm
        simp [h, this]
    · by_cases h2 : k = e.1
      · subst h2
        simp only [BitVec.lt_irrefl, if_false, if_true]
        by_cases h : k' = e.1
        · simp [h, lookupD]
        · have : ¬ e.1 = k' := fun x => h x.symm
          simp [h, this, lookupD]
      · simp only [h1, h2, if_false, lookupD, ih]
        by_cases h : k' = k
        · subst h
          have : ¬ e.1 = k' := fun x => h2 x.symm
          simp [this]
        · simp [h]

/-- `node.get` on a sorted leaf is the association-list lookup. -/
theorem leafGet_eq_lookupD (es : List (Key × Val)) (k : Key) (lo : Key) (hs : SortedFrom lo es)
    (hlen : es.length < 2 ^ 64) : leafGet es k = lookupD es k := by
  obtain ⟨l, r, he, hl, h1, h2⟩ := search_spec es k
  subst he
  have hl' : ∀ e ∈ l, e.1 ≠ k := fun e he => by have := h1 e he; bv_omega
  unfold leafGet
  rw [← hl, lookupD_append_of_not_mem hl']
  cases r with
  | nil =>
    have : getMiss (w l.length) (w (l ++ ([] : List (Key × Val))).length) = true := by
      unfold getMiss; simp
    simp [this, lookupD]
  | cons e r' =>
    have hL : (l ++ e :: r').length = l.length + (r'.length + 1) := by simp
    have : getMiss (w l.length) (w (l ++ e :: r').length) = false := by
      unfold getMiss; rw [w_beq (by omega) (by omega)]; simp
    have hget : (l ++ e :: r')[l.length]? = some e := by simp
    simp only [this, hget, lookupD]
    have hke : k ≤ e.1 := h2 e r' rfl
    have hsr := (sortedFrom_append.mp hs).2
    by_cases heq : e.1 = k
    · simp [getHit, heq]
    · have : lookupD r' k = 0#64 := lookupD_of_not_mem (fun x hx => by
        have := hsr.2.all_gt x hx; bv_omega)
      simp [getHit, heq, this]

end RV.Tree
