import RV.Proofs.TieTreeBase
import RV.Proofs.NodeFlatMap
/-!
# The tree on flat memory: `Tree.get` (generated whole) = the structural `getNode`

Read-only recursion: under `Repr` (the structural node is laid out in the words) the generated
`Gen.TreeM.get` with `fuel ≥ height` returns what the model's `getNode` returns, including the
`assert(child != nil)` panic on a nil child (`none` on both sides).
-/
namespace RV.TreeFlat
open RV.Tree RV.NodeFlat Gen.TreeM

/-! ## the structural side, by index -/

theorem getEnts_index : ∀ (es : List (Key × Node)) (k : Key),
    getEnts es k = match es[search es k]? with
      | none => none
      | some e => getNode e.2 k
  | [], k => by simp [getEnts, search]
  | (ki, c) :: rest, k => by
    by_cases h : Gen.Tree.searchHit ki k
    · cases c <;> simp [getEnts, search, h, Tree.getNode]
    · have ih := getEnts_index rest k
      cases c <;> simp [getEnts, search, h, ih]

theorem reprEnts_get : ∀ {cfg : Cfg} {d : Words} (es : List (Key × Node)) (i : Nat) (e : Key × Node),
    ReprEnts cfg d es → es[i]? = some e → Repr cfg d e.2
  | _, _, [], _, _, _, h => by simp at h
  | _, _, (_, c) :: _, 0, e, hr, h => by
    simp only [List.getElem?_cons_zero, Option.some.injEq] at h
    subst h; rw [ReprEnts] at hr; exact hr.1
  | _, _, (_, _) :: rest, i + 1, e, hr, h => by
    simp only [List.getElem?_cons_succ] at h
    rw [ReprEnts] at hr
    exact reprEnts_get rest i e hr.2 h

theorem heightEnts_get : ∀ (es : List (Key × Node)) (i : Nat) (e : Key × Node),
    es[i]? = some e → height e.2 ≤ heightEnts es
  | [], _, _, h => by simp at h
  | (_, c) :: _, 0, e, h => by
    simp only [List.getElem?_cons_zero, Option.some.injEq] at h
    subst h; rw [heightEnts]; simp only []; omega
  | (_, _) :: rest, i + 1, e, h => by
    simp only [List.getElem?_cons_succ] at h
    have := heightEnts_get rest i e h
    rw [heightEnts]; omega

theorem entWords_get? (es : List (Key × Node)) (i : Nat) :
    (entWords es)[i]? = (es[i]?).map fun e => (e.1, childWord e.2) := by
  rw [entWords_eq_mapV]; simp [mapV]

theorem entWords_length (es : List (Key × Node)) : (entWords es).length = es.length := by
  rw [entWords_eq_mapV]; simp [mapV]

/-! ## the page of a represented node -/

theorem repr_leaf {cfg : Cfg} {d : Words} {p : Nat} {es : List (Key × Val)} (h : Repr cfg d (.leaf p es)) :
    PageOf cfg d p true es := by
  rw [Repr] at h; exact h

theorem repr_inner {cfg : Cfg} {d : Words} {p : Nat} {es : List (Key × Node)} (h : Repr cfg d (.inner p es)) :
    PageOf cfg d p false (entWords es) ∧ ReprEnts cfg d es := by
  rw [Repr] at h; exact h

/-! ## the refinement -/

theorem get_refines {cfg : Cfg} (hc : CfgFlat cfg) (t : St) (hsmall : t.data.size < 2 ^ 40) :
    ∀ (fuel : Nat) (n : Node) (k : Key), n ≠ .null → Repr cfg t.data n → height n ≤ fuel →
      Gen.TreeM.get (w cfg.pageSize) (w cfg.maxKeys) fuel t (refOf cfg t n.pid) k = getNode n k
  | 0, n, _, hn, _, hh => by
    cases n with
    | null => exact absurd rfl hn
    | leaf p es => rw [height] at hh; omega
    | inner p es => rw [height] at hh; omega
  | fuel + 1, .null, _, hn, _, _ => absurd rfl hn
  | fuel + 1, .leaf p es, k, _, hr, _ => by
    have hp := repr_leaf hr
    have hs := hp.ok.1
    have hmk := hc.mkLt
    rw [Gen.TreeM.get]
    simp only [Node.pid]
    rw [rdNode_refOf t p hp.fit, isLeaf_w hs (by omega), hp.isLeaf]
    simp only [Option.bind_some, if_true]
    rw [rdNode_refOf t p hp.fit, get_w hs hmk hp.ok.2.1 k, hp.ents]
    simp [Tree.getNode]
  | fuel + 1, .inner p es, k, _, hr, hh => by
    obtain ⟨hp, hre⟩ := repr_inner hr
    have hs := hp.ok.1
    have hmk := hc.mkLt
    have hnk : nkeys cfg.maxKeys (pageOf cfg t.data p) = es.length := by
      rw [← ents_length, hp.ents, entWords_length]
    have hle : es.length ≤ cfg.maxKeys := by rw [← hnk]; exact hp.ok.2.1
    have hsearch : search (ents cfg.maxKeys (pageOf cfg t.data p)) k = search es k := by
      rw [hp.ents, entWords_eq_mapV, search_mapV]
    have hsl : search es k ≤ es.length := search_le_length es k
    rw [Gen.TreeM.get]
    simp only [Node.pid]
    rw [rdNode_refOf t p hp.fit, isLeaf_w hs (by omega), hp.isLeaf]
    simp only [Option.bind_some, Bool.false_eq_true, if_false]
    rw [rdNode_refOf t p hp.fit, search_w hs hmk hp.ok.2.1 k, hsearch]
    simp only [Option.bind_some]
    rw [rdNode_refOf t p hp.fit, numKeys_w hs (by omega), hnk]
    simp only [Option.bind_some]
    rw [Tree.getNode, getEnts_index]
    have hbeq : (w (search es k) == w es.length) = decide (search es k = es.length) :=
      w_beq (by omega) (by omega)
    by_cases hend : search es k = es.length
    · -- no key >= k: both return 0
      simp only [hend, if_true, Option.bind_some, Gen.Tree.getNoChild, BEq.rfl, Bool.true_or]
    · have hlt : search es k < es.length := by omega
      obtain ⟨e, he⟩ : ∃ e, es[search es k]? = some e := ⟨es[search es k], by simp [hlt]⟩
      have hkey : Gen.Node.key (pageOf cfg t.data p) (w (search es k)) = some e.1 := by
        rw [key_keyAt hp.ok (by omega) (by omega), hp.ents, entWords_eq_mapV, keyAt_mapV]
        simp [keyAt, he]
      have hkeyAt : keyAt es (search es k) = e.1 := by simp [keyAt, he]
      simp only [hbeq, hend, decide_false, Bool.false_eq_true, if_false, Gen.Tree.getNoChild, Bool.false_or]
      rw [rdNode_refOf t p hp.fit, hkey, hkeyAt]
      simp only [Option.bind_some]
      by_cases hz : e.1 == 0#64
      · simp only [hz, if_true]
      · simp only [hz, Bool.false_eq_true, if_false, he]
        -- the child pointer
        have hval : Gen.Node.uint64 (pageOf cfg t.data p) (Gen.Tree.valOffset (w (search es k))) =
            some (childWord e.2) := by
          rw [valOffset_w, uint64_w (by omega) (by omega)]
          have h2 := ents_get? (mk := cfg.maxKeys) (p := pageOf cfg t.data p) (search es k)
          rw [hp.ents, entWords_get?, he, hnk, if_pos hlt] at h2
          simp only [Option.map_some, Option.some.injEq, Prod.mk.injEq] at h2
          exact congrArg some h2.2.symm
        rw [rdNode_refOf t p hp.fit, hval]
        simp only [Option.bind_some]
        have hrc : Repr cfg t.data e.2 := reprEnts_get es _ e hre he
        have hhc : height e.2 ≤ fuel := by
          have := heightEnts_get es _ e he
          rw [height] at hh; omega
        cases hc2 : e.2 with
        | null =>
          -- assert(child != nil)
          simp only [childWord, Node.pid]
          rw [show w 0 = 0#64 from rfl, node_zero]
          simp [Gen.TreeM.isNil, Gen.guard, Tree.getNode]
        | leaf q ces =>
          rw [hc2] at hrc hhc
          have hq := repr_leaf hrc
          simp only [childWord, Node.pid]
          rw [node_w hc t q hq.pos hq.fit hsmall]
          simp only [Option.bind_some, refOf, Gen.TreeM.isNil, Bool.not_false, guard_true]
          have ih := get_refines hc t hsmall fuel (.leaf q ces) k (by simp) hrc hhc
          simp only [Node.pid, refOf] at ih
          rw [ih]; simp
        | inner q ces =>
          rw [hc2] at hrc hhc
          have hq := (repr_inner hrc).1
          simp only [childWord, Node.pid]
          rw [node_w hc t q hq.pos hq.fit hsmall]
          simp only [Option.bind_some, refOf, Gen.TreeM.isNil, Bool.not_false, guard_true]
          have ih := get_refines hc t hsmall fuel (.inner q ces) k (by simp) hrc hhc
          simp only [Node.pid, refOf] at ih
          rw [ih]; simp

end RV.TreeFlat
