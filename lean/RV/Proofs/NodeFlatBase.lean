import RV.Model.NodeFlat
import RV.Proofs.TreeNode
import RV.Proofs.ArrayLemmas
/-!
# Flat pages: the constructs of `RV/GenNode.lean` and the word-level accessors

Lemmas about `Gen.rd` / `Gen.wr` / `Gen.forRange` / `Gen.blit` / `Gen.copyWithin` / `Gen.window`
(the meaning go2lean's `KFuncM` gives to bounds-checked accesses, loops and sub-slices) and about
the generated accessors `Gen.Node.uint64 / key / val / numKeys / pageID / setAt / setNumKeys /
setBit / bits / isLeaf / isFull / zeroOut` on a page of the right size.
-/
namespace RV.NodeFlat
open RV.Tree (Key Val w w_toNat w_toInt w_slt w_sle w_beq)

/-! ## words -/

theorem w_add (a b : Nat) : w a + w b = w (a + b) := (BitVec.ofNat_add a b).symm

theorem w_add_one (a : Nat) : w a + 1#64 = w (a + 1) := w_add a 1

theorem w_sub_one {a : Nat} (h : 1 ≤ a) : w a - 1#64 = w (a - 1) := by
  have e : w a = w (a - 1) + 1#64 := by rw [w_add_one]; congr 1; omega
  rw [e, BitVec.add_sub_cancel]

theorem w_inj {a b : Nat} (ha : a < 2 ^ 64) (hb : b < 2 ^ 64) (h : w a = w b) : a = b := by
  have := congrArg BitVec.toNat h
  rwa [w_toNat ha, w_toNat hb] at this

theorem keyOffset_w (i : Nat) : Gen.Tree.keyOffset (w i) = w (2 * i) := by
  simp [Gen.Tree.keyOffset, w, BitVec.ofNat_mul]

theorem valOffset_w (i : Nat) : Gen.Tree.valOffset (w i) = w (2 * i + 1) := by
  simp [Gen.Tree.valOffset, w, BitVec.ofNat_mul, BitVec.ofNat_add]

theorem w_ult {a b : Nat} (ha : a < 2 ^ 64) (hb : b < 2 ^ 64) : BitVec.ult (w a) (w b) = decide (a < b) := by
  simp [BitVec.ult, w_toNat ha, w_toNat hb]

/-! ## bounds-checked access -/

theorem rd_w {a : Page} {i : Nat} (h : i < a.size) (h64 : a.size ≤ 2 ^ 64) : Gen.rd a (w i) = some a[i]! := by
  unfold Gen.rd; rw [w_toNat (by omega)]; simp [h]

theorem rd_w_none {a : Page} {i : Nat} (h : a.size ≤ i) (h64 : i < 2 ^ 64) : Gen.rd a (w i) = none := by
  unfold Gen.rd; rw [w_toNat h64]; simp; omega

theorem wr_w {a : Page} {i : Nat} (v : BitVec 64) (h : i < a.size) (h64 : a.size ≤ 2 ^ 64) :
    Gen.wr a (w i) v = some (a.set! i v) := by
  unfold Gen.wr; rw [w_toNat (by omega)]; simp [h]

theorem guard_true : Gen.guard true = some () := rfl
theorem guard_false : Gen.guard false = none := rfl

/-! ## loops -/

section loops
variable {ρ σ : Type}

/-- Invariant rule for `for i := lo; i < hi; i++`: every round either continues and re-establishes
the invariant, or returns a value satisfying `Q`. -/
theorem forRange_rule (lo hi : Nat) (hlo : lo ≤ hi) (hhi : hi < 2 ^ 63)
    (body : BitVec 64 → σ → Option (Gen.LoopOut ρ σ)) (Inv : Nat → σ → Prop) (Q : ρ → Prop) (s0 : σ)
    (h0 : Inv lo s0)
    (hstep : ∀ i s, lo ≤ i → i < hi → Inv i s →
      (∃ s', body (w i) s = some (.next s') ∧ Inv (i + 1) s') ∨ (∃ r, body (w i) s = some (.ret r) ∧ Q r)) :
    (∃ s', Gen.forRange (w lo) (w hi) body s0 = some (.done s' (w hi)) ∧ Inv hi s') ∨
    (∃ r, Gen.forRange (w lo) (w hi) body s0 = some (.ret r) ∧ Q r) := by
  unfold Gen.forRange
  rw [w_toInt hhi, w_toInt (show lo < 2 ^ 63 by omega)]
  have hfuel : ((hi : Int) - (lo : Int)).toNat = hi - lo := by omega
  rw [hfuel]
  -- generalise the start
  suffices H : ∀ fuel i s, lo ≤ i → i ≤ hi → fuel = hi - i → Inv i s →
      (∃ s', Gen.forGo (w hi) body fuel (w i) s = some (.done s' (w hi)) ∧ Inv hi s') ∨
      (∃ r, Gen.forGo (w hi) body fuel (w i) s = some (.ret r) ∧ Q r) from
    H (hi - lo) lo s0 (Nat.le_refl _) hlo rfl h0
  intro fuel
  induction fuel with
  | zero =>
    intro i s _ hi2 hf hinv
    have : i = hi := by omega
    subst this
    left
    refine ⟨s, ?_, hinv⟩
    simp [Gen.forGo, w_slt hhi hhi]
  | succ fuel ih =>
    intro i s hli hi2 hf hinv
    have hlt : i < hi := by omega
    unfold Gen.forGo
    rw [w_slt (by omega) hhi]
    simp only [hlt, decide_true, if_true]
    rcases hstep i s hli hlt hinv with ⟨s', hb, hinv'⟩ | ⟨r, hb, hq⟩
    · rw [hb]
      simp only [w_add_one]
      exact ih (i + 1) s' (by omega) (by omega) (by omega) hinv'
    · rw [hb]
      right
      exact ⟨r, rfl, hq⟩

/-- The same for a loop whose body never returns. -/
theorem forRange_next (lo hi : Nat) (hlo : lo ≤ hi) (hhi : hi < 2 ^ 63)
    (body : BitVec 64 → σ → Option (Gen.LoopOut ρ σ)) (Inv : Nat → σ → Prop) (s0 : σ)
    (h0 : Inv lo s0)
    (hstep : ∀ i s, lo ≤ i → i < hi → Inv i s → ∃ s', body (w i) s = some (.next s') ∧ Inv (i + 1) s') :
    ∃ s', Gen.forRange (w lo) (w hi) body s0 = some (.done s' (w hi)) ∧ Inv hi s' := by
  rcases forRange_rule lo hi hlo hhi body Inv (fun _ => False) s0 h0
      (fun i s h1 h2 h3 => Or.inl (hstep i s h1 h2 h3)) with h | ⟨_, _, hf⟩
  · exact h
  · exact hf.elim

end loops

/-! ## sub-slices -/

theorem winOk_w {a : Page} {lo hi : Nat} (h1 : lo ≤ hi) (h2 : hi ≤ a.size) (h63 : a.size < 2 ^ 63) :
    Gen.winOk a (w lo) (w hi) = true := by
  unfold Gen.winOk
  rw [w_toInt (by omega), w_toInt (by omega)]
  simp; omega

theorem winOk_w_false {a : Page} {lo hi : Nat} (h : hi < lo ∨ a.size < hi) (hlo : lo < 2 ^ 63) (hhi : hi < 2 ^ 63) :
    Gen.winOk a (w lo) (w hi) = false := by
  unfold Gen.winOk
  rw [w_toInt hlo, w_toInt hhi]
  simp; omega

theorem blit_size (a : Page) (pos : Nat) (src : Page) : (Gen.blit a pos src).size = a.size := by
  simp [Gen.blit]

theorem blit_get (a : Page) (pos : Nat) (src : Page) (i : Nat) (hi : i < a.size) :
    (Gen.blit a pos src)[i]! = if pos ≤ i ∧ i < pos + src.size then src[i - pos]! else a[i]! := by
  have hs : i < (Gen.blit a pos src).size := by rw [blit_size]; exact hi
  rw [getElem!_pos _ i hs, getElem!_pos a i hi]
  simp [Gen.blit]

theorem blit_get_ge (a : Page) (pos : Nat) (src : Page) (i : Nat) (hi : a.size ≤ i) :
    (Gen.blit a pos src)[i]! = a[i]! := by
  have hs : ¬ i < (Gen.blit a pos src).size := by rw [blit_size]; omega
  rw [getElem!_neg _ i hs, getElem!_neg _ i (by omega)]

theorem extract_get! (a : Page) (s e i : Nat) (h : s + i < e) (he : e ≤ a.size) :
    (a.extract s e)[i]! = a[s + i]! := by
  have h1 : i < (a.extract s e).size := by rw [Array.size_extract]; omega
  have h2 : s + i < a.size := by omega
  rw [getElem!_pos (a.extract s e) i h1, getElem!_pos a (s + i) h2, Array.getElem_extract]

/-- `copy(a[dlo:dlo+n], a[slo:slo+n])`: the words `dlo … dlo+n-1` get the OLD words `slo … slo+n-1`. -/
theorem copyWithin_w {a : Page} {dlo slo n : Nat} (hd : dlo + n ≤ a.size) (hs : slo + n ≤ a.size)
    (h63 : a.size < 2 ^ 63) :
    ∃ a', Gen.copyWithin a (w dlo) (w (dlo + n)) (w slo) (w (slo + n)) = some a' ∧ a'.size = a.size ∧
      ∀ i, a'[i]! = if dlo ≤ i ∧ i < dlo + n then a[slo + (i - dlo)]! else a[i]! := by
  unfold Gen.copyWithin
  rw [winOk_w (by omega) hd h63, winOk_w (by omega) hs h63]
  simp only [Bool.and_self, if_true]
  refine ⟨_, rfl, blit_size _ _ _, ?_⟩
  intro i
  rw [w_toNat (by omega), w_toNat (by omega), w_toNat (by omega), w_toNat (by omega)]
  have hk : min (dlo + n - dlo) (slo + n - slo) = n := by omega
  rw [hk]
  have hes : (a.extract slo (slo + n)).size = n := by rw [Array.size_extract]; omega
  by_cases hi : i < a.size
  · rw [blit_get _ _ _ _ hi, hes]
    by_cases hc : dlo ≤ i ∧ i < dlo + n
    · simp only [hc, and_self, if_true]
      rw [extract_get! a slo (slo + n) (i - dlo) (by omega) hs]
    · simp only [hc, if_false]
  · rw [blit_get_ge _ _ _ _ (by omega)]
    have : ¬ (dlo ≤ i ∧ i < dlo + n) := by omega
    simp only [this, if_false]

/-! ## the accessors -/

section accessors
variable {mk : Nat} {p : Page}

theorem uint64_w {j : Nat} (h : j < p.size) (h64 : p.size ≤ 2 ^ 64) : Gen.Node.uint64 p (w j) = some p[j]! := by
  unfold Gen.Node.uint64; rw [rd_w h h64]; rfl

theorem setAt_w {j : Nat} (v : BitVec 64) (h : j < p.size) (h64 : p.size ≤ 2 ^ 64) :
    Gen.Node.setAt p (w j) v = some (p.set! j v) := by
  unfold Gen.Node.setAt; rw [wr_w v h h64]; rfl

theorem key_w {i : Nat} (h : 2 * i < p.size) (h64 : p.size ≤ 2 ^ 64) : Gen.Node.key p (w i) = some (keyW p i) := by
  unfold Gen.Node.key; rw [keyOffset_w, uint64_w h h64]; rfl

theorem val_w {i : Nat} (h : 2 * i + 1 < p.size) (h64 : p.size ≤ 2 ^ 64) : Gen.Node.val p (w i) = some (valW p i) := by
  unfold Gen.Node.val; rw [valOffset_w, uint64_w h h64]; rfl

theorem and_mask32_w (x : BitVec 64) : x &&& 4294967295#64 = w (x.toNat % 2 ^ 32) := by
  apply BitVec.eq_of_toNat_eq
  rw [BitVec.toNat_and, w_toNat (show x.toNat % 2 ^ 32 < 2 ^ 64 by omega)]
  simpa using RV.Tree.and_mask32 x.toNat

theorem numKeys_w (hs : p.size = 2 * (mk + 1)) (h64 : p.size ≤ 2 ^ 64) :
    Gen.Node.numKeys p (w mk) = some (w (nkeys mk p)) := by
  unfold Gen.Node.numKeys
  rw [valOffset_w, uint64_w (by omega) h64]
  simp only [Option.bind_some]
  rw [and_mask32_w]; rfl

theorem pageID_w (hs : p.size = 2 * (mk + 1)) (h64 : p.size ≤ 2 ^ 64) :
    Gen.Node.pageID p (w mk) = some (pidW mk p) := by
  unfold Gen.Node.pageID
  rw [keyOffset_w, uint64_w (by omega) h64]; rfl

theorem isFull_w (hs : p.size = 2 * (mk + 1)) (h64 : p.size ≤ 2 ^ 64) (hmk : mk < 2 ^ 32) :
    Gen.Node.isFull p (w mk) = some (decide (nkeys mk p = mk)) := by
  unfold Gen.Node.isFull
  rw [numKeys_w hs h64]
  simp only [Option.bind_some]
  rw [w_beq (by unfold nkeys; omega) (by omega)]

end accessors

end RV.NodeFlat
