import RV.Proofs.TreeNode
import RV.Model.TreeFile
/-!
# The ordering invariant of the tree and the abstraction to a sorted association list

`toList n` is the in-order concatenation of the leaves below `n`.  `okNode mk b n lo hi`
says: every key below `n` lies in `(lo, hi]`, keys are strictly increasing in every node,
every inner entry's key is the largest key of its (non-nil, non-empty) child subtree, the
last key of `n` is `hi`, `n` holds at most `b` entries and every node below it fewer than
`mk` (= `maxKeys`).  Under it, `Tree.get` is the association-list lookup in `toList`.
-/
namespace RV.Tree
open Gen.Tree

mutual
def toList : Node → List (Key × Val)
  | .null => []
  | .leaf _ es => es
  | .inner _ es => toListEnts es
def toListEnts : List (Key × Node) → List (Key × Val)
  | [] => []
  | (_, c) :: rest => toList c ++ toListEnts rest
end

mutual
def okNode (mk : Nat) : Nat → Node → Key → Key → Prop
  | _, .null, _, _ => False
  | b, .leaf _ es, lo, hi => SortedFrom lo es ∧ LastKeyIs es hi ∧ es.length ≤ b
  | b, .inner _ es, lo, hi => okEnts mk es lo ∧ LastKeyIs es hi ∧ es.length ≤ b
def okEnts (mk : Nat) : List (Key × Node) → Key → Prop
  | [], _ => True
  | (ki, c) :: rest, lo => okNode mk (mk - 1) c lo ki ∧ okEnts mk rest ki
end

mutual
/-- page ids of the reachable nodes, pre-order -/
def pids : Node → List Nat
  | .null => []
  | .leaf p _ => [p]
  | .inner p es => p :: pidsEnts es
def pidsEnts : List (Key × Node) → List Nat
  | [] => []
  | (_, c) :: rest => pids c ++ pidsEnts rest
end


theorem pidsEnts_append (l r : List (Key × Node)) : pidsEnts (l ++ r) = pidsEnts l ++ pidsEnts r := by
  induction l with
  | nil => rfl
  | cons x rest ih =>
    obtain ⟨ki, c⟩ := x
    simp [pidsEnts, ih]

/-! ## counting leaf keys (`stats.NumLeafKeys`) -/

theorem countLeafKeysEnts_append (l r : List (Key × Node)) :
    countLeafKeysEnts (l ++ r) = countLeafKeysEnts l + countLeafKeysEnts r := by
  induction l with
  | nil => simp [countLeafKeysEnts]
  | cons x rest ih =>
    obtain ⟨ki, c⟩ := x
    simp [countLeafKeysEnts, ih]; omega

theorem countLeafKeys_leaf (p : Nat) (es : List (Key × Val)) (h : es.length < 2 ^ 32) :
    countLeafKeys (.leaf p es) = es.length := by
  rw [countLeafKeys]; exact Node.numKeys_eq _ h

/-! ## conservation of pages

`Cons a a' X Y`: going from allocator state `a` to `a'`, the pages `X` (of the part of the tree
that was worked on) became the pages `Y`; counted with multiplicity, `Y` plus the new free list
is `X` plus the old free list plus the pages freshly taken from the frontier. -/
structure Cons (a a' : Alloc) (X Y : List Nat) : Prop where
  np : a.nextPage ≤ a'.nextPage
  cnt : ∀ x, List.count x Y + List.count x a'.free =
    List.count x X + List.count x a.free + List.count x (List.range' a.nextPage (a'.nextPage - a.nextPage))
  /-- `stats.NumPagesFree` moves in step with the length of the free list -/
  pf : a'.pagesFree - (a'.free.length : Int) = a.pagesFree - (a.free.length : Int)

theorem Cons.same {a a' : Alloc} (h1 : a'.nextPage = a.nextPage) (h2 : a'.free = a.free)
    (h3 : a'.pagesFree = a.pagesFree) (X : List Nat) : Cons a a' X X := by
  refine ⟨by omega, fun x => ?_, by rw [h2, h3]⟩
  rw [h1, h2]; simp

theorem count_range'_split (x s m n : Nat) :
    List.count x (List.range' s (m + n)) = List.count x (List.range' s m) + List.count x (List.range' (s + m) n) := by
  have := List.range'_append_1 (s := s) (m := m) (n := n)
  rw [← this, List.count_append]

theorem Cons.trans {a a' a'' : Alloc} {X Y Z : List Nat} (h1 : Cons a a' X Y) (h2 : Cons a' a'' Y Z) :
    Cons a a'' X Z := by
  refine ⟨by have := h1.1; have := h2.1; omega, fun x => ?_, by have := h1.3; have := h2.3; omega⟩
  have e1 := h1.2 x
  have e2 := h2.2 x
  have hs : a''.nextPage - a.nextPage = (a'.nextPage - a.nextPage) + (a''.nextPage - a'.nextPage) := by
    have := h1.1; have := h2.1; omega
  have hs2 : a.nextPage + (a'.nextPage - a.nextPage) = a'.nextPage := by have := h1.1; omega
  rw [hs, count_range'_split, hs2]
  omega

/-- a conservation statement may be transported along equal page counts -/
theorem Cons.congr {a a' : Alloc} {X Y X' Y' : List Nat} (h : Cons a a' X Y)
    (hX : ∀ x, List.count x X' = List.count x X) (hY : ∀ x, List.count x Y' = List.count x Y) :
    Cons a a' X' Y' :=
  ⟨h.1, fun x => by rw [hX, hY]; exact h.2 x, h.3⟩

/-- two parts of the tree worked on one after the other -/
theorem Cons.seq {a a' a'' : Alloc} {X Y X2 Y2 : List Nat} (h1 : Cons a a' X Y) (h2 : Cons a' a'' X2 Y2) :
    Cons a a'' (X ++ X2) (Y ++ Y2) := by
  have f1 : Cons a a' (X ++ X2) (Y ++ X2) := by
    refine ⟨h1.1, fun x => ?_, h1.3⟩
    have := h1.2 x
    simp only [List.count_append]; omega
  have f2 : Cons a' a'' (Y ++ X2) (Y ++ Y2) := by
    refine ⟨h2.1, fun x => ?_, h2.3⟩
    have := h2.2 x
    simp only [List.count_append]; omega
  exact f1.trans f2

theorem Cons.frame {a a' : Alloc} {X Y : List Nat} (h : Cons a a' X Y) (F G : List Nat) :
    Cons a a' (F ++ X ++ G) (F ++ Y ++ G) :=
  ⟨h.1, fun x => by have := h.2 x; simp only [List.count_append]; omega, h.3⟩

theorem okNode_weaken {mk b b' : Nat} {n : Node} {lo hi : Key} (h : okNode mk b n lo hi) (hb : b ≤ b') :
    okNode mk b' n lo hi := by
  cases n with
  | null => exact h
  | leaf p es => exact ⟨h.1, h.2.1, by have := h.2.2; omega⟩
  | inner p es => exact ⟨h.1, h.2.1, by have := h.2.2; omega⟩

theorem okNode_len {mk b : Nat} {n : Node} {lo hi : Key} (h : okNode mk b n lo hi) : n.len ≤ b := by
  cases n with
  | null => exact absurd h id
  | leaf p es => exact h.2.2
  | inner p es => exact h.2.2

theorem okNode_ne_null {mk b : Nat} {n : Node} {lo hi : Key} (h : okNode mk b n lo hi) : n ≠ .null := by
  intro e; subst e; exact h

/-! ## the flattened list is sorted, bounded, and ends in the routing key -/

mutual
theorem okNode_toList (mk : Nat) : ∀ (n : Node) (b : Nat) (lo hi : Key), okNode mk b n lo hi →
    SortedFrom lo (toList n) ∧ LastKeyIs (toList n) hi
  | .null, _, _, _, h => absurd h id
  | .leaf _ es, _, _, _, h => ⟨h.1, h.2.1⟩
  | .inner _ es, _, lo, hi, h => by
    have ⟨h1, h2, h3⟩ := okEnts_toList mk es lo h.1
    have hne : es ≠ [] := h.2.1.1
    simp only [toList]
    refine ⟨h1, h3 hne, ?_⟩
    rw [lastKeyD_of_ne_nil (h3 hne) 0#64 lo, h2, lastKeyD_of_ne_nil hne lo 0#64]
    exact h.2.1.2
theorem okEnts_toList (mk : Nat) : ∀ (es : List (Key × Node)) (lo : Key), okEnts mk es lo →
    SortedFrom lo (toListEnts es) ∧ lastKeyD lo (toListEnts es) = lastKeyD lo es ∧
      (es ≠ [] → toListEnts es ≠ [])
  | [], _, _ => ⟨trivial, rfl, fun h => absurd rfl h⟩
  | (ki, c) :: rest, lo, h => by
    have ⟨hc1, hc2⟩ := okNode_toList mk c (mk - 1) lo ki h.1
    have ⟨hr1, hr2, _⟩ := okEnts_toList mk rest ki h.2
    have hlast : lastKeyD lo (toList c) = ki := by
      rw [lastKeyD_of_ne_nil hc2.1 lo 0#64]; exact hc2.2
    simp only [toListEnts]
    refine ⟨sortedFrom_append.mpr ⟨hc1, by rw [hlast]; exact hr1⟩, ?_, ?_⟩
    · rw [lastKeyD_append, hlast, hr2]; rfl
    · intro _ e
      exact hc2.1 (List.append_eq_nil_iff.mp e).1
end

theorem okNode_lo_lt_hi {mk b : Nat} {n : Node} {lo hi : Key} (h : okNode mk b n lo hi) : lo < hi := by
  have ⟨h1, h2⟩ := okNode_toList mk n b lo hi h
  exact h1.lo_lt_last h2

/-- the routing keys of an inner node are strictly increasing -/
theorem okEnts_sorted {mk : Nat} : ∀ {es : List (Key × Node)} {lo : Key}, okEnts mk es lo → SortedFrom lo es
  | [], _, _ => trivial
  | (_, _) :: _, _, h => ⟨okNode_lo_lt_hi h.1, okEnts_sorted h.2⟩

theorem okEnts_append {mk : Nat} {l r : List (Key × Node)} {lo : Key} :
    okEnts mk (l ++ r) lo ↔ okEnts mk l lo ∧ okEnts mk r (lastKeyD lo l) := by
  induction l generalizing lo with
  | nil => simp [okEnts]
  | cons x rest ih =>
    obtain ⟨ki, c⟩ := x
    simp only [List.cons_append, okEnts, lastKeyD_cons]
    rw [ih, and_assoc]

theorem toListEnts_append (l r : List (Key × Node)) : toListEnts (l ++ r) = toListEnts l ++ toListEnts r := by
  induction l with
  | nil => rfl
  | cons x rest ih =>
    obtain ⟨ki, c⟩ := x
    simp [toListEnts, ih]

/-- all keys below a list of entries are at most its last routing key -/
theorem okEnts_keys_le {mk : Nat} {es : List (Key × Node)} {lo : Key} (h : okEnts mk es lo) :
    ∀ e ∈ toListEnts es, e.1 ≤ lastKeyD lo es := by
  have ⟨h1, h2, _⟩ := okEnts_toList mk es lo h
  have := h1.le_lastKeyD.2
  rw [h2] at this
  exact this

/-! ## Get is the lookup in the flattened list -/

theorem lookupD_append_of_lt {l r : List (Key × Val)} {k : Key} (h : ∀ e ∈ r, k < e.1) :
    lookupD (l ++ r) k = lookupD l k := by
  induction l with
  | nil =>
    have : lookupD r k = 0#64 := lookupD_of_not_mem (fun e he => by have := h e he; bv_omega)
    simpa [lookupD] using this
  | cons x rest ih => simp only [List.cons_append, lookupD, ih]

/-- the up-front test of `Tree.get` on a well-formed inner node: "no entry has a key `>= k`" -/
theorem getNoChild_eq {mk : Nat} {es : List (Key × Node)} {lo : Key} (h : okEnts mk es lo) (k : Key)
    (hlen : es.length < 2 ^ 63) :
    getNoChild (w (search es k)) (w es.length) (keyAt es (search es k)) = decide (∀ e ∈ es, e.1 < k) := by
  obtain ⟨l, r, he, hl, h1, h2⟩ := search_spec es k
  subst he
  rw [← hl]
  unfold getNoChild
  cases r with
  | nil =>
    simp only [List.append_nil] at *
    have : decide (∀ e ∈ l, e.1 < k) = true := decide_eq_true h1
    rw [this]; simp
  | cons e r' =>
    have hL : (l ++ e :: r').length = l.length + (r'.length + 1) := by simp
    rw [w_beq (by omega) (by omega), keyAt_append_right, keyAt_cons_zero]
    have hke : k ≤ e.1 := h2 e r' rfl
    have hs := okEnts_sorted h
    have hgt := hs.all_gt e (by simp)
    have h0 : (e.1 == 0#64) = false := by simp; bv_omega
    have hn : ¬ ∀ x ∈ l ++ e :: r', x.1 < k := by
      intro hh
      have := hh e (by simp)
      bv_omega
    have hne : ¬ (l.length = (l ++ e :: r').length) := by omega
    have : decide (∀ x ∈ l ++ e :: r', x.1 < k) = false := decide_eq_false hn
    rw [this]
    simp [hne, h0]

mutual
theorem getNode_spec (mk : Nat) (hmk : mk < 2 ^ 63) : ∀ (n : Node) (b : Nat) (lo hi k : Key),
    okNode mk b n lo hi → b < 2 ^ 63 → getNode n k = some (lookupD (toList n) k)
  | .null, _, _, _, _, h, _ => absurd h id
  | .leaf _ es, b, lo, _, k, h, hb => by
    rw [getNode, toList]
    rw [leafGet_eq_lookupD es k lo h.1 (by have := h.2.2; omega)]
  | .inner _ es, b, lo, hi, k, h, hb => by
    rw [getNode, toList]
    rw [getNoChild_eq h.1 k (by have := h.2.2; omega)]
    by_cases hall : ∀ e ∈ es, e.1 < k
    · rw [decide_eq_true hall]
      simp only [if_true]
      -- no routing key reaches k: nothing below has key k
      have hle := okEnts_keys_le h.1
      have hs := okEnts_sorted h.1
      have hlast := hs.le_lastKeyD
      have hne : es ≠ [] := h.2.1.1
      have hklast : lastKeyD lo es < k := by
        obtain ⟨e, he, hee⟩ : ∃ e ∈ es, e.1 = lastKeyD lo es := by
          clear hle hlast hall h
          induction es generalizing lo with
          | nil => exact absurd rfl hne
          | cons x rest ih =>
            cases rest with
            | nil => exact ⟨x, by simp, rfl⟩
            | cons y r' =>
              obtain ⟨e, he, hee⟩ := ih (lo := x.1) hs.2 (by simp)
              exact ⟨e, List.mem_cons_of_mem _ he, hee⟩
        rw [← hee]; exact hall e he
      rw [lookupD_of_not_mem (fun e he => by have := hle e he; bv_omega)]
    · rw [decide_eq_false hall]
      simp only [Bool.false_eq_true, if_false]
      have hex : ∃ e ∈ es, k ≤ e.1 := by
        apply Classical.byContradiction
        intro hno
        apply hall
        intro e he
        have : ¬ k ≤ e.1 := fun hk => hno ⟨e, he, hk⟩
        bv_omega
      simpa using getEnts_spec mk hmk es lo k h.1 hex
theorem getEnts_spec (mk : Nat) (hmk : mk < 2 ^ 63) : ∀ (es : List (Key × Node)) (lo k : Key),
    okEnts mk es lo → (∃ e ∈ es, k ≤ e.1) → getEnts es k = some (lookupD (toListEnts es) k)
  | [], _, _, _, hex => by obtain ⟨e, he, _⟩ := hex; cases he
  | (ki, c) :: rest, lo, k, h, hex => by
    rw [getEnts, toListEnts]
    case x_2 => exact okNode_ne_null h.1
    by_cases hhit : searchHit ki k = true
    · have hk : k ≤ ki := by simpa [searchHit, BitVec.ule_iff_le] using hhit
      simp only [hhit, if_true]
      have hc := getNode_spec mk hmk c (mk - 1) lo ki k h.1 (by omega)
      have hrest : ∀ e ∈ toListEnts rest, k < e.1 := by
        intro e he
        have := (okEnts_toList mk rest ki h.2).1.all_gt e he
        bv_omega
      rw [lookupD_append_of_lt hrest]
      exact hc
    · have hk : ki < k := by
        have : ¬ k ≤ ki := by
          intro hle; exact hhit (by simpa [searchHit, BitVec.ule_iff_le] using hle)
        bv_omega
      simp only [hhit]
      have hex' : ∃ e ∈ rest, k ≤ e.1 := by
        obtain ⟨e, he, hke⟩ := hex
        rcases List.mem_cons.mp he with rfl | he
        · exact absurd hke (by simp at hk ⊢; bv_omega)
        · exact ⟨e, he, hke⟩
      have ⟨hc1, hc2⟩ := okNode_toList mk c (mk - 1) lo ki h.1
      rw [lookupD_append_of_not_mem (fun e he => by have := hc1.le_last hc2 e he; bv_omega)]
      simpa using getEnts_spec mk hmk rest ki k h.2 hex'
end

end RV.Tree
