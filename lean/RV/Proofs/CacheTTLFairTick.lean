import RV.Proofs.CacheTTLFairEx
/-!
# C14 liveness under fairness (6): a witness with a clock that advances forever

`reclaim_execution_clockAdvances_exists`: the run of `reclaim_execution_exists` (an entry expires and is
reclaimed by the sweep), followed by the loop "the clock advances by 1 s; the ticker fires; empty grab;
empty sweep" forever.  `Fair`, `SendsCease`, `TickFair`, `ClockAdvances`; the clock is sane as long as the
entry is resident (it cannot be sane forever: `clockAdvances_not_sane`).  Non-vacuity of the
`ClockAdvances` form of the liveness theorem.
-/
namespace RV.Cache
open Gen.Cache

variable {cfg : Cfg}

def clockActs (p : Nat) : Action :=
  if p = 0 then .tick 1000000000 else if p = 1 then .applier .selTick else .applier .none

def ClockPI (b : State) (p : Nat) (s : State) : Prop :=
  s.cl = b.cl ∧ s.buf = b.buf ∧ s.store = b.store ∧ s.em.buckets = AMap.empty ∧
  ((p ≤ 1 ∧ s.app = .idle) ∨ (p = 2 ∧ s.app = .tick) ∨ (p = 3 ∧ ∃ now, s.app = .sweep now []))

theorem clock_step (b : State) (p : Nat) (s : State) (hp : p < 4) (h : ClockPI b p s) :
    ∃ s', step cfg s (clockActs p) = some s' ∧ ClockPI b ((p + 1) % 4) s' := by
  obtain ⟨h1, h2, h3, h4, h5⟩ := h
  rcases h5 with ⟨hp1, ha⟩ | ⟨rfl, ha⟩ | ⟨rfl, now, ha⟩
  · have hcases : p = 0 ∨ p = 1 := by omega
    rcases hcases with rfl | rfl
    · exact ⟨{ s with clock := s.clock + (1000000000 : Nat) }, by simp [clockActs, step],
        h1, h2, h3, h4, Or.inl ⟨by decide, ha⟩⟩
    · exact ⟨{ s with app := .tick }, by simp [clockActs, step, applierStep, ha, apIdle],
        h1, h2, h3, h4, Or.inr (Or.inl ⟨rfl, rfl⟩)⟩
  · refine ⟨apTick s, by simp [clockActs, step, applierStep, ha, needNone], h1, h2, h3, ?_,
      Or.inr (Or.inr ⟨rfl, s.clock, ?_⟩)⟩
    · exact (grab_empty s.em s.clock h4).1
    · simp [apTick, (grab_empty s.em s.clock h4).2]
  · exact ⟨{ s with app := .idle }, by simp [clockActs, step, applierStep, ha, apSweep, firstNonEmpty],
      h1, h2, h3, h4, Or.inl ⟨by decide, rfl⟩⟩

theorem clockActs_noClose (p : Nat) : (clockActs p).isClose = false := by
  unfold clockActs
  repeat' split
  all_goals rfl

theorem clockActs_not_client (p : Nat) (t : Tid) (ch : Choice) : clockActs p ≠ .client t ch := by
  unfold clockActs
  repeat' split
  all_goals (intro h; cases h)

/-- in the clock loop the clock gains 1 s per round -/
theorem clock_loop_grows {e : Exec cfg} {b : State}
    (hpi : ∀ n, ClockPI b (n % 4) (e.st n) ∧ e.act n = clockActs (n % 4)) (q : Nat) :
    (e.st 0).clock + (q : Int) * 1000000000 ≤ (e.st (4 * q)).clock := by
  induction q with
  | zero => simp
  | succ q ih =>
    have hact : e.act (4 * q) = .tick 1000000000 := by
      rw [(hpi (4 * q)).2, Nat.mul_mod_right]; rfl
    have hs := e.next (4 * q)
    rw [hact] at hs
    simp only [step, Option.some.injEq] at hs
    have h1 : (e.st (4 * q + 1)).clock = (e.st (4 * q)).clock + 1000000000 := by rw [← hs]; rfl
    have h2 := e.clock_mono (show 4 * q + 1 ≤ 4 * (q + 1) by omega)
    simp only [Time] at *
    omega

/-- **A lasso with an advancing clock.**  A finite run from the initial state (created at clock 0) to a
state in which everybody is idle, `setBuf` and the expiry index are empty; then forever: the clock
advances by 1 s, the ticker fires, the grab and the sweep find nothing. -/
theorem clock_lasso {acts : List Action} {b : State} (hnc : NoCloseRun acts)
    (hrun : run cfg (init cfg 0) acts = some b) (hidle : b.app = .idle) (hcl : ∀ t, b.cl t = .idle)
    (hbuf : b.buf = []) (hem : b.em.buckets = AMap.empty) :
    ∃ e : Exec cfg, e.st 0 = init cfg 0 ∧ Fair e ∧ SendsCease e ∧ TickFair e ∧ ClockAdvances e ∧ CreatedAt e 0 ∧
      (∀ k, k ≤ acts.length → run cfg (init cfg 0) (acts.take k) = some (e.st k)) ∧
      (∀ k, k < acts.length → acts[k]? = some (e.act k)) ∧
      (∀ n, (e.st (acts.length + n)).store = b.store) := by
  have hr : ReachNC cfg b := reachNC_of_run (now := 0) hnc hrun
  obtain ⟨e, he0, hpi⟩ := exec_of_cycle 4 clockActs (ClockPI b) b hr
    ⟨rfl, rfl, rfl, hem, Or.inl ⟨by decide, hidle⟩⟩
    (fun p s hp _ h => clock_step b p s hp h) (by decide) clockActs_noClose
  have hweak : WeakFair e := by
    intro a i
    cases a with
    | client t =>
      exact ⟨i, Nat.le_refl _, Or.inl (idle_not_enabled (by rw [(hpi i).1.1]; exact hcl t))⟩
    | applier =>
      obtain ⟨j, hij, hj⟩ := cycle_hits (m := 4) (p := 1) (by decide) i
      exact ⟨j, hij, Or.inr (by rw [(hpi j).2, hj]; rfl)⟩
  have hsel : SelectFair e := by
    constructor
    · intro i hr
      obtain ⟨j, _, s', hs⟩ := hr i (Nat.le_refl _)
      obtain ⟨_, h1⟩ := selItem_at_idle (show applierStep cfg (e.st j) .selItem = some s' from hs)
      obtain ⟨x, s1, hrecv, _⟩ := selItem_shape h1
      obtain ⟨rest, hb, _⟩ := recvBuf_cases hrecv
      rw [(hpi j).1.2.1, hbuf] at hb; cases hb
    · intro t i hr
      obtain ⟨j, _, s', hs⟩ := hr i (Nat.le_refl _)
      obtain ⟨_, h1⟩ := selStop_at_idle (show applierStep cfg (e.st j) (.selStop t) = some s' from hs)
      obtain ⟨_, _, (⟨c, h2, _⟩ | ⟨h2, _⟩)⟩ := selStop_shape h1
      · rw [(hpi j).1.1, hcl t] at h2; cases h2
      · rw [(hpi j).1.1, hcl t] at h2; cases h2
  obtain ⟨e', htail, hpre, hacts⟩ := exec_prepend e acts (init cfg 0) (.init 0) hnc (by rw [he0]; exact hrun)
  have hcease : SendsCease e' := by
    refine ⟨acts.length, fun j hj t ch hact => ?_⟩
    have := (htail (j - acts.length)).2
    rw [show acts.length + (j - acts.length) = j by omega, (hpi _).2] at this
    rw [this] at hact
    exact absurd hact (clockActs_not_client _ t ch)
  refine ⟨e', prepend_start hpre, fair_of_tail htail ⟨hweak, hsel⟩, hcease, ?_, ?_, ?_, hpre, hacts, ?_⟩
  · intro i _
    obtain ⟨j, hij, hj⟩ := cycle_hits (m := 4) (p := 1) (by decide) i
    refine ⟨acts.length + j, by omega, ?_⟩
    rw [(htail j).2, (hpi j).2, hj]; rfl
  · intro B
    refine ⟨acts.length + 4 * (B - (e.st 0).clock).toNat, ?_⟩
    rw [(htail _).1]
    have := clock_loop_grows hpi (B - (e.st 0).clock).toNat
    simp only [Time] at *
    omega
  · exact ⟨[], by rw [prepend_start hpre]; rfl⟩
  · intro n
    rw [(htail n).1]
    exact (hpi n).1.2.2.1

set_option maxRecDepth 100000 in
theorem exTTLReclaim_em :
    (run exCfg1 (init exCfg1 0) exTTLReclaim).map (fun s => s.em.buckets.size) = some 0 := by decide

/-- **Non-vacuity of the `ClockAdvances` form.**  The witness run of `reclaim_execution_exists`, continued
with a clock that advances forever: `Fair`, `SendsCease`, `TickFair`, `ClockAdvances`, sane clock as long as
the entry is resident (times 9 … 14), only the sweep touches the entry. -/
theorem reclaim_execution_clockAdvances_exists :
    ∃ e : Exec exCfg1, e.st 0 = init exCfg1 0 ∧ Fair e ∧ SendsCease e ∧ TickFair e ∧ ClockAdvances e ∧
      CreatedAt e 0 ∧
      (∀ j, (e.st j).store.lookup 1#64 = if 9 ≤ j ∧ j ≤ 14 then some ttlEntry else none) ∧
      (∀ j, j ≤ 18 → TimeOk (e.st j).clock) ∧
      OnlySweepChanges e 1#64 ttlEntry 9 := by
  have hend := exTTLReclaim_end
  have hemf := exTTLReclaim_em
  cases hfull : run exCfg1 (init exCfg1 0) exTTLReclaim with
  | none => rw [hfull] at hend; simp at hend
  | some b =>
    rw [hfull] at hend hemf
    simp only [Option.map_some, Option.some.injEq, Prod.mk.injEq, decide_eq_true_eq] at hend hemf
    obtain ⟨⟨hc0, hbuf, happ, hclk⟩, _, _, _⟩ := hend
    have hnc : NoCloseRun exTTLReclaim := noClose_of_all (by decide)
    have hidle : ∀ t, b.cl t = .idle := by
      intro t
      by_cases e0 : t = 0
      · subst e0; exact hc0
      · exact unspawned_idle (s0 := init exCfg1 0) rfl
          (not_spawn_of_spawnsOnly (ts := [0]) (by decide) (by simp [e0])) hfull
    obtain ⟨e, he0, hfair, hcease, htf, hca, hcre, hpre, hacts, htail⟩ :=
      clock_lasso hnc hfull (appIsIdle_eq happ) hidle hbuf (List.length_eq_zero_iff.mp hemf)
    have hlen : exTTLReclaim.length = 18 := rfl
    have hst : ∀ j, (e.st j).store.lookup 1#64 = if 9 ≤ j ∧ j ≤ 14 then some ttlEntry else none := by
      intro j
      by_cases hj : j ≤ 18
      · have h1 := exTTLReclaim_store ⟨j, by omega⟩
        rw [hpre j (by omega)] at h1
        simpa using h1
      · have h1 := exTTLReclaim_store ⟨18, by omega⟩
        rw [hpre 18 (by omega)] at h1
        have h2 := htail (j - 18)
        rw [hlen, show 18 + (j - 18) = j by omega] at h2
        have h3 := htail 0
        rw [hlen] at h3
        rw [h2, ← h3]
        have : ¬ (9 ≤ j ∧ j ≤ 14) := by omega
        simpa [this] using h1
    have hmid := exTTLReclaim_mid
    rw [hpre 14 (by omega)] at hmid
    simp only [Option.map_some, Option.some.injEq] at hmid
    have hdel : SweepDelAt e 1#64 14 := by
      obtain ⟨now, c, bs, h⟩ := isSwKeyOf_eq hmid.2.2
      have ha := hacts 14 (by omega)
      exact ⟨now, c, bs, h, .none, (Option.some.inj ha).symm⟩
    have hc18 : (e.st 18).clock = 40000000000 := by
      have := hpre 18 (by omega)
      have h18 : exTTLReclaim.take 18 = exTTLReclaim := by rw [← hlen]; exact List.take_length
      rw [h18, hfull] at this
      rw [← Option.some.inj this]; exact hclk
    have hc0' : (e.st 0).clock = 0 := by rw [he0]; rfl
    refine ⟨e, he0, hfair, hcease, htf, hca, hcre, hst, fun j hj => ?_, ?_⟩
    · exact timeOk_of_le (timeOk_small (Int.le_refl _) (by decide)) (timeOk_small (by decide) (Int.le_refl _))
        hc0' hc18 hj
    · intro j hj h1 h2
      rw [hst] at h1 h2
      by_cases h14 : j = 14
      · subst h14; exact hdel
      · exfalso
        split at h1
        · have : 9 ≤ j + 1 ∧ j + 1 ≤ 14 := by omega
          simp [this] at h2
        · cases h1

end RV.Cache
