import RV.Proofs.CacheBisimClient
/-!
# C15 `fresh_bisim`: applier steps and the `done` rendezvous preserve `BSimL`; the one-step theorem
-/
namespace RV.Cache
open Gen.Cache
variable {cfg : Cfg} {d : Nat} {L₁ L₂ : List Ev} {s₁ s₂ : State}

/-! ### receive / stop -/

theorem bs_apSelItem (h : BSimL d L₁ L₂ s₁ s₂) : OptRel (BSimL d L₁ L₂) (apSelItem s₁) (apSelItem s₂) := by
  have hr := bs_recvBuf h
  unfold apSelItem
  cases h1 : recvBuf s₁ with
  | none =>
    cases h2 : recvBuf s₂ with
    | none => exact trivial
    | some p => rw [h1, h2] at hr; exact False.elim hr
  | some p₁ =>
    cases h2 : recvBuf s₂ with
    | none => rw [h1, h2] at hr; exact False.elim hr
    | some p₂ =>
      obtain ⟨x₁, r₁⟩ := p₁
      obtain ⟨x₂, r₂⟩ := p₂
      rw [h1, h2] at hr
      obtain ⟨hx, hr⟩ := hr
      subst hx
      cases x₂ with
      | marker id =>
        exact ⟨hr.store, hr.em, hr.pol, hr.met, hr.buf, hr.sendq, hr.cm, hr.nm, rfl, hr.cl, hr.clock,
          hr.closed, hr.ring, hr.log⟩
      | item i =>
        exact ⟨hr.store, hr.em, hr.pol, hr.met, hr.buf, hr.sendq, hr.cm, hr.nm, rfl, hr.cl, hr.clock,
          hr.closed, hr.ring, hr.log⟩

theorem bs_withApp (h : BSimL d L₁ L₂ s₁ s₂) (t : Tid) {a : APc} (ha : a = bsA d a) {pc : CPc} (hpc : pc = bsC d pc) :
    BSimL d L₁ L₂ (setCl { s₁ with app := a } t pc) (setCl { s₂ with app := a } t pc) :=
  ⟨h.store, h.em, h.pol, h.met, h.buf, h.sendq, h.cm, h.nm, ha,
    fun t' => by simp only [setCl_cl]; split <;> first | exact hpc | exact h.cl t',
    h.clock, h.closed, h.ring, h.log⟩

theorem bs_apSelStop (h : BSimL d L₁ L₂ s₁ s₂) (t : Tid) :
    OptRel (BSimL d L₁ L₂) (apSelStop s₁ t) (apSelStop s₂ t) := by
  unfold apSelStop
  rw [h.cl t]
  cases s₂.cl t with
  | clrStop closing => exact bs_withApp h t rfl rfl
  | clsStop => exact bs_withApp h t rfl rfl
  | _ => exact trivial

theorem bs_apIdle (h : BSimL d L₁ L₂ s₁ s₂) (ch : Choice) :
    OptRel (BSimL d L₁ L₂) (apIdle s₁ ch) (apIdle s₂ ch) := by
  unfold apIdle
  cases ch with
  | selItem => exact bs_apSelItem h
  | selTick =>
    exact ⟨h.store, h.em, h.pol, h.met, h.buf, h.sendq, h.cm, h.nm, rfl, h.cl, h.clock, h.closed, h.ring, h.log⟩
  | selStop t => exact bs_apSelStop h t
  | _ => exact trivial

theorem bs_apMarker (h : BSimL d L₁ L₂ s₁ s₂) (id : Nat) :
    BSimL d L₁ L₂ (apMarker s₁ (id + d)) (apMarker s₂ id) := by
  have h' := bs_closeMarker h id
  exact ⟨h'.store, h'.em, h'.pol, h'.met, h'.buf, h'.sendq, h'.cm, h'.nm, rfl, h'.cl, h'.clock, h'.closed,
    h'.ring, h'.log⟩

/-! ### items -/

theorem bs_apItem (h : BSimL d L₁ L₂ s₁ s₂) (i : Item) :
    BSimL d L₁ L₂ (apItem cfg s₁ i) (apItem cfg s₂ i) := by
  unfold apItem
  bsim_leaf h

theorem bs_apCostedNew (h : BSimL d L₁ L₂ s₁ s₂) (i : Item) (ch : Choice) :
    OptRel (BSimL d L₁ L₂) (apCostedNew cfg s₁ i ch) (apCostedNew cfg s₂ i ch) := by
  unfold apCostedNew
  cases ch with
  | add victims added =>
    bsim_prep h
    cases polAdd cfg.metricsOn s₂.pol s₂.met i.key i.cost victims added with
    | none => exact trivial
    | some pm => simp only [optRel_some]; bsim_leaf h
  | _ => exact trivial

theorem bs_apCostedUpd (h : BSimL d L₁ L₂ s₁ s₂) (i : Item) :
    BSimL d L₁ L₂ (apCostedUpd cfg s₁ i) (apCostedUpd cfg s₂ i) := by
  unfold apCostedUpd
  bsim_prep h
  bsim_leaf h

theorem bs_apCostedDel (h : BSimL d L₁ L₂ s₁ s₂) (i : Item) :
    BSimL d L₁ L₂ (apCostedDel cfg s₁ i) (apCostedDel cfg s₂ i) := by
  unfold apCostedDel
  bsim_prep h
  bsim_leaf h

theorem bs_apCosted (h : BSimL d L₁ L₂ s₁ s₂) (i : Item) (ch : Choice) :
    OptRel (BSimL d L₁ L₂) (apCosted cfg s₁ i ch) (apCosted cfg s₂ i ch) := by
  unfold apCosted
  cases i.flag with
  | new => exact bs_apCostedNew h i ch
  | upd => exact optRel_needNone ch (bs_apCostedUpd h i)
  | del => exact optRel_needNone ch (bs_apCostedDel h i)

theorem bs_apAdded (h : BSimL d L₁ L₂ s₁ s₂) (i : Item) (victims : List (Hash × Int)) (ok : Bool) :
    BSimL d L₁ L₂ (apAdded cfg s₁ i victims ok) (apAdded cfg s₂ i victims ok) := by
  unfold apAdded
  bsim_prep h
  split <;> bsim_leaf h

theorem bs_apVictims (h : BSimL d L₁ L₂ s₁ s₂) (vs : List (Hash × Int)) :
    OptRel (BSimL d L₁ L₂) (apVictims s₁ vs) (apVictims s₂ vs) := by
  unfold apVictims
  cases vs with
  | nil => exact trivial
  | cons p rest =>
    obtain ⟨k, cost⟩ := p
    bsim_prep h
    simp only [optRel_some]
    bsim_leaf h

theorem bs_apVictimEvict (h : BSimL d L₁ L₂ s₁ s₂) (k : Hash) (cost : Int) (c : Conf) (v : Val)
    (rest : List (Hash × Int)) :
    BSimL d L₁ L₂ (apVictimEvict s₁ k cost c v rest) (apVictimEvict s₂ k cost c v rest) := by
  unfold apVictimEvict
  bsim_leaf h

theorem bs_apTombPolicy (h : BSimL d L₁ L₂ s₁ s₂) (i : Item) :
    BSimL d L₁ L₂ (apTombPolicy s₁ i) (apTombPolicy s₂ i) := by
  unfold apTombPolicy
  bsim_prep h
  bsim_leaf h

theorem bs_apTombStore (h : BSimL d L₁ L₂ s₁ s₂) (v : Val) :
    BSimL d L₁ L₂ (apTombStore s₁ v) (apTombStore s₂ v) := by
  unfold apTombStore
  bsim_leaf h

/-! ### the sweep -/

theorem bs_apTick (h : BSimL d L₁ L₂ s₁ s₂) : BSimL d L₁ L₂ (apTick s₁) (apTick s₂) := by
  unfold apTick
  bsim_prep h
  bsim_leaf h

theorem bs_apSweep (h : BSimL d L₁ L₂ s₁ s₂) (now : Time) (bs : List (AMap Hash Conf)) (ch : Choice) :
    OptRel (BSimL d L₁ L₂) (apSweep s₁ now bs ch) (apSweep s₂ now bs ch) := by
  unfold apSweep
  split
  · simp only [optRel_some]; bsim_leaf h
  · split
    · exact trivial
    · simp only [optRel_some]; bsim_leaf h
  · exact trivial

theorem bs_apSwKey (h : BSimL d L₁ L₂ s₁ s₂) (now : Time) (k : Hash) (c : Conf) (bs : List (AMap Hash Conf)) :
    BSimL d L₁ L₂ (apSwKey s₁ now k c bs) (apSwKey s₂ now k c bs) := by
  unfold apSwKey
  bsim_prep h
  split <;> bsim_leaf h

theorem bs_apSwStoreDel (h : BSimL d L₁ L₂ s₁ s₂) (now : Time) (k : Hash) (c : Conf) (expr : Time) (v : Val)
    (bs : List (AMap Hash Conf)) :
    BSimL d L₁ L₂ (apSwStoreDel cfg s₁ now k c expr v bs) (apSwStoreDel cfg s₂ now k c expr v bs) := by
  unfold apSwStoreDel
  bsim_prep h
  bsim_leaf h

theorem bs_apSwPolDel (h : BSimL d L₁ L₂ s₁ s₂) (now : Time) (k : Hash) (c : Conf) (cost : Int) (v : Val)
    (bs : List (AMap Hash Conf)) :
    BSimL d L₁ L₂ (apSwPolDel s₁ now k c cost v bs) (apSwPolDel s₂ now k c cost v bs) := by
  unfold apSwPolDel
  bsim_leaf h

/-! ### dispatcher, `done`, and the step theorem -/

theorem bs_applierStep (h : BSimL d L₁ L₂ s₁ s₂) (ch : Choice) :
    OptRel (BSimL d L₁ L₂) (applierStep cfg s₁ ch) (applierStep cfg s₂ ch) := by
  unfold applierStep
  rw [h.app]
  cases s₂.app with
  | idle => exact bs_apIdle h ch
  | marker id => exact optRel_needNone ch (bs_apMarker h id)
  | item i => exact optRel_needNone ch (bs_apItem h i)
  | costed i => exact bs_apCosted h i ch
  | added i victims ok => exact optRel_needNone ch (bs_apAdded h i victims ok)
  | victims vs => exact optRel_needNone ch (bs_apVictims h vs)
  | victimEvict k cost c v rest => exact optRel_needNone ch (bs_apVictimEvict h k cost c v rest)
  | tombPolicy i => exact optRel_needNone ch (bs_apTombPolicy h i)
  | tombStore v => exact optRel_needNone ch (bs_apTombStore h v)
  | tick => exact optRel_needNone ch (bs_apTick h)
  | sweep now bs => exact bs_apSweep h now bs ch
  | swKey now k c bs => exact optRel_needNone ch (bs_apSwKey h now k c bs)
  | swStoreDel now k c expr v bs => exact optRel_needNone ch (bs_apSwStoreDel h now k c expr v bs)
  | swPolDel now k c expr cost v bs => exact optRel_needNone ch (bs_apSwPolDel h now k c cost v bs)
  | stopAck => exact trivial
  | dead => exact trivial

theorem doneStep_eq_none {s : State} {t : Tid} (h : s.app ≠ .stopAck) : doneStep s t = none := by
  unfold doneStep
  split
  · exact absurd ‹_› h
  · exact absurd ‹_› h
  · rfl

theorem bs_doneStep (h : BSimL d L₁ L₂ s₁ s₂) (t : Tid) :
    OptRel (BSimL d L₁ L₂) (doneStep s₁ t) (doneStep s₂ t) := by
  by_cases ha : s₂.app = .stopAck
  · have ha1 : s₁.app = .stopAck := by rw [h.app, ha]; rfl
    unfold doneStep
    rw [ha1, ha, h.cl t]
    cases s₂.cl t with
    | clrDone closing => exact bs_withApp h t rfl rfl
    | clsDone => exact bs_withApp h t rfl rfl
    | _ => exact trivial
  · have ha1 : s₁.app ≠ .stopAck := by
      rw [h.app]; intro e; apply ha
      cases hh : s₂.app <;> rw [hh] at e <;> first | rfl | cases e
    rw [doneStep_eq_none ha, doneStep_eq_none ha1]
    exact trivial

/-- **One step, both directions at once**: the same action is enabled on both sides or on
neither, and leads to related states whose logs were extended by the same events. -/
theorem bs_step (h : BSimL d L₁ L₂ s₁ s₂) (a : Action) :
    OptRel (BSimL d L₁ L₂) (step cfg s₁ a) (step cfg s₂ a) := by
  cases a with
  | spawn t c => exact bs_spawnStep h t c
  | client t ch => exact bs_clientStep h t ch
  | applier ch => exact bs_applierStep h ch
  | done t => exact bs_doneStep h t
  | tick n => exact bs_tick h n

end RV.Cache
