namespace RV
theorem get!_set!_self {α} [Inhabited α] (a : Array α) (i : Nat) (v : α) (h : i < a.size) :
    (a.set! i v)[i]! = v := by
  grind
theorem get!_set!_ne {α} [Inhabited α] (a : Array α) (i j : Nat) (v : α) (h : i ≠ j) :
    (a.set! i v)[j]! = a[j]! := by
  grind
theorem size_set! {α} (a : Array α) (i : Nat) (v : α) : (a.set! i v).size = a.size := by simp
/-- The shape go2lean gives to `for i := range r { r[i] = f(r[i]) }`. -/
def rangeMap {α} [Inhabited α] (f : α → α) (r : Array α) (k : Nat) : Array α :=
  (List.range k).foldl (fun a i => a.set! (BitVec.ofNat 64 i).toNat (f a[(BitVec.ofNat 64 i).toNat]!)) r

theorem rangeMap_spec {α} [Inhabited α] (f : α → α) (r : Array α) (k : Nat)
    (hk : k ≤ r.size) (hsz : r.size ≤ 2 ^ 64) :
    (rangeMap f r k).size = r.size ∧
    ∀ j, (rangeMap f r k)[j]! = if j < k then f r[j]! else r[j]! := by
  induction k with
  | zero => simp [rangeMap]
  | succ k ih =>
    have ⟨ihs, ihe⟩ := ih (by omega)
    have hkk : (BitVec.ofNat 64 k).toNat = k := by
      simp [BitVec.toNat_ofNat]; omega
    unfold rangeMap at *
    rw [List.range_succ, List.foldl_append]
    simp only [List.foldl_cons, List.foldl_nil, hkk]
    constructor
    · rw [size_set!]; exact ihs
    · intro j
      by_cases hj : k = j
      · subst hj
        rw [get!_set!_self _ _ _ (by omega), ihe]
        simp
      · rw [get!_set!_ne _ _ _ _ hj, ihe]
        by_cases h1 : j < k
        · simp [h1]; omega
        · simp [h1]; omega
end RV
