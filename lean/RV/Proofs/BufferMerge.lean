import RV.Proofs.BufferSlices
/-!
`sortHelper.merge`: the slice-level merge, its specification, and the proof that the
byte-level loop of the model computes it on length-prefixed runs.
-/
namespace RV.Buffer
open Gen.Buffer

/-- "ordered by `less`": no later element is less than an earlier one. -/
def Sorted (less : Bytes → Bytes → Bool) (l : List Bytes) : Prop :=
  l.Pairwise (fun a b => less b a = false)

/-- What the merge needs of `less` (a strict weak order is asymmetric and negatively
transitive; transitivity follows from the two). -/
structure StrictWeak (less : Bytes → Bytes → Bool) : Prop where
  asymm : ∀ a b, less a b = true → less b a = false
  negTrans : ∀ a b c, less a b = false → less b c = false → less a c = false

/-- The merge of `sortHelper.merge` on slices: the left head is taken only if it is
strictly less than the right head; on ties the *right* run goes first (`copyRight`). -/
def mergeSl (less : Bytes → Bytes → Bool) : List Bytes → List Bytes → List Bytes
  | [], r => r
  | a :: l, [] => a :: l
  | a :: l, c :: r =>
    if less a c then a :: mergeSl less l (c :: r) else c :: mergeSl less (a :: l) r
termination_by l r => l.length + r.length

theorem mergeSl_perm (less : Bytes → Bytes → Bool) (l r : List Bytes) :
    (mergeSl less l r).Perm (l ++ r) := by
  fun_induction mergeSl less l r with
  | case1 r => simp
  | case2 a l => simp
  | case3 a l c r h ih =>
    exact List.Perm.cons a ih
  | case4 a l c r h ih =>
    refine (List.Perm.cons c ih).trans ?_
    exact (List.perm_middle (a := c) (l₁ := a :: l) (l₂ := r)).symm

theorem mergeSl_sorted (less : Bytes → Bytes → Bool) (sw : StrictWeak less) (l r : List Bytes)
    (hl : Sorted less l) (hr : Sorted less r) : Sorted less (mergeSl less l r) := by
  unfold Sorted at *
  fun_induction mergeSl less l r with
  | case1 r => exact hr
  | case2 a l => exact hl
  | case3 a l c r h ih =>
    rw [List.pairwise_cons] at hl
    refine List.pairwise_cons.mpr ⟨?_, ih hl.2 hr⟩
    intro y hy
    have hy' := (mergeSl_perm less l (c :: r)).mem_iff.mp hy
    rw [List.mem_append] at hy'
    rcases hy' with hy' | hy'
    · exact hl.1 y hy'
    · rw [List.pairwise_cons] at hr
      rcases List.mem_cons.mp hy' with rfl | hy''
      · exact sw.asymm _ _ h
      · exact sw.negTrans _ _ _ (hr.1 y hy'') (sw.asymm _ _ h)
  | case4 a l c r h ih =>
    rw [List.pairwise_cons] at hr
    refine List.pairwise_cons.mpr ⟨?_, ih hl hr.2⟩
    intro y hy
    have hy' := (mergeSl_perm less (a :: l) r).mem_iff.mp hy
    rw [List.mem_append] at hy'
    rcases hy' with hy' | hy'
    · rw [List.pairwise_cons] at hl
      rcases List.mem_cons.mp hy' with rfl | hy''
      · simpa using h
      · exact sw.negTrans _ _ _ (hl.1 y hy'') (by simpa using h)
    · exact hr.1 y hy'

theorem encAll_length_perm {l l' : List Bytes} (h : l.Perm l') : (encAll l).length = (encAll l').length := by
  induction h with
  | nil => rfl
  | cons x _ ih => simp only [encAll_cons, List.length_append, ih]
  | swap x y l => simp only [encAll_cons, List.length_append]; omega
  | trans _ _ ih1 ih2 => exact ih1.trans ih2

theorem mergeSl_encLen (less : Bytes → Bytes → Bool) (l r : List Bytes) :
    (encAll (mergeSl less l r)).length = (encAll l).length + (encAll r).length := by
  rw [encAll_length_perm (mergeSl_perm less l r), encAll_append, List.length_append]

/-- `rawSlice` of a buffer that starts with an encoded slice. -/
theorem rawSlice_enc (s rest : Bytes) (hs : s.length < 2 ^ 62) : rawSlice (enc s ++ rest) = .ok (enc s) := by
  unfold rawSlice
  have hl : (enc s ++ rest).length = 8 + s.length + rest.length := by
    rw [List.length_append, enc_length]
  have h1 : 8 ≤ (enc s ++ rest).length := by omega
  simp only [lenGe_eq, h1, decide_true, Bool.not_true, Bool.false_eq_true, if_false]
  have : enc s ++ rest = be64 (w s.length) ++ (s ++ rest) := by unfold enc; simp
  rw [this, getU64_raw_be64, k_rawSliceLen _ (by omega), ← this]
  have h2 : 8 + s.length ≤ (enc s ++ rest).length := by omega
  simp only [h2, decide_true, if_true]
  rw [← enc_length s, List.take_left]

theorem enc_drop8 (s : Bytes) : (enc s).drop 8 = s := by
  unfold enc
  rw [show 8 = (be64 (w s.length)).length from (be64_length _).symm, List.drop_left]

/-- The *pure* merge loop (specification side): `left` and `right` are byte strings,
the result is what gets stored from `start` on.  `mergeInPlace_eq` shows that the in-place
loop of the model computes exactly this. -/
def mergeLoop (less : Bytes → Bytes → Bool) (end_ : Nat) : Nat → Nat → Bytes → Bytes → Except Fault Bytes
  | 0, _, _, _ => .error .fuel
  | fuel + 1, start, left, right =>
    if !mergeLoopCond (w start) (w end_) then .ok []
    else if left.isEmpty then
      if right.length ≤ end_ - start then .ok right else .error .assertFail
    else if right.isEmpty then
      if left.length ≤ end_ - start then .ok left else .error .assertFail
    else
      match rawSlice left, rawSlice right with
      | .ok ls, .ok rs =>
        if less (ls.drop 8) (rs.drop 8) then
          match mergeLoop less end_ fuel (start + ls.length) (left.drop ls.length) right with
          | .error f => .error f
          | .ok out => .ok (ls ++ out)
        else
          match mergeLoop less end_ fuel (start + rs.length) left (right.drop rs.length) with
          | .error f => .error f
          | .ok out => .ok (rs ++ out)
      | .error f, _ => .error f
      | _, .error f => .error f

theorem isEmpty_eq_len (l : Bytes) : l.isEmpty = (l.length == 0) := by cases l <;> rfl

/-- The pure byte-level loop on two encoded runs is the slice-level merge. -/
theorem mergeLoop_enc (less : Bytes → Bytes → Bool) (end_ : Nat) (he : end_ < 2 ^ 62) :
    ∀ (L R : List Bytes) (fuel start : Nat),
      L.length + R.length < fuel →
      start + (encAll L).length + (encAll R).length = end_ →
      mergeLoop less end_ fuel start (encAll L) (encAll R) = .ok (encAll (mergeSl less L R)) := by
  intro L R
  fun_induction mergeSl less L R with
  | case1 r =>
    intro fuel start hf hs
    cases fuel with
    | zero => omega
    | succ f =>
      unfold mergeLoop
      simp only [isEmpty_eq_len]
      rw [k_mergeLoopCond _ _ (by omega) (by omega)]
      simp only [encAll_nil, List.length_nil, Nat.add_zero] at hs ⊢
      by_cases hlt : start < end_
      · simp only [hlt, decide_true, Bool.not_true, Bool.false_eq_true, if_false, beq_self_eq_true, if_true]
        rw [if_pos (by omega)]
      · have : (encAll r).length = 0 := by omega
        have : encAll r = [] := List.length_eq_zero_iff.mp this
        simp [hlt, this]
  | case2 a l =>
    intro fuel start hf hs
    cases fuel with
    | zero => omega
    | succ f =>
      unfold mergeLoop
      simp only [isEmpty_eq_len]
      rw [k_mergeLoopCond _ _ (by omega) (by omega)]
      have hpos : 0 < (encAll (a :: l)).length := by rw [encAll_cons, List.length_append, enc_length]; omega
      simp only [encAll_nil, List.length_nil, Nat.add_zero] at hs ⊢
      have hlt : start < end_ := by omega
      have hne : ¬ (encAll (a :: l)).length = 0 := by omega
      simp only [hlt, decide_true, Bool.not_true, Bool.false_eq_true, if_false, beq_iff_eq, hne, if_true]
      rw [if_pos (by omega)]
  | case3 a l c r h ih =>
    intro fuel start hf hs
    cases fuel with
    | zero => omega
    | succ f =>
      unfold mergeLoop
      simp only [isEmpty_eq_len]
      rw [k_mergeLoopCond _ _ (by omega) (by omega)]
      have hla : (encAll (a :: l)).length = 8 + a.length + (encAll l).length := by
        rw [encAll_cons, List.length_append, enc_length]
      have hlc : (encAll (c :: r)).length = 8 + c.length + (encAll r).length := by
        rw [encAll_cons, List.length_append, enc_length]
      have hlt : start < end_ := by omega
      have hne1 : ¬ (encAll (a :: l)).length = 0 := by omega
      have hne2 : ¬ (encAll (c :: r)).length = 0 := by omega
      simp only [hlt, decide_true, Bool.not_true, Bool.false_eq_true, if_false, beq_iff_eq, hne1, hne2]
      rw [encAll_cons a l, encAll_cons c r, rawSlice_enc a _ (by omega), rawSlice_enc c _ (by omega)]
      simp only [enc_drop8, h, if_true]
      rw [List.drop_left, ← encAll_cons c r]
      rw [ih f (start + (enc a).length) (by simp at hf ⊢; omega) (by rw [enc_length]; omega)]
      simp [encAll_cons]
  | case4 a l c r h ih =>
    intro fuel start hf hs
    cases fuel with
    | zero => omega
    | succ f =>
      unfold mergeLoop
      simp only [isEmpty_eq_len]
      rw [k_mergeLoopCond _ _ (by omega) (by omega)]
      have hla : (encAll (a :: l)).length = 8 + a.length + (encAll l).length := by
        rw [encAll_cons, List.length_append, enc_length]
      have hlc : (encAll (c :: r)).length = 8 + c.length + (encAll r).length := by
        rw [encAll_cons, List.length_append, enc_length]
      have hlt : start < end_ := by omega
      have hne1 : ¬ (encAll (a :: l)).length = 0 := by omega
      have hne2 : ¬ (encAll (c :: r)).length = 0 := by omega
      simp only [hlt, decide_true, Bool.not_true, Bool.false_eq_true, if_false, beq_iff_eq, hne1, hne2]
      rw [encAll_cons a l, encAll_cons c r, rawSlice_enc a _ (by omega), rawSlice_enc c _ (by omega)]
      have hfalse : less a c = false := by simpa using h
      simp only [enc_drop8, hfalse, Bool.false_eq_true, if_false]
      rw [List.drop_left, ← encAll_cons a l]
      rw [ih f (start + (enc c).length) (by simp at hf ⊢; omega) (by rw [enc_length]; omega)]
      simp [encAll_cons]

theorem region_mid (p x q : Bytes) : region (p ++ x ++ q) p.length (p.length + x.length) = x := by
  unfold region
  rw [List.append_assoc, List.drop_left, show p.length + x.length - p.length = x.length by omega, List.take_left]

theorem overwrite_mid (p x q y : Bytes) (h : y.length = x.length) :
    overwrite (p ++ x ++ q) p.length y = p ++ y ++ q := by
  unfold overwrite
  have e1 : (p ++ x ++ q).take p.length = p := by rw [List.append_assoc, List.take_left]
  have e2 : (p ++ x ++ q).drop (p.length + y.length) = q := by
    rw [h, ← List.length_append, List.drop_left]
  rw [e1, e2]

theorem overwrite_prefix (p m y : Bytes) : overwrite (p ++ m) p.length y = p ++ y ++ m.drop y.length := by
  unfold overwrite
  rw [List.take_left, List.drop_length_add_append]

theorem rawSlice_take (buf r : Bytes) (h : rawSlice buf = .ok r) : ∃ k, k ≤ buf.length ∧ r = buf.take k := by
  unfold rawSlice at h
  simp only [lenGe_eq] at h
  split at h
  · cases h
  · split at h
    · rename_i hk; cases h; exact ⟨_, by simpa using hk, rfl⟩
    · cases h

/-- The in-place loop equals the pure loop: with `|G| = |left|` bytes between the write
cursor and the right run, no write ever reaches the unread part of the right run. -/
theorem mergeInPlace_eq (less : Bytes → Bytes → Bool) : ∀ (fuel : Nat) (pre G right post left : Bytes),
    G.length = left.length → pre.length + G.length + right.length < 2 ^ 62 →
    mergeInPlace less (pre.length + G.length + right.length) fuel (pre ++ G ++ right ++ post) pre.length left
        (pre.length + G.length) =
      match mergeLoop less (pre.length + G.length + right.length) fuel pre.length left right with
      | .ok out => .ok (pre ++ out ++ post)
      | .error f => .error f := by
  intro fuel
  induction fuel with
  | zero => intro pre G right post left _ _; rfl
  | succ f ih =>
    intro pre G right post left hG hb
    unfold mergeInPlace mergeLoop
    simp only [isEmpty_eq_len]
    rw [k_mergeLoopCond _ _ (by omega) (by omega)]
    by_cases hlt : pre.length < pre.length + G.length + right.length
    · simp only [hlt, decide_true, Bool.not_true, Bool.false_eq_true, if_false]
      have hreg : region (pre ++ G ++ right ++ post) (pre.length + G.length) (pre.length + G.length + right.length) = right := by
        have := region_mid (pre ++ G) right post
        rwa [List.length_append] at this
      rw [hreg]
      by_cases hl0 : left.length = 0
      · have hG0 : G = [] := List.length_eq_zero_iff.mp (by omega)
        have hleft : left = [] := List.length_eq_zero_iff.mp hl0
        subst hG0 hleft
        simp only [List.length_nil, beq_self_eq_true, if_true, Nat.add_zero, List.append_nil]
        rw [if_pos (by omega), if_pos (by omega)]
        simp only
        rw [List.append_assoc, overwrite_prefix]
        simp
      · have hl0' : (left.length == 0) = false := by simpa using hl0
        simp only [hl0', Bool.false_eq_true, if_false]
        by_cases hr0 : right.length = 0
        · have hright : right = [] := List.length_eq_zero_iff.mp hr0
          subst hright
          simp only [List.length_nil, beq_self_eq_true, if_true, Nat.add_zero, List.append_nil]
          rw [if_pos (by omega), if_pos (by omega)]
          simp only
          rw [List.append_assoc, overwrite_prefix, ← hG, List.drop_left]
        · have hr0' : (right.length == 0) = false := by simpa using hr0
          simp only [hr0', Bool.false_eq_true, if_false]
          cases hls : rawSlice left with
          | error e => cases hrs : rawSlice right <;> simp
          | ok ls =>
            cases hrs : rawSlice right with
            | error e => simp
            | ok rs =>
              simp only
              obtain ⟨kl, hkl, rfl⟩ := rawSlice_take left ls hls
              obtain ⟨kr, hkr, rfl⟩ := rawSlice_take right rs hrs
              have hlenl : (left.take kl).length = kl := by rw [List.length_take]; omega
              have hlenr : (right.take kr).length = kr := by rw [List.length_take]; omega
              by_cases hless : less ((left.take kl).drop 8) ((right.take kr).drop 8) = true
              · simp only [hless, if_true]
                -- copyLeft
                have hd1 : overwrite (pre ++ G ++ right ++ post) pre.length (left.take kl) =
                    (pre ++ left.take kl) ++ G.drop kl ++ right ++ post := by
                  rw [List.append_assoc, List.append_assoc, overwrite_prefix, hlenl]
                  have : (G ++ (right ++ post)).drop kl = G.drop kl ++ (right ++ post) :=
                    List.drop_append_of_le_length (by omega)
                  rw [this]; simp
                rw [hd1, hlenl]
                have hpre1 : (pre ++ left.take kl).length = pre.length + kl := by rw [List.length_append, hlenl]
                have hG1 : (G.drop kl).length = (left.drop kl).length := by
                  rw [List.length_drop, List.length_drop, hG]
                have hih := ih (pre ++ left.take kl) (G.drop kl) right post (left.drop kl) hG1
                  (by rw [hpre1, List.length_drop]; omega)
                have he : (pre ++ left.take kl).length + (G.drop kl).length + right.length =
                    pre.length + G.length + right.length := by rw [hpre1, List.length_drop]; omega
                have hr : (pre ++ left.take kl).length + (G.drop kl).length = pre.length + G.length := by
                  rw [hpre1, List.length_drop]; omega
                rw [he, hr, hpre1] at hih
                rw [hih]
                cases mergeLoop less (pre.length + G.length + right.length) f (pre.length + kl) (left.drop kl) right <;> simp
              · have hless' : less ((left.take kl).drop 8) ((right.take kr).drop 8) = false := by simpa using hless
                simp only [hless', Bool.false_eq_true, if_false]
                -- copyRight: the source is read before the write (memmove)
                have hd1 : overwrite (pre ++ G ++ right ++ post) pre.length (right.take kr) =
                    (pre ++ right.take kr) ++ (G ++ right.take kr).drop kr ++ right.drop kr ++ post := by
                  rw [List.append_assoc, List.append_assoc, overwrite_prefix, hlenr]
                  have e1 : G ++ (right ++ post) = (G ++ right.take kr) ++ (right.drop kr ++ post) := by
                    rw [List.append_assoc, ← List.append_assoc (right.take kr), List.take_append_drop]
                  rw [e1, List.drop_append_of_le_length (by rw [List.length_append, hlenr]; omega)]
                  simp
                rw [hd1, hlenr]
                have hpre1 : (pre ++ right.take kr).length = pre.length + kr := by rw [List.length_append, hlenr]
                have hG1 : ((G ++ right.take kr).drop kr).length = left.length := by
                  rw [List.length_drop, List.length_append, hlenr, hG]; omega
                have hih := ih (pre ++ right.take kr) ((G ++ right.take kr).drop kr) (right.drop kr) post left hG1
                  (by rw [hpre1, hG1, List.length_drop]; omega)
                have he : (pre ++ right.take kr).length + ((G ++ right.take kr).drop kr).length + (right.drop kr).length =
                    pre.length + G.length + right.length := by rw [hpre1, hG1, List.length_drop]; omega
                have hr : (pre ++ right.take kr).length + ((G ++ right.take kr).drop kr).length =
                    pre.length + G.length + kr := by rw [hpre1, hG1]; omega
                rw [he, hr, hpre1] at hih
                rw [hih]
                cases mergeLoop less (pre.length + G.length + right.length) f (pre.length + kr) left (right.drop kr) <;> simp
    · have hG0 : G = [] := List.length_eq_zero_iff.mp (by omega)
      have hr0 : right = [] := List.length_eq_zero_iff.mp (by omega)
      subst hG0 hr0
      simp

end RV.Buffer
