import RV.Proofs.BufferSlices
/-!
`sortHelper.merge`: the slice-level merge, its specification, and the proof that the
byte-level loop of the model computes it on length-prefixed runs.
-/
namespace RV.Buffer
open Gen.Buffer

/-- "ordered by `less`": no later element is less than an earlier one. -/
def Sorted (less : Bytes → Bytes → Bool) (l : List Bytes) : Prop :=
  l.Pairwise (fun a b => less b a = false)

/-- What the merge needs of `less` (a strict weak order is asymmetric and negatively
transitive; transitivity follows from the two). -/
structure StrictWeak (less : Bytes → Bytes → Bool) : Prop where
  asymm : ∀ a b, less a b = true → less b a = false
  negTrans : ∀ a b c, less a b = false → less b c = false → less a c = false

/-- The merge of `sortHelper.merge` on slices: the left head is taken only if it is
strictly less than the right head; on ties the *right* run goes first (`copyRight`). -/
def mergeSl (less : Bytes → Bytes → Bool) : List Bytes → List Bytes → List Bytes
  | [], r => r
  | a :: l, [] => a :: l
  | a :: l, c :: r =>
    if less a c then a :: mergeSl less l (c :: r) else c :: mergeSl less (a :: l) r
termination_by l r => l.length + r.length

theorem mergeSl_perm (less : Bytes → Bytes → Bool) (l r : List Bytes) :
    (mergeSl less l r).Perm (l ++ r) := by
  fun_induction mergeSl less l r with
  | case1 r => simp
  | case2 a l => simp
  | case3 a l c r h ih =>
    exact List.Perm.cons a ih
  | case4 a l c r h ih =>
    refine (List.Perm.cons c ih).trans ?_
    exact (List.perm_middle (a := c) (l₁ := a :: l) (l₂ := r)).symm

theorem mergeSl_sorted (less : Bytes → Bytes → Bool) (sw : StrictWeak less) (l r : List Bytes)
    (hl : Sorted less l) (hr : Sorted less r) : Sorted less (mergeSl less l r) := by
  unfold Sorted at *
  fun_induction mergeSl less l r with
  | case1 r => exact hr
  | case2 a l => exact hl
  | case3 a l c r h ih =>
    rw [List.pairwise_cons] at hl
    refine List.pairwise_cons.mpr ⟨?_, ih hl.2 hr⟩
    intro y hy
    have hy' := (mergeSl_perm less l (c :: r)).mem_iff.mp hy
    rw [List.mem_append] at hy'
    rcases hy' with hy' | hy'
    · exact hl.1 y hy'
    · rw [List.pairwise_cons] at hr
      rcases List.mem_cons.mp hy' with rfl | hy''
      · exact sw.asymm _ _ h
      · exact sw.negTrans _ _ _ (hr.1 y hy'') (sw.asymm _ _ h)
  | case4 a l c r h ih =>
    rw [List.pairwise_cons] at hr
    refine List.pairwise_cons.mpr ⟨?_, ih hl hr.2⟩
    intro y hy
    have hy' := (mergeSl_perm less (a :: l) r).mem_iff.mp hy
    rw [List.mem_append] at hy'
    rcases hy' with hy' | hy'
    · rw [List.pairwise_cons] at hl
      rcases List.mem_cons.mp hy' with rfl | hy''
      · simpa using h
      · exact sw.negTrans _ _ _ (hl.1 y hy'') (by simpa using h)
    · exact hr.1 y hy'

theorem encAll_length_perm {l l' : List Bytes} (h : l.Perm l') : (encAll l).length = (encAll l').length := by
  induction h with
  | nil => rfl
  | cons x _ ih => simp only [encAll_cons, List.length_append, ih]
  | swap x y l => simp only [encAll_cons, List.length_append]; omega
  | trans _ _ ih1 ih2 => exact ih1.trans ih2

theorem mergeSl_encLen (less : Bytes → Bytes → Bool) (l r : List Bytes) :
    (encAll (mergeSl less l r)).length = (encAll l).length + (encAll r).length := by
  rw [encAll_length_perm (mergeSl_perm less l r), encAll_append, List.length_append]

/-- `rawSlice` of a buffer that starts with an encoded slice. -/
theorem rawSlice_enc (s rest : Bytes) (hs : s.length < 2 ^ 62) : rawSlice (enc s ++ rest) = .ok (enc s) := by
  unfold rawSlice
  have hl : (enc s ++ rest).length = 8 + s.length + rest.length := by
    rw [List.length_append, enc_length]
  have h1 : ¬ (enc s ++ rest).length < 8 := by omega
  simp only [h1, if_false]
  have : enc s ++ rest = be64 (w s.length) ++ (s ++ rest) := by unfold enc; simp
  rw [this, getU64_raw_be64, k_rawSliceLen _ (by omega), ← this]
  have h2 : 8 + s.length ≤ (enc s ++ rest).length := by omega
  simp only [h2, if_true]
  rw [← enc_length s, List.take_left]

theorem enc_drop8 (s : Bytes) : (enc s).drop 8 = s := by
  unfold enc
  rw [show 8 = (be64 (w s.length)).length from (be64_length _).symm, List.drop_left]

/-- The byte-level loop of `merge` on two encoded runs is the slice-level merge. -/
theorem mergeLoop_enc (less : Bytes → Bytes → Bool) (end_ : Nat) (he : end_ < 2 ^ 62) :
    ∀ (L R : List Bytes) (fuel start : Nat),
      L.length + R.length < fuel →
      start + (encAll L).length + (encAll R).length = end_ →
      mergeLoop less end_ fuel start (encAll L) (encAll R) = .ok (encAll (mergeSl less L R)) := by
  intro L R
  fun_induction mergeSl less L R with
  | case1 r =>
    intro fuel start hf hs
    cases fuel with
    | zero => omega
    | succ f =>
      unfold mergeLoop
      rw [k_mergeLoopCond _ _ (by omega) (by omega)]
      simp only [encAll_nil, List.length_nil, Nat.add_zero] at hs ⊢
      by_cases hlt : start < end_
      · simp only [hlt, decide_true, Bool.not_true, Bool.false_eq_true, if_false, beq_self_eq_true, if_true]
        rw [if_pos (by omega)]
      · have : (encAll r).length = 0 := by omega
        have : encAll r = [] := List.length_eq_zero_iff.mp this
        simp [hlt, this]
  | case2 a l =>
    intro fuel start hf hs
    cases fuel with
    | zero => omega
    | succ f =>
      unfold mergeLoop
      rw [k_mergeLoopCond _ _ (by omega) (by omega)]
      have hpos : 0 < (encAll (a :: l)).length := by rw [encAll_cons, List.length_append, enc_length]; omega
      simp only [encAll_nil, List.length_nil, Nat.add_zero] at hs ⊢
      have hlt : start < end_ := by omega
      have hne : ¬ (encAll (a :: l)).length = 0 := by omega
      simp only [hlt, decide_true, Bool.not_true, Bool.false_eq_true, if_false, beq_iff_eq, hne, if_true]
      rw [if_pos (by omega)]
  | case3 a l c r h ih =>
    intro fuel start hf hs
    cases fuel with
    | zero => omega
    | succ f =>
      unfold mergeLoop
      rw [k_mergeLoopCond _ _ (by omega) (by omega)]
      have hla : (encAll (a :: l)).length = 8 + a.length + (encAll l).length := by
        rw [encAll_cons, List.length_append, enc_length]
      have hlc : (encAll (c :: r)).length = 8 + c.length + (encAll r).length := by
        rw [encAll_cons, List.length_append, enc_length]
      have hlt : start < end_ := by omega
      have hne1 : ¬ (encAll (a :: l)).length = 0 := by omega
      have hne2 : ¬ (encAll (c :: r)).length = 0 := by omega
      simp only [hlt, decide_true, Bool.not_true, Bool.false_eq_true, if_false, beq_iff_eq, hne1, hne2]
      rw [encAll_cons a l, encAll_cons c r, rawSlice_enc a _ (by omega), rawSlice_enc c _ (by omega)]
      simp only [enc_drop8, h, if_true]
      rw [List.drop_left, ← encAll_cons c r]
      rw [ih f (start + (enc a).length) (by simp at hf ⊢; omega) (by rw [enc_length]; omega)]
      simp [encAll_cons]
  | case4 a l c r h ih =>
    intro fuel start hf hs
    cases fuel with
    | zero => omega
    | succ f =>
      unfold mergeLoop
      rw [k_mergeLoopCond _ _ (by omega) (by omega)]
      have hla : (encAll (a :: l)).length = 8 + a.length + (encAll l).length := by
        rw [encAll_cons, List.length_append, enc_length]
      have hlc : (encAll (c :: r)).length = 8 + c.length + (encAll r).length := by
        rw [encAll_cons, List.length_append, enc_length]
      have hlt : start < end_ := by omega
      have hne1 : ¬ (encAll (a :: l)).length = 0 := by omega
      have hne2 : ¬ (encAll (c :: r)).length = 0 := by omega
      simp only [hlt, decide_true, Bool.not_true, Bool.false_eq_true, if_false, beq_iff_eq, hne1, hne2]
      rw [encAll_cons a l, encAll_cons c r, rawSlice_enc a _ (by omega), rawSlice_enc c _ (by omega)]
      have hfalse : less a c = false := by simpa using h
      simp only [enc_drop8, hfalse, Bool.false_eq_true, if_false]
      rw [List.drop_left, ← encAll_cons a l]
      rw [ih f (start + (enc c).length) (by simp at hf ⊢; omega) (by rw [enc_length]; omega)]
      simp [encAll_cons]

end RV.Buffer
