import RV.Proofs.TieTree2Init
/-!
# The tree on flat memory: `Tree.Reset`

`Memclr(buffer)`, `buffer.Reset()`, `AllocateOffset(minSize)`, `t.data = buffer.Bytes()`, statistics and
page table reset, `initRootNode`: the result represents the structural model's `reset`.
-/
namespace RV.TreeFlat
open RV.Tree RV.NodeFlat Gen.TreeM

theorem replicate_get (n j : Nat) (h : j < n) : (Array.replicate n (0#64 : BitVec 64))[j]! = 0#64 := by
  rw [getElem!_pos _ j (by simpa using h)]; simp

theorem bufGrow_fields (t : St) (n : BitVec 64) :
    (bufGrow t n).data = t.data ∧ (bufGrow t n).bufOffset = t.bufOffset := by
  unfold bufGrow; split <;> exact ⟨rfl, rfl⟩

/-- the allocator state `Tree.Reset` starts `initRootNode` from -/
noncomputable def resetAlloc (curSz : Nat) : Alloc :=
  bufAllocate { nextPage := 1, free := [], leafKeys := 0, pagesFree := 0, dataLen := 0, curSz := curSz } 1048576

theorem reset_eq (cfg : Cfg) (curSz : Nat) : reset cfg curSz = initRoot cfg (resetAlloc curSz) := rfl

theorem bufAllocateOffset_fields (t : St) (n : BitVec 64) :
    ∃ t3, bufAllocateOffset t n = some t3 ∧ t3.data = t.data ∧ t3.bufCurSz = (bufGrow t n).bufCurSz ∧
      t3.bufOffset = t.bufOffset + n := by
  refine ⟨_, rfl, (bufGrow_fields _ _).1, rfl, ?_⟩
  show (bufGrow t n).bufOffset + n = _
  rw [(bufGrow_fields _ _).2]

/-- statistics and page table as `Reset` sets them -/
noncomputable def resetPre (t_4 : St) : St :=
  let t_5 : St := Gen.TreeM.statsZero t_4
  let t_6 : St := { t_5 with nextPage := 1#64 }
  { t_6 with freePage := 0#64 }

/-- `Memclr`, `buffer.Reset()`, `AllocateOffset(1 MiB)`, `Bytes()`: 131072 zero words, offset and capacity as
the structural `bufAllocate` computes them (the states are kept abstract: only these facts are used) -/
theorem reset_prefix (t : St) :
    ∃ t1 t2 t3 t4, memclrBuf t = some t1 ∧ bufReset t1 = some t2 ∧ bufAllocateOffset t2 1048576#64 = some t3 ∧
      bufBytes t3 = some t4 ∧ t4.data.size = 131072 ∧ (∀ j, j < 131072 → t4.data[j]! = 0#64) ∧
      t4.bufOffset = 1048584#64 ∧ t4.bufCurSz = w (resetAlloc t.bufCurSz.toNat).curSz := by
  obtain ⟨t1, h1, hd1, hc1⟩ : ∃ t1, memclrBuf t = some t1 ∧ t1.data = Array.replicate t.data.size 0#64 ∧
      t1.bufCurSz = t.bufCurSz := ⟨_, rfl, rfl, rfl⟩
  obtain ⟨t2, h2, hd2, hc2, ho2⟩ : ∃ t2, bufReset t1 = some t2 ∧ t2.data = t1.data ∧ t2.bufCurSz = t1.bufCurSz ∧
      t2.bufOffset = 8#64 := ⟨_, rfl, rfl, rfl, rfl⟩
  obtain ⟨t3, h3, hd3, hc3, ho3⟩ := bufAllocateOffset_fields t2 1048576#64
  have ho3' : t3.bufOffset = 1048584#64 := by rw [ho3, ho2]; bv_omega
  have hd3' : t3.data = Array.replicate t.data.size 0#64 := by rw [hd3, hd2, hd1]
  have hc3' : t3.bufCurSz = w (resetAlloc t.bufCurSz.toNat).curSz := by
    rw [hc3]
    exact bufGrow_curSz t2 { nextPage := 1, free := [], leafKeys := 0, pagesFree := 0, dataLen := 0, curSz := t.bufCurSz.toNat }
      1048576#64 (by rw [ho2]) (by rw [hc2, hc1]; simp [w])
  have h1' : (1048584#64 : BitVec 64).toNat = 1048584 := by simp
  have hn : (1048584 - 8) / 8 = 131072 := by omega
  have h4 : bufBytes t3 = some { t3 with data := (if 131072 ≤ t3.data.size then t3.data.extract 0 131072
      else t3.data ++ Array.replicate (131072 - t3.data.size) 0#64) } := by
    unfold bufBytes
    rw [ho3', h1', if_pos (by omega), hn]
  refine ⟨t1, t2, t3, _, h1, h2, h3, h4, ?_, ?_, ho3', hc3'⟩
  · show (if 131072 ≤ t3.data.size then t3.data.extract 0 131072
      else t3.data ++ Array.replicate (131072 - t3.data.size) 0#64).size = 131072
    split
    · simp; omega
    · simp; omega
  · intro j hj
    show (if 131072 ≤ t3.data.size then t3.data.extract 0 131072
      else t3.data ++ Array.replicate (131072 - t3.data.size) 0#64)[j]! = 0#64
    rw [hd3']
    split
    · rename_i h
      simp only [Array.size_replicate] at h
      rw [extract_get! _ 0 131072 j (by omega) (by simpa using h)]
      exact replicate_get _ _ (by omega)
    · rename_i h
      simp only [Array.size_replicate] at h
      by_cases hjs : j < t.data.size
      · rw [getElem!_pos _ j (by simp; omega), Array.getElem_append_left (by simpa using hjs)]; simp
      · rw [getElem!_pos _ j (by simp; omega), Array.getElem_append_right (by simp; omega)]; simp

theorem resetPre_inv (cfg : Cfg) (t t4 : St) (hs : t4.data.size = 131072) (ho : t4.bufOffset = 1048584#64)
    (hcur : t4.bufCurSz = w (resetAlloc t.bufCurSz.toNat).curSz) :
    AllocInv cfg (resetPre t4) (resetAlloc t.bufCurSz.toNat) := by
  refine ⟨⟨rfl, rfl, rfl, rfl, ?_, hcur, ?_, rfl⟩, trivial, List.nodup_nil, (fun q hq => by cases hq), Nat.one_pos, ?_⟩
  · show 8 * t4.data.size = 0 + 1048576
    rw [hs]
  · show t4.bufOffset = w (0 + 1048576 + 8)
    rw [ho]
  · show t4.data.size < 2 ^ 40
    rw [hs]; omega

/-- `Tree.Reset()`: the buffer is wiped and cut back to 1 MiB (131072 zero words), the statistics and the
page table are reset, `initRootNode` builds the initial tree: the result represents the structural
model's `reset` (with the capacity the buffer has reached), the allocator corresponds, every page but
the root (1) and its leaf (2) is zero. -/
theorem Reset_refines {cfg : Cfg} (hc : CfgFlat cfg) (hmk2 : 2 ≤ cfg.maxKeys) (t : St) (fuel : Nat) :
    ∃ t', Reset (w cfg.pageSize) (w cfg.maxKeys) (fuel + 2) t = some t' ∧
      TreeFlat.Repr cfg t'.data (reset cfg t.bufCurSz.toNat).root ∧
      AllocInv cfg t' (reset cfg t.bufCurSz.toNat).a ∧
      (reset cfg t.bufCurSz.toNat).root.pid = 1 ∧
      Live (reset cfg t.bufCurSz.toNat).a (reset cfg t.bufCurSz.toNat).root ∧
      131072 ≤ t'.data.size ∧
      (∀ r, r ≠ 1 → r ≠ 2 → (r + 1) * pw cfg ≤ 131072 → ∀ j, j < pw cfg → (pageOf cfg t'.data r)[j]! = 0#64) := by
  obtain ⟨t1, t2, t3, t4, h1, h2, h3, h4, hd7s, hd7z, ho4, hc4⟩ := reset_prefix t
  have hinv7 := resetPre_inv cfg t t4 hd7s ho4 hc4
  obtain ⟨t', hinit, hrepr, hinv', hpid, hlive, hgrow, hframe⟩ :=
    initRootNode_refines hc hmk2 _ (resetAlloc t.bufCurSz.toNat) hinv7 rfl rfl fuel
  unfold Reset
  rw [h1, Option.bind_some, h2, Option.bind_some, h3, Option.bind_some, h4, Option.bind_some]
  rw [reset_eq]
  refine ⟨t', ?_, hrepr, hinv', hpid, hlive, ?_, ?_⟩
  · show (initRootNode (w cfg.pageSize) (w cfg.maxKeys) (fuel + 2) (resetPre t4)).bind (fun t_8 => some t_8) = some t'
    rw [hinit]; rfl
  · have : t4.data.size ≤ t'.data.size := hgrow
    omega
  · intro r hr1 hr2 hfr j hj
    have hfr7 : (r + 1) * pw cfg ≤ t4.data.size := by rw [hd7s]; exact hfr
    have := hframe r hr1 hr2 hfr7
    rw [this]
    show (pageOf cfg t4.data r)[j]! = 0#64
    rw [pageOf_get t4.data r j hfr7 hj]
    have e := succ_mul_pw cfg r
    exact hd7z _ (by omega)

end RV.TreeFlat
