import RV.Proofs.CacheTTLRead
/-!
# The sweep removes only what is expired *now* (C14 safety)

`apSwKey_cases`: the sweep's `DelExpired` step either removes the **current** entry of the key —
and then that entry's expiration is non-zero and not after the sweep's clock read — or changes
nothing.  `sweepInv_reach`: in every reachable state the clock read of a running sweep is ≤ the
clock, and the `(expiration, value)` the applier holds between `DelExpired`, `policy.Del` and
`OnEvict` satisfies `expr ≠ zeroTime ∧ expr ≤ now ≤ clock`.
-/
namespace RV.Cache
open Gen.Cache

theorem sweepSkip_false {exp now : Time} (h : sweepSkip exp now = false) : exp ≠ Gen.zeroTime ∧ exp ≤ now := by
  simp only [sweepSkip, Bool.or_eq_false_iff, beq_eq_false_iff_ne, decide_eq_false_iff_not, Int.not_lt] at h
  exact h

theorem sweepSkip_true {exp now : Time} (h : exp = Gen.zeroTime ∨ now < exp) : sweepSkip exp now = true := by
  simp only [sweepSkip, Bool.or_eq_true, beq_iff_eq, decide_eq_true_eq]
  exact h

/-- The `DelExpired` step of the sweep: it removes the current entry of `k` only if that entry's
expiration is set and not after `now`; otherwise nothing changes. -/
theorem apSwKey_cases (s : State) (now : Time) (k : Hash) (c : Conf) (bs : List (AMap Hash Conf)) :
    (∃ e, s.store.lookup k = some e ∧ e.exp ≠ Gen.zeroTime ∧ e.exp ≤ now ∧
        sweepConflictMismatch c e.conflict = false ∧
        apSwKey s now k c bs =
          { s with store := s.store.erase k, em := s.em.del k e.exp, app := .swStoreDel now k c e.exp e.value bs }) ∨
    apSwKey s now k c bs = { s with app := .sweep now bs } := by
  cases hrem : (storeDelExpired s.store s.em k c now).2.2.2.2 with
  | true =>
    obtain ⟨e, hl, hc, hsk, heq⟩ := storeDelExpired_removed hrem
    obtain ⟨h1, h2⟩ := sweepSkip_false hsk
    refine Or.inl ⟨e, hl, h1, h2, hc, ?_⟩
    unfold apSwKey; simp [heq]
  | false =>
    refine Or.inr ?_
    unfold apSwKey; simp [storeDelExpired_kept hrem]

/-- an entry without TTL, or with an expiration after the sweep's clock read, is left alone -/
theorem apSwKey_keeps {s : State} {now : Time} {k : Hash} {c : Conf} {bs : List (AMap Hash Conf)} {e : Entry}
    (hl : s.store.lookup k = some e) (h : e.exp = Gen.zeroTime ∨ now < e.exp) :
    apSwKey s now k c bs = { s with app := .sweep now bs } := by
  rcases apSwKey_cases s now k c bs with ⟨e', hl', h1, h2, _, _⟩ | h'
  · rw [hl] at hl'; cases hl'
    rcases h with h | h
    · exact absurd h h1
    · exact absurd h (Int.not_lt.mpr h2)
  · exact h'

/-- what the applier knows while sweeping -/
def SweepOk (clock : Time) : APc → Prop
  | .sweep now _ => now ≤ clock
  | .swKey now _ _ _ => now ≤ clock
  | .swStoreDel now _ _ expr _ _ => now ≤ clock ∧ expr ≠ Gen.zeroTime ∧ expr ≤ now
  | .swPolDel now _ _ expr _ _ _ => now ≤ clock ∧ expr ≠ Gen.zeroTime ∧ expr ≤ now
  | _ => True

theorem SweepOk.mono {c c' : Time} {pc : APc} (h : SweepOk c pc) (hle : c ≤ c') : SweepOk c' pc := by
  cases pc <;> simp only [SweepOk] at h ⊢
  · exact Int.le_trans h hle
  · exact Int.le_trans h hle
  · exact ⟨Int.le_trans h.1 hle, h.2⟩
  · exact ⟨Int.le_trans h.1 hle, h.2⟩

theorem clientStep_app {cfg : Cfg} {s s' : State} {t : Tid} {ch : Choice}
    (hs : clientStep cfg s t ch = some s') : s'.app = s.app ∨ s'.app = .idle ∨ s'.app = .dead := by
  apply clientStep_cases hs (motive := fun s' => s'.app = s.app ∨ s'.app = .idle ∨ s'.app = .dead)
  case getStart => intro h c _ hr; exact Or.inl (stGetStart_frame hr).2.2.1
  case iterShard => intro k n seen _ hr; exact Or.inl (stIterShard_frame hr).2.2.1
  case waitRecv => intro id _ _ hr; exact Or.inl (stWaitRecv_app _ _ _ hr)
  case clrDrain =>
    intro closing _ _
    unfold stClrDrain
    split
    · exact Or.inl rfl
    · rename_i hr; exact Or.inl (by simp [recvBuf_app hr])
    · rename_i hr; split <;> exact Or.inl (by simp [recvBuf_app hr])
  case clrShard =>
    intro closing k _ hr
    unfold stClrShard at hr
    split at hr
    · split at hr
      · simp at hr
      · split at hr
        · simp at hr
        · simp only [Option.some.injEq] at hr; subst hr; exact Or.inl (by simp [evictAll_app])
    · simp at hr
  case clrRestart =>
    intro closing _ _
    unfold stClrRestart; dsimp only; split <;> exact Or.inr (Or.inl rfl)
  case clsFinish => intros; exact Or.inr (Or.inr rfl)
  all_goals (intros; exact Or.inl (by simp))

theorem sweepOk_applierStep {cfg : Cfg} {s s' : State} {ch : Choice} (h : SweepOk s.clock s.app)
    (hs : applierStep cfg s ch = some s') : SweepOk s'.clock s'.app := by
  rw [applierStep_clock hs]
  revert h
  apply applierStep_cases hs (motive := fun s' => SweepOk s.clock s.app → SweepOk s.clock s'.app)
  case idle =>
    intro _ hr _
    unfold apIdle at hr
    split at hr
    · unfold apSelItem at hr
      split at hr
      · simp at hr
      · simp only [Option.some.injEq] at hr; subst hr; trivial
      · simp only [Option.some.injEq] at hr; subst hr; trivial
    · simp only [Option.some.injEq] at hr; subst hr; trivial
    · unfold apSelStop at hr
      split at hr
      · simp only [Option.some.injEq] at hr; subst hr; trivial
      · simp only [Option.some.injEq] at hr; subst hr; trivial
      · simp at hr
    · simp at hr
  case marker => intros; trivial
  case item => intros; trivial
  case costed =>
    intro i _ hr _
    unfold apCosted at hr
    split at hr
    · unfold apCostedNew at hr
      split at hr
      · split at hr
        · simp at hr
        · simp only [Option.some.injEq] at hr; subst hr; trivial
      · simp at hr
    · obtain ⟨_, hr⟩ := needNone_some hr
      simp only [Option.some.injEq] at hr; subst hr; trivial
    · obtain ⟨_, hr⟩ := needNone_some hr
      simp only [Option.some.injEq] at hr; subst hr; trivial
  case added =>
    intro i victims ok _ _ _
    unfold apAdded afterVictims
    split <;> split <;> trivial
  case victims =>
    intro vs _ _ hr _
    unfold apVictims at hr
    split at hr
    · simp at hr
    · simp only [Option.some.injEq] at hr; subst hr; trivial
  case victimEvict =>
    intro hh cost c v rest _ _ _
    unfold apVictimEvict afterVictims
    split <;> trivial
  case tombPolicy => intros; trivial
  case tombStore => intros; trivial
  case tick => intros; exact Int.le_refl _
  case sweep =>
    intro now bs hpc hr h
    rw [hpc] at h
    unfold apSweep at hr
    split at hr
    · simp only [Option.some.injEq] at hr; subst hr; trivial
    · split at hr
      · simp at hr
      · simp only [Option.some.injEq] at hr; subst hr; exact h
    · simp at hr
  case swKey =>
    intro now k c bs hpc _ h
    rw [hpc] at h
    rcases apSwKey_cases s now k c bs with ⟨e, _, h1, h2, _, heq⟩ | heq <;> rw [heq]
    · exact ⟨h, h1, h2⟩
    · exact h
  case swStoreDel =>
    intro now k c expr v bs hpc _ h
    rw [hpc] at h
    exact h
  case swPolDel =>
    intro now k c expr cost v bs hpc _ h
    rw [hpc] at h
    exact h.1

theorem sweepOk_step {cfg : Cfg} {s s' : State} {a : Action} (h : SweepOk s.clock s.app)
    (hs : step cfg s a = some s') : SweepOk s'.clock s'.app := by
  have hclk := step_clock_le hs
  cases a with
  | spawn t c => rw [spawnStep_app s t c hs]; exact h.mono hclk
  | client t ch =>
    rcases clientStep_app (cfg := cfg) hs with e | e | e <;> rw [e]
    · exact h.mono hclk
    · trivial
    · trivial
  | applier ch => exact sweepOk_applierStep h hs
  | done t =>
    have hs' : doneStep s t = some s' := hs
    unfold doneStep at hs'
    split at hs'
    · simp only [Option.some.injEq] at hs'; subst hs'; trivial
    · simp only [Option.some.injEq] at hs'; subst hs'; trivial
    · simp at hs'
  | tick d =>
    simp only [step, Option.some.injEq] at hs; subst hs
    exact h.mono hclk

/-- `c14_only_expired`, state form: in every reachable state the sweep's clock read is ≤ the clock,
and whatever the applier has just removed by expiry carried `expr ≠ zeroTime ∧ expr ≤ now`. -/
theorem sweepOk_reach {cfg : Cfg} {s : State} (h : Reach cfg s) : SweepOk s.clock s.app :=
  Reach.induction (P := fun s => SweepOk s.clock s.app) (fun _ => trivial) (fun _ _ _ _ hp hs => sweepOk_step hp hs) h

end RV.Cache
