import RV.Proofs.BufferChunks
/-!
`sortSmall`, the loop over the chunks, and `SortSliceBetween` as a whole.
-/
namespace RV.Buffer
open Gen.Buffer

/-- The contract assumed of `sort.Slice`: it permutes; and it orders when the comparison
is a strict weak order (on whatever it compares). -/
structure SortContract (sortFn : SortFn) : Prop where
  perm : ∀ lt l, (sortFn lt l).Perm l
  sorted : ∀ (lt : Item → Item → Bool) l,
    (∀ a b, lt a b = true → lt b a = false) →
    (∀ a b c, lt a b = false → lt b c = false → lt a c = false) →
    (sortFn lt l).Pairwise (fun a b => lt b a = false)

/-- every visited (offset, slice) pair really is an encoded slice at that offset -/
theorem items_valid (d post : Bytes) : ∀ (C : List Bytes) (pre : Bytes), d = pre ++ encAll C ++ post →
    ∀ it ∈ (offsetsFrom pre.length C).zip C, ∃ rest, d.drop it.1 = enc it.2 ++ rest := by
  intro C
  induction C with
  | nil => intro pre _ it hit; simp [offsetsFrom] at hit
  | cons s ss ih =>
    intro pre hd it hit
    simp only [offsetsFrom, List.zip_cons_cons, List.mem_cons] at hit
    rcases hit with rfl | hit
    · refine ⟨encAll ss ++ post, ?_⟩
      rw [hd, encAll_cons]
      simp only [List.append_assoc, List.drop_left]
    · have hpre : (pre ++ enc s).length = pre.length + 8 + s.length := by
        rw [List.length_append, enc_length]; omega
      have := ih (pre ++ enc s) (by rw [hd, encAll_cons]; simp) it (by rw [hpre]; exact hit)
      exact this

theorem items_snd (C : List Bytes) (off : Nat) : ((offsetsFrom off C).zip C).map (·.2) = C := by
  rw [List.map_snd_zip (by rw [offsetsFrom_length]; exact Nat.le_refl _)]

theorem rawSlices_spec (d : Bytes) (hd : d.length < 2 ^ 62) : ∀ (l : List Item),
    (∀ it ∈ l, ∃ rest, d.drop it.1 = enc it.2 ++ rest) →
    rawSlices d (l.map (·.1)) = .ok (encAll (l.map (·.2))) := by
  intro l
  induction l with
  | nil => intro _; rfl
  | cons it l ih =>
    intro h
    obtain ⟨rest, hr⟩ := h it (List.mem_cons_self)
    have hlen : it.2.length < 2 ^ 62 := by
      have := congrArg List.length hr
      rw [List.length_drop, List.length_append, enc_length] at this
      omega
    simp only [List.map_cons, rawSlices, hr, rawSlice_enc it.2 rest hlen,
      ih (fun x hx => h x (List.mem_cons_of_mem _ hx)), encAll_cons]

theorem wf_setData (b : Buf) (h : WF b) (d : Bytes) (hl : d.length = b.data.length) : WF { b with data := d } :=
  ⟨by simp only [hl, h.len], h.pad, h.cap, h.curSmall, h.maxSmall, h.autoSmall⟩

/-- `sortSmall` on a chunk: the chunk's region is rewritten with the slices in the order
`sort.Slice` chose. -/
theorem sortSmall_spec (sortFn : SortFn) (sc : SortContract sortFn) (less : Bytes → Bytes → Bool)
    (b : Buf) (h : WF b) (pre post : Bytes) (C : List Bytes)
    (hd : b.data = pre ++ encAll C ++ post) (hC : C ≠ []) :
    ∃ C', sortSmall sortFn less b pre.length (pre.length + (encAll C).length) =
        .ok { b with data := pre ++ encAll C' ++ post } ∧
      C'.Perm C ∧ (StrictWeak less → Sorted less C') := by
  have hcap := h.cap; have hcur := h.curSmall; have hlen := h.len
  have hl : b.data.length = pre.length + (encAll C).length + post.length := by
    rw [hd]; simp only [List.length_append]
  have hge := encAll_length_ge C
  let lt : Item → Item → Bool := fun x y => less x.2 y.2
  let items := (offsetsFrom pre.length C).zip C
  refine ⟨(sortFn lt items).map (·.2), ?_, ?_, ?_⟩
  · unfold sortSmall
    have hw := walk_spec (fun nx => sortSmallWalkCond nx (w (pre.length + (encAll C).length))) b h post
      (k_sortSmallWalkCond_none _) C pre (b.offset + 2) hd (by omega) (Or.inl hC)
      (by intro n hn; rw [k_sortSmallWalkCond_some _ _ (by omega) (by omega)]; simp [hn])
      (by intro _; rw [k_sortSmallWalkCond_some _ _ (by omega) (by omega)]; simp)
    rw [hw]
    simp only
    have hvalid : ∀ it ∈ sortFn lt items, ∃ rest, b.data.drop it.1 = enc it.2 ++ rest := by
      intro it hit
      exact items_valid b.data post C pre hd it ((sc.perm lt items).mem_iff.mp hit)
    rw [rawSlices_spec b.data (by omega) _ hvalid]
    simp only
    have hperm : ((sortFn lt items).map (·.2)).Perm C := by
      have := (sc.perm lt items).map (·.2)
      rwa [items_snd] at this
    have hlenT : (encAll ((sortFn lt items).map (·.2))).length = (encAll C).length := encAll_length_perm hperm
    have hc1 : pre.length ≤ pre.length + (encAll C).length ∧ pre.length + (encAll C).length ≤ b.data.length := by
      omega
    rw [if_pos hc1]
    have hmin : min (pre.length + (encAll C).length - pre.length) (encAll ((sortFn lt items).map (·.2))).length
        = (encAll C).length := by rw [hlenT]; omega
    rw [hmin, k_sortSmallLen _ _ _ (by omega) (by omega) (by omega)]
    have : pre.length + (encAll C).length - pre.length = (encAll C).length := by omega
    simp only [this, decide_true, if_true]
    rw [← hlenT, List.take_length, hd, overwrite_mid _ _ _ _ hlenT]
  · have := (sc.perm lt items).map (·.2)
    rwa [items_snd] at this
  · intro sw
    unfold Sorted
    rw [List.pairwise_map]
    exact sc.sorted lt items (fun a b => sw.asymm a.2 b.2) (fun a b c => sw.negTrans a.2 b.2 c.2)

theorem boundaries_cons_head (off : Nat) (cs : List (List Bytes)) :
    ∃ t, boundaries off cs = off :: t := by
  cases cs with
  | nil => exact ⟨[], rfl⟩
  | cons c cs => exact ⟨_, rfl⟩

/-- chunk-wise: every new chunk is a permutation of the old one, ordered if `less` is a
strict weak order -/
inductive ChunkRel (less : Bytes → Bytes → Bool) : List (List Bytes) → List (List Bytes) → Prop
  | nil : ChunkRel less [] []
  | cons {c' c : List Bytes} {cs' cs : List (List Bytes)} :
      c'.Perm c → (StrictWeak less → Sorted less c') → ChunkRel less cs' cs → ChunkRel less (c' :: cs') (c :: cs)

theorem ChunkRel.length_eq {less} {cs' cs : List (List Bytes)} (h : ChunkRel less cs' cs) : cs'.length = cs.length := by
  induction h with
  | nil => rfl
  | cons _ _ _ ih => simp [ih]

theorem ChunkRel.flatten_perm {less} {cs' cs : List (List Bytes)} (h : ChunkRel less cs' cs) :
    cs'.flatten.Perm cs.flatten := by
  induction h with
  | nil => exact List.Perm.refl _
  | cons hp _ _ ih => simp only [List.flatten_cons]; exact List.Perm.append hp ih

theorem ChunkRel.sorted {less} {cs' cs : List (List Bytes)} (h : ChunkRel less cs' cs) (sw : StrictWeak less) :
    ∀ c ∈ cs', Sorted less c := by
  induction h with
  | nil => intro c hc; simp at hc
  | cons _ hs _ ih =>
    intro c hc
    rcases List.mem_cons.mp hc with rfl | hc
    · exact hs sw
    · exact ih c hc

theorem ChunkRel.boundaries_eq {less} {cs' cs : List (List Bytes)} (h : ChunkRel less cs' cs) :
    ∀ off, boundaries off cs' = boundaries off cs := by
  induction h with
  | nil => intro off; rfl
  | cons hp _ _ ih => intro off; simp only [boundaries, encAll_length_perm hp, ih]

/-- the loop `for _, off := range offsets[1:] { s.sortSmall(left, off) }` -/
theorem sortSmallAll_spec (sortFn : SortFn) (sc : SortContract sortFn) (less : Bytes → Bytes → Bool)
    (post : Bytes) : ∀ (cs : List (List Bytes)) (b : Buf) (pre : Bytes), WF b →
    b.data = pre ++ encAll cs.flatten ++ post → (∀ c ∈ cs, c ≠ []) →
    ∃ cs' : List (List Bytes), sortSmallAll sortFn less b (boundaries pre.length cs) =
        .ok { b with data := pre ++ encAll cs'.flatten ++ post } ∧
      ChunkRel less cs' cs := by
  intro cs
  induction cs with
  | nil =>
    intro b pre _ hd _
    refine ⟨[], ?_, ChunkRel.nil⟩
    simp only [boundaries, sortSmallAll]
    rw [← hd]
  | cons c cs ih =>
    intro b pre h hd hne
    have hd' : b.data = pre ++ encAll c ++ (encAll cs.flatten ++ post) := by
      rw [hd, List.flatten_cons, encAll_append]; simp
    obtain ⟨c', he, hp, hs⟩ := sortSmall_spec sortFn sc less b h pre _ c hd' (hne c List.mem_cons_self)
    obtain ⟨t, ht⟩ := boundaries_cons_head (pre.length + (encAll c).length) cs
    simp only [boundaries]
    rw [ht, sortSmallAll, he]
    simp only
    rw [← ht]
    have hlen' : (encAll c').length = (encAll c).length := encAll_length_perm hp
    have hwf1 : WF { b with data := pre ++ encAll c' ++ (encAll cs.flatten ++ post) } :=
      wf_setData b h _ (by rw [hd']; simp only [List.length_append, hlen'])
    have hpre1 : (pre ++ encAll c').length = pre.length + (encAll c).length := by
      rw [List.length_append, hlen']
    obtain ⟨cs', he2, hf2⟩ := ih { b with data := pre ++ encAll c' ++ (encAll cs.flatten ++ post) }
      (pre ++ encAll c') hwf1 (by simp) (fun x hx => hne x (List.mem_cons_of_mem _ hx))
    rw [hpre1] at he2
    refine ⟨c' :: cs', ?_, ChunkRel.cons hp hs hf2⟩
    rw [he2]
    simp [encAll_append]

theorem chunks_length_le (n : Nat) : ∀ (fuel : Nat) (l : List Bytes), (chunks n fuel l).length ≤ fuel := by
  intro fuel
  induction fuel with
  | zero => intro l; simp [chunks]
  | succ f ih =>
    intro l
    unfold chunks
    split
    · simp
    · simp only [List.length_cons]; have := ih (l.drop n); omega

theorem marks_head (S : List Bytes) (hS : S ≠ []) (off : Nat) : ∃ t, marks 0 off S = off :: t := by
  cases S with
  | nil => exact absurd rfl hS
  | cons s ss => exact ⟨marks 1 (off + 8 + s.length) ss, by simp [marks]⟩

/-- `SortSliceBetween(start, end, less)` on a range `[start,end)` that holds the encoded
slices `S` (so both ends are slice boundaries). -/
theorem sortSliceBetween_spec (sortFn : SortFn) (sc : SortContract sortFn) (less : Bytes → Bytes → Bool)
    (b : Buf) (h : WF b) (pre post : Bytes) (S : List Bytes)
    (hd : b.data = pre ++ encAll S ++ post) (hS : S ≠ []) (h0 : pre.length ≠ 0) :
    ∃ S', sortSliceBetween sortFn less b pre.length (pre.length + (encAll S).length) =
        .ok { b with data := pre ++ encAll S' ++ post } ∧
      S'.Perm S ∧ (StrictWeak less → Sorted less S') := by
  have hcap := h.cap; have hcur := h.curSmall; have hlen := h.len
  have hl : b.data.length = pre.length + (encAll S).length + post.length := by
    rw [hd]; simp only [List.length_append]
  have hge := encAll_length_ge S
  have hpos : 0 < (encAll S).length := by
    rcases Nat.eq_zero_or_pos (encAll S).length with h0 | h0
    · exact absurd (encAll_eq_nil (List.length_eq_zero_iff.mp h0)) hS
    · exact h0
  -- the chunks
  let cs := chunks 1024 S.length S
  have hflat : cs.flatten = S := chunks_flatten 1024 (by omega) _ _ (Nat.le_refl _)
  have hne : ∀ c ∈ cs, c ≠ [] := fun c hc => (chunks_nonempty 1024 (by omega) _ _ c hc).1
  have hcsl : cs.length ≤ S.length := chunks_length_le 1024 _ _
  have hoffs : marks 0 pre.length S ++ [pre.length + (encAll S).length] = boundaries pre.length cs :=
    marks_boundaries S.length S 0 pre.length (by omega) (Nat.le_refl _)
  -- sortSmall over all chunks
  obtain ⟨cs', hsm, hrel⟩ := sortSmallAll_spec sortFn sc less post cs b pre h (by rw [hflat]; exact hd) hne
  have hperm' : cs'.flatten.Perm S := hflat ▸ hrel.flatten_perm
  have hlenE : (encAll cs'.flatten).length = (encAll S).length := encAll_length_perm hperm'
  have hb' : boundaries pre.length cs' = boundaries pre.length cs := hrel.boundaries_eq _
  have hcl : cs'.length = cs.length := hrel.length_eq
  -- the recursive sort
  have hrec := sortRec_spec less cs' pre.length (by omega) (by omega) (cs.length + 1 + 1) 0 cs'.length pre post
    (by omega) (Nat.le_refl _) (by omega) (by simp [encAll_nil])
  simp only [List.drop_zero, Nat.sub_zero, List.take_length] at hrec
  rw [hb'] at hrec
  refine ⟨mergeRange less cs' (cs.length + 1 + 1) 0 cs'.length, ?_, ?_, ?_⟩
  · unfold sortSliceBetween
    rw [k_sortEmptyRange _ _ (by omega) (by omega), k_sortStartZero _ (by omega)]
    have e1 : ¬ pre.length + (encAll S).length ≤ pre.length := by omega
    simp only [e1, h0, decide_false, Bool.false_eq_true, if_false]
    rw [chunkOffsets_spec b h post _ S pre (b.offset + 2) 0 hd rfl (by omega) (Or.inl hS) (by omega)]
    simp only
    obtain ⟨t, ht⟩ := marks_head S hS pre.length
    have hlast : ∃ last, (marks 0 pre.length S).getLast? = some last ∧ last ∈ marks 0 pre.length S := by
      rw [ht]
      exact ⟨(pre.length :: t).getLast (by simp), List.getLast?_eq_some_getLast (by simp), List.getLast_mem _⟩
    obtain ⟨last, hl1, hl2⟩ := hlast
    rw [hl1]
    simp only
    have hlt := marks_lt S 0 pre.length last hl2
    have hne' : (last != pre.length + (encAll S).length) = true := by simp; omega
    rw [hne']
    simp only [if_true]
    rw [hoffs, hsm]
    simp only
    rw [boundaries_length, show cs.length + 1 - 1 = cs'.length by omega, hrec]
  · exact (mergeRange_perm less cs' _ 0 cs'.length (by omega) (by omega)).trans (by simpa using hperm')
  · intro sw
    exact mergeRange_sorted less sw cs' (hrel.sorted sw) _ 0 cs'.length (by omega) (by omega)

/-- an empty or inverted range is left alone -/
theorem sortSliceBetween_empty (sortFn : SortFn) (less : Bytes → Bytes → Bool) (b : Buf)
    (start end_ : Nat) (hs : start < 2 ^ 62) (he : end_ < 2 ^ 62) (hle : end_ ≤ start) :
    sortSliceBetween sortFn less b start end_ = .ok b := by
  unfold sortSliceBetween
  rw [k_sortEmptyRange _ _ (by omega) (by omega)]
  simp [hle]

/-- `start == 0` with a non-empty range panics -/
theorem sortSliceBetween_zero (sortFn : SortFn) (less : Bytes → Bytes → Bool) (b : Buf)
    (end_ : Nat) (he : end_ < 2 ^ 62) (hpos : 0 < end_) :
    sortSliceBetween sortFn less b 0 end_ = .error .startZero := by
  unfold sortSliceBetween
  rw [k_sortEmptyRange _ _ (by omega) (by omega), k_sortStartZero _ (by omega)]
  have : ¬ end_ ≤ 0 := by omega
  simp [this]

/-! ### `insertionSort` satisfies the contract (so the contract is satisfiable) -/

theorem insertSorted_perm (lt : Item → Item → Bool) (x : Item) (l : List Item) :
    (insertSorted lt x l).Perm (x :: l) := by
  induction l with
  | nil => exact List.Perm.refl _
  | cons y ys ih =>
    unfold insertSorted
    split
    · exact List.Perm.refl _
    · exact (List.Perm.cons y ih).trans (List.Perm.swap x y ys)

theorem insertSorted_sorted (lt : Item → Item → Bool)
    (hasym : ∀ a b, lt a b = true → lt b a = false)
    (hnt : ∀ a b c, lt a b = false → lt b c = false → lt a c = false)
    (x : Item) (l : List Item) (hl : l.Pairwise (fun a b => lt b a = false)) :
    (insertSorted lt x l).Pairwise (fun a b => lt b a = false) := by
  induction l with
  | nil => simp [insertSorted]
  | cons y ys ih =>
    rw [List.pairwise_cons] at hl
    unfold insertSorted
    by_cases hxy : lt x y = true
    · rw [if_pos hxy]
      refine List.pairwise_cons.mpr ⟨?_, List.pairwise_cons.mpr hl⟩
      intro z hz
      rcases List.mem_cons.mp hz with rfl | hz
      · exact hasym _ _ hxy
      · exact hnt _ _ _ (hl.1 z hz) (hasym _ _ hxy)
    · rw [if_neg hxy]
      refine List.pairwise_cons.mpr ⟨?_, ih hl.2⟩
      intro z hz
      have := (insertSorted_perm lt x ys).mem_iff.mp hz
      rcases List.mem_cons.mp this with rfl | hz'
      · simpa using hxy
      · exact hl.1 z hz'

theorem insertionSort_contract : SortContract insertionSort := by
  constructor
  · intro lt l
    induction l with
    | nil => exact List.Perm.refl _
    | cons x xs ih =>
      simp only [insertionSort, List.foldr_cons] at ih ⊢
      exact (insertSorted_perm lt x _).trans (List.Perm.cons x ih)
  · intro lt l hasym hnt
    induction l with
    | nil => simp [insertionSort]
    | cons x xs ih =>
      simp only [insertionSort, List.foldr_cons] at ih ⊢
      exact insertSorted_sorted lt hasym hnt x _ ih

end RV.Buffer
