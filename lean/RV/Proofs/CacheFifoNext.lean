import RV.Proofs.CacheFifoGone
/-!
# The pc a client step leads to

`client_next`: for the `Set`/`Del`/`Wait`/`Get` pcs, the pc after the step as a function of
the pc before it (and of the state); all other steps lead to pcs outside these four calls.
-/
namespace RV.Cache
open Gen.Cache

/-- pcs inside `Set`, `Del`, `Wait`, `Get` (`idle` excluded) -/
def CPc.core : CPc → Bool
  | .setStart .. => true | .setUpd _ => true | .setExit .. => true | .setSend _ => true
  | .setRetTrue _ => true | .setRetDrop _ => true
  | .delStart .. => true | .delExit .. => true | .delSend .. => true | .delBlocked _ => true | .delSent _ => true
  | .waitStart => true | .waitSend => true | .waitBlocked _ => true | .waitRecv _ => true | .waitDone => true
  | .getStart .. => true | .getRead .. => true | .getCheck .. => true | .getMetric .. => true
  | _ => false

def NextPc (cfg : Cfg) (s : State) (pc : CPc) : CPc → Prop :=
  match pc with
  | .setStart h c v cost _ => fun pc' => pc' = .idle ∨ ∃ exp, pc' = .setUpd ⟨.new, h, c, v, cost, exp⟩
  | .setUpd i => fun pc' =>
      (pc' = .setExit i (storeUpdate cfg s.store s.em i).2.2.1 ∧ (storeUpdate cfg s.store s.em i).2.2.2 = true) ∨
      (pc' = .setSend i ∧ (storeUpdate cfg s.store s.em i).2.2.2 = false)
  | .setExit i _ => fun pc' => pc' = .setSend { i with flag := .upd }
  | .setSend i => fun pc' => pc' = .setRetTrue i ∨ pc' = .setRetDrop i
  | .setRetTrue _ => fun pc' => pc' = .idle
  | .setRetDrop _ => fun pc' => pc' = .idle
  | .delStart h c => fun pc' =>
      (pc' = .idle ∧ s.closed = true) ∨ (pc' = .delExit h c (delRemoved s h c) ∧ s.closed = false)
  | .delExit h c _ => fun pc' => pc' = .delSend h c
  | .delSend h _ => fun pc' => pc' = .delSent h ∨ pc' = .delBlocked h
  | .delSent _ => fun pc' => pc' = .idle
  | .waitStart => fun pc' => (pc' = .idle ∧ s.closed = true) ∨ (pc' = .waitSend ∧ s.closed = false)
  | .waitSend => fun pc' => pc' = .waitRecv s.nextMarker ∨ pc' = .waitBlocked s.nextMarker
  | .waitRecv id => fun pc' => pc' = .waitDone ∧ id ∈ s.closedMarkers
  | .waitDone => fun pc' => pc' = .idle
  | .getStart h c => fun pc' => (pc' = .idle ∧ s.closed = true) ∨ (pc' = .getRead h c ∧ s.closed = false)
  | .getRead h c => fun pc' => pc' = .getCheck h c (s.store.lookup h)
  | .getCheck h c e => fun pc' => pc' = .getMetric h c (getResult c e s.clock)
  | .getMetric .. => fun pc' => pc' = .idle
  | _ => fun pc' => pc'.core = false

theorem client_next {cfg : Cfg} {s s' : State} {t : Tid} {ch : Choice}
    (hs : clientStep cfg s t ch = some s') : NextPc cfg s (s.cl t) (s'.cl t) := by
  apply clientStep_cases hs (motive := fun s' => NextPc cfg s (s.cl t) (s'.cl t))
  case setStart =>
    intro h c v cost ttl hpc _
    rw [hpc]; unfold stSetStart
    (repeat' split) <;> (unfold NextPc; simp)
  case setUpd =>
    intro i hpc _
    rw [hpc]; unfold stSetUpd; dsimp only
    split
    · rename_i h; (unfold NextPc; simp [h])
    · rename_i h; (unfold NextPc; simp [h])
  case setExit => intro i prev hpc _; rw [hpc]; (unfold NextPc; simp [stSetExit])
  case setSend => intro i hpc _; rw [hpc]; unfold stSetSend; split <;> (unfold NextPc; simp)
  case setRetTrue => intro i hpc _; rw [hpc]; (unfold NextPc; simp [stSetRetTrue])
  case setRetDrop => intro i hpc _; rw [hpc]; unfold stSetRetDrop; split <;> (unfold NextPc; simp)
  case delStart =>
    intro h c hpc _
    rw [hpc]; unfold stDelStart
    split
    · rename_i hc; (unfold NextPc; simp [hc])
    · rename_i hc; (unfold NextPc; simp [hc, delRemoved])
  case delExit => intro h c prev hpc _; rw [hpc]; (unfold NextPc; simp [stDelExit])
  case delSend => intro h c hpc _; rw [hpc]; unfold stDelSend sendBlocking; split <;> (unfold NextPc; simp)
  case delSent => intro h hpc _; rw [hpc]; (unfold NextPc; simp [stDelSent])
  case waitStart =>
    intro hpc _
    rw [hpc]; unfold stWaitStart
    split
    · rename_i hc; (unfold NextPc; simp [hc])
    · rename_i hc; (unfold NextPc; simp [hc])
  case waitSend => intro hpc _; rw [hpc]; unfold stWaitSend sendBlocking; split <;> (unfold NextPc; simp)
  case waitRecv =>
    intro id hpc _ hr
    rw [hpc]
    unfold stWaitRecv at hr
    split at hr
    · rename_i hc
      simp only [Option.some.injEq] at hr; subst hr
      unfold NextPc; simp only [setCl_cl_self, true_and]
      simpa using hc
    · simp at hr
  case waitDone => intro hpc _; rw [hpc]; (unfold NextPc; simp [stWaitDone])
  case getStart =>
    intro h c hpc hr
    rw [hpc]
    rcases (stGetStart_q hr).2.2.2.2.2.2.2.2.2 with ⟨e, hc, _⟩ | ⟨e, hc, _⟩ <;> (unfold NextPc; simp [e, hc])
  case getRead => intro h c hpc _; rw [hpc]; (unfold NextPc; simp [stGetRead])
  case getCheck => intro h c e hpc _; rw [hpc]; (unfold NextPc; simp [stGetCheck])
  case getMetric => intro h c r hpc _; rw [hpc]; (unfold NextPc; simp [stGetMetric])
  case ttlRead => intro h c hpc _; rw [hpc]; (unfold NextPc; simp [stTtlRead] <;> rfl)
  case ttlCheck => intro h c e hpc _; rw [hpc]; unfold stTtlCheck; split <;> (unfold NextPc; simp <;> rfl)
  case ttlExp => intro h c hpc _; rw [hpc]; unfold stTtlExp; dsimp only; split <;> (unfold NextPc; simp <;> rfl)
  case ttlNow => intro h c e hpc _; rw [hpc]; unfold stTtlNow; split <;> (unfold NextPc; simp <;> rfl)
  case ttlUntil => intro h c e hpc _; rw [hpc]; (unfold NextPc; simp [stTtlUntil] <;> rfl)
  case iterStart => intro n hpc _; rw [hpc]; unfold stIterStart; split <;> (unfold NextPc; simp <;> rfl)
  case iterShard =>
    intro k n seen hpc hr
    rw [hpc]
    rcases (stIterShard_q hr).2.2.2.2.2.2.2.2.2 with ⟨e, _⟩ | ⟨_, _, e, _⟩ <;> (unfold NextPc; simp [e] <;> rfl)
  case clrStart => intro cl hpc _; rw [hpc]; unfold stClrStart; split <;> (unfold NextPc; simp <;> rfl)
  case clrDrain =>
    intro closing hpc _
    rw [hpc]
    unfold stClrDrain
    split
    · (unfold NextPc; simp <;> rfl)
    · rename_i hr
      have := ClrKeep.recv hr t (by simp [hpc, CPc.clrWit])
      unfold NextPc; dsimp only
      show (CPc.core (_ : CPc)) = false
      rw [show (_ : CPc) = s.cl t from this, hpc]; rfl
    · rename_i i s1 hr
      have := ClrKeep.recv hr t (by simp [hpc, CPc.clrWit])
      unfold NextPc; dsimp only
      split
      · show (CPc.core (s1.cl t)) = false
        rw [this, hpc]; rfl
      · rw [this, hpc]; rfl
  case clrPolicy => intro cl hpc _; rw [hpc]; (unfold NextPc; simp [stClrPolicy] <;> rfl)
  case clrShard =>
    intro closing k hpc hr
    rw [hpc]
    obtain ⟨_, _, _, _, _, _, _, _, _, _, _, _, h10⟩ := stClrShard_q hr
    unfold NextPc; dsimp only; rw [h10]; split <;> rfl
  case clrEm => intro cl hpc _; rw [hpc]; (unfold NextPc; simp [stClrEm] <;> rfl)
  case clrMetrics => intro cl hpc _; rw [hpc]; (unfold NextPc; simp [stClrMetrics] <;> rfl)
  case clrRestart => intro cl hpc _; rw [hpc]; unfold stClrRestart; dsimp only; split <;> (unfold NextPc; simp <;> rfl)
  case clsFinish => intro hpc _; rw [hpc]; (unfold NextPc; simp [stClsFinish] <;> rfl)
  case updMax => intro m hpc _; rw [hpc]; (unfold NextPc; simp [stUpdMax] <;> rfl)
  case readMax => intro hpc _; rw [hpc]; (unfold NextPc; simp [stReadMax] <;> rfl)
  case readRem => intro hpc _; rw [hpc]; (unfold NextPc; simp [stReadRem] <;> rfl)

/-- the pc right after a spawn -/
theorem spawn_next {s s' : State} {t : Tid} {c : Call} (hs : spawnStep s t c = some s') :
    s.cl t = .idle ∧ s'.cl t = (match c with
      | .set h cf v cost ttl => .setStart h cf v cost ttl
      | .get h cf => .getStart h cf
      | .getTTL h cf => .ttlRead h cf
      | .del h cf => .delStart h cf
      | .wait => .waitStart
      | .clear => .clrStart false
      | .close => .clrStart true
      | .iter n => .iterStart n
      | .updateMaxCost m => .updMax m
      | .maxCost => .readMax
      | .remainingCost => .readRem) := by
  unfold spawnStep at hs
  split at hs
  · rename_i hidle
    refine ⟨hidle, ?_⟩
    cases c <;> (simp only [Option.some.injEq] at hs; subst hs; simp)
  · simp at hs

/-- the pcs `done` / the applier's `stop` receive lead to -/
theorem done_next {s s' : State} {t : Tid} (hs : doneStep s t = some s') : (s'.cl t).core = false := by
  unfold doneStep at hs
  split at hs <;> first | (simp only [Option.some.injEq] at hs; subst hs; simp <;> rfl) | simp at hs

theorem selStop_next {s s' : State} {t : Tid} (hs : apSelStop s t = some s') : (s'.cl t).core = false := by
  unfold apSelStop at hs
  split at hs <;> first | (simp only [Option.some.injEq] at hs; subst hs; simp <;> rfl) | simp at hs

theorem core_true_ne {pc : CPc} (h : pc.core = false) (h' : pc.core = true) : False := by
  rw [h] at h'; cases h'

/-- only `Del`'s send step leads to the pcs "tombstone sent" -/
theorem next_delSent {cfg : Cfg} {s : State} {pc pc' : CPc} {k : Hash} (h : NextPc cfg s pc pc')
    (hp : pc' = .delBlocked k ∨ pc' = .delSent k) : ∃ c, pc = .delSend k c := by
  have hcore : pc'.core = true := by rcases hp with e | e <;> (rw [e]; rfl)
  cases pc <;> unfold NextPc at h <;> dsimp only at h
  case delSend h' c' =>
    rcases hp with e | e <;> subst e <;> simp at h <;> (subst h; exact ⟨c', rfl⟩)
  all_goals first
    | (exact (core_true_ne h hcore).elim)
    | (rcases hp with e | e <;> subst e <;> simp at h)

/-- only `Wait`'s send step leads to the pcs "marker sent" -/
theorem next_waitSent {cfg : Cfg} {s : State} {pc pc' : CPc} {id : Nat} (h : NextPc cfg s pc pc')
    (hp : pc' = .waitBlocked id ∨ pc' = .waitRecv id) : pc = .waitSend ∧ id = s.nextMarker := by
  have hcore : pc'.core = true := by rcases hp with e | e <;> (rw [e]; rfl)
  cases pc <;> unfold NextPc at h <;> dsimp only at h
  case waitSend =>
    rcases hp with e | e <;> subst e <;> simp at h <;> exact ⟨rfl, h⟩
  all_goals first
    | (exact (core_true_ne h hcore).elim)
    | (rcases hp with e | e <;> subst e <;> simp at h)

/-- `waitDone` is reached only from `waitRecv id` with the marker closed -/
theorem next_waitDone {cfg : Cfg} {s : State} {pc : CPc} (h : NextPc cfg s pc .waitDone) :
    ∃ id, pc = .waitRecv id ∧ id ∈ s.closedMarkers := by
  have hcore : CPc.waitDone.core = true := rfl
  cases pc <;> unfold NextPc at h <;> dsimp only at h
  case waitRecv id => exact ⟨id, rfl, h.2⟩
  all_goals first
    | (exact (core_true_ne h hcore).elim)
    | (simp at h)

end RV.Cache
