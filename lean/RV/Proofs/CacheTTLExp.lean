import RV.Proofs.CacheTTLLog
/-!
# `exp_of_value`: values are never re-stamped (C07 b)

Every place of the state that carries a value together with an expiration — store
entries, items in client pcs / the write buffer / blocked sends / applier pcs, the entry
copies held by `Get`/`GetTTL`, the `(value, expiration)` pair held by the sweep between
`DelExpired` and `OnEvict` — carries a pair that was logged by a `setExp _ v exp` event
(`Logged`), i.e. the expiration computed by the `SetWithTTL` call that supplied the value.
The only exception are `Del` tombstones, which carry `(0, zeroTime)`.

Proved for all reachable states (`expInv_reach`), without `Fresh`; with `Fresh` the
`setExp` event of a value is unique (`UniqInv.uniq`).
-/
namespace RV.Cache
open Gen.Cache

/-- `(v, exp)` was logged by some `SetWithTTL` (or is the pair of a `Del` tombstone) -/
def Logged (l : List Ev) (v : Val) (exp : Time) : Prop :=
  (v = 0 ∧ exp = Gen.zeroTime) ∨ ∃ t, Ev.setExp t v exp ∈ l

theorem Logged.mono {l l' : List Ev} {v : Val} {exp : Time} (h : Logged l v exp) (hsub : ∀ e ∈ l, e ∈ l') :
    Logged l' v exp := by
  rcases h with h | ⟨t, h⟩
  · exact Or.inl h
  · exact Or.inr ⟨t, hsub _ h⟩

/-- pairs carried by a client pc -/
def cpcCar : CPc → List (Val × Time)
  | .setUpd i => [(i.value, i.exp)]
  | .setExit i _ => [(i.value, i.exp)]
  | .setSend i => [(i.value, i.exp)]
  | .setRetTrue i => [(i.value, i.exp)]
  | .setRetDrop i => [(i.value, i.exp)]
  | .getCheck _ _ (some e) => [(e.value, e.exp)]
  | .ttlCheck _ _ (some e) => [(e.value, e.exp)]
  | _ => []

/-- pairs carried by an applier pc -/
def apcCar : APc → List (Val × Time)
  | .item i => [(i.value, i.exp)]
  | .costed i => [(i.value, i.exp)]
  | .added i _ _ => [(i.value, i.exp)]
  | .tombPolicy i => [(i.value, i.exp)]
  | .swStoreDel _ _ _ expr v _ => [(v, expr)]
  | .swPolDel _ _ _ expr _ v _ => [(v, expr)]
  | _ => []

def elemCar : BufElem → List (Val × Time)
  | .item i => [(i.value, i.exp)]
  | .marker _ => []

/-- `p` is carried somewhere in `s` -/
inductive Car (s : State) (p : Val × Time) : Prop
  | store (k : Hash) (e : Entry) : s.store.lookup k = some e → p = (e.value, e.exp) → Car s p
  | cl (t : Tid) : p ∈ cpcCar (s.cl t) → Car s p
  | buf (x : BufElem) : x ∈ s.buf → p ∈ elemCar x → Car s p
  | sendq (y : Tid × BufElem) : y ∈ s.sendq → p ∈ elemCar y.2 → Car s p
  | app : p ∈ apcCar s.app → Car s p

/-- Every carried pair was logged. -/
def ExpInv (s : State) : Prop := ∀ p, Car s p → Logged s.log p.1 p.2

/-- where a pair carried after the step comes from -/
def Src (s s' : State) (p : Val × Time) : Prop := Car s p ∨ Logged s'.log p.1 p.2

theorem ExpInv.of {s s' : State} (h : ExpInv s) (hlog : ∀ e ∈ s.log, e ∈ s'.log)
    (hstore : ∀ k e, s'.store.lookup k = some e → Src s s' (e.value, e.exp))
    (hcl : ∀ t, ∀ p ∈ cpcCar (s'.cl t), Src s s' p)
    (hbuf : ∀ x ∈ s'.buf, ∀ p ∈ elemCar x, Src s s' p)
    (hsendq : ∀ y ∈ s'.sendq, ∀ p ∈ elemCar y.2, Src s s' p)
    (happ : ∀ p ∈ apcCar s'.app, Src s s' p) : ExpInv s' := by
  have key : ∀ p, Src s s' p → Logged s'.log p.1 p.2 := by
    intro p hp
    rcases hp with hp | hp
    · exact (h p hp).mono hlog
    · exact hp
  intro p hc
  cases hc with
  | store k e h1 h2 => subst h2; exact key _ (hstore k e h1)
  | cl t h1 => exact key _ (hcl t p h1)
  | buf x h1 h2 => exact key _ (hbuf x h1 p h2)
  | sendq y h1 h2 => exact key _ (hsendq y h1 p h2)
  | app h1 => exact key _ (happ p h1)

section frames
variable {s s' : State}

theorem src_store_eq (h : s'.store = s.store) : ∀ k e, s'.store.lookup k = some e → Src s s' (e.value, e.exp) :=
  fun k e hl => Or.inl (.store k e (by rw [← h]; exact hl) rfl)
theorem src_store_sub (h : ∀ k e, s'.store.lookup k = some e → s.store.lookup k = some e) :
    ∀ k e, s'.store.lookup k = some e → Src s s' (e.value, e.exp) :=
  fun k e hl => Or.inl (.store k e (h k e hl) rfl)
theorem src_buf_eq (h : s'.buf = s.buf) : ∀ x ∈ s'.buf, ∀ p ∈ elemCar x, Src s s' p :=
  fun x hx p hp => Or.inl (.buf x (by rw [← h]; exact hx) hp)
theorem src_sendq_eq (h : s'.sendq = s.sendq) : ∀ y ∈ s'.sendq, ∀ p ∈ elemCar y.2, Src s s' p :=
  fun y hy p hp => Or.inl (.sendq y (by rw [← h]; exact hy) hp)
theorem src_app_eq (h : s'.app = s.app) : ∀ p ∈ apcCar s'.app, Src s s' p :=
  fun p hp => Or.inl (.app (by rw [← h]; exact hp))
theorem src_app_sub (h : ∀ p ∈ apcCar s'.app, p ∈ apcCar s.app) : ∀ p ∈ apcCar s'.app, Src s s' p :=
  fun p hp => Or.inl (.app (h p hp))
theorem src_cl_eq (h : s'.cl = s.cl) : ∀ t, ∀ p ∈ cpcCar (s'.cl t), Src s s' p :=
  fun t p hp => Or.inl (.cl t (by rw [← h]; exact hp))
/-- only thread `t` moved -/
theorem src_cl_client (t : Tid) (hne : ∀ t', t' ≠ t → s'.cl t' = s.cl t')
    (h : ∀ p ∈ cpcCar (s'.cl t), Src s s' p) : ∀ t', ∀ p ∈ cpcCar (s'.cl t'), Src s s' p := by
  intro t' p hp
  by_cases e : t' = t
  · subst e; exact h p hp
  · rw [hne t' e] at hp; exact Or.inl (.cl t' hp)
theorem src_cl_sub (t : Tid) (hne : ∀ t', t' ≠ t → s'.cl t' = s.cl t')
    (h : ∀ p ∈ cpcCar (s'.cl t), p ∈ cpcCar (s.cl t)) : ∀ t', ∀ p ∈ cpcCar (s'.cl t'), Src s s' p :=
  src_cl_client t hne fun p hp => Or.inl (.cl t (h p hp))
end frames

@[simp] theorem cpcCar_unblockedPc (pc : CPc) : cpcCar (unblockedPc pc) = cpcCar pc := by
  cases pc <;> rfl

/-! ### the store operations -/

theorem storeUpdate_lookup {cfg : Cfg} {st : Store} {em : Em} {i : Item} {k : Hash} {e : Entry}
    (h : (storeUpdate cfg st em i).1.lookup k = some e) :
    st.lookup k = some e ∨ (e.value = i.value ∧ e.exp = i.exp) := by
  unfold storeUpdate at h
  split at h
  · exact Or.inl h
  · split at h
    · exact Or.inl h
    · dsimp only at h
      split at h
      · exact Or.inl h
      · rw [AMap.lookup_insert] at h
        split at h
        · simp only [Option.some.injEq] at h; subst h; exact Or.inr ⟨rfl, rfl⟩
        · exact Or.inl h

theorem storeSet_lookup {cfg : Cfg} {st : Store} {em : Em} {i : Item} {k : Hash} {e : Entry}
    (h : (storeSet cfg st em i).1.lookup k = some e) :
    st.lookup k = some e ∨ (e.value = i.value ∧ e.exp = i.exp) := by
  unfold storeSet at h
  split at h
  · split at h
    · exact Or.inl h
    · dsimp only at h
      split at h
      · exact Or.inl h
      · rw [AMap.lookup_insert] at h
        split at h
        · simp only [Option.some.injEq] at h; subst h; exact Or.inr ⟨rfl, rfl⟩
        · exact Or.inl h
  · rw [AMap.lookup_insert] at h
    split at h
    · simp only [Option.some.injEq] at h; subst h; exact Or.inr ⟨rfl, rfl⟩
    · exact Or.inl h

theorem lookup_erase_some {st : Store} {k k' : Hash} {e : Entry} (h : (st.erase k).lookup k' = some e) :
    st.lookup k' = some e := by
  rw [AMap.lookup_erase] at h
  split at h
  · cases h
  · exact h

theorem storeDel_lookup {st : Store} {em : Em} {k k' : Hash} {c : Conf} {e : Entry}
    (h : (storeDel st em k c).1.lookup k' = some e) : st.lookup k' = some e := by
  unfold storeDel at h
  split at h
  · exact h
  · split at h
    · exact h
    · exact lookup_erase_some h

/-- what `DelExpired` removes is the current entry of the key, and it is expired at `now` -/
theorem storeDelExpired_removed {st : Store} {em : Em} {k : Hash} {c : Conf} {now : Time}
    (h : (storeDelExpired st em k c now).2.2.2.2 = true) :
    ∃ e, st.lookup k = some e ∧ sweepConflictMismatch c e.conflict = false ∧ sweepSkip e.exp now = false ∧
      storeDelExpired st em k c now = (st.erase k, em.del k e.exp, e.value, e.exp, true) := by
  cases hl : st.lookup k with
  | none => simp [storeDelExpired, hl] at h
  | some e =>
    by_cases h1 : sweepConflictMismatch c e.conflict = true
    · simp [storeDelExpired, hl, h1] at h
    · by_cases h2 : sweepSkip e.exp now = true
      · simp [storeDelExpired, hl, h1, h2] at h
      · exact ⟨e, rfl, by simpa using h1, by simpa using h2, by simp [storeDelExpired, hl, h1, h2]⟩

theorem storeDelExpired_kept {st : Store} {em : Em} {k : Hash} {c : Conf} {now : Time}
    (h : (storeDelExpired st em k c now).2.2.2.2 = false) :
    storeDelExpired st em k c now = (st, em, 0, Gen.zeroTime, false) := by
  cases hl : st.lookup k with
  | none => simp [storeDelExpired, hl]
  | some e =>
    by_cases h1 : sweepConflictMismatch c e.conflict = true
    · simp [storeDelExpired, hl, h1]
    · by_cases h2 : sweepSkip e.exp now = true
      · simp [storeDelExpired, hl, h1, h2]
      · simp [storeDelExpired, hl, h1, h2] at h

theorem eraseAll_lookup {st : Store} {ks : List Hash} {k : Hash} {e : Entry}
    (h : (eraseAll st ks).lookup k = some e) : st.lookup k = some e := by
  induction ks generalizing st with
  | nil => exact h
  | cons x rest ih => exact lookup_erase_some (ih h)

theorem evictAll_store (s : State) (st : Store) (ks : List Hash) : (evictAll s st ks).store = s.store := by
  induction ks generalizing s with
  | nil => rfl
  | cons k rest ih => unfold evictAll; split <;> simp [ih]
theorem evictAll_buf (s : State) (st : Store) (ks : List Hash) : (evictAll s st ks).buf = s.buf := by
  induction ks generalizing s with
  | nil => rfl
  | cons k rest ih => unfold evictAll; split <;> simp [ih]
theorem evictAll_sendq (s : State) (st : Store) (ks : List Hash) : (evictAll s st ks).sendq = s.sendq := by
  induction ks generalizing s with
  | nil => rfl
  | cons k rest ih => unfold evictAll; split <;> simp [ih]

/-! ### receive -/

/-- after a receive: the received element and everything left in `buf`/`sendq` was in `buf`/`sendq` -/
theorem recvBuf_src {s s1 : State} {x : BufElem} (h : recvBuf s = some (x, s1)) :
    (∀ p ∈ elemCar x, Car s p) ∧ (∀ y ∈ s1.buf, ∀ p ∈ elemCar y, Car s p) ∧
    (∀ y ∈ s1.sendq, ∀ p ∈ elemCar y.2, Car s p) := by
  obtain ⟨rest, hb, (⟨hq, rfl⟩ | ⟨t, e, q, hq, rfl⟩)⟩ := recvBuf_cases h
  · refine ⟨fun p hp => .buf x (by rw [hb]; simp) hp, fun y hy p hp => .buf y (by rw [hb]; exact List.mem_cons_of_mem _ hy) hp,
      fun y hy p hp => .sendq y hy hp⟩
  · refine ⟨fun p hp => .buf x (by rw [hb]; simp) hp, fun y hy p hp => ?_, fun y hy p hp => ?_⟩
    · simp only [setCl_buf, List.mem_append, List.mem_cons, List.not_mem_nil, or_false] at hy
      rcases hy with hy | rfl
      · exact .buf y (by rw [hb]; exact List.mem_cons_of_mem _ hy) hp
      · exact .sendq (t, y) (by rw [hq]; simp) hp
    · simp only [setCl_sendq] at hy
      exact .sendq y (by rw [hq]; exact List.mem_cons_of_mem _ hy) hp

theorem recvBuf_src_cl {s s1 : State} {x : BufElem} (h : recvBuf s = some (x, s1)) :
    ∀ t, ∀ p ∈ cpcCar (s1.cl t), Car s p := by
  intro t p hp
  rcases recvBuf_cl h t with e | e <;> rw [e] at hp
  · exact .cl t hp
  · rw [cpcCar_unblockedPc] at hp; exact .cl t hp


/-! ### preservation -/

open Lean in
/-- `car_frame stX`: the client step `stX` of thread `t` leaves store/buf/sendq/app alone and its
new pc carries nothing new -/
macro "car_frame " f:ident : tactic => do
  let n := f.getId
  let clne := mkIdent (n.appendAfter "_cl_ne")
  let store := mkIdent (n.appendAfter "_store")
  let buf := mkIdent (n.appendAfter "_buf")
  let sendq := mkIdent (n.appendAfter "_sendq")
  let app := mkIdent (n.appendAfter "_app")
  `(tactic| (refine ExpInv.of ‹ExpInv _› ‹_› (src_store_eq ($store ..)) (src_cl_sub _ (fun _ hne => $clne (hne := hne) ..) ?_)
               (src_buf_eq ($buf ..)) (src_sendq_eq ($sendq ..)) (src_app_eq ($app ..))
             unfold $f; (try dsimp only); (repeat' split) <;> simp_all [cpcCar]))

theorem expInv_clientStep {cfg : Cfg} {s s' : State} {t : Tid} {ch : Choice} (h : ExpInv s)
    (hs : clientStep cfg s t ch = some s') (hlog : ∀ e ∈ s.log, e ∈ s'.log) : ExpInv s' := by
  revert hlog
  apply clientStep_cases hs (motive := fun s' => (∀ e ∈ s.log, e ∈ s'.log) → ExpInv s')
  case setExit => intros; car_frame stSetExit
  case setRetTrue => intros; car_frame stSetRetTrue
  case setRetDrop => intros; car_frame stSetRetDrop
  case delExit => intros; car_frame stDelExit
  case delSent => intros; car_frame stDelSent
  case waitStart => intros; car_frame stWaitStart
  case waitDone => intros; car_frame stWaitDone
  case getCheck => intros; car_frame stGetCheck
  case getMetric => intros; car_frame stGetMetric
  case ttlCheck => intros; car_frame stTtlCheck
  case ttlExp => intros; car_frame stTtlExp
  case ttlNow => intros; car_frame stTtlNow
  case ttlUntil => intros; car_frame stTtlUntil
  case iterStart => intros; car_frame stIterStart
  case clrStart => intros; car_frame stClrStart
  case clrPolicy => intros; car_frame stClrPolicy
  case clrEm => intros; car_frame stClrEm
  case clrMetrics => intros; car_frame stClrMetrics
  case updMax => intros; car_frame stUpdMax
  case readMax => intros; car_frame stReadMax
  case readRem => intros; car_frame stReadRem
  case waitRecv =>
    intro id hpc _ hr hlog
    refine ExpInv.of h hlog (src_store_eq (stWaitRecv_store _ _ _ hr))
      (src_cl_sub t (fun _ hne => stWaitRecv_cl_ne _ _ _ hr hne) ?_)
      (src_buf_eq (stWaitRecv_buf _ _ _ hr)) (src_sendq_eq (stWaitRecv_sendq _ _ _ hr)) (src_app_eq (stWaitRecv_app _ _ _ hr))
    unfold stWaitRecv at hr; split at hr
    · simp only [Option.some.injEq] at hr; subst hr; simp [cpcCar]
    · simp at hr
  case clrRestart =>
    intro closing hpc _ hlog
    refine ExpInv.of h hlog (src_store_eq (stClrRestart_store ..)) (src_cl_sub t (fun _ hne => stClrRestart_cl_ne _ _ _ hne) ?_)
      (src_buf_eq (stClrRestart_buf ..)) (src_sendq_eq (stClrRestart_sendq ..)) ?_
    · unfold stClrRestart; dsimp only; split <;> simp [cpcCar, logEv]
    · unfold stClrRestart; dsimp only; split <;> simp [apcCar, logEv]
  case clsFinish =>
    intro hpc _ hlog
    refine ExpInv.of h hlog (src_store_eq (stClsFinish_store ..)) (src_cl_sub t (fun _ hne => stClsFinish_cl_ne _ _ hne) ?_)
      (src_buf_eq (stClsFinish_buf ..)) (src_sendq_eq (stClsFinish_sendq ..)) ?_
    · simp [stClsFinish, cpcCar, logEv]
    · simp [stClsFinish, apcCar, logEv]
  case setStart =>
    intro hh c v cost ttl hpc _ hlog
    refine ExpInv.of h hlog (src_store_eq (stSetStart_store ..)) (src_cl_client t (fun _ hne => stSetStart_cl_ne _ _ _ _ _ _ _ hne) ?_)
      (src_buf_eq (stSetStart_buf ..)) (src_sendq_eq (stSetStart_sendq ..)) (src_app_eq (stSetStart_app ..))
    unfold stSetStart
    split
    · simp [cpcCar, logEv]
    · split
      · intro p hp
        simp only [logEv, setCl_cl_self, cpcCar, List.mem_cons, List.not_mem_nil, or_false] at hp
        subst hp
        exact Or.inr (Or.inr ⟨t, by simp [logEv]⟩)
      · split
        · simp [cpcCar, logEv]
        · intro p hp
          simp only [logEv, setCl_cl_self, cpcCar, List.mem_cons, List.not_mem_nil, or_false] at hp
          subst hp
          exact Or.inr (Or.inr ⟨t, by simp [logEv]⟩)
  case setUpd =>
    intro i hpc _ hlog
    refine ExpInv.of h hlog ?_ (src_cl_sub t (fun _ hne => stSetUpd_cl_ne _ _ _ _ hne) ?_)
      (src_buf_eq (stSetUpd_buf ..)) (src_sendq_eq (stSetUpd_sendq ..)) (src_app_eq (stSetUpd_app ..))
    · intro k e hl
      have hl' : (storeUpdate cfg s.store s.em i).1.lookup k = some e := by
        unfold stSetUpd at hl; dsimp only at hl; split at hl <;> exact hl
      rcases storeUpdate_lookup hl' with h1 | ⟨h1, h2⟩
      · exact Or.inl (.store k e h1 rfl)
      · exact Or.inl (.cl t (by rw [hpc, h1, h2]; simp [cpcCar]))
    · rw [hpc]; unfold stSetUpd; dsimp only; split <;> simp [cpcCar]
  case setSend =>
    intro i hpc _ hlog
    refine ExpInv.of h hlog (src_store_eq (stSetSend_store ..)) (src_cl_sub t (fun _ hne => stSetSend_cl_ne _ _ _ _ hne) ?_)
      ?_ (src_sendq_eq (stSetSend_sendq ..)) (src_app_eq (stSetSend_app ..))
    · rw [hpc]; unfold stSetSend; split <;> simp [cpcCar]
    · unfold stSetSend
      split
      · intro x hx p hp
        simp only [setCl_buf, List.mem_append, List.mem_cons, List.not_mem_nil, or_false] at hx
        rcases hx with hx | rfl
        · exact Or.inl (.buf x hx hp)
        · exact Or.inl (.cl t (by rw [hpc]; simpa [cpcCar, elemCar] using hp))
      · exact fun x hx p hp => Or.inl (.buf x hx hp)
  case delStart =>
    intro hh c hpc _ hlog
    refine ExpInv.of h hlog (src_store_sub ?_) (src_cl_sub t (fun _ hne => stDelStart_cl_ne _ _ _ _ hne) ?_)
      (src_buf_eq (stDelStart_buf ..)) (src_sendq_eq (stDelStart_sendq ..)) (src_app_eq (stDelStart_app ..))
    · intro k e hl
      unfold stDelStart at hl
      split at hl
      · exact hl
      · exact storeDel_lookup hl
    · unfold stDelStart; split <;> simp [cpcCar, logEv]
  case delSend =>
    intro hh c hpc _ hlog
    refine ExpInv.of h hlog (src_store_eq (stDelSend_store ..)) (src_cl_sub t (fun _ hne => stDelSend_cl_ne _ _ _ _ _ hne) ?_)
      ?_ ?_ (src_app_eq (stDelSend_app ..))
    · unfold stDelSend sendBlocking; split <;> simp [cpcCar]
    · unfold stDelSend sendBlocking
      split
      · intro x hx p hp
        simp only [setCl_buf, List.mem_append, List.mem_cons, List.not_mem_nil, or_false] at hx
        rcases hx with hx | rfl
        · exact Or.inl (.buf x hx hp)
        · simp only [elemCar, List.mem_cons, List.not_mem_nil, or_false] at hp
          subst hp; exact Or.inr (Or.inl ⟨rfl, rfl⟩)
      · exact fun x hx p hp => Or.inl (.buf x hx hp)
    · unfold stDelSend sendBlocking
      split
      · exact fun x hx p hp => Or.inl (.sendq x hx hp)
      · intro x hx p hp
        simp only [setCl_sendq, List.mem_append, List.mem_cons, List.not_mem_nil, or_false] at hx
        rcases hx with hx | rfl
        · exact Or.inl (.sendq x hx hp)
        · simp only [elemCar, List.mem_cons, List.not_mem_nil, or_false] at hp
          subst hp; exact Or.inr (Or.inl ⟨rfl, rfl⟩)
  case waitSend =>
    intro hpc _ hlog
    refine ExpInv.of h hlog (src_store_eq (stWaitSend_store ..)) (src_cl_sub t (fun _ hne => stWaitSend_cl_ne _ _ _ hne) ?_)
      ?_ ?_ (src_app_eq (stWaitSend_app ..))
    · unfold stWaitSend sendBlocking; split <;> simp [cpcCar]
    · unfold stWaitSend sendBlocking
      split
      · intro x hx p hp
        simp only [setCl_buf, List.mem_append, List.mem_cons, List.not_mem_nil, or_false] at hx
        rcases hx with hx | rfl
        · exact Or.inl (.buf x hx hp)
        · simp [elemCar] at hp
      · exact fun x hx p hp => Or.inl (.buf x hx hp)
    · unfold stWaitSend sendBlocking
      split
      · exact fun x hx p hp => Or.inl (.sendq x hx hp)
      · intro x hx p hp
        simp only [setCl_sendq, List.mem_append, List.mem_cons, List.not_mem_nil, or_false] at hx
        rcases hx with hx | rfl
        · exact Or.inl (.sendq x hx hp)
        · simp [elemCar] at hp
  case getRead =>
    intro hh c hpc _ hlog
    refine ExpInv.of h hlog (src_store_eq (stGetRead_store ..)) (src_cl_client t (fun _ hne => stGetRead_cl_ne _ _ _ _ hne) ?_)
      (src_buf_eq (stGetRead_buf ..)) (src_sendq_eq (stGetRead_sendq ..)) (src_app_eq (stGetRead_app ..))
    intro p hp
    simp only [stGetRead, setCl_cl_self] at hp
    cases hl : s.store.lookup hh with
    | none => simp [hl, cpcCar] at hp
    | some e =>
      simp only [hl, cpcCar, List.mem_cons, List.not_mem_nil, or_false] at hp
      exact Or.inl (.store hh e hl hp)
  case ttlRead =>
    intro hh c hpc _ hlog
    refine ExpInv.of h hlog (src_store_eq (stTtlRead_store ..)) (src_cl_client t (fun _ hne => stTtlRead_cl_ne _ _ _ _ hne) ?_)
      (src_buf_eq (stTtlRead_buf ..)) (src_sendq_eq (stTtlRead_sendq ..)) (src_app_eq (stTtlRead_app ..))
    intro p hp
    simp only [stTtlRead, setCl_cl_self] at hp
    cases hl : s.store.lookup hh with
    | none => simp [hl, cpcCar] at hp
    | some e =>
      simp only [hl, cpcCar, List.mem_cons, List.not_mem_nil, or_false] at hp
      exact Or.inl (.store hh e hl hp)
  case getStart =>
    intro hh c hpc hr hlog
    obtain ⟨hne, _, happ, _⟩ := stGetStart_frame hr
    have hframe : s'.store = s.store ∧ s'.buf = s.buf ∧ s'.sendq = s.sendq ∧ cpcCar (s'.cl t) = [] := by
      unfold stGetStart at hr
      dsimp only at hr
      split at hr
      · simp only [Option.some.injEq] at hr; subst hr; simp [logEv, cpcCar]
      · split at hr
        · simp only [Option.some.injEq] at hr; subst hr; simp [cpcCar]
        · split at hr
          · simp at hr
          · simp only [Option.some.injEq] at hr; subst hr; simp [cpcCar]
        · simp at hr
    obtain ⟨h1, h2, h3, h4⟩ := hframe
    exact ExpInv.of h hlog (src_store_eq h1) (src_cl_sub t hne (by simp [h4])) (src_buf_eq h2) (src_sendq_eq h3) (src_app_eq happ)
  case iterShard =>
    intro k n seen hpc hr hlog
    obtain ⟨hne, _, happ, _⟩ := stIterShard_frame hr
    have hframe : s'.store = s.store ∧ s'.buf = s.buf ∧ s'.sendq = s.sendq ∧ cpcCar (s'.cl t) = [] := by
      unfold stIterShard at hr
      dsimp only at hr
      split at hr
      · split at hr
        · simp at hr
        · split at hr
          · simp at hr
          · split at hr <;> (simp only [Option.some.injEq] at hr; subst hr; simp [logEv, cpcCar])
      · simp at hr
    obtain ⟨h1, h2, h3, h4⟩ := hframe
    exact ExpInv.of h hlog (src_store_eq h1) (src_cl_sub t hne (by simp [h4])) (src_buf_eq h2) (src_sendq_eq h3) (src_app_eq happ)
  case clrDrain =>
    intro closing hpc _ hlog
    unfold stClrDrain at hlog ⊢
    split
    · rename_i hr
      simp only [hr] at hlog
      exact ExpInv.of h hlog (src_store_eq rfl) (src_cl_sub t (fun _ hne => by simp [setCl_cl_ne _ _ _ hne]) (by simp [cpcCar]))
        (src_buf_eq rfl) (src_sendq_eq rfl) (src_app_eq rfl)
    · rename_i id s1 hr
      obtain ⟨_, hb, hq⟩ := recvBuf_src hr
      refine ExpInv.of h (by simp only [hr] at hlog; exact hlog) (src_store_eq (show s1.store = s.store from recvBuf_store hr)) (fun t' p hp => Or.inl (recvBuf_src_cl hr t' p hp))
        (fun x hx p hp => Or.inl (hb x hx p hp)) (fun y hy p hp => Or.inl (hq y hy p hp)) (src_app_eq (show s1.app = s.app from recvBuf_app hr))
    · rename_i i s1 hr
      obtain ⟨_, hb, hq⟩ := recvBuf_src hr
      simp only [hr] at hlog
      split
      · split at hlog
        · exact ExpInv.of h hlog (src_store_eq (by simp [recvBuf_store hr])) (fun t' p hp => Or.inl (recvBuf_src_cl hr t' p hp))
            (fun x hx p hp => Or.inl (hb x hx p hp)) (fun y hy p hp => Or.inl (hq y hy p hp)) (src_app_eq (by simp [recvBuf_app hr]))
        · contradiction
      · split at hlog
        · contradiction
        · exact ExpInv.of h hlog (src_store_eq (recvBuf_store hr)) (fun t' p hp => Or.inl (recvBuf_src_cl hr t' p hp))
            (fun x hx p hp => Or.inl (hb x hx p hp)) (fun y hy p hp => Or.inl (hq y hy p hp)) (src_app_eq (recvBuf_app hr))
  case clrShard =>
    intro closing k hpc hr hlog
    unfold stClrShard at hr
    split at hr
    · split at hr
      · simp at hr
      · split at hr
        · simp at hr
        · simp only [Option.some.injEq] at hr; subst hr
          refine ExpInv.of h hlog (src_store_sub ?_) (src_cl_sub t (fun _ hne => by simp [setCl_cl_ne _ _ _ hne, evictAll_cl]) ?_)
            (src_buf_eq (by simp [evictAll_buf])) (src_sendq_eq (by simp [evictAll_sendq])) (src_app_eq (by simp [evictAll_app]))
          · intro k' e hl
            simp only [setCl_store, evictAll_store] at hl
            exact eraseAll_lookup hl
          · simp only [setCl_cl_self]; split <;> simp [cpcCar]
    · simp at hr

theorem afterVictims_car (vs : List (Hash × Int)) : apcCar (afterVictims vs) = [] := by
  unfold afterVictims; split <;> rfl

theorem expInv_applierStep {cfg : Cfg} {s s' : State} {ch : Choice} (h : ExpInv s)
    (hs : applierStep cfg s ch = some s') (hlog : ∀ e ∈ s.log, e ∈ s'.log) : ExpInv s' := by
  revert hlog
  apply applierStep_cases hs (motive := fun s' => (∀ e ∈ s.log, e ∈ s'.log) → ExpInv s')
  case idle =>
    intro hpc hr hlog
    unfold apIdle at hr
    split at hr
    · unfold apSelItem at hr
      split at hr
      · simp at hr
      · rename_i id s1 hrecv
        simp only [Option.some.injEq] at hr; subst hr
        obtain ⟨_, hb, hq⟩ := recvBuf_src hrecv
        exact ExpInv.of h hlog (src_store_eq (show s1.store = s.store from recvBuf_store hrecv))
          (fun t' p hp => Or.inl (recvBuf_src_cl hrecv t' p hp))
          (fun x hx p hp => Or.inl (hb x hx p hp)) (fun y hy p hp => Or.inl (hq y hy p hp)) (by simp [apcCar])
      · rename_i i s1 hrecv
        simp only [Option.some.injEq] at hr; subst hr
        obtain ⟨hx, hb, hq⟩ := recvBuf_src hrecv
        exact ExpInv.of h hlog (src_store_eq (show s1.store = s.store from recvBuf_store hrecv))
          (fun t' p hp => Or.inl (recvBuf_src_cl hrecv t' p hp))
          (fun x hx p hp => Or.inl (hb x hx p hp)) (fun y hy p hp => Or.inl (hq y hy p hp))
          (fun p hp => Or.inl (hx p (by simpa [apcCar, elemCar] using hp)))
    · simp only [Option.some.injEq] at hr; subst hr
      exact ExpInv.of h hlog (src_store_eq rfl) (src_cl_eq rfl) (src_buf_eq rfl) (src_sendq_eq rfl) (by simp [apcCar])
    · rename_i t
      unfold apSelStop at hr
      split at hr
      · simp only [Option.some.injEq] at hr; subst hr
        exact ExpInv.of h hlog (src_store_eq rfl) (src_cl_sub t (fun _ hne => by simp [setCl_cl_ne _ _ _ hne]) (by simp [cpcCar]))
          (src_buf_eq rfl) (src_sendq_eq rfl) (by simp [apcCar])
      · simp only [Option.some.injEq] at hr; subst hr
        exact ExpInv.of h hlog (src_store_eq rfl) (src_cl_sub t (fun _ hne => by simp [setCl_cl_ne _ _ _ hne]) (by simp [cpcCar]))
          (src_buf_eq rfl) (src_sendq_eq rfl) (by simp [apcCar])
      · simp at hr
    · simp at hr
  case marker =>
    intro id hpc _ hlog
    exact ExpInv.of h hlog (src_store_eq rfl) (src_cl_eq rfl) (src_buf_eq rfl) (src_sendq_eq rfl) (by simp [apMarker, apcCar])
  case item =>
    intro i hpc _ hlog
    exact ExpInv.of h hlog (src_store_eq rfl) (src_cl_eq rfl) (src_buf_eq rfl) (src_sendq_eq rfl)
      (src_app_sub (by rw [hpc]; simp [apItem, apcCar]))
  case costed =>
    intro i hpc hr hlog
    unfold apCosted at hr
    split at hr
    · refine ExpInv.of h hlog (src_store_eq (apCostedNew_store _ _ _ _ hr)) (src_cl_eq (apCostedNew_cl _ _ _ _ hr))
        (src_buf_eq (apCostedNew_buf _ _ _ _ hr)) (src_sendq_eq (apCostedNew_sendq _ _ _ _ hr)) (src_app_sub ?_)
      unfold apCostedNew at hr
      split at hr
      · split at hr
        · simp at hr
        · simp only [Option.some.injEq] at hr; subst hr; rw [hpc]; simp [apcCar]
      · simp at hr
    · obtain ⟨_, hr⟩ := needNone_some hr
      simp only [Option.some.injEq] at hr; subst hr
      exact ExpInv.of h hlog (src_store_eq rfl) (src_cl_eq rfl) (src_buf_eq rfl) (src_sendq_eq rfl) (by simp [apCostedUpd, apcCar])
    · obtain ⟨_, hr⟩ := needNone_some hr
      simp only [Option.some.injEq] at hr; subst hr
      exact ExpInv.of h hlog (src_store_eq rfl) (src_cl_eq rfl) (src_buf_eq rfl) (src_sendq_eq rfl)
        (src_app_sub (by rw [hpc]; simp [apCostedDel, apcCar]))
  case added =>
    intro i victims ok hpc _ hlog
    refine ExpInv.of h hlog ?_ (src_cl_eq (apAdded_cl ..)) (src_buf_eq (apAdded_buf ..)) (src_sendq_eq (apAdded_sendq ..)) ?_
    · intro k e hl
      unfold apAdded at hl
      split at hl
      · have hl' : (storeSet cfg s.store s.em i).1.lookup k = some e := by simpa using hl
        rcases storeSet_lookup hl' with h1 | ⟨h1, h2⟩
        · exact Or.inl (.store k e h1 rfl)
        · exact Or.inl (.app (by rw [hpc, h1, h2]; simp [apcCar]))
      · exact Or.inl (.store k e (by simpa using hl) rfl)
    · unfold apAdded; split <;> simp [afterVictims_car]
  case victims =>
    intro vs hpc _ hr hlog
    refine ExpInv.of h hlog (src_store_sub ?_) (src_cl_eq (apVictims_cl _ _ hr)) (src_buf_eq (apVictims_buf _ _ hr))
      (src_sendq_eq (apVictims_sendq _ _ hr)) ?_
    · intro k e hl
      unfold apVictims at hr
      split at hr
      · simp at hr
      · simp only [Option.some.injEq] at hr; subst hr
        exact storeDel_lookup hl
    · unfold apVictims at hr
      split at hr
      · simp at hr
      · simp only [Option.some.injEq] at hr; subst hr; simp [apcCar]
  case victimEvict =>
    intro hh cost c v rest hpc _ hlog
    exact ExpInv.of h hlog (src_store_eq (apVictimEvict_store ..)) (src_cl_eq (apVictimEvict_cl ..)) (src_buf_eq (apVictimEvict_buf ..))
      (src_sendq_eq (apVictimEvict_sendq ..)) (by simp [apVictimEvict, afterVictims_car])
  case tombPolicy =>
    intro i hpc _ hlog
    exact ExpInv.of h hlog (src_store_sub fun k e hl => storeDel_lookup hl) (src_cl_eq rfl) (src_buf_eq rfl) (src_sendq_eq rfl)
      (by simp [apTombPolicy, apcCar])
  case tombStore =>
    intro v hpc _ hlog
    exact ExpInv.of h hlog (src_store_eq rfl) (src_cl_eq rfl) (src_buf_eq rfl) (src_sendq_eq rfl) (by simp [apTombStore, apcCar])
  case tick =>
    intro hpc _ hlog
    exact ExpInv.of h hlog (src_store_eq rfl) (src_cl_eq rfl) (src_buf_eq rfl) (src_sendq_eq rfl) (by simp [apTick, apcCar])
  case sweep =>
    intro now bs hpc hr hlog
    refine ExpInv.of h hlog (src_store_eq (apSweep_store _ _ _ _ hr)) (src_cl_eq (apSweep_cl _ _ _ _ hr)) (src_buf_eq (apSweep_buf _ _ _ _ hr))
      (src_sendq_eq (apSweep_sendq _ _ _ _ hr)) ?_
    unfold apSweep at hr
    split at hr
    · simp only [Option.some.injEq] at hr; subst hr; simp [apcCar]
    · split at hr
      · simp at hr
      · simp only [Option.some.injEq] at hr; subst hr; simp [apcCar]
    · simp at hr
  case swKey =>
    intro now k c bs hpc _ hlog
    refine ExpInv.of h hlog ?_ (src_cl_eq (apSwKey_cl ..)) (src_buf_eq (apSwKey_buf ..)) (src_sendq_eq (apSwKey_sendq ..)) ?_
    · intro k' e hl
      unfold apSwKey at hl
      dsimp only at hl
      split at hl
      · rename_i hrem
        obtain ⟨e0, _, _, _, heq⟩ := storeDelExpired_removed hrem
        rw [heq] at hl
        exact Or.inl (.store k' e (lookup_erase_some hl) rfl)
      · exact Or.inl (.store k' e hl rfl)
    · unfold apSwKey
      dsimp only
      split
      · rename_i hrem
        obtain ⟨e0, hl0, _, _, heq⟩ := storeDelExpired_removed hrem
        rw [heq]
        intro p hp
        simp only [apcCar, List.mem_cons, List.not_mem_nil, or_false] at hp
        exact Or.inl (.store k e0 hl0 hp)
      · simp [apcCar]
  case swStoreDel =>
    intro now k c expr v bs hpc _ hlog
    exact ExpInv.of h hlog (src_store_eq rfl) (src_cl_eq rfl) (src_buf_eq rfl) (src_sendq_eq rfl)
      (src_app_sub (by rw [hpc]; simp [apSwStoreDel, apcCar]))
  case swPolDel =>
    intro now k c expr cost v bs hpc _ hlog
    exact ExpInv.of h hlog (src_store_eq rfl) (src_cl_eq rfl) (src_buf_eq rfl) (src_sendq_eq rfl) (by simp [apSwPolDel, apcCar])

theorem expInv_step {cfg : Cfg} {s s' : State} {a : Action} (h : ExpInv s) (hs : step cfg s a = some s') :
    ExpInv s' := by
  have hlog : ∀ e ∈ s.log, e ∈ s'.log := by
    obtain ⟨evs, he⟩ := step_log_mono hs
    intro e hm; rw [he]; exact List.mem_append_right _ hm
  cases a with
  | spawn t c =>
    have hs' : spawnStep s t c = some s' := hs
    refine ExpInv.of h hlog (src_store_eq (spawnStep_store _ _ _ hs')) (src_cl_sub t (fun _ hne => spawnStep_cl_ne _ _ _ hs' hne) ?_)
      (src_buf_eq (spawnStep_buf _ _ _ hs')) (src_sendq_eq (spawnStep_sendq _ _ _ hs')) (src_app_eq (spawnStep_app _ _ _ hs'))
    unfold spawnStep at hs'
    split at hs'
    · cases c <;> (simp only [Option.some.injEq] at hs'; subst hs'; simp [logEv, cpcCar])
    · simp at hs'
  | client t ch => exact expInv_clientStep h hs hlog
  | applier ch => exact expInv_applierStep h hs hlog
  | done t =>
    have hs' : doneStep s t = some s' := hs
    refine ExpInv.of h hlog (src_store_eq (doneStep_store _ _ hs')) (src_cl_sub t (fun _ hne => doneStep_cl_ne _ _ hs' hne) ?_)
      (src_buf_eq (doneStep_buf _ _ hs')) (src_sendq_eq (doneStep_sendq _ _ hs')) ?_
    · unfold doneStep at hs'
      split at hs'
      · simp only [Option.some.injEq] at hs'; subst hs'; simp [cpcCar]
      · simp only [Option.some.injEq] at hs'; subst hs'; simp [cpcCar]
      · simp at hs'
    · unfold doneStep at hs'
      split at hs'
      · simp only [Option.some.injEq] at hs'; subst hs'; simp [apcCar]
      · simp only [Option.some.injEq] at hs'; subst hs'; simp [apcCar]
      · simp at hs'
  | tick d =>
    simp only [step, Option.some.injEq] at hs; subst hs
    exact ExpInv.of h hlog (src_store_eq rfl) (src_cl_eq rfl) (src_buf_eq rfl) (src_sendq_eq rfl) (src_app_eq rfl)

theorem expInv_init (cfg : Cfg) (now : Time) : ExpInv (init cfg now) := by
  intro p hc
  cases hc with
  | store k e h1 _ => simp [init] at h1
  | cl t h1 => simp [init, cpcCar] at h1
  | buf x h1 _ => simp [init] at h1
  | sendq y h1 _ => simp [init] at h1
  | app h1 => simp [init, apcCar] at h1

/-- `exp_of_value`: in every reachable state every carried `(value, expiration)` pair was logged by
the `SetWithTTL` that supplied the value. -/
theorem expInv_reach {cfg : Cfg} {s : State} (h : Reach cfg s) : ExpInv s :=
  Reach.induction (expInv_init cfg) (fun _ _ _ _ hp hs => expInv_step hp hs) h

end RV.Cache
