import RV.Proofs.CacheHandshake
/-!
# What one step of the Cache model does, as seen by the TTL properties (C07, C14)

`step_view` summarises every step of the model once and for all by
* the events it prepends to the ghost log (`quiet` ones — irrelevant for the TTL
  statements — or exactly one `loud` one: `setCall/setExp/getCall/getRet/ttlCall/ttlRet/
  iterCall/iterRet`),
* the change of the program counters of the `Set`/`Get`/`GetTTL`/`IterValues` paths,
* and `step_clock`: the clock never goes back.

All log/pc invariants of `CacheTTLLog.lean` are proved from this view alone.
-/
namespace RV.Cache
open Gen.Cache

/-- events that the TTL invariants do not look at -/
def Ev.quiet : Ev → Bool
  | .setCall .. => false | .setExp .. => false
  | .getCall .. => false | .getRet .. => false
  | .ttlCall .. => false | .ttlRet .. => false
  | .iterCall .. => false | .iterRet .. => false
  | _ => true

/-- client pcs of the paths that the TTL invariants follow -/
def CPc.ttlRel : CPc → Bool
  | .setStart .. => true
  | .getStart .. => true | .getRead .. => true | .getCheck .. => true | .getMetric .. => true
  | .ttlRead .. => true | .ttlCheck .. => true | .ttlExp .. => true | .ttlNow .. => true
  | .ttlUntil .. => true
  | .iterStart _ => true | .iterShard .. => true
  | _ => false

/-- pc change of one thread during a step that logs only quiet events -/
inductive PcQuiet (s : State) : CPc → CPc → Prop
  | same (pc : CPc) : PcQuiet s pc pc
  | other (pc pc' : CPc) : pc.ttlRel = false → pc'.ttlRel = false → PcQuiet s pc pc'
  | setFail (h c v cost ttl) : PcQuiet s (.setStart h c v cost ttl) .idle
  | getStart (h c) : s.closed = false → PcQuiet s (.getStart h c) (.getRead h c)
  | getRead (h c) : PcQuiet s (.getRead h c) (.getCheck h c (s.store.lookup h))
  | getCheck (h c e) : PcQuiet s (.getCheck h c e) (.getMetric h c (getResult c e s.clock))
  | ttlRead (h c) : PcQuiet s (.ttlRead h c) (.ttlCheck h c (s.store.lookup h))
  | ttlCheck (h c e v) : getResult c e s.clock = some v → PcQuiet s (.ttlCheck h c e) (.ttlExp h c)
  | ttlExp (h c) : getTTLNoExpiry (expirationOf s.store h) = false →
      PcQuiet s (.ttlExp h c) (.ttlNow h c (expirationOf s.store h))
  | ttlNow (h c exp) : getTTLExpired s.clock exp = false → PcQuiet s (.ttlNow h c exp) (.ttlUntil h c exp)
  | iterStart (n) : s.closed = false → PcQuiet s (.iterStart n) (.iterShard 0 n [])
  | iterShard (k n seen ks) : isShardOrder s.store k ks = true →
      PcQuiet s (.iterShard k n seen) (.iterShard (k + 1) n (iterVisit s.store s.clock n ks seen).1)

/-- the step of thread `t` that logs the loud event `e`: pc before, pc after -/
inductive Loud (s : State) (t : Tid) : CPc → CPc → Ev → Prop
  | setCall (h c v cost ttl) : Loud s t .idle (.setStart h c v cost ttl) (.setCall t h c v cost ttl)
  | setExp (h c v cost ttl exp) : s.closed = false →
      (ttl = 0 ∧ exp = Gen.zeroTime ∨ 0 < ttl ∧ exp = s.clock + ttl) →
      Loud s t (.setStart h c v cost ttl) (.setUpd ⟨.new, h, c, v, cost, exp⟩) (.setExp t v exp)
  | getCall (h c) : Loud s t .idle (.getStart h c) (.getCall t h c s.clock)
  | getClosed (h c) : Loud s t (.getStart h c) .idle (.getRet t h c none)
  | getRet (h c r) : Loud s t (.getMetric h c r) .idle (.getRet t h c r)
  | ttlCall (h c) : Loud s t .idle (.ttlRead h c) (.ttlCall t h c s.clock)
  | ttlMiss (h c e) : getResult c e s.clock = none → Loud s t (.ttlCheck h c e) .idle (.ttlRet t h c 0 false)
  | ttlNoExp (h c) : getTTLNoExpiry (expirationOf s.store h) = true →
      Loud s t (.ttlExp h c) .idle (.ttlRet t h c 0 true)
  | ttlGone (h c exp) : getTTLExpired s.clock exp = true → Loud s t (.ttlNow h c exp) .idle (.ttlRet t h c 0 false)
  | ttlRet (h c exp) : Loud s t (.ttlUntil h c exp) .idle (.ttlRet t h c (getTTLRemaining s.clock exp) true)
  | iterCall (n) : Loud s t .idle (.iterStart n) (.iterCall t s.clock)
  | iterClosed (n) : Loud s t (.iterStart n) .idle (.iterRet t [])
  | iterRet (k n seen ks) : isShardOrder s.store k ks = true →
      Loud s t (.iterShard k n seen) .idle (.iterRet t (iterVisit s.store s.clock n ks seen).1)

inductive StepView (s s' : State) : Prop
  | quiet (evs : List Ev) (hlog : s'.log = evs ++ s.log) (hq : ∀ e ∈ evs, e.quiet = true)
      (hcl : ∀ t, PcQuiet s (s.cl t) (s'.cl t))
  | loud (t : Tid) (e : Ev) (hlog : s'.log = e :: s.log) (hne : ∀ t', t' ≠ t → s'.cl t' = s.cl t')
      (h : Loud s t (s.cl t) (s'.cl t) e)

theorem PcQuiet.unblocked (s : State) (pc : CPc) : PcQuiet s pc (unblockedPc pc) := by
  cases pc <;> first | exact .same _ | exact .other _ _ rfl rfl

/-- a client step of thread `t` that logs quiet events only -/
theorem StepView.client {s s' : State} (t : Tid) (evs : List Ev) (hlog : s'.log = evs ++ s.log)
    (hq : ∀ e ∈ evs, e.quiet = true) (hne : ∀ t', t' ≠ t → s'.cl t' = s.cl t')
    (h : PcQuiet s (s.cl t) (s'.cl t)) : StepView s s' := by
  refine .quiet evs hlog hq fun t' => ?_
  by_cases e : t' = t
  · subst e; exact h
  · rw [hne t' e]; exact .same _

/-- a step that leaves all client pcs alone and logs quiet events only -/
theorem StepView.app {s s' : State} (evs : List Ev) (hlog : s'.log = evs ++ s.log)
    (hq : ∀ e ∈ evs, e.quiet = true) (hcl : s'.cl = s.cl) : StepView s s' :=
  .quiet evs hlog hq fun t => by rw [hcl]; exact .same _

/-! ### log of the multi-event steps -/

theorem evictAll_log (s : State) (st : Store) (ks : List Hash) :
    ∃ evs, (evictAll s st ks).log = evs ++ s.log ∧ ∀ e ∈ evs, e.quiet = true := by
  induction ks generalizing s with
  | nil => exact ⟨[], rfl, by simp⟩
  | cons k rest ih =>
    unfold evictAll
    split
    · exact ih s
    · rename_i e _
      obtain ⟨evs, h1, h2⟩ := ih (cbEvict s k e.conflict e.value 0)
      refine ⟨evs ++ [.exit e.value, .evict k e.conflict e.value 0], ?_, ?_⟩
      · rw [h1]; simp [cbEvict, logEv]
      · intro e' he'
        simp only [List.mem_append, List.mem_cons, List.not_mem_nil, or_false] at he'
        rcases he' with he' | rfl | rfl
        · exact h2 _ he'
        · rfl
        · rfl

/-! ### the view of every step -/

theorem view_spawn {s s' : State} {t : Tid} {c : Call} (hs : spawnStep s t c = some s') : StepView s s' := by
  have hne := fun t' (hne : t' ≠ t) => spawnStep_cl_ne s t c hs hne
  unfold spawnStep at hs
  split at hs
  · rename_i hidle
    cases c <;> (simp only [Option.some.injEq] at hs; subst hs)
    case set h cf v cost ttl =>
      exact .loud t _ rfl hne (by rw [hidle]; simp only [logEv, setCl_cl_self]; exact .setCall ..)
    case get h cf =>
      exact .loud t _ rfl hne (by rw [hidle]; simp only [logEv, setCl_cl_self]; exact .getCall ..)
    case getTTL h cf =>
      exact .loud t _ rfl hne (by rw [hidle]; simp only [logEv, setCl_cl_self]; exact .ttlCall ..)
    case iter n =>
      exact .loud t _ rfl hne (by rw [hidle]; simp only [logEv, setCl_cl_self]; exact .iterCall ..)
    case del h cf =>
      exact .client t [_] rfl (by simp [Ev.quiet]) hne (by rw [hidle]; exact .other _ _ rfl (by simp [logEv, CPc.ttlRel]))
    case wait =>
      exact .client t [_] rfl (by simp [Ev.quiet]) hne (by rw [hidle]; exact .other _ _ rfl (by simp [logEv, CPc.ttlRel]))
    case clear =>
      exact .client t [_] rfl (by simp [Ev.quiet]) hne (by rw [hidle]; exact .other _ _ rfl (by simp [logEv, CPc.ttlRel]))
    case close =>
      exact .client t [_] rfl (by simp [Ev.quiet]) hne (by rw [hidle]; exact .other _ _ rfl (by simp [logEv, CPc.ttlRel]))
    case updateMaxCost m =>
      exact .client t [] rfl (by simp) hne (by rw [hidle]; exact .other _ _ rfl (by simp [CPc.ttlRel]))
    case maxCost =>
      exact .client t [] rfl (by simp) hne (by rw [hidle]; exact .other _ _ rfl (by simp [CPc.ttlRel]))
    case remainingCost =>
      exact .client t [] rfl (by simp) hne (by rw [hidle]; exact .other _ _ rfl (by simp [CPc.ttlRel]))
  · simp at hs


/-- the log grows by quiet events only -/
def QuietExt (s s' : State) : Prop := ∃ evs, s'.log = evs ++ s.log ∧ ∀ e ∈ evs, e.quiet = true

theorem QuietExt.of_eq {s s' : State} (h : s'.log = s.log) : QuietExt s s' := ⟨[], by simp [h], by simp⟩
theorem QuietExt.one {s s' : State} {e : Ev} (h : s'.log = e :: s.log) (hq : e.quiet = true) : QuietExt s s' :=
  ⟨[e], by simp [h], by simp [hq]⟩
theorem QuietExt.two {s s' : State} {e1 e2 : Ev} (h : s'.log = e1 :: e2 :: s.log) (hq1 : e1.quiet = true)
    (hq2 : e2.quiet = true) : QuietExt s s' :=
  ⟨[e1, e2], by simp [h], by simp [hq1, hq2]⟩

/-- a client step between pcs outside the followed paths -/
theorem StepView.irrel {s s' : State} (t : Tid) (hq : QuietExt s s') (hne : ∀ t', t' ≠ t → s'.cl t' = s.cl t')
    (h0 : (s.cl t).ttlRel = false) (h1 : (s'.cl t).ttlRel = false) : StepView s s' := by
  obtain ⟨evs, h, hq⟩ := hq
  exact .client t evs h hq hne (.other _ _ h0 h1)

theorem StepView.appq {s s' : State} (hq : QuietExt s s') (hcl : s'.cl = s.cl) : StepView s s' := by
  obtain ⟨evs, h, hq⟩ := hq
  exact .app evs h hq hcl

syntax "quiet_ext" : tactic
macro_rules
  | `(tactic| quiet_ext) => `(tactic| first
      | exact QuietExt.of_eq rfl
      | exact QuietExt.one rfl rfl
      | exact QuietExt.two rfl rfl rfl)

open Lean in
/-- `view_irrel stX`: the step function `stX` of thread `t` moves between pcs outside the followed paths -/
macro "view_irrel " f:ident : tactic => do
  let n := f.getId
  let clne := mkIdent (n.appendAfter "_cl_ne")
  `(tactic| (refine StepView.irrel _ ?_ (fun _ hne => $clne (hne := hne) ..) (by simp_all [CPc.ttlRel]) ?_
             · unfold $f; (try dsimp only); (repeat' split) <;> quiet_ext
             · unfold $f; (try dsimp only); (repeat' split) <;> simp [CPc.ttlRel]))

theorem view_clientStep {cfg : Cfg} {s s' : State} {t : Tid} {ch : Choice}
    (hs : clientStep cfg s t ch = some s') : StepView s s' := by
  apply clientStep_cases hs (motive := StepView s)
  case setUpd => intros; view_irrel stSetUpd
  case setExit => intros; view_irrel stSetExit
  case setSend => intros; view_irrel stSetSend
  case setRetTrue => intros; view_irrel stSetRetTrue
  case delStart => intros; view_irrel stDelStart
  case delExit => intros; view_irrel stDelExit
  case delSent => intros; view_irrel stDelSent
  case waitStart => intros; view_irrel stWaitStart
  case waitDone => intros; view_irrel stWaitDone
  case clrStart => intros; view_irrel stClrStart
  case clrPolicy => intros; view_irrel stClrPolicy
  case clrEm => intros; view_irrel stClrEm
  case clrRestart => intros; view_irrel stClrRestart
  case clsFinish => intros; view_irrel stClsFinish
  case updMax => intros; view_irrel stUpdMax
  case readMax => intros; view_irrel stReadMax
  case readRem => intros; view_irrel stReadRem
  case clrMetrics =>
    intro closing hpc _
    refine StepView.irrel t (.of_eq ?_) (fun t' hne => stClrMetrics_cl_ne _ _ _ _ hne) (by simp [hpc, CPc.ttlRel]) ?_
    · simp
    · unfold stClrMetrics; simp [CPc.ttlRel]
  case setRetDrop =>
    intro i hpc _
    refine StepView.irrel t ?_ (fun t' hne => stSetRetDrop_cl_ne _ _ _ _ hne) (by simp [hpc, CPc.ttlRel]) ?_
    · unfold stSetRetDrop; split
      · quiet_ext
      · exact .two (e1 := .setRet t i.value false) (e2 := .drop t i.value) (by simp [logEv]) rfl rfl
    · unfold stSetRetDrop; split <;> simp [CPc.ttlRel]
  case delSend =>
    intro h c hpc _
    refine StepView.irrel t (.of_eq (by simp)) (fun t' hne => stDelSend_cl_ne _ _ _ _ _ hne) (by simp [hpc, CPc.ttlRel]) ?_
    unfold stDelSend sendBlocking; split <;> simp [CPc.ttlRel]
  case waitSend =>
    intro hpc _
    refine StepView.irrel t (.of_eq (by simp)) (fun t' hne => stWaitSend_cl_ne _ _ _ hne) (by simp [hpc, CPc.ttlRel]) ?_
    unfold stWaitSend sendBlocking; split <;> simp [CPc.ttlRel]
  case waitRecv =>
    intro id hpc _ hr
    refine StepView.irrel t (.of_eq (stWaitRecv_log _ _ _ hr)) (fun t' hne => stWaitRecv_cl_ne _ _ _ hr hne) (by simp [hpc, CPc.ttlRel]) ?_
    unfold stWaitRecv at hr; split at hr
    · simp only [Option.some.injEq] at hr; subst hr; simp [CPc.ttlRel]
    · simp at hr
  case setStart =>
    intro h c v cost ttl hpc _
    have hne : ∀ pc e t', t' ≠ t → (logEv (setCl s t pc) e).cl t' = s.cl t' :=
      fun pc e t' hne => by simp [logEv, setCl_cl_ne _ _ _ hne]
    unfold stSetStart
    split
    · exact .client t [_] rfl (by simp [Ev.quiet]) (hne _ _) (by rw [hpc]; simp only [logEv, setCl_cl_self]; exact .setFail ..)
    · rename_i hcl
      split
      · rename_i h0
        refine .loud t _ rfl (hne _ _) ?_
        rw [hpc]; simp only [logEv, setCl_cl_self]
        exact .setExp _ _ _ _ _ _ (by simpa using hcl) (Or.inl ⟨by simpa [ttlNone] using h0, rfl⟩)
      · rename_i h0
        split
        · exact .client t [_] rfl (by simp [Ev.quiet]) (hne _ _) (by rw [hpc]; simp only [logEv, setCl_cl_self]; exact .setFail ..)
        · rename_i h1
          refine .loud t _ rfl (hne _ _) ?_
          rw [hpc]; simp only [logEv, setCl_cl_self]
          refine .setExp _ _ _ _ _ _ (by simpa using hcl) (Or.inr ⟨?_, rfl⟩)
          simp [ttlNone, ttlNegative] at h0 h1; omega
  case getStart =>
    intro h c hpc hr
    obtain ⟨hne, _, _, _⟩ := stGetStart_frame hr
    unfold stGetStart at hr
    dsimp only at hr
    split at hr
    · simp only [Option.some.injEq] at hr; subst hr
      exact .loud t _ rfl hne (by rw [hpc]; simp only [logEv, setCl_cl_self]; exact .getClosed ..)
    · rename_i hcl
      have hcl : s.closed = false := by simpa using hcl
      split at hr
      · simp only [Option.some.injEq] at hr; subst hr
        exact .client t [] rfl (by simp) hne (by rw [hpc]; simp only [setCl_cl_self]; exact .getStart _ _ hcl)
      · split at hr
        · simp at hr
        · simp only [Option.some.injEq] at hr; subst hr
          exact .client t [] (by simp) (by simp) hne (by rw [hpc]; simp only [setCl_cl_self]; exact .getStart _ _ hcl)
      · simp at hr
  case getRead =>
    intro h c hpc _
    exact .client t [] rfl (by simp) (fun t' hne => stGetRead_cl_ne _ _ _ _ hne)
      (by rw [hpc]; simp only [stGetRead, setCl_cl_self]; exact .getRead ..)
  case getCheck =>
    intro h c e hpc _
    exact .client t [] rfl (by simp) (fun t' hne => stGetCheck_cl_ne _ _ _ _ _ hne)
      (by rw [hpc]; simp only [stGetCheck, setCl_cl_self]; exact .getCheck ..)
  case getMetric =>
    intro h c r hpc _
    refine .loud t (.getRet t h c r) (by simp [stGetMetric, logEv]) (fun t' hne => stGetMetric_cl_ne _ _ _ _ _ _ hne) ?_
    rw [hpc]; simp only [stGetMetric, logEv, setCl_cl_self]; exact .getRet ..
  case ttlRead =>
    intro h c hpc _
    exact .client t [] rfl (by simp) (fun t' hne => stTtlRead_cl_ne _ _ _ _ hne)
      (by rw [hpc]; simp only [stTtlRead, setCl_cl_self]; exact .ttlRead ..)
  case ttlCheck =>
    intro h c e hpc _
    have hne := fun t' (hne : t' ≠ t) => stTtlCheck_cl_ne s t h c e hne
    unfold stTtlCheck at hne ⊢
    split
    · rename_i hg
      simp only [hg] at hne
      exact .loud t _ rfl hne (by rw [hpc]; simp only [logEv, setCl_cl_self]; exact .ttlMiss _ _ _ hg)
    · rename_i v hg
      simp only [hg] at hne
      exact .client t [] rfl (by simp) hne (by rw [hpc]; simp only [setCl_cl_self]; exact .ttlCheck _ _ _ v hg)
  case ttlExp =>
    intro h c hpc _
    have hne : ∀ t', t' ≠ t → (stTtlExp s t h c).cl t' = s.cl t' := fun t' hne => by
      unfold stTtlExp; dsimp only; split <;> simp [logEv, setCl_cl_ne _ _ _ hne]
    unfold stTtlExp at hne ⊢
    dsimp only at hne ⊢
    split
    · rename_i hg
      simp only [hg, if_true] at hne
      exact .loud t _ rfl hne (by rw [hpc]; simp only [logEv, setCl_cl_self]; exact .ttlNoExp _ _ hg)
    · rename_i hg
      simp only [hg] at hne
      exact .client t [] rfl (by simp) hne (by rw [hpc]; simp only [setCl_cl_self]; exact .ttlExp _ _ (by simpa using hg))
  case ttlNow =>
    intro h c exp hpc _
    have hne := fun t' (hne : t' ≠ t) => stTtlNow_cl_ne s t h c exp hne
    unfold stTtlNow at hne ⊢
    split
    · rename_i hg
      simp only [hg, if_true] at hne
      exact .loud t _ rfl hne (by rw [hpc]; simp only [logEv, setCl_cl_self]; exact .ttlGone _ _ _ hg)
    · rename_i hg
      simp only [hg] at hne
      exact .client t [] rfl (by simp) hne (by rw [hpc]; simp only [setCl_cl_self]; exact .ttlNow _ _ _ (by simpa using hg))
  case ttlUntil =>
    intro h c exp hpc _
    exact .loud t _ rfl (fun t' hne => stTtlUntil_cl_ne _ _ _ _ _ hne)
      (by rw [hpc]; simp only [stTtlUntil, logEv, setCl_cl_self]; exact .ttlRet ..)
  case iterStart =>
    intro n hpc _
    have hne := fun t' (hne : t' ≠ t) => stIterStart_cl_ne s t n hne
    unfold stIterStart at hne ⊢
    split
    · rename_i hg
      simp only [hg, if_true] at hne
      exact .loud t _ rfl hne (by rw [hpc]; simp only [logEv, setCl_cl_self]; exact .iterClosed ..)
    · rename_i hg
      simp only [hg] at hne
      exact .client t [] rfl (by simp) hne (by rw [hpc]; simp only [setCl_cl_self]; exact .iterStart _ (by simpa using hg))
  case iterShard =>
    intro k n seen hpc hr
    obtain ⟨hne, _, _, _⟩ := stIterShard_frame hr
    unfold stIterShard at hr
    dsimp only at hr
    split at hr
    · rename_i ks
      split at hr
      · simp at hr
      · split at hr
        · simp at hr
        · rename_i hord
          have hord : isShardOrder s.store k ks = true := by simpa using hord
          split at hr <;> (simp only [Option.some.injEq] at hr; subst hr)
          · exact .loud t _ rfl hne (by rw [hpc]; simp only [logEv, setCl_cl_self]; exact .iterRet _ _ _ ks hord)
          · exact .client t [] rfl (by simp) hne (by rw [hpc]; simp only [setCl_cl_self]; exact .iterShard _ _ _ ks hord)
    · simp at hr
  case clrDrain =>
    intro closing hpc _
    unfold stClrDrain
    split
    · exact .irrel t (.of_eq rfl) (fun t' hne => by simp [setCl_cl_ne _ _ _ hne]) (by simp [hpc, CPc.ttlRel])
        (by simp [CPc.ttlRel])
    · rename_i id s1 hr
      refine .quiet [] (by simp [recvBuf_log hr]) (by simp) fun t' => ?_
      rcases recvBuf_cl hr t' with e | e <;> simp only [e]
      · exact .same _
      · exact .unblocked ..
    · rename_i i s1 hr
      split
      · refine .quiet [.exit i.value, .evict i.key i.conflict i.value i.cost] (by simp [cbEvict, logEv, recvBuf_log hr])
          (by simp [Ev.quiet]) fun t' => ?_
        rcases recvBuf_cl hr t' with e | e <;> simp only [cbEvict_cl, e]
        · exact .same _
        · exact .unblocked ..
      · refine .quiet [] (by simp [recvBuf_log hr]) (by simp) fun t' => ?_
        rcases recvBuf_cl hr t' with e | e <;> simp only [e]
        · exact .same _
        · exact .unblocked ..
  case clrShard =>
    intro closing k hpc hr
    unfold stClrShard at hr
    split at hr
    · split at hr
      · simp at hr
      · split at hr
        · simp at hr
        · simp only [Option.some.injEq] at hr; subst hr
          rename_i ks _ _
          obtain ⟨evs, h1, h2⟩ := evictAll_log s s.store ks
          refine .client t evs (by simpa using h1) h2 (fun t' hne => by simp [setCl_cl_ne _ _ _ hne, evictAll_cl]) ?_
          rw [hpc]; simp only [setCl_cl_self]
          exact .other _ _ rfl (by split <;> rfl)
    · simp at hr

theorem view_applierStep {cfg : Cfg} {s s' : State} {ch : Choice}
    (hs : applierStep cfg s ch = some s') : StepView s s' := by
  apply applierStep_cases hs (motive := StepView s)
  case idle =>
    intro hpc hr
    unfold apIdle at hr
    split at hr
    · unfold apSelItem at hr
      split at hr
      · simp at hr
      · rename_i id s1 hrecv
        simp only [Option.some.injEq] at hr; subst hr
        refine .quiet [] (by simp [recvBuf_log hrecv]) (by simp) fun t' => ?_
        rcases recvBuf_cl hrecv t' with e | e <;> simp only [e]
        · exact .same _
        · exact .unblocked ..
      · rename_i i s1 hrecv
        simp only [Option.some.injEq] at hr; subst hr
        refine .quiet [] (by simp [recvBuf_log hrecv]) (by simp) fun t' => ?_
        rcases recvBuf_cl hrecv t' with e | e <;> simp only [e]
        · exact .same _
        · exact .unblocked ..
    · simp only [Option.some.injEq] at hr; subst hr
      exact .appq (.of_eq rfl) rfl
    · rename_i t
      unfold apSelStop at hr
      split at hr
      · rename_i closing hpc'
        simp only [Option.some.injEq] at hr; subst hr
        exact .irrel t (.of_eq rfl) (fun t' hne => by simp [setCl_cl_ne _ _ _ hne]) (by simp [hpc', CPc.ttlRel]) (by simp [CPc.ttlRel])
      · rename_i hpc'
        simp only [Option.some.injEq] at hr; subst hr
        exact .irrel t (.of_eq rfl) (fun t' hne => by simp [setCl_cl_ne _ _ _ hne]) (by simp [hpc', CPc.ttlRel]) (by simp [CPc.ttlRel])
      · simp at hr
    · simp at hr
  case marker => intros; exact .appq (.of_eq rfl) rfl
  case item => intros; exact .appq (.of_eq rfl) rfl
  case costed =>
    intro i hpc hr
    unfold apCosted at hr
    split at hr
    · exact .appq (.of_eq (apCostedNew_log _ _ _ _ hr)) (apCostedNew_cl _ _ _ _ hr)
    · obtain ⟨_, hr⟩ := needNone_some hr
      simp only [Option.some.injEq] at hr; subst hr
      exact .appq (.of_eq rfl) rfl
    · obtain ⟨_, hr⟩ := needNone_some hr
      simp only [Option.some.injEq] at hr; subst hr
      exact .appq (.of_eq rfl) rfl
  case added =>
    intro i victims ok hpc _
    refine .appq ?_ (apAdded_cl ..)
    unfold apAdded
    split
    · exact .of_eq (by simp)
    · exact .two (e1 := .exit i.value) (e2 := .reject i.key i.conflict i.value i.cost) (by simp [cbReject, logEv]) rfl rfl
  case victims =>
    intro vs hpc _ hr
    exact .appq (.of_eq (apVictims_log _ _ hr)) (apVictims_cl _ _ hr)
  case victimEvict =>
    intro h cost c v rest hpc _
    exact .appq (.two (e1 := .exit v) (e2 := .evict h c v cost) (by simp [apVictimEvict, cbEvict, logEv]) rfl rfl) (apVictimEvict_cl ..)
  case tombPolicy => intros; exact .appq (.of_eq rfl) rfl
  case tombStore =>
    intro v hpc _
    exact .appq (.one (e := .exit v) (by simp [apTombStore, cbExit, logEv]) rfl) (by simp [apTombStore])
  case tick => intros; exact .appq (.of_eq rfl) rfl
  case sweep =>
    intro now bs hpc hr
    exact .appq (.of_eq (apSweep_log _ _ _ _ hr)) (apSweep_cl _ _ _ _ hr)
  case swKey => intros; exact .appq (.of_eq (apSwKey_log ..)) (apSwKey_cl ..)
  case swStoreDel => intros; exact .appq (.of_eq rfl) rfl
  case swPolDel =>
    intro now k c expr cost v bs hpc _
    exact .appq (.two (e1 := .exit v) (e2 := .evict k c v cost) (by simp [apSwPolDel, cbEvict, logEv]) rfl rfl) (by simp [apSwPolDel])

theorem view_doneStep {s s' : State} {t : Tid} (hs : doneStep s t = some s') : StepView s s' := by
  have hne := fun t' (hne : t' ≠ t) => doneStep_cl_ne s t hs hne
  have hlog := doneStep_log s t hs
  unfold doneStep at hs
  split at hs
  · rename_i closing _ hpc
    simp only [Option.some.injEq] at hs; subst hs
    exact .irrel t (.of_eq hlog) hne (by simp [hpc, CPc.ttlRel]) (by simp [CPc.ttlRel])
  · rename_i _ hpc
    simp only [Option.some.injEq] at hs; subst hs
    exact .irrel t (.of_eq hlog) hne (by simp [hpc, CPc.ttlRel]) (by simp [CPc.ttlRel])
  · simp at hs

/-- Every step of the model, as seen by the TTL invariants. -/
theorem step_view {cfg : Cfg} {s s' : State} {a : Action} (hs : step cfg s a = some s') : StepView s s' := by
  cases a with
  | spawn t c => exact view_spawn hs
  | client t ch => exact view_clientStep hs
  | applier ch => exact view_applierStep hs
  | done t => exact view_doneStep hs
  | tick d =>
    simp only [step, Option.some.injEq] at hs; subst hs
    exact .appq (.of_eq rfl) rfl

/-! ### the clock -/

theorem evictAll_clock_t (s : State) (st : Store) (ks : List Hash) : (evictAll s st ks).clock = s.clock := by
  induction ks generalizing s with
  | nil => rfl
  | cons k rest ih => unfold evictAll; split <;> simp [ih]

theorem clientStep_clock {cfg : Cfg} {s s' : State} {t : Tid} {ch : Choice}
    (hs : clientStep cfg s t ch = some s') : s'.clock = s.clock := by
  apply clientStep_cases hs (motive := fun s' => s'.clock = s.clock)
  case getStart =>
    intro h c _ hr
    unfold stGetStart at hr
    dsimp only at hr
    split at hr
    · simp only [Option.some.injEq] at hr; subst hr; rfl
    · split at hr
      · simp only [Option.some.injEq] at hr; subst hr; rfl
      · split at hr
        · simp at hr
        · simp only [Option.some.injEq] at hr; subst hr; simp
      · simp at hr
  case iterShard =>
    intro k n seen _ hr
    unfold stIterShard at hr
    dsimp only at hr
    split at hr
    · split at hr
      · simp at hr
      · split at hr
        · simp at hr
        · split at hr <;> (simp only [Option.some.injEq] at hr; subst hr; rfl)
    · simp at hr
  case clrDrain =>
    intro closing _ _
    unfold stClrDrain
    split
    · rfl
    · rename_i hr; simp [recvBuf_clock hr]
    · rename_i hr; split <;> simp [recvBuf_clock hr]
  case clrShard =>
    intro closing k _ hr
    unfold stClrShard at hr
    split at hr
    · split at hr
      · simp at hr
      · split at hr
        · simp at hr
        · simp only [Option.some.injEq] at hr; subst hr; simp [evictAll_clock_t]
    · simp at hr
  case waitRecv => intro id _ _ hr; exact stWaitRecv_clock _ _ _ hr
  all_goals (intros; simp)

theorem applierStep_clock {cfg : Cfg} {s s' : State} {ch : Choice}
    (hs : applierStep cfg s ch = some s') : s'.clock = s.clock := by
  apply applierStep_cases hs (motive := fun s' => s'.clock = s.clock)
  case idle =>
    intro _ hr
    unfold apIdle at hr
    split at hr
    · unfold apSelItem at hr
      split at hr
      · simp at hr
      · rename_i hrecv; simp only [Option.some.injEq] at hr; subst hr; simp [recvBuf_clock hrecv]
      · rename_i hrecv; simp only [Option.some.injEq] at hr; subst hr; simp [recvBuf_clock hrecv]
    · simp only [Option.some.injEq] at hr; subst hr; rfl
    · exact apSelStop_clock _ _ hr
    · simp at hr
  case costed =>
    intro i _ hr
    unfold apCosted at hr
    split at hr
    · exact apCostedNew_clock _ _ _ _ hr
    · obtain ⟨_, hr⟩ := needNone_some hr
      simp only [Option.some.injEq] at hr; subst hr; simp
    · obtain ⟨_, hr⟩ := needNone_some hr
      simp only [Option.some.injEq] at hr; subst hr; simp
  case victims => intro vs _ _ hr; exact apVictims_clock _ _ hr
  case sweep => intro now bs _ hr; exact apSweep_clock _ _ _ _ hr
  all_goals (intros; simp)

/-- Along every step the clock does not go back; only `tick` moves it. -/
theorem step_clock {cfg : Cfg} {s s' : State} {a : Action} (hs : step cfg s a = some s') :
    s'.clock = s.clock ∨ ∃ d : Nat, a = .tick d ∧ s'.clock = s.clock + d := by
  cases a with
  | spawn t c => exact Or.inl (spawnStep_clock s t c hs)
  | client t ch => exact Or.inl (clientStep_clock hs)
  | applier ch => exact Or.inl (applierStep_clock hs)
  | done t => exact Or.inl (doneStep_clock s t hs)
  | tick d =>
    simp only [step, Option.some.injEq] at hs; subst hs
    exact Or.inr ⟨d, rfl, rfl⟩

theorem step_clock_le {cfg : Cfg} {s s' : State} {a : Action} (hs : step cfg s a = some s') :
    s.clock ≤ s'.clock := by
  rcases step_clock hs with h | ⟨d, _, h⟩
  · rw [h]; exact Int.le_refl _
  · rw [h]; exact Int.le_add_of_nonneg_right (Int.natCast_nonneg d)

end RV.Cache
