import RV.Proofs.CacheAcctConf
/-!
# The ghost log only grows; collision-freedom read off the log

`CollisionFree log`: all `Set`/`Del` call events with the same hash carry the same conflict.
A run whose final log is collision-free is a `ReachC` run for the conflict function read off
that log (`reachC_of_collisionFree`).
-/
namespace RV.Cache
open RV Gen.Cache

/-- the step appended events to the log (possibly none) -/
def LogGrows (s s' : State) : Prop := ∃ evs, s'.log = evs ++ s.log

theorem LogGrows.refl (s : State) : LogGrows s s := ⟨[], rfl⟩
theorem LogGrows.of_eq {s s' : State} (h : s'.log = s.log) : LogGrows s s' := ⟨[], by simp [h]⟩
theorem LogGrows.trans {s1 s2 s3 : State} (h1 : LogGrows s1 s2) (h2 : LogGrows s2 s3) : LogGrows s1 s3 := by
  obtain ⟨e1, h1⟩ := h1; obtain ⟨e2, h2⟩ := h2
  exact ⟨e2 ++ e1, by rw [h2, h1, List.append_assoc]⟩
theorem LogGrows.mem {s s' : State} (h : LogGrows s s') {e : Ev} (he : e ∈ s.log) : e ∈ s'.log := by
  obtain ⟨evs, h⟩ := h; rw [h]; exact List.mem_append_right _ he

macro "log_grows" : tactic => `(tactic| first
  | exact ⟨[], rfl⟩
  | exact ⟨[_], rfl⟩
  | exact ⟨[_, _], rfl⟩)

open Lean in
macro "lg_cl " f:ident : tactic =>
  `(tactic| ((unfold $f; try unfold sendBlocking); (try dsimp only); (repeat' split) <;> log_grows))

theorem clientStep_logGrows {cfg : Cfg} {s s' : State} {t : Tid} {ch : Choice}
    (hs : clientStep cfg s t ch = some s') : LogGrows s s' := by
  apply clientStep_cases hs (motive := LogGrows s)
  case setStart => intros; lg_cl stSetStart
  case setUpd => intros; exact .of_eq (stSetUpd_log ..)
  case setExit => intros; lg_cl stSetExit
  case setSend => intros; exact .of_eq (stSetSend_log ..)
  case setRetTrue => intros; lg_cl stSetRetTrue
  case setRetDrop =>
    intro i _ _
    unfold stSetRetDrop; split
    · log_grows
    · exact ⟨[.setRet t i.value false, .drop t i.value], by simp⟩
  case delStart => intros; lg_cl stDelStart
  case delExit => intros; lg_cl stDelExit
  case delSend => intros; exact .of_eq (stDelSend_log ..)
  case delSent => intros; lg_cl stDelSent
  case waitStart => intros; lg_cl stWaitStart
  case waitSend => intros; exact .of_eq (stWaitSend_log ..)
  case waitRecv => intro id _ _ hr; exact .of_eq (stWaitRecv_log _ _ _ hr)
  case waitDone => intros; lg_cl stWaitDone
  case getStart =>
    intro h c _ hr
    rcases stGetStart_cases hr with ⟨_, rfl⟩ | ⟨_, rfl⟩ | ⟨_, kept, n, _, _, rfl⟩
    · log_grows
    · log_grows
    · exact .of_eq (by simp)
  case getRead => intros; exact .of_eq (stGetRead_log ..)
  case getCheck => intros; exact .of_eq (stGetCheck_log ..)
  case getMetric => intro h c r _ _; exact ⟨[.getRet t h c r], by simp [stGetMetric]⟩
  case ttlRead => intros; exact .of_eq (stTtlRead_log ..)
  case ttlCheck => intros; lg_cl stTtlCheck
  case ttlExp => intros; lg_cl stTtlExp
  case ttlNow => intros; lg_cl stTtlNow
  case ttlUntil => intros; lg_cl stTtlUntil
  case iterStart => intros; lg_cl stIterStart
  case iterShard =>
    intro k n seen _ hr
    obtain ⟨ks, _, _, _, hcase⟩ := stIterShard_cases hr
    rcases hcase with ⟨_, rfl⟩ | ⟨_, rfl⟩ <;> log_grows
  case clrStart => intros; lg_cl stClrStart
  case clrDrain =>
    intro closing _ _
    rcases stClrDrain_cases s t closing with ⟨_, e⟩ | ⟨id, s1, hr, e⟩ | ⟨i, s1, hr, _, e⟩ | ⟨i, s1, hr, _, e⟩ <;> rw [e]
    · log_grows
    · exact .of_eq (by simp [recvBuf_log hr])
    · exact ⟨[_, _], by simp [recvBuf_log hr]; exact ⟨rfl, rfl⟩⟩
    · exact .of_eq (recvBuf_log hr)
  case clrPolicy => intros; exact .of_eq (stClrPolicy_log ..)
  case clrShard =>
    intro closing k _ hr
    obtain ⟨ks, _, _, _, rfl⟩ := stClrShard_cases hr
    obtain ⟨evs, h1, _⟩ := evictAll_log s s.store ks
    exact ⟨evs, by simpa using h1⟩
  case clrEm => intros; exact .of_eq (stClrEm_log ..)
  case clrMetrics => intros; exact .of_eq (stClrMetrics_log ..)
  case clrRestart => intros; lg_cl stClrRestart
  case clsFinish => intros; lg_cl stClsFinish
  case updMax => intros; exact .of_eq (stUpdMax_log ..)
  case readMax => intros; lg_cl stReadMax
  case readRem => intros; lg_cl stReadRem

theorem applierStep_logGrows {cfg : Cfg} {s s' : State} {ch : Choice}
    (hs : applierStep cfg s ch = some s') : LogGrows s s' := by
  apply applierStep_cases hs (motive := LogGrows s)
  case idle =>
    intro _ hr
    rcases apIdle_cases hr with ⟨id, s1, _, hrecv, rfl⟩ | ⟨i, s1, _, hrecv, rfl⟩ | ⟨_, rfl⟩ | ⟨t, _, hstop⟩
    · exact .of_eq (recvBuf_log (s1 := s1) hrecv)
    · exact .of_eq (recvBuf_log (s1 := s1) hrecv)
    · log_grows
    · exact .of_eq (apSelStop_log _ _ hstop)
  case marker => intros; exact .of_eq (apMarker_log ..)
  case item => intros; exact .of_eq (apItem_log ..)
  case costed =>
    intro i _ hr
    rcases apCosted_cases hr with ⟨victims, added, pm, _, _, _, rfl⟩ | ⟨_, _, rfl⟩ | ⟨_, _, rfl⟩ <;> log_grows
  case added =>
    intro i victims ok _ _
    unfold apAdded; split
    · exact .of_eq (by simp)
    · log_grows
  case victims => intro vs _ _ hr; exact .of_eq (apVictims_log _ _ hr)
  case victimEvict => intros; unfold apVictimEvict; log_grows
  case tombPolicy => intros; exact .of_eq (apTombPolicy_log ..)
  case tombStore => intros; unfold apTombStore; log_grows
  case tick => intros; exact .of_eq (apTick_log ..)
  case sweep => intro now bs _ hr; exact .of_eq (apSweep_log _ _ _ _ hr)
  case swKey => intros; exact .of_eq (apSwKey_log ..)
  case swStoreDel => intros; exact .of_eq (apSwStoreDel_log ..)
  case swPolDel => intros; unfold apSwPolDel; log_grows

theorem step_logGrows {cfg : Cfg} {s s' : State} {a : Action} (hs : step cfg s a = some s') : LogGrows s s' := by
  cases a with
  | spawn t c =>
    have hs' : spawnStep s t c = some s' := hs
    have hidle := spawnStep_idle hs'
    unfold spawnStep at hs'; rw [hidle] at hs'; dsimp only at hs'
    split at hs' <;> (simp only [Option.some.injEq] at hs'; subst hs'; log_grows)
  | client t ch => exact clientStep_logGrows hs
  | applier ch => exact applierStep_logGrows hs
  | done t => exact .of_eq (doneStep_log _ _ hs)
  | tick d => simp only [step, Option.some.injEq] at hs; subst hs; exact .refl _

theorem run_logGrows {cfg : Cfg} {s s' : State} {acts : List Action} (hr : run cfg s acts = some s') :
    LogGrows s s' := by
  induction acts generalizing s with
  | nil => simp [run] at hr; subst hr; exact .refl _
  | cons a as ih =>
    simp only [run] at hr
    cases hs : step cfg s a with
    | none => simp [hs] at hr
    | some s1 => simp only [hs] at hr; exact (step_logGrows hs).trans (ih hr)

/-! ### collision-freedom -/

/-- hash and conflict of a `Set` / `Del` call event -/
def callHC : Ev → Option (Hash × Conf)
  | .setCall _ h c _ _ _ => some (h, c)
  | .delCall _ h c => some (h, c)
  | _ => none

/-- all `Set`/`Del` calls with the same hash carry the same conflict (no two live keys collide on
the primary hash) -/
def CollisionFree (l : List Ev) : Prop :=
  ∀ e1 ∈ l, ∀ e2 ∈ l, ∀ h c1 c2, callHC e1 = some (h, c1) → callHC e2 = some (h, c2) → c1 = c2

/-- the conflict the log's calls use for hash `h` (0 if there is no call for `h`) -/
def confOfLog (l : List Ev) (h : Hash) : Conf :=
  (l.findSome? fun e => match callHC e with
    | some (h', c) => if h' = h then some c else none
    | none => none).getD 0

theorem confOfLog_spec {l : List Ev} (hcf : CollisionFree l) {e : Ev} (he : e ∈ l) {h : Hash} {c : Conf}
    (hc : callHC e = some (h, c)) : c = confOfLog l h := by
  unfold confOfLog
  cases hf : l.findSome? (fun e => match callHC e with
    | some (h', c) => if h' = h then some c else none
    | none => none) with
  | none =>
    rw [List.findSome?_eq_none_iff] at hf
    have := hf e he
    simp [hc] at this
  | some c' =>
    obtain ⟨e', he', hc'⟩ := List.exists_of_findSome?_eq_some hf
    have : callHC e' = some (h, c') := by
      cases h1 : callHC e' with
      | none => simp [h1] at hc'
      | some p =>
        obtain ⟨h', c''⟩ := p
        simp only [h1] at hc'
        split at hc'
        · rename_i hh; simp only [Option.some.injEq] at hc'; rw [hh, hc']
        · cases hc'
    simp only [Option.getD_some]
    exact hcf e he e' he' h c c' hc this

theorem spawn_logs_call {s s' : State} {t : Tid} {c : Call} (hs : spawnStep s t c = some s') :
    (∀ h cf v cost ttl, c = .set h cf v cost ttl → .setCall t h cf v cost ttl ∈ s'.log) ∧
    (∀ h cf, c = .del h cf → .delCall t h cf ∈ s'.log) := by
  have hidle := spawnStep_idle hs
  unfold spawnStep at hs; rw [hidle] at hs; dsimp only at hs
  constructor
  · intro h cf v cost ttl hc; subst hc
    simp only [Option.some.injEq] at hs; subst hs; simp
  · intro h cf hc; subst hc
    simp only [Option.some.injEq] at hs; subst hs; simp

theorem reachC_of_run {cfg : Cfg} {conf : Hash → Conf} {s0 s : State} {acts : List Action}
    (h0 : ReachC cfg conf s0) (hr : run cfg s0 acts = some s)
    (hconf : ∀ e ∈ s.log, ∀ h c, callHC e = some (h, c) → c = conf h) : ReachC cfg conf s := by
  induction acts generalizing s0 with
  | nil => simp [run] at hr; subst hr; exact h0
  | cons a as ih =>
    simp only [run] at hr
    cases hs : step cfg s0 a with
    | none => simp [hs] at hr
    | some s1 =>
      simp only [hs] at hr
      refine ih (h0.step ?_ hs) hr
      have hg := run_logGrows hr
      cases a with
      | spawn t c =>
        have hl := spawn_logs_call (show spawnStep s0 t c = some s1 from hs)
        cases c with
        | set h cf v cost ttl => exact hconf _ (hg.mem (hl.1 h cf v cost ttl rfl)) h cf rfl
        | del h cf => exact hconf _ (hg.mem (hl.2 h cf rfl)) h cf rfl
        | _ => trivial
      | _ => trivial

/-- A run whose final log is collision-free is a `ReachC` run. -/
theorem reachC_of_collisionFree {cfg : Cfg} {now : Time} {s : State} {acts : List Action}
    (hr : run cfg (init cfg now) acts = some s) (hcf : CollisionFree s.log) :
    ReachC cfg (confOfLog s.log) s :=
  reachC_of_run (ReachC.init now) hr (fun _ he _ _ hc => confOfLog_spec hcf he hc)

end RV.Cache
