import RV.Proofs.CacheTTLExp
/-!
# The read paths: `Get`, `GetTTL`, `IterValues` never yield an item after its expiration (C07 c, e)

`ReadInv` = per-thread facts along the three read paths (the open call event of the
thread, what is known about the value/expiration it holds) + three suffix-closed facts
about the log (`QGet`, `QTtl`, `QIter`): whatever a read returned was carried with an
expiration `exp` that is `zeroTime` or not before the *start* of that read call.
-/
namespace RV.Cache
open Gen.Cache

/-- `omega` after exposing `Time = Int` -/
macro "tomega" : tactic => `(tactic| ((try simp only [Time] at *); omega))

/-- the value `v` was supplied with an expiration that has not passed at `now` -/
def NotAfter (l : List Ev) (now : Time) (v : Val) : Prop :=
  ∃ exp, Logged l v exp ∧ (exp = Gen.zeroTime ∨ now ≤ exp)

theorem NotAfter.mono {l l' : List Ev} {now : Time} {v : Val} (h : NotAfter l now v) (hsub : ∀ e ∈ l, e ∈ l') :
    NotAfter l' now v := by
  obtain ⟨exp, h1, h2⟩ := h
  exact ⟨exp, h1.mono hsub, h2⟩

/-- what `GetTTL = (d, true)` with `d ≠ 0` knows: `d` was computed from an expiration `exp` that was
logged by a `SetWithTTL`, lies at or after the start `now` of the call, `d ≤ exp - now`, and `d` is at
most the ttl given to that `SetWithTTL` -/
def TtlBound (l : List Ev) (now : Time) (d : Int) : Prop :=
  ∃ t' v exp, Ev.setExp t' v exp ∈ l ∧ exp ≠ Gen.zeroTime ∧ now ≤ exp ∧ d ≤ exp - now ∧
    (Fresh l → ∃ h' c' cost ttl, Ev.setCall t' h' c' v cost ttl ∈ l ∧ d ≤ ttl)

def QGet (rest : List Ev) : Prop :=
  ∀ t h c v tl now, rest = .getRet t h c (some v) :: tl →
    OpenCall (IsGetCall t) tl (.getCall t h c now) → NotAfter tl now v

def QTtl (rest : List Ev) : Prop :=
  ∀ t h c d tl now, rest = .ttlRet t h c d true :: tl →
    OpenCall (IsTtlCall t) tl (.ttlCall t h c now) → d = 0 ∨ TtlBound tl now d

def QIter (rest : List Ev) : Prop :=
  ∀ t seen tl now, rest = .iterRet t seen :: tl →
    OpenCall (IsIterCall t) tl (.iterCall t now) → ∀ v ∈ seen, NotAfter tl now v

/-- what is known while thread `t` is at pc `pc` of a read path -/
def ReadPcOk (l : List Ev) (t : Tid) : CPc → Prop
  | .getStart h c => ∃ now, OpenCall (IsGetCall t) l (.getCall t h c now)
  | .getRead h c => ∃ now, OpenCall (IsGetCall t) l (.getCall t h c now)
  | .getCheck h c _ => ∃ now, OpenCall (IsGetCall t) l (.getCall t h c now)
  | .getMetric h c r => ∃ now, OpenCall (IsGetCall t) l (.getCall t h c now) ∧ ∀ v, r = some v → NotAfter l now v
  | .ttlRead h c => ∃ now, OpenCall (IsTtlCall t) l (.ttlCall t h c now)
  | .ttlCheck h c _ => ∃ now, OpenCall (IsTtlCall t) l (.ttlCall t h c now)
  | .ttlExp h c => ∃ now, OpenCall (IsTtlCall t) l (.ttlCall t h c now)
  | .ttlNow h c exp => ∃ now, OpenCall (IsTtlCall t) l (.ttlCall t h c now) ∧ exp ≠ Gen.zeroTime ∧
      ∃ t' v, Ev.setExp t' v exp ∈ l
  | .ttlUntil h c exp => ∃ now, OpenCall (IsTtlCall t) l (.ttlCall t h c now) ∧ exp ≠ Gen.zeroTime ∧
      now ≤ exp ∧ ∃ t' v, Ev.setExp t' v exp ∈ l
  | .iterStart _ => ∃ now, OpenCall (IsIterCall t) l (.iterCall t now)
  | .iterShard _ _ seen => ∃ now, OpenCall (IsIterCall t) l (.iterCall t now) ∧ ∀ v ∈ seen, NotAfter l now v
  | _ => True

structure ReadInv (s : State) : Prop where
  pc : ∀ t, ReadPcOk s.log t (s.cl t)
  get : AllSuffix QGet s.log
  ttl : AllSuffix QTtl s.log
  iter : AllSuffix QIter s.log

/-- events that are not a read-call of thread `t` -/
def NoCallOf (t : Tid) (e : Ev) : Prop := ¬ IsGetCall t e ∧ ¬ IsTtlCall t e ∧ ¬ IsIterCall t e

theorem noCallOf_quiet {e : Ev} (h : e.quiet = true) (t : Tid) : NoCallOf t e := by
  refine ⟨?_, ?_, ?_⟩
  · rintro ⟨_, _, _, rfl⟩; simp [Ev.quiet] at h
  · rintro ⟨_, _, _, rfl⟩; simp [Ev.quiet] at h
  · rintro ⟨_, rfl⟩; simp [Ev.quiet] at h

theorem readPcOk_mono {l : List Ev} {t : Tid} {pc : CPc} (evs : List Ev) (h : ReadPcOk l t pc)
    (hno : ∀ y ∈ evs, NoCallOf t y) : ReadPcOk (evs ++ l) t pc := by
  have hsub : ∀ e ∈ l, e ∈ evs ++ l := fun e he => List.mem_append_right _ he
  have g := fun {e} (h : OpenCall (IsGetCall t) l e) => h.append (evs := evs) fun y hy => (hno y hy).1
  have tt := fun {e} (h : OpenCall (IsTtlCall t) l e) => h.append (evs := evs) fun y hy => (hno y hy).2.1
  have it := fun {e} (h : OpenCall (IsIterCall t) l e) => h.append (evs := evs) fun y hy => (hno y hy).2.2
  cases pc <;> simp only [ReadPcOk] at h ⊢
  case getStart => obtain ⟨now, h⟩ := h; exact ⟨now, g h⟩
  case getRead => obtain ⟨now, h⟩ := h; exact ⟨now, g h⟩
  case getCheck => obtain ⟨now, h⟩ := h; exact ⟨now, g h⟩
  case getMetric => obtain ⟨now, h, h2⟩ := h; exact ⟨now, g h, fun v hv => (h2 v hv).mono hsub⟩
  case ttlRead => obtain ⟨now, h⟩ := h; exact ⟨now, tt h⟩
  case ttlCheck => obtain ⟨now, h⟩ := h; exact ⟨now, tt h⟩
  case ttlExp => obtain ⟨now, h⟩ := h; exact ⟨now, tt h⟩
  case ttlNow => obtain ⟨now, h, h2, t', v, h3⟩ := h; exact ⟨now, tt h, h2, t', v, hsub _ h3⟩
  case ttlUntil => obtain ⟨now, h, h2, h3, t', v, h4⟩ := h; exact ⟨now, tt h, h2, h3, t', v, hsub _ h4⟩
  case iterStart => obtain ⟨now, h⟩ := h; exact ⟨now, it h⟩
  case iterShard => obtain ⟨now, h, h2⟩ := h; exact ⟨now, it h, fun v hv => (h2 v hv).mono hsub⟩

theorem readPcOk_irrel {l : List Ev} {t : Tid} {pc : CPc} (h : pc.ttlRel = false) : ReadPcOk l t pc := by
  cases pc <;> simp_all [ReadPcOk, CPc.ttlRel]

theorem qGet_quiet {e : Ev} {l : List Ev} (h : ∀ t h c r, e ≠ .getRet t h c r) : QGet (e :: l) := by
  intro t hh c v tl now heq; simp only [List.cons.injEq] at heq; exact absurd heq.1 (h _ _ _ _)
theorem qTtl_quiet {e : Ev} {l : List Ev} (h : ∀ t h c d, e ≠ .ttlRet t h c d true) : QTtl (e :: l) := by
  intro t hh c d tl now heq; simp only [List.cons.injEq] at heq; exact absurd heq.1 (h _ _ _ _)
theorem qIter_quiet {e : Ev} {l : List Ev} (h : ∀ t seen, e ≠ .iterRet t seen) : QIter (e :: l) := by
  intro t seen tl now heq; simp only [List.cons.injEq] at heq; exact absurd heq.1 (h _ _)

/-! ### the three comparisons -/

theorem getResult_some {c : Conf} {e : Option Entry} {now : Time} {v : Val} (h : getResult c e now = some v) :
    ∃ e0, e = some e0 ∧ v = e0.value ∧ getConflictMismatch c e0.conflict = false ∧
      (e0.exp = Gen.zeroTime ∨ now ≤ e0.exp) := by
  unfold getResult at h
  split at h
  · cases h
  · rename_i e0
    split at h
    · cases h
    · split at h
      · cases h
      · rename_i h1 h2
        simp only [Option.some.injEq] at h
        refine ⟨e0, rfl, h.symm, by simpa using h1, ?_⟩
        simp only [getExpired, Bool.and_eq_true, Bool.not_eq_eq_eq_not, Bool.not_true, beq_eq_false_iff_ne,
          decide_eq_true_eq, not_and, Int.not_lt] at h2
        by_cases hz : e0.exp = Gen.zeroTime
        · exact Or.inl hz
        · exact Or.inr (h2 hz)

theorem iterVisit_mem {st : Store} {now : Time} {n : Nat} {ks : List Hash} {seen : List Val} {v : Val}
    (h : v ∈ (iterVisit st now n ks seen).1) :
    v ∈ seen ∨ ∃ k e, st.lookup k = some e ∧ e.value = v ∧ iterExpired e.exp now = false := by
  induction ks generalizing seen with
  | nil => exact Or.inl h
  | cons k rest ih =>
    unfold iterVisit at h
    split at h
    · exact ih h
    · rename_i e he
      split at h
      · exact ih h
      · rename_i hexp
        dsimp only at h
        have hnew : v ∈ seen ++ [e.value] → v ∈ seen ∨ ∃ k e, st.lookup k = some e ∧ e.value = v ∧ iterExpired e.exp now = false := by
          intro hm
          rcases List.mem_append.mp hm with hm | hm
          · exact Or.inl hm
          · simp only [List.mem_cons, List.not_mem_nil, or_false] at hm
            exact Or.inr ⟨k, e, he, hm.symm, by simpa using hexp⟩
        split at h
        · exact hnew h
        · rcases ih h with h | h
          · exact hnew h
          · exact Or.inr h

theorem iterExpired_false {exp now : Time} (h : iterExpired exp now = false) : exp = Gen.zeroTime ∨ now ≤ exp := by
  simp only [iterExpired, Bool.and_eq_false_imp, Bool.not_eq_eq_eq_not, Bool.not_true, beq_eq_false_iff_ne,
    decide_eq_false_iff_not, Int.not_lt] at h
  by_cases hz : exp = Gen.zeroTime
  · exact Or.inl hz
  · exact Or.inr (h hz)

/-! ### preservation -/

theorem Loud.noCallOf {s : State} {t t' : Tid} {pc pc' : CPc} {e : Ev} (h : Loud s t pc pc' e) (hne : t' ≠ t) :
    NoCallOf t' e := by
  refine ⟨?_, ?_, ?_⟩
  · rintro ⟨_, _, _, rfl⟩; cases h; exact hne rfl
  · rintro ⟨_, _, _, rfl⟩; cases h; exact hne rfl
  · rintro ⟨_, rfl⟩; cases h; exact hne rfl

theorem readInv_step {cfg : Cfg} {s s' : State} {a : Action} (hexp : ExpInv s) (hnow : CallNowInv s)
    (huniq : Fresh s.log → UniqInv s) (h : ReadInv s) (hs : step cfg s a = some s') : ReadInv s' := by
  cases step_view hs with
  | quiet evs hlog hq hcl =>
    have hsub : ∀ e ∈ s.log, e ∈ s'.log := fun e he => by rw [hlog]; exact List.mem_append_right _ he
    refine ⟨fun t => ?_, ?_, ?_, ?_⟩
    · rw [hlog]
      have hno : ∀ y ∈ evs, NoCallOf t y := fun y hy => noCallOf_quiet (hq y hy) t
      have hpc := h.pc t
      have hq' := hcl t
      generalize hpc0 : s.cl t = pc0 at hq' hpc
      generalize s'.cl t = pc1 at hq'
      cases hq' with
      | same => exact readPcOk_mono evs hpc hno
      | other _ _ _ h1 => exact readPcOk_irrel h1
      | setFail => trivial
      | getStart hh c => exact readPcOk_mono evs (pc := .getRead hh c) hpc hno
      | getRead hh c => exact readPcOk_mono evs (pc := .getCheck hh c _) hpc hno
      | getCheck hh c e =>
        refine readPcOk_mono evs (pc := .getMetric hh c _) ?_ hno
        obtain ⟨now, hopen⟩ := hpc
        refine ⟨now, hopen, fun v hv => ?_⟩
        obtain ⟨e0, rfl, rfl, _, hle⟩ := getResult_some hv
        have hlg : Logged s.log e0.value e0.exp := hexp (e0.value, e0.exp) (.cl t (by rw [hpc0]; simp [cpcCar]))
        have hn := hnow _ hopen.mem now rfl
        refine ⟨e0.exp, hlg, ?_⟩
        rcases hle with hle | hle
        · exact Or.inl hle
        · exact Or.inr (Int.le_trans hn hle)
      | ttlRead hh c => exact readPcOk_mono evs (pc := .ttlCheck hh c _) hpc hno
      | ttlCheck hh c e v => exact readPcOk_mono evs (pc := .ttlExp hh c) hpc hno
      | ttlExp hh c hne =>
        refine readPcOk_mono evs (pc := .ttlNow hh c _) ?_ hno
        obtain ⟨now, hopen⟩ := hpc
        have hz : expirationOf s.store hh ≠ Gen.zeroTime := by simpa [getTTLNoExpiry] using hne
        refine ⟨now, hopen, hz, ?_⟩
        unfold expirationOf at hz ⊢
        split at hz
        · rename_i e0 hl
          rcases hexp (e0.value, e0.exp) (.store hh e0 hl rfl) with ⟨_, h2⟩ | ⟨t', h2⟩
          · exact absurd h2 hz
          · exact ⟨t', e0.value, h2⟩
        · exact absurd rfl hz
      | ttlNow hh c exp hne =>
        refine readPcOk_mono evs (pc := .ttlUntil hh c exp) ?_ hno
        obtain ⟨now, hopen, hz, hset⟩ := hpc
        have hn := hnow _ hopen.mem now rfl
        have hle : s.clock ≤ exp := by simpa [getTTLExpired] using hne
        exact ⟨now, hopen, hz, Int.le_trans hn hle, hset⟩
      | iterStart n =>
        refine readPcOk_mono evs (pc := .iterShard 0 n []) ?_ hno
        obtain ⟨now, hopen⟩ := hpc
        exact ⟨now, hopen, by simp⟩
      | iterShard k n seen ks hord =>
        refine readPcOk_mono evs (pc := .iterShard (k + 1) n _) ?_ hno
        obtain ⟨now, hopen, hseen⟩ := hpc
        refine ⟨now, hopen, fun v hv => ?_⟩
        rcases iterVisit_mem hv with hv | ⟨k', e0, hl, rfl, hx⟩
        · exact hseen v hv
        · have hn := hnow _ hopen.mem now rfl
          refine ⟨e0.exp, hexp (e0.value, e0.exp) (.store k' e0 hl rfl), ?_⟩
          rcases iterExpired_false hx with hle | hle
          · exact Or.inl hle
          · exact Or.inr (Int.le_trans hn hle)
    · rw [hlog]
      refine allSuffix_append (fun l3 rest heq hne => ?_) h.get
      cases rest with
      | nil => exact absurd rfl hne
      | cons e rest =>
        have : e.quiet = true := hq e (by rw [heq]; simp)
        exact qGet_quiet fun _ _ _ _ he => by subst he; simp [Ev.quiet] at this
    · rw [hlog]
      refine allSuffix_append (fun l3 rest heq hne => ?_) h.ttl
      cases rest with
      | nil => exact absurd rfl hne
      | cons e rest =>
        have : e.quiet = true := hq e (by rw [heq]; simp)
        exact qTtl_quiet fun _ _ _ _ he => by subst he; simp [Ev.quiet] at this
    · rw [hlog]
      refine allSuffix_append (fun l3 rest heq hne => ?_) h.iter
      cases rest with
      | nil => exact absurd rfl hne
      | cons e rest =>
        have : e.quiet = true := hq e (by rw [heq]; simp)
        exact qIter_quiet fun _ _ he => by subst he; simp [Ev.quiet] at this
  | loud t0 e0 hlog hne hl =>
    have hsub : ∀ e ∈ s.log, e ∈ s'.log := fun e he => by rw [hlog]; exact List.mem_cons_of_mem _ he
    have hpc0 := h.pc t0
    have others : ∀ t, t ≠ t0 → ReadPcOk s'.log t (s'.cl t) := fun t ht => by
      rw [hlog, hne t ht]
      exact readPcOk_mono [e0] (h.pc t) (fun y hy => by
        simp only [List.mem_cons, List.not_mem_nil, or_false] at hy; subst hy; exact hl.noCallOf ht)
    have pcs : ReadPcOk (e0 :: s.log) t0 (s'.cl t0) → ∀ t, ReadPcOk s'.log t (s'.cl t) := fun h0 t => by
      by_cases ht : t = t0
      · subst ht; rw [hlog]; exact h0
      · exact others t ht
    have mk : ReadPcOk (e0 :: s.log) t0 (s'.cl t0) → QGet (e0 :: s.log) → QTtl (e0 :: s.log) →
        QIter (e0 :: s.log) → ReadInv s' := fun h0 h1 h2 h3 =>
      ⟨pcs h0, by rw [hlog]; exact allSuffix_cons h1 h.get, by rw [hlog]; exact allSuffix_cons h2 h.ttl,
        by rw [hlog]; exact allSuffix_cons h3 h.iter⟩
    generalize hp0 : s.cl t0 = pc0 at hl hpc0
    generalize hp1 : s'.cl t0 = pc1 at hl mk
    cases hl with
    | setCall hh c v cost ttl =>
      exact mk trivial (qGet_quiet (by intros; simp)) (qTtl_quiet (by intros; simp)) (qIter_quiet (by intros; simp))
    | setExp hh c v cost ttl exp =>
      exact mk trivial (qGet_quiet (by intros; simp)) (qTtl_quiet (by intros; simp)) (qIter_quiet (by intros; simp))
    | getCall hh c =>
      exact mk ⟨s.clock, OpenCall.head ..⟩ (qGet_quiet (by intros; simp)) (qTtl_quiet (by intros; simp)) (qIter_quiet (by intros; simp))
    | ttlCall hh c =>
      exact mk ⟨s.clock, OpenCall.head ..⟩ (qGet_quiet (by intros; simp)) (qTtl_quiet (by intros; simp)) (qIter_quiet (by intros; simp))
    | iterCall n =>
      exact mk ⟨s.clock, OpenCall.head ..⟩ (qGet_quiet (by intros; simp)) (qTtl_quiet (by intros; simp)) (qIter_quiet (by intros; simp))
    | getClosed hh c =>
      refine mk trivial ?_ (qTtl_quiet (by intros; simp)) (qIter_quiet (by intros; simp))
      intro t hh' c' v tl now heq
      simp at heq
    | getRet hh c r =>
      refine mk trivial ?_ (qTtl_quiet (by intros; simp)) (qIter_quiet (by intros; simp))
      intro t hh' c' v tl now heq hopen
      simp only [List.cons.injEq, Ev.getRet.injEq] at heq
      obtain ⟨⟨rfl, rfl, rfl, rfl⟩, rfl⟩ := heq
      obtain ⟨now', hopen', hv⟩ := hpc0
      have := OpenCall.unique ⟨_, _, _, rfl⟩ ⟨_, _, _, rfl⟩ hopen hopen'
      simp only [Ev.getCall.injEq, true_and] at this
      subst this
      exact hv v rfl
    | ttlMiss hh c e =>
      exact mk trivial (qGet_quiet (by intros; simp)) (qTtl_quiet (by intros; simp)) (qIter_quiet (by intros; simp))
    | ttlGone hh c exp =>
      exact mk trivial (qGet_quiet (by intros; simp)) (qTtl_quiet (by intros; simp)) (qIter_quiet (by intros; simp))
    | ttlNoExp hh c =>
      refine mk trivial (qGet_quiet (by intros; simp)) ?_ (qIter_quiet (by intros; simp))
      intro t hh' c' d tl now heq _
      simp only [List.cons.injEq, Ev.ttlRet.injEq] at heq
      exact Or.inl heq.1.2.2.2.1.symm
    | ttlRet hh c exp =>
      refine mk trivial (qGet_quiet (by intros; simp)) ?_ (qIter_quiet (by intros; simp))
      intro t hh' c' d tl now heq hopen
      simp only [List.cons.injEq, Ev.ttlRet.injEq, and_true] at heq
      obtain ⟨⟨rfl, rfl, rfl, rfl⟩, rfl⟩ := heq
      obtain ⟨now', hopen', hz, hle, t', v, hset⟩ := hpc0
      have := OpenCall.unique ⟨_, _, _, rfl⟩ ⟨_, _, _, rfl⟩ hopen hopen'
      simp only [Ev.ttlCall.injEq, true_and] at this
      subst this
      have hn : now ≤ s.clock := hnow _ hopen.mem now rfl
      refine Or.inr ⟨t', v, exp, hset, hz, hle, ?_, ?_⟩
      · simp only [getTTLRemaining]; tomega
      · intro hf
        obtain ⟨h', c'', cost, ttl, hcall⟩ := (huniq hf).call t' v exp hset
        refine ⟨h', c'', cost, ttl, hcall, ?_⟩
        rcases (huniq hf).exp t' v exp h' c'' cost ttl hset hcall with ⟨_, h2⟩ | ⟨_, h2⟩
        · exact absurd h2 hz
        · simp only [getTTLRemaining]; tomega
    | iterClosed n =>
      refine mk trivial (qGet_quiet (by intros; simp)) (qTtl_quiet (by intros; simp)) ?_
      intro t seen tl now heq _ v hv
      simp only [List.cons.injEq, Ev.iterRet.injEq] at heq
      rw [← heq.1.2] at hv; simp at hv
    | iterRet k n seen ks hord =>
      refine mk trivial (qGet_quiet (by intros; simp)) (qTtl_quiet (by intros; simp)) ?_
      intro t seen' tl now heq hopen v hv
      simp only [List.cons.injEq, Ev.iterRet.injEq] at heq
      obtain ⟨⟨rfl, rfl⟩, rfl⟩ := heq
      obtain ⟨now', hopen', hseen⟩ := hpc0
      have := OpenCall.unique ⟨_, rfl⟩ ⟨_, rfl⟩ hopen hopen'
      simp only [Ev.iterCall.injEq, true_and] at this
      subst this
      rcases iterVisit_mem hv with hv | ⟨k', e1, hl, rfl, hx⟩
      · exact hseen v hv
      · have hn := hnow _ hopen.mem now rfl
        refine ⟨e1.exp, hexp (e1.value, e1.exp) (.store k' e1 hl rfl), ?_⟩
        rcases iterExpired_false hx with hle | hle
        · exact Or.inl hle
        · exact Or.inr (Int.le_trans hn hle)

theorem readInv_init (cfg : Cfg) (now : Time) : ReadInv (init cfg now) := by
  refine ⟨fun t => by simp [init, ReadPcOk], ?_, ?_, ?_⟩
  · exact allSuffix_nil (by intro t h c v tl now heq; simp at heq)
  · exact allSuffix_nil (by intro t h c v tl now heq; simp at heq)
  · exact allSuffix_nil (by intro t seen tl now heq; simp at heq)

theorem readInv_reach {cfg : Cfg} {s : State} (h : Reach cfg s) : ReadInv s :=
  Reach.induction (readInv_init cfg)
    (fun _ _ _ hr hp hs => readInv_step (expInv_reach hr) (callNow_reach hr) (uniq_reach hr) hp hs) h

end RV.Cache
